(* Tree.v — pure model of tree/node.go, root.go, pair.go, hashing.go (definitions only).
   Node identity and the memoised root are modelled in Heap.v; here a tree is a value. *)
From Ztyp Require Import Base Bitlen.
Open Scope N_scope.

Inductive node := Leaf (c : chunk) | Pair (l r : node).

Definition is_leaf (n : node) : bool := match n with Leaf _ => true | _ => false end.

Section WithHash.
Variable H : chunk -> chunk -> chunk.

Fixpoint root_of (n : node) : chunk :=
  match n with Leaf c => c | Pair l r => H (root_of l) (root_of r) end.

End WithHash.

Section WithZero.
(* zh d = tree.ZeroHashes[d]; the table has 65 entries (InitZeroHashes(h, 64)).
   Theorems assume [forall d, zh d = zero_hash H d]. *)
Variable zh : nat -> chunk.

(* tree.ZeroNode(depth): panics beyond the table *)
Definition zero_node (d : N) : res node :=
  if d <=? 64 then OK (Leaf (zh (nat_of d))) else Panic.

(* ---- Getter ---- *)
(* Root.Getter / PairNode.Getter: follow the path bits; a leaf on the way is a NavigationError *)
Fixpoint get_path (n : node) (p : list bool) : res node :=
  match p with
  | [] => OK n
  | b :: p' => match n with
               | Leaf _ => Err
               | Pair l r => get_path (if b then r else l) p'
               end
  end.
Definition getter (n : node) (g : N) : res node := get_path n (g_path g).

(* ---- Setter (returns the rebound tree directly: link(v)) ----
   PairNode.Setter / DeeperSetter / Root.Setter.  When the walk meets a leaf with k path
   bits still to go *after* the current one, that leaf stands at height k+1.  Without
   [expand] this is a NavigationError.  With [expand] the leaf is replaced by
   Pair z z, z = ZeroNode(k), but only if it is the zero-subtree summary of its height
   (ZeroHashes[k+1]); any other leaf is a NavigationError (repaired code, fixes D11 and
   D18: the anchor case of Root.Setter is then the same rule). *)
Fixpoint set_path (n : node) (p : list bool) (expand : bool) (v : node) : res node :=
  match p with
  | [] => OK v
  | b :: p' =>
    do lr <- match n with
             | Pair l r => OK (l, r)
             | Leaf c =>
               if expand then
                 if chunk_eqb c (zh (S (length p'))) then
                   do z <- zero_node (N.of_nat (length p')); OK (z, z)
                 else Err
               else Err
             end;
    let '(l, r) := lr in
    if b then do r' <- set_path r p' expand v; OK (Pair l r')
    else do l' <- set_path l p' expand v; OK (Pair l' r)
  end.

(* Node.Setter(target, expand) applied to v.  Valid targets are g >= 1 (gindex 0 is
   outside the model: Go treats it as "close, left"). *)
Definition setter (n : node) (g : N) (expand : bool) (v : node) : res node :=
  set_path n (g_path g) expand v.

(* tree.SummaryInto + PairNode/Root.SummarizeInto *)
Definition summarize (H : chunk -> chunk -> chunk) (n : node) (g : N) : res node :=
  match n with
  | Leaf _ => if g =? 1 then OK n else Err
  | Pair _ _ =>
    do _ <- setter n g false n;  (* Setter(target,false) must succeed first *)
    do sub <- getter n g;
    setter n g false (Leaf (root_of H sub))
  end.

(* ---- SubtreeFillTo* ---- *)
Fixpoint fill_to_depth (bottom : node) (d : nat) : node :=
  match d with O => bottom | S d' => let n := fill_to_depth bottom d' in Pair n n end.

(* SubtreeFillToLength(bottom, depth, length); depth is structural.  Go's depth-0 case:
   anchor = 1; length > 1 -> error; length == 1 -> bottom; length == 0 falls to
   [depth == 1] false, pivot = 0, length <= pivot -> recursion with depth-1 = 255 (uint8
   wrap): never called with length 0 by the library (ComplexVector[T,0] is illegal). *)
Fixpoint fill_to_length (bottom : node) (d : nat) (len : N) : res node :=
  let anchor := shl64 1 (N.of_nat d) in
  if anchor <? len then Err else
  if len =? anchor then OK (fill_to_depth bottom d) else
  match d with
  | O => Panic (* length 0 at depth 0: unbounded recursion in Go; excluded by wf_ty *)
  | S d' =>
    match d' with
    | O => if 1 <? len then OK (Pair bottom bottom) else OK (Pair bottom (Leaf (zh 0)))
    | S _ =>
      let pivot := shl64 1 (N.of_nat d') in
      if len <=? pivot then
        do l <- fill_to_length bottom d' len; OK (Pair l (Leaf (zh d')))
      else
        do r <- fill_to_length bottom d' (len - pivot);
        OK (Pair (fill_to_depth bottom d') r)
    end
  end.

(* SubtreeFillToContents(nodes, depth) *)
Fixpoint fill_to_contents (ns : list node) (d : nat) : res node :=
  match ns with
  | [] => zero_node (N.of_nat d)   (* repaired code (D1): no nodes = the zero subtree *)
  | n0 :: rest =>
    let anchor := shl64 1 (N.of_nat d) in
    if anchor <? N.of_nat (length ns) then Err else
    match d with
    | O => OK n0
    | S d' =>
      match d' with
      | O => match rest with
             | n1 :: _ => OK (Pair n0 n1)
             | [] => OK (Pair n0 (Leaf (zh 0)))
             end
      | S _ =>
        let pivot := shl64 1 (N.of_nat d') in
        if N.of_nat (length ns) <=? pivot then
          do l <- fill_to_contents ns d'; OK (Pair l (Leaf (zh d')))
        else
          do l <- fill_to_contents (firstn (nat_of pivot) ns) d';
          do r <- fill_to_contents (skipn (nat_of pivot) ns) d';
          OK (Pair l r)
      end
    end
  end.

End WithZero.
