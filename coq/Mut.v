(* Mut.v — the typed mutations of view/*.go and the view machine (handles, backing hooks,
   sub-views), written once over an abstract node store and instantiated twice: over pure
   trees (Tree.v, the machine TM of property C04) and over the identity-and-memo heap
   (Heap.v, the machine HM of C05-C07, C14).  Definitions only.
   Model of the repaired code (fix: D9 ComplexListView.Pop, D10 UnionView.Change). *)
From Ztyp Require Import Base Bitlen Tree Types View.
Open Scope N_scope.

Section Store.
Variable T : Type.      (* node reference *)
Variable St : Type.      (* store state *)
Variable s_get : St -> T -> N -> res T.                    (* n.Getter(g) *)
Variable s_set : St -> T -> N -> bool -> T -> res (T * St). (* n.Setter(g, expand)(v) *)
Variable s_leaf : St -> chunk -> T * St.                    (* a new *Root *)
Variable s_pair : St -> T -> T -> T * St.                   (* NewPairNode *)
Variable s_chunk : St -> T -> res chunk.                   (* node as a Root: Err on a pair *)
Variable s_zero : nat -> T.                               (* &ZeroHashes[d] *)
Variable s_true : T.                                      (* view.trueRoot *)
Variable zh : nat -> chunk.

Definition m_length (limit : N) (s : St) (a : T) : res N :=
  do r <- s_get s a 3; do c <- s_chunk s r;
  let ll := le_val (firstn 8 c) in if limit <? ll then Err else OK ll.

Definition m_check_index (t : ty) (s : St) (a : T) (i : N) : res unit :=
  do ll <- m_length (list_limit t) s a;
  if ll <=? i then Err else if list_limit t <=? i then Err else OK tt.

Definition m_get_node (t : ty) (s : St) (a : T) (i : N) : res T :=
  do g <- to_gindex64 i (view_depth t); s_get s a g.
Definition m_set_node (t : ty) (s : St) (a : T) (i : N) (v : T) : res (T * St) :=
  do g <- to_gindex64 i (view_depth t); s_set s a g false v.

(* bNode.Setter(RightGindex,false)(newLength) *)
Definition m_set_length (s : St) (a : T) (len : N) : res (T * St) :=
  let '(l, s1) := s_leaf s (pad32 (le_bytes 8 len)) in s_set s1 a 3 false l.

(* ---- packed element series (BasicVector / BasicList) ---- *)
Definition m_packed_set (t e : ty) (s : St) (a : T) (i : N) (v : val) : res (T * St) :=
  let p := per_node e in
  do b <- m_get_node t s a (i / p); do c <- s_chunk s b;
  do c' <- packed_set e c (wrap8 (N.land i (p - 1))) v;
  let '(l, s1) := s_leaf s c' in
  m_set_node t s1 a (i / p) l.

Definition m_basic_append (t e : ty) (limit : N) (s : St) (a : T) (v : val) : res (T * St) :=
  do ll <- m_length limit s a;
  if limit <=? ll then Err else
  let p := per_node e in
  do g <- to_gindex64 (ll / p) (view_depth t);
  do c' <- (if ll mod p =? 0 then packed_set e (zh 0) 0 v
            else do b <- m_get_node t s a (ll / p); do c <- s_chunk s b;
                 packed_set e c (wrap8 (N.land ll (p - 1))) v);
  let '(l, s1) := s_leaf s c' in
  do r <- s_set s1 a g true l; let '(a1, s2) := r in
  m_set_length s2 a1 (ll + 1).

Definition m_basic_pop (t e : ty) (limit : N) (s : St) (a : T) : res (T * St) :=
  do ll <- m_length limit s a;
  if ll =? 0 then Err else
  let p := per_node e in
  do g <- to_gindex64 ((ll - 1) / p) (view_depth t);
  do b <- m_get_node t s a ((ll - 1) / p); do c <- s_chunk s b;
  let sub := wrap8 (N.land (ll - 1) (p - 1)) in
  do dv <- packed_val e (zh 0) sub;
  do c' <- packed_set e c sub dv;
  let '(l, s1) := s_leaf s c' in
  do r <- s_set s1 a g true l; let '(a1, s2) := r in
  m_set_length s2 a1 (ll - 1).

(* ---- bitfields ---- *)
Definition m_bit_set (t : ty) (s : St) (a : T) (i : N) (b : bool) : res (T * St) :=
  do bn <- m_get_node t s a (N.shiftr i 8); do c <- s_chunk s bn;
  let '(l, s1) := s_leaf s (chunk_set_bit c (wrap8 i) b) in
  m_set_node t s1 a (N.shiftr i 8) l.

Definition m_bit_append (t : ty) (limit : N) (s : St) (a : T) (b : bool) : res (T * St) :=
  do ll <- m_length limit s a;
  if limit <=? ll then Err else
  do g <- to_gindex64 (N.shiftr ll 8) (view_depth t);
  do c' <- (if N.land ll 255 =? 0 then OK (chunk_set_bit (zh 0) 0 b)
            else do bn <- m_get_node t s a (N.shiftr ll 8); do c <- s_chunk s bn;
                 OK (chunk_set_bit c (wrap8 ll) b));
  let '(l, s1) := s_leaf s c' in
  do r <- s_set s1 a g true l; let '(a1, s2) := r in
  m_set_length s2 a1 (ll + 1).

Definition m_bit_pop (t : ty) (limit : N) (s : St) (a : T) : res (T * St) :=
  do ll <- m_length limit s a;
  if ll =? 0 then Err else
  do g <- to_gindex64 (N.shiftr (ll - 1) 8) (view_depth t);
  do bn <- m_get_node t s a (N.shiftr (ll - 1) 8); do c <- s_chunk s bn;
  let '(l, s1) := s_leaf s (chunk_set_bit c (wrap8 (ll - 1)) false) in
  do r <- s_set s1 a g true l; let '(a1, s2) := r in
  m_set_length s2 a1 (ll - 1).

(* ---- complex series ---- *)
Definition m_complex_append (t : ty) (limit : N) (s : St) (a : T) (v : T) : res (T * St) :=
  do ll <- m_length limit s a;
  if limit <=? ll then Err else
  do g <- to_gindex64 ll (view_depth t);
  do r <- s_set s a g true v; let '(a1, s1) := r in
  m_set_length s1 a1 (ll + 1).

Definition m_complex_pop (t : ty) (limit : N) (s : St) (a : T) : res (T * St) :=
  do ll <- m_length limit s a;
  if ll =? 0 then Err else
  do g <- to_gindex64 (ll - 1) (view_depth t);     (* repaired (D9): ll-1, was ll *)
  do r <- s_set s a g true (s_zero 0); let '(a1, s1) := r in
  m_set_length s1 a1 (ll - 1).

(* setNode of ComplexVector / ComplexList / Container: index check, then SetNode *)
Definition m_slot_set (t : ty) (s : St) (a : T) (i : N) (v : T) : res (T * St) :=
  match t with
  | TVector _ k => if k <=? i then Err else m_set_node t s a i v
  | TList _ _ => do _ <- m_check_index t s a i; m_set_node t s a i v
  | TContainer fs => if N.of_nat (length fs) <=? i then Err else m_set_node t s a i v
  | _ => Err
  end.

(* ---- the value handed to a mutation ---- *)
Inductive src := SLit (t : ty) (v : val) | SHandle (h : nat) | SNone.

(* View.Backing() of a freshly built view of a literal value: allocate its tree *)
Fixpoint alloc_node (s : St) (n : node) : T * St :=
  match n with
  | Leaf c => s_leaf s c
  | Pair l r => let '(l', s1) := alloc_node s l in
                let '(r', s2) := alloc_node s1 r in s_pair s2 l' r'
  end.

(* ---- the machine ---- *)
Record handle := mkH { h_ty : ty; h_back : T; h_hook : option (nat * N) }.
Record mstate := mkM { m_store : St; m_handles : list handle }.

Definition get_handle (st : mstate) (h : nat) : res handle :=
  match nth_error (m_handles st) h with Some x => OK x | None => Err end.
Definition put_back (st : mstate) (h : nat) (b : T) (s : St) : mstate :=
  match nth_error (m_handles st) h with
  | Some x => mkM s (list_set (m_handles st) h (mkH (h_ty x) b (h_hook x)))
  | None => mkM s (m_handles st)
  end.
Definition push_handle (st : mstate) (x : handle) : mstate * nat :=
  (mkM (m_store st) (m_handles st ++ [x]), length (m_handles st)).

(* BackedView.SetBacking: store the backing, then run the hook chain.  A failing hook
   leaves the views below it updated (as in Go): the state is returned either way. *)
Fixpoint set_backing (fuel : nat) (st : mstate) (h : nat) (b : T) (s : St) : mstate * res unit :=
  let st1 := put_back st h b s in
  match fuel with
  | O => (st1, Panic)
  | S f =>
    match nth_error (m_handles st1) h with
    | None => (st1, Err)
    | Some x =>
      match h_hook x with
      | None => (st1, OK tt)
      | Some (p, i) =>
        match nth_error (m_handles st1) p with
        | None => (st1, Err)
        | Some px =>
          match m_slot_set (h_ty px) (m_store st1) (h_back px) i b with
          | OK (pb, s') => set_backing f st1 p pb s'
          | Err => (st1, Err)
          | Panic => (st1, Panic)
          end
        end
      end
    end
  end.

Definition resolve_src (st : mstate) (x : src) (want : option ty) : res (T * St) :=
  match x with
  | SLit t v =>
    match t, v with
    | TBool, VBool b => OK (if b then s_true else s_zero 0, m_store st)
    | _, _ => do n <- from_val zh t v; OK (alloc_node (m_store st) n)
    end
  | SHandle h => do x <- get_handle st h; OK (h_back x, m_store st)
  | SNone => OK (s_leaf (m_store st) zero_chunk)
  end.

Inductive op :=
| OGet (h : nat) (i : N)            (* typed Get of a composite element: pushes a sub-view handle *)
| OUValue (h : nat)                 (* UnionView.Value(): pushes a detached handle *)
| OCopy (h : nat)
| OSet (h : nat) (i : N) (x : src)  (* Set(i, v): basic value, bit or view *)
| OAppend (h : nat) (x : src)
| OPop (h : nat)
| OChange (h : nat) (sel : N) (x : src).

Inductive mout := MUnit | MHandle (h : nat) | MNoneValue.

Definition lit_val (x : src) : res val :=
  match x with SLit _ v => OK v | _ => Err end.
Definition lit_bool (x : src) : res bool :=
  match x with SLit _ (VBool b) => OK b | _ => Err end.

(* apply one mutation to the backing of handle h; result: new backing *)
Definition mutate (st : mstate) (x : handle) (o : op) : res (T * St) :=
  let t := h_ty x in let a := h_back x in let s := m_store st in
  match o, t with
  | OSet _ i v, TBitvector k =>
    if k <=? i then Err else do b <- lit_bool v; m_bit_set t s a i b
  | OSet _ i v, TBitlist _ =>
    do _ <- m_check_index t s a i; do b <- lit_bool v; m_bit_set t s a i b
  | OSet _ i v, TVector e k =>
    if is_basic_elem e then
      if k <=? i then Err else do lv <- lit_val v; m_packed_set t e s a i lv
    else do r <- resolve_src st v (Some e); let '(b, s1) := r in m_slot_set t s1 a i b
  | OSet _ i v, TList e _ =>
    if is_basic_elem e then
      do _ <- m_check_index t s a i; do lv <- lit_val v; m_packed_set t e s a i lv
    else do r <- resolve_src st v (Some e); let '(b, s1) := r in m_slot_set t s1 a i b
  | OSet _ i v, TContainer _ =>
    do r <- resolve_src st v None; let '(b, s1) := r in m_slot_set t s1 a i b
  | OAppend _ v, TBitlist k => do b <- lit_bool v; m_bit_append t k s a b
  | OAppend _ v, TList e k =>
    if is_basic_elem e then do lv <- lit_val v; m_basic_append t e k s a lv
    else do r <- resolve_src st v (Some e); let '(b, s1) := r in m_complex_append t k s1 a b
  | OPop _, TBitlist k => m_bit_pop t k s a
  | OPop _, TList e k =>
    if is_basic_elem e then m_basic_pop t e k s a else m_complex_pop t k s a
  | OChange _ sel v, TUnion none opts =>
    if wrap8 (union_count none opts) <=? sel then Err else
    do r <- (match v with
             | SNone => if negb (sel =? 0) then Err else resolve_src st v None
             | _ => resolve_src st v None
             end); let '(c, s1) := r in
    let '(sl, s2) := s_leaf s1 (pad32 [byte_of_N sel]) in
    OK (s_pair s2 c sl)                               (* repaired (D10): (content, selector) *)
  | _, _ => Err
  end.

Definition hook_fuel (st : mstate) : nat := S (length (m_handles st)).

Definition step (st : mstate) (o : op) : mstate * res mout :=
  match o with
  | OGet h i =>
    match get_handle st h with
    | OK x =>
      let t := h_ty x in
      let elem_ty :=
          match t with
          | TVector e k => if is_basic_elem e || (k <=? i) then None else Some e
          | TList e _ =>
            if is_basic_elem e then None
            else match m_check_index t (m_store st) (h_back x) i with OK _ => Some e | _ => None end
          | TContainer fs => nth_error fs (nat_of i)
          | _ => None
          end in
      match elem_ty with
      | None => (st, Err)
      | Some e =>
        match m_get_node t (m_store st) (h_back x) i with
        | OK c => let '(st1, k) := push_handle st (mkH e c (Some (h, i))) in (st1, OK (MHandle k))
        | Err => (st, Err)
        | Panic => (st, Panic)
        end
      end
    | Err => (st, Err) | Panic => (st, Panic)
    end
  | OUValue h =>
    match get_handle st h with
    | OK x =>
      match h_ty x with
      | TUnion none opts =>
        match (do r <- s_get (m_store st) (h_back x) 3; do s <- s_chunk (m_store st) r;
               if negb (forallb (fun b => N_of_byte b =? 0) (tl s)) then Err else
               let sel := N_of_byte (hd b0 s) in
               if wrap8 (union_count none opts) <=? sel then Err else
               do c <- s_get (m_store st) (h_back x) 2;
               OK (union_opt none opts sel, c)) with
        | OK (None, _) => (st, OK MNoneValue)
        | OK (Some o, c) =>
          let '(st1, k) := push_handle st (mkH o c None) in (st1, OK (MHandle k))
        | Err => (st, Err) | Panic => (st, Panic)
        end
      | _ => (st, Err)
      end
    | Err => (st, Err) | Panic => (st, Panic)
    end
  | OCopy h =>
    match get_handle st h with
    | OK x => let '(st1, k) := push_handle st (mkH (h_ty x) (h_back x) None) in
              (st1, OK (MHandle k))
    | Err => (st, Err) | Panic => (st, Panic)
    end
  | OSet h _ _ | OAppend h _ | OPop h | OChange h _ _ =>
    match get_handle st h with
    | OK x =>
      match mutate st x o with
      | OK (b, s') =>
        let '(st1, r) := set_backing (hook_fuel st) st h b s' in
        (st1, match r with OK _ => OK MUnit | Err => Err | Panic => Panic end)
      | Err => (st, Err)
      | Panic => (st, Panic)
      end
    | Err => (st, Err) | Panic => (st, Panic)
    end
  end.

End Store.

(* ---- the pure instance: TM ---- *)
Section Pure.
Variable zh : nat -> chunk.

Definition p_get (_ : unit) (n : node) (g : N) : res node := getter n g.
Definition p_set (_ : unit) (n : node) (g : N) (e : bool) (v : node) : res (node * unit) :=
  do r <- setter zh n g e v; OK (r, tt).
Definition p_leaf (_ : unit) (c : chunk) : node * unit := (Leaf c, tt).
Definition p_pair (_ : unit) (l r : node) : node * unit := (Pair l r, tt).
Definition p_chunk (_ : unit) (n : node) : res chunk := leaf_chunk n.
Definition p_zero (d : nat) : node := Leaf (zh d).
Definition p_true : node := Leaf true_chunk.

Definition tm_state := mstate node unit.
Definition tm_step : tm_state -> op -> tm_state * res mout :=
  step node unit p_get p_set p_leaf p_pair p_chunk p_zero p_true zh.
Definition tm_init (t : ty) (n : node) : tm_state := mkM node unit tt [mkH node t n None].
End Pure.
