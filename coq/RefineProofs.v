(* RefineProofs.v — machine-level refinement: the identity-and-memo heap machine HM
   ([hm_step], Heap.v; used by C05-C07, C14) refines the pure tree machine TM ([tm_step],
   Mut.v; used by C04) under the abstraction [habs] of TreeProofs.v.

   ==== specification vocabulary used by the appended part of Props/C05.v ====

   [abs_rel zh hs ts]   the HM state hs and the TM state ts are related:
                        - the heap of hs is well formed (heap_wf), holds the shared zero leaves
                          (zeros_ok zh) and view.trueRoot (a leaf with true_chunk at true_addr);
                        - the two handle lists have the same length, and handle k of hs and
                          handle k of ts have the same type, the same hook, and the pure backing
                          of ts is the abstraction of the backing address of hs:
                          habs (m_store hs) (h_back (hs k)) (h_back (ts k)).
                        (hm_inv zh hs follows: [abs_rel_hm_inv].)
   [hm_ops_run zh hs os] / [hm_trace zh hs os]   HM replaying a list of operations: final state,
                        list of outputs.  Same shape as MutProofs.tm_run / MutProofs.tm_trace.
   [ev_ops evs]         the machine operations of a history with hash requests (HeapProofs.hev).

   Structure: 1 list lemmas; 2 [step_hrel]: heterogeneous relational parametricity of the view
   machine [step] of Mut.v over TWO different node stores related by a Kripke relation (world =
   pair of stores; the homogeneous HeapProofs.step_rel cannot relate addr/heap to node/unit);
   3 the heap/pure instance (getter, setter, leaf, pair, chunk, zero, true agree through habs);
   4 abs_rel, refine_init, refine_step, refine_history, hash requests, roots; 5 examples. *)
From Coq Require Import FMapPositive PArith.
From Ztyp Require Import Base Bitlen Tree Types View Mut Heap BitlenProofs TreeProofs HeapProofs.
From Ztyp Require MutProofs.
Open Scope N_scope.

(* ------------------------------------------------------------------------------------- *)
(* spec definitions                                                                      *)
(* ------------------------------------------------------------------------------------- *)

Definition abs_rel (zh : nat -> chunk) (hs : hm_state) (ts : tm_state) : Prop :=
  heap_wf (m_store _ _ hs) /\ zeros_ok zh (m_store _ _ hs) /\
  h_cell (m_store _ _ hs) true_addr = Some (CLeaf true_chunk) /\
  length (m_handles _ _ hs) = length (m_handles _ _ ts) /\
  forall k x y, nth_error (m_handles _ _ hs) k = Some x -> nth_error (m_handles _ _ ts) k = Some y ->
    h_ty _ x = h_ty _ y /\ h_hook _ x = h_hook _ y /\
    habs (m_store _ _ hs) (h_back _ x) (h_back _ y).

Definition hm_ops_run (zh : nat -> chunk) (hs : hm_state) (os : list op) : hm_state :=
  fold_left (fun st o => fst (hm_step zh st o)) os hs.

Fixpoint hm_trace (zh : nat -> chunk) (hs : hm_state) (os : list op) : list (res mout) :=
  match os with
  | [] => []
  | o :: r => snd (hm_step zh hs o) :: hm_trace zh (fst (hm_step zh hs o)) r
  end.

Definition ev_ops (evs : list hev) : list op :=
  flat_map (fun e => match e with EStep o => [o] | EHash _ => [] end) evs.

(* ------------------------------------------------------------------------------------- *)
(* 1. lists                                                                              *)
(* ------------------------------------------------------------------------------------- *)

Lemma Forall2_nth {A B} (P : A -> B -> Prop) l1 l2 :
  Forall2 P l1 l2 -> forall k,
  match nth_error l1 k, nth_error l2 k with
  | Some x, Some y => P x y
  | None, None => True
  | _, _ => False
  end.
Proof.
  induction 1 as [|x y l1 l2 Hxy HF IH]; intros k.
  - destruct k; exact I.
  - destruct k as [|k]; simpl; [exact Hxy|apply IH].
Qed.

Lemma Forall2_list_set {A B} (P : A -> B -> Prop) l1 l2 :
  Forall2 P l1 l2 -> forall k x y, P x y -> Forall2 P (list_set l1 k x) (list_set l2 k y).
Proof.
  induction 1 as [|x0 y0 l1 l2 Hxy HF IH]; intros k x y Hp.
  - destruct k; constructor.
  - destruct k as [|k]; simpl; constructor; auto.
Qed.

Lemma Forall2_mono {A B} (P Q : A -> B -> Prop) l1 l2 :
  (forall x y, P x y -> Q x y) -> Forall2 P l1 l2 -> Forall2 Q l1 l2.
Proof. intros HPQ. induction 1; constructor; auto. Qed.

Lemma Forall2_len {A B} (P : A -> B -> Prop) l1 l2 : Forall2 P l1 l2 -> length l1 = length l2.
Proof. induction 1; simpl; congruence. Qed.

Lemma Forall2_of_nth {A B} (P : A -> B -> Prop) : forall l1 l2,
  length l1 = length l2 ->
  (forall k x y, nth_error l1 k = Some x -> nth_error l2 k = Some y -> P x y) ->
  Forall2 P l1 l2.
Proof.
  induction l1 as [|x l1 IH]; intros [|y l2] Hl Hn; simpl in Hl; try discriminate; constructor.
  - apply (Hn 0%nat); reflexivity.
  - apply IH; [congruence|]. intros k x0 y0 H1 H2. apply (Hn (S k)); assumption.
Qed.

(* ------------------------------------------------------------------------------------- *)
(* 2. the view machine over two related stores                                            *)
(* ------------------------------------------------------------------------------------- *)

Section Hetero.
Variables T1 St1 T2 St2 : Type.
Variable get1 : St1 -> T1 -> N -> res T1.
Variable set1 : St1 -> T1 -> N -> bool -> T1 -> res (T1 * St1).
Variable leaf1 : St1 -> chunk -> T1 * St1.
Variable pair1 : St1 -> T1 -> T1 -> T1 * St1.
Variable chunk1 : St1 -> T1 -> res chunk.
Variable zero1 : nat -> T1.
Variable true1 : T1.
Variable get2 : St2 -> T2 -> N -> res T2.
Variable set2 : St2 -> T2 -> N -> bool -> T2 -> res (T2 * St2).
Variable leaf2 : St2 -> chunk -> T2 * St2.
Variable pair2 : St2 -> T2 -> T2 -> T2 * St2.
Variable chunk2 : St2 -> T2 -> res chunk.
Variable zero2 : nat -> T2.
Variable true2 : T2.
Variable zh : nat -> chunk.

Local Notation Mlength1 := (m_length T1 St1 get1 chunk1).
Local Notation Mlength2 := (m_length T2 St2 get2 chunk2).
Local Notation Mcheck1 := (m_check_index T1 St1 get1 chunk1).
Local Notation Mcheck2 := (m_check_index T2 St2 get2 chunk2).
Local Notation Mgetn1 := (m_get_node T1 St1 get1).
Local Notation Mgetn2 := (m_get_node T2 St2 get2).
Local Notation Msetn1 := (m_set_node T1 St1 set1).
Local Notation Msetn2 := (m_set_node T2 St2 set2).
Local Notation Msetlen1 := (m_set_length T1 St1 set1 leaf1).
Local Notation Msetlen2 := (m_set_length T2 St2 set2 leaf2).
Local Notation Mpset1 := (m_packed_set T1 St1 get1 set1 leaf1 chunk1).
Local Notation Mpset2 := (m_packed_set T2 St2 get2 set2 leaf2 chunk2).
Local Notation Mbapp1 := (m_basic_append T1 St1 get1 set1 leaf1 chunk1 zh).
Local Notation Mbapp2 := (m_basic_append T2 St2 get2 set2 leaf2 chunk2 zh).
Local Notation Mbpop1 := (m_basic_pop T1 St1 get1 set1 leaf1 chunk1 zh).
Local Notation Mbpop2 := (m_basic_pop T2 St2 get2 set2 leaf2 chunk2 zh).
Local Notation Mbitset1 := (m_bit_set T1 St1 get1 set1 leaf1 chunk1).
Local Notation Mbitset2 := (m_bit_set T2 St2 get2 set2 leaf2 chunk2).
Local Notation Mbitapp1 := (m_bit_append T1 St1 get1 set1 leaf1 chunk1 zh).
Local Notation Mbitapp2 := (m_bit_append T2 St2 get2 set2 leaf2 chunk2 zh).
Local Notation Mbitpop1 := (m_bit_pop T1 St1 get1 set1 leaf1 chunk1).
Local Notation Mbitpop2 := (m_bit_pop T2 St2 get2 set2 leaf2 chunk2).
Local Notation Mcapp1 := (m_complex_append T1 St1 get1 set1 leaf1 chunk1).
Local Notation Mcapp2 := (m_complex_append T2 St2 get2 set2 leaf2 chunk2).
Local Notation Mcpop1 := (m_complex_pop T1 St1 get1 set1 leaf1 chunk1 zero1).
Local Notation Mcpop2 := (m_complex_pop T2 St2 get2 set2 leaf2 chunk2 zero2).
Local Notation Mslot1 := (m_slot_set T1 St1 get1 set1 chunk1).
Local Notation Mslot2 := (m_slot_set T2 St2 get2 set2 chunk2).
Local Notation Alloc1 := (alloc_node T1 St1 leaf1 pair1).
Local Notation Alloc2 := (alloc_node T2 St2 leaf2 pair2).
Local Notation SetB1 := (set_backing T1 St1 get1 set1 chunk1).
Local Notation SetB2 := (set_backing T2 St2 get2 set2 chunk2).
Local Notation Resolve1 := (resolve_src T1 St1 leaf1 pair1 zero1 true1 zh).
Local Notation Resolve2 := (resolve_src T2 St2 leaf2 pair2 zero2 true2 zh).
Local Notation Mutate1 := (mutate T1 St1 get1 set1 leaf1 pair1 chunk1 zero1 true1 zh).
Local Notation Mutate2 := (mutate T2 St2 get2 set2 leaf2 pair2 chunk2 zero2 true2 zh).
Local Notation Step1 := (step T1 St1 get1 set1 leaf1 pair1 chunk1 zero1 true1 zh).
Local Notation Step2 := (step T2 St2 get2 set2 leaf2 pair2 chunk2 zero2 true2 zh).
Local Notation Hdl1 st := (m_handles T1 St1 st).
Local Notation Hdl2 st := (m_handles T2 St2 st).
Local Notation Sto1 st := (m_store T1 St1 st).
Local Notation Sto2 st := (m_store T2 St2 st).

(* a world is a pair of stores; W: the world is admissible; V: two references stand for the
   same node in a world; E: world extension, along which V is stable *)
Variable W : St1 -> St2 -> Prop.
Variable V : St1 -> St2 -> T1 -> T2 -> Prop.
Variable E : St1 -> St2 -> St1 -> St2 -> Prop.

(* results of a mutation started in world (s1, s2) *)
Definition rr (s1 : St1) (s2 : St2) (r1 : res (T1 * St1)) (r2 : res (T2 * St2)) : Prop :=
  match r1, r2 with
  | OK (t1, s1'), OK (t2, s2') => W s1' s2' /\ E s1 s2 s1' s2' /\ V s1' s2' t1 t2
  | Err, Err => True
  | Panic, Panic => True
  | _, _ => False
  end.

(* results of a read *)
Definition rv (s1 : St1) (s2 : St2) (r1 : res T1) (r2 : res T2) : Prop :=
  match r1, r2 with
  | OK t1, OK t2 => V s1 s2 t1 t2
  | Err, Err => True
  | Panic, Panic => True
  | _, _ => False
  end.

Hypothesis E_refl : forall s1 s2, E s1 s2 s1 s2.
Hypothesis E_trans : forall a1 a2 b1 b2 c1 c2, E a1 a2 b1 b2 -> E b1 b2 c1 c2 -> E a1 a2 c1 c2.
Hypothesis V_mono : forall s1 s2 s1' s2' a b, E s1 s2 s1' s2' -> V s1 s2 a b -> V s1' s2' a b.
Hypothesis get_h : forall s1 s2 a1 a2 g, W s1 s2 -> V s1 s2 a1 a2 ->
  rv s1 s2 (get1 s1 a1 g) (get2 s2 a2 g).
Hypothesis chunk_h : forall s1 s2 a1 a2, W s1 s2 -> V s1 s2 a1 a2 -> chunk1 s1 a1 = chunk2 s2 a2.
Hypothesis leaf_h : forall s1 s2 c, W s1 s2 -> rr s1 s2 (OK (leaf1 s1 c)) (OK (leaf2 s2 c)).
Hypothesis pair_h : forall s1 s2 l1 l2 r1 r2, W s1 s2 -> V s1 s2 l1 l2 -> V s1 s2 r1 r2 ->
  rr s1 s2 (OK (pair1 s1 l1 r1)) (OK (pair2 s2 l2 r2)).
Hypothesis set_h : forall s1 s2 a1 a2 g e v1 v2, W s1 s2 -> V s1 s2 a1 a2 -> V s1 s2 v1 v2 ->
  rr s1 s2 (set1 s1 a1 g e v1) (set2 s2 a2 g e v2).
Hypothesis zero_h : forall s1 s2, W s1 s2 -> V s1 s2 (zero1 0) (zero2 0).
Hypothesis true_h : forall s1 s2, W s1 s2 -> V s1 s2 true1 true2.

Lemma rr_err s1 s2 : rr s1 s2 Err Err.
Proof. exact I. Qed.

Lemma rr_ok s1 s2 t1 t2 : W s1 s2 -> V s1 s2 t1 t2 -> rr s1 s2 (OK (t1, s1)) (OK (t2, s2)).
Proof. intros Hw Hv. simpl. auto. Qed.

Lemma rr_weaken a1 a2 b1 b2 r1 r2 : E a1 a2 b1 b2 -> rr b1 b2 r1 r2 -> rr a1 a2 r1 r2.
Proof.
  intros He. destruct r1 as [[t1 s1']| |], r2 as [[t2 s2']| |]; simpl; auto.
  intros (Hw & He' & Hv). split; [exact Hw|]. split; [eapply E_trans; eauto|exact Hv].
Qed.

Lemma rr_if s1 s2 (c : bool) a1 a2 b1 b2 :
  rr s1 s2 a1 a2 -> rr s1 s2 b1 b2 -> rr s1 s2 (if c then a1 else b1) (if c then a2 else b2).
Proof. destruct c; auto. Qed.

Lemma rr_bind_pure {A} s1 s2 (x : res A) (k1 : A -> res (T1 * St1)) (k2 : A -> res (T2 * St2)) :
  (forall a, rr s1 s2 (k1 a) (k2 a)) -> rr s1 s2 (bind x k1) (bind x k2).
Proof. intros Hk. destruct x; simpl; auto. Qed.

Lemma rr_bind_v s1 s2 x1 x2 (k1 : T1 -> res (T1 * St1)) (k2 : T2 -> res (T2 * St2)) :
  rv s1 s2 x1 x2 -> (forall t1 t2, V s1 s2 t1 t2 -> rr s1 s2 (k1 t1) (k2 t2)) ->
  rr s1 s2 (bind x1 k1) (bind x2 k2).
Proof. intros Hx Hk. destruct x1, x2; simpl in *; try contradiction; auto. Qed.

Lemma rr_bind_rr s1 s2 x1 x2 (k1 : T1 * St1 -> res (T1 * St1)) (k2 : T2 * St2 -> res (T2 * St2)) :
  rr s1 s2 x1 x2 ->
  (forall t1 s1' t2 s2', W s1' s2' -> E s1 s2 s1' s2' -> V s1' s2' t1 t2 ->
     rr s1' s2' (k1 (t1, s1')) (k2 (t2, s2'))) ->
  rr s1 s2 (bind x1 k1) (bind x2 k2).
Proof.
  intros Hx Hk. destruct x1 as [[t1 s1']| |], x2 as [[t2 s2']| |]; simpl in *; try contradiction; auto.
  destruct Hx as (Hw & He & Hv). eapply rr_weaken; [exact He|]. now apply Hk.
Qed.

Lemma rr_leaf s1 s2 c (k1 : T1 -> St1 -> res (T1 * St1)) (k2 : T2 -> St2 -> res (T2 * St2)) :
  W s1 s2 ->
  (forall l1 s1' l2 s2', W s1' s2' -> E s1 s2 s1' s2' -> V s1' s2' l1 l2 ->
     rr s1' s2' (k1 l1 s1') (k2 l2 s2')) ->
  rr s1 s2 (let '(l, s) := leaf1 s1 c in k1 l s) (let '(l, s) := leaf2 s2 c in k2 l s).
Proof.
  intros Hw Hk. pose proof (leaf_h s1 s2 c Hw) as Hl.
  destruct (leaf1 s1 c) as [l1 s1'], (leaf2 s2 c) as [l2 s2']. simpl in Hl.
  destruct Hl as (Hw' & He & Hv). eapply rr_weaken; [exact He|]. now apply Hk.
Qed.

(* ---- reads ---- *)
Lemma m_length_eq limit s1 s2 a1 a2 :
  W s1 s2 -> V s1 s2 a1 a2 -> Mlength1 limit s1 a1 = Mlength2 limit s2 a2.
Proof.
  intros Hw Hv. unfold m_length. pose proof (get_h s1 s2 a1 a2 3 Hw Hv) as Hg.
  destruct (get1 s1 a1 3) as [r1| |], (get2 s2 a2 3) as [r2| |]; simpl in *; try contradiction; auto.
  now rewrite (chunk_h _ _ _ _ Hw Hg).
Qed.

Lemma m_check_eq t s1 s2 a1 a2 i :
  W s1 s2 -> V s1 s2 a1 a2 -> Mcheck1 t s1 a1 i = Mcheck2 t s2 a2 i.
Proof. intros Hw Hv. unfold m_check_index. now rewrite (m_length_eq _ _ _ _ _ Hw Hv). Qed.

Lemma m_get_node_rv t s1 s2 a1 a2 i :
  W s1 s2 -> V s1 s2 a1 a2 -> rv s1 s2 (Mgetn1 t s1 a1 i) (Mgetn2 t s2 a2 i).
Proof.
  intros Hw Hv. unfold m_get_node. destruct (to_gindex64 i (view_depth t)); simpl; auto.
Qed.

Lemma get_chunk_eq {B} t s1 s2 a1 a2 i (k : chunk -> res B) :
  W s1 s2 -> V s1 s2 a1 a2 ->
  bind (Mgetn1 t s1 a1 i) (fun b => bind (chunk1 s1 b) k) =
  bind (Mgetn2 t s2 a2 i) (fun b => bind (chunk2 s2 b) k).
Proof.
  intros Hw Hv. pose proof (m_get_node_rv t _ _ _ _ i Hw Hv) as Hg.
  destruct (Mgetn1 t s1 a1 i) as [b1| |], (Mgetn2 t s2 a2 i) as [b2| |]; simpl in *;
    try contradiction; auto.
  now rewrite (chunk_h _ _ _ _ Hw Hg).
Qed.

(* ---- writes ---- *)
Lemma m_set_node_rr t s1 s2 a1 a2 i v1 v2 :
  W s1 s2 -> V s1 s2 a1 a2 -> V s1 s2 v1 v2 ->
  rr s1 s2 (Msetn1 t s1 a1 i v1) (Msetn2 t s2 a2 i v2).
Proof. intros Hw Ha Hv. unfold m_set_node. apply rr_bind_pure. intros g. now apply set_h. Qed.

Lemma m_set_length_rr s1 s2 a1 a2 len :
  W s1 s2 -> V s1 s2 a1 a2 -> rr s1 s2 (Msetlen1 s1 a1 len) (Msetlen2 s2 a2 len).
Proof.
  intros Hw Ha. unfold m_set_length.
  apply (rr_leaf s1 s2 _ (fun l s => set1 s a1 3 false l) (fun l s => set2 s a2 3 false l) Hw).
  intros l1 s1' l2 s2' Hw' He Hl. apply set_h; [exact Hw'| |exact Hl]. eapply V_mono; eauto.
Qed.

Lemma set_then_length_rr s1 s2 a1 a2 g e v1 v2 len :
  W s1 s2 -> V s1 s2 a1 a2 -> V s1 s2 v1 v2 ->
  rr s1 s2 (do x <- set1 s1 a1 g e v1; let '(b, s) := x in Msetlen1 s b len)
           (do x <- set2 s2 a2 g e v2; let '(b, s) := x in Msetlen2 s b len).
Proof.
  intros Hw Ha Hv. apply rr_bind_rr; [now apply set_h|].
  intros t1 s1' t2 s2' Hw' He Ht. now apply m_set_length_rr.
Qed.

Lemma m_packed_set_rr t e s1 s2 a1 a2 i v :
  W s1 s2 -> V s1 s2 a1 a2 -> rr s1 s2 (Mpset1 t e s1 a1 i v) (Mpset2 t e s2 a2 i v).
Proof.
  intros Hw Ha. unfold m_packed_set. cbv zeta.
  pose proof (m_get_node_rv t _ _ _ _ (i / per_node e) Hw Ha) as Hg.
  destruct (Mgetn1 t s1 a1 (i / per_node e)) as [b1| |], (Mgetn2 t s2 a2 (i / per_node e)) as [b2| |];
    simpl in Hg; try contradiction; cbn [bind]; auto.
  rewrite (chunk_h _ _ _ _ Hw Hg). apply rr_bind_pure. intros c. apply rr_bind_pure. intros c'.
  apply (rr_leaf s1 s2 _ (fun l s => Msetn1 t s a1 (i / per_node e) l)
                         (fun l s => Msetn2 t s a2 (i / per_node e) l) Hw).
  intros l1 s1' l2 s2' Hw' He Hl. apply m_set_node_rr; [exact Hw'| |exact Hl]. eapply V_mono; eauto.
Qed.

Lemma leaf_set_length_rr s1 s2 a1 a2 c g len :
  W s1 s2 -> V s1 s2 a1 a2 ->
  rr s1 s2
    (let '(l, s) := leaf1 s1 c in
     do r <- set1 s a1 g true l; let '(b, s') := r in Msetlen1 s' b len)
    (let '(l, s) := leaf2 s2 c in
     do r <- set2 s a2 g true l; let '(b, s') := r in Msetlen2 s' b len).
Proof.
  intros Hw Ha.
  apply (rr_leaf s1 s2 _
    (fun l s => do r <- set1 s a1 g true l; let '(b, s') := r in Msetlen1 s' b len)
    (fun l s => do r <- set2 s a2 g true l; let '(b, s') := r in Msetlen2 s' b len) Hw).
  intros l1 s1' l2 s2' Hw' He Hl. apply set_then_length_rr; [exact Hw'| |exact Hl].
  eapply V_mono; eauto.
Qed.

Lemma m_basic_append_rr t e limit s1 s2 a1 a2 v :
  W s1 s2 -> V s1 s2 a1 a2 -> rr s1 s2 (Mbapp1 t e limit s1 a1 v) (Mbapp2 t e limit s2 a2 v).
Proof.
  intros Hw Ha. unfold m_basic_append. rewrite (m_length_eq _ _ _ _ _ Hw Ha).
  apply rr_bind_pure. intros ll. apply rr_if; [exact I|].
  apply rr_bind_pure. intros g. cbv zeta.
  assert (Ec : (if ll mod per_node e =? 0 then packed_set e (zh 0) 0 v
               else do b <- Mgetn1 t s1 a1 (ll / per_node e); do c <- chunk1 s1 b;
                    packed_set e c (wrap8 (N.land ll (per_node e - 1))) v) =
              (if ll mod per_node e =? 0 then packed_set e (zh 0) 0 v
               else do b <- Mgetn2 t s2 a2 (ll / per_node e); do c <- chunk2 s2 b;
                    packed_set e c (wrap8 (N.land ll (per_node e - 1))) v)).
  { destruct (_ =? 0); [reflexivity|]. now apply get_chunk_eq. }
  rewrite Ec. apply rr_bind_pure. intros c'. now apply leaf_set_length_rr.
Qed.

Lemma m_basic_pop_rr t e limit s1 s2 a1 a2 :
  W s1 s2 -> V s1 s2 a1 a2 -> rr s1 s2 (Mbpop1 t e limit s1 a1) (Mbpop2 t e limit s2 a2).
Proof.
  intros Hw Ha. unfold m_basic_pop. rewrite (m_length_eq _ _ _ _ _ Hw Ha).
  apply rr_bind_pure. intros ll. apply rr_if; [exact I|]. cbv zeta.
  apply rr_bind_pure. intros g.
  pose proof (m_get_node_rv t _ _ _ _ ((ll - 1) / per_node e) Hw Ha) as Hg.
  destruct (Mgetn1 t s1 a1 ((ll - 1) / per_node e)) as [b1| |],
           (Mgetn2 t s2 a2 ((ll - 1) / per_node e)) as [b2| |];
    simpl in Hg; try contradiction; cbn [bind]; auto.
  rewrite (chunk_h _ _ _ _ Hw Hg). apply rr_bind_pure. intros c.
  apply rr_bind_pure. intros dv. apply rr_bind_pure. intros c'. now apply leaf_set_length_rr.
Qed.

Lemma m_bit_set_rr t s1 s2 a1 a2 i b :
  W s1 s2 -> V s1 s2 a1 a2 -> rr s1 s2 (Mbitset1 t s1 a1 i b) (Mbitset2 t s2 a2 i b).
Proof.
  intros Hw Ha. unfold m_bit_set.
  pose proof (m_get_node_rv t _ _ _ _ (N.shiftr i 8) Hw Ha) as Hg.
  destruct (Mgetn1 t s1 a1 (N.shiftr i 8)) as [b1| |], (Mgetn2 t s2 a2 (N.shiftr i 8)) as [b2| |];
    simpl in Hg; try contradiction; cbn [bind]; auto.
  rewrite (chunk_h _ _ _ _ Hw Hg). apply rr_bind_pure. intros c.
  apply (rr_leaf s1 s2 _ (fun l s => Msetn1 t s a1 (N.shiftr i 8) l)
                         (fun l s => Msetn2 t s a2 (N.shiftr i 8) l) Hw).
  intros l1 s1' l2 s2' Hw' He Hl. apply m_set_node_rr; [exact Hw'| |exact Hl]. eapply V_mono; eauto.
Qed.

Lemma m_bit_append_rr t limit s1 s2 a1 a2 b :
  W s1 s2 -> V s1 s2 a1 a2 -> rr s1 s2 (Mbitapp1 t limit s1 a1 b) (Mbitapp2 t limit s2 a2 b).
Proof.
  intros Hw Ha. unfold m_bit_append. rewrite (m_length_eq _ _ _ _ _ Hw Ha).
  apply rr_bind_pure. intros ll. apply rr_if; [exact I|].
  apply rr_bind_pure. intros g.
  assert (Ec : (if N.land ll 255 =? 0 then OK (chunk_set_bit (zh 0) 0 b)
               else do bn <- Mgetn1 t s1 a1 (N.shiftr ll 8); do c <- chunk1 s1 bn;
                    OK (chunk_set_bit c (wrap8 ll) b)) =
              (if N.land ll 255 =? 0 then OK (chunk_set_bit (zh 0) 0 b)
               else do bn <- Mgetn2 t s2 a2 (N.shiftr ll 8); do c <- chunk2 s2 bn;
                    OK (chunk_set_bit c (wrap8 ll) b))).
  { destruct (_ =? 0); [reflexivity|]. now apply get_chunk_eq. }
  rewrite Ec. apply rr_bind_pure. intros c'. now apply leaf_set_length_rr.
Qed.

Lemma m_bit_pop_rr t limit s1 s2 a1 a2 :
  W s1 s2 -> V s1 s2 a1 a2 -> rr s1 s2 (Mbitpop1 t limit s1 a1) (Mbitpop2 t limit s2 a2).
Proof.
  intros Hw Ha. unfold m_bit_pop. rewrite (m_length_eq _ _ _ _ _ Hw Ha).
  apply rr_bind_pure. intros ll. apply rr_if; [exact I|].
  apply rr_bind_pure. intros g.
  pose proof (m_get_node_rv t _ _ _ _ (N.shiftr (ll - 1) 8) Hw Ha) as Hg.
  destruct (Mgetn1 t s1 a1 (N.shiftr (ll - 1) 8)) as [b1| |],
           (Mgetn2 t s2 a2 (N.shiftr (ll - 1) 8)) as [b2| |];
    simpl in Hg; try contradiction; cbn [bind]; auto.
  rewrite (chunk_h _ _ _ _ Hw Hg). apply rr_bind_pure. intros c. now apply leaf_set_length_rr.
Qed.

Lemma m_complex_append_rr t limit s1 s2 a1 a2 v1 v2 :
  W s1 s2 -> V s1 s2 a1 a2 -> V s1 s2 v1 v2 ->
  rr s1 s2 (Mcapp1 t limit s1 a1 v1) (Mcapp2 t limit s2 a2 v2).
Proof.
  intros Hw Ha Hv. unfold m_complex_append. rewrite (m_length_eq _ _ _ _ _ Hw Ha).
  apply rr_bind_pure. intros ll. apply rr_if; [exact I|].
  apply rr_bind_pure. intros g. now apply set_then_length_rr.
Qed.

Lemma m_complex_pop_rr t limit s1 s2 a1 a2 :
  W s1 s2 -> V s1 s2 a1 a2 -> rr s1 s2 (Mcpop1 t limit s1 a1) (Mcpop2 t limit s2 a2).
Proof.
  intros Hw Ha. unfold m_complex_pop. rewrite (m_length_eq _ _ _ _ _ Hw Ha).
  apply rr_bind_pure. intros ll. apply rr_if; [exact I|].
  apply rr_bind_pure. intros g. apply set_then_length_rr; auto.
Qed.

Lemma m_slot_set_rr t s1 s2 a1 a2 i v1 v2 :
  W s1 s2 -> V s1 s2 a1 a2 -> V s1 s2 v1 v2 ->
  rr s1 s2 (Mslot1 t s1 a1 i v1) (Mslot2 t s2 a2 i v2).
Proof.
  intros Hw Ha Hv. unfold m_slot_set. destruct t; try exact I.
  - apply rr_if; [exact I|now apply m_set_node_rr].
  - rewrite (m_check_eq _ _ _ _ _ _ Hw Ha). apply rr_bind_pure. intros _. now apply m_set_node_rr.
  - apply rr_if; [exact I|now apply m_set_node_rr].
Qed.

Lemma alloc_node_rr n : forall s1 s2, W s1 s2 -> rr s1 s2 (OK (Alloc1 s1 n)) (OK (Alloc2 s2 n)).
Proof.
  induction n as [c|l IHl r IHr]; intros s1 s2 Hw; cbn [alloc_node].
  - now apply leaf_h.
  - pose proof (IHl _ _ Hw) as Hl.
    destruct (Alloc1 s1 l) as [l1 s1'], (Alloc2 s2 l) as [l2 s2']. simpl in Hl.
    destruct Hl as (Hw' & He & Hvl).
    pose proof (IHr _ _ Hw') as Hr.
    destruct (Alloc1 s1' r) as [r1 s1''], (Alloc2 s2' r) as [r2 s2'']. simpl in Hr.
    destruct Hr as (Hw'' & He' & Hvr).
    apply (rr_weaken _ _ s1'' s2''); [eapply E_trans; eauto|].
    apply pair_h; [exact Hw''| |exact Hvr]. eapply V_mono; eauto.
Qed.

(* ---- states ---- *)
Definition hdl_rel (s1 : St1) (s2 : St2) (x1 : handle T1) (x2 : handle T2) : Prop :=
  h_ty T1 x1 = h_ty T2 x2 /\ h_hook T1 x1 = h_hook T2 x2 /\ V s1 s2 (h_back T1 x1) (h_back T2 x2).

Definition st_rel (st1 : mstate T1 St1) (st2 : mstate T2 St2) : Prop :=
  W (Sto1 st1) (Sto2 st2) /\ Forall2 (hdl_rel (Sto1 st1) (Sto2 st2)) (Hdl1 st1) (Hdl2 st2).

Lemma hdl_rel_mono s1 s2 s1' s2' x1 x2 :
  E s1 s2 s1' s2' -> hdl_rel s1 s2 x1 x2 -> hdl_rel s1' s2' x1 x2.
Proof. intros He (A & B & C). split; [exact A|]. split; [exact B|]. eapply V_mono; eauto. Qed.

Lemma get_handle_rel st1 st2 h :
  st_rel st1 st2 ->
  match get_handle T1 St1 st1 h, get_handle T2 St2 st2 h with
  | OK x1, OK x2 => hdl_rel (Sto1 st1) (Sto2 st2) x1 x2
  | Err, Err => True
  | _, _ => False
  end.
Proof.
  intros [_ HF]. unfold get_handle. pose proof (Forall2_nth _ _ _ HF h) as Hn.
  destruct (nth_error (Hdl1 st1) h), (nth_error (Hdl2 st2) h); auto.
Qed.

Lemma resolve_src_rr st1 st2 x want :
  st_rel st1 st2 -> rr (Sto1 st1) (Sto2 st2) (Resolve1 st1 x want) (Resolve2 st2 x want).
Proof.
  intros HS. pose proof HS as [Hw HF]. unfold resolve_src.
  assert (Halloc : forall t v,
    rr (Sto1 st1) (Sto2 st2) (do n <- from_val zh t v; OK (Alloc1 (Sto1 st1) n))
                             (do n <- from_val zh t v; OK (Alloc2 (Sto2 st2) n))).
  { intros t v. apply rr_bind_pure. intros n. now apply alloc_node_rr. }
  destruct x as [t v|h|].
  - destruct t; try apply Halloc. destruct v; try apply Halloc.
    apply rr_ok; [exact Hw|]. destruct b; [now apply true_h|now apply zero_h].
  - pose proof (get_handle_rel _ _ h HS) as Hg.
    destruct (get_handle T1 St1 st1 h) as [x1| |], (get_handle T2 St2 st2 h) as [x2| |];
      try contradiction; cbn [bind]; auto.
    apply rr_ok; [exact Hw|apply Hg].
  - now apply leaf_h.
Qed.

Lemma resolve_then_rr st1 st2 v want
      (k1 : T1 -> St1 -> res (T1 * St1)) (k2 : T2 -> St2 -> res (T2 * St2)) :
  st_rel st1 st2 ->
  (forall b1 s1 b2 s2, W s1 s2 -> E (Sto1 st1) (Sto2 st2) s1 s2 -> V s1 s2 b1 b2 ->
     rr s1 s2 (k1 b1 s1) (k2 b2 s2)) ->
  rr (Sto1 st1) (Sto2 st2)
     (do r0 <- Resolve1 st1 v want; let '(b, s) := r0 in k1 b s)
     (do r0 <- Resolve2 st2 v want; let '(b, s) := r0 in k2 b s).
Proof.
  intros HS Hk. apply rr_bind_rr; [now apply resolve_src_rr|].
  intros t1 s1 t2 s2 Hw He Hv. now apply Hk.
Qed.

Lemma mutate_rr st1 st2 x1 x2 o :
  st_rel st1 st2 -> hdl_rel (Sto1 st1) (Sto2 st2) x1 x2 ->
  rr (Sto1 st1) (Sto2 st2) (Mutate1 st1 x1 o) (Mutate2 st2 x2 o).
Proof.
  intros HS (Ht & _ & Ha). pose proof HS as [Hw HF]. unfold mutate. cbv zeta. rewrite Ht.
  set (a1 := h_back T1 x1) in *. set (a2 := h_back T2 x2) in *.
  assert (Hup : forall s1 s2, E (Sto1 st1) (Sto2 st2) s1 s2 -> V s1 s2 a1 a2).
  { intros s1 s2 He. eapply V_mono; eauto. }
  destruct o as [h i|h|h|h i v|h v|h|h sel v]; try (destruct (h_ty T2 x2); exact I).
  - destruct (h_ty T2 x2); try exact I.
    + apply rr_if; [exact I|]. apply rr_bind_pure. intros b. now apply m_bit_set_rr.
    + rewrite (m_check_eq _ _ _ _ _ _ Hw Ha). apply rr_bind_pure. intros _.
      apply rr_bind_pure. intros b. now apply m_bit_set_rr.
    + apply rr_if.
      * apply rr_if; [exact I|]. apply rr_bind_pure. intros lv. now apply m_packed_set_rr.
      * apply (resolve_then_rr st1 st2 v _ (fun b s => Mslot1 _ s a1 i b) (fun b s => Mslot2 _ s a2 i b) HS).
        intros b1 s1 b2 s2 Hw' He Hb. apply m_slot_set_rr; auto.
    + apply rr_if.
      * rewrite (m_check_eq _ _ _ _ _ _ Hw Ha). apply rr_bind_pure. intros _.
        apply rr_bind_pure. intros lv. now apply m_packed_set_rr.
      * apply (resolve_then_rr st1 st2 v _ (fun b s => Mslot1 _ s a1 i b) (fun b s => Mslot2 _ s a2 i b) HS).
        intros b1 s1 b2 s2 Hw' He Hb. apply m_slot_set_rr; auto.
    + apply (resolve_then_rr st1 st2 v _ (fun b s => Mslot1 _ s a1 i b) (fun b s => Mslot2 _ s a2 i b) HS).
      intros b1 s1 b2 s2 Hw' He Hb. apply m_slot_set_rr; auto.
  - destruct (h_ty T2 x2); try exact I.
    + apply rr_bind_pure. intros b. now apply m_bit_append_rr.
    + apply rr_if.
      * apply rr_bind_pure. intros lv. now apply m_basic_append_rr.
      * apply (resolve_then_rr st1 st2 v _ (fun b s => Mcapp1 _ _ s a1 b) (fun b s => Mcapp2 _ _ s a2 b) HS).
        intros b1 s1 b2 s2 Hw' He Hb. apply m_complex_append_rr; auto.
  - destruct (h_ty T2 x2); try exact I.
    + now apply m_bit_pop_rr.
    + apply rr_if; [now apply m_basic_pop_rr|now apply m_complex_pop_rr].
  - destruct (h_ty T2 x2); try exact I. apply rr_if; [exact I|].
    assert (Hk : forall b1 s1 b2 s2, W s1 s2 -> V s1 s2 b1 b2 ->
              rr s1 s2 (let '(sl, s) := leaf1 s1 (pad32 [byte_of_N sel]) in OK (pair1 s b1 sl))
                       (let '(sl, s) := leaf2 s2 (pad32 [byte_of_N sel]) in OK (pair2 s b2 sl))).
    { intros b1 s1 b2 s2 Hw' Hb.
      apply (rr_leaf s1 s2 _ (fun sl s => OK (pair1 s b1 sl)) (fun sl s => OK (pair2 s b2 sl)) Hw').
      intros l1 s1' l2 s2' Hw'' He Hl. apply pair_h; [exact Hw''| |exact Hl]. eapply V_mono; eauto. }
    destruct v as [t0 v0|h0|].
    + apply (resolve_then_rr st1 st2 _ _
               (fun c s => let '(sl, s') := leaf1 s (pad32 [byte_of_N sel]) in OK (pair1 s' c sl))
               (fun c s => let '(sl, s') := leaf2 s (pad32 [byte_of_N sel]) in OK (pair2 s' c sl)) HS).
      intros b1 s1 b2 s2 Hw' _ Hb. now apply Hk.
    + apply (resolve_then_rr st1 st2 _ _
               (fun c s => let '(sl, s') := leaf1 s (pad32 [byte_of_N sel]) in OK (pair1 s' c sl))
               (fun c s => let '(sl, s') := leaf2 s (pad32 [byte_of_N sel]) in OK (pair2 s' c sl)) HS).
      intros b1 s1 b2 s2 Hw' _ Hb. now apply Hk.
    + apply (rr_bind_rr _ _ _ _
               (fun r0 => let '(c, s) := r0 in
                          let '(sl, s') := leaf1 s (pad32 [byte_of_N sel]) in OK (pair1 s' c sl))
               (fun r0 => let '(c, s) := r0 in
                          let '(sl, s') := leaf2 s (pad32 [byte_of_N sel]) in OK (pair2 s' c sl))).
      * apply rr_if; [exact I|now apply resolve_src_rr].
      * intros t1 s1 t2 s2 Hw' _ Hb. now apply Hk.
Qed.

Lemma put_back_rel st1 st2 h b1 b2 s1 s2 :
  st_rel st1 st2 -> W s1 s2 -> E (Sto1 st1) (Sto2 st2) s1 s2 -> V s1 s2 b1 b2 ->
  st_rel (put_back T1 St1 st1 h b1 s1) (put_back T2 St2 st2 h b2 s2).
Proof.
  intros [Hw HF] Hw' He Hb. unfold put_back.
  assert (HF' : Forall2 (hdl_rel s1 s2) (Hdl1 st1) (Hdl2 st2)).
  { eapply Forall2_mono; [|exact HF]. intros x y. now apply hdl_rel_mono. }
  pose proof (Forall2_nth _ _ _ HF h) as Hn.
  destruct (nth_error (Hdl1 st1) h) as [x1|], (nth_error (Hdl2 st2) h) as [x2|]; try contradiction.
  - split; [exact Hw'|]. cbn [m_store m_handles]. apply Forall2_list_set; [exact HF'|].
    destruct Hn as (A & B & _). split; [exact A|]. split; [exact B|exact Hb].
  - split; [exact Hw'|exact HF'].
Qed.

Lemma set_backing_rel fuel : forall st1 st2 h b1 b2 s1 s2,
  st_rel st1 st2 -> W s1 s2 -> E (Sto1 st1) (Sto2 st2) s1 s2 -> V s1 s2 b1 b2 ->
  st_rel (fst (SetB1 fuel st1 h b1 s1)) (fst (SetB2 fuel st2 h b2 s2)) /\
  snd (SetB1 fuel st1 h b1 s1) = snd (SetB2 fuel st2 h b2 s2).
Proof.
  induction fuel as [|f IH]; intros st1 st2 h b1 b2 s1 s2 HS Hw He Hb.
  - simpl. split; [now apply put_back_rel|reflexivity].
  - cbn [set_backing].
    pose proof (put_back_rel _ _ h _ _ _ _ HS Hw He Hb) as HS1.
    assert (Es1 : Sto1 (put_back T1 St1 st1 h b1 s1) = s1).
    { unfold put_back. destruct (nth_error (Hdl1 st1) h); reflexivity. }
    assert (Es2 : Sto2 (put_back T2 St2 st2 h b2 s2) = s2).
    { unfold put_back. destruct (nth_error (Hdl2 st2) h); reflexivity. }
    set (p1 := put_back T1 St1 st1 h b1 s1) in *. set (p2 := put_back T2 St2 st2 h b2 s2) in *.
    pose proof HS1 as [Hw1 HF1].
    pose proof (Forall2_nth _ _ _ HF1 h) as Hn.
    destruct (nth_error (Hdl1 p1) h) as [x1|], (nth_error (Hdl2 p2) h) as [x2|]; try contradiction;
      [|simpl; auto].
    destruct Hn as (_ & Hk & _). rewrite Hk.
    destruct (h_hook T2 x2) as [[p i]|]; [|simpl; auto].
    pose proof (Forall2_nth _ _ _ HF1 p) as Hp.
    destruct (nth_error (Hdl1 p1) p) as [px1|], (nth_error (Hdl2 p2) p) as [px2|]; try contradiction;
      [|simpl; auto].
    destruct Hp as (Hpt & _ & Hpv).
    assert (Hb' : V (Sto1 p1) (Sto2 p2) b1 b2) by (rewrite Es1, Es2; exact Hb).
    pose proof (m_slot_set_rr (h_ty T2 px2) _ _ _ _ i _ _ Hw1 Hpv Hb') as Hm.
    rewrite Hpt.
    destruct (Mslot1 (h_ty T2 px2) (Sto1 p1) (h_back T1 px1) i b1) as [[pb1 s1']| |],
             (Mslot2 (h_ty T2 px2) (Sto2 p2) (h_back T2 px2) i b2) as [[pb2 s2']| |];
      simpl in Hm; try contradiction; simpl; auto.
    destruct Hm as (Hw' & He' & Hv'). now apply IH.
Qed.

Lemma push_handle_rel st1 st2 x1 x2 :
  st_rel st1 st2 -> hdl_rel (Sto1 st1) (Sto2 st2) x1 x2 ->
  st_rel (fst (push_handle T1 St1 st1 x1)) (fst (push_handle T2 St2 st2 x2)) /\
  snd (push_handle T1 St1 st1 x1) = snd (push_handle T2 St2 st2 x2).
Proof.
  intros [Hw HF] Hx. unfold push_handle. cbn [fst snd]. split.
  - split; [exact Hw|]. cbn [m_store m_handles]. apply Forall2_app; [exact HF|]. now constructor.
  - now apply Forall2_len in HF.
Qed.

Theorem step_hrel st1 st2 o :
  st_rel st1 st2 ->
  st_rel (fst (Step1 st1 o)) (fst (Step2 st2 o)) /\ snd (Step1 st1 o) = snd (Step2 st2 o).
Proof.
  intros HS. pose proof HS as [Hw HF].
  assert (Hmut : forall h x1 x2, hdl_rel (Sto1 st1) (Sto2 st2) x1 x2 ->
     let f1 := match Mutate1 st1 x1 o with
        | OK (b, s') =>
          let '(st', r) := SetB1 (hook_fuel T1 St1 st1) st1 h b s' in
          (st', match r with OK _ => OK MUnit | Err => Err | Panic => Panic end)
        | Err => (st1, Err)
        | Panic => (st1, Panic)
        end in
     let f2 := match Mutate2 st2 x2 o with
        | OK (b, s') =>
          let '(st', r) := SetB2 (hook_fuel T2 St2 st2) st2 h b s' in
          (st', match r with OK _ => OK MUnit | Err => Err | Panic => Panic end)
        | Err => (st2, Err)
        | Panic => (st2, Panic)
        end in
     st_rel (fst f1) (fst f2) /\ snd f1 = snd f2).
  { intros h x1 x2 Hx. cbv zeta. pose proof (mutate_rr _ _ _ _ o HS Hx) as Hm.
    destruct (Mutate1 st1 x1 o) as [[b1 s1']| |]; destruct (Mutate2 st2 x2 o) as [[b2 s2']| |];
      simpl in Hm; try contradiction;
      [|split; [exact HS|reflexivity]|split; [exact HS|reflexivity]].
    destruct Hm as (Hw' & He & Hb).
    assert (Ef : hook_fuel T1 St1 st1 = hook_fuel T2 St2 st2).
    { unfold hook_fuel. now rewrite (Forall2_len _ _ _ HF). }
    rewrite Ef.
    destruct (set_backing_rel (hook_fuel T2 St2 st2) _ _ h _ _ _ _ HS Hw' He Hb) as [A B].
    destruct (SetB1 (hook_fuel T2 St2 st2) st1 h b1 s1') as [r1 o1],
             (SetB2 (hook_fuel T2 St2 st2) st2 h b2 s2') as [r2 o2]. simpl in *. subst o2. auto. }
  unfold step.
  destruct o as [h i|h|h|h i v|h v|h|h sel v].
  - pose proof (get_handle_rel _ _ h HS) as Hg.
    destruct (get_handle T1 St1 st1 h) as [x1| |], (get_handle T2 St2 st2 h) as [x2| |];
      try contradiction; [|simpl; auto].
    destruct Hg as (Ht & Hk & Ha). cbv zeta. rewrite Ht.
    rewrite (m_check_eq _ _ _ _ _ i Hw Ha).
    match goal with |- context [match ?e with Some _ => _ | None => (st1, Err) end] =>
      destruct e as [e0|] end; [|simpl; auto].
    pose proof (m_get_node_rv (h_ty T2 x2) _ _ _ _ i Hw Ha) as Hgn.
    destruct (Mgetn1 (h_ty T2 x2) (Sto1 st1) (h_back T1 x1) i) as [c1| |],
             (Mgetn2 (h_ty T2 x2) (Sto2 st2) (h_back T2 x2) i) as [c2| |];
      simpl in Hgn; try contradiction; [|simpl; auto|simpl; auto].
    assert (Hx : hdl_rel (Sto1 st1) (Sto2 st2) (mkH T1 e0 c1 (Some (h, i))) (mkH T2 e0 c2 (Some (h, i)))).
    { split; [reflexivity|]. split; [reflexivity|exact Hgn]. }
    destruct (push_handle_rel _ _ _ _ HS Hx) as [A B].
    destruct (push_handle T1 St1 st1 _) as [q1 k1], (push_handle T2 St2 st2 _) as [q2 k2].
    simpl in *. subst k2. auto.
  - pose proof (get_handle_rel _ _ h HS) as Hg.
    destruct (get_handle T1 St1 st1 h) as [x1| |], (get_handle T2 St2 st2 h) as [x2| |];
      try contradiction; [|simpl; auto].
    destruct Hg as (Ht & Hk & Ha). rewrite Ht.
    destruct (h_ty T2 x2); try (simpl; auto; fail).
    pose proof (get_h _ _ _ _ 3 Hw Ha) as Hg3.
    destruct (get1 (Sto1 st1) (h_back T1 x1) 3) as [r1| |],
             (get2 (Sto2 st2) (h_back T2 x2) 3) as [r2| |];
      simpl in Hg3; try contradiction; cbn [bind]; [|simpl; auto|simpl; auto].
    rewrite (chunk_h _ _ _ _ Hw Hg3).
    destruct (chunk2 (Sto2 st2) r2) as [s| |]; cbn [bind]; [|simpl; auto|simpl; auto].
    destruct (negb _); [simpl; auto|]. destruct (_ <=? _); [simpl; auto|].
    pose proof (get_h _ _ _ _ 2 Hw Ha) as Hg2.
    destruct (get1 (Sto1 st1) (h_back T1 x1) 2) as [c1| |],
             (get2 (Sto2 st2) (h_back T2 x2) 2) as [c2| |];
      simpl in Hg2; try contradiction; cbn [bind]; [|simpl; auto|simpl; auto].
    destruct (union_opt none opts _) as [o0|]; [|simpl; auto].
    assert (Hx : hdl_rel (Sto1 st1) (Sto2 st2) (mkH T1 o0 c1 None) (mkH T2 o0 c2 None)).
    { split; [reflexivity|]. split; [reflexivity|exact Hg2]. }
    destruct (push_handle_rel _ _ _ _ HS Hx) as [A B].
    destruct (push_handle T1 St1 st1 _) as [q1 k1], (push_handle T2 St2 st2 _) as [q2 k2].
    simpl in *. subst k2. auto.
  - pose proof (get_handle_rel _ _ h HS) as Hg.
    destruct (get_handle T1 St1 st1 h) as [x1| |], (get_handle T2 St2 st2 h) as [x2| |];
      try contradiction; [|simpl; auto].
    destruct Hg as (Ht & Hk & Ha).
    assert (Hx : hdl_rel (Sto1 st1) (Sto2 st2) (mkH T1 (h_ty T1 x1) (h_back T1 x1) None)
                                               (mkH T2 (h_ty T2 x2) (h_back T2 x2) None)).
    { split; [exact Ht|]. split; [reflexivity|exact Ha]. }
    destruct (push_handle_rel _ _ _ _ HS Hx) as [A B].
    destruct (push_handle T1 St1 st1 _) as [q1 k1], (push_handle T2 St2 st2 _) as [q2 k2].
    simpl in *. subst k2. auto.
  - pose proof (get_handle_rel _ _ h HS) as Hg.
    destruct (get_handle T1 St1 st1 h) as [x1| |], (get_handle T2 St2 st2 h) as [x2| |];
      try contradiction; [|simpl; auto]. apply (Hmut h x1 x2 Hg).
  - pose proof (get_handle_rel _ _ h HS) as Hg.
    destruct (get_handle T1 St1 st1 h) as [x1| |], (get_handle T2 St2 st2 h) as [x2| |];
      try contradiction; [|simpl; auto]. apply (Hmut h x1 x2 Hg).
  - pose proof (get_handle_rel _ _ h HS) as Hg.
    destruct (get_handle T1 St1 st1 h) as [x1| |], (get_handle T2 St2 st2 h) as [x2| |];
      try contradiction; [|simpl; auto]. apply (Hmut h x1 x2 Hg).
  - pose proof (get_handle_rel _ _ h HS) as Hg.
    destruct (get_handle T1 St1 st1 h) as [x1| |], (get_handle T2 St2 st2 h) as [x2| |];
      try contradiction; [|simpl; auto]. apply (Hmut h x1 x2 Hg).
Qed.

End Hetero.

(* ------------------------------------------------------------------------------------- *)
(* 3. the heap store against the pure store                                               *)
(* ------------------------------------------------------------------------------------- *)

Lemma h_get_path_refines h p : forall a n, habs h a n ->
  match h_get_path h a p, get_path n p with
  | OK b, OK m => habs h b m
  | Err, Err => True
  | Panic, Panic => True
  | _, _ => False
  end.
Proof.
  induction p as [|b p IH]; intros a n Ha.
  - rewrite get_path_nil. exact Ha.
  - cbn [h_get_path]. inversion Ha as [a0 c Hc|a0 memo l r x y Hc Hl Hr]; subst; rewrite Hc.
    + rewrite get_path_missing. exact I.
    + rewrite get_path_pair. destruct b; apply IH; assumption.
Qed.

Lemma h_chunk_refines h a n : habs h a n -> h_chunk h a = leaf_chunk n.
Proof.
  intros Ha. unfold h_chunk. inversion Ha as [a0 c Hc|a0 memo l r x y Hc Hl Hr]; subst;
    rewrite Hc; reflexivity.
Qed.

Lemma p_alloc_id n : alloc_node node unit p_leaf p_pair tt n = (n, tt).
Proof.
  induction n as [c|l IHl r IHr]; cbn [alloc_node]; [reflexivity|].
  rewrite IHl, IHr. reflexivity.
Qed.

Section Instance.
Variable zh : nat -> chunk.

(* admissible worlds, node correspondence, world extension *)
Definition hw (h : heap) (_ : unit) : Prop :=
  heap_wf h /\ zeros_ok zh h /\ h_cell h true_addr = Some (CLeaf true_chunk).
Definition hv (h : heap) (_ : unit) (a : addr) (n : node) : Prop := habs h a n.
Definition he (h : heap) (_ : unit) (h' : heap) (_ : unit) : Prop := heap_ext h h'.

Lemma hw_ext h h' u u' : hw h u -> heap_ext h h' -> heap_wf h' -> hw h' u'.
Proof.
  intros (_ & Hz & Ht) He Hwf'. split; [exact Hwf'|]. split; [eapply zeros_ok_ext; eauto|].
  now apply He.
Qed.

Lemma h_alloc_rr h u c n :
  hw h u ->
  (forall m l r, c = CPair m l r -> (l < hp_next h)%positive /\ (r < hp_next h)%positive) ->
  (forall h', heap_ext h h' -> h_cell h' (hp_next h) = Some c -> habs h' (hp_next h) n) ->
  rr addr heap node unit hw hv he h u (OK (h_alloc h c)) (OK (n, tt)).
Proof.
  intros Hw Hc Hn. pose proof Hw as (Hwf & Hz & Ht).
  pose proof (h_alloc_ext h c (heap_wf_fresh _ Hwf)) as He.
  pose proof (h_alloc_wf h c Hwf Hc) as Hwf'.
  unfold rr, h_alloc. fold (h_alloc h c). change (mkHeap _ _) with (snd (h_alloc h c)).
  split; [eapply hw_ext; eauto|]. split; [exact He|].
  apply Hn; [exact He|apply h_alloc_new].
Qed.

Lemma inst_leaf s1 s2 c :
  hw s1 s2 -> rr addr heap node unit hw hv he s1 s2 (OK (h_leaf s1 c)) (OK (p_leaf s2 c)).
Proof.
  intros Hw. unfold h_leaf, p_leaf. apply h_alloc_rr; [exact Hw|discriminate|].
  intros h' _ Hc. now apply habs_leaf.
Qed.

Lemma inst_pair s1 s2 l1 l2 r1 r2 :
  hw s1 s2 -> hv s1 s2 l1 l2 -> hv s1 s2 r1 r2 ->
  rr addr heap node unit hw hv he s1 s2 (OK (h_pair s1 l1 r1)) (OK (p_pair s2 l2 r2)).
Proof.
  intros Hw Hl Hr. unfold h_pair, p_pair. pose proof Hw as (Hwf & _).
  apply h_alloc_rr; [exact Hw| |].
  - intros m l r Eq. injection Eq as _ <- <-. split; eapply habs_lt; eauto.
  - intros h' He Hc. eapply habs_pair; [exact Hc| |]; eapply habs_ext; eauto.
Qed.

Lemma hm_alloc_refines h n :
  hw h tt ->
  hw (snd (hm_alloc h n)) tt /\ heap_ext h (snd (hm_alloc h n)) /\
  habs (snd (hm_alloc h n)) (fst (hm_alloc h n)) n.
Proof.
  intros Hw.
  pose proof (alloc_node_rr addr heap node unit h_leaf h_pair p_leaf p_pair hw hv he
                (fun a1 a2 b1 b2 c1 c2 => heap_ext_trans a1 b1 c1)
                (fun s1 s2 s1' s2' a b He Hv => habs_ext s1 s1' a b He Hv)
                inst_leaf inst_pair n h tt Hw) as Hr.
  rewrite p_alloc_id in Hr. unfold hm_alloc.
  destruct (alloc_node addr heap h_leaf h_pair h n) as [a h']. exact Hr.
Qed.

Theorem hm_tm_step_rel (hs : hm_state) (ts : tm_state) o :
  st_rel addr heap node unit hw hv hs ts ->
  st_rel addr heap node unit hw hv (fst (hm_step zh hs o)) (fst (tm_step zh ts o)) /\
  snd (hm_step zh hs o) = snd (tm_step zh ts o).
Proof.
  unfold hm_step, tm_step.
  apply (step_hrel addr heap node unit
           h_getter (h_setter zh) h_leaf h_pair h_chunk zero_addr true_addr
           p_get (p_set zh) p_leaf p_pair p_chunk (p_zero zh) p_true zh hw hv he).
  - intros s1 s2. apply heap_ext_refl.
  - intros a1 a2 b1 b2 c1 c2. apply heap_ext_trans.
  - intros s1 s2 s1' s2' a b He Hv. eapply habs_ext; eauto.
  - (* getter *)
    intros s1 s2 a1 a2 g _ Hv. unfold rv, h_getter, p_get, getter.
    apply h_get_path_refines. exact Hv.
  - (* chunk *)
    intros s1 s2 a1 a2 _ Hv. unfold p_chunk. now apply h_chunk_refines.
  - exact inst_leaf.
  - exact inst_pair.
  - (* setter *)
    intros s1 s2 a1 a2 g e v1 v2 Hw Ha Hv. pose proof Hw as (Hwf & Hz & Ht).
    unfold h_setter, p_set, setter.
    pose proof (heap_set_refines zh s1 a1 a2 (g_path g) e v1 v2 Hwf Hz Ha Hv) as Hr.
    destruct (h_set_path zh s1 a1 (g_path g) e v1) as [[a' h']| |] eqn:Es.
    + destruct Hr as (n' & -> & Hn'). cbn [bind]. unfold rr.
      destruct (heap_set_wf zh _ _ _ _ _ _ _ Hwf Hz (habs_lt _ _ _ Hwf Hv) Es) as (He & Hwf' & _).
      split; [eapply hw_ext; eauto|]. split; [exact He|exact Hn'].
    + rewrite Hr. exact I.
    + rewrite Hr. exact I.
  - (* zero *)
    intros s1 s2 (_ & Hz & _). apply habs_leaf. apply Hz. lia.
  - (* true *)
    intros s1 s2 (_ & _ & Ht). apply habs_leaf. exact Ht.
Qed.

End Instance.

(* ------------------------------------------------------------------------------------- *)
(* 4. abs_rel: initial state, one step, histories, hash requests, roots                   *)
(* ------------------------------------------------------------------------------------- *)

Section Refine.
Variable zh : nat -> chunk.

Lemma abs_rel_iff hs ts :
  abs_rel zh hs ts <-> st_rel addr heap node unit (hw zh) hv hs ts.
Proof.
  unfold abs_rel, st_rel, hw. split.
  - intros (Hwf & Hz & Ht & Hl & Hk). split; [auto|].
    apply Forall2_of_nth; [exact Hl|]. intros k x y Hx Hy. exact (Hk k x y Hx Hy).
  - intros ((Hwf & Hz & Ht) & HF). split; [exact Hwf|]. split; [exact Hz|]. split; [exact Ht|].
    split; [eapply Forall2_len; eauto|].
    intros k x y Hx Hy. pose proof (Forall2_nth _ _ _ HF k) as Hn. rewrite Hx, Hy in Hn. exact Hn.
Qed.

(* abs_rel contains the machine invariant of C05-C07 *)
Lemma abs_rel_hm_inv hs ts : abs_rel zh hs ts -> hm_inv zh hs.
Proof.
  intros (Hwf & Hz & Ht & Hl & Hk). split; [exact Hwf|]. split; [exact Hz|]. split.
  - eapply heap_wf_lt; eauto.
  - intros k x Hx.
    destruct (nth_error (m_handles _ _ ts) k) as [y|] eqn:Hy.
    + destruct (Hk k x y Hx Hy) as (_ & _ & Ha). eapply habs_lt; eauto.
    + apply nth_error_None in Hy. rewrite <- Hl in Hy.
      assert (Hlt : (k < length (m_handles _ _ hs))%nat) by (apply nth_error_Some; congruence). lia.
Qed.

Lemma heap_init_true : h_cell (heap_init zh) true_addr = Some (CLeaf true_chunk).
Proof.
  unfold heap_init. fold heap0. destruct (init_cells_spec zh 65) as (Hn & _).
  change true_addr with (Pos.of_succ_nat 65). rewrite <- Hn. apply h_alloc_new.
Qed.

Lemma hw_init : hw zh (heap_init zh) tt.
Proof. split; [apply heap_init_wf|]. split; [apply heap_init_zeros_ok|apply heap_init_true]. Qed.

(* 1. allocating a pure tree into the initial heap gives an address whose abstraction is it *)
Theorem refine_init : forall t n,
  let '(a, h) := hm_alloc (heap_init zh) n in
  abs_rel zh (mkM _ _ h [mkH _ t a None]) (tm_init t n).
Proof.
  intros t n. destruct (hm_alloc_refines zh (heap_init zh) n hw_init) as ((Hwf & Hz & Ht) & _ & Ha).
  destruct (hm_alloc (heap_init zh) n) as [a h]. cbn [fst snd] in *.
  unfold abs_rel, tm_init. cbn [m_store m_handles].
  split; [exact Hwf|]. split; [exact Hz|]. split; [exact Ht|]. split; [reflexivity|].
  intros k x y Hx Hy. destruct k as [|k]; simpl in Hx, Hy; [|destruct k; discriminate].
  injection Hx as <-. injection Hy as <-. cbn [h_ty h_hook h_back]. auto.
Qed.

Lemma refine_step_fst_snd hs ts o :
  abs_rel zh hs ts ->
  abs_rel zh (fst (hm_step zh hs o)) (fst (tm_step zh ts o)) /\
  snd (hm_step zh hs o) = snd (tm_step zh ts o).
Proof.
  intros Hr. apply abs_rel_iff in Hr. destruct (hm_tm_step_rel zh hs ts o Hr) as [A B].
  split; [now apply abs_rel_iff|exact B].
Qed.

(* 2. every step of HM is the same step of TM: same output (same new handle numbers, same
   Err / Panic classification), related states — every operation, every source *)
Theorem refine_step : forall hs ts o,
  abs_rel zh hs ts ->
  let '(hs', rh) := hm_step zh hs o in
  let '(ts', rt) := tm_step zh ts o in
  abs_rel zh hs' ts' /\ rh = rt.
Proof.
  intros hs ts o Hr. pose proof (refine_step_fst_snd hs ts o Hr) as Hs.
  destruct (hm_step zh hs o) as [hs' rh], (tm_step zh ts o) as [ts' rt]. exact Hs.
Qed.

(* 3. histories of operations *)
Theorem refine_history : forall os hs ts,
  abs_rel zh hs ts ->
  abs_rel zh (hm_ops_run zh hs os) (MutProofs.tm_run zh ts os) /\
  hm_trace zh hs os = MutProofs.tm_trace zh ts os.
Proof.
  induction os as [|o os IH]; intros hs ts Hr.
  - split; [exact Hr|reflexivity].
  - destruct (refine_step_fst_snd hs ts o Hr) as [Hr' Eo].
    destruct (IH _ _ Hr') as [Hf Et].
    unfold hm_ops_run, MutProofs.tm_run in *. cbn [fold_left hm_trace MutProofs.tm_trace].
    split; [exact Hf|]. now rewrite Eo, Et.
Qed.

(* ---- hash-tree-root requests: they only write memos, the abstraction does not see them ---- *)
Section WithHash.
Variable H : chunk -> chunk -> chunk.

Lemma abs_rel_memo hs ts h' :
  abs_rel zh hs ts -> heap_wf h' -> heap_ext_memo (m_store _ _ hs) h' ->
  abs_rel zh (mkM _ _ h' (m_handles _ _ hs)) ts.
Proof.
  intros (Hwf & Hz & Ht & Hl & Hk) Hwf' He. unfold abs_rel. cbn [m_store m_handles].
  split; [exact Hwf'|]. split; [|split; [|split; [exact Hl|]]].
  - intros d Hd. eapply ext_memo_leaf; [exact He|]. now apply Hz.
  - eapply ext_memo_leaf; eauto.
  - intros k x y Hx Hy. destruct (Hk k x y Hx Hy) as (A & B & C).
    split; [exact A|]. split; [exact B|]. eapply habs_ext_memo; eauto.
Qed.

(* 4. the root observed on HM is the root of the TM backing *)
Theorem refined_root : forall hs ts k x y fuel,
  abs_rel zh hs ts -> memo_ok H (m_store _ _ hs) ->
  nth_error (m_handles _ _ hs) k = Some x -> nth_error (m_handles _ _ ts) k = Some y ->
  (Pos.to_nat (h_back _ x) <= fuel)%nat ->
  exists h' c,
    h_merkle H fuel (m_store _ _ hs) (h_back _ x) = OK (root_of H (h_back _ y), h', c) /\
    memo_ok H h' /\ abs_rel zh (mkM _ _ h' (m_handles _ _ hs)) ts.
Proof.
  intros hs ts k x y fuel Hr Hok Hx Hy Hf. pose proof Hr as (Hwf & Hz & Ht & Hl & Hk).
  destruct (Hk k x y Hx Hy) as (_ & _ & Ha).
  destruct (h_merkle_root_exact H fuel _ _ _ Hwf Hok Ha Hf) as (h' & c & Em & Hok').
  exists h', c. split; [exact Em|]. split; [exact Hok'|].
  destruct (h_merkle_heap H _ _ _ _ _ _ Hwf (habs_lt _ _ _ Hwf Ha) Hf Em) as (He & _ & Hwf' & _).
  now apply abs_rel_memo.
Qed.

(* the same through the HashTreeRoot request of the histories of C05-C07 *)
Lemma refined_hash hs ts k x y :
  abs_rel zh hs ts -> memo_ok H (m_store _ _ hs) ->
  nth_error (m_handles _ _ hs) k = Some x -> nth_error (m_handles _ _ ts) k = Some y ->
  exists h' c,
    hm_hash H hs k = OK (root_of H (h_back _ y), mkM _ _ h' (m_handles _ _ hs), c) /\
    memo_ok H h' /\ abs_rel zh (mkM _ _ h' (m_handles _ _ hs)) ts.
Proof.
  intros Hr Hok Hx Hy.
  destruct (refined_root hs ts k x y _ Hr Hok Hx Hy (le_n _)) as (h' & c & Em & Hok' & Hr').
  exists h', c. unfold hm_hash. rewrite Hx, Em. auto.
Qed.

Lemma refine_event hs ts e :
  abs_rel zh hs ts ->
  abs_rel zh (hm_event H zh hs e)
             (match e with EStep o => fst (tm_step zh ts o) | EHash _ => ts end).
Proof.
  intros Hr. destruct e as [o|k]; cbn [hm_event].
  - apply (refine_step_fst_snd hs ts o Hr).
  - pose proof (abs_rel_hm_inv _ _ Hr) as Hi.
    destruct (nth_error (m_handles _ _ hs) k) as [x|] eqn:Hx.
    + destruct (hm_hash_spec H zh hs k x Hi Hx) as (r & h' & c & Eh & Em & Hi'). rewrite Eh.
      pose proof Hi as (Hwf & _ & _ & Hv).
      destruct (h_merkle_heap H _ _ _ _ _ _ Hwf (Hv _ _ Hx) (le_n _) Em) as (He & _ & Hwf' & _).
      now apply abs_rel_memo.
    + unfold hm_hash. rewrite Hx. exact Hr.
Qed.

(* histories with interleaved hash requests: TM replays the operations only *)
Theorem refine_events : forall evs hs ts,
  abs_rel zh hs ts ->
  abs_rel zh (hm_run H zh hs evs) (MutProofs.tm_run zh ts (ev_ops evs)).
Proof.
  induction evs as [|e evs IH]; intros hs ts Hr; [exact Hr|].
  pose proof (refine_event hs ts e Hr) as Hr'.
  unfold hm_run, MutProofs.tm_run in *. cbn [fold_left]. destruct e as [o|k].
  - cbn [ev_ops flat_map app fold_left]. now apply IH.
  - cbn [ev_ops flat_map app]. now apply IH.
Qed.

(* after ANY history of operations and hash requests, the root HM reports for handle k is the
   root of the tree TM holds for handle k *)
Theorem refined_history_root : forall evs hs ts k x y fuel,
  abs_rel zh hs ts -> memo_ok H (m_store _ _ hs) ->
  nth_error (m_handles _ _ (hm_run H zh hs evs)) k = Some x ->
  nth_error (m_handles _ _ (MutProofs.tm_run zh ts (ev_ops evs))) k = Some y ->
  (Pos.to_nat (h_back _ x) <= fuel)%nat ->
  exists h' c,
    h_merkle H fuel (m_store _ _ (hm_run H zh hs evs)) (h_back _ x) =
      OK (root_of H (h_back _ y), h', c).
Proof.
  intros evs hs ts k x y fuel Hr Hok Hx Hy Hf.
  pose proof (refine_events evs hs ts Hr) as Hr'.
  destruct (hm_run_inv H zh evs hs (abs_rel_hm_inv _ _ Hr)) as (_ & _ & Hok' & _).
  destruct (refined_root _ _ k x y fuel Hr' (Hok' Hok) Hx Hy Hf) as (h' & c & Em & _). eauto.
Qed.

End WithHash.
End Refine.

(* ------------------------------------------------------------------------------------- *)
(* 5. examples: the hypotheses are satisfiable by non-trivial inputs                      *)
(* ------------------------------------------------------------------------------------- *)

(* the state of HeapProofs.ex_st0 (Container{Vector[uint64,8]; uint64} allocated into the
   initial heap) is related to the TM state over the same tree *)
Example ex_abs_rel : abs_rel yzh ex_st0 (tm_init ex_ty ex_node) /\ memo_ok yH (m_store _ _ ex_st0).
Proof. split; [exact (refine_init yzh ex_ty ex_node)|apply ex_st0_ok]. Qed.

(* sub-view, write through the hook, copy, write the copy, a handle source, an error (Pop of a
   container), an out-of-range Get, a none source *)
Definition ex_ops : list op :=
  [OGet 0 0; OSet 1 5 (SLit (TUint 8) (VUint 7)); OCopy 0; OSet 2 1 (SLit (TUint 8) (VUint 9));
   OSet 0 0 (SHandle 1); OPop 0; OGet 0 7; OSet 2 0 SNone].

Example ex_refine_run :
  hm_trace yzh ex_st0 ex_ops =
    [OK (MHandle 1); OK MUnit; OK (MHandle 2); OK MUnit; OK MUnit; Err; Err; OK MUnit] /\
  MutProofs.tm_trace yzh (tm_init ex_ty ex_node) ex_ops =
    [OK (MHandle 1); OK MUnit; OK (MHandle 2); OK MUnit; OK MUnit; Err; Err; OK MUnit].
Proof. split; vm_compute; reflexivity. Qed.

(* the roots HM reports after the history are the roots of the TM backings, and the three
   handles have three different roots *)
Example ex_refined_roots :
  let hs := hm_ops_run yzh ex_st0 ex_ops in
  let ts := MutProofs.tm_run yzh (tm_init ex_ty ex_node) ex_ops in
  map (fun k => match hm_hash yH hs k with OK (r, _, _) => Some r | _ => None end) [0; 1; 2]%nat =
  map (fun y => Some (root_of yH (h_back _ y))) (m_handles _ _ ts) /\
  NoDup (map (fun y => root_of yH (h_back _ y)) (m_handles _ _ ts)).
Proof.
  split; [vm_compute; reflexivity|].
  vm_compute.
  repeat constructor; simpl; intuition discriminate.
Qed.
