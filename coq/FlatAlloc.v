(* FlatAlloc.v — the flat decoder of Codec.v ([flat_dec]) instrumented with the number of bytes
   that the library (codec/decoder.go, tree.ReadRoots) and the destination objects assembled
   from it the way downstream users do (harness/flat_test.go: a fresh element per list item,
   a reader per sub-scope) ask the Go allocator for (C20, "view and flat decoders").  The charge
   is returned also when decoding fails.  Definitions only.  [flat_dec_a] must stay in lock step
   with Codec.flat_dec: FlatAllocProofs proves [fst (flat_dec_a ...) = flat_dec ...]. *)
From Ztyp Require Import Base Bitlen Bitfields Types Spec Reader Codec Alloc.
Open Scope N_scope.

(* unit costs in bytes *)
Definition c_fbasic : N := 32.   (* destination of a basic value / a Root *)
Definition c_fobj : N := 48.     (* destination object of a composite (struct with a slice) *)
Definition c_slot : N := 16.     (* one interface slot of a []Flat / []Deserializable *)
Definition c_grow : N := 64.     (* one appended slot including the amortised regrowth of the slice *)
Definition c_sub : N := 96.      (* DecodingReader + io.LimitedReader of a SubScope *)
Definition c_clo : N := 32.      (* the item / add / select closure *)

(* a fresh destination for the type (the caller's new(T)): the fixed structure *)
Fixpoint fnew (t : ty) : N :=
  match t with
  | TUint _ | TBool | TRoot => c_fbasic
  | TBytes _ | TBitvector _ | TBitlist _ | TList _ _ | TUnion _ _ => c_fobj
  | TVector e n => if is_byte_elem e then c_fobj else c_fobj + n * (c_slot + fnew e)
  | TContainer fs => c_fobj + fold_right (fun f acc => c_slot + fnew f + acc) 0 fs
  end.

Definition afdecoder := ctree -> rstate -> dreader -> ares (val * ctree * rstate * dreader).

Definition in_sub_scope_a (dec : afdecoder) (c : ctree) (size : N) (st : rstate) (d : dreader)
  : ares (val * ctree * rstate) :=
  ado s <- alift (dr_sub_scope st d size); let '(st1, sd) := s in
  ado _ <- charge c_sub;
  ado r <- dec c st1 sd; let '(v, c', st2, _) := r in alift (OK (v, c', st2)).

(* [pre] is charged before every item (List: the add() callback makes the element) *)
Fixpoint d_vector_fixed_a (dec : afdecoder) (pre : N) (cs : ctree) (i count : nat) (size : N)
         (st : rstate) (d : dreader) : ares (list val * list ctree * rstate) :=
  match count with
  | O => alift (OK ([], [], st))
  | S k =>
    ado _ <- charge pre;
    ado r <- in_sub_scope_a dec (ct_child cs i) size st d; let '(v, c, st1) := r in
    ado more <- d_vector_fixed_a dec pre cs (S i) k size st1 d; let '(vs, cs', st2) := more in
    alift (OK (v :: vs, c :: cs', st2))
  end.

Fixpoint d_var_items_a (dec : nat -> afdecoder) (pre : N) (cs : ctree) (i : nat) (offs : list N)
         (scope prev : N) (vector_style : bool) (st : rstate) (d : dreader)
  : ares (list val * list ctree * rstate) :=
  match offs with
  | [] => alift (OK ([], [], st))
  | off :: rest =>
    if off <? prev then alift Err else
    let next := match rest with o' :: _ => o' | [] => scope end in
    ado _ <- charge pre;
    ado r <- in_sub_scope_a (dec i) (ct_child cs i) (sub64 next off) st d; let '(v, c, st1) := r in
    ado more <- d_var_items_a dec pre cs (S i) rest scope (if vector_style then next else off)
                              vector_style st1 d;
    let '(vs, cs', st2) := more in
    alift (OK (v :: vs, c :: cs', st2))
  end.

Fixpoint d_cont_fixed_a (fs : list (N * afdecoder)) (cs : ctree) (i : nat) (prev : N)
         (st : rstate) (d : dreader) : ares (list dfield * N * rstate * dreader) :=
  match fs with
  | [] => alift (OK ([], prev, st, d))
  | (fix_len, dec) :: rest =>
    if negb (fix_len =? 0) then
      ado r <- in_sub_scope_a dec (ct_child cs i) fix_len st d; let '(v, c, st1) := r in
      ado more <- d_cont_fixed_a rest cs (S i) (add64 prev fix_len) st1 d;
      let '(dfs, p, st2, d2) := more in alift (OK (DFixed v c :: dfs, p, st2, d2))
    else
      ado r <- alift (dr_read_u32 st d); let '(off, st1, d1) := r in
      ado more <- d_cont_fixed_a rest cs (S i) (add64 prev 4) st1 d1;
      let '(dfs, p, st2, d2) := more in alift (OK (DVar off :: dfs, p, st2, d2))
  end.

Fixpoint d_cont_var_a (fs : list (dfield * afdecoder)) (cs : ctree) (i : nat) (scope : N)
         (st : rstate) (d : dreader) : ares (list val * list ctree * rstate) :=
  match fs with
  | [] => alift (OK ([], [], st))
  | (DFixed v c, _) :: rest =>
    ado more <- d_cont_var_a rest cs (S i) scope st d; let '(vs, cs', st1) := more in
    alift (OK (v :: vs, c :: cs', st1))
  | (DVar off, dec) :: rest =>
    let next := (fix nxt (l : list (dfield * afdecoder)) : N :=
                   match l with
                   | [] => scope
                   | (DVar o, _) :: _ => o
                   | _ :: l' => nxt l'
                   end) rest in
    if next <? off then alift Err else
    ado r <- in_sub_scope_a dec (ct_child cs i) (next - off) st d; let '(v, c, st1) := r in
    ado more <- d_cont_var_a rest cs (S i) scope st1 d; let '(vs, cs', st2) := more in
    alift (OK (v :: vs, c :: cs', st2))
  end.

(* grow-or-reslice: a new backing array only if the capacity does not suffice *)
Definition d_bytes_a (c : ctree) (n : N) (st : rstate) (d : dreader)
  : ares (list byte * ctree * rstate * dreader) :=
  ado _ <- charge (if snd (ct_bytes c) <? n then n else 0);
  alift (d_bytes c n st d).

Fixpoint flat_dec_a (t : ty) (c : ctree) (st : rstate) (d : dreader) {struct t}
  : ares (val * ctree * rstate * dreader) :=
  match t with
  | TUint w =>
    ado r <- alift (dr_read st d w); let '(bs, st1, d1) := r in
    alift (OK (VUint (le_val bs), CFresh, st1, d1))
  | TBool =>
    ado r <- alift (dr_read_byte st d); let '(b, st1, d1) := r in
    if 1 <? b then alift Err else alift (OK (VBool (b =? 1), CFresh, st1, d1))
  | TRoot =>
    ado r <- alift (dr_read st d 32); let '(bs, st1, d1) := r in
    alift (OK (VBytes bs, CFresh, st1, d1))
  | TBytes n =>
    ado r <- d_bytes_a c n st d; let '(bs, c', st1, d1) := r in alift (OK (VBytes bs, c', st1, d1))
  | TBitvector n =>
    ado r <- d_bytes_a c (N.shiftr (wrap64 (n + 7)) 3) st d; let '(bs, c', st1, d1) := r in
    ado _ <- alift (bitvector_check bs n);
    alift (OK (VBits (bytes_to_bits bs n), c', st1, d1))
  | TBitlist n =>
    let byte_len := dr_scope d in
    if (N.shiftr n 3) + 1 <? byte_len then alift Err else
    ado r <- d_bytes_a c byte_len st d; let '(bs, c', st1, d1) := r in
    ado _ <- alift (bitlist_check bs n);
    alift (OK (VBits (bytes_to_bits bs (bitlist_len bs)), c', st1, d1))
  | TVector e n =>
    if is_byte_elem e then
      ado r <- d_bytes_a c n st d; let '(bs, c', st1, d1) := r in
      alift (OK (VSeq (map (fun b => VUint (N_of_byte b)) bs), c', st1, d1))
    else
      let fsz := flat_fixed_len e in
      ado _ <- charge c_clo;
      if negb (fsz =? 0) then
        ado r <- d_vector_fixed_a (flat_dec_a e) 0 c O (nat_of n) fsz st d; let '(vs, cs, st1) := r in
        alift (OK (VSeq vs, CNodes cs, st1, d))
      else
        let scope := dr_scope d in
        ado _ <- charge (8 * n);                              (* make([]uint64, length) *)
        ado r <- alift (d_read_offsets (nat_of n) st d); let '(offs, st1, d1) := r in
        if negb (hd (mul64 4 n) offs =? mul64 4 n) then alift Err else
        ado r2 <- d_var_items_a (fun _ => flat_dec_a e) 0 c O offs scope 0 true st1 d1;
        let '(vs, cs, st2) := r2 in
        alift (OK (VSeq vs, CNodes cs, st2, d1))
  | TList e n =>
    let scope := dr_scope d in
    if is_byte_elem e then
      if n <? scope then alift Err else
      ado r <- d_bytes_a c scope st d; let '(bs, c', st1, d1) := r in
      alift (OK (VSeq (map (fun b => VUint (N_of_byte b)) bs), c', st1, d1))
    else if is_root_elem e then
      if negb (scope mod 32 =? 0) then alift Err else
      let len := scope / 32 in
      if n <? len then alift Err else
      ado _ <- charge (32 * len);                             (* make([]Root, length) *)
      (fix roots (k : nat) (st : rstate) (d : dreader) : ares (val * ctree * rstate * dreader) :=
         match k with
         | O => alift (OK (VSeq [], CFresh, st, d))
         | S k' =>
           ado r <- alift (dr_read st d 32); let '(bs, st1, d1) := r in
           ado more <- roots k' st1 d1;
           match more with
           | (VSeq vs, c', st2, d2) => alift (OK (VSeq (VBytes bs :: vs), c', st2, d2))
           | _ => alift Err
           end
         end) (nat_of len) st d
    else
      ado _ <- charge c_clo;
      if scope =? 0 then alift (OK (VSeq [], CFresh, st, d))
      else
        let fsz := flat_fixed_len e in
        let pre := fnew e + c_grow in                         (* add(): new element, appended *)
        if negb (fsz =? 0) then
          if negb (scope mod fsz =? 0) then alift Err else
          let len := scope / fsz in
          if n <? len then alift Err else
          ado r <- d_vector_fixed_a (flat_dec_a e) pre CFresh O (nat_of len) fsz st d;
          let '(vs, _, st1) := r in
          alift (OK (VSeq vs, CFresh, st1, d))
        else
          ado r <- alift (dr_read_u32 st d); let '(first, st1, d1) := r in
          if negb (first mod 4 =? 0) then alift Err else
          let len := first / 4 in
          if n <? len then alift Err else
          if (first =? 0) || (scope <? first) then alift Err else
          ado _ <- charge (8 * len);                          (* make([]uint64, 0, length) *)
          ado r2 <- alift (d_read_offsets (nat_of (len - 1)) st1 d1); let '(offs, st2, d2) := r2 in
          ado r3 <- d_var_items_a (fun _ => flat_dec_a e) pre CFresh O (first :: offs) scope 0 false
                                  st2 d2;
          let '(vs, _, st3) := r3 in
          alift (OK (VSeq vs, CFresh, st3, d2))
  | TContainer fs =>
    ado _ <- charge (lenNn fs * c_slot);                      (* the []Deserializable *)
    if spec_is_fixed t then
      ado x <- (fix go (fs : list ty) (i : nat) (st : rstate) (d : dreader)
                  : ares (list val * list ctree * rstate * dreader) :=
                  match fs with
                  | [] => alift (OK ([], [], st, d))
                  | f :: fs' =>
                    ado r <- flat_dec_a f (ct_child c i) st d; let '(v, c1, st1, d1) := r in
                    ado more <- go fs' (S i) st1 d1; let '(vs, cs, st2, d2) := more in
                    alift (OK (v :: vs, c1 :: cs, st2, d2))
                  end) fs O st d;
      let '(vs, cs, st1, d1) := x in alift (OK (VCont vs, CNodes cs, st1, d1))
    else
      let scope := dr_scope d in
      ado _ <- charge (lenNn fs * c_grow);                    (* offsets, dynFields appends *)
      let decs := map (fun f => (flat_fixed_len f, flat_dec_a f)) fs in
      ado r <- d_cont_fixed_a decs c O 0 st d; let '(dfs, prev, st1, d1) := r in
      match first_var_off dfs with
      | None => alift Err
      | Some o0 =>
        if negb (prev =? o0) then alift Err else
        ado r2 <- d_cont_var_a (combine dfs (map flat_dec_a fs)) c O scope st1 d1;
        let '(vs, cs, st2) := r2 in
        alift (OK (VCont vs, CNodes cs, st2, d1))
      end
  | TUnion none opts =>
    ado _ <- charge c_clo;
    ado r <- alift (dr_read_byte st d); let '(sel, st1, d1) := r in
    if none && (sel =? 0) then
      if negb (dr_scope d1 =? 0) then alift Err else alift (OK (VUnion 0 None, CFresh, st1, d1))
    else
      (fix pick (os : list ty) (k : nat) : ares (val * ctree * rstate * dreader) :=
         match os, k with
         | [], _ => alift Err
         | o :: _, O =>
           ado _ <- charge (fnew o);                          (* selectFn makes the destination *)
           if negb (flat_fixed_len o =? 0) && negb (flat_fixed_len o =? dr_scope d1) then alift Err else
           ado r <- flat_dec_a o CFresh st1 d1; let '(v, _, st2, d2) := r in
           alift (OK (VUnion sel (Some v), CFresh, st2, d2))
         | _ :: os', S k' => pick os' k'
         end) opts (nat_of (if none then sel - 1 else sel))
  end.

(* top level: a fresh destination, then value.Deserialize(NewDecodingReader(bytes.NewReader(bs), len(bs))) *)
Definition flat_decode_a (t : ty) (c : ctree) (bs : list byte) : ares (val * ctree) :=
  let '(st, d) := new_reader bs (lenN bs) in
  ado _ <- charge (fnew t + c_sub);
  ado r <- flat_dec_a t c st d; let '(v, c', _, _) := r in alift (OK (v, c')).

(* The bound: alloc <= fperbyte t * bytes + ffoot t; neither depends on a list / bitlist limit *)
Fixpoint ffoot (t : ty) : N :=
  match t with
  | TUint _ | TBool | TRoot => 0
  | TBytes n => n
  | TBitvector n => N.shiftr (wrap64 (n + 7)) 3
  | TBitlist _ => 0
  | TVector e n =>
    if is_byte_elem e then n
    else c_clo + n * (ffoot e + c_sub + 8)
  | TList _ _ => c_clo + 8
  | TContainer fs =>
    fold_right (fun f acc => ffoot f + acc) 0 fs + lenNn fs * (c_slot + c_grow + c_sub)
  | TUnion _ opts =>
    c_clo + fold_right (fun o acc => N.max (fnew o + ffoot o) acc) 0 opts
  end.

Fixpoint fperbyte (t : ty) : N :=
  match t with
  | TUint _ | TBool | TRoot => 0
  | TBytes _ | TBitvector _ => 0
  | TBitlist _ => 1
  | TVector e _ => if is_byte_elem e then 0 else fperbyte e
  | TList e _ =>
    if is_byte_elem e || is_root_elem e then 1
    else fnew e + ffoot e + fperbyte e + c_grow + c_sub + 8
  | TContainer fs => fold_right (fun f acc => N.max (fperbyte f) acc) 0 fs
  | TUnion _ opts => fold_right (fun o acc => N.max (fperbyte o) acc) 0 opts
  end.
