(* ChunkWriterProofs.v — proofs about the SHORT-WRITE writer model of Extras.v (property C13):
   [cwstate], [cw_call], [cw_write_loop], [cw_write], [cw_write_all] = the loop of
   EncodingWriter.Write
       for n < len(p) { d, err := w.Write(p[n:]); ew.n += d; if err != nil { return err }; n += d }
   over an underlying writer that takes at most [cw_chunk] >= 1 bytes per call with a nil error
   and fails once its budget is used up, accepting the part that still fits.

   Small spec definition used below (not needed to read the statements of Props/C13.v):
   * [cw_proj w]  the state of the chunked writer seen as a state of the one-call-per-slice
                  writer of IO.v: same budget, same accepted bytes, same counter (the chunk size
                  is forgotten).

   Contents
     1. list helper
     2. the retry loop simulates one call of IO.ew_write (needs chunk >= 1)
     3. a sequence of writes simulates IO.ew_write_all
     4. the writer laws: prefix, counter, nofail, chunked = unchunked
     5. Examples (a failure in the middle of the retries is counted; chunk = 0 runs out of fuel) *)
From Coq Require Import Lia ZifyN ZifyNat ZifyBool.
From Ztyp Require Import Base Spec IO IOProofs Extras.
Open Scope N_scope.

Definition cw_proj (w : cwstate) : wstate := mkW (cw_budget w) (cw_accepted w) (cw_n w).

(* ------------------------------------------------------------------------------------ *)
(** * 1. list helper *)

Lemma firstn_add_split {A} : forall (m j : nat) (l : list A),
  firstn (m + j) l = firstn m l ++ firstn j (skipn m l).
Proof.
  induction m as [|m IH]; intros j l.
  - reflexivity.
  - destruct l as [|x l].
    + cbn [Nat.add firstn skipn app]. now rewrite firstn_nil.
    + cbn [Nat.add firstn skipn app]. now rewrite IH.
Qed.

(* ------------------------------------------------------------------------------------ *)
(** * 2. the retry loop = one call of the one-call-per-slice writer *)

Lemma cw_write_loop_sim : forall fuel w p,
  1 <= cw_chunk w -> (length p < fuel)%nat ->
  (cw_proj (fst (cw_write_loop fuel w p)), snd (cw_write_loop fuel w p)) = ew_write (cw_proj w) p /\
  cw_chunk (fst (cw_write_loop fuel w p)) = cw_chunk w.
Proof.
  induction fuel as [|f IH]; intros w p Hk Hf; [lia|].
  destruct p as [|x q].
  - (* nothing to write: the writer is not called *)
    cbn [cw_write_loop fst snd]. split; [|reflexivity].
    destruct w as [bud k acc n]. unfold ew_write, cw_proj.
    cbn [w_budget w_accepted w_n cw_budget cw_accepted cw_n length].
    rewrite app_nil_r. destruct bud as [b|].
    + change (N.of_nat 0) with 0. rewrite N.sub_0_r, N.add_0_r.
      destruct (N.leb_spec 0 b); [reflexivity|lia].
    + change (N.of_nat 0) with 0. now rewrite N.add_0_r.
  - remember (x :: q) as p eqn:Ep.
    assert (Hlen : 1 <= lenN p) by (subst p; unfold lenN; cbn [length]; lia).
    assert (Hloop : cw_write_loop (S f) w p =
              let '(d, ok) := cw_call w p in
              let w' := mkCW (match cw_budget w with None => None | Some b => Some (b - d) end)
                             (cw_chunk w) (cw_accepted w ++ firstn (nat_of d) p) (cw_n w + d) in
              if ok then cw_write_loop f w' (skipn (nat_of d) p) else (w', false))
      by (subst p; reflexivity).
    rewrite Hloop. clear Hloop Ep x q.
    destruct w as [bud k acc n]. cbn [cw_chunk] in Hk.
    unfold cw_call. cbn [cw_budget cw_chunk cw_accepted cw_n].
    set (m := N.min (lenN p) k).
    assert (Hm1 : 1 <= m) by (unfold m; lia).
    assert (Hmp : m <= lenN p) by (unfold m; lia).
    assert (Hsk : length (skipn (nat_of m) p) = (length p - nat_of m)%nat)
      by apply skipn_length.
    assert (Hfuel : (length (skipn (nat_of m) p) < f)%nat)
      by (rewrite Hsk; unfold nat_of, lenN in *; lia).
    destruct bud as [b|].
    + destruct (N.ltb_spec b m) as [Hbm|Hbm].
      * (* the budget runs out in this call: b bytes taken, error *)
        cbn [fst snd cw_chunk]. split; [|reflexivity].
        unfold ew_write, cw_proj. cbn [w_budget w_accepted w_n cw_budget cw_accepted cw_n].
        destruct (N.leb_spec (N.of_nat (length p)) b) as [L|L];
          [unfold lenN in *; lia|].
        now rewrite N.sub_diag.
      * (* m bytes taken, no error: retry on the rest *)
        set (w1 := mkCW (Some (b - m)) k (acc ++ firstn (nat_of m) p) (n + m)).
        destruct (IH w1 (skipn (nat_of m) p)) as [S1 S2]; [exact Hk|exact Hfuel|].
        cbn [cw_chunk] in S2 |- *. split; [|exact S2].
        rewrite S1. unfold ew_write, cw_proj, w1.
        cbn [w_budget w_accepted w_n cw_budget cw_accepted cw_n].
        rewrite Hsk.
        destruct (N.leb_spec (N.of_nat (length p)) b) as [L|L].
        -- destruct (N.leb_spec (N.of_nat (length p - nat_of m)) (b - m)) as [L'|L'];
             [|unfold nat_of, lenN in *; lia].
           rewrite <- app_assoc, firstn_skipn. f_equal. f_equal.
           ++ f_equal. unfold nat_of, lenN in *; lia.
           ++ unfold nat_of, lenN in *; lia.
        -- destruct (N.leb_spec (N.of_nat (length p - nat_of m)) (b - m)) as [L'|L'];
             [unfold nat_of, lenN in *; lia|].
           rewrite <- app_assoc, <- firstn_add_split. f_equal. f_equal.
           ++ f_equal. f_equal. unfold nat_of; lia.
           ++ lia.
    + (* a writer that never fails *)
      set (w1 := mkCW None k (acc ++ firstn (nat_of m) p) (n + m)).
      destruct (IH w1 (skipn (nat_of m) p)) as [S1 S2]; [exact Hk|exact Hfuel|].
      cbn [cw_chunk] in S2 |- *. split; [|exact S2].
      rewrite S1. unfold ew_write, cw_proj, w1.
      cbn [w_budget w_accepted w_n cw_budget cw_accepted cw_n].
      rewrite Hsk, <- app_assoc, firstn_skipn. f_equal. f_equal.
      unfold nat_of, lenN in *; lia.
Qed.

Lemma cw_write_sim : forall w p,
  1 <= cw_chunk w ->
  (cw_proj (fst (cw_write w p)), snd (cw_write w p)) = ew_write (cw_proj w) p /\
  cw_chunk (fst (cw_write w p)) = cw_chunk w.
Proof. intros w p Hk. unfold cw_write. apply cw_write_loop_sim; [exact Hk|lia]. Qed.

(* ------------------------------------------------------------------------------------ *)
(** * 3. a sequence of writes *)

Lemma cw_write_all_sim : forall chunks w,
  1 <= cw_chunk w ->
  (cw_proj (fst (cw_write_all w chunks)), snd (cw_write_all w chunks)) =
  ew_write_all (cw_proj w) chunks.
Proof.
  induction chunks as [|p r IH]; intros w Hk; cbn [cw_write_all ew_write_all].
  - reflexivity.
  - destruct (cw_write_sim w p Hk) as [S1 S2]. rewrite <- S1.
    destruct (cw_write w p) as [w1 ok1]. cbn [fst snd] in S2 |- *.
    destruct ok1.
    + apply IH. now rewrite S2.
    + reflexivity.
Qed.

Lemma cw_write_all_ew : forall bud k chunks w ok,
  1 <= k -> cw_write_all (mkCW bud k [] 0) chunks = (w, ok) ->
  ew_write_all (mkW bud [] 0) chunks = (cw_proj w, ok).
Proof.
  intros bud k chunks w ok Hk H.
  pose proof (cw_write_all_sim chunks (mkCW bud k [] 0) Hk) as S.
  rewrite H in S. cbn [fst snd] in S. symmetry. exact S.
Qed.

(* ------------------------------------------------------------------------------------ *)
(** * 4. the writer laws *)

(* the bytes accepted are a prefix of the encoding, the counter equals what the writer
   accepted, an error is returned exactly when the writer failed *)
Lemma chunked_writer_prefix : forall b k chunks w ok,
  1 <= k ->
  cw_write_all (mkCW (Some b) k [] 0) chunks = (w, ok) ->
  cw_accepted w = firstn (nat_of b) (concat chunks) /\
  cw_n w = N.min b (lenN (concat chunks)) /\
  (ok = true <-> lenN (concat chunks) <= b).
Proof.
  intros b k chunks w ok Hk H.
  apply cw_write_all_ew in H; [|exact Hk].
  exact (writer_prefix b chunks (cw_proj w) ok H).
Qed.

Lemma chunked_writer_nofail : forall k chunks,
  1 <= k ->
  exists w, cw_write_all (mkCW None k [] 0) chunks = (w, true) /\
            cw_accepted w = concat chunks /\ cw_n w = lenN (concat chunks).
Proof.
  intros k chunks Hk.
  destruct (cw_write_all (mkCW None k [] 0) chunks) as [w ok] eqn:H.
  pose proof (cw_write_all_ew _ _ _ _ _ Hk H) as E.
  rewrite writer_nofail in E. inversion E as [[Hb Ha Hn Hok]].
  exists w. split; [reflexivity|]. split; [now rewrite <- Ha|].
  rewrite <- Hn. reflexivity.
Qed.

(* the counter always equals the number of accepted bytes, failing writer or not *)
Lemma chunked_writer_counter : forall bud k chunks w ok,
  1 <= k ->
  cw_write_all (mkCW bud k [] 0) chunks = (w, ok) -> cw_n w = lenN (cw_accepted w).
Proof.
  intros bud k chunks w ok Hk H. destruct bud as [b|].
  - apply chunked_writer_prefix in H; [|exact Hk]. destruct H as (A & Nn & _).
    rewrite A, Nn. unfold lenN, nat_of. rewrite firstn_length. lia.
  - destruct (chunked_writer_nofail k chunks Hk) as (w0 & E & A & Nn).
    rewrite E in H. inversion H; subst. now rewrite A, Nn.
Qed.

(* any chunk size >= 1 gives the same accepted bytes, counter, remaining budget and result as
   the writer that takes each slice in one call *)
Lemma chunked_equals_unchunked : forall bud k chunks cw cok w ok,
  1 <= k ->
  cw_write_all (mkCW bud k [] 0) chunks = (cw, cok) ->
  ew_write_all (mkW bud [] 0) chunks = (w, ok) ->
  w_accepted w = cw_accepted cw /\ w_n w = cw_n cw /\ w_budget w = cw_budget cw /\ ok = cok.
Proof.
  intros bud k chunks cw cok w ok Hk H1 H2.
  apply cw_write_all_ew in H1; [|exact Hk]. rewrite H1 in H2.
  inversion H2; subst. cbn [cw_proj w_accepted w_n w_budget]. repeat split; reflexivity.
Qed.

(* the chunk size is not changed by writing *)
Lemma cw_write_all_chunk : forall chunks w,
  1 <= cw_chunk w -> cw_chunk (fst (cw_write_all w chunks)) = cw_chunk w.
Proof.
  induction chunks as [|p r IH]; intros w Hk; cbn [cw_write_all]; [reflexivity|].
  destruct (cw_write_sim w p Hk) as [_ S2].
  destruct (cw_write w p) as [w1 ok1]. cbn [fst] in S2. destruct ok1.
  - rewrite IH; [exact S2|now rewrite S2].
  - exact S2.
Qed.

(* the never-failing writer, as an equation (mirrors IOProofs.writer_nofail) *)
Lemma chunked_writer_nofail_eq : forall k chunks,
  1 <= k ->
  cw_write_all (mkCW None k [] 0) chunks =
  (mkCW None k (concat chunks) (lenN (concat chunks)), true).
Proof.
  intros k chunks Hk.
  pose proof (cw_write_all_chunk chunks (mkCW None k [] 0) Hk) as Hc.
  destruct (cw_write_all (mkCW None k [] 0) chunks) as [w ok] eqn:H.
  pose proof (cw_write_all_ew _ _ _ _ _ Hk H) as E.
  rewrite writer_nofail in E. inversion E as [[Hb Ha Hn Hok]].
  destruct w as [bud k' acc n]. cbn [fst cw_chunk cw_budget cw_accepted cw_n] in *.
  subst. reflexivity.
Qed.

(* ------------------------------------------------------------------------------------ *)
(** * 5. Examples *)

Definition cw_ex8 : list byte :=
  [Byte.x01; Byte.x02; Byte.x03; Byte.x04; Byte.x05; Byte.x06; Byte.x07; Byte.x08].

(* chunk 3, budget 5, one slice of 8 bytes: the first call takes 3 bytes, the second call
   takes 2 bytes and fails; the failing call's 2 bytes are counted *)
Example cw_fail_mid_retry :
  1 <= 3 /\
  cw_write_all (mkCW (Some 5) 3 [] 0) [cw_ex8] =
  (mkCW (Some 0) 3 [Byte.x01; Byte.x02; Byte.x03; Byte.x04; Byte.x05] 5, false).
Proof. split; [lia|vm_compute; reflexivity]. Qed.

(* budget = length exactly: no error; one byte less: error *)
Example cw_exact_budget :
  cw_write_all (mkCW (Some 8) 3 [] 0) [cw_ex8] = (mkCW (Some 0) 3 cw_ex8 8, true) /\
  snd (cw_write_all (mkCW (Some 7) 3 [] 0) [cw_ex8]) = false.
Proof. split; vm_compute; reflexivity. Qed.

(* several slices, an empty one among them, failure in the second non-empty slice *)
Example cw_two_slices :
  cw_write_all (mkCW (Some 10) 3 [] 0) [cw_ex8; []; cw_ex8] =
  (mkCW (Some 0) 3 (cw_ex8 ++ [Byte.x01; Byte.x02]) 10, false).
Proof. vm_compute; reflexivity. Qed.

(* a writer that never fails *)
Example cw_nofail_ex :
  cw_write_all (mkCW None 3 [] 0) [cw_ex8; cw_ex8] = (mkCW None 3 (cw_ex8 ++ cw_ex8) 16, true).
Proof. vm_compute; reflexivity. Qed.

(* chunk = 0 (a writer that returns 0, nil for ever): the loop runs out of fuel and the model
   reports a failure although nothing failed and the budget is large — so the laws above need
   the hypothesis 1 <= k ([ok = true <-> lenN (concat chunks) <= b] is false here) *)
Example cw_chunk0_out_of_fuel :
  cw_write_all (mkCW (Some 100) 0 [] 0) [cw_ex8] = (mkCW (Some 100) 0 [] 0, false) /\
  cw_write_all (mkCW None 0 [] 0) [cw_ex8] = (mkCW None 0 [] 0, false).
Proof. split; vm_compute; reflexivity. Qed.
