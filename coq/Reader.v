(* Reader.v — model of codec.DecodingReader over an in-memory stream (definitions only).

   Go facts modelled: NewDecodingReader wraps the input in io.LimitReader(scope);
   SubScope(count) checks count against the parent's max - i, wraps the parent's
   *input* in another io.LimitReader(count) and returns a fresh (i = 0, max = count)
   reader; the parent's i is NOT advanced by reads through the child (nobody calls
   UpdateIndexFromScoped), only the shared stream and the enclosing limit counters move.
   A read first does checkedIndexUpdate (fails before touching the stream), then loops on
   the limited input until the slice is full or the input reports an error (EOF when a
   limit counter or the stream is exhausted).  After any error the whole decode fails, so
   the state after a failed read is irrelevant and not represented. *)
From Ztyp Require Import Base.
Open Scope N_scope.

Record rstate := mkRS { r_stream : list byte; r_lims : list N }.
(* chain = indices into r_lims of the nested limit readers, innermost first *)
Record dreader := mkDR { d_i : N; d_max : N; d_chain : list nat }.

Definition new_reader (bs : list byte) (scope : N) : rstate * dreader :=
  (mkRS bs [scope], mkDR 0 scope [O]).

Definition lim_get (st : rstate) (k : nat) : N := nth k (r_lims st) 0.
Definition avail (st : rstate) (chain : list nat) : N :=
  fold_right (fun k acc => N.min (lim_get st k) acc) (N.of_nat (length (r_stream st))) chain.
Definition consume (st : rstate) (chain : list nat) (k : N) : rstate :=
  mkRS (skipn (nat_of k) (r_stream st))
       (fold_right (fun idx ls => list_set ls idx (nth idx ls 0 - k)) (r_lims st) chain).

Definition dr_scope (d : dreader) : N := d_max d - d_i d.

(* dr.Read(p) with len(p) = k *)
Definition dr_read (st : rstate) (d : dreader) (k : N) : res (list byte * rstate * dreader) :=
  if k =? 0 then OK ([], st, d) else
  if two64 - 1 - d_i d <? k then Err else
  let v := d_i d + k in
  if d_max d <? v then Err else
  if avail st (d_chain d) <? k then Err else
  OK (firstn (nat_of k) (r_stream st), consume st (d_chain d) k, mkDR v (d_max d) (d_chain d)).

Definition dr_sub_scope (st : rstate) (d : dreader) (count : N) : res (rstate * dreader) :=
  if dr_scope d <? count then Err else
  let idx := length (r_lims st) in
  OK (mkRS (r_stream st) (r_lims st ++ [count]), mkDR 0 count (idx :: d_chain d)).

Definition dr_read_byte st d : res (N * rstate * dreader) :=
  do r <- dr_read st d 1; let '(bs, st', d') := r in OK (le_val bs, st', d').
Definition dr_read_u32 st d : res (N * rstate * dreader) :=
  do r <- dr_read st d 4; let '(bs, st', d') := r in OK (le_val bs, st', d').
