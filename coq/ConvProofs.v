(* ConvProofs.v — the text / JSON conversions of Conv.v are exact (C19).

   Small spec definitions used in the statements of Props/C19.v (all are width independent and
   contain no cutoff / overflow logic):

   [lenN l]            the length of a list as an [N].
   [is_dec_digit b]    the byte [b] is one of '0'..'9'.
   [dec_value s]       the number denoted by the non-empty string of decimal digits [s]
                       (Horner evaluation, most significant digit first); [None] if [s] is empty
                       or contains a byte that is not a decimal digit.
   [canonical_dec s]   [s] is a canonical decimal numeral: non-empty, only decimal digits, and no
                       leading '0' unless [s] is exactly "0".
   [digit_val c]       the value of the character [c] as a digit in a base <= 36
                       ('0'..'9' -> 0..9, 'a'..'z' and 'A'..'Z' -> 10..35).
   [denote_digits base acc s]
                       Horner evaluation of the digit string [s] in base [base] starting from
                       [acc]; underscores are ignored; [None] if a character is not a digit of
                       that base.
   [denote_uint s]     the number denoted by [s] under Go's rules for integer literals
                       ("0b"/"0B" binary, "0o"/"0O" or a leading "0" octal, "0x"/"0X" hexadecimal,
                       otherwise decimal; underscores ignored).
   [has_underscore s]  [s] contains the byte '_'.
   [is_hex_digit b]    [b] is one of 0-9 a-f A-F.
   [to_lower_hex b]    case folding: 'A'..'F' are mapped to 'a'..'f', other bytes are unchanged.
*)
From Ztyp Require Import Base Conv.
From Coq Require Import PeanoNat ZArith ZifyN ZifyNat ZifyBool.
Open Scope N_scope.

(* ------------------------------------------------------------------ *)
(* spec definitions                                                    *)

Definition lenN {A} (l : list A) : N := N.of_nat (length l).

Definition is_dec_digit (b : byte) : bool := (48 <=? ch b) && (ch b <=? 57).

Fixpoint dec_value_from (acc : N) (s : list byte) : option N :=
  match s with
  | [] => Some acc
  | b :: r => if is_dec_digit b then dec_value_from (10 * acc + (ch b - 48)) r else None
  end.
Definition dec_value (s : list byte) : option N :=
  match s with [] => None | _ => dec_value_from 0 s end.

Definition canonical_dec (s : list byte) : Prop :=
  forallb is_dec_digit s = true /\
  match s with
  | [] => False
  | b :: r => ch b = 48 -> r = []
  end.

Definition digit_val (c : N) : option N :=
  if (48 <=? c) && (c <=? 57) then Some (c - 48)
  else if (97 <=? c) && (c <=? 122) then Some (c - 97 + 10)
  else if (65 <=? c) && (c <=? 90) then Some (c - 65 + 10)
  else None.

Fixpoint denote_digits (base acc : N) (s : list byte) : option N :=
  match s with
  | [] => Some acc
  | b :: r =>
    if ch b =? 95 then denote_digits base acc r else
    match digit_val (ch b) with
    | Some d => if d <? base then denote_digits base (acc * base + d) r else None
    | None => None
    end
  end.

(* [p] is the letter [lo] or its upper-case variant *)
Definition is_letter (p : byte) (lo : N) : bool := (ch p =? lo) || (ch p =? lo - 32).

Definition denote_uint (s : list byte) : option N :=
  match s with
  | [] => None
  | z :: r =>
    if ch z =? 48 then
      match r with
      | [] => Some 0
      | p :: r2 =>
        if is_letter p 98 then (match r2 with [] => None | _ => denote_digits 2 0 r2 end)
        else if is_letter p 111 then (match r2 with [] => None | _ => denote_digits 8 0 r2 end)
        else if is_letter p 120 then (match r2 with [] => None | _ => denote_digits 16 0 r2 end)
        else denote_digits 8 0 r
      end
    else denote_digits 10 0 s
  end.

Definition has_underscore (s : list byte) : bool := existsb (fun b => ch b =? 95) s.

Definition is_hex_digit (b : byte) : bool :=
  ((48 <=? ch b) && (ch b <=? 57)) || ((97 <=? ch b) && (ch b <=? 102)) ||
  ((65 <=? ch b) && (ch b <=? 70)).

Definition to_lower_hex (b : byte) : byte :=
  if (65 <=? ch b) && (ch b <=? 70) then byte_of_N (ch b + 32) else b.

(* ------------------------------------------------------------------ *)

Local Opaque two64.
Local Arguments N.pow : simpl never.
Local Arguments N.div : simpl never.
Local Arguments N.modulo : simpl never.
Local Arguments N.mul : simpl never.
Local Arguments N.add : simpl never.
Local Arguments N.sub : simpl never.
Local Arguments N.lor : simpl never.
Local Arguments N.leb : simpl never.
Local Arguments N.ltb : simpl never.
Local Arguments N.eqb : simpl never.

Lemma two64_val : two64 = 18446744073709551616.
Proof. Local Transparent two64. reflexivity. Local Opaque two64. Qed.
Lemma two64_eq : two64 = 2 ^ 64.
Proof. rewrite two64_val. reflexivity. Qed.

Lemma pow2_pos n : 0 < 2 ^ n.
Proof. apply N.neq_0_lt_0, N.pow_nonzero. discriminate. Qed.

(* bytes *)
Lemma N_of_byte_lt b : N_of_byte b < 256.
Proof. unfold N_of_byte. pose proof (Byte.to_N_bounded b). lia. Qed.

Lemma N_of_byte_of_N n : N_of_byte (byte_of_N n) = n mod 256.
Proof.
  unfold N_of_byte, byte_of_N.
  destruct (Byte.of_N (n mod 256)) as [b|] eqn:E.
  - apply Byte.to_of_N in E. exact E.
  - apply Byte.of_N_None_iff in E.
    assert (n mod 256 < 256) by (apply N.mod_lt; discriminate). lia.
Qed.

Lemma byte_of_N_of_byte b : byte_of_N (N_of_byte b) = b.
Proof.
  unfold byte_of_N, N_of_byte.
  rewrite N.mod_small by (pose proof (Byte.to_N_bounded b); lia).
  rewrite Byte.of_to_N. reflexivity.
Qed.

Lemma ch_byte_of_N n : n < 256 -> ch (byte_of_N n) = n.
Proof. intro H. unfold ch. rewrite N_of_byte_of_N. apply N.mod_small, H. Qed.

Lemma ch_lt b : ch b < 256.
Proof. apply N_of_byte_lt. Qed.

Lemma ch_inj a b : ch a = ch b -> a = b.
Proof.
  unfold ch. intro H. rewrite <- (byte_of_N_of_byte a), <- (byte_of_N_of_byte b), H. reflexivity.
Qed.

(* ------------------------------------------------------------------ *)
(* 1. decimal printing                                                 *)

Definition dec_digit (d : N) : byte := byte_of_N (c_0 + d).

Lemma ch_dec_digit d : d < 10 -> ch (dec_digit d) = 48 + d.
Proof. intro H. unfold dec_digit, c_0. apply ch_byte_of_N. lia. Qed.

Lemma is_dec_digit_dec_digit d : d < 10 -> is_dec_digit (dec_digit d) = true.
Proof. intro H. unfold is_dec_digit. rewrite ch_dec_digit by exact H. lia. Qed.

Lemma print_dec_fuel_app f : forall n acc,
  print_dec_fuel f n acc = print_dec_fuel f n [] ++ acc.
Proof.
  induction f as [|f IH]; intros n acc; [reflexivity|].
  cbn [print_dec_fuel]. cbv zeta.
  destruct (n / 10 =? 0); [reflexivity|].
  rewrite IH. rewrite (IH _ [_]). rewrite <- app_assoc. reflexivity.
Qed.

Lemma div10_lt_pow2 n f : n < 2 ^ N.of_nat (S f) -> n / 10 < 2 ^ N.of_nat f.
Proof.
  rewrite Nat2N.inj_succ, N.pow_succ_r'. intro H.
  assert (n / 10 <= n / 2) by (apply N.div_le_compat_l; lia).
  assert (n / 2 < 2 ^ N.of_nat f) by (apply N.div_lt_upper_bound; lia). lia.
Qed.

Lemma print_dec_fuel_indep f : forall f' n acc,
  n < 2 ^ N.of_nat (S f) -> n < 2 ^ N.of_nat (S f') ->
  print_dec_fuel (S f) n acc = print_dec_fuel (S f') n acc.
Proof.
  induction f as [|f IH]; intros f' n acc Hf Hf'.
  - change (2 ^ N.of_nat 1) with 2 in Hf.
    assert (E : n / 10 = 0) by (apply N.div_small; lia).
    cbn [print_dec_fuel]. cbv zeta. rewrite E. reflexivity.
  - destruct f' as [|f'].
    + change (2 ^ N.of_nat 1) with 2 in Hf'.
      assert (E : n / 10 = 0) by (apply N.div_small; lia).
      cbn [print_dec_fuel]. cbv zeta. rewrite E. reflexivity.
    + remember (S f) as g. remember (S f') as g'.
      cbn [print_dec_fuel]. cbv zeta.
      destruct (n / 10 =? 0); [reflexivity|]. subst g g'.
      apply IH; apply div10_lt_pow2; assumption.
Qed.

(* the recursion equation of [print_dec], free of fuel *)
Lemma print_dec_rec n :
  print_dec n = if n / 10 =? 0 then [dec_digit (n mod 10)]
                else print_dec (n / 10) ++ [dec_digit (n mod 10)].
Proof.
  unfold print_dec at 1.
  remember (nat_of (N.size n)) as f.
  cbn [print_dec_fuel]. cbv zeta. fold (dec_digit (n mod 10)).
  destruct (n / 10 =? 0) eqn:E; [reflexivity|].
  rewrite print_dec_fuel_app. f_equal.
  assert (Hn : n < 2 ^ N.of_nat f).
  { subst f. unfold nat_of. rewrite N2Nat.id. apply N.size_gt. }
  destruct f as [|f].
  { change (2 ^ N.of_nat 0) with 1 in Hn. assert (n = 0) by lia. subst n. discriminate E. }
  unfold print_dec. apply print_dec_fuel_indep.
  - assert (n / 10 <= n) by (apply N.div_le_upper_bound; lia). lia.
  - unfold nat_of. rewrite Nat2N.inj_succ, N2Nat.id.
    pose proof (N.size_gt (n / 10)) as H.
    eapply N.lt_trans; [exact H|]. apply N.pow_lt_mono_r; lia.
Qed.

Lemma print_dec_small n : n < 10 -> print_dec n = [dec_digit n].
Proof.
  intro H. rewrite print_dec_rec.
  rewrite (N.div_small n 10 H), (N.mod_small n 10 H). reflexivity.
Qed.

Lemma print_dec_big n : 10 <= n -> print_dec n = print_dec (n / 10) ++ [dec_digit (n mod 10)].
Proof.
  intro H. rewrite print_dec_rec.
  assert (E : n / 10 <> 0).
  { intro E. apply N.div_small_iff in E; lia. }
  apply N.eqb_neq in E. rewrite E. reflexivity.
Qed.

(* induction along the recursion of print_dec *)
Lemma dec_ind (P : N -> Prop) :
  (forall n, n < 10 -> P n) ->
  (forall n, 10 <= n -> P (n / 10) -> P n) ->
  forall n, P n.
Proof.
  intros Hs Hb n. induction n as [n IH] using (well_founded_induction N.lt_wf_0).
  destruct (N.lt_ge_cases n 10) as [H|H]; [apply Hs, H|].
  apply Hb; [exact H|]. apply IH. apply N.div_lt; lia.
Qed.

Lemma dec_value_from_app s1 : forall a s2,
  dec_value_from a (s1 ++ s2) =
  match dec_value_from a s1 with Some v => dec_value_from v s2 | None => None end.
Proof.
  induction s1 as [|b r IH]; intros a s2; [reflexivity|].
  cbn [app dec_value_from]. destruct (is_dec_digit b); [apply IH|reflexivity].
Qed.

Lemma dec_value_from_digit a d : d < 10 -> dec_value_from a [dec_digit d] = Some (10 * a + d).
Proof.
  intro H. cbn [dec_value_from]. rewrite is_dec_digit_dec_digit by exact H.
  rewrite ch_dec_digit by exact H. f_equal. lia.
Qed.

Lemma mod10_lt n : n mod 10 < 10.
Proof. apply N.mod_lt. discriminate. Qed.

Lemma print_dec_digits n : forallb is_dec_digit (print_dec n) = true.
Proof.
  induction n as [n H|n H IH] using dec_ind.
  - rewrite print_dec_small by exact H. cbn [forallb].
    rewrite is_dec_digit_dec_digit by exact H. reflexivity.
  - rewrite print_dec_big by exact H. rewrite forallb_app, IH. cbn [forallb].
    rewrite is_dec_digit_dec_digit by apply mod10_lt. reflexivity.
Qed.

Lemma print_dec_value_from n : dec_value_from 0 (print_dec n) = Some n.
Proof.
  induction n as [n H|n H IH] using dec_ind.
  - rewrite print_dec_small by exact H. rewrite dec_value_from_digit by exact H. f_equal; lia.
  - rewrite print_dec_big by exact H. rewrite dec_value_from_app, IH.
    rewrite dec_value_from_digit by apply mod10_lt. f_equal.
    pose proof (N.div_mod n 10). lia.
Qed.

Lemma print_dec_nonempty n : print_dec n <> [].
Proof.
  rewrite print_dec_rec. destruct (n / 10 =? 0); [discriminate|].
  intro E. apply app_eq_nil in E. destruct E as [_ E]. discriminate E.
Qed.

Lemma print_dec_value n : dec_value (print_dec n) = Some n.
Proof.
  unfold dec_value. pose proof (print_dec_nonempty n) as H.
  destruct (print_dec n) eqn:E; [congruence|]. rewrite <- E. apply print_dec_value_from.
Qed.

Lemma print_dec_zero : print_dec 0 = [byte_of_N 48].
Proof. reflexivity. Qed.

Lemma print_dec_head n : n <> 0 -> exists b r, print_dec n = b :: r /\ ch b <> 48.
Proof.
  induction n as [n H|n H IH] using dec_ind; intro Hn.
  - rewrite print_dec_small by exact H. eexists; eexists; split; [reflexivity|].
    rewrite ch_dec_digit by exact H. lia.
  - rewrite print_dec_big by exact H.
    destruct IH as (b & r & E & Hb).
    { intro E. apply N.div_small_iff in E; lia. }
    rewrite E. exists b, (r ++ [dec_digit (n mod 10)]). split; [reflexivity|exact Hb].
Qed.

(* print_dec n is the canonical decimal numeral of n *)
Theorem print_dec_canonical n :
  forallb is_dec_digit (print_dec n) = true /\
  (n = 0 -> print_dec n = [byte_of_N 48]) /\
  (n <> 0 -> exists b r, print_dec n = b :: r /\ ch b <> 48) /\
  dec_value (print_dec n) = Some n.
Proof.
  split; [apply print_dec_digits|]. split; [intro; subst; apply print_dec_zero|].
  split; [apply print_dec_head|apply print_dec_value].
Qed.

Lemma print_dec_canonical_dec n : canonical_dec (print_dec n).
Proof.
  split; [apply print_dec_digits|].
  destruct (N.eq_dec n 0) as [->|Hn].
  - rewrite print_dec_zero. intros _. reflexivity.
  - destruct (print_dec_head n Hn) as (b & r & E & Hb). rewrite E. intro; contradiction.
Qed.

(* ------------------------------------------------------------------ *)
(* strconv.ParseUint: the digit loop                                    *)

Ltac Zify.zify_post_hook ::= Z.div_mod_to_equations.

Lemma max_u64_val : max_u64 = 18446744073709551615.
Proof. unfold max_u64. rewrite two64_val. reflexivity. Qed.

(* the digit classification of ParseUint (with lower(c) = c | 0x20) is [digit_val] *)
Lemma parse_digit_val b :
  (if (c_0 <=? ch b) && (ch b <=? c_9) then Some (ch b - c_0)
   else if (c_a <=? lower (ch b)) && (lower (ch b) <=? c_z) then Some (lower (ch b) - c_a + 10)
   else None) = digit_val (ch b).
Proof. destruct b; reflexivity. Qed.

Lemma digit_val_lt c d : digit_val c = Some d -> d < 36.
Proof.
  unfold digit_val. intro H.
  destruct ((48 <=? c) && (c <=? 57)) eqn:E1; [injection H as <-; lia|].
  destruct ((97 <=? c) && (c <=? 122)) eqn:E2; [injection H as <-; lia|].
  destruct ((65 <=? c) && (c <=? 90)) eqn:E3; [injection H as <-; lia|discriminate].
Qed.

Lemma parse_digits_cons b r base cutoff max_val n us :
  parse_digits (b :: r) base cutoff max_val n us =
  if ch b =? 95 then parse_digits r base cutoff max_val n true else
  match digit_val (ch b) with
  | None => CSyntax
  | Some d =>
    if base <=? d then CSyntax else
    if cutoff <=? n then CRange else
    if (wrap64 (n * base + d) <? n * base) || (max_val <? wrap64 (n * base + d)) then CRange
    else parse_digits r base cutoff max_val (wrap64 (n * base + d)) us
  end.
Proof.
  cbn [parse_digits]. cbv zeta. rewrite parse_digit_val. reflexivity.
Qed.

Lemma cutoff_lt base n : 0 < base -> n < max_u64 / base + 1 -> n * base <= max_u64.
Proof.
  intros Hb H.
  assert (n <= max_u64 / base) by lia.
  assert (n * base <= max_u64 / base * base) by (apply N.mul_le_mono_r; assumption).
  assert (base * (max_u64 / base) <= max_u64) by (apply N.mul_div_le; lia).
  lia.
Qed.

Lemma cutoff_ge base n : 0 < base -> max_u64 / base + 1 <= n -> max_u64 < n * base.
Proof.
  intros Hb H.
  assert ((max_u64 / base + 1) * base <= n * base) by (apply N.mul_le_mono_r; assumption).
  assert (max_u64 < base * N.succ (max_u64 / base)) by (apply N.mul_succ_div_gt; lia).
  lia.
Qed.

Lemma wrap64_small x : x < two64 -> wrap64 x = x.
Proof. intro H. unfold wrap64. apply N.mod_small, H. Qed.

Lemma wrap64_over x d : x < two64 -> d < two64 -> two64 <= x + d -> wrap64 (x + d) < x.
Proof.
  intros Hx Hd H. unfold wrap64. rewrite two64_val in *. lia.
Qed.

Lemma denote_digits_ge base : 0 < base -> forall s a v, denote_digits base a s = Some v -> a <= v.
Proof.
  intros Hb s. induction s as [|b r IH]; intros a v H.
  - injection H as <-. lia.
  - cbn [denote_digits] in H. destruct (ch b =? 95); [apply IH, H|].
    destruct (digit_val (ch b)) as [d|]; [|discriminate].
    destruct (d <? base); [|discriminate].
    apply IH in H. assert (a * 1 <= a * base) by (apply N.mul_le_mono_l; lia). lia.
Qed.

(* exactness of the digit loop: on a string that denotes [v] (from accumulator [n]) the loop
   returns [v] if it fits, and a range error otherwise *)
Lemma parse_digits_exact base max_val : 0 < base -> base <= 36 -> max_val < two64 ->
  forall s n us v, n <= max_val -> denote_digits base n s = Some v ->
  parse_digits s base (max_u64 / base + 1) max_val n us =
  if v <=? max_val then COk (v, us || has_underscore s) else CRange.
Proof.
  intros Hb0 Hb36 Hmax s. induction s as [|b r IH]; intros n us v Hn H.
  - injection H as <-. cbn [parse_digits has_underscore existsb].
    rewrite orb_false_r. apply N.leb_le in Hn. rewrite Hn. reflexivity.
  - rewrite parse_digits_cons. cbn [denote_digits] in H.
    cbn [has_underscore existsb]. fold (has_underscore r).
    destruct (ch b =? 95).
    { rewrite (IH n true v Hn H). rewrite orb_true_l, orb_true_r. reflexivity. }
    rewrite orb_false_l.
    destruct (digit_val (ch b)) as [d|] eqn:Ed; [|discriminate].
    pose proof (digit_val_lt _ _ Ed) as Hd36.
    destruct (d <? base) eqn:Edb; [|discriminate].
    apply N.ltb_lt in Edb.
    replace (base <=? d) with false by (symmetry; apply N.leb_gt; exact Edb).
    pose proof (denote_digits_ge base Hb0 _ _ _ H) as Hge.
    pose proof two64_val as T. pose proof max_u64_val as M.
    destruct (max_u64 / base + 1 <=? n) eqn:Ec.
    { apply N.leb_le in Ec. apply cutoff_ge in Ec; [|exact Hb0].
      replace (v <=? max_val) with false by (symmetry; apply N.leb_gt; lia). reflexivity. }
    apply N.leb_gt in Ec. apply cutoff_lt in Ec; [|exact Hb0].
    destruct (N.lt_ge_cases (n * base + d) two64) as [Hs|Hs].
    + rewrite (wrap64_small _ Hs).
      replace (n * base + d <? n * base) with false by (symmetry; apply N.ltb_ge; lia).
      rewrite orb_false_l.
      destruct (max_val <? n * base + d) eqn:Em.
      * apply N.ltb_lt in Em.
        replace (v <=? max_val) with false by (symmetry; apply N.leb_gt; lia). reflexivity.
      * apply N.ltb_ge in Em. apply IH; assumption.
    + assert (Hw : wrap64 (n * base + d) < n * base) by (apply wrap64_over; lia).
      apply N.ltb_lt in Hw. rewrite Hw. rewrite orb_true_l.
      replace (v <=? max_val) with false by (symmetry; apply N.leb_gt; lia). reflexivity.
Qed.

(* soundness of the digit loop: an accepted string denotes the returned value *)
Lemma parse_digits_sound base max_val : 0 < base -> base <= 36 ->
  forall s n us v us', parse_digits s base (max_u64 / base + 1) max_val n us = COk (v, us') ->
  denote_digits base n s = Some v /\ us' = us || has_underscore s.
Proof.
  intros Hb0 Hb36 s. induction s as [|b r IH]; intros n us v us' H.
  - cbn [parse_digits] in H. injection H as <- <-. cbn [has_underscore existsb].
    rewrite orb_false_r. split; reflexivity.
  - rewrite parse_digits_cons in H. cbn [denote_digits].
    cbn [has_underscore existsb]. fold (has_underscore r).
    destruct (ch b =? 95).
    { apply IH in H. destruct H as [H ->]. rewrite orb_true_l, orb_true_r. split; [exact H|reflexivity]. }
    rewrite orb_false_l.
    destruct (digit_val (ch b)) as [d|] eqn:Ed; [|discriminate].
    pose proof (digit_val_lt _ _ Ed) as Hd36.
    destruct (base <=? d) eqn:Edb; [discriminate|].
    apply N.leb_gt in Edb. apply N.ltb_lt in Edb. rewrite Edb.
    destruct (max_u64 / base + 1 <=? n) eqn:Ec; [discriminate|].
    apply N.leb_gt in Ec. apply cutoff_lt in Ec; [|exact Hb0].
    pose proof two64_val as T. pose proof max_u64_val as M.
    destruct (N.lt_ge_cases (n * base + d) two64) as [Hs|Hs].
    + rewrite (wrap64_small _ Hs) in H.
      destruct ((n * base + d <? n * base) || (max_val <? n * base + d)); [discriminate|].
      apply IH, H.
    + assert (Hw : wrap64 (n * base + d) < n * base) by (apply wrap64_over; lia).
      apply N.ltb_lt in Hw. rewrite Hw in H. discriminate H.
Qed.

(* the digit loop never returns a value above max_val *)
Lemma parse_digits_bound base cutoff max_val :
  forall s n us v us', n <= max_val ->
  parse_digits s base cutoff max_val n us = COk (v, us') -> v <= max_val.
Proof.
  intros s. induction s as [|b r IH]; intros n us v us' Hn H.
  - cbn [parse_digits] in H. injection H as <- <-. exact Hn.
  - rewrite parse_digits_cons in H.
    destruct (ch b =? 95); [eapply IH; eassumption|].
    destruct (digit_val (ch b)) as [d|]; [|discriminate].
    destruct (base <=? d); [discriminate|].
    destruct (cutoff <=? n); [discriminate|].
    destruct (wrap64 (n * base + d) <? n * base); [discriminate|].
    destruct (max_val <? wrap64 (n * base + d)) eqn:Em; [discriminate|].
    apply N.ltb_ge in Em. cbn [orb] in H. eapply IH; eassumption.
Qed.

(* ------------------------------------------------------------------ *)
(* strconv.ParseUint: base prefix                                       *)

Definition pu_finish (s : list byte) (r : cres (N * bool)) : cres N :=
  match r with
  | COk (n, us) => if us && negb (underscore_ok s) then CSyntax else COk n
  | CSyntax => CSyntax | CRange => CRange | CEmpty => CEmpty | CQuote => CQuote
  | COther => COther
  end.

Lemma lower_is_letter b :
  (lower (ch b) =? 98) = is_letter b 98 /\
  (lower (ch b) =? 111) = is_letter b 111 /\
  (lower (ch b) =? 120) = is_letter b 120.
Proof. destruct b; repeat split; reflexivity. Qed.

Lemma base_letter_not_octal p :
  is_letter p 98 || is_letter p 111 || is_letter p 120 = true -> denote_digits 8 0 [p] = None.
Proof. destruct p; intro H; try reflexivity; discriminate H. Qed.

Lemma base_letter_no_us p :
  is_letter p 98 || is_letter p 111 || is_letter p 120 = true -> (ch p =? 95) = false.
Proof. destruct p; intro H; try reflexivity; discriminate H. Qed.

(* every non-empty input is handled as: pick (base, body), run the digit loop, check underscores;
   and [denote_uint] is the plain evaluation of the same (base, body) *)
Lemma parse_uint_cases s : s <> [] ->
  exists base body,
    0 < base /\ base <= 36 /\
    (forall w, parse_uint s w =
       pu_finish s (parse_digits body base (max_u64 / base + 1) (2 ^ w - 1) 0 false)) /\
    denote_uint s = denote_digits base 0 body /\
    has_underscore s = has_underscore body.
Proof.
  destruct s as [|b r]; [congruence|]. intros _.
  unfold parse_uint, denote_uint. change c_0 with 48.
  destruct (ch b =? 48) eqn:E0.
  2:{ exists 10, (b :: r). repeat split; try lia. }
  assert (U0 : has_underscore (b :: r) = has_underscore r).
  { cbn [has_underscore existsb]. apply N.eqb_eq in E0. rewrite E0. reflexivity. }
  destruct r as [|p r2].
  { exists 8, []. repeat split; try lia. exact U0. }
  destruct (lower_is_letter p) as (L1 & L2 & L3). rewrite L1, L2, L3.
  destruct r2 as [|x r3].
  { (* length 2: no base letter is recognised; always octal *)
    replace (3 <=? N.of_nat (length [b; p])) with false by reflexivity.
    cbn [andb].
    exists 8, [p]. split; [lia|]. split; [lia|]. split; [reflexivity|]. split; [|exact U0].
    destruct (is_letter p 98) eqn:A1; [symmetry; apply base_letter_not_octal; rewrite A1; reflexivity|].
    destruct (is_letter p 111) eqn:A2; [symmetry; apply base_letter_not_octal; rewrite A1, A2; reflexivity|].
    destruct (is_letter p 120) eqn:A3; [symmetry; apply base_letter_not_octal; rewrite A1, A2, A3; reflexivity|].
    reflexivity. }
  assert (L : 3 <=? N.of_nat (length (b :: p :: x :: r3)) = true).
  { apply N.leb_le. cbn [length]. lia. }
  rewrite L. cbn [andb].
  assert (U1 : is_letter p 98 || is_letter p 111 || is_letter p 120 = true ->
               has_underscore (b :: p :: x :: r3) = has_underscore (x :: r3)).
  { intro A. rewrite U0. cbn [has_underscore existsb]. rewrite (base_letter_no_us p A). reflexivity. }
  destruct (is_letter p 98) eqn:A1.
  { exists 2, (x :: r3). repeat split; try lia. apply U1. reflexivity. }
  destruct (is_letter p 111) eqn:A2.
  { exists 8, (x :: r3). repeat split; try lia. apply U1. reflexivity. }
  destruct (is_letter p 120) eqn:A3.
  { exists 16, (x :: r3). repeat split; try lia. apply U1. reflexivity. }
  exists 8, (p :: x :: r3). repeat split; try lia. exact U0.
Qed.

Lemma parse_uint_nil w : parse_uint [] w = CSyntax.
Proof. reflexivity. Qed.

Lemma pow2_le_two64 w : w <= 64 -> 2 ^ w - 1 < two64.
Proof.
  intro H. rewrite two64_eq.
  assert (2 ^ w <= 2 ^ 64) by (apply N.pow_le_mono_r; lia).
  pose proof (pow2_pos w). lia.
Qed.

(* 3. no truncation (any width) *)
Lemma parse_uint_bound s w n : parse_uint s w = COk n -> n < 2 ^ w.
Proof.
  destruct s as [|b r] eqn:Es; [discriminate|]. rewrite <- Es.
  destruct (parse_uint_cases s) as (base & body & _ & _ & E & _); [congruence|].
  rewrite E. unfold pu_finish.
  destruct (parse_digits body base (max_u64 / base + 1) (2 ^ w - 1) 0 false) as [[v us]| | | | |] eqn:P;
    try discriminate.
  apply parse_digits_bound in P; [|lia].
  destruct (us && negb (underscore_ok s)); [discriminate|]. intro H. injection H as <-.
  pose proof (pow2_pos w). lia.
Qed.

(* 5. an accepted string denotes the returned value *)
Lemma parse_uint_denotes s w n : parse_uint s w = COk n -> denote_uint s = Some n.
Proof.
  destruct s as [|b r] eqn:Es; [discriminate|]. rewrite <- Es.
  destruct (parse_uint_cases s) as (base & body & B0 & B36 & E & D & _); [congruence|].
  rewrite E, D. unfold pu_finish.
  destruct (parse_digits body base (max_u64 / base + 1) (2 ^ w - 1) 0 false) as [[v us]| | | | |] eqn:P;
    try discriminate.
  apply parse_digits_sound in P; [|assumption..]. destruct P as [P _].
  destruct (us && negb (underscore_ok s)); [discriminate|]. intro H. injection H as <-. exact P.
Qed.

(* 4/5. exactness: a string that denotes v is accepted with exactly v when v fits the width
   (and its underscores, if any, are well placed), and rejected otherwise *)
Lemma parse_uint_exact s w v : w <= 64 -> denote_uint s = Some v ->
  parse_uint s w =
  if v <? 2 ^ w then
    (if has_underscore s && negb (underscore_ok s) then CSyntax else COk v)
  else CRange.
Proof.
  intros Hw. destruct s as [|b r] eqn:Es; [discriminate|]. rewrite <- Es.
  destruct (parse_uint_cases s) as (base & body & B0 & B36 & E & D & U); [congruence|].
  rewrite E, D, U. intro H.
  rewrite (parse_digits_exact base (2 ^ w - 1) B0 B36 (pow2_le_two64 w Hw) body 0 false v);
    [|lia|exact H].
  pose proof (pow2_pos w).
  destruct (v <? 2 ^ w) eqn:Ev.
  - apply N.ltb_lt in Ev. replace (v <=? 2 ^ w - 1) with true by (symmetry; apply N.leb_le; lia).
    reflexivity.
  - apply N.ltb_ge in Ev. replace (v <=? 2 ^ w - 1) with false by (symmetry; apply N.leb_gt; lia).
    reflexivity.
Qed.

Lemma parse_uint_undenoted s w : denote_uint s = None -> forall n, parse_uint s w <> COk n.
Proof. intros H n E. apply parse_uint_denotes in E. congruence. Qed.

(* ------------------------------------------------------------------ *)
(* decimal strings                                                      *)

Lemma dec_digit_facts b : is_dec_digit b = true ->
  (ch b =? 95) = false /\ digit_val (ch b) = Some (ch b - 48) /\ ch b - 48 < 10.
Proof.
  unfold is_dec_digit, digit_val. intro H. rewrite H.
  apply andb_prop in H. destruct H as [H1 H2]. apply N.leb_le in H1, H2.
  split; [apply N.eqb_neq; lia|]. split; [reflexivity|lia].
Qed.

Lemma denote_digits_dec s : forallb is_dec_digit s = true ->
  forall a, denote_digits 10 a s = dec_value_from a s.
Proof.
  induction s as [|b r IH]; intros H a; [reflexivity|].
  cbn [forallb] in H. apply andb_prop in H. destruct H as [Hb Hr].
  cbn [denote_digits dec_value_from]. rewrite Hb.
  destruct (dec_digit_facts b Hb) as (E1 & E2 & E3). rewrite E1, E2.
  apply N.ltb_lt in E3. rewrite E3. rewrite (N.mul_comm a 10). apply IH, Hr.
Qed.

Lemma dec_no_underscore s : forallb is_dec_digit s = true -> has_underscore s = false.
Proof.
  induction s as [|b r IH]; intro H; [reflexivity|].
  cbn [forallb] in H. apply andb_prop in H. destruct H as [Hb Hr].
  cbn [has_underscore existsb]. destruct (dec_digit_facts b Hb) as (E1 & _). rewrite E1.
  apply IH, Hr.
Qed.

Lemma canonical_dec_denote s : canonical_dec s -> denote_uint s = dec_value s.
Proof.
  intros [Hd Hc]. destruct s as [|b r]; [contradiction|].
  unfold denote_uint, dec_value.
  destruct (ch b =? 48) eqn:E.
  - apply N.eqb_eq in E. rewrite (Hc E). cbn [dec_value_from].
    unfold is_dec_digit. rewrite E. reflexivity.
  - apply denote_digits_dec, Hd.
Qed.

Lemma canonical_dec_value s : canonical_dec s -> exists v, dec_value s = Some v.
Proof.
  intros [Hd Hc]. destruct s as [|b r]; [contradiction|].
  unfold dec_value. generalize 0 at 1. revert Hd. generalize (b :: r). clear.
  intros s. induction s as [|b r IH]; intros H a; [eexists; reflexivity|].
  cbn [forallb] in H. apply andb_prop in H. destruct H as [Hb Hr].
  cbn [dec_value_from]. rewrite Hb. apply IH, Hr.
Qed.

(* 4. decimal exactness *)
Lemma parse_uint_decimal s w : w <= 64 -> canonical_dec s ->
  parse_uint s w =
  match dec_value s with
  | Some v => if v <? 2 ^ w then COk v else CRange
  | None => CSyntax
  end.
Proof.
  intros Hw Hc. destruct (canonical_dec_value s Hc) as [v Hv]. rewrite Hv.
  rewrite (parse_uint_exact s w v Hw) by (rewrite canonical_dec_denote; assumption).
  rewrite (dec_no_underscore s (proj1 Hc)). reflexivity.
Qed.

Lemma parse_uint_print_dec n w : w <= 64 -> n < 2 ^ w -> parse_uint (print_dec n) w = COk n.
Proof.
  intros Hw Hn. rewrite (parse_uint_decimal _ w Hw (print_dec_canonical_dec n)).
  rewrite print_dec_value. apply N.ltb_lt in Hn. rewrite Hn. reflexivity.
Qed.

(* a sign is never accepted *)
Lemma parse_uint_sign m r w : ch m = 45 \/ ch m = 43 -> parse_uint (m :: r) w = CSyntax.
Proof.
  intro H. unfold parse_uint. change c_0 with 48.
  replace (ch m =? 48) with false by (symmetry; apply N.eqb_neq; lia).
  rewrite parse_digits_cons.
  replace (ch m =? 95) with false by (symmetry; apply N.eqb_neq; lia).
  destruct H as [-> | ->]; reflexivity.
Qed.

Lemma In_widths w : In w [8; 16; 32; 64] -> w <= 64.
Proof. cbn [In]. intros [<-|[<-|[<-|[<-|[]]]]]; lia. Qed.

(* ------------------------------------------------------------------ *)
(* quotes                                                               *)

Lemma strip_quotes_quoted body :
  strip_quotes (byte_of_N c_quote :: body ++ [byte_of_N c_quote]) = COk body.
Proof.
  unfold strip_quotes.
  replace (ch (byte_of_N c_quote) =? c_quote) with true by reflexivity.
  destruct (body ++ [byte_of_N c_quote]) eqn:E.
  { apply app_eq_nil in E. destruct E as [_ E]. discriminate E. }
  rewrite <- E. rewrite last_last.
  replace (ch (byte_of_N c_quote) =? c_quote) with true by reflexivity.
  rewrite removelast_last. reflexivity.
Qed.

(* 2. round trips for the fixed widths *)
Lemma roundtrip_text w n : w <= 64 -> n < 2 ^ w ->
  uint_unmarshal_text (uint_marshal_text n) w = COk n.
Proof.
  intros Hw Hn. unfold uint_unmarshal_text, uint_marshal_text.
  rewrite parse_uint_print_dec by assumption. rewrite N.mod_small by exact Hn. reflexivity.
Qed.

Lemma roundtrip_json w n : w <= 64 -> n < 2 ^ w ->
  uint_unmarshal_json_cast (uint_marshal_json n) w = COk n.
Proof.
  intros Hw Hn. unfold uint_unmarshal_json_cast, uint_unmarshal_json, uint_marshal_json.
  rewrite strip_quotes_quoted.
  rewrite parse_uint_print_dec by assumption. rewrite N.mod_small by exact Hn. reflexivity.
Qed.

(* 3. the narrowing casts are the identity *)
Lemma unmarshal_text_no_cast s w n :
  uint_unmarshal_text s w = COk n -> parse_uint s w = COk n /\ n < 2 ^ w.
Proof.
  unfold uint_unmarshal_text. destruct (parse_uint s w) as [v| | | | |] eqn:E; try discriminate.
  intro H. injection H as <-. pose proof (parse_uint_bound _ _ _ E) as Hb.
  rewrite N.mod_small by exact Hb. split; [reflexivity|exact Hb].
Qed.

Lemma unmarshal_json_no_cast s w n :
  uint_unmarshal_json_cast s w = COk n -> uint_unmarshal_json s w = COk n /\ n < 2 ^ w.
Proof.
  unfold uint_unmarshal_json_cast.
  destruct (uint_unmarshal_json s w) as [v| | | | |] eqn:E; try discriminate.
  intro H. injection H as <-.
  assert (Hb : v < 2 ^ w).
  { unfold uint_unmarshal_json in E. destruct (strip_quotes s); try discriminate.
    eapply parse_uint_bound; eassumption. }
  rewrite N.mod_small by exact Hb. split; [reflexivity|exact Hb].
Qed.

Lemma unmarshal_text_cast_id s w : uint_unmarshal_text s w = parse_uint s w.
Proof.
  unfold uint_unmarshal_text. destruct (parse_uint s w) as [v| | | | |] eqn:E; try reflexivity.
  rewrite N.mod_small by (eapply parse_uint_bound; eassumption). reflexivity.
Qed.

Lemma unmarshal_json_cast_id s w : uint_unmarshal_json_cast s w = uint_unmarshal_json s w.
Proof.
  unfold uint_unmarshal_json_cast.
  destruct (uint_unmarshal_json s w) as [v| | | | |] eqn:E; try reflexivity.
  rewrite N.mod_small; [reflexivity|].
  unfold uint_unmarshal_json in E. destruct (strip_quotes s); try discriminate.
  eapply parse_uint_bound; eassumption.
Qed.

(* ------------------------------------------------------------------ *)
(* math/big                                                             *)

Lemma big_digit_val c : big_digit c = match digit_val c with Some d => d | None => 63 end.
Proof.
  unfold big_digit, digit_val, c_0, c_9, c_a, c_z, c_A, c_Z.
  destruct ((48 <=? c) && (c <=? 57)); [reflexivity|].
  destruct ((97 <=? c) && (c <=? 122)); [reflexivity|].
  destruct ((65 <=? c) && (c <=? 90)); reflexivity.
Qed.

Lemma big_loop_cons x r b value count prev inval : b <= 36 ->
  big_loop (x :: r) b value count prev inval =
  if ch x =? 95 then big_loop r b value count 95 (inval || negb (prev =? 48)) else
  match digit_val (ch x) with
  | Some d => if d <? b then big_loop r b (value * b + d) (count + 1) 48 inval
              else (value, count, prev, inval, false)
  | None => (value, count, prev, inval, false)
  end.
Proof.
  intro Hb. cbn [big_loop]. cbv zeta. change c_us with 95. change c_0 with 48.
  destruct (ch x =? 95); [reflexivity|].
  rewrite big_digit_val. destruct (digit_val (ch x)) as [d|].
  - destruct (b <=? d) eqn:E.
    + apply N.leb_le in E. replace (d <? b) with false by (symmetry; apply N.ltb_ge; exact E).
      reflexivity.
    + apply N.leb_gt in E. apply N.ltb_lt in E. rewrite E. reflexivity.
  - replace (b <=? 63) with true by (symmetry; apply N.leb_le; lia). reflexivity.
Qed.

(* soundness of the scanning loop: if the whole string was consumed, it denotes the value *)
Lemma big_loop_sound b : b <= 36 -> forall s v c p i v' c' p' i',
  big_loop s b v c p i = (v', c', p', i', true) ->
  denote_digits b v s = Some v' /\ c <= c' /\ (c' = c -> v' = v).
Proof.
  intros Hb s. induction s as [|x r IH]; intros v c p i v' c' p' i' H.
  - cbn [big_loop] in H. injection H as <- <- <- <-. cbn [denote_digits].
    split; [reflexivity|]. split; [lia|reflexivity].
  - rewrite big_loop_cons in H by exact Hb. cbn [denote_digits].
    destruct (ch x =? 95); [eapply IH; eassumption|].
    destruct (digit_val (ch x)) as [d|]; [|discriminate].
    destruct (d <? b); [|discriminate].
    apply IH in H. destruct H as (H1 & H2 & H3). split; [exact H1|]. split; lia.
Qed.

(* exactness of the scanning loop on strings without underscores *)
Lemma big_loop_exact b : b <= 36 -> forall s v c p i v',
  has_underscore s = false -> denote_digits b v s = Some v' ->
  big_loop s b v c p i = (v', c + lenN s, match s with [] => p | _ => 48 end, i, true).
Proof.
  intros Hb s. induction s as [|x r IH]; intros v c p i v' U H.
  - cbn [denote_digits] in H. injection H as <-. cbn [big_loop]. unfold lenN. cbn [length].
    rewrite N.add_0_r. reflexivity.
  - rewrite big_loop_cons by exact Hb. cbn [denote_digits] in H.
    cbn [has_underscore existsb] in U. apply orb_false_elim in U. destruct U as [U1 U2].
    rewrite U1 in *.
    destruct (digit_val (ch x)) as [d|]; [|discriminate].
    destruct (d <? b); [|discriminate].
    rewrite (IH _ _ _ _ _ U2 H). unfold lenN. cbn [length]. rewrite Nat2N.inj_succ.
    replace (c + 1 + N.of_nat (length r)) with (c + N.succ (N.of_nat (length r))) by lia.
    destruct r; reflexivity.
Qed.

Definition big_finish (prefix : N) (res : N * N * N * bool * bool) : option N :=
  let '(value, count, prev, inval, consumed) := res in
  if inval || (prev =? c_us) then None else
  if count =? 0 then
    (if prefix =? c_0 then (if consumed then Some 0 else None) else None)
  else if consumed then Some value else None.

Lemma big_finish_sound b prefix body prev0 v : b <= 36 ->
  big_finish prefix (big_loop body b 0 0 prev0 false) = Some v ->
  denote_digits b 0 body = Some v /\ (prefix <> 48 -> body <> []).
Proof.
  intros Hb H.
  destruct (big_loop body b 0 0 prev0 false) as [[[[v' c'] p'] i'] k] eqn:L.
  unfold big_finish in H. change c_0 with 48 in H.
  destruct (i' || (p' =? c_us)); [discriminate|].
  assert (k = true).
  { destruct k; [reflexivity|]. destruct (c' =? 0); [destruct (prefix =? 48)|]; discriminate. }
  subst k. pose proof (big_loop_sound b Hb _ _ _ _ _ _ _ _ _ L) as (D & _ & Z).
  destruct (c' =? 0) eqn:Ec.
  - apply N.eqb_eq in Ec. destruct (prefix =? 48) eqn:Ep; [|discriminate].
    injection H as <-. rewrite (Z Ec) in D. split; [exact D|].
    apply N.eqb_eq in Ep. intro; contradiction.
  - injection H as <-. split; [exact D|]. intros _ ->. cbn [big_loop] in L.
    injection L as <- <- <- <-. discriminate Ec.
Qed.

Lemma big_finish_exact b prefix body prev0 v : b <= 36 ->
  has_underscore body = false -> body <> [] -> denote_digits b 0 body = Some v ->
  big_finish prefix (big_loop body b 0 0 prev0 false) = Some v.
Proof.
  intros Hb U Hne D. rewrite (big_loop_exact b Hb body 0 0 prev0 false v U D).
  destruct body as [|x r]; [congruence|].
  unfold big_finish. cbn [orb].
  replace (48 =? c_us) with false by reflexivity.
  replace (0 + lenN (x :: r) =? 0) with false; [reflexivity|].
  symmetry. apply N.eqb_neq. unfold lenN. cbn [length]. lia.
Qed.

Lemma is_letter_unfold y lo : is_letter y lo = (ch y =? lo) || (ch y =? lo - 32).
Proof. reflexivity. Qed.

Lemma big_scan_nat_cases s :
  match s with
  | [] => big_scan_nat s = None
  | x :: r =>
    if ch x =? 48 then
      match r with
      | [] => big_scan_nat s = Some 0
      | y :: r2 =>
        if is_letter y 98 then big_scan_nat s = big_finish 98 (big_loop r2 2 0 0 48 false)
        else if is_letter y 111 then big_scan_nat s = big_finish 111 (big_loop r2 8 0 0 48 false)
        else if is_letter y 120 then big_scan_nat s = big_finish 120 (big_loop r2 16 0 0 48 false)
        else big_scan_nat s = big_finish 48 (big_loop r 8 0 0 48 false)
      end
    else big_scan_nat s = big_finish 0 (big_loop s 10 0 0 46 false)
  end.
Proof.
  destruct s as [|x r]; [reflexivity|].
  unfold big_scan_nat. change c_0 with 48.
  destruct (ch x =? 48); [|reflexivity].
  destruct r as [|y r2]; [reflexivity|].
  cbv zeta. rewrite !is_letter_unfold.
  change (98 - 32) with 66. change (111 - 32) with 79. change (120 - 32) with 88.
  destruct ((ch y =? 98) || (ch y =? 66)); [reflexivity|].
  destruct ((ch y =? 111) || (ch y =? 79)); [reflexivity|].
  destruct ((ch y =? 120) || (ch y =? 88)); reflexivity.
Qed.

Lemma big_scan_nat_sound s v : big_scan_nat s = Some v -> denote_uint s = Some v.
Proof.
  pose proof (big_scan_nat_cases s) as C. unfold denote_uint.
  destruct s as [|x r]; [congruence|].
  destruct (ch x =? 48).
  - destruct r as [|y r2]; [congruence|].
    destruct (is_letter y 98).
    { rewrite C. intro H. apply big_finish_sound in H; [|lia]. destruct H as [D N].
      destruct r2; [exfalso; apply N; [lia|reflexivity]|exact D]. }
    destruct (is_letter y 111).
    { rewrite C. intro H. apply big_finish_sound in H; [|lia]. destruct H as [D N].
      destruct r2; [exfalso; apply N; [lia|reflexivity]|exact D]. }
    destruct (is_letter y 120).
    { rewrite C. intro H. apply big_finish_sound in H; [|lia]. destruct H as [D N].
      destruct r2; [exfalso; apply N; [lia|reflexivity]|exact D]. }
    rewrite C. intro H. apply big_finish_sound in H; [|lia]. apply H.
  - rewrite C. intro H. apply big_finish_sound in H; [|lia]. apply H.
Qed.

Lemma big_scan_nat_exact s v : has_underscore s = false -> denote_uint s = Some v ->
  big_scan_nat s = Some v.
Proof.
  pose proof (big_scan_nat_cases s) as C. unfold denote_uint. intro U.
  destruct s as [|x r]; [congruence|].
  cbn [has_underscore existsb] in U. apply orb_false_elim in U. destruct U as [U0 U].
  fold (has_underscore r) in U.
  destruct (ch x =? 48) eqn:E0.
  - destruct r as [|y r2]; [congruence|].
    assert (U2 : has_underscore r2 = false).
    { cbn [has_underscore existsb] in U. apply orb_false_elim in U. apply U. }
    destruct (is_letter y 98).
    { rewrite C. destruct r2 as [|z r3]; [discriminate|].
      intro D. apply big_finish_exact; [lia|exact U2|discriminate|exact D]. }
    destruct (is_letter y 111).
    { rewrite C. destruct r2 as [|z r3]; [discriminate|].
      intro D. apply big_finish_exact; [lia|exact U2|discriminate|exact D]. }
    destruct (is_letter y 120).
    { rewrite C. destruct r2 as [|z r3]; [discriminate|].
      intro D. apply big_finish_exact; [lia|exact U2|discriminate|exact D]. }
    rewrite C. intro D. apply big_finish_exact; [lia|exact U|discriminate|exact D].
  - rewrite C. intro D. apply big_finish_exact; [lia| |discriminate|exact D].
    cbn [has_underscore existsb]. apply orb_false_intro; [exact U0|exact U].
Qed.

Lemma denote_uint_no_sign x r v : denote_uint (x :: r) = Some v -> ch x <> 45 /\ ch x <> 43.
Proof.
  intro H. unfold denote_uint in H. cbn [denote_digits] in H.
  split; intro E; rewrite E in H; cbv in H; discriminate H.
Qed.

Lemma two256_eq : two256 = 2 ^ 256.
Proof. reflexivity. Qed.

Local Opaque two256.

(* what an accepted uint256 text looks like: an optional sign ('-' only for zero) followed by a
   literal that denotes the result *)
Lemma u256_text_sound s n : u256_unmarshal_text s = COk n ->
  n < 2 ^ 256 /\
  exists body, denote_uint body = Some n /\
    (s = body \/ exists sg, s = sg :: body /\ (ch sg = 43 \/ (ch sg = 45 /\ n = 0))).
Proof.
  unfold u256_unmarshal_text, big_unmarshal. destruct s as [|x r]; [discriminate|].
  change c_minus with 45. change c_plus with 43.
  destruct (ch x =? 45) eqn:Em; [|destruct (ch x =? 43) eqn:Ep].
  - destruct (big_scan_nat r) as [v|] eqn:B; [|discriminate]. cbn [andb].
    destruct (negb (v =? 0)) eqn:Ez; [discriminate|].
    destruct (two256 <=? v) eqn:Ev; [discriminate|]. intro H. injection H as <-.
    apply N.leb_gt in Ev. rewrite two256_eq in Ev. split; [exact Ev|].
    exists r. split; [apply big_scan_nat_sound, B|]. right. exists x. split; [reflexivity|].
    right. apply N.eqb_eq in Em. apply negb_false_iff in Ez. apply N.eqb_eq in Ez. tauto.
  - destruct (big_scan_nat r) as [v|] eqn:B; [|discriminate]. cbn [andb].
    destruct (two256 <=? v) eqn:Ev; [discriminate|]. intro H. injection H as <-.
    apply N.leb_gt in Ev. rewrite two256_eq in Ev. split; [exact Ev|].
    exists r. split; [apply big_scan_nat_sound, B|]. right. exists x. split; [reflexivity|].
    left. apply N.eqb_eq in Ep. exact Ep.
  - destruct (big_scan_nat (x :: r)) as [v|] eqn:B; [|discriminate]. cbn [andb].
    destruct (two256 <=? v) eqn:Ev; [discriminate|]. intro H. injection H as <-.
    apply N.leb_gt in Ev. rewrite two256_eq in Ev. split; [exact Ev|].
    exists (x :: r). split; [apply big_scan_nat_sound, B|]. left. reflexivity.
Qed.

Lemma u256_text_bound s n : u256_unmarshal_text s = COk n -> n < 2 ^ 256.
Proof. intro H. apply u256_text_sound in H. apply H. Qed.

(* exactness on literals without underscores *)
Lemma u256_text_exact s v : has_underscore s = false -> denote_uint s = Some v ->
  u256_unmarshal_text s = if v <? 2 ^ 256 then COk v else CRange.
Proof.
  intros U D. destruct s as [|x r]; [discriminate|].
  destruct (denote_uint_no_sign x r v D) as [Nm Np].
  unfold u256_unmarshal_text, big_unmarshal. change c_minus with 45. change c_plus with 43.
  apply N.eqb_neq in Nm, Np. rewrite Nm, Np.
  rewrite (big_scan_nat_exact _ _ U D). cbn [andb]. rewrite two256_eq.
  rewrite N.leb_antisym. destruct (v <? 2 ^ 256); reflexivity.
Qed.

Lemma u256_text_decimal s : canonical_dec s ->
  u256_unmarshal_text s =
  match dec_value s with
  | Some v => if v <? 2 ^ 256 then COk v else CRange
  | None => COther
  end.
Proof.
  intro Hc. destruct (canonical_dec_value s Hc) as [v Hv]. rewrite Hv.
  apply u256_text_exact; [apply dec_no_underscore, Hc|].
  rewrite canonical_dec_denote; assumption.
Qed.

(* a minus sign: accepted only in front of a literal denoting zero *)
Lemma u256_text_minus m body v : ch m = 45 -> has_underscore body = false ->
  denote_uint body = Some v ->
  u256_unmarshal_text (m :: body) = if v =? 0 then COk 0 else CRange.
Proof.
  intros Hm U D. unfold u256_unmarshal_text, big_unmarshal. change c_minus with 45.
  rewrite Hm. replace (45 =? 45) with true by reflexivity.
  rewrite (big_scan_nat_exact _ _ U D). cbn [andb].
  destruct (v =? 0) eqn:E; cbn [negb]; [|reflexivity].
  apply N.eqb_eq in E. subst v. reflexivity.
Qed.

Lemma u256_text_minus_dec n : n <> 0 ->
  u256_unmarshal_text (byte_of_N 45 :: print_dec n) = CRange.
Proof.
  intro Hn. rewrite (u256_text_minus _ _ n).
  - apply N.eqb_neq in Hn. rewrite Hn. reflexivity.
  - reflexivity.
  - apply dec_no_underscore, print_dec_digits.
  - rewrite canonical_dec_denote by apply print_dec_canonical_dec. apply print_dec_value.
Qed.

Lemma roundtrip_u256_text n : n < 2 ^ 256 -> u256_unmarshal_text (print_dec n) = COk n.
Proof.
  intro Hn. rewrite (u256_text_decimal _ (print_dec_canonical_dec n)), print_dec_value.
  apply N.ltb_lt in Hn. rewrite Hn. reflexivity.
Qed.

Lemma roundtrip_u256_json n : n < 2 ^ 256 -> u256_unmarshal_json (uint_marshal_json n) = COk n.
Proof.
  intro Hn. unfold u256_unmarshal_json, uint_marshal_json. rewrite strip_quotes_quoted.
  apply roundtrip_u256_text, Hn.
Qed.

Lemma u256_json_bound s n : u256_unmarshal_json s = COk n -> n < 2 ^ 256.
Proof.
  unfold u256_unmarshal_json. destruct (strip_quotes s); try discriminate. apply u256_text_bound.
Qed.

(* ------------------------------------------------------------------ *)
(* 6. hex                                                               *)

Lemma list_ind2 {A} (P : list A -> Prop) :
  P [] -> (forall x, P [x]) -> (forall x y r, P r -> P (x :: y :: r)) -> forall l, P l.
Proof.
  intros H0 H1 H2 l.
  assert (H : P l /\ forall a, P (a :: l)).
  { induction l as [|b r [IH1 IH2]]; [split; [exact H0|exact H1]|].
    split; [apply IH2|]. intro a. apply H2, IH1. }
  apply H.
Qed.

Lemma hex_byte_facts b :
  hex_val (ch (hex_char (N_of_byte b / 16))) = Some (N_of_byte b / 16) /\
  hex_val (ch (hex_char (N_of_byte b mod 16))) = Some (N_of_byte b mod 16) /\
  byte_of_N (16 * (N_of_byte b / 16) + N_of_byte b mod 16) = b /\
  ((ch (hex_char (N_of_byte b mod 16)) =? 120) || (ch (hex_char (N_of_byte b mod 16)) =? 88)) = false.
Proof. destruct b; repeat split; reflexivity. Qed.

Lemma hex_encode_cons b r :
  hex_encode (b :: r) =
  hex_char (N_of_byte b / 16) :: hex_char (N_of_byte b mod 16) :: hex_encode r.
Proof. reflexivity. Qed.

Lemma hex_decode_cons2 x y r :
  hex_decode (x :: y :: r) =
  match hex_val (ch x), hex_val (ch y), hex_decode r with
  | Some a, Some b, Some rest => Some (byte_of_N (16 * a + b) :: rest)
  | _, _, _ => None
  end.
Proof. reflexivity. Qed.

Lemma hex_decode_encode bs : hex_decode (hex_encode bs) = Some bs.
Proof.
  induction bs as [|b r IH]; [reflexivity|].
  rewrite hex_encode_cons, hex_decode_cons2.
  destruct (hex_byte_facts b) as (E1 & E2 & E3 & _). rewrite E1, E2, IH, E3. reflexivity.
Qed.

Lemma hex_encode_length bs : lenN (hex_encode bs) = 2 * lenN bs.
Proof.
  unfold lenN. induction bs as [|b r IH]; [reflexivity|].
  rewrite hex_encode_cons. cbn [length]. rewrite !Nat2N.inj_succ. lia.
Qed.

Lemma hex_decode_length t : forall bs, hex_decode t = Some bs -> lenN t = 2 * lenN bs.
Proof.
  unfold lenN. induction t as [|x|x y r IH] using list_ind2; intros bs H.
  - injection H as <-. reflexivity.
  - discriminate H.
  - rewrite hex_decode_cons2 in H.
    destruct (hex_val (ch x)); [|discriminate]. destruct (hex_val (ch y)); [|discriminate].
    destruct (hex_decode r) as [rest|]; [|discriminate]. injection H as <-.
    specialize (IH rest eq_refl). cbn [length]. rewrite !Nat2N.inj_succ. lia.
Qed.

Lemma strip_0x_marshal t : strip_0x (byte_of_N c_0 :: byte_of_N 120 :: t) = t.
Proof. reflexivity. Qed.

Lemma strip_0x_hex_encode bs : strip_0x (hex_encode bs) = hex_encode bs.
Proof.
  destruct bs as [|b r]; [reflexivity|]. rewrite hex_encode_cons. unfold strip_0x.
  destruct (hex_byte_facts b) as (_ & _ & _ & E). rewrite E, andb_false_r. reflexivity.
Qed.

Lemma hex_roundtrip bs : fixed_bytes_unmarshal (lenN bs) (bytes_marshal_text bs) = Some bs.
Proof.
  unfold fixed_bytes_unmarshal, bytes_marshal_text. rewrite strip_0x_marshal.
  fold (lenN (hex_encode bs)). rewrite hex_encode_length, N.eqb_refl. cbn [negb].
  apply hex_decode_encode.
Qed.

(* the prefix is optional *)
Lemma hex_roundtrip_noprefix bs : fixed_bytes_unmarshal (lenN bs) (hex_encode bs) = Some bs.
Proof.
  unfold fixed_bytes_unmarshal. rewrite strip_0x_hex_encode.
  fold (lenN (hex_encode bs)). rewrite hex_encode_length, N.eqb_refl. cbn [negb].
  apply hex_decode_encode.
Qed.

Lemma hex_fixed k text bs : fixed_bytes_unmarshal k text = Some bs ->
  lenN bs = k /\ hex_decode (strip_0x text) = Some bs /\ lenN (strip_0x text) = 2 * k.
Proof.
  unfold fixed_bytes_unmarshal. fold (lenN (strip_0x text)).
  destruct (lenN (strip_0x text) =? 2 * k) eqn:E; [|discriminate]. cbn [negb].
  apply N.eqb_eq in E. intro H. pose proof (hex_decode_length _ _ H) as L.
  split; [lia|]. split; [exact H|exact E].
Qed.

Lemma hex_fixed_iff k text bs : fixed_bytes_unmarshal k text = Some bs <->
  lenN bs = k /\ hex_decode (strip_0x text) = Some bs.
Proof.
  split; [intro H; apply hex_fixed in H; tauto|].
  intros [L H]. unfold fixed_bytes_unmarshal. fold (lenN (strip_0x text)).
  rewrite (hex_decode_length _ _ H), L, N.eqb_refl. exact H.
Qed.

(* decoded text is the hex of the result up to letter case *)
Lemma hex_val_fold x a : hex_val (ch x) = Some a -> a < 16 /\ hex_char a = to_lower_hex x.
Proof.
  destruct x; vm_compute; intro H; try discriminate H; injection H as <-; split; reflexivity.
Qed.

Lemma hex_decode_fold t : forall bs, hex_decode t = Some bs -> hex_encode bs = map to_lower_hex t.
Proof.
  induction t as [|x|x y r IH] using list_ind2; intros bs H.
  - injection H as <-. reflexivity.
  - discriminate H.
  - rewrite hex_decode_cons2 in H.
    destruct (hex_val (ch x)) as [a|] eqn:Ea; [|discriminate].
    destruct (hex_val (ch y)) as [b|] eqn:Eb; [|discriminate].
    destruct (hex_decode r) as [rest|]; [|discriminate]. injection H as <-.
    apply hex_val_fold in Ea, Eb. destruct Ea as [La Fa], Eb as [Lb Fb].
    rewrite hex_encode_cons, (IH rest eq_refl). cbn [map].
    rewrite N_of_byte_of_N. rewrite (N.mod_small (16 * a + b) 256) by lia.
    replace ((16 * a + b) / 16) with a by lia. replace ((16 * a + b) mod 16) with b by lia.
    rewrite Fa, Fb. reflexivity.
Qed.

(* acceptance: exactly the even-length strings of hex digits *)
Lemma hex_val_digit b : hex_val (ch b) = None <-> is_hex_digit b = false.
Proof.
  unfold hex_val, is_hex_digit, c_0, c_9, c_a, c_A.
  destruct ((48 <=? ch b) && (ch b <=? 57)); [split; discriminate|].
  destruct ((97 <=? ch b) && (ch b <=? 102)); [split; discriminate|].
  destruct ((65 <=? ch b) && (ch b <=? 70)); [split; discriminate|]. split; reflexivity.
Qed.

Lemma hex_decode_accepts t :
  (exists bs, hex_decode t = Some bs) <->
  (Nat.even (length t) = true /\ forallb is_hex_digit t = true).
Proof.
  induction t as [|x|x y r IH] using list_ind2.
  - split; [intros _; split; reflexivity|intros _; eexists; reflexivity].
  - split; [intros [bs H]; discriminate H|intros [H _]; discriminate H].
  - rewrite hex_decode_cons2. cbn [length Nat.even forallb].
    pose proof (hex_val_digit x) as Dx. pose proof (hex_val_digit y) as Dy.
    destruct (hex_val (ch x)) as [a|].
    2:{ rewrite (proj1 Dx eq_refl). split; [intros [bs H]; discriminate H|intros [_ H]; discriminate H]. }
    destruct (hex_val (ch y)) as [b|].
    2:{ rewrite (proj1 Dy eq_refl), andb_false_r.
        split; [intros [bs H]; discriminate H|intros [_ H]; discriminate H]. }
    destruct (is_hex_digit x); [|destruct Dx as [_ Dx]; discriminate (Dx eq_refl)].
    destruct (is_hex_digit y); [|destruct Dy as [_ Dy]; discriminate (Dy eq_refl)].
    cbn [andb]. rewrite <- IH. destruct (hex_decode r) as [rest|].
    + split; intros _; eexists; reflexivity.
    + split; intros [bs H]; discriminate H.
Qed.

Lemma hex_decode_odd t : Nat.even (length t) = false -> hex_decode t = None.
Proof.
  intro H. destruct (hex_decode t) as [bs|] eqn:E; [|reflexivity].
  assert (A : exists bs, hex_decode t = Some bs) by (eexists; exact E).
  apply hex_decode_accepts in A. destruct A as [A _]. congruence.
Qed.

Lemma hex_decode_nonhex t b : In b t -> is_hex_digit b = false -> hex_decode t = None.
Proof.
  intros Hin Hb. destruct (hex_decode t) as [bs|] eqn:E; [|reflexivity].
  assert (A : exists bs, hex_decode t = Some bs) by (eexists; exact E).
  apply hex_decode_accepts in A. destruct A as [_ A].
  rewrite forallb_forall in A. rewrite (A b Hin) in Hb. discriminate Hb.
Qed.

(* ------------------------------------------------------------------ *)
(* the canonical numeral of a number is unique: print_dec inverts dec_value *)

Lemma dec_value_from_ge s : forall a v, dec_value_from a s = Some v -> a <= v.
Proof.
  induction s as [|b r IH]; intros a v H.
  - injection H as <-. lia.
  - cbn [dec_value_from] in H. destruct (is_dec_digit b); [|discriminate]. apply IH in H. lia.
Qed.

Lemma dec_digit_of_ch b : is_dec_digit b = true -> dec_digit (ch b - 48) = b.
Proof.
  intro H. apply ch_inj. destruct (dec_digit_facts b H) as (_ & _ & L).
  rewrite ch_dec_digit by exact L.
  unfold is_dec_digit in H. apply andb_prop in H. destruct H as [H1 _]. apply N.leb_le in H1. lia.
Qed.

Lemma canonical_dec_unique s : forall n, canonical_dec s -> dec_value s = Some n -> s = print_dec n.
Proof.
  induction s as [|b s' IH] using rev_ind; intros n [Hd Hc] Hv; [contradiction|].
  rewrite forallb_app in Hd. apply andb_prop in Hd. destruct Hd as [Hd' Hb].
  cbn [forallb] in Hb. rewrite andb_true_r in Hb.
  assert (Hv' : dec_value_from 0 (s' ++ [b]) = Some n).
  { unfold dec_value in Hv. destruct (s' ++ [b]) eqn:E; [|exact Hv].
    apply app_eq_nil in E. destruct E as [_ E]. discriminate E. }
  rewrite dec_value_from_app in Hv'.
  destruct (dec_digit_facts b Hb) as (_ & _ & Ld).
  destruct s' as [|x r'].
  - cbn [dec_value_from] in Hv'. rewrite Hb in Hv'. injection Hv' as <-.
    replace (10 * 0 + (ch b - 48)) with (ch b - 48) by lia.
    rewrite print_dec_small by exact Ld. rewrite dec_digit_of_ch by exact Hb. reflexivity.
  - assert (Hx : ch x <> 48).
    { intro E. cbn [app] in Hc. specialize (Hc E). apply app_eq_nil in Hc.
      destruct Hc as [_ Hc]. discriminate Hc. }
    destruct (dec_value_from 0 (x :: r')) as [v'|] eqn:Ev; [|discriminate].
    cbn [dec_value_from] in Hv'. rewrite Hb in Hv'. injection Hv' as <-.
    assert (Hv1 : 1 <= v').
    { cbn [dec_value_from] in Ev. cbn [forallb] in Hd'. apply andb_prop in Hd'.
      destruct Hd' as [Hxd _]. rewrite Hxd in Ev. apply dec_value_from_ge in Ev.
      unfold is_dec_digit in Hxd. apply andb_prop in Hxd. destruct Hxd as [H1 _].
      apply N.leb_le in H1. lia. }
    rewrite print_dec_big by lia.
    replace ((10 * v' + (ch b - 48)) / 10) with v' by lia.
    replace ((10 * v' + (ch b - 48)) mod 10) with (ch b - 48) by lia.
    rewrite dec_digit_of_ch by exact Hb. f_equal.
    apply IH; [|exact Ev].
    split; [exact Hd'|]. intro E. contradiction.
Qed.

(* ------------------------------------------------------------------ *)
(* statements in the shape used by Props/C19.v                          *)

Lemma canonical_dec_def s :
  canonical_dec s <->
  exists b r, s = b :: r /\ forallb is_dec_digit s = true /\ (ch b = 48 -> r = []).
Proof.
  unfold canonical_dec. split.
  - intros [H1 H2]. destruct s as [|b r]; [contradiction|]. exists b, r. tauto.
  - intros (b & r & -> & H1 & H2). tauto.
Qed.

Lemma uint_json_bound s w n : uint_unmarshal_json s w = COk n -> n < 2 ^ w.
Proof.
  unfold uint_unmarshal_json. destruct (strip_quotes s); try discriminate. apply parse_uint_bound.
Qed.

Lemma parse_uint_bound_w w s n : In w [8; 16; 32; 64] -> parse_uint s w = COk n -> n < 2 ^ w.
Proof. intros _. apply parse_uint_bound. Qed.

(* ------------------------------------------------------------------ *)
(* Examples: the hypotheses of the implication-style theorems are satisfiable, and the
   boundary behaviour on concrete inputs                                *)

From Coq Require Import Strings.String.
Definition txt (s : String.string) : list byte := String.list_byte_of_string s.
Arguments txt s%string_scope.

Example ex_print_dec : print_dec 18446744073709551615 = txt "18446744073709551615".
Proof. vm_compute. reflexivity. Qed.
Example ex_print_dec_256 : print_dec (2 ^ 256 - 1) =
  txt "115792089237316195423570985008687907853269984665640564039457584007913129639935".
Proof. vm_compute. reflexivity. Qed.

Example ex_roundtrip_text : 255 < 2 ^ 8 /\ uint_unmarshal_text (uint_marshal_text 255) 8 = COk 255.
Proof. split; vm_compute; reflexivity. Qed.
Example ex_roundtrip_json :
  uint_marshal_json 65535 = txt """65535""" /\
  uint_unmarshal_json_cast (uint_marshal_json 65535) 16 = COk 65535.
Proof. split; vm_compute; reflexivity. Qed.
Example ex_roundtrip_u256 :
  u256_unmarshal_json (uint_marshal_json (2 ^ 256 - 1)) = COk (2 ^ 256 - 1).
Proof. vm_compute. reflexivity. Qed.

(* no truncation: 256 does not fit 8 bits; it is rejected, not reduced to 0 *)
Example ex_no_truncation :
  parse_uint (txt "255") 8 = COk 255 /\ parse_uint (txt "256") 8 = CRange /\
  parse_uint (txt "0x1_00") 8 = CRange /\
  parse_uint (txt "18446744073709551615") 64 = COk 18446744073709551615 /\
  parse_uint (txt "18446744073709551616") 64 = CRange /\
  parse_uint (txt "184467440737095516150") 64 = CRange /\
  parse_uint (txt "4294967296") 32 = CRange /\
  u256_unmarshal_text (txt "115792089237316195423570985008687907853269984665640564039457584007913129639936") = CRange.
Proof. repeat split; vm_compute; reflexivity. Qed.

Example ex_canonical : canonical_dec (txt "65536") /\ dec_value (txt "65536") = Some 65536 /\
  canonical_dec (txt "0") /\ ~ canonical_dec (txt "007") /\ ~ canonical_dec (txt "").
Proof.
  unfold canonical_dec. vm_compute.
  split; [split; [reflexivity|intro H; discriminate H]|]. split; [reflexivity|].
  split; [split; [reflexivity|reflexivity]|].
  split; [intros [_ H]; specialize (H eq_refl); discriminate H|intros [_ H]; exact H].
Qed.

(* the other literal syntaxes *)
Example ex_denote :
  parse_uint (txt "0b1_01") 8 = COk 5 /\ denote_uint (txt "0b1_01") = Some 5 /\
  parse_uint (txt "0o17") 8 = COk 15 /\ denote_uint (txt "0o17") = Some 15 /\
  parse_uint (txt "017") 8 = COk 15 /\ denote_uint (txt "017") = Some 15 /\
  parse_uint (txt "0XfF") 8 = COk 255 /\ denote_uint (txt "0XfF") = Some 255 /\
  parse_uint (txt "1__0") 8 = CSyntax /\ denote_uint (txt "1__0") = Some 10 /\
  has_underscore (txt "1__0") && negb (underscore_ok (txt "1__0")) = true /\
  parse_uint (txt "0x") 8 = CSyntax /\ denote_uint (txt "0x") = None /\
  parse_uint (txt "-1") 8 = CSyntax /\ parse_uint (txt "+1") 8 = CSyntax /\
  parse_uint (txt "12a") 64 = CSyntax /\ denote_uint (txt "12a") = None.
Proof. repeat split; vm_compute; reflexivity. Qed.

Example ex_u256 :
  u256_unmarshal_text (txt "-0") = COk 0 /\ u256_unmarshal_text (txt "-1") = CRange /\
  u256_unmarshal_text (txt "+0x1_0") = COk 16 /\ u256_unmarshal_text (txt "0x") = COther /\
  u256_unmarshal_text (txt "08") = COther /\ u256_unmarshal_text (txt "1_") = COther.
Proof. repeat split; vm_compute; reflexivity. Qed.

Example ex_hex :
  bytes_marshal_text [byte_of_N 171; byte_of_N 1] = txt "0xab01" /\
  fixed_bytes_unmarshal 2 (txt "0XaB01") = Some [byte_of_N 171; byte_of_N 1] /\
  fixed_bytes_unmarshal 2 (txt "Ab01") = Some [byte_of_N 171; byte_of_N 1] /\
  map to_lower_hex (txt "aB01") = txt "ab01" /\
  fixed_bytes_unmarshal 2 (txt "0xab0102") = None /\
  fixed_bytes_unmarshal 2 (txt "0xab") = None /\
  fixed_bytes_unmarshal 2 (txt "0xab0") = None /\
  fixed_bytes_unmarshal 2 (txt "0xab0g") = None /\
  fixed_bytes_unmarshal 0 (txt "0x") = Some [] /\ fixed_bytes_unmarshal 0 (txt "") = Some [].
Proof. repeat split; vm_compute; reflexivity. Qed.

Example ex_u256_exact :
  has_underscore (txt "0x10") = false /\ denote_uint (txt "0x10") = Some 16 /\
  u256_unmarshal_text (txt "0x10") = COk 16.
Proof. repeat split; vm_compute; reflexivity. Qed.

Example ex_hex_decode :
  hex_decode (txt "aB01") = Some [byte_of_N 171; byte_of_N 1] /\
  hex_encode [byte_of_N 171; byte_of_N 1] = map to_lower_hex (txt "aB01") /\
  Nat.even (List.length (txt "ab0")) = false /\ hex_decode (txt "ab0") = None /\
  In (byte_of_N 103) (txt "ab0g") /\ is_hex_digit (byte_of_N 103) = false /\
  hex_decode (txt "ab0g") = None.
Proof. repeat split; try (vm_compute; reflexivity). vm_compute. tauto. Qed.

Example ex_canonical_unique :
  canonical_dec (txt "4294967296") /\ dec_value (txt "4294967296") = Some 4294967296 /\
  print_dec 4294967296 = txt "4294967296".
Proof.
  split; [unfold canonical_dec; vm_compute; split; [reflexivity|intro H; discriminate H]|].
  split; vm_compute; reflexivity.
Qed.
