(* BitlenProofs.v — the generalized-index and bit-length arithmetic of Bitlen.v is exact (C16).

   Small spec definitions used in the statements of Props/C16.v:

   [biter_nth k it]  is the result (right, ok) of the k-th call (k = 0 is the first call) of
                     [biter_next] on an iterator that starts in state [it].
   [le_val]          (from Base.v) is the little-endian value of a byte string; the big-endian value
                     of [bs] is written [le_val (rev bs)].
*)
From Ztyp Require Import Base Bitlen.
From Coq Require Import PeanoNat ZArith ZifyN ZifyNat ZifyBool.
Open Scope N_scope.

Fixpoint biter_nth (k : nat) (it : biter) : bool * bool :=
  match k with
  | O => snd (biter_next it)
  | S k' => biter_nth k' (fst (biter_next it))
  end.

Local Opaque two64.
Local Arguments N.pow : simpl never.
Local Arguments N.shiftl : simpl never.
Local Arguments N.shiftr : simpl never.
Local Arguments N.land : simpl never.
Local Arguments N.lor : simpl never.
Local Arguments N.lxor : simpl never.
Local Arguments N.div : simpl never.
Local Arguments N.modulo : simpl never.
Local Arguments N.log2 : simpl never.
Local Arguments N.testbit : simpl never.

Lemma two64_eq : two64 = 2 ^ 64.
Proof. Local Transparent two64. reflexivity. Local Opaque two64. Qed.

(* ------------------------------------------------------------------ *)
(* generic bit facts                                                   *)

Lemma pow2_pos n : 0 < 2 ^ n.
Proof. apply N.neq_0_lt_0, N.pow_nonzero. discriminate. Qed.

Lemma pow2_nz n : 2 ^ n <> 0.
Proof. apply N.pow_nonzero. discriminate. Qed.

Lemma pow2_le_mono a b : a <= b -> 2 ^ a <= 2 ^ b.
Proof. intro H. apply N.pow_le_mono_r; [discriminate | exact H]. Qed.

Lemma pow2_lt_mono a b : a < b -> 2 ^ a < 2 ^ b.
Proof. intro H. apply N.pow_lt_mono_r; [reflexivity | exact H]. Qed.

Lemma pow2_split a b : a <= b -> 2 ^ b = 2 ^ (b - a) * 2 ^ a.
Proof. intro H. rewrite <- N.pow_add_r. f_equal. lia. Qed.

Lemma pow2_succ d : 2 ^ (d + 1) = 2 * 2 ^ d.
Proof. rewrite N.add_1_r. apply N.pow_succ_r'. Qed.

Lemma pow2_pred d : 0 < d -> 2 ^ d = 2 * 2 ^ (d - 1).
Proof. intro H. rewrite <- pow2_succ. f_equal. lia. Qed.

Lemma testbit_small a n m : a < 2 ^ n -> n <= m -> N.testbit a m = false.
Proof.
  intros Ha Hnm. rewrite <- (N.mod_small a (2 ^ n)) by exact Ha.
  apply N.mod_pow2_bits_high. exact Hnm.
Qed.

Lemma lor_disjoint a b : N.land a b = 0 -> N.lor a b = a + b.
Proof.
  intro H. rewrite (N.add_nocarry_lxor _ _ H). symmetry. apply N.lxor_lor. exact H.
Qed.

Lemma land_pow2 a n : N.land a (2 ^ n) = if N.testbit a n then 2 ^ n else 0.
Proof.
  apply N.bits_inj. intro i. rewrite N.land_spec, N.pow2_bits_eqb.
  destruct (N.testbit a n) eqn:E.
  - rewrite N.pow2_bits_eqb. destruct (N.eqb_spec n i) as [->|_].
    + rewrite E. reflexivity.
    + apply andb_false_r.
  - rewrite N.bits_0. destruct (N.eqb_spec n i) as [<-|_].
    + rewrite E. reflexivity.
    + apply andb_false_r.
Qed.

Lemma land_pow2_eqb a n : (N.land a (2 ^ n) =? 0) = negb (N.testbit a n).
Proof.
  rewrite land_pow2. destruct (N.testbit a n); [|reflexivity].
  apply N.eqb_neq, pow2_nz.
Qed.

Lemma land_even_1 a : N.land (2 * a) 1 = 0.
Proof. destruct a; reflexivity. Qed.

Lemma land_pow2_small a n : a < 2 ^ n -> N.land a (2 ^ n) = 0.
Proof.
  intro H. rewrite land_pow2, (testbit_small a n n H) by lia. reflexivity.
Qed.

Lemma lor_pow2_small a n : a < 2 ^ n -> N.lor (2 ^ n) a = 2 ^ n + a.
Proof.
  intro H. apply lor_disjoint. rewrite N.land_comm. apply land_pow2_small, H.
Qed.

(* bits of 2^d + p below d are the bits of p *)
Lemma testbit_anchor_low d p i : p < 2 ^ d -> i < d -> N.testbit (2 ^ d + p) i = N.testbit p i.
Proof.
  intros Hp Hi. rewrite <- (N.mod_pow2_bits_low (2 ^ d + p) d i Hi).
  f_equal. replace (2 ^ d + p) with (p + 1 * 2 ^ d) by lia.
  rewrite N.mod_add by apply pow2_nz. apply N.mod_small, Hp.
Qed.

Lemma testbit_top d p : 0 < d -> p < 2 ^ d -> N.testbit p (d - 1) = negb (p <? 2 ^ (d - 1)).
Proof.
  intros Hd Hp. rewrite N.testbit_eqb.
  rewrite (pow2_pred d Hd) in Hp. set (h := 2 ^ (d - 1)) in *.
  assert (Hh : 0 < h) by apply pow2_pos.
  destruct (N.ltb_spec p h) as [Hlt|Hge].
  - rewrite N.div_small by exact Hlt. reflexivity.
  - assert (E : p / h = 1).
    { symmetry. apply (N.div_unique p h 1 (p - h)); lia. }
    rewrite E. reflexivity.
Qed.

Lemma log2_anchor d p : p < 2 ^ d -> N.log2 (2 ^ d + p) = d.
Proof.
  intro Hp. apply (N.log2_unique' _ d p); [lia | lia | reflexivity].
Qed.

Lemma anchor_lt64 d p : d < 64 -> p < 2 ^ d -> 2 ^ d + p < 2 ^ 64.
Proof.
  intros Hd Hp. assert (H : 2 ^ (d + 1) <= 2 ^ 64) by (apply pow2_le_mono; lia).
  rewrite pow2_succ in H. lia.
Qed.

(* every positive number is an anchor plus a position *)
Lemma anchor_decomp v : 0 < v -> exists p, v = 2 ^ N.log2 v + p /\ p < 2 ^ N.log2 v.
Proof.
  intro Hv. destruct (N.log2_spec v Hv) as [Hlo Hhi].
  rewrite N.pow_succ_r' in Hhi. exists (v - 2 ^ N.log2 v). lia.
Qed.

(* ------------------------------------------------------------------ *)
(* uint64 shifts                                                       *)

Lemma shl64_1 d : d < 64 -> shl64 1 d = 2 ^ d.
Proof.
  intro Hd. unfold shl64, wrap64. rewrite N.shiftl_1_l, two64_eq.
  apply N.mod_small, pow2_lt_mono, Hd.
Qed.

Lemma shl64_1_high d : 64 <= d -> shl64 1 d = 0.
Proof.
  intro Hd. unfold shl64, wrap64. rewrite N.shiftl_1_l, two64_eq.
  rewrite (pow2_split 64 d Hd). apply N.mod_mul, pow2_nz.
Qed.

Lemma shl64_small v k : v * 2 ^ k < 2 ^ 64 -> shl64 v k = v * 2 ^ k.
Proof.
  intro H. unfold shl64, wrap64. rewrite N.shiftl_mul_pow2, two64_eq.
  apply N.mod_small, H.
Qed.

(* ------------------------------------------------------------------ *)
(* the masks and the binary search                                     *)

Lemma mask_shape m : m <= 64 -> 2 ^ 64 - 2 ^ m = N.shiftl (N.ones (64 - m)) m.
Proof.
  intro Hm. rewrite N.shiftl_mul_pow2, N.ones_equiv, <- N.sub_1_r, N.mul_sub_distr_r.
  rewrite <- N.pow_add_r. replace (64 - m + m) with 64 by lia. lia.
Qed.

Lemma land_mask_zero v m : m <= 64 -> v < 2 ^ 64 ->
  (N.land v (2 ^ 64 - 2 ^ m) = 0 <-> v < 2 ^ m).
Proof.
  intros Hm Hv. rewrite (mask_shape m Hm). split.
  - intro H0. destruct (N.lt_ge_cases v (2 ^ m)) as [Hlt|Hge]; [exact Hlt|exfalso].
    assert (Hvpos : 0 < v) by (pose proof (pow2_pos m); lia).
    assert (Hvnz : v <> 0) by lia.
    assert (Hlo : m <= N.log2 v) by (apply (proj1 (N.log2_le_pow2 v m Hvpos)), Hge).
    assert (Hhi : N.log2 v < 64) by (apply (proj1 (N.log2_lt_pow2 v 64 Hvpos)), Hv).
    assert (Hb : N.testbit (N.land v (N.shiftl (N.ones (64 - m)) m)) (N.log2 v) = true).
    { rewrite N.land_spec, (N.bit_log2 v Hvnz), N.shiftl_spec_high' by exact Hlo.
      rewrite N.ones_spec_low by lia. reflexivity. }
    rewrite H0, N.bits_0 in Hb. discriminate.
  - intro Hlt. apply N.bits_inj. intro i. rewrite N.land_spec, N.bits_0.
    destruct (N.lt_ge_cases i m) as [Hi|Hi].
    + rewrite N.shiftl_spec_low by exact Hi. apply andb_false_r.
    + rewrite (testbit_small v m i Hlt Hi). reflexivity.
Qed.

Lemma mask_eq k : mask k = 2 ^ 64 - 2 ^ (2 ^ k).
Proof. unfold mask. rewrite two64_eq. reflexivity. Qed.

(* the loop invariant of the binary search, for one step *)
Definition bi_inv (v0 : N) (k : N) (vo : N * N) : Prop :=
  let '(v, out) := vo in
  0 < v /\ v < 2 ^ (2 ^ k) /\ (exists q, out = q * 2 ^ k) /\ N.log2 v0 = out + N.log2 v.

Lemma bi_step_inv v0 k vo : k <= 5 ->
  bi_inv v0 (k + 1) vo -> bi_inv v0 k (bi_step k vo).
Proof.
  intros Hk. destruct vo as [v out]. unfold bi_inv, bi_step.
  intros (Hpos & Hlt & (q & Hq) & Hlog).
  assert (Hm32 : 2 ^ k <= 32) by (change 32 with (2 ^ 5); apply pow2_le_mono, Hk).
  rewrite pow2_succ in Hlt, Hq.
  set (m := 2 ^ k) in *.
  assert (Hmpos : 0 < m) by apply pow2_pos.
  assert (Hv64 : v < 2 ^ 64).
  { eapply N.lt_le_trans; [exact Hlt|]. apply pow2_le_mono. lia. }
  rewrite mask_eq. fold m.
  destruct (N.eqb_spec (N.land v (2 ^ 64 - 2 ^ m)) 0) as [E|E]; cbn [negb].
  - apply land_mask_zero in E; [|lia|exact Hv64].
    repeat split; try assumption. exists (2 * q). lia.
  - assert (Hge : 2 ^ m <= v).
    { destruct (N.lt_ge_cases v (2 ^ m)) as [Hc|Hc]; [|exact Hc].
      exfalso. apply E. apply land_mask_zero; [lia|exact Hv64|exact Hc]. }
    assert (Hsplit : 2 ^ (2 * m) = 2 ^ m * 2 ^ m).
    { rewrite <- N.pow_add_r. f_equal. lia. }
    assert (Hml : m <= N.log2 v) by (apply (proj1 (N.log2_le_pow2 v m Hpos)), Hge).
    rewrite N.shiftr_div_pow2.
    assert (Hdpos : 0 < v / 2 ^ m).
    { apply N.div_str_pos. split; [apply pow2_pos|exact Hge]. }
    repeat split.
    + exact Hdpos.
    + apply N.div_lt_upper_bound; [apply pow2_nz|]. rewrite <- Hsplit. exact Hlt.
    + exists (2 * q + 1). rewrite lor_disjoint.
      * lia.
      * unfold m. rewrite land_pow2.
        replace (N.testbit out k) with false; [reflexivity|].
        symmetry. rewrite Hq. replace (q * (2 * m)) with (q * 2 ^ (k + 1)).
        -- rewrite <- N.shiftl_mul_pow2. apply N.shiftl_spec_low. lia.
        -- rewrite pow2_succ. reflexivity.
    + rewrite lor_disjoint.
      * rewrite <- N.shiftr_div_pow2, N.log2_shiftr. lia.
      * unfold m. rewrite land_pow2.
        replace (N.testbit out k) with false; [reflexivity|].
        symmetry. rewrite Hq. replace (q * (2 * m)) with (q * 2 ^ (k + 1)).
        -- rewrite <- N.shiftl_mul_pow2. apply N.shiftl_spec_low. lia.
        -- rewrite pow2_succ. reflexivity.
Qed.

Lemma bit_index_unfold v : v <> 0 ->
  bit_index v =
  snd (bi_step 0 (bi_step 1 (bi_step 2 (bi_step 3 (bi_step 4 (bi_step 5 (v, 0))))))).
Proof.
  intro Hv. unfold bit_index. rewrite (proj2 (N.eqb_neq v 0) Hv).
  cbv zeta.
  destruct (bi_step 1 (bi_step 2 (bi_step 3 (bi_step 4 (bi_step 5 (v, 0)))))) as [v1 out].
  unfold bi_step. change (2 ^ 0) with 1.
  destruct (negb (N.land v1 (mask 0) =? 0)); reflexivity.
Qed.

Lemma bit_index_log2 v : 0 < v -> v < 2 ^ 64 -> bit_index v = N.log2 v.
Proof.
  intros Hpos Hlt. rewrite bit_index_unfold by lia.
  assert (I6 : bi_inv v (5 + 1) (v, 0)).
  { unfold bi_inv. repeat split; try assumption. exists 0. reflexivity. }
  apply (bi_step_inv v 5) in I6; [|lia].
  apply (bi_step_inv v 4) in I6; [|lia].
  apply (bi_step_inv v 3) in I6; [|lia].
  apply (bi_step_inv v 2) in I6; [|lia].
  apply (bi_step_inv v 1) in I6; [|lia].
  apply (bi_step_inv v 0) in I6; [|lia].
  destruct (bi_step 0 _) as [v' out'].
  unfold bi_inv in I6. destruct I6 as (Hp & Hl & _ & Hlog).
  change (2 ^ (2 ^ 0)) with 2 in Hl.
  assert (v' = 1) by lia. subst v'.
  cbn [snd]. rewrite Hlog. change (N.log2 1) with 0. lia.
Qed.

Lemma bit_index_0 : bit_index 0 = 0.
Proof. reflexivity. Qed.

Lemma bit_length_size v : v < 2 ^ 64 -> bit_length v = N.size v.
Proof.
  intro Hlt. unfold bit_length. destruct (N.eqb_spec v 0) as [->|Hnz]; [reflexivity|].
  rewrite bit_index_log2 by lia. rewrite N.size_log2 by exact Hnz. lia.
Qed.

Lemma cover_depth_log2_up v : v < 2 ^ 64 -> cover_depth v = N.log2_up v.
Proof.
  intro Hlt. unfold cover_depth.
  destruct (N.eqb_spec v 0) as [->|H0]; [reflexivity|].
  destruct (N.eqb_spec v 1) as [->|H1]; [reflexivity|].
  cbn [orb]. rewrite bit_index_log2 by lia.
  rewrite N.log2_up_eqn by lia. rewrite <- N.sub_1_r. lia.
Qed.

(* ------------------------------------------------------------------ *)
(* Gindex64: a gindex is v = 2^d + p, depth d < 64, position p < 2^d   *)

Section Gindex.
  Variables d p : N.
  Hypothesis Hd : d < 64.
  Hypothesis Hp : p < 2 ^ d.

  Lemma g_bit_index : bit_index (2 ^ d + p) = d.
  Proof.
    rewrite bit_index_log2.
    - apply log2_anchor, Hp.
    - pose proof (pow2_pos d). lia.
    - apply anchor_lt64; assumption.
  Qed.

  Lemma g_depth_spec : g_depth (2 ^ d + p) = d.
  Proof. exact g_bit_index. Qed.

  Lemma g_anchor_spec : g_anchor (2 ^ d + p) = 2 ^ d.
  Proof. unfold g_anchor. rewrite g_bit_index. apply shl64_1, Hd. Qed.

  Lemma g_left_spec : d < 63 -> g_left (2 ^ d + p) = 2 ^ (d + 1) + 2 * p.
  Proof.
    intro Hd'. unfold g_left. rewrite shl64_small.
    - change (2 ^ 1) with 2. rewrite pow2_succ. lia.
    - change (2 ^ 1) with 2.
      assert (H : 2 ^ (d + 2) <= 2 ^ 64) by (apply pow2_le_mono; lia).
      replace (d + 2) with (d + 1 + 1) in H by lia. rewrite !pow2_succ in H. lia.
  Qed.

  Lemma g_right_spec : d < 63 -> g_right (2 ^ d + p) = 2 ^ (d + 1) + 2 * p + 1.
  Proof.
    intro Hd'. unfold g_right. fold (g_left (2 ^ d + p)). rewrite (g_left_spec Hd').
    rewrite lor_disjoint; [reflexivity|].
    replace (2 ^ (d + 1) + 2 * p) with (2 * (2 ^ d + p)) by (rewrite pow2_succ; lia).
    apply land_even_1.
  Qed.

  Lemma g_parent_anchor : 0 < d -> g_parent (2 ^ d + p) = 2 ^ (d - 1) + p / 2.
  Proof.
    intro Hd0. unfold g_parent. rewrite N.shiftr_div_pow2. change (2 ^ 1) with 2.
    rewrite (pow2_pred d Hd0).
    replace (2 * 2 ^ (d - 1) + p) with (p + 2 ^ (d - 1) * 2) by lia.
    rewrite N.div_add by discriminate. lia.
  Qed.

  Lemma g_is_left_spec : 0 < d -> g_is_left (2 ^ d + p) = (p <? 2 ^ (d - 1)).
  Proof.
    intro Hd0. unfold g_is_left. rewrite g_anchor_spec.
    rewrite N.shiftr_div_pow2. change (2 ^ 1) with 2.
    replace (2 ^ d / 2) with (2 ^ (d - 1)).
    2:{ rewrite (pow2_pred d Hd0), N.mul_comm, N.div_mul by discriminate. reflexivity. }
    rewrite land_pow2_eqb, testbit_anchor_low by (assumption || lia).
    rewrite (testbit_top d p Hd0 Hp). apply negb_involutive.
  Qed.

  Lemma g_subtree_spec : 0 < d -> g_subtree (2 ^ d + p) = 2 ^ (d - 1) + p mod 2 ^ (d - 1).
  Proof.
    intro Hd0. unfold g_subtree. rewrite g_anchor_spec.
    rewrite N.shiftr_div_pow2. change (2 ^ 1) with 2.
    replace (2 ^ d / 2) with (2 ^ (d - 1)).
    2:{ rewrite (pow2_pred d Hd0), N.mul_comm, N.div_mul by discriminate. reflexivity. }
    (* v xor anchor = p *)
    assert (Hx : N.lxor (2 ^ d + p) (2 ^ d) = p).
    { rewrite (N.add_comm (2 ^ d) p), N.add_nocarry_lxor by (apply land_pow2_small, Hp).
      rewrite N.lxor_assoc, N.lxor_nilpotent, N.lxor_0_r. reflexivity. }
    rewrite Hx.
    pose proof Hp as Hp2. rewrite (pow2_pred d Hd0) in Hp2.
    set (h := 2 ^ (d - 1)) in *.
    assert (Hh : 0 < h) by apply pow2_pos.
    destruct (N.lt_ge_cases p h) as [Hlt|Hge].
    - rewrite N.mod_small by exact Hlt. rewrite N.lor_comm.
      apply lor_pow2_small, Hlt.
    - assert (Hr : p - h < h) by lia.
      assert (Hm : p mod h = p - h).
      { symmetry. apply (N.mod_unique p h 1 (p - h)); lia. }
      rewrite Hm.
      replace p with (h + (p - h)) at 1 by lia.
      unfold h in *. rewrite <- (lor_pow2_small _ _ Hr).
      rewrite (N.lor_comm (2 ^ (d - 1)) (p - 2 ^ (d - 1))), <- N.lor_assoc, N.lor_diag.
      reflexivity.
  Qed.
End Gindex.

Lemma g_parent_spec v : g_parent v = v / 2.
Proof. unfold g_parent. rewrite N.shiftr_div_pow2. reflexivity. Qed.

Lemma g_is_root_spec v : g_is_root v = true <-> v = 1.
Proof. unfold g_is_root. apply N.eqb_eq. Qed.

Lemma g_is_close_spec v : g_is_close v = true <-> v <= 3.
Proof. unfold g_is_close. apply N.leb_le. Qed.

Lemma to_gindex64_spec i d :
  to_gindex64 i d = if (d <? 64) && (i <? 2 ^ d) then OK (2 ^ d + i) else Err.
Proof.
  unfold to_gindex64.
  destruct (N.leb_spec 64 d) as [Hge|Hlt].
  - rewrite (proj2 (N.ltb_ge d 64) Hge). reflexivity.
  - rewrite (proj2 (N.ltb_lt d 64) Hlt). cbn [andb]. rewrite (shl64_1 d Hlt).
    destruct (N.leb_spec (2 ^ d) i) as [Hi|Hi].
    + rewrite (proj2 (N.ltb_ge i (2 ^ d)) Hi). reflexivity.
    + rewrite (proj2 (N.ltb_lt i (2 ^ d)) Hi). rewrite (lor_pow2_small _ _ Hi). reflexivity.
Qed.

(* ------------------------------------------------------------------ *)
(* the bit iterator and the path                                       *)

Lemma biter_next_pos j g :
  biter_next (2 ^ N.of_nat (S j), g) = ((2 ^ N.of_nat j, g), (N.testbit g (N.of_nat j), true)).
Proof.
  unfold biter_next. rewrite N.shiftr_div_pow2. change (2 ^ 1) with 2.
  replace (2 ^ N.of_nat (S j) / 2) with (2 ^ N.of_nat j).
  2:{ rewrite Nat2N.inj_succ, N.pow_succ_r', N.mul_comm, N.div_mul by discriminate. reflexivity. }
  rewrite land_pow2_eqb, negb_involutive.
  rewrite (proj2 (N.eqb_neq _ 0) (pow2_nz _)). reflexivity.
Qed.

Lemma biter_next_one g : biter_next (2 ^ N.of_nat 0, g) = ((0, g), (false, false)).
Proof. unfold biter_next. change (N.shiftr (2 ^ N.of_nat 0) 1) with 0. rewrite N.land_0_r. reflexivity. Qed.

Lemma biter_next_zero g : biter_next (0, g) = ((0, g), (false, false)).
Proof. unfold biter_next. change (N.shiftr 0 1) with 0. rewrite N.land_0_r. reflexivity. Qed.

Lemma biter_nth_zero k g : biter_nth k (0, g) = (false, false).
Proof.
  induction k as [|k IH]; cbn [biter_nth]; rewrite biter_next_zero; [reflexivity|exact IH].
Qed.

Lemma biter_nth_pow2 k : forall j g,
  biter_nth k (2 ^ N.of_nat j, g) =
  if Nat.ltb k j then (N.testbit g (N.of_nat (j - 1 - k)), true) else (false, false).
Proof.
  induction k as [|k IH]; intros j g; cbn [biter_nth].
  - destruct j as [|j].
    + rewrite biter_next_one. reflexivity.
    + rewrite biter_next_pos. cbn [snd]. replace (S j - 1 - 0)%nat with j by lia. reflexivity.
  - destruct j as [|j].
    + rewrite biter_next_one. cbn [fst]. apply biter_nth_zero.
    + rewrite biter_next_pos. cbn [fst]. rewrite IH.
      replace (S j - 1 - S k)%nat with (j - 1 - k)%nat by lia.
      destruct (Nat.ltb_spec k j) as [H|H], (Nat.ltb_spec (S k) (S j)) as [H'|H']; try lia; reflexivity.
Qed.

(* the low j bits of g, most significant first *)
Fixpoint bits_msb (j : nat) (g : N) : list bool :=
  match j with O => [] | S j' => N.testbit g (N.of_nat j') :: bits_msb j' g end.

Lemma biter_run_pow2 j : forall fuel g, (j < fuel)%nat ->
  biter_run fuel (2 ^ N.of_nat j, g) = bits_msb j g.
Proof.
  induction j as [|j IH]; intros fuel g Hf; (destruct fuel as [|f]; [lia|]); cbn [biter_run bits_msb].
  - rewrite biter_next_one. reflexivity.
  - rewrite biter_next_pos. rewrite IH by lia. reflexivity.
Qed.

Lemma bits_msb_map j g :
  bits_msb j g = map (fun i => N.testbit g (N.of_nat (j - 1 - i))) (seq 0 j).
Proof.
  induction j as [|j IH]; [reflexivity|].
  cbn [bits_msb seq map]. f_equal.
  - f_equal. f_equal. lia.
  - rewrite IH, <- seq_shift, map_map. apply map_ext_in.
    intros i _. f_equal. f_equal. lia.
Qed.

Lemma g_bit_iter_spec d p : d < 64 -> p < 2 ^ d ->
  g_bit_iter (2 ^ d + p) = ((2 ^ d, 2 ^ d + p), d).
Proof.
  intros Hd Hp. unfold g_bit_iter. rewrite (g_bit_index d p Hd Hp), (shl64_1 d Hd). reflexivity.
Qed.

Lemma g_path_spec d p : d < 64 -> p < 2 ^ d ->
  g_path (2 ^ d + p) =
  map (fun i => N.testbit p (d - 1 - N.of_nat i)) (seq 0 (N.to_nat d)).
Proof.
  intros Hd Hp. unfold g_path. rewrite (g_bit_iter_spec d p Hd Hp). cbn [fst].
  pose proof (biter_run_pow2 (N.to_nat d) 64 (2 ^ d + p)) as H. rewrite N2Nat.id in H.
  rewrite H by lia. clear H.
  rewrite bits_msb_map. apply map_ext_in. intros i Hi. apply in_seq in Hi.
  replace (N.of_nat (N.to_nat d - 1 - i)) with (d - 1 - N.of_nat i) by lia.
  apply testbit_anchor_low; [exact Hp|lia].
Qed.

Lemma g_bit_iter_depth d p : d < 64 -> p < 2 ^ d -> snd (g_bit_iter (2 ^ d + p)) = d.
Proof. intros Hd Hp. rewrite (g_bit_iter_spec d p Hd Hp). reflexivity. Qed.

Lemma g_bit_iter_nth d p k : d < 64 -> p < 2 ^ d ->
  (N.of_nat k < d ->
     biter_nth k (fst (g_bit_iter (2 ^ d + p))) = (N.testbit p (d - 1 - N.of_nat k), true)) /\
  (d <= N.of_nat k ->
     snd (biter_nth k (fst (g_bit_iter (2 ^ d + p)))) = false).
Proof.
  intros Hd Hp. rewrite (g_bit_iter_spec d p Hd Hp). cbn [fst].
  pose proof (biter_nth_pow2 k (N.to_nat d) (2 ^ d + p)) as H. rewrite N2Nat.id in H.
  rewrite H. clear H. split; intro Hk.
  - rewrite (proj2 (Nat.ltb_lt k (N.to_nat d))) by lia.
    replace (N.of_nat (N.to_nat d - 1 - k)) with (d - 1 - N.of_nat k) by lia.
    rewrite testbit_anchor_low by (assumption || lia). reflexivity.
  - rewrite (proj2 (Nat.ltb_ge k (N.to_nat d))) by lia. reflexivity.
Qed.

(* ------------------------------------------------------------------ *)
(* byte encodings                                                      *)

Local Ltac Zify.zify_post_hook ::= Z.div_mod_to_equations.

Lemma pow256 k : 256 ^ k = 2 ^ (8 * k).
Proof. rewrite N.pow_mul_r. reflexivity. Qed.

Lemma pow256_nz k : 256 ^ k <> 0.
Proof. apply N.pow_nonzero. discriminate. Qed.

Lemma N_of_byte_of_N n : N_of_byte (byte_of_N n) = n mod 256.
Proof.
  unfold N_of_byte, byte_of_N. destruct (Byte.of_N (n mod 256)) as [b|] eqn:E.
  - apply Byte.to_of_N, E.
  - apply Byte.of_N_None_iff in E. pose proof (N.mod_lt n 256). lia.
Qed.

Lemma byte_of_N_nonzero n : n mod 256 <> 0 -> byte_of_N n <> b0.
Proof.
  intros H E. apply H. rewrite <- N_of_byte_of_N, E. reflexivity.
Qed.

Lemma byte_of_N_zero n : n mod 256 = 0 -> byte_of_N n = b0.
Proof. intro H. unfold byte_of_N. rewrite H. reflexivity. Qed.

Lemma le_bytes_length k : forall n, length (le_bytes k n) = k.
Proof. induction k as [|k IH]; intro n; cbn [le_bytes length]; [reflexivity|]. rewrite IH. reflexivity. Qed.

Lemma le_val_le_bytes k : forall n, le_val (le_bytes k n) = n mod 256 ^ N.of_nat k.
Proof.
  induction k as [|k IH]; intro n; cbn [le_bytes le_val].
  - change (256 ^ N.of_nat 0) with 1. rewrite N.mod_1_r. reflexivity.
  - rewrite IH, N_of_byte_of_N, Nat2N.inj_succ, N.pow_succ_r'.
    rewrite N.mod_mul_r by (try apply pow256_nz; discriminate). reflexivity.
Qed.

Lemma firstn_le_bytes k : forall n x, (k <= n)%nat -> firstn k (le_bytes n x) = le_bytes k x.
Proof.
  induction k as [|k IH]; intros n x Hk; [reflexivity|].
  destruct n as [|n]; [lia|]. cbn [le_bytes firstn]. rewrite IH by lia. reflexivity.
Qed.

Lemma le_bytes_app a : forall b x,
  le_bytes (a + b) x = le_bytes a x ++ le_bytes b (x / 256 ^ N.of_nat a).
Proof.
  induction a as [|a IH]; intros b x.
  - change (256 ^ N.of_nat 0) with 1. rewrite N.div_1_r. reflexivity.
  - cbn [Nat.add le_bytes app]. rewrite IH. f_equal. f_equal. f_equal.
    rewrite Nat2N.inj_succ, N.pow_succ_r', N.div_div by (try apply pow256_nz; discriminate).
    reflexivity.
Qed.

Lemma last_le_bytes k x : last (le_bytes (S k) x) b0 = byte_of_N (x / 256 ^ N.of_nat k).
Proof.
  replace (S k) with (k + 1)%nat by lia. rewrite le_bytes_app. cbn [le_bytes]. apply last_last.
Qed.

Lemma le_bytes_zero k : forall x, x mod 256 ^ N.of_nat k = 0 -> le_bytes k x = repeat b0 k.
Proof.
  induction k as [|k IH]; intros x Hx; [reflexivity|].
  rewrite Nat2N.inj_succ, N.pow_succ_r' in Hx.
  rewrite N.mod_mul_r in Hx by (try apply pow256_nz; discriminate).
  cbn [le_bytes repeat]. rewrite IH by lia. rewrite byte_of_N_zero by lia. reflexivity.
Qed.

Lemma repeat_snoc {A} (x : A) n : repeat x n ++ [x] = x :: repeat x n.
Proof. induction n as [|n IH]; cbn [repeat app]; [reflexivity|]. rewrite IH. reflexivity. Qed.

Lemma rev_repeat' {A} (x : A) n : rev (repeat x n) = repeat x n.
Proof. induction n as [|n IH]; cbn [repeat rev]; [reflexivity|]. rewrite IH. apply repeat_snoc. Qed.

(* number of bytes chosen by the three comparisons of LittleEndian / offset chosen by BigEndian *)
Definition le_len (v : N) : N :=
  snd (narrow (2 ^ 8) 8 (narrow (2 ^ 16) 16 (narrow (2 ^ 32) 32 (v, 1)
         (fun s => s + 4)) (fun s => s + 2)) (fun s => s + 1)).
Definition be_off (v : N) : N :=
  snd (narrow (2 ^ 8) 8 (narrow (2 ^ 16) 16 (narrow (2 ^ 32) 32 (v, 7)
         (fun s => s - 4)) (fun s => s - 2)) (fun s => s - 1)).

Lemma g_little_endian_unfold v : v <> 0 ->
  g_little_endian v = Some (firstn (nat_of (le_len v)) (le_bytes 8 v)).
Proof.
  intro Hv. unfold g_little_endian, le_len. rewrite (proj2 (N.eqb_neq v 0) Hv). cbv zeta.
  destruct (narrow (2 ^ 8) 8 _ _) as [x s]. reflexivity.
Qed.

Lemma g_big_endian_unfold v : v <> 0 ->
  g_big_endian v = Some (skipn (nat_of (be_off v)) (be_bytes 8 v)).
Proof.
  intro Hv. unfold g_big_endian, be_off. rewrite (proj2 (N.eqb_neq v 0) Hv). cbv zeta.
  destruct (narrow (2 ^ 8) 8 _ _) as [x s]. reflexivity.
Qed.

Lemma narrow_cases v : 0 < v -> v < 2 ^ 64 ->
  1 <= le_len v <= 8 /\ 256 ^ (le_len v - 1) <= v < 256 ^ le_len v /\ be_off v = 8 - le_len v.
Proof.
  intros Hpos Hlt. unfold le_len, be_off, narrow.
  change (2 ^ 64) with 18446744073709551616 in Hlt.
  change (2 ^ 32) with 4294967296. change (2 ^ 16) with 65536. change (2 ^ 8) with 256.
  repeat match goal with
  | |- context [N.leb ?a ?b] => destruct (N.leb_spec a b); cbv beta iota zeta
  end; cbn [snd];
  rewrite ?N.shiftr_div_pow2 in *;
  change (2 ^ 32) with 4294967296 in *; change (2 ^ 16) with 65536 in *;
  change (2 ^ 8) with 256 in *;
  repeat match goal with
  | |- context [256 ^ ?e] =>
      let x := eval vm_compute in (256 ^ e) in change (256 ^ e) with x
  end; lia.
Qed.

Lemma size_bounds v : 0 < v -> v < 2 ^ 64 -> 1 <= N.size v <= 64.
Proof.
  intros Hpos Hlt. rewrite N.size_log2 by lia.
  assert (N.log2 v < 64) by (apply (proj1 (N.log2_lt_pow2 v 64 Hpos)), Hlt). lia.
Qed.

Lemma bytes_of_size v s : 0 < v -> 1 <= s -> 256 ^ (s - 1) <= v < 256 ^ s ->
  (N.size v + 7) / 8 = s.
Proof.
  intros Hpos Hs [Hlo Hhi]. rewrite pow256 in Hlo, Hhi.
  apply (proj1 (N.log2_le_pow2 v _ Hpos)) in Hlo.
  apply (proj1 (N.log2_lt_pow2 v _ Hpos)) in Hhi.
  rewrite N.size_log2 by lia. lia.
Qed.

Lemma le_enc_props v s : 0 < v -> 1 <= s -> 256 ^ (s - 1) <= v < 256 ^ s ->
  let bs := le_bytes (nat_of s) v in
  le_val bs = v /\ N.of_nat (length bs) = (N.size v + 7) / 8 /\ last bs b0 <> b0.
Proof.
  intros Hpos Hs Hb. pose proof (bytes_of_size v s Hpos Hs Hb) as Hsz. destruct Hb as [Hlo Hhi].
  cbv zeta. unfold nat_of. repeat split.
  - rewrite le_val_le_bytes, N2Nat.id. apply N.mod_small, Hhi.
  - rewrite le_bytes_length, N2Nat.id. symmetry. exact Hsz.
  - replace (N.to_nat s) with (S (N.to_nat (s - 1))) by lia.
    rewrite last_le_bytes, N2Nat.id. apply byte_of_N_nonzero.
    assert (Hq1 : 0 < v / 256 ^ (s - 1)).
    { apply N.div_str_pos. split; [|exact Hlo]. apply N.neq_0_lt_0, pow256_nz. }
    assert (Hq2 : v / 256 ^ (s - 1) < 256).
    { apply N.div_lt_upper_bound; [apply pow256_nz|].
      rewrite N.mul_comm, <- (N.pow_succ_r' 256 (s - 1)). replace (N.succ (s - 1)) with s by lia. exact Hhi. }
    rewrite N.mod_small by exact Hq2. lia.
Qed.

Lemma g_little_endian_spec v : 0 < v -> v < 2 ^ 64 ->
  exists bs, g_little_endian v = Some bs /\
    le_val bs = v /\ N.of_nat (length bs) = (N.size v + 7) / 8 /\ last bs b0 <> b0.
Proof.
  intros Hpos Hlt. destruct (narrow_cases v Hpos Hlt) as (Hs & Hb & _).
  exists (le_bytes (nat_of (le_len v)) v). split.
  - rewrite g_little_endian_unfold by lia. f_equal. apply firstn_le_bytes. unfold nat_of. lia.
  - apply (le_enc_props v (le_len v)); [exact Hpos|lia|exact Hb].
Qed.

Lemma g_big_endian_rev v : v < 2 ^ 64 ->
  g_big_endian v = option_map (@rev byte) (g_little_endian v).
Proof.
  intro Hlt. destruct (N.eq_dec v 0) as [->|Hnz]; [reflexivity|].
  assert (Hpos : 0 < v) by lia.
  destruct (narrow_cases v Hpos Hlt) as (Hs & _ & Hoff).
  rewrite g_big_endian_unfold, g_little_endian_unfold by exact Hnz.
  cbn [option_map]. f_equal. unfold be_bytes. rewrite skipn_rev, le_bytes_length. f_equal. f_equal.
  rewrite Hoff. unfold nat_of. lia.
Qed.

Lemma g_big_endian_spec v : 0 < v -> v < 2 ^ 64 ->
  exists bs, g_big_endian v = Some bs /\
    le_val (rev bs) = v /\ N.of_nat (length (rev bs)) = (N.size v + 7) / 8 /\
    last (rev bs) b0 <> b0.
Proof.
  intros Hpos Hlt. destruct (g_little_endian_spec v Hpos Hlt) as (bs & E & H).
  exists (rev bs). split.
  - rewrite (g_big_endian_rev v Hlt), E. reflexivity.
  - rewrite rev_involutive. exact H.
Qed.

Lemma g_little_endian_0 : g_little_endian 0 = None.
Proof. reflexivity. Qed.
Lemma g_big_endian_0 : g_big_endian 0 = None.
Proof. reflexivity. Qed.
Lemma g_left_aligned_0 : g_left_aligned 0 = (None, 0).
Proof. reflexivity. Qed.

Lemma g_left_aligned_spec v : 0 < v -> v < 2 ^ 64 ->
  exists bs, g_left_aligned v = (Some bs, N.size v) /\
    N.of_nat (length bs) = (N.size v + 7) / 8 /\
    le_val (rev (pad_to 8 bs)) = v * 2 ^ (64 - N.size v).
Proof.
  intros Hpos Hlt. pose proof (size_bounds v Hpos Hlt) as Hz.
  unfold g_left_aligned. rewrite (proj2 (N.eqb_neq v 0)) by lia. cbv zeta.
  rewrite (bit_length_size v Hlt).
  set (z := N.size v) in *.
  assert (Hx64 : v * 2 ^ (64 - z) < 2 ^ 64).
  { rewrite (pow2_split z 64) by lia. rewrite N.mul_comm.
    apply N.mul_lt_mono_pos_l; [apply pow2_pos|]. apply N.size_gt. }
  rewrite (shl64_small _ _ Hx64).
  set (x := v * 2 ^ (64 - z)) in *.
  rewrite N.shiftr_div_pow2. change (2 ^ 3) with 8.
  set (n := (z + 7) / 8).
  assert (Hn : 1 <= n <= 8) by (unfold n; lia).
  assert (Hzn : z <= 8 * n) by (unfold n; lia).
  unfold nat_of. set (nn := N.to_nat n).
  assert (Hnn : (1 <= nn <= 8)%nat) by lia.
  (* the low 8-n bytes of x are zero *)
  assert (Hmod : x mod 256 ^ N.of_nat (8 - nn) = 0).
  { unfold x. rewrite pow256.
    rewrite (pow2_split (8 * N.of_nat (8 - nn)) (64 - z)) by lia.
    rewrite N.mul_assoc. apply N.mod_mul, pow2_nz. }
  assert (Hsplit : be_bytes 8 x =
            rev (le_bytes nn (x / 256 ^ N.of_nat (8 - nn))) ++ repeat b0 (8 - nn)).
  { unfold be_bytes. replace 8%nat with ((8 - nn) + nn)%nat at 1 by lia.
    rewrite le_bytes_app, rev_app_distr, (le_bytes_zero _ _ Hmod), rev_repeat'. reflexivity. }
  set (hi := rev (le_bytes nn (x / 256 ^ N.of_nat (8 - nn)))) in *.
  assert (Hlen : length hi = nn) by (unfold hi; rewrite rev_length; apply le_bytes_length).
  exists hi. repeat split.
  - f_equal. f_equal. rewrite Hsplit. rewrite <- Hlen, <- (Nat.add_0_r (length hi)).
    rewrite firstn_app_2, firstn_O. apply app_nil_r.
  - rewrite Hlen. unfold nn. apply N2Nat.id.
  - unfold pad_to, zero_bytes.
    replace (repeat b0 8) with (repeat b0 (8 - nn) ++ repeat b0 nn)
      by (rewrite <- repeat_app; f_equal; lia).
    rewrite app_assoc, <- Hsplit.
    replace 8%nat with (length (be_bytes 8 x) + 0)%nat at 1
      by (unfold be_bytes; rewrite rev_length, le_bytes_length; reflexivity).
    rewrite firstn_app_2, firstn_O, app_nil_r. unfold be_bytes.
    rewrite rev_involutive, le_val_le_bytes. apply N.mod_small. exact Hx64.
Qed.

(* beyond depth 62 the children do not fit in a uint64: Left() loses the anchor bit *)
Lemma g_left_overflow p : p < 2 ^ 63 -> g_left (2 ^ 63 + p) = 2 * p.
Proof.
  intro Hp. unfold g_left, shl64, wrap64. rewrite N.shiftl_mul_pow2, two64_eq.
  change (2 ^ 1) with 2. change (2 ^ 64) with (2 * 2 ^ 63).
  replace ((2 ^ 63 + p) * 2) with (2 * p + 1 * (2 * 2 ^ 63)) by lia.
  rewrite N.mod_add by discriminate. apply N.mod_small. lia.
Qed.

Lemma gindex_decomp v : 0 < v -> v < 2 ^ 64 ->
  exists d p, d < 64 /\ p < 2 ^ d /\ v = 2 ^ d + p.
Proof.
  intros Hpos Hlt. destruct (anchor_decomp v Hpos) as (p & E & Hp).
  exists (N.log2 v), p. repeat split; try assumption.
  apply (proj1 (N.log2_lt_pow2 v 64 Hpos)), Hlt.
Qed.

(* ------------------------------------------------------------------ *)
(* the hypotheses of the C16 theorems are satisfiable (non-vacuity), with the conclusions
   evaluated on the same inputs *)

Example ex_value_hyps : 0 < 1234567890123 /\ 1234567890123 < 2 ^ 64.
Proof. split; reflexivity. Qed.
Example ex_value_max_hyps : 0 < 18446744073709551615 /\ 18446744073709551615 < 2 ^ 64.
Proof. split; reflexivity. Qed.
Example ex_bit_index : bit_index 1234567890123 = 40 /\ bit_index 18446744073709551615 = 63.
Proof. split; vm_compute; reflexivity. Qed.
Example ex_bit_length : bit_length 1234567890123 = 41 /\ cover_depth 1234567890123 = 41
                        /\ cover_depth 1024 = 10 /\ cover_depth 1025 = 11.
Proof. repeat split; vm_compute; reflexivity. Qed.

(* gindex 2^5 + 19 = 51 (depth 5, position 19); and the deepest one with children, d = 62 *)
Example ex_gindex_hyps : 5 < 64 /\ 19 < 2 ^ 5 /\ 0 < 5 /\ 5 < 63.
Proof. repeat split; reflexivity. Qed.
Example ex_gindex_deep_hyps : 62 < 64 /\ 4611686018427387903 < 2 ^ 62 /\ 0 < 62 /\ 62 < 63.
Proof. repeat split; reflexivity. Qed.
Example ex_gindex_ops :
  g_depth 51 = 5 /\ g_anchor 51 = 32 /\ g_left 51 = 102 /\ g_right 51 = 103 /\
  g_parent 51 = 25 /\ g_is_left 51 = false /\ g_subtree 51 = 19 /\
  g_path 51 = [true; false; false; true; true].
Proof. repeat split; vm_compute; reflexivity. Qed.
Example ex_iter_hyps : (N.of_nat 2 < 5) /\ (5 <= N.of_nat 7).
Proof. split; vm_compute; congruence. Qed.
Example ex_iter : biter_nth 2 (fst (g_bit_iter 51)) = (false, true) /\
                  biter_nth 5 (fst (g_bit_iter 51)) = (false, false).
Proof. split; vm_compute; reflexivity. Qed.
Example ex_to_gindex : to_gindex64 19 5 = OK 51 /\ to_gindex64 32 5 = Err /\ to_gindex64 0 64 = Err.
Proof. repeat split; vm_compute; reflexivity. Qed.
Example ex_bytes :
  g_little_endian 66051 = Some [Byte.x03; Byte.x02; Byte.x01] /\
  g_big_endian 66051 = Some [Byte.x01; Byte.x02; Byte.x03] /\
  g_left_aligned 66051 = (Some [Byte.x81; Byte.x01; Byte.x80], 17).
Proof. repeat split; vm_compute; reflexivity. Qed.
