(* FlatAllocProofs.v — proofs about the allocation-instrumented flat decoder FlatAlloc.v (C20,
   flat decoders).

   Small spec definitions used in the statements of Props/C20.v (flat block):
   * [Spec.lenN l]        the length of a list as an [N];
   * [bitvectors_fit t]   every Bitvector[n] inside t has n + 7 < 2^64, i.e. the uint64
                          computation (n + 7) >> 3 of its byte length in Go does not wrap;
   * [AllocProofs.erase_limits t]  t with every list / bitlist limit replaced by 0.

   Why [bitvectors_fit] (or, alternatively, a reader scope below 2^61) is a hypothesis of the
   bound: for n = 2^64 - 7 the decoder reads ((n + 7) mod 2^64) >> 3 = 0 bytes for a
   Bitvector[n] and accepts, while FixedLength() = (n + 7) / 8 = 2^61 is not 0; a
   List[Bitvector[n], _] in a scope of k * 2^61 bytes then decodes k elements (each charged a
   destination, an append and a sub-scope reader) without consuming a single byte, so "a
   successful decode allocates at most fperbyte per CONSUMED byte plus ffoot" is false for it
   ([ex_success_bound_fails_unrestricted] below).  The invariant that proves the general bound
   contains that statement, hence the hypothesis; a scope below 2^61 bytes rules the case out
   for every type (such a list is then rejected before the first element).

   Internal vocabulary: [slen st] = bytes left in the stream (AllocProofs); [okresF P F st d r]
   = the outcome r of a flat decoder has allocated <= P * scope + P * slen st + F, and if it is
   a success, it has not un-read anything, its reader's scope has not grown and it has
   allocated <= P * (bytes it consumed) + F; [strictresF] = a success consumed >= 1 byte;
   [tinv t] = the invariant proved by induction on t.

   Contents
     1. readable views of the nested fixpoints of [flat_dec_a]; faithfulness
     2. reader facts
     3. the cost calculus for flat decoders: sub-scopes, series of items, container passes
     4. one lemma [tinv_<constructor>] per type constructor, [tinv_all]
     5. the statements of the flat block of Props/C20.v
     6. [fperbyte] / [ffoot] / [fnew] do not depend on list limits
     7. Examples (hostile input, successful decode, the counterexample) *)
From Coq Require Import PeanoNat ZArith ZifyN ZifyNat ZifyBool List.
From Ztyp Require Import Base Bitlen Bitfields Types Spec Reader Codec Alloc FlatAlloc
                         SizeProofs AllocProofs.
From Ztyp Require CodecProofs.
Import ListNotations.
Open Scope N_scope.

#[local] Ltac Zify.zify_post_hook ::= Z.div_mod_to_equations.

Local Arguments N.pow : simpl never.
Local Arguments N.shiftl : simpl never.
Local Arguments N.shiftr : simpl never.
Local Arguments N.mul : simpl never.
Local Arguments N.add : simpl never.
Local Arguments N.sub : simpl never.
Local Arguments N.div : simpl never.
Local Arguments N.modulo : simpl never.
Local Arguments N.of_nat : simpl never.
Local Arguments N.to_nat : simpl never.

(* every Bitvector[n] inside t has n + 7 < 2^64 *)
Fixpoint bitvectors_fit (t : ty) : bool :=
  match t with
  | TBitvector n => n + 7 <? two64
  | TVector e _ | TList e _ => bitvectors_fit e
  | TContainer fs => forallb bitvectors_fit fs
  | TUnion _ opts => forallb bitvectors_fit opts
  | _ => true
  end.

(* ------------------------------------------------------------------------------------ *)
(** * 1. Views of the nested fixpoints of [flat_dec_a]; faithfulness *)

Fixpoint roots_a (k : nat) (st : rstate) (d : dreader) : ares (val * ctree * rstate * dreader) :=
  match k with
  | O => alift (OK (VSeq [], CFresh, st, d))
  | S k' =>
    ado r <- alift (dr_read st d 32); let '(bs, st1, d1) := r in
    ado more <- roots_a k' st1 d1;
    match more with
    | (VSeq vs, c', st2, d2) => alift (OK (VSeq (VBytes bs :: vs), c', st2, d2))
    | _ => alift Err
    end
  end.

Section FieldsA.
  Variable dec : ty -> afdecoder.
  Variable c : ctree.
  Fixpoint fixed_fields_a (fs : list ty) (i : nat) (st : rstate) (d : dreader)
    : ares (list val * list ctree * rstate * dreader) :=
    match fs with
    | [] => alift (OK ([], [], st, d))
    | f :: fs' =>
      ado r <- dec f (ct_child c i) st d; let '(v, c1, st1, d1) := r in
      ado more <- fixed_fields_a fs' (S i) st1 d1; let '(vs, cs, st2, d2) := more in
      alift (OK (v :: vs, c1 :: cs, st2, d2))
    end.
End FieldsA.

Definition union_opt_a (sel : N) (st1 : rstate) (d1 : dreader) (o : ty)
  : ares (val * ctree * rstate * dreader) :=
  ado _ <- charge (fnew o);
  if negb (flat_fixed_len o =? 0) && negb (flat_fixed_len o =? dr_scope d1) then alift Err else
  ado r <- flat_dec_a o CFresh st1 d1; let '(v, _, st2, d2) := r in
  alift (OK (VUnion sel (Some v), CFresh, st2, d2)).

Lemma flat_dec_a_vector e n c st d :
  flat_dec_a (TVector e n) c st d =
  if is_byte_elem e then
    ado r <- d_bytes_a c n st d; let '(bs, c', st1, d1) := r in
    alift (OK (VSeq (map (fun b => VUint (N_of_byte b)) bs), c', st1, d1))
  else
    let fsz := flat_fixed_len e in
    ado _ <- charge c_clo;
    if negb (fsz =? 0) then
      ado r <- d_vector_fixed_a (flat_dec_a e) 0 c O (nat_of n) fsz st d; let '(vs, cs, st1) := r in
      alift (OK (VSeq vs, CNodes cs, st1, d))
    else
      let scope := dr_scope d in
      ado _ <- charge (8 * n);
      ado r <- alift (d_read_offsets (nat_of n) st d); let '(offs, st1, d1) := r in
      if negb (hd (mul64 4 n) offs =? mul64 4 n) then alift Err else
      ado r2 <- d_var_items_a (fun _ => flat_dec_a e) 0 c O offs scope 0 true st1 d1;
      let '(vs, cs, st2) := r2 in
      alift (OK (VSeq vs, CNodes cs, st2, d1)).
Proof. reflexivity. Qed.

Lemma flat_dec_a_list e n c st d :
  flat_dec_a (TList e n) c st d =
  let scope := dr_scope d in
  if is_byte_elem e then
    if n <? scope then alift Err else
    ado r <- d_bytes_a c scope st d; let '(bs, c', st1, d1) := r in
    alift (OK (VSeq (map (fun b => VUint (N_of_byte b)) bs), c', st1, d1))
  else if is_root_elem e then
    if negb (scope mod 32 =? 0) then alift Err else
    let len := scope / 32 in
    if n <? len then alift Err else
    ado _ <- charge (32 * len);
    roots_a (nat_of len) st d
  else
    ado _ <- charge c_clo;
    if scope =? 0 then alift (OK (VSeq [], CFresh, st, d))
    else
      let fsz := flat_fixed_len e in
      let pre := fnew e + c_grow in
      if negb (fsz =? 0) then
        if negb (scope mod fsz =? 0) then alift Err else
        let len := scope / fsz in
        if n <? len then alift Err else
        ado r <- d_vector_fixed_a (flat_dec_a e) pre CFresh O (nat_of len) fsz st d;
        let '(vs, _, st1) := r in
        alift (OK (VSeq vs, CFresh, st1, d))
      else
        ado r <- alift (dr_read_u32 st d); let '(first, st1, d1) := r in
        if negb (first mod 4 =? 0) then alift Err else
        let len := first / 4 in
        if n <? len then alift Err else
        if (first =? 0) || (scope <? first) then alift Err else
        ado _ <- charge (8 * len);
        ado r2 <- alift (d_read_offsets (nat_of (len - 1)) st1 d1); let '(offs, st2, d2) := r2 in
        ado r3 <- d_var_items_a (fun _ => flat_dec_a e) pre CFresh O (first :: offs) scope 0 false
                                st2 d2;
        let '(vs, _, st3) := r3 in
        alift (OK (VSeq vs, CFresh, st3, d2)).
Proof. reflexivity. Qed.

Lemma flat_dec_a_cont fs c st d :
  flat_dec_a (TContainer fs) c st d =
  ado _ <- charge (lenNn fs * c_slot);
  if forallb spec_is_fixed fs then
    ado x <- fixed_fields_a flat_dec_a c fs O st d;
    let '(vs, cs, st1, d1) := x in alift (OK (VCont vs, CNodes cs, st1, d1))
  else
    let scope := dr_scope d in
    ado _ <- charge (lenNn fs * c_grow);
    let decs := map (fun f => (flat_fixed_len f, flat_dec_a f)) fs in
    ado r <- d_cont_fixed_a decs c O 0 st d; let '(dfs, prev, st1, d1) := r in
    match first_var_off dfs with
    | None => alift Err
    | Some o0 =>
      if negb (prev =? o0) then alift Err else
      ado r2 <- d_cont_var_a (combine dfs (map flat_dec_a fs)) c O scope st1 d1;
      let '(vs, cs, st2) := r2 in
      alift (OK (VCont vs, CNodes cs, st2, d1))
    end.
Proof. reflexivity. Qed.

Lemma flat_dec_a_union none opts c st d :
  flat_dec_a (TUnion none opts) c st d =
  ado _ <- charge c_clo;
  ado r <- alift (dr_read_byte st d); let '(sel, st1, d1) := r in
  if none && (sel =? 0) then
    if negb (dr_scope d1 =? 0) then alift Err else alift (OK (VUnion 0 None, CFresh, st1, d1))
  else pick_ty (alift Err) (union_opt_a sel st1 d1) opts (nat_of (if none then sel - 1 else sel)).
Proof. reflexivity. Qed.

(* ---- faithfulness ---- *)
Definition faithfulF (da : afdecoder) (dd : fdecoder) : Prop :=
  forall c st d, fst (da c st d) = dd c st d.

Lemma in_sub_faithful da dd : faithfulF da dd -> forall c size st d,
  fst (in_sub_scope_a da c size st d) = in_sub_scope dd c size st d.
Proof.
  intros H c size st d. unfold in_sub_scope_a, in_sub_scope.
  repeat faith_step. apply H.
Qed.

Lemma vector_fixed_faithful da dd pre cs : faithfulF da dd -> forall count i size st d,
  fst (d_vector_fixed_a da pre cs i count size st d) = d_vector_fixed dd cs i count size st d.
Proof.
  intros H; induction count as [|k IH]; intros i size st d;
    cbn [d_vector_fixed_a d_vector_fixed]; [reflexivity|].
  repeat faith_step. - now apply in_sub_faithful. - repeat faith_step. apply IH.
Qed.

Lemma var_items_faithful (da : nat -> afdecoder) (dd : nat -> fdecoder) pre cs scope vs :
  (forall i, faithfulF (da i) (dd i)) -> forall offs i prev st d,
  fst (d_var_items_a da pre cs i offs scope prev vs st d) = d_var_items dd cs i offs scope prev vs st d.
Proof.
  intros H; induction offs as [|o rest IH]; intros i prev st d;
    cbn [d_var_items_a d_var_items]; [reflexivity|].
  destruct (o <? prev); [reflexivity|].
  repeat faith_step. - apply in_sub_faithful, H. - repeat faith_step. apply IH.
Qed.

Definition frelF {I} (a : I * afdecoder) (b : I * fdecoder) : Prop :=
  fst a = fst b /\ faithfulF (snd a) (snd b).

Lemma cont_fixed_faithful cs la ld : Forall2 frelF la ld -> forall i prev st d,
  fst (d_cont_fixed_a la cs i prev st d) = d_cont_fixed ld cs i prev st d.
Proof.
  induction 1 as [|[ia da] [id dd] la ld [E F] _ IH]; intros i prev st d;
    cbn [d_cont_fixed_a d_cont_fixed]; [reflexivity|].
  cbn [fst snd] in E, F. subst id. destruct (negb (ia =? 0)).
  - repeat faith_step. + now apply in_sub_faithful. + repeat faith_step. apply IH.
  - repeat faith_step. apply IH.
Qed.

Definition nextF_a (scope : N) := fix nxt (l : list (dfield * afdecoder)) : N :=
  match l with [] => scope | (DVar o, _) :: _ => o | _ :: l' => nxt l' end.
Definition nextF_d (scope : N) := fix nxt (l : list (dfield * fdecoder)) : N :=
  match l with [] => scope | (DVar o, _) :: _ => o | _ :: l' => nxt l' end.

Lemma nextF_faithful scope la ld : Forall2 frelF la ld -> nextF_a scope la = nextF_d scope ld.
Proof.
  induction 1 as [|[ca da] [cd dd] la ld [E _] _ IH]; [reflexivity|].
  cbn [fst] in E. subst cd. cbn [nextF_a nextF_d]. destruct ca; [exact IH|reflexivity].
Qed.

Lemma cont_var_faithful cs scope la ld : Forall2 frelF la ld -> forall i st d,
  fst (d_cont_var_a la cs i scope st d) = d_cont_var ld cs i scope st d.
Proof.
  induction 1 as [|[ca da] [cd dd] la ld [E F] HR IH]; intros i st d;
    cbn [d_cont_var_a d_cont_var]; [reflexivity|].
  cbn [fst snd] in E, F. subst cd. destruct ca as [v c|off].
  - repeat faith_step. apply IH.
  - change (fix nxt (l : list (dfield * afdecoder)) : N :=
              match l with [] => scope | (DVar o, _) :: _ => o | _ :: l' => nxt l' end)
      with (nextF_a scope).
    change (fix nxt (l : list (dfield * fdecoder)) : N :=
              match l with [] => scope | (DVar o, _) :: _ => o | _ :: l' => nxt l' end)
      with (nextF_d scope).
    rewrite (nextF_faithful scope _ _ HR).
    destruct (_ <? off); [reflexivity|].
    repeat faith_step. + now apply in_sub_faithful. + repeat faith_step. apply IH.
Qed.

Lemma frelF_combine {I} (fa : ty -> afdecoder) (fd : ty -> fdecoder) : forall fs (js : list I),
  Forall (fun f => faithfulF (fa f) (fd f)) fs ->
  Forall2 frelF (combine js (map fa fs)) (combine js (map fd fs)).
Proof.
  induction fs as [|f fs IH]; intros js H.
  - destruct js; constructor.
  - destruct js as [|j js]; [constructor|]. inversion H; subst. cbn [map combine].
    constructor; [split; [reflexivity|assumption]|]. now apply IH.
Qed.

Lemma frelF_decs (fa : ty -> afdecoder) (fd : ty -> fdecoder) : forall fs,
  Forall (fun f => faithfulF (fa f) (fd f)) fs ->
  Forall2 frelF (map (fun f => (flat_fixed_len f, fa f)) fs) (map (fun f => (flat_fixed_len f, fd f)) fs).
Proof.
  induction fs as [|f fs IH]; intros H; [constructor|]. inversion H; subst. cbn [map].
  constructor; [split; [reflexivity|assumption]|]. now apply IH.
Qed.

Lemma roots_faithful : forall k st d, fst (roots_a k st d) = CodecProofs.dec_roots k st d.
Proof.
  induction k as [|k IH]; intros st d; cbn [roots_a CodecProofs.dec_roots]; [reflexivity|].
  repeat faith_step. apply IH.
Qed.

Lemma fixed_fields_faithful c : forall fs,
  Forall (fun f => faithfulF (flat_dec_a f) (flat_dec f)) fs -> forall i st d,
  fst (fixed_fields_a flat_dec_a c fs i st d) = CodecProofs.dec_fixed_fields flat_dec c fs i st d.
Proof.
  induction fs as [|f fs IH]; intros H i st d; cbn [fixed_fields_a CodecProofs.dec_fixed_fields]; [reflexivity|].
  inversion H as [|? ? Hf Hfs]; subst.
  repeat faith_step. - apply Hf. - repeat faith_step. now apply IH.
Qed.

Lemma d_bytes_faithful c n st d : fst (d_bytes_a c n st d) = d_bytes c n st d.
Proof. unfold d_bytes_a. rewrite fst_charge_bind. reflexivity. Qed.

Theorem flat_instrumentation_faithful : forall t c st d,
  fst (flat_dec_a t c st d) = flat_dec t c st d.
Proof.
  induction t as [w| |n| |n|n|e n IHe|e n IHe|fs IHfs|none opts IHopts] using ty_ind';
    intros c st d.
  - cbn [flat_dec_a flat_dec]. repeat faith_step.
  - cbn [flat_dec_a flat_dec]. repeat faith_step.
  - cbn [flat_dec_a flat_dec]. repeat faith_step.
  - cbn [flat_dec_a flat_dec]. repeat faith_step.
  - cbn [flat_dec_a flat_dec]. repeat faith_step.
  - cbn [flat_dec_a flat_dec]. repeat faith_step.
  - rewrite flat_dec_a_vector, CodecProofs.flat_dec_vector. cbn zeta.
    destruct (is_byte_elem e); [repeat faith_step|].
    rewrite fst_charge_bind. destruct (negb (flat_fixed_len e =? 0)).
    + repeat faith_step. now apply vector_fixed_faithful.
    + repeat faith_step. apply var_items_faithful. intros _. exact IHe.
  - rewrite flat_dec_a_list, CodecProofs.flat_dec_list. cbn zeta.
    destruct (is_byte_elem e); [repeat faith_step|].
    destruct (is_root_elem e).
    { destruct (negb _); [reflexivity|]. destruct (n <? _); [reflexivity|].
      rewrite fst_charge_bind. apply roots_faithful. }
    rewrite fst_charge_bind. destruct (dr_scope d =? 0); [reflexivity|].
    destruct (negb (flat_fixed_len e =? 0)).
    + repeat faith_step. now apply vector_fixed_faithful.
    + repeat faith_step. apply var_items_faithful. intros _. exact IHe.
  - rewrite flat_dec_a_cont, CodecProofs.flat_dec_cont. cbn zeta.
    rewrite fst_charge_bind. destruct (forallb spec_is_fixed fs).
    + repeat faith_step. now apply fixed_fields_faithful.
    + rewrite fst_charge_bind. repeat faith_step.
      * apply cont_fixed_faithful, frelF_decs. exact IHfs.
      * repeat faith_step. apply cont_var_faithful, frelF_combine. exact IHfs.
  - rewrite flat_dec_a_union, CodecProofs.flat_dec_union.
    rewrite fst_charge_bind. repeat faith_step.
    rewrite !pick_ty_nth_error. destruct (nth_error opts _) as [o|] eqn:Hn; [|reflexivity].
    unfold union_opt_a, CodecProofs.dec_union_opt. rewrite fst_charge_bind.
    repeat faith_step. apply nth_error_In in Hn. rewrite Forall_forall in IHopts.
    apply (IHopts o Hn).
Qed.

Theorem flat_decode_faithful t c bs : fst (flat_decode_a t c bs) = flat_decode t c bs.
Proof.
  unfold flat_decode_a, flat_decode, new_reader. rewrite fst_charge_bind.
  repeat faith_step. apply flat_instrumentation_faithful.
Qed.

(* ------------------------------------------------------------------------------------ *)
(** * 2. reader facts (the others are in AllocProofs section 2) *)

Definition two61 : N := 2305843009213693952.
Lemma two61_eq : 2 ^ 61 = two61. Proof. reflexivity. Qed.

Lemma d_read_offsets_facts : forall count st d offs st' d',
  d_read_offsets count st d = OK (offs, st', d') ->
  slen st' + 4 * N.of_nat count = slen st /\ dr_scope d' + 4 * N.of_nat count = dr_scope d /\
  length offs = count.
Proof.
  induction count as [|k IH]; intros st d offs st' d' H; cbn [d_read_offsets] in H.
  - injection H as <- <- <-. cbn [length]. lia.
  - destruct (dr_read_u32 st d) as [[[off st1] d1]| |] eqn:E; cbn [bind] in H; try discriminate.
    destruct (d_read_offsets k st1 d1) as [[[offs2 st2] d2]| |] eqn:E2; cbn [bind] in H;
      try discriminate.
    injection H as <- <- <-. apply IH in E2. apply dr_read_u32_facts in E.
    cbn [length]. lia.
Qed.

Lemma d_bytes_facts c n st d bs c' st' d' :
  d_bytes c n st d = OK (bs, c', st', d') ->
  slen st' + n = slen st /\ dr_scope d' + n = dr_scope d.
Proof.
  unfold d_bytes. destruct (dr_read st d n) as [[[b s] dd]| |] eqn:E; cbn [bind]; try discriminate.
  intros H; injection H as <- <- <- <-. exact (dr_read_facts _ _ _ _ _ _ E).
Qed.

Ltac factsF :=
  facts;
  repeat match goal with
         | H : d_read_offsets _ _ _ = OK _ |- _ =>
             apply d_read_offsets_facts in H; destruct H as (? & ? & ?)
         | H : d_bytes _ _ _ _ = OK _ |- _ => apply d_bytes_facts in H; destruct H as [? ?]
         end.

(* ------------------------------------------------------------------------------------ *)
(** * 3. the cost calculus for flat decoders *)

(* [okresF P F st d r]: the outcome r of a flat decoder started in state st with reader d has
   allocated at most P bytes per byte of scope plus P bytes per byte left in the stream plus
   F; if it is a success, nothing is un-read, the scope of the reader it returns has not
   grown and it has allocated at most P bytes per consumed byte plus F *)
Definition okresF {A} (P F : N) (st : rstate) (d : dreader) (r : ares (A * rstate * dreader)) : Prop :=
  snd r <= P * dr_scope d + P * slen st + F /\
  (forall a st' d', fst r = OK (a, st', d') ->
     slen st' <= slen st /\ dr_scope d' <= dr_scope d /\
     snd r + P * slen st' <= P * slen st + F).
Definition strictresF {A} (st : rstate) (r : ares (A * rstate * dreader)) : Prop :=
  forall a st' d', fst r = OK (a, st', d') -> slen st' + 1 <= slen st.

(* a decoder is good / strict for all readers of scope <= B *)
Definition goodB (B P F : N) (dec : afdecoder) : Prop :=
  forall c st d, dr_scope d <= B -> okresF P F st d (dec c st d).
Definition strictB (B : N) (dec : afdecoder) : Prop :=
  forall c st d, dr_scope d <= B -> strictresF st (dec c st d).

Lemma okresF_mono {A} P F P' F' st d (r : ares (A * rstate * dreader)) :
  P <= P' -> F <= F' -> okresF P F st d r -> okresF P' F' st d r.
Proof.
  intros HP HF [G1 G2]. split.
  - pose proof (N.mul_le_mono_r _ _ (dr_scope d) HP). pose proof (N.mul_le_mono_r _ _ (slen st) HP).
    lia.
  - intros a st' d' E. destruct (G2 a st' d' E) as (L & S & C). split; [exact L|split; [exact S|]].
    assert (exists x, slen st = slen st' + x) as [x Hx] by (exists (slen st - slen st'); lia).
    rewrite Hx in *. rewrite N.mul_add_distr_l in *.
    pose proof (N.mul_le_mono_r _ _ x HP). lia.
Qed.

Lemma goodB_mono B P F P' F' dec : P <= P' -> F <= F' -> goodB B P F dec -> goodB B P' F' dec.
Proof. intros HP HF G c st d Hd. eapply okresF_mono; eauto. Qed.

Ltac err_case := split; cbn [fst snd alift]; [lia|discriminate].

Section Items.
Variables (B P F : N).

Section One.
Variable dec : afdecoder.
Hypothesis Hg : goodB B P F dec.

(* a decoder run in a sub-scope: the sub-scope reader is charged *)
Lemma in_sub_good c size st d : dr_scope d <= B ->
  okres P (F + c_sub) st d (in_sub_scope_a dec c size st d).
Proof.
  intros HB. unfold in_sub_scope_a.
  destruct (dr_sub_scope st d size) as [[st1 sd]| |] eqn:Hs; simp_abind; [|err_case..].
  destruct (dr_sub_scope_facts _ _ _ _ _ Hs) as (L1 & S1 & S2).
  pose proof (N.mul_le_mono_l _ _ P S2) as M.
  destruct (Hg c st1 sd ltac:(lia)) as [G1 G2]. rewrite S1, L1 in G1. rewrite L1 in G2.
  destruct (dec c st1 sd) as [[[[[v c'] st2] d2]| |] c1] eqn:Hd; cbn [fst snd] in G1, G2;
    simp_abind; [|err_case..].
  destruct (G2 _ _ _ eq_refl) as (G2a & _ & G2b).
  split; cbn [fst snd]; [lia|]. intros a st' HH; injection HH as <- <-. lia.
Qed.

Lemma in_sub_strict c size st d : dr_scope d <= B -> strictB B dec ->
  strictres st (in_sub_scope_a dec c size st d).
Proof.
  intros HB Hs. unfold in_sub_scope_a.
  destruct (dr_sub_scope st d size) as [[st1 sd]| |] eqn:Hss; simp_abind; [|intros ? ? HH; discriminate HH..].
  destruct (dr_sub_scope_facts _ _ _ _ _ Hss) as (L1 & S1 & S2).
  pose proof (Hs c st1 sd ltac:(lia)) as G.
  destruct (dec c st1 sd) as [[[[[v c'] st2] d2]| |] c1] eqn:Hd; simp_abind;
    [|intros ? ? HH; discriminate HH..].
  specialize (G _ _ _ eq_refl). intros a st' HH; injection HH as <- <-. cbn [fst]. lia.
Qed.

(* a series of fixed-size items, each in its own sub-scope, each preceded by [pre] *)
Lemma vector_fixed_good pre cs : forall count i size st d, dr_scope d <= B ->
  okres P (N.of_nat count * (F + c_sub + pre)) st d (d_vector_fixed_a dec pre cs i count size st d).
Proof.
  induction count as [|k IH]; intros i size st d HB; cbn [d_vector_fixed_a].
  { split; cbn [fst snd alift]; [lia|]. intros a st' H; injection H as <- <-. lia. }
  rewrite Nat2N.inj_succ, N.mul_succ_l. simp_abind.
  destruct (in_sub_good (ct_child cs i) size st d HB) as [G1 G2].
  destruct (in_sub_scope_a dec (ct_child cs i) size st d) as [[[[v c'] st1]| |] c1] eqn:Hd;
    cbn [fst snd] in G1, G2; simp_abind; [|err_case..].
  destruct (G2 _ _ eq_refl) as [G2a G2b].
  destruct (IH (S i) size st1 d HB) as [I1 I2].
  destruct (d_vector_fixed_a dec pre cs (S i) k size st1 d) as [[[[vs cs'] st2]| |] c2] eqn:Hr;
    cbn [fst snd] in I1, I2; simp_abind; [|err_case..].
  destruct (I2 _ _ eq_refl) as [I2a I2b]. split; cbn [fst snd]; [lia|].
  intros a st' H; injection H as <- <-. lia.
Qed.

Lemma vector_fixed_strict pre cs : strictB B dec -> forall count i size st d a st',
  dr_scope d <= B ->
  fst (d_vector_fixed_a dec pre cs i count size st d) = OK (a, st') ->
  slen st' + N.of_nat count <= slen st.
Proof.
  intros Hs. induction count as [|k IH]; intros i size st d a st' HB; cbn [d_vector_fixed_a].
  { cbn [fst alift]. intros H; injection H as <- <-. lia. }
  simp_abind.
  pose proof (in_sub_strict (ct_child cs i) size st d HB Hs) as S1.
  destruct (in_sub_scope_a dec (ct_child cs i) size st d) as [[[[v c'] st1]| |] c1] eqn:Hd;
    simp_abind; try discriminate.
  specialize (S1 _ _ eq_refl). specialize (IH (S i) size st1 d).
  destruct (d_vector_fixed_a dec pre cs (S i) k size st1 d) as [[[[vs cs'] st2]| |] c2] eqn:Hr;
    simp_abind; try discriminate.
  intros H; injection H as <- <-. specialize (IH _ _ HB eq_refl). lia.
Qed.
End One.

(* the item loop shared by Vector and List with variable-size items *)
Lemma var_items_good (decf : nat -> afdecoder) pre cs scope vstyle :
  (forall i, goodB B P F (decf i)) -> forall offs i prev st d, dr_scope d <= B ->
  okres P (N.of_nat (length offs) * (F + c_sub + pre)) st d
        (d_var_items_a decf pre cs i offs scope prev vstyle st d).
Proof.
  intros Hg. induction offs as [|o rest IH]; intros i prev st d HB; cbn [d_var_items_a].
  { split; cbn [fst snd alift]; [lia|]. intros a st' H; injection H as <- <-. cbn [length]. lia. }
  cbn [length]. rewrite Nat2N.inj_succ, N.mul_succ_l.
  destruct (o <? prev); [err_case|]. simp_abind.
  set (next := match rest with o' :: _ => o' | [] => scope end).
  destruct (in_sub_good (decf i) (Hg i) (ct_child cs i) (sub64 next o) st d HB) as [G1 G2].
  destruct (in_sub_scope_a (decf i) (ct_child cs i) (sub64 next o) st d)
    as [[[[v c'] st1]| |] c1] eqn:Hd; cbn [fst snd] in G1, G2; simp_abind; [|err_case..].
  destruct (G2 _ _ eq_refl) as [G2a G2b].
  destruct (IH (S i) (if vstyle then next else o) st1 d HB) as [I1 I2].
  destruct (d_var_items_a decf pre cs (S i) rest scope (if vstyle then next else o) vstyle st1 d)
    as [[[[vs cs'] st2]| |] c2] eqn:Hr; cbn [fst snd] in I1, I2; simp_abind; [|err_case..].
  destruct (I2 _ _ eq_refl) as [I2a I2b]. split; cbn [fst snd]; [lia|].
  intros a st' H; injection H as <- <-. lia.
Qed.
End Items.

(* ---- containers ---- *)
Definition isfx (f : ty) : bool := negb (flat_fixed_len f =? 0).
Definition maxPF (fs : list ty) : N := fold_right (fun f acc => N.max (fperbyte f) acc) 0 fs.
Definition sumFF (fs : list ty) : N := fold_right (fun f acc => ffoot f + acc) 0 fs.
Definition sumFixF (fs : list ty) : N :=
  fold_right (fun f acc => (if isfx f then ffoot f + c_sub else 0) + acc) 0 fs.
Definition sumVarF (fs : list ty) : N :=
  fold_right (fun f acc => (if isfx f then 0 else ffoot f + c_sub) + acc) 0 fs.

Lemma sumFixF_sumVarF fs : sumFixF fs + sumVarF fs = sumFF fs + lenNn fs * c_sub.
Proof.
  unfold lenNn. induction fs as [|f fs IH]; [reflexivity|].
  cbn [sumFixF sumVarF sumFF fold_right length].
  fold (sumFixF fs) (sumVarF fs) (sumFF fs). rewrite Nat2N.inj_succ. destruct (isfx f); lia.
Qed.

Lemma maxPF_In fs f : In f fs -> fperbyte f <= maxPF fs.
Proof.
  induction fs as [|g fs IH]; [intros []|]. cbn [maxPF fold_right In]. fold (maxPF fs).
  intros [->|H]; [lia|]. specialize (IH H). lia.
Qed.

Definition shapeF (dfs : list dfield) (fs : list ty) : Prop :=
  Forall2 (fun df f => match df with
                       | DFixed _ _ => isfx f = true
                       | DVar _ => isfx f = false
                       end) dfs fs.

Section ContF.
Variables (B Pm : N).

Lemma cont_fixed_good cs : forall fs,
  Forall (fun f => goodB B Pm (ffoot f) (flat_dec_a f)) fs ->
  forall i prev st d, dr_scope d <= B ->
  let r := d_cont_fixed_a (map (fun f => (flat_fixed_len f, flat_dec_a f)) fs) cs i prev st d in
  snd r <= Pm * dr_scope d + Pm * slen st + sumFixF fs /\
  (forall dfs p st' d', fst r = OK (dfs, p, st', d') ->
     slen st' <= slen st /\ dr_scope d' <= dr_scope d /\
     snd r + Pm * slen st' <= Pm * slen st + sumFixF fs /\ shapeF dfs fs).
Proof.
  induction fs as [|f fs IH]; intros HF i prev st d HB; cbn zeta;
    cbn [map d_cont_fixed_a sumFixF fold_right].
  { cbn [fst snd alift]. split; [lia|]. intros dfs p st' d' H; injection H as <- <- <- <-.
    repeat split; try lia. constructor. }
  fold (sumFixF fs). inversion HF as [|? ? Gf HF']; subst.
  fold (isfx f). destruct (isfx f) eqn:Fx.
  - destruct (in_sub_good B Pm (ffoot f) (flat_dec_a f) Gf (ct_child cs i) (flat_fixed_len f) st d HB)
      as [G1 G2].
    destruct (in_sub_scope_a (flat_dec_a f) (ct_child cs i) (flat_fixed_len f) st d)
      as [[[[v c'] st1]| |] c1] eqn:Hd; cbn [fst snd] in G1, G2; simp_abind;
      [|split; cbn [fst snd]; [lia|discriminate]..].
    destruct (G2 _ _ eq_refl) as [G2a G2b].
    destruct (IH HF' (S i) (add64 prev (flat_fixed_len f)) st1 d HB) as [I1 I2].
    destruct (d_cont_fixed_a _ cs (S i) (add64 prev (flat_fixed_len f)) st1 d)
      as [[[[[dfs p] st2] d2]| |] c2] eqn:Hr; cbn [fst snd] in I1, I2; simp_abind;
      [|split; cbn [fst snd]; [lia|discriminate]..].
    destruct (I2 _ _ _ _ eq_refl) as (I2a & I2b & I2c & I2d). split; cbn [fst snd]; [lia|].
    intros dfs' p' st' d' H; injection H as <- <- <- <-. repeat split; try lia.
    constructor; assumption.
  - destruct (dr_read_u32 st d) as [[[off st1] d1]| |] eqn:Hr; simp_abind;
      [|split; cbn [fst snd]; [lia|discriminate]..].
    apply dr_read_u32_facts in Hr. destruct Hr as [R1 R2].
    destruct (IH HF' (S i) (add64 prev 4) st1 d1 ltac:(lia)) as [I1 I2].
    assert (M1 : Pm * dr_scope d1 <= Pm * dr_scope d) by (apply N.mul_le_mono_l; lia).
    assert (M2 : Pm * slen st1 <= Pm * slen st) by (apply N.mul_le_mono_l; lia).
    destruct (d_cont_fixed_a _ cs (S i) (add64 prev 4) st1 d1)
      as [[[[[dfs p] st2] d2]| |] c2] eqn:Hrr; cbn [fst snd] in I1, I2; simp_abind;
      [|split; cbn [fst snd]; [lia|discriminate]..].
    destruct (I2 _ _ _ _ eq_refl) as (I2a & I2b & I2c & I2d). split; cbn [fst snd]; [lia|].
    intros dfs' p' st' d' H; injection H as <- <- <- <-. repeat split; try lia.
    constructor; assumption.
Qed.

Lemma cont_var_good cs scope : forall fs dfs,
  Forall (fun f => goodB B Pm (ffoot f) (flat_dec_a f)) fs -> shapeF dfs fs ->
  forall i st d, dr_scope d <= B ->
  okres Pm (sumVarF fs) st d (d_cont_var_a (combine dfs (map flat_dec_a fs)) cs i scope st d).
Proof.
  intros fs dfs HF HS. revert HF.
  induction HS as [|df f dfs fs Hdf HS IH]; intros HF i st d HB;
    cbn [map combine d_cont_var_a sumVarF fold_right].
  { split; cbn [fst snd alift]; [lia|]. intros a st' H; injection H as <- <-. lia. }
  fold (sumVarF fs). inversion HF as [|? ? Gf HF']; subst.
  destruct df as [v0 c0|off].
  - rewrite Hdf. destruct (IH HF' (S i) st d HB) as [I1 I2].
    destruct (d_cont_var_a _ cs (S i) scope st d) as [[[[vs cs'] st1]| |] c] eqn:Hr;
      cbn [fst snd] in I1, I2; simp_abind; [|err_case..].
    destruct (I2 _ _ eq_refl) as [I2a I2b]. split; cbn [fst snd]; [lia|].
    intros a st' H; injection H as <- <-. lia.
  - rewrite Hdf.
    match goal with |- context [if ?nx <? off then _ else _] => set (next := nx) end.
    destruct (next <? off); [err_case|].
    destruct (in_sub_good B Pm (ffoot f) (flat_dec_a f) Gf (ct_child cs i) (next - off) st d HB)
      as [G1 G2].
    destruct (in_sub_scope_a (flat_dec_a f) (ct_child cs i) (next - off) st d)
      as [[[[v c'] st1]| |] c1] eqn:Hd; cbn [fst snd] in G1, G2; simp_abind; [|err_case..].
    destruct (G2 _ _ eq_refl) as [G2a G2b].
    destruct (IH HF' (S i) st1 d HB) as [I1 I2].
    destruct (d_cont_var_a _ cs (S i) scope st1 d) as [[[[vs cs'] st2]| |] c2] eqn:Hr;
      cbn [fst snd] in I1, I2; simp_abind; [|err_case..].
    destruct (I2 _ _ eq_refl) as [I2a I2b]. split; cbn [fst snd]; [lia|].
    intros a st' H; injection H as <- <-. lia.
Qed.

(* FixedLenContainer: the fields are read straight from the container's reader *)
Lemma fixed_fields_good c : forall fs,
  Forall (fun f => goodB B Pm (ffoot f) (flat_dec_a f)) fs ->
  forall i st d, dr_scope d <= B ->
  okresF Pm (sumFF fs) st d (fixed_fields_a flat_dec_a c fs i st d).
Proof.
  induction fs as [|f fs IH]; intros HF i st d HB; cbn [fixed_fields_a sumFF fold_right].
  { split; cbn [fst snd alift]; [lia|]. intros a st' d' H; injection H as <- <- <-. lia. }
  fold (sumFF fs). inversion HF as [|? ? Gf HF']; subst.
  destruct (Gf (ct_child c i) st d HB) as [G1 G2].
  destruct (flat_dec_a f (ct_child c i) st d) as [[[[[v c1] st1] d1]| |] k1] eqn:Hd;
    cbn [fst snd] in G1, G2; simp_abind; [|err_case..].
  destruct (G2 _ _ _ eq_refl) as (G2a & G2b & G2c).
  destruct (IH HF' (S i) st1 d1 ltac:(lia)) as [I1 I2].
  assert (M1 : Pm * dr_scope d1 <= Pm * dr_scope d) by (apply N.mul_le_mono_l; lia).
  destruct (fixed_fields_a flat_dec_a c fs (S i) st1 d1) as [[[[[vs cs] st2] d2]| |] k2] eqn:Hr;
    cbn [fst snd] in I1, I2; simp_abind; [|err_case..].
  destruct (I2 _ _ _ eq_refl) as (I2a & I2b & I2c). split; cbn [fst snd]; [lia|].
  intros a st' d' H; injection H as <- <- <-. lia.
Qed.

Lemma fixed_fields_strict c : forall fs,
  Forall (fun f => goodB B Pm (ffoot f) (flat_dec_a f)) fs ->
  Exists (fun f => strictB B (flat_dec_a f)) fs ->
  forall i st d, dr_scope d <= B -> strictresF st (fixed_fields_a flat_dec_a c fs i st d).
Proof.
  induction fs as [|f fs IH]; intros HF HE i st d HB; [inversion HE|].
  cbn [fixed_fields_a]. inversion HF as [|? ? Gf HF']; subst.
  destruct (Gf (ct_child c i) st d HB) as [_ G2].
  assert (S1 : strictB B (flat_dec_a f) -> strictresF st (flat_dec_a f (ct_child c i) st d))
    by (intros Hs; apply Hs, HB).
  destruct (flat_dec_a f (ct_child c i) st d) as [[[[[v c1] st1] d1]| |] k1] eqn:Hd;
    cbn [fst snd] in G2; simp_abind; [|intros ? ? ? HH; discriminate HH..].
  destruct (G2 _ _ _ eq_refl) as (G2a & G2b & _).
  destruct (fixed_fields_good c fs HF' (S i) st1 d1 ltac:(lia)) as [_ I2].
  assert (S2 : Exists (fun f => strictB B (flat_dec_a f)) fs ->
               strictresF st1 (fixed_fields_a flat_dec_a c fs (S i) st1 d1))
    by (intros HE'; apply IH; [exact HF'|exact HE'|lia]).
  destruct (fixed_fields_a flat_dec_a c fs (S i) st1 d1) as [[[[[vs cs] st2] d2]| |] k2] eqn:Hr;
    cbn [fst snd] in I2; simp_abind; [|intros ? ? ? HH; discriminate HH..].
  destruct (I2 _ _ _ eq_refl) as (I2a & _).
  intros a st' d' H; cbn [fst] in H; injection H as <- <- <-.
  inversion HE as [? ? Hs|? ? HE']; subst.
  - specialize (S1 Hs _ _ _ eq_refl). lia.
  - specialize (S2 HE' _ _ _ eq_refl). lia.
Qed.
End ContF.

(* tree.ReadRootsLimited: nothing is allocated per root (the table was charged before) *)
Lemma roots_good : forall k st d,
  snd (roots_a k st d) = 0 /\
  (forall a st' d', fst (roots_a k st d) = OK (a, st', d') ->
     slen st' + 32 * N.of_nat k = slen st /\ dr_scope d' + 32 * N.of_nat k = dr_scope d).
Proof.
  induction k as [|k IH]; intros st d; cbn [roots_a].
  { cbn [fst snd alift]. split; [reflexivity|]. intros a st' d' H; injection H as <- <- <-. lia. }
  destruct (dr_read st d 32) as [[[bs st1] d1]| |] eqn:E; simp_abind;
    [|split; [reflexivity|discriminate]..].
  apply dr_read_facts in E. destruct E as [E1 E2].
  destruct (IH st1 d1) as [I1 I2].
  destruct (roots_a k st1 d1) as [[[[[v c'] st2] d2]| |] k2] eqn:Hr; cbn [fst snd] in I1, I2;
    simp_abind; [|split; cbn [fst snd]; [lia|discriminate]..].
  destruct (I2 _ _ _ eq_refl) as [I2a I2b]. subst k2.
  destruct v; cbn [fst snd alift]; (split; [reflexivity|]); try discriminate.
  intros a st' d' H; injection H as <- <- <-. lia.
Qed.

(* ------------------------------------------------------------------------------------ *)
(** * 4. the invariant, one lemma per type constructor *)

(* the type is free of wrapping bitvectors, or all scopes in sight are below 2^61 *)
Definition ok_at (t : ty) (B : N) : Prop := bitvectors_fit t = true \/ B < two61.

Definition tinv (t : ty) : Prop := forall B, ok_at t B -> forall c st d, dr_scope d <= B ->
  okresF (fperbyte t) (ffoot t) st d (flat_dec_a t c st d) /\
  (spec_is_fixed t = true -> spec_fixed_len t <> 0 -> ok_at t (spec_fixed_len t) ->
   strictresF st (flat_dec_a t c st d)).

Lemma ok_at_le t B B' : ok_at t B -> B' <= B -> ok_at t B'.
Proof. intros [H|H] L; [left; exact H|right; lia]. Qed.

Lemma tinv_good e B : tinv e -> ok_at e B -> goodB B (fperbyte e) (ffoot e) (flat_dec_a e).
Proof. intros IH HB c st d Hd. apply (IH B HB c st d Hd). Qed.

Lemma tinv_strict e B : tinv e -> ok_at e B ->
  spec_is_fixed e = true -> spec_fixed_len e <> 0 -> ok_at e (spec_fixed_len e) ->
  strictB B (flat_dec_a e).
Proof. intros IH HB Hfx Hnz Hok c st d Hd. apply (IH B HB c st d Hd); assumption. Qed.

Lemma tinv_of_okres t : spec_is_fixed t = false ->
  (forall B, ok_at t B -> forall c st d, dr_scope d <= B ->
     okresF (fperbyte t) (ffoot t) st d (flat_dec_a t c st d)) -> tinv t.
Proof. intros Hnf H B HB c st d Hd. split; [now apply (H B)|]. rewrite Hnf. discriminate. Qed.

(* the charge of a grow-or-reslice *)
Definition bcharge (c : ctree) (n : N) : N := if snd (ct_bytes c) <? n then n else 0.
Lemma bcharge_le c n : bcharge c n <= n.
Proof. unfold bcharge. destruct (_ <? _); lia. Qed.
Lemma d_bytes_a_eq c n st d : d_bytes_a c n st d = (d_bytes c n st d, bcharge c n).
Proof. unfold d_bytes_a. rewrite abind_charge. cbn [fst snd alift]. now rewrite N.add_0_r. Qed.

Ltac constsF := unfold c_fbasic, c_fobj, c_slot, c_grow, c_sub, c_clo in *.
Ltac difF := match goal with |- context [if ?c then _ else _] => destruct c eqn:? end.
Ltac monoF P a b := assert (P * a <= P * b) by (apply N.mul_le_mono_l; lia).

(* case split on a [d_bytes_a] *)
Ltac dbytes :=
  rewrite d_bytes_a_eq;
  match goal with
  | |- context [abind (d_bytes ?c ?n ?st ?d, _) _] =>
      pose proof (bcharge_le c n);
      let E := fresh "E" in destruct (d_bytes c n st d) as [[[[? ?] ?] ?]| |] eqn:E
  end; simp_abind; destr_pairs; simp_abind.

(* close a goal  okresF .. (r, c)  whose r is a constructor *)
Ltac finO :=
  unfold okresF; cbn [fst snd alift]; factsF; constsF;
  split; [ try lia | intros ? ? ? HH; try discriminate HH; injection HH as <- <- <-; try lia ].
(* close a goal  okresF .. (r, c) /\ (.. -> strictresF st (r, c))  whose r is a constructor *)
Ltac finF :=
  unfold okresF, strictresF; cbn [fst snd alift]; factsF; constsF;
  split; [ split; [ try lia | intros ? ? ? HH; try discriminate HH; injection HH as <- <- <-; try lia ]
         | intros Hfx Hnz Hok ? ? ? HH; try discriminate Hfx; try discriminate HH;
           injection HH as <- <- <-; try lia ].

Lemma tinv_uint w : tinv (TUint w).
Proof.
  intros B HB c st d Hd. cbn [flat_dec_a fperbyte ffoot spec_is_fixed spec_fixed_len].
  dres; finF.
Qed.

Lemma tinv_bool : tinv TBool.
Proof.
  intros B HB c st d Hd. cbn [flat_dec_a fperbyte ffoot spec_is_fixed spec_fixed_len].
  dres; [|finF..]. difF; finF.
Qed.

Lemma tinv_root : tinv TRoot.
Proof.
  intros B HB c st d Hd. cbn [flat_dec_a fperbyte ffoot spec_is_fixed spec_fixed_len].
  dres; finF.
Qed.

Lemma tinv_bytes n : tinv (TBytes n).
Proof.
  intros B HB c st d Hd. cbn [flat_dec_a fperbyte ffoot spec_is_fixed spec_fixed_len].
  dbytes; finF.
Qed.

Lemma bitvec_len n : ok_at (TBitvector n) ((n + 7) / 8) ->
  N.shiftr (wrap64 (n + 7)) 3 = (n + 7) / 8.
Proof.
  intros H. rewrite N.shiftr_div_pow2. change (2 ^ 3) with 8. unfold wrap64.
  rewrite N.mod_small; [reflexivity|].
  destruct H as [H|H]; [cbn [bitvectors_fit] in H; apply N.ltb_lt in H; exact H|].
  unfold two61, two64 in *. lia.
Qed.

Lemma tinv_bitvector n : tinv (TBitvector n).
Proof.
  intros B HB c st d Hd. cbn [flat_dec_a fperbyte ffoot spec_is_fixed spec_fixed_len].
  pose proof (bitvec_len n) as BL.
  set (k := N.shiftr (wrap64 (n + 7)) 3) in *.
  dbytes; [|finF..]. dres; finF; specialize (BL Hok); lia.
Qed.

Lemma tinv_bitlist n : tinv (TBitlist n).
Proof.
  apply tinv_of_okres; [reflexivity|].
  intros B HB c st d Hd. cbn [flat_dec_a fperbyte ffoot].
  difF; [finO|]. dbytes; [|finO..]. dres; finO.
Qed.

(* ---- vectors ---- *)
Lemma nat_of_id n : N.of_nat (nat_of n) = n.
Proof. unfold nat_of. apply N2Nat.id. Qed.

Lemma flat_fixed_len_fixed e : spec_is_fixed e = true -> flat_fixed_len e = spec_fixed_len e.
Proof. unfold flat_fixed_len. now intros ->. Qed.

Lemma tinv_vector e n : tinv e -> tinv (TVector e n).
Proof.
  intros IH B HB c st d Hd. rewrite flat_dec_a_vector. cbn [fperbyte ffoot]. cbn zeta.
  assert (HBe : ok_at e B) by exact HB.
  destruct (is_byte_elem e) eqn:BE.
  - apply CodecProofs.is_byte_elem_eq in BE. subst e. cbn [spec_is_fixed spec_fixed_len].
    dbytes; finF.
  - pose proof (tinv_good e B IH HBe) as Ge. simp_abind.
    destruct (N.eqb_spec (flat_fixed_len e) 0) as [Z|Z]; cbn [negb].
    + (* variable-size items: the offset table first *)
      split.
      2:{ cbn [spec_is_fixed spec_fixed_len]. intros Hfx Hnz _. exfalso. apply Hnz.
          rewrite Hfx. rewrite (flat_fixed_len_fixed e Hfx) in Z. rewrite Z. lia. }
      simp_abind. dres; [|finO..]. difF; [finO|].
      match goal with |- context [d_var_items_a ?a ?p ?cs ?i ?offs ?sc ?pv ?vs ?s ?dd] =>
        destruct (var_items_good B _ _ a p cs sc vs (fun _ => Ge) offs i pv s dd
                    ltac:(factsF; lia)) as [S1 S2];
        destruct (d_var_items_a a p cs i offs sc pv vs s dd) as [[[[vs' cs'] st2]| |] c2] eqn:Hser
      end; cbn [fst snd] in S1, S2; simp_abind; factsF;
      match goal with H : length _ = _ |- _ => rewrite H in * end;
      rewrite nat_of_id in *;
      match goal with H1 : dr_scope ?d1 + _ = dr_scope d, H2 : slen ?s1 + _ = slen st |- _ =>
        monoF (fperbyte e) (dr_scope d1) (dr_scope d); monoF (fperbyte e) (slen s1) (slen st)
      end.
      2,3: finO.
      destruct (S2 _ _ eq_refl) as [S2a S2b]. finO.
    + (* fixed-size items *)
      destruct (vector_fixed_good B _ _ _ Ge 0 c (nat_of n) O (flat_fixed_len e) st d Hd) as [S1 S2].
      pose proof (fun Hs => vector_fixed_strict B (flat_dec_a e) 0 c Hs (nat_of n) O
                              (flat_fixed_len e) st d) as S3.
      rewrite nat_of_id in *.
      destruct (d_vector_fixed_a (flat_dec_a e) 0 c O (nat_of n) (flat_fixed_len e) st d)
        as [[[[vs cs] st1]| |] c1] eqn:Hser; cbn [fst snd] in S1, S2; simp_abind; [|finF..].
      destruct (S2 _ _ eq_refl) as [S2a S2b]. finF.
      cbn [spec_is_fixed spec_fixed_len] in Hfx, Hnz, Hok. rewrite Hfx in Hnz, Hok.
      assert (Hn : n <> 0 /\ spec_fixed_len e <> 0) by (split; intros Q; rewrite Q in Hnz; lia).
      assert (Hoke : ok_at e (spec_fixed_len e)).
      { apply (ok_at_le e _ _ Hok). destruct Hn as [Hn1 Hn2]. nia. }
      specialize (S3 (tinv_strict e B IH HBe Hfx (proj2 Hn) Hoke) _ _ Hd eq_refl). lia.
Qed.

(* ---- lists ---- *)
Lemma div_exact_facts s f : f <> 0 -> s mod f = 0 -> s <> 0 ->
  1 <= s / f /\ s / f <= s /\ f <= s.
Proof.
  intros Hf Hm Hs. pose proof (N.div_mod s f Hf) as D. rewrite Hm, N.add_0_r in D.
  set (q := s / f) in *. destruct (N.eq_dec q 0) as [Q|Q]; [rewrite Q in D; lia|]. nia.
Qed.

(* X = what one item costs besides its own decoding; Pe = per byte cost of an item *)
Lemma arith_list_1 (Pe X s s2 L L2 len : N) :
  s2 <= s -> L2 <= L -> len <= s ->
  Pe * s2 + Pe * L2 + len * X + 8 * len <= (X + Pe + 8) * s + (X + Pe + 8) * L.
Proof.
  intros H1 H2 H3.
  pose proof (N.mul_le_mono_l s2 s Pe H1). pose proof (N.mul_le_mono_l L2 L Pe H2).
  pose proof (N.mul_le_mono_r len s X H3).
  pose proof (N.le_0_l (X * L)). lia.
Qed.

Lemma arith_list_2 (Pe X L L2 L3 len c2 : N) :
  L3 + len <= L -> L3 <= L2 -> L2 <= L -> c2 + Pe * L3 <= Pe * L2 + len * X ->
  c2 + 8 * len + (X + Pe + 8) * L3 <= (X + Pe + 8) * L.
Proof.
  intros H1 H2 H3 H4.
  assert (exists y, L = L3 + len + y) as [y ->] by (exists (L - L3 - len); lia).
  assert (exists z, L2 = L3 + z) as [z ->] by (exists (L2 - L3); lia).
  assert (Hz : z <= len + y) by lia.
  pose proof (N.mul_le_mono_l _ _ Pe Hz).
  pose proof (N.le_0_l (X * y)). pose proof (N.le_0_l (Pe * y)). lia.
Qed.

Lemma tinv_list e n : tinv e -> tinv (TList e n).
Proof.
  intros IH. apply tinv_of_okres; [reflexivity|].
  intros B HB c st d Hd. rewrite flat_dec_a_list. cbn [fperbyte ffoot]. cbn zeta.
  assert (HBe : ok_at e B) by exact HB.
  destruct (is_byte_elem e) eqn:BE; cbn [orb].
  { (* ByteList: one grow-or-reslice of the whole scope *)
    difF; [finO|]. dbytes; finO. }
  destruct (is_root_elem e) eqn:RE.
  { (* tree.ReadRootsLimited *)
    difF; [finO|]. difF; [finO|]. simp_abind.
    set (len := dr_scope d / 32) in *.
    destruct (roots_good (nat_of len) st d) as [R1 R2]. rewrite nat_of_id in R2.
    destruct (roots_a (nat_of len) st d) as [[[[[v c'] st1] d1]| |] k] eqn:Hr;
      cbn [fst snd] in R1, R2; subst k; [|finO..].
    destruct (R2 _ _ _ eq_refl) as [R2a R2b]. finO. }
  simp_abind. destruct (N.eqb_spec (dr_scope d) 0) as [Z|Z]; [finO|].
  pose proof (tinv_good e B IH HBe) as Ge.
  set (X := ffoot e + c_sub + (fnew e + c_grow)) in *.
  assert (HP : fnew e + ffoot e + fperbyte e + c_grow + c_sub + 8 = X + fperbyte e + 8)
    by (unfold X; lia).
  rewrite HP. clear HP.
  destruct (N.eqb_spec (flat_fixed_len e) 0) as [Zf|Zf]; cbn [negb].
  - (* variable-size items: the first offset gives the length *)
    dres; [|finO..].
    match goal with E : dr_read_u32 st d = OK (?f, ?s1, ?dd1) |- _ =>
      rename f into first; rename s1 into st1; rename dd1 into d1 end.
    difF; [finO|]. difF; [finO|]. difF; [finO|]. simp_abind.
    set (len := first / 4) in *.
    assert (Hfirst : first = 4 * len /\ 1 <= len /\ first <= dr_scope d) by (unfold len; lia).
    pose proof (arith_list_1 (fperbyte e) X (dr_scope d) 0 (slen st) 0 len
                  ltac:(lia) ltac:(lia) ltac:(lia)) as A0.
    dres; [|clearbody X; finO..].
    match goal with E : d_read_offsets _ st1 d1 = OK (?o, ?s2, ?dd2) |- _ =>
      rename o into offs; rename s2 into st2; rename dd2 into d2 end.
    match goal with |- context [d_var_items_a ?a ?p ?cs ?i ?ofs ?sc ?pv ?vs ?s ?dd] =>
      destruct (var_items_good B _ _ a p cs sc vs (fun _ => Ge) ofs i pv s dd
                  ltac:(factsF; lia)) as [S1 S2];
      destruct (d_var_items_a a p cs i ofs sc pv vs s dd) as [[[[vs' cs'] st3]| |] c3] eqn:Hser
    end; cbn [fst snd] in S1, S2; simp_abind; factsF.
    all: assert (HL : N.of_nat (length (first :: offs)) = len)
           by (cbn [length]; match goal with H : length _ = nat_of _ |- _ => rewrite H end;
               unfold nat_of; lia);
         rewrite HL in *; unfold nat_of in *; fold X in S1, S2;
         pose proof (arith_list_1 (fperbyte e) X (dr_scope d) (dr_scope d2)
                       (slen st) (slen st2) len ltac:(lia) ltac:(lia) ltac:(lia)) as A1.
    2,3: clearbody X; finO.
    destruct (S2 _ _ eq_refl) as [S2a S2b].
    pose proof (arith_list_2 (fperbyte e) X (slen st) (slen st2) (slen st3) len c3
                  ltac:(lia) S2a ltac:(lia) S2b) as A2.
    clearbody X. finO.
  - (* fixed-size items *)
    difF; [finO|]. difF; [finO|].
    set (fsz := flat_fixed_len e) in *. set (len := dr_scope d / fsz) in *.
    assert (Hm : dr_scope d mod fsz = 0) by lia.
    destruct (div_exact_facts (dr_scope d) fsz Zf Hm Z) as (L1 & L2 & L3). fold len in L1, L2.
    destruct (vector_fixed_good B _ _ _ Ge (fnew e + c_grow) CFresh (nat_of len) O fsz st d Hd)
      as [S1 S2].
    assert (Hfx : spec_is_fixed e = true).
    { unfold fsz, flat_fixed_len in Zf. destruct (spec_is_fixed e); [reflexivity|congruence]. }
    assert (Hfl : fsz = spec_fixed_len e) by (apply flat_fixed_len_fixed, Hfx).
    assert (Hoke : ok_at e (spec_fixed_len e)).
    { rewrite <- Hfl. apply (ok_at_le e B); [exact HBe|lia]. }
    pose proof (vector_fixed_strict B (flat_dec_a e) (fnew e + c_grow) CFresh
                  (tinv_strict e B IH HBe Hfx ltac:(congruence) Hoke) (nat_of len) O fsz st d) as S3.
    rewrite nat_of_id in *. fold X in S1, S2.
    pose proof (arith_list_1 (fperbyte e) X (dr_scope d) (dr_scope d)
                  (slen st) (slen st) len ltac:(lia) ltac:(lia) L2) as A1.
    destruct (d_vector_fixed_a (flat_dec_a e) (fnew e + c_grow) CFresh O (nat_of len) fsz st d)
      as [[[[vs cs] st1]| |] c1] eqn:Hser; cbn [fst snd] in S1, S2; simp_abind;
      [|clearbody X; finO..].
    destruct (S2 _ _ eq_refl) as [S2a S2b]. specialize (S3 _ _ Hd eq_refl).
    pose proof (arith_list_2 (fperbyte e) X (slen st) (slen st) (slen st1) len c1
                  S3 S2a ltac:(lia) S2b) as A2.
    clearbody X. finO.
Qed.

(* ---- containers ---- *)
Lemma ok_at_In fs B : forallb bitvectors_fit fs = true \/ B < two61 ->
  forall f, In f fs -> ok_at f B.
Proof.
  intros [H|H] f Hin; [left|right; exact H]. rewrite forallb_forall in H. apply H, Hin.
Qed.

Lemma sumN_nonzero {A} (g : A -> N) : forall l, sumN (map g l) <> 0 ->
  exists x, In x l /\ g x <> 0 /\ g x <= sumN (map g l).
Proof.
  induction l as [|a l IH]; cbn [map sumN fold_right]; [intros H; now elim H|].
  fold (sumN (map g l)). intros H. destruct (N.eq_dec (g a) 0) as [Z|Z].
  - destruct IH as (x & Hin & Hx & Hle); [lia|]. exists x. repeat split; [now right|exact Hx|lia].
  - exists a. repeat split; [now left|exact Z|lia].
Qed.

Lemma tinv_container fs : Forall tinv fs -> tinv (TContainer fs).
Proof.
  intros IH B HB c st d Hd. rewrite flat_dec_a_cont. cbn [fperbyte ffoot]. cbn zeta.
  fold (maxPF fs) (sumFF fs).
  pose proof (ok_at_In fs B HB) as HBf.
  assert (HG : Forall (fun f => goodB B (maxPF fs) (ffoot f) (flat_dec_a f)) fs).
  { rewrite Forall_forall in *. intros f Hin.
    eapply goodB_mono; [apply maxPF_In, Hin|apply N.le_refl|].
    apply tinv_good; [apply IH, Hin|apply HBf, Hin]. }
  pose proof (sumFixF_sumVarF fs) as HSum.
  simp_abind. cbn [spec_is_fixed]. destruct (forallb spec_is_fixed fs) eqn:FX.
  - (* FixedLenContainer *)
    destruct (fixed_fields_good B (maxPF fs) c fs HG O st d Hd) as [A1 A2].
    pose proof (fun HE => fixed_fields_strict B (maxPF fs) c fs HG HE O st d Hd) as A3.
    destruct (fixed_fields_a flat_dec_a c fs O st d) as [[[[[vs cs] st1] d1]| |] k1] eqn:H1;
      cbn [fst snd] in A1, A2; simp_abind; [|finF..].
    destruct (A2 _ _ _ eq_refl) as (A2a & A2b & A2c). finF.
    cbn [spec_fixed_len] in Hnz, Hok. rewrite FX in Hnz, Hok.
    destruct (sumN_nonzero spec_fixed_len fs Hnz) as (f & Hin & Hf & Hle).
    assert (HE : Exists (fun f => strictB B (flat_dec_a f)) fs).
    { apply Exists_exists. exists f. split; [exact Hin|].
      rewrite Forall_forall in IH. rewrite forallb_forall in FX.
      apply tinv_strict; [apply IH, Hin|apply HBf, Hin|apply FX, Hin|exact Hf|].
      apply (ok_at_In fs (spec_fixed_len f)); [|exact Hin].
      destruct Hok as [Hok|Hok]; [left; exact Hok|right; lia]. }
    specialize (A3 HE _ _ _ eq_refl). lia.
  - (* Container with offsets *)
    split; [|intros Hfx; discriminate Hfx].
    simp_abind.
    destruct (cont_fixed_good B (maxPF fs) c fs HG O 0 st d Hd) as [A1 A2].
    destruct (d_cont_fixed_a _ c O 0 st d) as [[[[[dfs p] st1] d1]| |] k1] eqn:H1;
      cbn [fst snd] in A1, A2; simp_abind; [|finO..].
    destruct (A2 _ _ _ _ eq_refl) as (A2a & A2b & A2c & A2d).
    destruct (first_var_off dfs) as [o0|]; [|finO].
    difF; [finO|].
    destruct (cont_var_good B (maxPF fs) c (dr_scope d) fs dfs HG A2d O st1 d1 ltac:(lia)) as [B1 B2].
    monoF (maxPF fs) (dr_scope d1) (dr_scope d).
    destruct (d_cont_var_a _ c O (dr_scope d) st1 d1) as [[[[vs cs] st2]| |] k2] eqn:H2;
      cbn [fst snd] in B1, B2; simp_abind; [|finO..].
    destruct (B2 _ _ eq_refl) as [B2a B2b]. finO.
Qed.

(* ---- unions ---- *)
Definition maxNF (opts : list ty) : N := fold_right (fun o acc => N.max (fnew o + ffoot o) acc) 0 opts.
Lemma maxNF_In opts o : In o opts -> fnew o + ffoot o <= maxNF opts.
Proof.
  induction opts as [|g fs IH]; [intros []|]. cbn [maxNF fold_right In]. fold (maxNF fs).
  intros [->|H]; [lia|]. specialize (IH H). lia.
Qed.

Lemma tinv_union none opts : Forall tinv opts -> tinv (TUnion none opts).
Proof.
  intros IH. apply tinv_of_okres; [reflexivity|].
  intros B HB c st d Hd. rewrite flat_dec_a_union. cbn [fperbyte ffoot].
  fold (maxPF opts) (maxNF opts).
  pose proof (ok_at_In opts B HB) as HBo.
  simp_abind. dres; [|finO..]. difF.
  { difF; finO. }
  rewrite pick_ty_nth_error. destruct (nth_error opts _) as [o|] eqn:Hn; [|finO].
  apply nth_error_In in Hn. pose proof (maxNF_In opts o Hn) as HF. pose proof (maxPF_In opts o Hn) as HP.
  unfold union_opt_a. simp_abind. difF; [finO|].
  rewrite Forall_forall in IH.
  match goal with |- context [flat_dec_a o CFresh ?s ?dd] =>
    destruct (okresF_mono _ _ (maxPF opts) (ffoot o) s dd _ HP (N.le_refl _)
                (tinv_good o B (IH o Hn) (HBo o Hn) CFresh s dd ltac:(factsF; lia))) as [G1 G2];
    destruct (flat_dec_a o CFresh s dd) as [[[[[v c'] st2] d2]| |] k] eqn:Ho
  end; cbn [fst snd] in G1, G2; simp_abind; factsF;
  match goal with H1 : dr_scope ?d1 + 1 = dr_scope d, H2 : slen ?s1 + 1 = slen st |- _ =>
    monoF (maxPF opts) (dr_scope d1) (dr_scope d); monoF (maxPF opts) (slen s1) (slen st)
  end.
  2,3: finO.
  destruct (G2 _ _ _ eq_refl) as (G2a & G2b & G2c). finO.
Qed.

(** the invariant holds for every type *)
Theorem tinv_all : forall t, tinv t.
Proof.
  induction t using ty_ind'.
  - apply tinv_uint. - apply tinv_bool. - apply tinv_bytes. - apply tinv_root.
  - apply tinv_bitvector. - apply tinv_bitlist.
  - now apply tinv_vector. - now apply tinv_list.
  - now apply tinv_container. - now apply tinv_union.
Qed.

(* ------------------------------------------------------------------------------------ *)
(** * 5. the statements of the flat block of Props/C20.v *)

Notation lenN := Spec.lenN.

(* a. the instrumented decoder computes the same result: [flat_instrumentation_faithful],
      [flat_decode_faithful] above *)

Lemma ok_at_of_hyp t d : bitvectors_fit t = true \/ dr_scope d < 2 ^ 61 -> ok_at t (dr_scope d).
Proof. rewrite two61_eq. exact (fun H => H). Qed.

(* b. the bound: no list limit occurs in [fperbyte] / [ffoot] *)
Theorem flat_alloc_bound_gen t c st d :
  bitvectors_fit t = true \/ dr_scope d < 2 ^ 61 ->
  snd (flat_dec_a t c st d) <= fperbyte t * (dr_scope d + lenN (r_stream st)) + ffoot t.
Proof.
  intros H. destruct (tinv_all t _ (ok_at_of_hyp t d H) c st d (N.le_refl _)) as [[G _] _].
  rewrite N.mul_add_distr_l. exact G.
Qed.

Theorem flat_alloc_bound t c st d : bitvectors_fit t = true ->
  snd (flat_dec_a t c st d) <= fperbyte t * (dr_scope d + lenN (r_stream st)) + ffoot t.
Proof. intros H. apply flat_alloc_bound_gen. now left. Qed.

Theorem flat_alloc_bound_small_scope t c st d : dr_scope d < 2 ^ 61 ->
  snd (flat_dec_a t c st d) <= fperbyte t * (dr_scope d + lenN (r_stream st)) + ffoot t.
Proof. intros H. apply flat_alloc_bound_gen. now right. Qed.

(* on success the allocation is bounded by the bytes actually consumed *)
Theorem flat_alloc_bound_success t c st d v c' st' d' :
  bitvectors_fit t = true \/ dr_scope d < 2 ^ 61 ->
  fst (flat_dec_a t c st d) = OK (v, c', st', d') ->
  lenN (r_stream st') <= lenN (r_stream st) /\
  snd (flat_dec_a t c st d)
    <= fperbyte t * (lenN (r_stream st) - lenN (r_stream st')) + ffoot t.
Proof.
  intros H E. destruct (tinv_all t _ (ok_at_of_hyp t d H) c st d (N.le_refl _)) as [[_ G] _].
  destruct (G _ _ _ E) as (L & _ & C).
  change (lenN (r_stream st)) with (slen st). change (lenN (r_stream st')) with (slen st').
  split; [exact L|].
  assert (exists x, slen st = slen st' + x) as [x Hx] by (exists (slen st - slen st'); lia).
  rewrite Hx in *. replace (slen st' + x - slen st') with x by lia.
  rewrite N.mul_add_distr_l in C. lia.
Qed.

(* top level: a fresh destination and the reader of NewDecodingReader are charged too *)
Theorem flat_alloc_bound_top_gen t c bs :
  bitvectors_fit t = true \/ lenN bs < 2 ^ 61 ->
  snd (flat_decode_a t c bs) <= 2 * fperbyte t * lenN bs + (fnew t + c_sub + ffoot t).
Proof.
  intros H. unfold flat_decode_a, new_reader.
  set (st := mkRS bs [lenN bs]). set (d := mkDR 0 (lenN bs) [0%nat]).
  assert (Hs : dr_scope d = lenN bs) by (unfold dr_scope, d; cbn [d_max d_i]; lia).
  pose proof (flat_alloc_bound_gen t c st d ltac:(rewrite Hs; exact H)) as G.
  rewrite Hs in G. change (r_stream st) with bs in G.
  rewrite abind_charge. cbn [snd]. rewrite snd_abind.
  destruct (fst (flat_dec_a t c st d)) as [[[[v c'] st'] d']| |]; cbn [snd alift]; lia.
Qed.

Theorem flat_alloc_bound_top t c bs : bitvectors_fit t = true ->
  snd (flat_decode_a t c bs) <= 2 * fperbyte t * lenN bs + (fnew t + c_sub + ffoot t).
Proof. intros H. apply flat_alloc_bound_top_gen. now left. Qed.

Theorem flat_alloc_bound_top_small t c bs : lenN bs < 2 ^ 61 ->
  snd (flat_decode_a t c bs) <= 2 * fperbyte t * lenN bs + (fnew t + c_sub + ffoot t).
Proof. intros H. apply flat_alloc_bound_top_gen. now right. Qed.

(* types whose parameters are below 2^56 (Repr.small_params) have fitting bitvectors *)
Lemma small_params_bitvectors_fit : forall t, Repr.small_params t = true -> bitvectors_fit t = true.
Proof.
  induction t as [w| |n| |n|n|e n IHe|e n IHe|fs IHfs|none opts IHopts] using ty_ind';
    cbn [Repr.small_params bitvectors_fit]; try reflexivity.
  - intros H. apply N.leb_le in H. apply N.ltb_lt.
    assert (2 ^ 56 = 72057594037927936) as E by reflexivity. rewrite E in H. unfold two64. lia.
  - intros H. apply andb_true_iff in H. now apply IHe.
  - intros H. apply andb_true_iff in H. now apply IHe.
  - intros H. rewrite forallb_forall in *. rewrite Forall_forall in IHfs. intros f Hin.
    apply IHfs; [exact Hin|apply H, Hin].
  - intros H. rewrite forallb_forall in *. rewrite Forall_forall in IHopts. intros f Hin.
    apply IHopts; [exact Hin|apply H, Hin].
Qed.

(* ------------------------------------------------------------------------------------ *)
(** * 6. the bound functions and [fnew] do not depend on any list limit *)

Lemma erase_byte_elem e : is_byte_elem (erase_limits e) = is_byte_elem e.
Proof. destruct e; reflexivity. Qed.
Lemma erase_root_elem e : is_root_elem (erase_limits e) = is_root_elem e.
Proof. destruct e; reflexivity. Qed.

Theorem flat_bound_limit_free : forall t,
  fperbyte (erase_limits t) = fperbyte t /\ ffoot (erase_limits t) = ffoot t /\
  fnew (erase_limits t) = fnew t.
Proof.
  induction t as [w| |n| |n|n|e n IHe|e n IHe|fs IHfs|none opts IHopts] using ty_ind';
    cbn [erase_limits fperbyte ffoot fnew]; try (repeat split; reflexivity).
  - rewrite erase_byte_elem. destruct IHe as (-> & -> & ->). repeat split; reflexivity.
  - rewrite erase_byte_elem, erase_root_elem. destruct IHe as (-> & -> & ->).
    repeat split; reflexivity.
  - unfold lenNn. rewrite map_length.
    induction IHfs as [|f fs (Hp & Hf & Hn) _ IH]; [repeat split; reflexivity|].
    cbn [map fold_right length]. destruct IH as (IH1 & IH2 & IH3). rewrite Hp, Hf, Hn, IH1.
    split; [reflexivity|]. cbn [length] in *. split; lia.
  - induction IHopts as [|f fs (Hp & Hf & Hn) _ IH]; [repeat split; reflexivity|].
    cbn [map fold_right]. destruct IH as (IH1 & IH2 & IH3). rewrite Hp, Hf, Hn, IH1.
    repeat split; try reflexivity. lia.
Qed.

(* ------------------------------------------------------------------------------------ *)
(** * 7. Examples (non-vacuity) *)

(* a list of byte lists, both limits 2^40 (AllocProofs.ex_T2); hostile first offset
   0x0ffffffc (AllocProofs.ex_hostile): the decoder fails after allocating 176 bytes (the
   destination 48, the top-level reader 96, the add closure 32; nothing proportional to the
   offset) while the bound for 4 bytes of input is 2240 and the limits are 2^40 *)
Example ex_flat_hostile_alloc :
  fst (flat_decode_a ex_T2 CFresh ex_hostile) = Err /\
  snd (flat_decode_a ex_T2 CFresh ex_hostile) = 176 /\
  2 * fperbyte ex_T2 * lenN ex_hostile + (fnew ex_T2 + c_sub + ffoot ex_T2) = 2240.
Proof. vm_compute. repeat split; reflexivity. Qed.

(* the second offset lies: the first element claims 4 GiB *)
Example ex_flat_lying_alloc :
  fst (flat_decode_a ex_T2 CFresh ex_lying) = Err /\
  snd (flat_decode_a ex_T2 CFresh ex_lying) = 304.
Proof. vm_compute. split; reflexivity. Qed.

(* a successful decode (two empty inner lists) with a positive charge below the bound *)
Example ex_flat_success_alloc :
  is_ok (fst (flat_decode_a ex_T2 CFresh ex_two_empty)) = true /\
  snd (flat_decode_a ex_T2 CFresh ex_two_empty) = 608 /\
  2 * fperbyte ex_T2 * lenN ex_two_empty + (fnew ex_T2 + c_sub + ffoot ex_T2) = 4296 /\
  bitvectors_fit ex_T2 = true.
Proof. vm_compute. repeat split; reflexivity. Qed.

(* the hypotheses of [flat_alloc_bound_success] are satisfiable *)
Example ex_flat_success_hyp :
  bitvectors_fit ex_T2 = true /\
  exists v c' st' d',
    fst (flat_dec_a ex_T2 CFresh (mkRS ex_two_empty [8]) (mkDR 0 8 [0%nat])) = OK (v, c', st', d').
Proof. split; [reflexivity|]. eexists _, _, _, _. vm_compute. reflexivity. Qed.

(* a container with a uint64, a list of lists and a bitlist, all limits huge (AllocProofs.ex_T3) *)
Example ex_flat_container_alloc :
  is_ok (fst (flat_decode_a ex_T3 CFresh ex_c3)) = true /\
  snd (flat_decode_a ex_T3 CFresh ex_c3) <= 2 * fperbyte ex_T3 * lenN ex_c3 + (fnew ex_T3 + c_sub + ffoot ex_T3) /\
  0 < snd (flat_decode_a ex_T3 CFresh ex_c3).
Proof. vm_compute. repeat split; try reflexivity; discriminate. Qed.

(* the hypothesis of the any-type variants is satisfiable by a type that does not fit: in a
   scope below 2^61 the list of wrapping bitvectors is rejected before the first element *)
Example ex_flat_unfit_small_scope :
  bitvectors_fit (TList (TBitvector (2 ^ 64 - 7)) (2 ^ 40)) = false /\
  lenN ex_hostile < 2 ^ 61 /\
  flat_decode_a (TList (TBitvector (2 ^ 64 - 7)) (2 ^ 40)) CFresh ex_hostile = (Err, 176).
Proof. vm_compute. repeat split; reflexivity. Qed.

(* Why a hypothesis: Bitvector[2^64 - 7] has FixedLength 2^61 but is read as 0 bytes.  A list
   of them in a scope of 2^62 bytes (a reader state without limit reader over an empty
   stream) decodes 2 elements, succeeds, consumes nothing (the stream is empty) and has
   allocated 448 bytes, more than  fperbyte * 0 + ffoot = 40.  (The general bound is not
   violated by this input: 448 <= 216 * 2^62 + 40.) *)
Definition ex_T5 : ty := TList (TBitvector (2 ^ 64 - 7)) (2 ^ 40).
Example ex_success_bound_fails_unrestricted :
  bitvectors_fit ex_T5 = false /\
  is_ok (fst (flat_dec_a ex_T5 CFresh (mkRS [] []) (mkDR 0 (2 ^ 62) []))) = true /\
  snd (flat_dec_a ex_T5 CFresh (mkRS [] []) (mkDR 0 (2 ^ 62) [])) = 448 /\
  fperbyte ex_T5 = 216 /\ ffoot ex_T5 = 40.
Proof. lazy. repeat split; reflexivity. Qed.

(* hence the success bound without hypothesis is false *)
Theorem flat_success_bound_needs_hypothesis :
  ~ (forall t c st d v c' st' d', fst (flat_dec_a t c st d) = OK (v, c', st', d') ->
       snd (flat_dec_a t c st d)
         <= fperbyte t * (lenN (r_stream st) - lenN (r_stream st')) + ffoot t).
Proof.
  intros H. destruct ex_success_bound_fails_unrestricted as (_ & E1 & E2 & _ & E3).
  destruct (fst (flat_dec_a ex_T5 CFresh (mkRS [] []) (mkDR 0 (2 ^ 62) [])))
    as [[[[v c'] st'] d']| |] eqn:E; try discriminate E1.
  specialize (H _ _ _ _ _ _ _ _ E). rewrite E2, E3 in H.
  change (lenN (r_stream (mkRS [] []))) with 0 in H.
  rewrite N.sub_0_l, N.mul_0_r in H. lia.
Qed.
