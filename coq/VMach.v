(* VMach.v — the abstract machine of property C04: "a plain in-memory value subjected to
   the same operations" (DESIGN Appendix A.1).  Handles hold plain values; a mutation
   updates the handle's own value and copies it into the parent's slot, recursively
   (sub-views are snapshots that write back through their hook).  Specification
   vocabulary: no trees, no hashing, no Go control flow. *)
From Ztyp Require Import Base Types Spec View Mut.
Open Scope N_scope.

Record vhandle := mkVH { vh_ty : ty; vh_val : val; vh_hook : option (nat * N) }.
Definition vstate := list vhandle.

Definition seq_vals (v : val) : list val :=
  match v with VSeq vs | VCont vs => vs | _ => [] end.
Definition bit_vals (v : val) : list bool := match v with VBits bs => bs | _ => [] end.

(* element type of slot i of a composite (non-packed) type *)
Definition slot_ty (t : ty) (i : N) : option ty :=
  match t with
  | TVector e _ | TList e _ => if is_basic_elem e then None else Some e
  | TContainer fs => nth_error fs (nat_of i)
  | _ => None
  end.

Definition v_len (t : ty) (v : val) : N :=
  match t, v with
  | TBitvector _, VBits bs | TBitlist _, VBits bs => lenN bs
  | TVector _ _, VSeq vs | TList _ _, VSeq vs | TContainer _, VCont vs => lenN vs
  | _, _ => 0
  end.

Definition v_slot_get (t : ty) (v : val) (i : N) : option val :=
  if v_len t v <=? i then None else nth_error (seq_vals v) (nat_of i).

(* write x into slot i of value v (index must be in range) *)
Definition v_slot_set (t : ty) (v : val) (i : N) (x : val) : option val :=
  if v_len t v <=? i then None else
  match v with
  | VSeq vs => Some (VSeq (list_set vs (nat_of i) x))
  | VCont vs => Some (VCont (list_set vs (nat_of i) x))
  | VBits bs => match x with
                | VBool b => Some (VBits (list_set bs (nat_of i) b))
                | _ => None
                end
  | _ => None
  end.

Definition v_get (st : vstate) (h : nat) : option vhandle := nth_error st h.
Definition v_put (st : vstate) (h : nat) (v : val) : vstate :=
  match nth_error st h with
  | Some x => list_set st h (mkVH (vh_ty x) v (vh_hook x))
  | None => st
  end.

(* write_back h v: install v in h, then copy it into the parent's slot, recursively.
   A parent slot that no longer exists (the parent list shrank) stops the propagation
   with an error; the handles below keep their new values. *)
Fixpoint v_write_back (fuel : nat) (st : vstate) (h : nat) (v : val) : vstate * bool :=
  let st1 := v_put st h v in
  match fuel with
  | O => (st1, false)
  | S f =>
    match nth_error st1 h with
    | None => (st1, false)
    | Some x =>
      match vh_hook x with
      | None => (st1, true)
      | Some (p, i) =>
        match nth_error st1 p with
        | None => (st1, false)
        | Some px =>
          match v_slot_set (vh_ty px) (vh_val px) i v with
          | Some pv => v_write_back f st1 p pv
          | None => (st1, false)
          end
        end
      end
    end
  end.

Definition v_src (st : vstate) (x : src) : option (option val) :=
  match x with
  | SLit _ v => Some (Some v)
  | SHandle h => match v_get st h with Some y => Some (Some (vh_val y)) | None => None end
  | SNone => Some None
  end.

(* the new value of handle x after one mutation, None = error (value unchanged) *)
Definition v_mutate (st : vstate) (x : vhandle) (o : op) : option val :=
  let t := vh_ty x in let v := vh_val x in
  match o, t with
  | OSet _ i s, (TBitvector _ | TBitlist _ | TVector _ _ | TList _ _ | TContainer _) =>
    match v_src st s with
    | Some (Some y) => v_slot_set t v i y
    | _ => None
    end
  | OAppend _ s, TBitlist k =>
    match v_src st s, v with
    | Some (Some (VBool b)), VBits bs => if k <=? lenN bs then None else Some (VBits (bs ++ [b]))
    | _, _ => None
    end
  | OAppend _ s, TList _ k =>
    match v_src st s, v with
    | Some (Some y), VSeq vs => if k <=? lenN vs then None else Some (VSeq (vs ++ [y]))
    | _, _ => None
    end
  | OPop _, TBitlist _ =>
    match v with VBits bs => if lenN bs =? 0 then None else Some (VBits (removelast bs)) | _ => None end
  | OPop _, TList _ _ =>
    match v with VSeq vs => if lenN vs =? 0 then None else Some (VSeq (removelast vs)) | _ => None end
  | OChange _ sel s, TUnion none opts =>
    if union_count none opts <=? sel then None else
    match v_src st s with
    | Some None => if sel =? 0 then Some (VUnion sel None) else None
    | Some (Some y) => Some (VUnion sel (Some y))
    | None => None
    end
  | _, _ => None
  end.

Inductive vout := VUnit | VHandle (h : nat) | VNoneValue.

Definition v_step (st : vstate) (o : op) : vstate * option vout :=
  match o with
  | OGet h i =>
    match v_get st h with
    | Some x =>
      match slot_ty (vh_ty x) i, v_slot_get (vh_ty x) (vh_val x) i with
      | Some e, Some y => (st ++ [mkVH e y (Some (h, i))], Some (VHandle (length st)))
      | _, _ => (st, None)
      end
    | None => (st, None)
    end
  | OUValue h =>
    match v_get st h with
    | Some x =>
      match vh_ty x, vh_val x with
      | TUnion none opts, VUnion sel ov =>
        match union_opt none opts sel, ov with
        | None, _ => (st, Some VNoneValue)
        | Some o', Some y => (st ++ [mkVH o' y None], Some (VHandle (length st)))
        | Some _, None => (st, None)
        end
      | _, _ => (st, None)
      end
    | None => (st, None)
    end
  | OCopy h =>
    match v_get st h with
    | Some x => (st ++ [mkVH (vh_ty x) (vh_val x) None], Some (VHandle (length st)))
    | None => (st, None)
    end
  | OSet h _ _ | OAppend h _ | OPop h | OChange h _ _ =>
    match v_get st h with
    | Some x =>
      match v_mutate st x o with
      | Some v' => let '(st1, ok) := v_write_back (S (length st)) st h v' in
                   (st1, if ok then Some VUnit else None)
      | None => (st, None)
      end
    | None => (st, None)
    end
  end.

Definition v_init (t : ty) (v : val) : vstate := [mkVH t v None].
