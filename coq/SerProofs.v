(* SerProofs.v — property C02: on a backing tree that represents a value ([Repr.repr]),
   Serialize ([View.ser_node]) yields exactly the SSZ-spec encoding [Spec.spec_ser],
   ValueByteLength ([View.byte_len]) its length, and the typed getters ([View.list_length],
   [View.view_get], [View.union_selector], [View.union_value], and [View.read_val], which reads a
   whole value back through them) return the components of the value.

   Spec vocabulary used by Props/C02.v (defined here, all small):
     [ty_depth t]     nesting depth of a type (1 for the basic types); the fuel [read_val] needs. *)
From Coq Require Import PeanoNat ZArith ZifyN ZifyNat ZifyBool.
From Ztyp Require Import Base Bitlen Tree Types Spec View Iter Repr.
From Ztyp Require Import BitlenProofs MerkleProofs SizeProofs ReprProofs IterProofs.
From Ztyp Require BitfieldsProofs.
Open Scope N_scope.

#[local] Ltac Zify.zify_post_hook ::= Z.div_mod_to_equations.
Local Arguments N.pow : simpl never.
Local Arguments Nat.pow : simpl never.
Local Arguments N.of_nat : simpl never.
Local Arguments N.to_nat : simpl never.
Local Arguments N.div : simpl never.
Local Arguments N.modulo : simpl never.
Local Arguments N.mul : simpl never.
Local Arguments N.add : simpl never.
Local Arguments N.sub : simpl never.
Local Arguments N.shiftr : simpl never.
Local Arguments N.shiftl : simpl never.
Local Arguments N.log2_up : simpl never.
Local Opaque two64 two32.

(* ------------------------------------------------------------------------------------ *)
(** * 0. Spec vocabulary *)

Fixpoint ty_depth (t : ty) : nat :=
  match t with
  | TVector e _ | TList e _ => S (ty_depth e)
  | TContainer fs => S (fold_right (fun f a => Nat.max (ty_depth f) a) O fs)
  | TUnion _ opts => S (fold_right (fun f a => Nat.max (ty_depth f) a) O opts)
  | _ => 1%nat
  end.

(* ------------------------------------------------------------------------------------ *)
(** * 1. Lists, bytes, chunks *)

Lemma two32_eq : two32 = 2 ^ 32.
Proof. reflexivity. Qed.

Lemma Forall2_from_nth {A B} (R : A -> B -> Prop) : forall l1 l2,
  length l1 = length l2 ->
  (forall i a b, nth_error l1 i = Some a -> nth_error l2 i = Some b -> R a b) ->
  Forall2 R l1 l2.
Proof.
  induction l1 as [|a l1 IH]; intros [|b l2] Hlen Hall; try discriminate Hlen; constructor.
  - apply (Hall 0%nat); reflexivity.
  - apply IH; [now injection Hlen|]. intros i x y Hx Hy. apply (Hall (S i)); assumption.
Qed.

Lemma Forall2_nth_r {A B} (R : A -> B -> Prop) : forall l1 l2 i b,
  Forall2 R l1 l2 -> nth_error l2 i = Some b -> exists a, nth_error l1 i = Some a /\ R a b.
Proof.
  intros l1 l2 i b HF. revert i. induction HF as [|x y l1 l2 Hxy _ IH]; intros i Hi.
  - destruct i; discriminate.
  - destruct i as [|i]; [injection Hi as <-; exists x; split; [reflexivity|exact Hxy]|].
    apply IH. exact Hi.
Qed.

Lemma Forall2_nth_l {A B} (R : A -> B -> Prop) : forall l1 l2 i a,
  Forall2 R l1 l2 -> nth_error l1 i = Some a -> exists b, nth_error l2 i = Some b /\ R a b.
Proof.
  intros l1 l2 i a HF. revert i. induction HF as [|x y l1 l2 Hxy _ IH]; intros i Hi.
  - destruct i; discriminate.
  - destruct i as [|i]; [injection Hi as <-; exists y; split; [reflexivity|exact Hxy]|].
    apply IH. exact Hi.
Qed.

Lemma Forall2_len {A B} (R : A -> B -> Prop) l1 l2 : Forall2 R l1 l2 -> length l1 = length l2.
Proof. induction 1; cbn [length]; congruence. Qed.

Lemma nth_error_seq0 len i : (i < len)%nat -> nth_error (seq 0 len) i = Some i.
Proof.
  intros Hi. rewrite (nth_error_nth' _ 0%nat) by (rewrite seq_length; exact Hi).
  now rewrite seq_nth.
Qed.

Lemma mapM_map {A B} (f : A -> res B) (g : A -> B) : forall l,
  Forall (fun x => f x = OK (g x)) l -> mapM f l = OK (map g l).
Proof.
  induction l as [|x l IH]; intros HF; [reflexivity|].
  inversion HF as [|? ? Hx Hl]; subst. cbn [mapM map]. rewrite Hx. cbn [bind].
  rewrite (IH Hl). reflexivity.
Qed.

Lemma mapM_F2 {A B C} (f : B -> res C) (R : A -> B -> Prop) (g : A -> C) : forall xs ms,
  Forall2 R xs ms -> (forall x m, In x xs -> R x m -> f m = OK (g x)) ->
  mapM f ms = OK (map g xs).
Proof.
  intros xs ms HF. induction HF as [|x m xs ms Hxm _ IH]; intros Hall; [reflexivity|].
  cbn [mapM map]. rewrite (Hall x m (or_introl eq_refl) Hxm). cbn [bind].
  rewrite IH; [reflexivity|]. intros x' m' Hin. apply Hall. now right.
Qed.

(* the chunks of a byte string, concatenated, are the byte string followed by zeros *)
Lemma concat_chunkify_fuel : forall fuel bs, (length bs < fuel)%nat ->
  exists m, concat (chunkify_fuel fuel bs) = bs ++ repeat b0 m.
Proof.
  induction fuel as [|fuel IH]; intros bs Hlen; [lia|].
  destruct bs as [|b bs']; [exists 0%nat; reflexivity|].
  set (bs := b :: bs') in *. cbn [chunkify_fuel]. change (match bs with [] => [] | _ :: _ => ?x end) with x.
  cbn [concat].
  destruct (Nat.le_gt_cases 32 (length bs)) as [Hge|Hlt].
  - destruct (IH (skipn 32 bs)) as (m & Hm).
    { rewrite skipn_length. lia. }
    exists m. rewrite Hm, pad32_full by (rewrite firstn_length; lia).
    rewrite app_assoc, firstn_skipn. reflexivity.
  - rewrite (skipn_all2 bs) by lia. rewrite (firstn_all2 bs) by lia.
    exists (32 - length bs)%nat. destruct fuel; cbn [chunkify_fuel concat]; rewrite app_nil_r;
      apply pad32_short; lia.
Qed.

Lemma concat_chunkify bs : exists m, concat (chunkify bs) = bs ++ repeat b0 m.
Proof. apply concat_chunkify_fuel. lia. Qed.

Lemma pad_to_exact B m : pad_to (length B) (B ++ repeat b0 m) = B.
Proof.
  unfold pad_to. rewrite <- app_assoc, firstn_app, Nat.sub_diag, firstn_all. cbn [firstn].
  apply app_nil_r.
Qed.

Lemma firstn_pad32 k bs : (length bs = k)%nat -> (k <= 32)%nat -> firstn k (pad32 bs) = bs.
Proof.
  intros Hl Hk. rewrite pad32_short by lia. rewrite firstn_app, Hl, Nat.sub_diag.
  cbn [firstn]. rewrite app_nil_r. apply firstn_all2. lia.
Qed.

(* ------------------------------------------------------------------------------------ *)
(** * 2. The node iterator and SubtreeIntoBytes on a series *)

Section WithZero.
Variable zh : nat -> chunk.

Lemma series_iter d (ps : list (node -> Prop)) n :
  series zh d ps n -> N.of_nat d < 64 ->
  exists ms, node_iter_all n (lenN ps) (N.of_nat d) = OK ms /\
             Forall2 (fun (p : node -> Prop) m => p m) ps ms.
Proof.
  intros Hs Hd. pose proof (series_length zh _ _ _ Hs) as Hlen.
  destruct (node_iter_seq_ex n (N.of_nat d) (lenN ps) Hd Hlen) as (ms & Hms & HF).
  { intros i Hi. unfold lenN in Hi.
    destruct (nth_error ps (N.to_nat i)) as [p|] eqn:Hp.
    - destruct (series_bottom zh d ps n (N.to_nat i) p Hs Hp) as (m & Hm & _).
      rewrite N2Nat.id in Hm. eauto.
    - apply nth_error_None in Hp. lia. }
  exists ms. split; [exact Hms|].
  pose proof (Forall2_len _ _ _ HF) as Hl. rewrite seq_length in Hl. unfold lenN in Hl.
  rewrite Nat2N.id in Hl.
  apply Forall2_from_nth; [lia|]. intros i p m Hp Hm.
  assert (Hi : (i < length ps)%nat) by (apply nth_error_Some; congruence).
  destruct (Forall2_nth_r _ _ _ i m HF Hm) as (k & Hk & Hb).
  unfold lenN in Hk. rewrite Nat2N.id, nth_error_seq0 in Hk by exact Hi. injection Hk as <-.
  destruct (series_bottom zh d ps n i p Hs Hp) as (m' & Hm' & Hpm).
  rewrite Hb in Hm'. injection Hm' as <-. exact Hpm.
Qed.

Lemma series_iter_chunks d cs n :
  series zh d (map is_chunk cs) n -> N.of_nat d < 64 ->
  node_iter_all n (lenN cs) (N.of_nat d) = OK (map Leaf cs).
Proof.
  intros Hs Hd. destruct (series_iter d _ n Hs Hd) as (ms & Hms & HF).
  unfold lenN in Hms. rewrite map_length in Hms. fold (lenN cs) in Hms. rewrite Hms. f_equal.
  clear Hms Hs. revert ms HF. induction cs as [|c cs IH]; intros ms HF; inversion HF; subst.
  - reflexivity.
  - cbn [map]. f_equal; [assumption|]. now apply IH.
Qed.

Lemma mapM_leaves cs :
  mapM (fun n => match n with Leaf c => OK c | Pair _ _ => Err end) (map Leaf cs) = OK cs.
Proof.
  induction cs as [|c cs IH]; [reflexivity|]. cbn [map mapM bind]. rewrite IH. reflexivity.
Qed.

(* SubtreeIntoBytes over the chunks of a byte string *)
Lemma sib_chunks_gen d B n depth len dest :
  series zh d (map is_chunk (chunkify B)) n -> depth = N.of_nat d -> depth < 64 ->
  len = lenN (chunkify B) -> lenN B <= dest ->
  subtree_into_bytes n depth len dest = OK (pad_to (nat_of dest) (concat (chunkify B))).
Proof.
  intros Hs -> Hd -> Hdest. unfold subtree_into_bytes.
  rewrite (series_iter_chunks d _ n Hs Hd). cbn [bind]. rewrite mapM_leaves. cbn [bind].
  replace ((1 <=? lenN (chunkify B)) && (dest <? 32 * (lenN (chunkify B) - 1))) with false;
    [reflexivity|].
  symmetry. apply andb_false_iff. right. apply N.ltb_ge.
  rewrite chunkify_lenN. lia.
Qed.

Lemma sib_chunks d B n depth len dest :
  series zh d (map is_chunk (chunkify B)) n -> depth = N.of_nat d -> depth < 64 ->
  len = lenN (chunkify B) -> dest = lenN B ->
  subtree_into_bytes n depth len dest = OK B.
Proof.
  intros Hs Hd Hd64 Hl ->. rewrite (sib_chunks_gen d B n depth len (lenN B) Hs Hd Hd64 Hl) by lia.
  destruct (concat_chunkify B) as (m & ->). unfold lenN, nat_of. rewrite Nat2N.id.
  now rewrite pad_to_exact.
Qed.

End WithZero.

(* ------------------------------------------------------------------------------------ *)
(** * 3. Bit strings: the delimiter bit *)

Definition bbyte (l : list bool) (i : nat) : byte :=
  byte_of_N (bits_val (firstn 8 (skipn (8 * i) l))).

Lemma byte_of_N_0 : byte_of_N 0 = b0.
Proof. reflexivity. Qed.

Lemma bbyte_beyond l i : (length l <= 8 * i)%nat -> bbyte l i = b0.
Proof. intros H. unfold bbyte. rewrite skipn_all2 by exact H. reflexivity. Qed.

Lemma firstn_seq' : forall k s n, (k <= n)%nat -> firstn k (seq s n) = seq s k.
Proof.
  induction k as [|k IH]; intros s n Hk; [reflexivity|].
  destruct n as [|n]; [lia|]. cbn [seq firstn]. f_equal. apply IH. lia.
Qed.

Lemma map_const_seq {A} (x : A) : forall m s, map (fun _ => x) (seq s m) = repeat x m.
Proof. induction m as [|m IH]; intros s; [reflexivity|]. cbn [seq map repeat]. now rewrite IH. Qed.

Lemma btb_padded l m :
  bits_to_bytes l ++ repeat b0 m = map (bbyte l) (seq 0 ((length l + 7) / 8 + m)).
Proof.
  rewrite seq_app, map_app. f_equal; [apply btb_spec|].
  cbn [Nat.add]. rewrite <- (map_const_seq b0 m ((length l + 7) / 8)).
  apply map_ext_in. intros i Hi. apply in_seq in Hi. symmetry. apply bbyte_beyond. lia.
Qed.

Lemma bitlist_bytes bs m :
  let X := pad_to (length bs / 8 + 1) (bits_to_bytes bs ++ repeat b0 m) in
  removelast X ++ [byte_of_N (N.lor (N_of_byte (last X b0)) (2 ^ (N.land (lenN bs) 7)))] =
  bits_to_bytes (bs ++ [true]).
Proof.
  cbv zeta. set (L := length bs). set (q := (L / 8)%nat).
  assert (HX : pad_to (q + 1) (bits_to_bytes bs ++ repeat b0 m) =
               map (bbyte bs) (seq 0 q) ++ [bbyte bs q]).
  { unfold pad_to, zero_bytes. rewrite <- app_assoc, <- repeat_app, btb_padded.
    rewrite firstn_map, firstn_seq' by (fold L; unfold q; lia).
    rewrite Nat.add_1_r, seq_S, map_app. reflexivity. }
  rewrite HX, removelast_last, last_last.
  rewrite btb_spec, app_length. cbn [length]. fold L.
  replace ((L + 1 + 7) / 8)%nat with (S q) by (unfold q; lia).
  rewrite seq_S, map_app. cbn [Nat.add map]. f_equal.
  - apply map_ext_in. intros i Hi. apply in_seq in Hi. unfold bbyte.
    rewrite skipn_app. replace (8 * i - length bs)%nat with 0%nat by (fold L; unfold q in Hi; lia).
    cbn [skipn]. rewrite firstn_app.
    replace (8 - length (skipn (8 * i) bs))%nat with 0%nat
      by (rewrite skipn_length; fold L; unfold q in Hi; lia).
    cbn [firstn]. now rewrite app_nil_r.
  - f_equal. unfold bbyte.
    set (A := skipn (8 * q) bs).
    assert (HA : length A = (L mod 8)%nat) by (unfold A; rewrite skipn_length; fold L; unfold q; lia).
    rewrite skipn_app. replace (8 * q - length bs)%nat with 0%nat by (fold L; unfold q; lia).
    cbn [skipn]. fold A.
    rewrite (firstn_all2 (n := 8) A) by lia.
    rewrite (firstn_all2 (n := 8) (A ++ [true])) by (rewrite app_length; cbn [length]; lia).
    rewrite BitfieldsProofs.N_of_byte_bits_val by lia.
    rewrite BitfieldsProofs.bits_val_snoc_true.
    change 7 with (2 ^ 3 - 1). rewrite land_pow2_pred. change (2 ^ 3) with 8.
    assert (Hr : lenN bs mod 8 = lenN A) by (unfold lenN; rewrite HA; fold L; lia).
    rewrite Hr, N.lor_comm. f_equal. rewrite N.add_comm. apply lor_pow2_small.
    apply BitfieldsProofs.bits_val_bound.
Qed.

(* ------------------------------------------------------------------------------------ *)
(** * 4. Sizes: what Serialize / ValueByteLength read from the type metadata *)

Lemma pow64 : 2 ^ 64 = two64.
Proof. reflexivity. Qed.

(* the size of a fixed-size type, given one value whose encoding is short enough *)
Lemma fixed_size t v :
  spec_is_fixed t = true -> small_params t = true -> has_type v t = true ->
  lenN (spec_ser t v) < 2 ^ 64 -> ti_size (info t) = lenN (spec_ser t v).
Proof.
  intros Hf Hs Ht Hl. symmetry. apply code_fixed_len; try assumption.
  - destruct (spec_fixed_min_max t Hf) as [_ ->].
    now rewrite <- (spec_ser_fixed_len_nowf t v Hf Ht).
  - now rewrite info_fixed_flag.
Qed.

Definition fp_of (acc : N * N * N * N) : N := fst (fst (fst acc)).

Lemma fixed_part_size_fp fs : fixed_part_size fs = fp_of (cont_acc (map info fs)).
Proof. unfold fixed_part_size. destruct (cont_acc (map info fs)) as [[[a b] c] d]. reflexivity. Qed.

Lemma cont_fold_fp : forall (is : list tinfo) acc,
  fp_of acc < two64 ->
  fp_of (fold_left cont_step is acc) =
  wrap64 (fp_of acc + sumN (map (fun i => if ti_fixed i then ti_size i else 4) is)).
Proof.
  induction is as [|i is IH]; intros [[[fp a] b] c] Hfp; unfold fp_of in *; cbn [fst] in *.
  - cbn [fold_left map sumN fold_right fst]. rewrite N.add_0_r. symmetry. now apply wrap64_small.
  - cbn [fold_left map]. rewrite sumN_cons. unfold cont_step at 2.
    destruct (ti_fixed i); rewrite IH by (cbn [fst]; apply wrap64_lt); cbn [fst];
      unfold add64; rewrite wrap64_add_l; f_equal; lia.
Qed.

Definition var_len (p : part) : N := if fst p then 0 else lenN (snd p).

Lemma part_len_split p : part_len p = part_fixed_size p + var_len p.
Proof. unfold part_len, part_fixed_size, var_len. destruct (fst p); lia. Qed.

Lemma sum_part_len_split : forall ps,
  sumN (map part_len ps) = sumN (map part_fixed_size ps) + sumN (map var_len ps).
Proof.
  induction ps as [|p ps IH]; [reflexivity|]. cbn [map]. rewrite !sumN_cons, IH, part_len_split. lia.
Qed.

Lemma fixed_part_spec : forall fs vs,
  forallb small_params fs = true -> has_type_fields fs vs = true ->
  sumN (map part_len (ser_fields fs vs)) < 2 ^ 64 ->
  fixed_part_size fs = sumN (map part_fixed_size (ser_fields fs vs)).
Proof.
  intros fs vs Hs Ht Hl. rewrite fixed_part_size_fp. unfold cont_acc.
  rewrite cont_fold_fp by (unfold fp_of; cbn [fst]; rewrite <- pow64; lia).
  unfold fp_of. cbn [fst]. rewrite N.add_0_l, map_map.
  assert (E : sumN (map (fun f => if ti_fixed (info f) then ti_size (info f) else 4) fs) =
              sumN (map part_fixed_size (ser_fields fs vs))).
  { revert vs Hs Ht Hl. induction fs as [|f fs IH]; intros [|x vs] Hs Ht Hl;
      try discriminate Ht; [reflexivity|].
    cbn [forallb] in Hs. apply andb_true_iff in Hs. destruct Hs as [Hsf Hs].
    cbn [has_type_fields] in Ht. apply andb_true_iff in Ht. destruct Ht as [Htf Ht].
    cbn [ser_fields map] in *. rewrite !sumN_cons in *.
    rewrite (IH vs Hs Ht) by lia. f_equal.
    unfold part_fixed_size, part_len in *. cbn [fst snd] in *. rewrite info_fixed_flag.
    destruct (spec_is_fixed f) eqn:Hf; [|reflexivity].
    apply fixed_size; try assumption. lia. }
  rewrite E. apply wrap64_small. rewrite <- pow64.
  rewrite sum_part_len_split in Hl. lia.
Qed.

(* ---- ser_parts ---- *)

Lemma ser_parts_go_fixed {A} (g : A -> list byte) : forall vs off,
  ser_parts_go (map (fun x => (true, g x)) vs) off = (concat (map g vs), []).
Proof.
  induction vs as [|x vs IH]; intros off; [reflexivity|].
  cbn [map ser_parts_go concat]. now rewrite IH.
Qed.

Lemma ser_parts_fixed {A} (g : A -> list byte) vs :
  ser_parts (map (fun x => (true, g x)) vs) = concat (map g vs).
Proof. unfold ser_parts. rewrite ser_parts_go_fixed. apply app_nil_r. Qed.

Lemma write_offsets_spec {A} (g : A -> list byte) : forall vs po ps,
  po + ps + sumN (map (fun x => lenN (g x)) vs) < two32 ->
  write_offsets (map (fun x => lenN (g x)) vs) po ps =
    OK (fst (ser_parts_go (map (fun x => (false, g x)) vs) (po + ps))) /\
  snd (ser_parts_go (map (fun x => (false, g x)) vs) (po + ps)) = concat (map g vs).
Proof.
  induction vs as [|x vs IH]; intros po ps Hb; [split; reflexivity|].
  cbn [map] in *. rewrite sumN_cons in Hb. cbn [write_offsets ser_parts_go].
  unfold write_offset.
  rewrite (proj2 (N.leb_gt two32 po)) by lia.
  rewrite (proj2 (N.leb_gt two32 ps)) by lia.
  rewrite (proj2 (N.leb_gt two32 (po + ps))) by lia. cbn [bind].
  destruct (IH (po + ps) (lenN (g x)) ltac:(lia)) as [E1 E2].
  rewrite E1. cbn [bind].
  destruct (ser_parts_go (map (fun x0 => (false, g x0)) vs) (po + ps + lenN (g x))) as [f v].
  cbn [fst snd concat] in *. split; [reflexivity|now rewrite E2].
Qed.

Lemma sum_fixed_size_var {A} (g : A -> list byte) : forall vs,
  sumN (map part_fixed_size (map (fun x => (false, g x)) vs)) = 4 * lenN vs.
Proof.
  induction vs as [|x vs IH]; [reflexivity|]. cbn [map]. rewrite sumN_cons, IH, lenN_cons.
  unfold part_fixed_size. cbn [fst]. lia.
Qed.

Lemma ser_parts_var {A} (g : A -> list byte) vs :
  4 * lenN vs + sumN (map (fun x => lenN (g x)) vs) < two32 ->
  exists offs, write_offsets (map (fun x => lenN (g x)) vs) (4 * lenN vs) 0 = OK offs /\
               ser_parts (map (fun x => (false, g x)) vs) = offs ++ concat (map g vs).
Proof.
  intros Hb. destruct (write_offsets_spec g vs (4 * lenN vs) 0 ltac:(lia)) as [E1 E2].
  rewrite N.add_0_r in E1, E2. eexists. split; [exact E1|].
  unfold ser_parts. rewrite sum_fixed_size_var.
  destruct (ser_parts_go (map (fun x => (false, g x)) vs) (4 * lenN vs)) as [f v].
  cbn [fst snd] in *. now rewrite E2.
Qed.

Lemma sum_lens_spec : forall lens start, start < two64 ->
  sum_lens lens start = wrap64 (start + sumN lens).
Proof.
  unfold sum_lens. induction lens as [|l lens IH]; intros start Hs; cbn [fold_left].
  - cbn [sumN fold_right]. rewrite N.add_0_r. symmetry. now apply wrap64_small.
  - rewrite IH by apply wrap64_lt. rewrite sumN_cons. unfold add64. rewrite wrap64_add_l.
    f_equal. lia.
Qed.

Lemma In_sum_le {A} (g : A -> N) l x : In x l -> g x <= sumN (map g l).
Proof. apply sumN_map_In_le. Qed.

(* ------------------------------------------------------------------------------------ *)
(** * 5. Readable views of the nested fixpoints of the model *)

Definition bl_fields (d : N) (n : node) : list ty -> N -> N -> res N :=
  fix go (fs : list ty) (i acc : N) : res N :=
    match fs with
    | [] => OK acc
    | f :: fs' =>
      if ti_fixed (info f) then go fs' (i + 1) (add64 acc (ti_size (info f)))
      else
        do g <- to_gindex64 i d;
        do c <- getter n g;
        do l <- byte_len f c;
        go fs' (i + 1) (add64 acc (add64 l 4))
    end.

Lemma byte_len_cont fs n :
  byte_len (TContainer fs) n =
  if ti_fixed (info (TContainer fs)) then OK (ti_size (info (TContainer fs)))
  else bl_fields (view_depth (TContainer fs)) n fs 0 0.
Proof. reflexivity. Qed.

Lemma byte_len_union none opts n :
  byte_len (TUnion none opts) n =
  match n with
  | Pair c (Leaf s) =>
    if negb (forallb (fun b => N_of_byte b =? 0) (tl s)) then Err else
    let sel := N_of_byte (hd b0 s) in
    if wrap8 (union_count none opts) <=? sel then Err else
    if none && (sel =? 0) then OK 1 else
    rpick Panic (fun o => do l <- byte_len o c; OK (add64 l 1)) opts
          (nat_of (if none then sel - 1 else sel))
  | _ => Err
  end.
Proof. reflexivity. Qed.

Lemma byte_len_vector e k n :
  byte_len (TVector e k) n =
  if ti_fixed (info (TVector e k)) then OK (ti_size (info (TVector e k))) else
  do ns <- node_iter_all n k (view_depth (TVector e k));
  do lens <- mapM (byte_len e) ns;
  OK (sum_lens lens (mul64 k 4)).
Proof. reflexivity. Qed.

Lemma byte_len_list e k n :
  byte_len (TList e k) n =
  do ll <- list_length k n;
  if is_basic_elem e || ti_fixed (info e) then OK (mul64 ll (ti_size (info e))) else
  do c <- node_left n;
  do ns <- node_iter_all c ll (contents_depth (TList e k));
  do lens <- mapM (byte_len e) ns;
  OK (sum_lens lens (mul64 ll 4)).
Proof. reflexivity. Qed.

Fixpoint ser_fields_go (fs : list ty) (ns : list node) (prev_off prev_size : N)
         (fixed dyn : list byte) : res (list byte) :=
  match fs, ns with
  | f :: fs', x :: ns' =>
    if ti_fixed (info f) then
      do bs <- ser_node f x; ser_fields_go fs' ns' prev_off prev_size (fixed ++ bs) dyn
    else
      do l <- byte_len f x;
      do r <- write_offset prev_off prev_size; let '(off, obs) := r in
      do bs <- ser_node f x;
      ser_fields_go fs' ns' off l (fixed ++ obs) (dyn ++ bs)
  | _, _ => OK (fixed ++ dyn)
  end.

Lemma ser_node_cont fs n :
  ser_node (TContainer fs) n =
  do ns <- node_iter_all n (N.of_nat (length fs)) (view_depth (TContainer fs));
  ser_fields_go fs ns (fixed_part_size fs) 0 [] [].
Proof. reflexivity. Qed.

Lemma ser_node_union none opts n :
  ser_node (TUnion none opts) n =
  match n with
  | Pair c (Leaf s) =>
    if negb (forallb (fun b => N_of_byte b =? 0) (tl s)) then Err else
    let sel := N_of_byte (hd b0 s) in
    if wrap8 (union_count none opts) <=? sel then Err else
    if none && (sel =? 0) then OK [byte_of_N sel] else
    rpick Panic (fun o => do bs <- ser_node o c; OK (byte_of_N sel :: bs)) opts
          (nat_of (if none then sel - 1 else sel))
  | _ => Err
  end.
Proof. reflexivity. Qed.

Lemma ser_node_vector e k n :
  ser_node (TVector e k) n =
  if is_basic_elem e then
    subtree_into_bytes n (view_depth (TVector e k)) (bottom_count e k) (ti_size (info (TVector e k)))
  else
    do ns <- node_iter_all n k (view_depth (TVector e k));
    if ti_fixed (info (TVector e k)) then
      do bss <- mapM (ser_node e) ns; OK (concat bss)
    else
      do lens <- mapM (byte_len e) ns;
      do offs <- write_offsets lens (mul64 k 4) 0;
      do bss <- mapM (ser_node e) ns;
      OK (offs ++ concat bss).
Proof. reflexivity. Qed.

Lemma ser_node_list e k n :
  ser_node (TList e k) n =
  if is_basic_elem e then
    do c <- node_left n;
    do ll <- list_length k n;
    let esz := ti_size (info e) in
    let byte_length := mul64 ll esz in
    let per := 32 / esz in
    subtree_into_bytes c (contents_depth (TList e k)) (wrap64 (ll + per - 1) / per) byte_length
  else
    do ll <- list_length k n;
    do c <- node_left n;
    do ns <- node_iter_all c ll (contents_depth (TList e k));
    if ti_fixed (info e) then
      do bss <- mapM (ser_node e) ns; OK (concat bss)
    else
      do lens <- mapM (byte_len e) ns;
      do offs <- write_offsets lens (mul64 ll 4) 0;
      do bss <- mapM (ser_node e) ns;
      OK (offs ++ concat bss).
Proof. reflexivity. Qed.

Lemma spec_ser_union' none opts sel ov :
  spec_ser (TUnion none opts) (VUnion sel ov) =
  byte_of_N sel ::
  match ov with
  | None => []
  | Some x => rpick [] (fun o => spec_ser o x) opts (nat_of (if none then sel - 1 else sel))
  end.
Proof. reflexivity. Qed.

Lemma spec_ser_vector e k vs :
  spec_ser (TVector e k) (VSeq vs) = ser_parts (map (fun x => (spec_is_fixed e, spec_ser e x)) vs).
Proof. reflexivity. Qed.

Lemma spec_ser_list e k vs :
  spec_ser (TList e k) (VSeq vs) = ser_parts (map (fun x => (spec_is_fixed e, spec_ser e x)) vs).
Proof. reflexivity. Qed.

(* ------------------------------------------------------------------------------------ *)
(** * 6. Shared facts about representing trees *)

Lemma Forall2_map_l {A B C} (R : B -> C -> Prop) (f : A -> B) : forall l l',
  Forall2 R (map f l) l' -> Forall2 (fun x y => R (f x) y) l l'.
Proof.
  induction l as [|x l IH]; intros l' HF; inversion HF; subst; constructor; auto.
Qed.

Lemma sumN_map_add4 {A} (h : A -> N) : forall vs,
  sumN (map (fun x => 4 + h x) vs) = 4 * lenN vs + sumN (map h vs).
Proof.
  induction vs as [|x vs IH]; [reflexivity|]. cbn [map]. rewrite !sumN_cons, IH, lenN_cons. lia.
Qed.

Lemma series_lenN_var (g : val -> list byte) vs :
  lenN (ser_parts (map (fun x => (false, g x)) vs)) =
  4 * lenN vs + sumN (map (fun x => lenN (g x)) vs).
Proof. rewrite ser_series_lenN. apply sumN_map_add4. Qed.

Lemma series_lenN_fixed (g : val -> list byte) vs :
  lenN (ser_parts (map (fun x => (true, g x)) vs)) = sumN (map (fun x => lenN (g x)) vs).
Proof. now rewrite ser_series_lenN. Qed.

Lemma pow56_lt : 2 ^ 56 < two64.
Proof. rewrite <- pow64. apply N.pow_lt_mono_r; lia. Qed.

Lemma mul64_small a b : a * b < two64 -> mul64 a b = a * b.
Proof. intros H. unfold mul64. now apply wrap64_small. Qed.

Lemma sel_leaf sel : sel < 256 ->
  forallb (fun b => N_of_byte b =? 0) (tl (pad32 [byte_of_N sel])) = true /\
  N_of_byte (hd b0 (pad32 [byte_of_N sel])) = sel.
Proof.
  intros Hs. change (pad32 [byte_of_N sel]) with (byte_of_N sel :: repeat b0 31).
  cbn [tl hd]. split; [reflexivity|]. rewrite N_of_byte_of_N. now apply N.mod_small.
Qed.

Lemma union_sel_range none opts sel ov :
  wf_ty (TUnion none opts) = true -> has_type (VUnion sel ov) (TUnion none opts) = true ->
  sel < union_count none opts /\ union_count none opts <= 128.
Proof.
  intros Hwf Ht. cbn [wf_ty] in Hwf. rewrite !andb_true_iff in Hwf.
  destruct Hwf as [[_ Hc] _]. apply N.leb_le in Hc. split; [|exact Hc].
  rewrite ReprProofs.has_type_union in Ht. unfold union_count.
  destruct (none && (sel =? 0)) eqn:Hn.
  - apply andb_true_iff in Hn. destruct Hn as [-> Hs]. apply N.eqb_eq in Hs. lia.
  - rewrite rpick_nth_error in Ht.
    destruct (nth_error opts (nat_of (if none then sel - 1 else sel))) eqn:Hk; [|discriminate].
    assert (Hlt : (nat_of (if none then sel - 1 else sel) < length opts)%nat)
      by (apply nth_error_Some; congruence).
    unfold nat_of in Hlt. destruct none; cbn [andb] in Hn; [apply N.eqb_neq in Hn|]; lia.
Qed.

Section Union.
Variable zh : nat -> chunk.

Lemma union_cases none opts sel ov c :
  has_type (VUnion sel ov) (TUnion none opts) = true ->
  match ov with
  | None => c = Leaf zero_chunk
  | Some x => rpick False (fun o => repr zh o c x) opts (nat_of (if none then sel - 1 else sel))
  end ->
  (none && (sel =? 0) = true /\ ov = None /\ c = Leaf zero_chunk) \/
  (none && (sel =? 0) = false /\
   exists o x, ov = Some x /\ nth_error opts (nat_of (if none then sel - 1 else sel)) = Some o /\
               has_type x o = true /\ repr zh o c x).
Proof.
  intros Ht Hr. rewrite ReprProofs.has_type_union in Ht.
  destruct (none && (sel =? 0)) eqn:Hn.
  - left. destruct ov; [discriminate|]. auto.
  - right. split; [reflexivity|]. rewrite rpick_nth_error in Ht.
    destruct (nth_error opts (nat_of (if none then sel - 1 else sel))) as [o|] eqn:Hk; [|discriminate].
    destruct ov as [x|]; [|discriminate]. rewrite rpick_nth_error, Hk in Hr.
    exists o, x. auto.
Qed.
End Union.

Lemma wrap8_small n : n < 256 -> wrap8 n = n.
Proof. intros H. unfold wrap8. now apply N.mod_small. Qed.

Lemma cover_depth_63 v : v <= 2 ^ 63 -> cover_depth v < 64.
Proof. intros H. pose proof (cover_depth_small v 63 H ltac:(lia)). lia. Qed.

Lemma view_depth_lt64 t : small_params t = true -> small_fields t = true -> view_depth t < 64.
Proof.
  intros Hs Hf. pose proof (small_contents_depth t Hs) as H.
  unfold view_depth. destruct t; cbn [is_list_ty]; try lia.
  cbn [contents_depth]. cbn [small_fields] in Hf. apply andb_true_iff in Hf.
  destruct Hf as [Hf _]. apply N.leb_le in Hf. unfold lenN in Hf.
  pose proof (cover_depth_63 _ Hf). lia.
Qed.

(* ------------------------------------------------------------------------------------ *)
(** * 7. ValueByteLength *)

Ltac dval v Hty := destruct v; try (cbn [has_type] in Hty; discriminate Hty).

Section ByteLen.
Variable zh : nat -> chunk.

Definition bl_stmt (t : ty) : Prop :=
  wf_ty t = true -> small_params t = true -> small_fields t = true ->
  forall v n, has_type v t = true -> repr zh t n v -> lenN (spec_ser t v) < 2 ^ 64 ->
  byte_len t n = OK (lenN (spec_ser t v)).

Lemma bl_uint w : bl_stmt (TUint w).
Proof.
  intros _ _ _ v n Ht _ _. dval v Ht. cbn [byte_len spec_ser]. now rewrite lenN_le_bytes.
Qed.

Lemma bl_bool : bl_stmt TBool.
Proof. intros _ _ _ v n Ht _ _. dval v Ht. reflexivity. Qed.

Lemma bl_bytes k : bl_stmt (TBytes k).
Proof.
  intros _ _ _ v n Ht _ _. dval v Ht. cbn [has_type] in Ht. apply N.eqb_eq in Ht.
  cbn [byte_len spec_ser]. unfold lenN. now rewrite Ht.
Qed.

Lemma bl_root : bl_stmt TRoot.
Proof.
  intros _ _ _ v n Ht _ _. dval v Ht. cbn [has_type] in Ht. apply N.eqb_eq in Ht.
  cbn [byte_len spec_ser]. unfold lenN. now rewrite Ht.
Qed.

Lemma bl_bitvector k : bl_stmt (TBitvector k).
Proof.
  intros _ Hs _ v n Ht _ Hl. cbn [byte_len]. f_equal. now apply fixed_size.
Qed.

Lemma bl_bitlist k : bl_stmt (TBitlist k).
Proof.
  intros _ Hs _ v n Ht Hr _. dval v Ht. cbn [has_type] in Ht. apply N.leb_le in Ht.
  cbn [small_params] in Hs. apply N.leb_le in Hs. fold (lenN bs) in Ht.
  cbn [repr] in Hr. destruct Hr as (c & -> & _).
  pose proof small_plus8 as H56.
  cbn [byte_len]. rewrite (list_length_len_leaf k c (lenN bs) Ht) by (rewrite pow64; lia).
  cbn [bind spec_ser]. rewrite ser_bitlist_lenN, wrap64_small by lia. f_equal. lia.
Qed.

Lemma vec_depth e k : view_depth (TVector e k) = contents_depth (TVector e k).
Proof. unfold view_depth. cbn [is_list_ty]. lia. Qed.

Lemma not_fixed_not_basic e : spec_is_fixed e = false -> is_basic_elem e = false.
Proof. destruct e; cbn; congruence. Qed.

(* the elements of a complex series: the iterator returns representing nodes *)
Lemma series_elems_iter e d vs n :
  series zh d (map (fun x m => repr zh e m x) vs) n -> N.of_nat d < 64 ->
  exists ms, node_iter_all n (lenN vs) (N.of_nat d) = OK ms /\
             Forall2 (fun x m => repr zh e m x) vs ms.
Proof.
  intros Hs Hd. destruct (series_iter zh d _ n Hs Hd) as (ms & Hms & HF).
  unfold lenN in Hms. rewrite map_length in Hms. exists ms. split; [exact Hms|].
  now apply Forall2_map_l in HF.
Qed.

Lemma elems_byte_len e vs ms :
  bl_stmt e -> wf_ty e = true -> small_params e = true -> small_fields e = true ->
  forallb (fun x => has_type x e) vs = true ->
  Forall2 (fun x m => repr zh e m x) vs ms ->
  sumN (map (fun x => lenN (spec_ser e x)) vs) < 2 ^ 64 ->
  mapM (byte_len e) ms = OK (map (fun x => lenN (spec_ser e x)) vs).
Proof.
  intros IH Hwf Hs Hf Hty HF Hsum. rewrite forallb_forall in Hty.
  apply (mapM_F2 _ _ _ _ _ HF). intros x m Hin Hr.
  apply IH; auto.
  pose proof (sumN_map_In_le (fun x => lenN (spec_ser e x)) vs x Hin). cbv beta in *. lia.
Qed.

Lemma bl_vector e k : bl_stmt e -> bl_stmt (TVector e k).
Proof.
  intros IH Hwf Hs Hf v n Ht Hr Hl. rewrite byte_len_vector, info_fixed_flag.
  destruct (spec_is_fixed (TVector e k)) eqn:Hfx.
  - f_equal. now apply fixed_size.
  - cbn [spec_is_fixed] in Hfx. dval v Ht.
    cbn [has_type] in Ht. apply andb_true_iff in Ht. destruct Ht as [Hlen Hty].
    apply N.eqb_eq in Hlen. fold (lenN vs) in Hlen.
    cbn [wf_ty] in Hwf. apply andb_true_iff in Hwf. destruct Hwf as [_ Hwfe].
    pose proof (small_contents_depth _ Hs) as Hd. cbv beta iota in Hd.
    cbn [small_params] in Hs. apply andb_true_iff in Hs. destruct Hs as [Hk Hse]. apply N.leb_le in Hk.
    cbn [small_fields] in Hf.
    rewrite repr_vector, (not_fixed_not_basic e Hfx) in Hr.
    rewrite spec_ser_vector, Hfx in *. rewrite series_lenN_var in *.
    destruct (series_elems_iter e _ vs n Hr) as (ms & Hms & HF).
    { rewrite cdepth_N. lia. }
    rewrite cdepth_N, Hlen in Hms. rewrite vec_depth, Hms. cbn [bind].
    rewrite (elems_byte_len e vs ms IH Hwfe Hse Hf Hty HF) by lia. cbn [bind].
    pose proof pow56_lt as H56. rewrite pow64 in Hl.
    rewrite mul64_small by lia. rewrite sum_lens_spec by lia.
    rewrite wrap64_small by lia. f_equal. lia.
Qed.
Lemma basic_or_fixed e : is_basic_elem e || spec_is_fixed e = spec_is_fixed e.
Proof. destruct e; reflexivity. Qed.

Lemma list_depth e k : view_depth (TList e k) = contents_depth (TList e k) + 1.
Proof. reflexivity. Qed.

Lemma bl_list e k : bl_stmt e -> bl_stmt (TList e k).
Proof.
  intros IH Hwf Hs Hf v n Ht Hr Hl. rewrite byte_len_list, info_fixed_flag, basic_or_fixed.
  dval v Ht.
  cbn [has_type] in Ht. apply andb_true_iff in Ht. destruct Ht as [Hlen Hty].
  apply N.leb_le in Hlen. fold (lenN vs) in Hlen.
  cbn [wf_ty] in Hwf.
  pose proof (small_contents_depth _ Hs) as Hd. cbv beta iota in Hd.
  cbn [small_params] in Hs. apply andb_true_iff in Hs. destruct Hs as [Hk Hse]. apply N.leb_le in Hk.
  cbn [small_fields] in Hf.
  pose proof pow56_lt as H56. rewrite pow64 in Hl.
  rewrite repr_list in Hr. destruct Hr as (c & -> & Hr).
  rewrite (list_length_len_leaf k c (lenN vs) Hlen) by (rewrite pow64; lia). cbn [bind].
  rewrite spec_ser_list in *.
  destruct (spec_is_fixed e) eqn:Hfx.
  - rewrite series_lenN_fixed in *.
    assert (HF : Forall (fun x => lenN (spec_ser e x) = ti_size (info e)) vs).
    { apply Forall_forall. intros x Hin. rewrite forallb_forall in Hty. symmetry.
      apply fixed_size; auto.
      pose proof (sumN_map_In_le (fun x => lenN (spec_ser e x)) vs x Hin). cbv beta in *.
      rewrite pow64. lia. }
    rewrite (sumN_map_const _ _ _ HF) in *. now rewrite mul64_small by lia.
  - rewrite (not_fixed_not_basic e Hfx) in Hr. rewrite series_lenN_var in *.
    destruct (series_elems_iter e _ vs c Hr) as (ms & Hms & HF).
    { rewrite cdepth_N. lia. }
    rewrite cdepth_N in Hms. cbn [node_left bind]. rewrite Hms. cbn [bind].
    rewrite (elems_byte_len e vs ms IH Hwf Hse Hf Hty HF) by (rewrite pow64; lia). cbn [bind].
    rewrite mul64_small by lia. rewrite sum_lens_spec by lia.
    rewrite wrap64_small by lia. f_equal. lia.
Qed.

(* ---- containers ---- *)

Lemma bl_fields_cons d n f fs i acc :
  bl_fields d n (f :: fs) i acc =
  if ti_fixed (info f) then bl_fields d n fs (i + 1) (add64 acc (ti_size (info f)))
  else
    do g <- to_gindex64 i d;
    do c <- getter n g;
    do l <- byte_len f c;
    bl_fields d n fs (i + 1) (add64 acc (add64 l 4)).
Proof. reflexivity. Qed.

Lemma rfields_repr_length : forall fs vs, has_type_fields fs vs = true ->
  length (rfields_repr zh fs vs) = length fs.
Proof.
  induction fs as [|f fs IH]; intros [|x vs] Ht; try discriminate Ht; [reflexivity|].
  cbn [has_type_fields] in Ht. apply andb_true_iff in Ht. cbn [rfields_repr length].
  now rewrite IH.
Qed.

Lemma cont_depth fs : view_depth (TContainer fs) = contents_depth (TContainer fs).
Proof. unfold view_depth. cbn [is_list_ty]. lia. Qed.

(* the field nodes of a representing container tree *)
Lemma cont_nodes fs vs n :
  small_params (TContainer fs) = true -> small_fields (TContainer fs) = true ->
  has_type (VCont vs) (TContainer fs) = true -> repr zh (TContainer fs) n (VCont vs) ->
  exists ms, node_iter_all n (N.of_nat (length fs)) (view_depth (TContainer fs)) = OK ms /\
             Forall2 (fun (p : node -> Prop) m => p m) (rfields_repr zh fs vs) ms /\
             forall j m, nth_error ms j = Some m ->
                         get_node (TContainer fs) n (N.of_nat j) = OK m.
Proof.
  intros Hs Hf Ht Hr. pose proof (view_depth_lt64 _ Hs Hf) as Hd.
  rewrite repr_cont in Hr. rewrite SizeProofs.has_type_cont in Ht.
  pose proof (series_length zh _ _ _ Hr) as Hlen.
  assert (Hcd : N.of_nat (cdepth (TContainer fs)) = view_depth (TContainer fs))
    by (rewrite cdepth_N, cont_depth; reflexivity).
  rewrite Hcd in Hlen.
  destruct (series_iter zh _ _ n Hr) as (ms & Hms & HF); [rewrite Hcd; exact Hd|].
  rewrite Hcd in Hms. unfold lenN in Hms, Hlen. rewrite rfields_repr_length in Hms, Hlen by exact Ht.
  exists ms. split; [exact Hms|]. split; [exact HF|].
  intros j m Hj.
  destruct (node_iter_sound n _ _ ms j m Hd Hms Hj) as [Hb Hlt].
  rewrite get_node_bottom by (try exact Hd; lia). exact Hb.
Qed.

Lemma bl_fields_spec t n : forall fs vs ms i acc,
  Forall bl_stmt fs -> forallb wf_ty fs = true -> forallb small_params fs = true ->
  forallb small_fields fs = true -> has_type_fields fs vs = true ->
  Forall2 (fun (p : node -> Prop) m => p m) (rfields_repr zh fs vs) ms ->
  (forall j m, nth_error ms j = Some m -> get_node t n (i + N.of_nat j) = OK m) ->
  sumN (map part_len (ser_fields fs vs)) < 2 ^ 64 -> acc < two64 ->
  bl_fields (view_depth t) n fs i acc = OK (wrap64 (acc + sumN (map part_len (ser_fields fs vs)))).
Proof.
  induction fs as [|f fs IHfs]; intros vs ms i acc HIH Hwf Hs Hf Ht HF Hget Hl Hacc.
  - destruct vs; [|discriminate Ht]. cbn [ser_fields map sumN fold_right].
    rewrite N.add_0_r, wrap64_small by exact Hacc. reflexivity.
  - destruct vs as [|x vs]; [discriminate Ht|].
    cbn [has_type_fields] in Ht. apply andb_true_iff in Ht. destruct Ht as [Htx Ht].
    cbn [forallb] in Hwf, Hs, Hf. apply andb_true_iff in Hwf, Hs, Hf.
    destruct Hwf as [Hwfx Hwf]. destruct Hs as [Hsx Hs]. destruct Hf as [Hfx Hf].
    inversion HIH as [|? ? IHx HIH']; subst.
    cbn [rfields_repr] in HF. inversion HF as [|? m ? ms' Hrm HF']; subst.
    cbn [ser_fields map] in *. rewrite sumN_cons in *.
    unfold part_len at 1 in Hl. unfold part_len at 1. cbn [fst snd] in *.
    rewrite bl_fields_cons, info_fixed_flag.
    assert (Hget' : forall j m0, nth_error ms' j = Some m0 ->
                                 get_node t n (i + 1 + N.of_nat j) = OK m0).
    { intros j m0 Hj. specialize (Hget (S j) m0 Hj).
      replace (i + 1 + N.of_nat j) with (i + N.of_nat (S j)) by lia. exact Hget. }
    destruct (spec_is_fixed f) eqn:Hfix.
    + rewrite (fixed_size f x Hfix Hsx Htx) by lia.
      rewrite (IHfs vs ms' (i + 1) _ HIH' Hwf Hs Hf Ht HF' Hget') by (try apply wrap64_lt; lia).
      unfold add64. rewrite wrap64_add_l. do 2 f_equal. lia.
    + specialize (Hget 0%nat m eq_refl). change (N.of_nat 0) with 0 in Hget.
      rewrite N.add_0_r in Hget. unfold get_node in Hget.
      destruct (to_gindex64 i (view_depth t)) as [g| |]; try discriminate Hget.
      cbn [bind] in *. rewrite Hget. cbn [bind].
      rewrite (IHx Hwfx Hsx Hfx x m Htx Hrm) by lia. cbn [bind].
      rewrite (IHfs vs ms' (i + 1) _ HIH' Hwf Hs Hf Ht HF' Hget') by (try apply wrap64_lt; lia).
      unfold add64. rewrite wrap64_add_r, wrap64_add_l. do 2 f_equal. lia.
Qed.

Lemma bl_cont fs : Forall bl_stmt fs -> bl_stmt (TContainer fs).
Proof.
  intros IH Hwf Hs Hf v n Ht Hr Hl. rewrite byte_len_cont, info_fixed_flag.
  destruct (spec_is_fixed (TContainer fs)) eqn:Hfx.
  - f_equal. now apply fixed_size.
  - dval v Ht.
    destruct (cont_nodes fs vs n Hs Hf Ht Hr) as (ms & _ & HF & Hget).
    rewrite SizeProofs.has_type_cont in Ht. rewrite spec_ser_cont, ser_parts_lenN in *.
    cbn [wf_ty] in Hwf. apply andb_true_iff in Hwf. destruct Hwf as [_ Hwf].
    cbn [small_params] in Hs. cbn [small_fields] in Hf. apply andb_true_iff in Hf.
    destruct Hf as [_ Hf].
    rewrite (bl_fields_spec (TContainer fs) n fs vs ms 0 0 IH Hwf Hs Hf Ht HF); try assumption.
    + rewrite N.add_0_l, wrap64_small by (rewrite <- pow64; exact Hl). reflexivity.
    + rewrite <- pow64. lia.
Qed.

Lemma bl_union none opts : Forall bl_stmt opts -> bl_stmt (TUnion none opts).
Proof.
  intros IH Hwf Hs Hf v n Ht Hr Hl. dval v Ht.
  destruct (union_sel_range none opts sel v Hwf Ht) as [Hsel Hcnt].
  rewrite repr_union in Hr. destruct Hr as (c & -> & Hr).
  destruct (sel_leaf sel ltac:(lia)) as [Hz Hhd].
  rewrite byte_len_union, Hz, Hhd. cbn [negb]. cbv zeta.
  rewrite wrap8_small by lia. rewrite (proj2 (N.leb_gt _ _) Hsel).
  rewrite spec_ser_union' in *.
  destruct (union_cases zh none opts sel v c Ht Hr) as [(Hn & -> & _)|(Hn & o & x & -> & Hk & Htx & Hrx)];
    rewrite Hn; [reflexivity|].
  rewrite !rpick_nth_error, Hk in *.
  pose proof (nth_error_In _ _ Hk) as Hin.
  cbn [wf_ty] in Hwf. rewrite !andb_true_iff in Hwf. destruct Hwf as [_ Hwf].
  cbn [small_params] in Hs. cbn [small_fields] in Hf.
  rewrite forallb_forall in Hwf, Hs, Hf. rewrite Forall_forall in IH.
  rewrite lenN_cons in *.
  rewrite (IH o Hin (Hwf o Hin) (Hs o Hin) (Hf o Hin) x c Htx Hrx) by lia. cbn [bind].
  unfold add64. rewrite wrap64_small by (rewrite <- pow64; lia). f_equal. lia.
Qed.

Theorem byte_len_spec : forall t v n,
  wf_ty t = true -> small_params t = true -> small_fields t = true ->
  has_type v t = true -> repr zh t n v -> lenN (spec_ser t v) < 2 ^ 64 ->
  byte_len t n = OK (lenN (spec_ser t v)).
Proof.
  intros t. induction t using ty_nind; intros v n0 Hwf Hs Hf Ht Hr Hl.
  - now apply bl_uint.
  - now apply bl_bool.
  - now apply bl_bytes.
  - now apply bl_root.
  - now apply bl_bitvector.
  - now apply bl_bitlist.
  - apply bl_vector; try assumption. intros ? ? ? ? ? ? ? ?. now apply IHt.
  - apply bl_list; try assumption. intros ? ? ? ? ? ? ? ?. now apply IHt.
  - apply bl_cont; try assumption. eapply Forall_impl; [|exact H].
    intros f Hfld ? ? ? ? ? ? ? ?. now apply Hfld.
  - apply bl_union; try assumption. eapply Forall_impl; [|exact H].
    intros f Hfld ? ? ? ? ? ? ? ?. now apply Hfld.
Qed.

End ByteLen.

(* ------------------------------------------------------------------------------------ *)
(** * 8. Serialize *)

Lemma two32_lt64 : two32 < two64.
Proof. now vm_compute. Qed.

Lemma uint_width_le32 w : uint_width_ok w = true -> 1 <= w <= 32.
Proof.
  unfold uint_width_ok. rewrite !orb_true_iff, !N.eqb_eq. lia.
Qed.

Section Ser.
Variable zh : nat -> chunk.

Definition ser_stmt (t : ty) : Prop :=
  wf_ty t = true -> small_params t = true -> small_fields t = true ->
  forall v n, has_type v t = true -> repr zh t n v -> lenN (spec_ser t v) < 2 ^ 32 ->
  ser_node t n = OK (spec_ser t v).

Lemma ser_uint w : ser_stmt (TUint w).
Proof.
  intros Hwf _ _ v nd Ht Hr _. dval v Ht. cbn [repr] in Hr. subst nd.
  cbn [wf_ty] in Hwf. cbn [ser_node spec_ser]. rewrite Hwf.
  pose proof (uint_width_le32 w Hwf). f_equal. apply firstn_pad32.
  - apply le_bytes_length.
  - unfold nat_of. lia.
Qed.

Lemma ser_bool : ser_stmt TBool.
Proof.
  intros _ _ _ v n Ht Hr _. dval v Ht. cbn [repr] in Hr. subst n. destruct b; reflexivity.
Qed.

Lemma ser_bytes k : ser_stmt (TBytes k).
Proof.
  intros Hwf _ _ v n Ht Hr _. dval v Ht. cbn [repr] in Hr. subst n.
  cbn [has_type] in Ht. apply N.eqb_eq in Ht.
  cbn [wf_ty] in Hwf. apply andb_true_iff in Hwf. destruct Hwf as [H1 H32]. apply N.leb_le in H32.
  cbn [ser_node spec_ser]. rewrite (proj2 (N.ltb_ge 32 k) H32). f_equal.
  apply firstn_pad32; unfold nat_of; lia.
Qed.

Lemma ser_root : ser_stmt TRoot.
Proof.
  intros _ _ _ v n Ht Hr _. dval v Ht. cbn [repr] in Hr. subst n.
  cbn [has_type] in Ht. apply N.eqb_eq in Ht.
  cbn [ser_node spec_ser]. f_equal. apply pad32_full. lia.
Qed.

Lemma ser_bitvector k : ser_stmt (TBitvector k).
Proof.
  intros _ Hs _ v n Ht Hr Hl.
  pose proof (fixed_size (TBitvector k) v eq_refl Hs Ht) as Hsz.
  pose proof (small_contents_depth _ Hs) as Hd. cbv beta iota in Hd.
  dval v Ht. cbn [has_type] in Ht. apply N.eqb_eq in Ht. fold (lenN bs) in Ht.
  cbn [small_params] in Hs. apply N.leb_le in Hs.
  cbn [repr] in Hr. unfold bit_chunks in Hr.
  cbn [ser_node spec_ser] in *.
  apply (sib_chunks zh (cdepth (TBitvector k)) _ n); try exact Hr.
  - rewrite cdepth_N. unfold view_depth. cbn [is_list_ty]. lia.
  - unfold view_depth. cbn [is_list_ty]. lia.
  - rewrite bits_bottom_count_spec by exact Hs. fold (bit_chunks bs). now rewrite bit_chunks_lenN, Ht.
  - apply Hsz. pose proof two32_lt64. rewrite pow64. rewrite <- two32_eq in Hl. lia.
Qed.

Lemma ser_bitlist k : ser_stmt (TBitlist k).
Proof.
  intros _ Hs _ v n Ht Hr Hl.
  pose proof (small_contents_depth _ Hs) as Hd. cbv beta iota in Hd.
  dval v Ht. cbn [has_type] in Ht. apply N.leb_le in Ht. fold (lenN bs) in Ht.
  cbn [small_params] in Hs. apply N.leb_le in Hs.
  cbn [repr] in Hr. destruct Hr as (c & -> & Hr). unfold bit_chunks in Hr.
  pose proof small_plus8 as H56.
  assert (H255 : lenN bs + 255 < two64).
  { rewrite <- pow64 in *. change (2 ^ 64) with (2 ^ 56 * 256) in *.
    pose proof (pow2_pos 56). lia. }
  cbn [ser_node node_left bind].
  rewrite (list_length_len_leaf k c (lenN bs) Ht) by (rewrite pow64; lia). cbn [bind].
  rewrite (sib_chunks_gen zh (cdepth (TBitlist k)) (bits_to_bytes bs) c _ _ _ Hr).
  - cbn [bind spec_ser]. unfold ser_bitlist. f_equal.
    destruct (concat_chunkify (bits_to_bytes bs)) as (m & ->).
    rewrite wrap64_small by lia.
    replace (nat_of ((lenN bs + 8) / 8)) with (length bs / 8 + 1)%nat by (unfold nat_of, lenN; lia).
    apply bitlist_bytes.
  - now rewrite cdepth_N.
  - lia.
  - rewrite wrap64_small, shiftr8 by lia. fold (bit_chunks bs). now rewrite bit_chunks_lenN.
  - rewrite wrap64_small by lia. rewrite bits_to_bytes_lenN. lia.
Qed.

Lemma elems_ser e vs ms :
  ser_stmt e -> wf_ty e = true -> small_params e = true -> small_fields e = true ->
  forallb (fun x => has_type x e) vs = true ->
  Forall2 (fun x m => repr zh e m x) vs ms ->
  sumN (map (fun x => lenN (spec_ser e x)) vs) < 2 ^ 32 ->
  mapM (ser_node e) ms = OK (map (spec_ser e) vs).
Proof.
  intros IH Hwf Hs Hf Hty HF Hsum. rewrite forallb_forall in Hty.
  apply (mapM_F2 _ _ _ _ _ HF). intros x m Hin Hr.
  apply IH; auto.
  pose proof (sumN_map_In_le (fun x => lenN (spec_ser e x)) vs x Hin). cbv beta in *. lia.
Qed.

(* a packed series: SubtreeIntoBytes over the chunks of the concatenated encodings *)
Lemma packed_ser w d vs c L :
  uint_width_ok w = true -> L <= 2 ^ 56 -> lenN vs = L ->
  forallb (fun x => has_type x (TUint w)) vs = true ->
  series zh d (map is_chunk (packed_chunks (TUint w) vs)) c -> N.of_nat d < 64 ->
  subtree_into_bytes c (N.of_nat d) (bottom_count (TUint w) L) (L * w) =
  OK (concat (map (spec_ser (TUint w)) vs)).
Proof.
  intros Hw HL Hlen Hty Hs Hd. unfold packed_chunks in Hs.
  rewrite <- flat_map_concat_map.
  pose proof (lenN_flat_map_uint w vs Hty) as HB.
  apply (sib_chunks zh d _ c); try exact Hs; try reflexivity; try exact Hd.
  - rewrite bottom_count_uint by assumption. unfold chunk_count_basic. cbn [spec_fixed_len].
    now rewrite chunkify_lenN, HB, Hlen.
  - now rewrite HB, Hlen.
Qed.

Lemma ser_vector e k : ser_stmt e -> ser_stmt (TVector e k).
Proof.
  intros IH Hwf Hs Hf v n Ht Hr Hl. rewrite ser_node_vector.
  pose proof two32_lt64 as H3264. rewrite <- two32_eq in Hl.
  assert (Hl64 : lenN (spec_ser (TVector e k) v) < 2 ^ 64) by (rewrite pow64; lia).
  pose proof (small_contents_depth _ Hs) as Hd. cbv beta iota in Hd.
  destruct (is_basic_elem e) eqn:Hb.
  - destruct e; try discriminate Hb.
    pose proof (fixed_size (TVector (TUint w) k) v eq_refl Hs Ht Hl64) as Hsz.
    dval v Ht.
    cbn [has_type] in Ht. apply andb_true_iff in Ht. destruct Ht as [Hlen Hty].
    apply N.eqb_eq in Hlen. fold (lenN vs) in Hlen.
    cbn [wf_ty] in Hwf. apply andb_true_iff in Hwf. destruct Hwf as [_ Hw].
    cbn [small_params] in Hs. apply andb_true_iff in Hs. destruct Hs as [Hk _]. apply N.leb_le in Hk.
    rewrite repr_vector in Hr. cbn [is_basic_elem] in Hr.
    rewrite spec_ser_vector in *. cbn [spec_is_fixed] in *. rewrite ser_parts_fixed in *.
    rewrite vec_depth, <- cdepth_N, Hsz. subst k.
    rewrite <- flat_map_concat_map, (lenN_flat_map_uint w vs Hty), flat_map_concat_map.
    apply packed_ser; try assumption; try reflexivity. rewrite cdepth_N. lia.
  - dval v Ht.
    cbn [has_type] in Ht. apply andb_true_iff in Ht. destruct Ht as [Hlen Hty].
    apply N.eqb_eq in Hlen. fold (lenN vs) in Hlen.
    cbn [wf_ty] in Hwf. apply andb_true_iff in Hwf. destruct Hwf as [_ Hwfe].
    cbn [small_params] in Hs. apply andb_true_iff in Hs. destruct Hs as [Hk Hse]. apply N.leb_le in Hk.
    cbn [small_fields] in Hf.
    rewrite repr_vector, Hb in Hr.
    destruct (series_elems_iter zh e _ vs n Hr) as (ms & Hms & HF).
    { rewrite cdepth_N. lia. }
    rewrite cdepth_N, Hlen in Hms. rewrite vec_depth, Hms. cbn [bind].
    rewrite info_fixed_flag. cbn [spec_is_fixed]. rewrite spec_ser_vector in *.
    destruct (spec_is_fixed e) eqn:Hfx.
    + rewrite series_lenN_fixed in Hl. rewrite ser_parts_fixed.
      rewrite (elems_ser e vs ms IH Hwfe Hse Hf Hty HF) by (rewrite <- two32_eq; lia).
      reflexivity.
    + rewrite series_lenN_var in Hl.
      rewrite (elems_byte_len zh e vs ms (fun a b c v n => byte_len_spec zh e v n a b c)
                 Hwfe Hse Hf Hty HF) by (rewrite pow64; lia).
      cbn [bind].
      destruct (ser_parts_var (spec_ser e) vs ltac:(lia)) as (offs & Hoffs & ->).
      rewrite mul64_small by lia. rewrite <- Hlen, N.mul_comm, Hoffs. cbn [bind].
      rewrite (elems_ser e vs ms IH Hwfe Hse Hf Hty HF) by (rewrite <- two32_eq; lia).
      reflexivity.
Qed.

Lemma ser_list e k : ser_stmt e -> ser_stmt (TList e k).
Proof.
  intros IH Hwf Hs Hf v n Ht Hr Hl. rewrite ser_node_list.
  pose proof two32_lt64 as H3264. rewrite <- two32_eq in Hl.
  pose proof (small_contents_depth _ Hs) as Hd. cbv beta iota in Hd.
  pose proof pow56_lt as H56.
  dval v Ht.
  cbn [has_type] in Ht. apply andb_true_iff in Ht. destruct Ht as [Hlen Hty].
  apply N.leb_le in Hlen. fold (lenN vs) in Hlen.
  cbn [wf_ty] in Hwf.
  cbn [small_params] in Hs. apply andb_true_iff in Hs. destruct Hs as [Hk Hse]. apply N.leb_le in Hk.
  cbn [small_fields] in Hf.
  rewrite repr_list in Hr. destruct Hr as (c & -> & Hr).
  rewrite (list_length_len_leaf k c (lenN vs) Hlen) by (rewrite pow64; lia).
  cbn [node_left bind]. rewrite spec_ser_list in *.
  destruct (is_basic_elem e) eqn:Hb.
  - destruct e; try discriminate Hb. cbn [spec_is_fixed] in *. rewrite ser_parts_fixed in *.
    cbv zeta. cbn [info ti_size].
    change (wrap64 (lenN vs + 32 / w - 1) / (32 / w)) with (bottom_count (TUint w) (lenN vs)).
    pose proof Hl as Hl'.
    rewrite <- flat_map_concat_map, (lenN_flat_map_uint w vs Hty) in Hl'.
    rewrite mul64_small by lia. rewrite <- cdepth_N.
    apply packed_ser; try assumption; try reflexivity; try lia. rewrite cdepth_N. lia.
  - destruct (series_elems_iter zh e _ vs c Hr) as (ms & Hms & HF).
    { rewrite cdepth_N. lia. }
    rewrite cdepth_N in Hms. rewrite Hms. cbn [bind].
    rewrite info_fixed_flag.
    destruct (spec_is_fixed e) eqn:Hfx.
    + rewrite series_lenN_fixed in Hl. rewrite ser_parts_fixed.
      rewrite (elems_ser e vs ms IH Hwf Hse Hf Hty HF) by (rewrite <- two32_eq; lia).
      reflexivity.
    + rewrite series_lenN_var in Hl.
      rewrite (elems_byte_len zh e vs ms (fun a b c v n => byte_len_spec zh e v n a b c)
                 Hwf Hse Hf Hty HF) by (rewrite pow64; lia).
      cbn [bind].
      destruct (ser_parts_var (spec_ser e) vs ltac:(lia)) as (offs & Hoffs & ->).
      rewrite mul64_small by lia. rewrite N.mul_comm, Hoffs. cbn [bind].
      rewrite (elems_ser e vs ms IH Hwf Hse Hf Hty HF) by (rewrite <- two32_eq; lia).
      reflexivity.
Qed.

(* ---- containers: the two-phase layout ---- *)
Lemma ser_fields_go_spec : forall fs vs ms po ps fixed dyn,
  Forall ser_stmt fs -> forallb wf_ty fs = true -> forallb small_params fs = true ->
  forallb small_fields fs = true -> has_type_fields fs vs = true ->
  Forall2 (fun (p : node -> Prop) m => p m) (rfields_repr zh fs vs) ms ->
  Forall (fun p : part => lenN (snd p) < two32) (ser_fields fs vs) ->
  po + ps + sumN (map var_len (ser_fields fs vs)) < two32 ->
  ser_fields_go fs ms po ps fixed dyn =
  OK ((fixed ++ fst (ser_parts_go (ser_fields fs vs) (po + ps))) ++
      (dyn ++ snd (ser_parts_go (ser_fields fs vs) (po + ps)))).
Proof.
  induction fs as [|f fs IHfs]; intros vs ms po ps fixed dyn HIH Hwf Hs Hf Ht HF Hall Hb.
  - destruct vs; [|discriminate Ht]. cbn [rfields_repr] in HF. inversion HF; subst.
    cbn [ser_fields_go ser_fields ser_parts_go fst snd]. now rewrite !app_nil_r.
  - destruct vs as [|x vs]; [discriminate Ht|].
    cbn [has_type_fields] in Ht. apply andb_true_iff in Ht. destruct Ht as [Htx Ht].
    cbn [forallb] in Hwf, Hs, Hf. apply andb_true_iff in Hwf, Hs, Hf.
    destruct Hwf as [Hwfx Hwf]. destruct Hs as [Hsx Hs]. destruct Hf as [Hfx Hf].
    inversion HIH as [|? ? IHx HIH']; subst.
    cbn [rfields_repr] in HF. inversion HF as [|? m ? ms' Hrm HF']; subst.
    cbn [ser_fields map] in *. rewrite sumN_cons in Hb.
    inversion Hall as [|? ? Hlx Hall']; subst. cbn [snd] in Hlx.
    unfold var_len at 1 in Hb. cbn [fst snd] in Hb.
    cbn [ser_fields_go]. rewrite info_fixed_flag.
    pose proof two32_lt64 as H3264.
    rewrite (IHx Hwfx Hsx Hfx x m Htx Hrm) by (rewrite <- two32_eq; exact Hlx). cbn [bind].
    destruct (spec_is_fixed f) eqn:Hfix.
    + rewrite (IHfs vs ms' po ps _ dyn HIH' Hwf Hs Hf Ht HF' Hall') by lia.
      cbn [ser_parts_go].
      destruct (ser_parts_go (ser_fields fs vs) (po + ps)) as [F V]. cbn [fst snd].
      now rewrite <- !app_assoc.
    + rewrite (byte_len_spec zh f x m Hwfx Hsx Hfx Htx Hrm) by (rewrite pow64; lia). cbn [bind].
      unfold write_offset.
      rewrite (proj2 (N.leb_gt two32 po)) by lia.
      rewrite (proj2 (N.leb_gt two32 ps)) by lia.
      rewrite (proj2 (N.leb_gt two32 (po + ps))) by lia. cbn [bind].
      rewrite (IHfs vs ms' (po + ps) (lenN (spec_ser f x)) _ _ HIH' Hwf Hs Hf Ht HF' Hall') by lia.
      cbn [ser_parts_go].
      destruct (ser_parts_go (ser_fields fs vs) (po + ps + lenN (spec_ser f x))) as [F V].
      cbn [fst snd]. now rewrite <- !app_assoc.
Qed.

Lemma ser_fields_len_all : forall ps : list part, sumN (map part_len ps) < two32 ->
  Forall (fun p : part => lenN (snd p) < two32) ps.
Proof.
  induction ps as [|p ps IH]; intros Hb; constructor.
  - cbn [map] in Hb. rewrite sumN_cons in Hb. unfold part_len in Hb. destruct (fst p); lia.
  - apply IH. cbn [map] in Hb. rewrite sumN_cons in Hb. lia.
Qed.

Lemma ser_cont fs : Forall ser_stmt fs -> ser_stmt (TContainer fs).
Proof.
  intros IH Hwf Hs Hf v n Ht Hr Hl. rewrite ser_node_cont.
  pose proof two32_lt64 as H3264. rewrite <- two32_eq in Hl.
  dval v Ht.
  destruct (cont_nodes zh fs vs n Hs Hf Ht Hr) as (ms & Hms & HF & _).
  rewrite Hms. cbn [bind].
  rewrite SizeProofs.has_type_cont in Ht. rewrite spec_ser_cont in *. rewrite ser_parts_lenN in Hl.
  cbn [wf_ty] in Hwf. apply andb_true_iff in Hwf. destruct Hwf as [_ Hwf].
  cbn [small_params] in Hs. cbn [small_fields] in Hf. apply andb_true_iff in Hf.
  destruct Hf as [_ Hf].
  pose proof (fixed_part_spec fs vs Hs Ht ltac:(rewrite pow64; lia)) as Hfp.
  pose proof (sum_part_len_split (ser_fields fs vs)) as Hsplit.
  rewrite (ser_fields_go_spec fs vs ms _ 0 [] [] IH Hwf Hs Hf Ht HF).
  - unfold ser_parts. rewrite N.add_0_r, Hfp.
    destruct (ser_parts_go (ser_fields fs vs) _) as [F V]. reflexivity.
  - now apply ser_fields_len_all.
  - lia.
Qed.

Lemma ser_union none opts : Forall ser_stmt opts -> ser_stmt (TUnion none opts).
Proof.
  intros IH Hwf Hs Hf v n Ht Hr Hl. dval v Ht.
  destruct (union_sel_range none opts sel v Hwf Ht) as [Hsel Hcnt].
  rewrite repr_union in Hr. destruct Hr as (c & -> & Hr).
  destruct (sel_leaf sel ltac:(lia)) as [Hz Hhd].
  rewrite ser_node_union, Hz, Hhd. cbn [negb]. cbv zeta.
  rewrite wrap8_small by lia. rewrite (proj2 (N.leb_gt _ _) Hsel).
  rewrite spec_ser_union' in *.
  destruct (union_cases zh none opts sel v c Ht Hr) as [(Hn & -> & _)|(Hn & o & x & -> & Hk & Htx & Hrx)];
    rewrite Hn; [reflexivity|].
  rewrite !rpick_nth_error, Hk in *.
  pose proof (nth_error_In _ _ Hk) as Hin.
  cbn [wf_ty] in Hwf. rewrite !andb_true_iff in Hwf. destruct Hwf as [_ Hwf].
  cbn [small_params] in Hs. cbn [small_fields] in Hf.
  rewrite forallb_forall in Hwf, Hs, Hf. rewrite Forall_forall in IH.
  rewrite lenN_cons in *.
  rewrite (IH o Hin (Hwf o Hin) (Hs o Hin) (Hf o Hin) x c Htx Hrx) by lia. reflexivity.
Qed.

Theorem ser_node_spec : forall t v n,
  wf_ty t = true -> small_params t = true -> small_fields t = true ->
  has_type v t = true -> repr zh t n v -> lenN (spec_ser t v) < 2 ^ 32 ->
  ser_node t n = OK (spec_ser t v).
Proof.
  intros t. induction t using ty_nind; intros v n0 Hwf Hs Hf Ht Hr Hl.
  - now apply ser_uint.
  - now apply ser_bool.
  - now apply ser_bytes.
  - now apply ser_root.
  - now apply ser_bitvector.
  - now apply ser_bitlist.
  - apply ser_vector; try assumption. intros ? ? ? ? ? ? ? ?. now apply IHt.
  - apply ser_list; try assumption. intros ? ? ? ? ? ? ? ?. now apply IHt.
  - apply ser_cont; try assumption. eapply Forall_impl; [|exact H].
    intros f Hfld ? ? ? ? ? ? ? ?. now apply Hfld.
  - apply ser_union; try assumption. eapply Forall_impl; [|exact H].
    intros f Hfld ? ? ? ? ? ? ? ?. now apply Hfld.
Qed.

End Ser.

(* ------------------------------------------------------------------------------------ *)
(** * 9. The typed getters on a representing tree *)

Lemma got_step_val r v : got_step r = IVal v -> r = OK (GVal v).
Proof. destruct r as [[x|t m]| |]; cbn [got_step]; congruence. Qed.

Lemma In_map_IVal_err vals : ~ In IErr (map IVal vals).
Proof. intros H. apply in_map_iff in H. destruct H as (x & Hx & _). discriminate Hx. Qed.

Lemma Forall_map_IVal_comp vals : Forall (fun s => is_comp s = true) (map IVal vals).
Proof. apply Forall_forall. intros s H. apply in_map_iff in H. destruct H as (x & <- & _). reflexivity. Qed.

(* packed values / bits: the read-only iterator lists them, hence so do the getters (C17) *)
Lemma get_vals t n vals len :
  wf_ty t = true -> view_depth t < 64 ->
  ro_iter t n 0 = map IVal vals ++ repeat IEnd 0 -> series_len t n = OK len ->
  length vals = N.to_nat len /\
  forall i, i < len -> view_get t n i = OK (GVal (nth (N.to_nat i) vals (VUint 0))).
Proof.
  intros Hwf Hd Hro Hlen.
  destruct (repr_get_all_eq t n 0 (map IVal vals) len Hwf Hd Hro (In_map_IVal_err vals)
              (Forall_map_IVal_comp vals) Hlen) as (Hget & _ & Hl).
  rewrite map_length in Hl. split; [exact Hl|]. intros i Hi.
  unfold get_all in Hget. rewrite Hlen in Hget. apply got_step_val.
  assert (Hn : nth_error (map (fun i => got_step (view_get t n (N.of_nat i))) (seq 0 (nat_of len)))
                         (N.to_nat i) = Some (got_step (view_get t n i))).
  { rewrite nth_error_map, nth_error_seq0 by (unfold nat_of; lia). cbn [option_map].
    now rewrite N2Nat.id. }
  rewrite Hget, nth_error_map in Hn.
  rewrite (nth_error_nth' vals (VUint 0)) in Hn by lia. cbn [option_map] in Hn. congruence.
Qed.

Section Getters.
Variable zh : nat -> chunk.

(* ---- length ---- *)
Theorem length_bits k n bs :
  small_params (TBitlist k) = true -> has_type (VBits bs) (TBitlist k) = true ->
  repr zh (TBitlist k) n (VBits bs) -> list_length k n = OK (lenN bs).
Proof.
  intros Hs Ht Hr. cbn [has_type] in Ht. apply N.leb_le in Ht. fold (lenN bs) in Ht.
  cbn [small_params] in Hs. apply N.leb_le in Hs. pose proof pow56_lt.
  cbn [repr] in Hr. destruct Hr as (c & -> & _).
  apply list_length_len_leaf; [exact Ht|rewrite pow64; lia].
Qed.

Theorem length_list e k n vs :
  small_params (TList e k) = true -> has_type (VSeq vs) (TList e k) = true ->
  repr zh (TList e k) n (VSeq vs) -> list_length k n = OK (lenN vs).
Proof.
  intros Hs Ht Hr. cbn [has_type] in Ht. apply andb_true_iff in Ht. destruct Ht as [Ht _].
  apply N.leb_le in Ht. fold (lenN vs) in Ht.
  cbn [small_params] in Hs. apply andb_true_iff in Hs. destruct Hs as [Hs _].
  apply N.leb_le in Hs. pose proof pow56_lt.
  rewrite repr_list in Hr. destruct Hr as (c & -> & _).
  apply list_length_len_leaf; [exact Ht|rewrite pow64; lia].
Qed.

Lemma view_depth_nc t : small_params t = true ->
  match t with TContainer _ => False | _ => True end -> view_depth t < 64.
Proof. intros Hs Hc. apply small_view_depth; [exact Hs|]. intros fs ->. contradiction. Qed.

Lemma check_index_err t n ll i : list_length (list_limit t) n = OK ll -> ll <= i ->
  check_index t n i = Err.
Proof.
  intros Hl Hi. unfold check_index. rewrite Hl. cbn [bind].
  now rewrite (proj2 (N.leb_le ll i) Hi).
Qed.

(* ---- bits ---- *)
Theorem get_bit t bs n i :
  wf_ty t = true -> small_params t = true -> has_type (VBits bs) t = true ->
  repr zh t n (VBits bs) ->
  view_get t n i =
  if i <? lenN bs then OK (GVal (VBool (nth (N.to_nat i) bs false))) else Err.
Proof.
  intros Hwf Hs Ht Hr.
  assert (Hnth : forall j, (j < length bs)%nat ->
            nth j (map VBool bs) (VUint 0) = VBool (nth j bs false)).
  { intros j Hj. rewrite (nth_indep _ (VUint 0) (VBool false)) by (rewrite map_length; exact Hj).
    apply (map_nth VBool). }
  destruct t as [| | | |k|k| | | |]; try discriminate Ht.
  - pose proof (repr_ro_bitvector zh k n bs 0 Hs Hr Ht) as Hro. rewrite <- map_map in Hro.
    destruct (get_vals _ n _ k Hwf (view_depth_nc _ Hs I) Hro eq_refl) as [Hl Hget].
    cbn [has_type] in Ht. apply N.eqb_eq in Ht. fold (lenN bs) in Ht. rewrite Ht.
    destruct (N.ltb_spec i k) as [Hi|Hi].
    + rewrite (Hget i Hi), Hnth by (unfold lenN in Ht; lia). reflexivity.
    + cbn [view_get]. now rewrite (proj2 (N.leb_le k i) Hi).
  - pose proof (repr_ro_bitlist zh k n bs 0 Hs Hr Ht) as Hro. rewrite <- map_map in Hro.
    pose proof (length_bits k n bs Hs Ht Hr) as Hll.
    destruct (get_vals _ n _ (lenN bs) Hwf (view_depth_nc _ Hs I) Hro Hll) as [Hl Hget].
    destruct (N.ltb_spec i (lenN bs)) as [Hi|Hi].
    + rewrite (Hget i Hi), Hnth by (unfold lenN in Hi; lia). reflexivity.
    + cbn [view_get]. now rewrite (check_index_err (TBitlist k) n (lenN bs) i Hll Hi).
Qed.

(* ---- packed basic elements ---- *)
Theorem get_packed t w k vs n i :
  t = TVector (TUint w) k \/ t = TList (TUint w) k ->
  wf_ty t = true -> small_params t = true -> has_type (VSeq vs) t = true ->
  repr zh t n (VSeq vs) ->
  view_get t n i = if i <? lenN vs then OK (GVal (nth (N.to_nat i) vs (VUint 0))) else Err.
Proof.
  intros [-> | ->] Hwf Hs Ht Hr.
  - pose proof (repr_ro_packed_vector zh w k n vs 0 Hwf Hs Hr Ht) as Hro.
    destruct (get_vals _ n _ k Hwf (view_depth_nc _ Hs I) Hro eq_refl) as [Hl Hget].
    cbn [has_type] in Ht. apply andb_true_iff in Ht. destruct Ht as [Ht _].
    apply N.eqb_eq in Ht. fold (lenN vs) in Ht. rewrite Ht.
    destruct (N.ltb_spec i k) as [Hi|Hi].
    + now rewrite (Hget i Hi).
    + cbn [view_get]. now rewrite (proj2 (N.leb_le k i) Hi).
  - pose proof (repr_ro_packed_list zh w k n vs 0 Hwf Hs Hr Ht) as Hro.
    pose proof (length_list _ k n vs Hs Ht Hr) as Hll.
    destruct (get_vals _ n _ (lenN vs) Hwf (view_depth_nc _ Hs I) Hro Hll) as [Hl Hget].
    destruct (N.ltb_spec i (lenN vs)) as [Hi|Hi].
    + now rewrite (Hget i Hi).
    + cbn [view_get]. now rewrite (check_index_err (TList (TUint w) k) n (lenN vs) i Hll Hi).
Qed.

(* ---- elements of a complex vector / list ---- *)
Theorem get_elem t e k vs n i :
  t = TVector e k \/ t = TList e k -> is_basic_elem e = false ->
  small_params t = true -> has_type (VSeq vs) t = true -> repr zh t n (VSeq vs) ->
  (forall x, nth_error vs (N.to_nat i) = Some x ->
             exists m, view_get t n i = OK (GNode e m) /\ repr zh e m x) /\
  (lenN vs <= i -> view_get t n i = Err).
Proof.
  intros Ht0 Hb Hs Ht Hr.
  pose proof (small_contents_depth _ Hs) as Hd.
  destruct Ht0 as [-> | ->]; cbv beta iota in Hd.
  - cbn [has_type] in Ht. apply andb_true_iff in Ht. destruct Ht as [Hlen _].
    apply N.eqb_eq in Hlen. fold (lenN vs) in Hlen.
    rewrite repr_vector, Hb in Hr.
    pose proof (series_length zh _ _ _ Hr) as Hsl. unfold lenN in Hsl.
    rewrite map_length, cdepth_N in Hsl. fold (lenN vs) in Hsl.
    split.
    + intros x Hx.
      assert (Hi : i < lenN vs).
      { assert (N.to_nat i < length vs)%nat by (apply nth_error_Some; congruence). unfold lenN. lia. }
      destruct (series_bottom zh _ _ n (N.to_nat i) (fun m => repr zh e m x) Hr) as (m & Hm & Hrm).
      { now rewrite nth_error_map, Hx. }
      rewrite N2Nat.id, cdepth_N in Hm. exists m. split; [|exact Hrm].
      cbn [view_get]. rewrite (proj2 (N.leb_gt k i)) by lia. rewrite Hb.
      rewrite get_node_bottom by (rewrite vec_depth; lia). rewrite vec_depth, Hm. reflexivity.
    + intros Hi. cbn [view_get]. now rewrite (proj2 (N.leb_le k i)) by lia.
  - pose proof (length_list e k n vs Hs Ht Hr) as Hll.
    cbn [has_type] in Ht. apply andb_true_iff in Ht. destruct Ht as [Hlen _].
    apply N.leb_le in Hlen. fold (lenN vs) in Hlen.
    rewrite repr_list in Hr. destruct Hr as (c & -> & Hr). rewrite Hb in Hr.
    pose proof (series_length zh _ _ _ Hr) as Hsl. unfold lenN in Hsl.
    rewrite map_length, cdepth_N in Hsl. fold (lenN vs) in Hsl.
    split.
    + intros x Hx.
      assert (Hi : i < lenN vs).
      { assert (N.to_nat i < length vs)%nat by (apply nth_error_Some; congruence). unfold lenN. lia. }
      destruct (series_bottom zh _ _ c (N.to_nat i) (fun m => repr zh e m x) Hr) as (m & Hm & Hrm).
      { now rewrite nth_error_map, Hx. }
      rewrite N2Nat.id, cdepth_N in Hm. exists m. split; [|exact Hrm].
      cbn [view_get]. rewrite (check_index_ok (TList e k) _ (lenN vs) i Hll Hi). cbn [bind].
      rewrite Hb.
      rewrite (get_node_bottom_list (TList e k) c _ i (contents_depth (TList e k)))
        by (try apply list_depth; lia).
      rewrite Hm. reflexivity.
    + intros Hi. cbn [view_get].
      now rewrite (check_index_err (TList e k) _ (lenN vs) i Hll Hi).
Qed.

(* ---- fields of a container ---- *)
Lemma rfields_repr_nth : forall fs vs i f x,
  nth_error fs i = Some f -> nth_error vs i = Some x ->
  nth_error (rfields_repr zh fs vs) i = Some (fun m => repr zh f m x).
Proof.
  induction fs as [|f0 fs IH]; intros [|x0 vs] [|i] f x Hf Hx; try discriminate.
  - cbn in Hf, Hx. injection Hf as ->. injection Hx as ->. reflexivity.
  - cbn [rfields_repr nth_error]. now apply IH.
Qed.

Theorem get_field fs vs n i :
  small_params (TContainer fs) = true -> small_fields (TContainer fs) = true ->
  has_type (VCont vs) (TContainer fs) = true -> repr zh (TContainer fs) n (VCont vs) ->
  (forall f x, nth_error fs (N.to_nat i) = Some f -> nth_error vs (N.to_nat i) = Some x ->
               exists m, view_get (TContainer fs) n i = OK (GNode f m) /\ repr zh f m x) /\
  (lenN fs <= i -> view_get (TContainer fs) n i = Err).
Proof.
  intros Hs Hf Ht Hr. split.
  - intros f x Hfi Hxi.
    destruct (cont_nodes zh fs vs n Hs Hf Ht Hr) as (ms & _ & HF & Hget).
    destruct (Forall2_nth_l _ _ _ _ _ HF (rfields_repr_nth fs vs _ f x Hfi Hxi)) as (m & Hm & Hrm).
    exists m. split; [|exact Hrm]. cbn [view_get]. unfold nat_of. rewrite Hfi.
    specialize (Hget _ m Hm). rewrite N2Nat.id in Hget. now rewrite Hget.
  - intros Hi. cbn [view_get].
    replace (nth_error fs (nat_of i)) with (@None ty); [reflexivity|].
    symmetry. apply nth_error_None. unfold nat_of, lenN in *. lia.
Qed.

(* ---- unions ---- *)
Theorem union_spec none opts sel ov n :
  wf_ty (TUnion none opts) = true -> has_type (VUnion sel ov) (TUnion none opts) = true ->
  repr zh (TUnion none opts) n (VUnion sel ov) ->
  union_selector (TUnion none opts) n = OK sel /\
  match ov with
  | None => union_value (TUnion none opts) n = OK None
  | Some x => exists o c, union_value (TUnion none opts) n = OK (Some (o, c)) /\
                          union_opt none opts sel = Some o /\
                          has_type x o = true /\ repr zh o c x
  end.
Proof.
  intros Hwf Ht Hr.
  destruct (union_sel_range none opts sel ov Hwf Ht) as [Hsel Hcnt].
  rewrite repr_union in Hr. destruct Hr as (c & -> & Hr).
  destruct (sel_leaf sel ltac:(lia)) as [Hz Hhd].
  assert (Hus : union_selector (TUnion none opts) (Pair c (Leaf (pad32 [byte_of_N sel]))) = OK sel).
  { cbn [union_selector]. rewrite Hz, Hhd. cbn [negb].
    rewrite wrap8_small by lia. now rewrite (proj2 (N.leb_gt _ _) Hsel). }
  split; [exact Hus|]. unfold union_value. rewrite Hus. cbn [bind].
  destruct (union_cases zh none opts sel ov c Ht Hr) as [(Hn & -> & _)|(Hn & o & x & -> & Hk & Htx & Hrx)].
  - apply andb_true_iff in Hn. destruct Hn as [-> Hn]. unfold union_opt. now rewrite Hn.
  - assert (Hopt : union_opt none opts sel = Some o).
    { unfold union_opt. destruct none; [|exact Hk]. cbn [andb] in Hn. now rewrite Hn. }
    exists o, c. rewrite Hopt. auto.
Qed.

End Getters.

(* ------------------------------------------------------------------------------------ *)
(** * 10. Reading the whole value back through the getters *)

Definition rv_elems (f : nat) (t : ty) (n : node) (count : N) : res (list val) :=
  mapM (fun i => do g <- view_get t n (N.of_nat i);
                 match g with
                 | GVal v => OK v
                 | GNode e c => read_val f e c
                 end) (seq 0 (nat_of count)).

Definition unbool (v : val) : bool := match v with VBool b => b | _ => false end.

Lemma read_val_S f t n :
  read_val (S f) t n =
  match t with
  | TUint _ | TBool | TBytes _ | TRoot => do c <- leaf_chunk n; leaf_val t c
  | TBitvector k => do vs <- rv_elems f t n k; OK (VBits (map unbool vs))
  | TBitlist k => do ll <- list_length k n; do vs <- rv_elems f t n ll; OK (VBits (map unbool vs))
  | TVector _ k => do vs <- rv_elems f t n k; OK (VSeq vs)
  | TList _ k => do ll <- list_length k n; do vs <- rv_elems f t n ll; OK (VSeq vs)
  | TContainer fs => do vs <- rv_elems f t n (N.of_nat (length fs)); OK (VCont vs)
  | TUnion _ _ =>
    do sel <- union_selector t n;
    do ov <- union_value t n;
    match ov with
    | None => OK (VUnion sel None)
    | Some (o, c) => do v <- read_val f o c; OK (VUnion sel (Some v))
    end
  end.
Proof. reflexivity. Qed.

Lemma rv_elems_ok f t n count (xs : list val) :
  length xs = nat_of count ->
  (forall i x, nth_error xs i = Some x ->
     exists g, view_get t n (N.of_nat i) = OK g /\
               match g with GVal v => v = x | GNode e c => read_val f e c = OK x end) ->
  rv_elems f t n count = OK xs.
Proof.
  intros Hl Hall. unfold rv_elems. rewrite <- Hl. apply mapM_Forall2.
  apply Forall2_seq_nth. intros i x Hx. cbn [Nat.add].
  destruct (Hall i x Hx) as (g & -> & Hg). cbn [bind]. destruct g; congruence.
Qed.

Lemma nth_error_nth_some {A} (l : list A) i x d : nth_error l i = Some x -> nth i l d = x.
Proof. intros H. now apply nth_error_nth. Qed.

Lemma ty_depth_in f fs :
  In f fs -> (ty_depth f <= fold_right (fun f a => Nat.max (ty_depth f) a) O fs)%nat.
Proof.
  induction fs as [|g fs IH]; intros Hin; [contradiction|]. cbn [fold_right].
  destruct Hin as [->|Hin]; [lia|]. specialize (IH Hin). lia.
Qed.

Section ReadVal.
Variable zh : nat -> chunk.

Definition rv_stmt (t : ty) : Prop :=
  wf_ty t = true -> small_params t = true -> small_fields t = true ->
  forall v n fuel, has_type v t = true -> repr zh t n v -> (ty_depth t <= fuel)%nat ->
  read_val fuel t n = OK v.

Lemma rv_uint w : rv_stmt (TUint w).
Proof.
  intros Hwf _ _ v nd fuel Ht Hr Hfu. destruct fuel as [|f]; [cbn in Hfu; lia|].
  dval v Ht. cbn [repr] in Hr. subst nd. cbn [has_type] in Ht. apply N.ltb_lt in Ht.
  cbn [wf_ty] in Hwf. pose proof (uint_width_le32 w Hwf).
  rewrite read_val_S. cbn [leaf_chunk bind leaf_val]. do 2 f_equal.
  rewrite firstn_pad32 by (try apply le_bytes_length; unfold nat_of; lia).
  rewrite le_val_le_bytes, pow256. unfold nat_of. rewrite N2Nat.id. now apply N.mod_small.
Qed.

Lemma rv_bool : rv_stmt TBool.
Proof.
  intros _ _ _ v nd fuel Ht Hr Hfu. destruct fuel as [|f]; [cbn in Hfu; lia|].
  dval v Ht. cbn [repr] in Hr. subst nd. destruct b; reflexivity.
Qed.

Lemma rv_bytes k : rv_stmt (TBytes k).
Proof.
  intros Hwf _ _ v nd fuel Ht Hr Hfu. destruct fuel as [|f]; [cbn in Hfu; lia|].
  dval v Ht. cbn [repr] in Hr. subst nd. cbn [has_type] in Ht. apply N.eqb_eq in Ht.
  cbn [wf_ty] in Hwf. apply andb_true_iff in Hwf. destruct Hwf as [_ H32]. apply N.leb_le in H32.
  rewrite read_val_S. cbn [leaf_chunk bind leaf_val]. rewrite (proj2 (N.ltb_ge 32 k) H32).
  do 2 f_equal. apply firstn_pad32; unfold nat_of; lia.
Qed.

Lemma rv_root : rv_stmt TRoot.
Proof.
  intros _ _ _ v nd fuel Ht Hr Hfu. destruct fuel as [|f]; [cbn in Hfu; lia|].
  dval v Ht. cbn [repr] in Hr. subst nd. cbn [has_type] in Ht. apply N.eqb_eq in Ht.
  rewrite read_val_S. cbn [leaf_chunk bind leaf_val]. do 2 f_equal. apply pad32_full. lia.
Qed.

Lemma unbool_map bs : map unbool (map VBool bs) = bs.
Proof. rewrite map_map. cbn [unbool]. apply map_id. Qed.

(* all elements are plain values returned by Get *)
Lemma rv_elems_vals f t n count xs d :
  length xs = nat_of count ->
  (forall i, i < count -> view_get t n i = OK (GVal (nth (N.to_nat i) xs d))) ->
  rv_elems f t n count = OK xs.
Proof.
  intros Hl Hget. apply rv_elems_ok; [exact Hl|]. intros i x Hx.
  assert (Hi : (i < length xs)%nat) by (apply nth_error_Some; congruence).
  eexists. split; [apply Hget; unfold nat_of in Hl; lia|]. cbv beta iota.
  rewrite Nat2N.id. now apply nth_error_nth_some.
Qed.

Lemma rv_bits t : (exists k, t = TBitvector k \/ t = TBitlist k) -> rv_stmt t.
Proof.
  intros (k & Hk) Hwf Hs _ v nd fuel Ht Hr Hfu.
  destruct fuel as [|f]; [destruct Hk as [-> | ->]; cbn in Hfu; lia|].
  assert (Hv : exists bs, v = VBits bs) by (destruct Hk as [-> | ->]; dval v Ht; eauto).
  destruct Hv as (bs & ->).
  assert (Hget : forall i, i < lenN bs ->
            view_get t nd i = OK (GVal (nth (N.to_nat i) (map VBool bs) (VBool false)))).
  { intros i Hi. rewrite (get_bit zh t bs nd i Hwf Hs Ht Hr), (proj2 (N.ltb_lt _ _) Hi).
    now rewrite (map_nth VBool). }
  assert (Hel : rv_elems f t nd (lenN bs) = OK (map VBool bs)).
  { apply (rv_elems_vals f t nd (lenN bs) _ (VBool false)); [|exact Hget].
    rewrite map_length. unfold nat_of, lenN. lia. }
  rewrite read_val_S. destruct Hk as [-> | ->]; cbv iota.
  - pose proof Ht as Ht'. cbn [has_type] in Ht'. apply N.eqb_eq in Ht'. fold (lenN bs) in Ht'.
    rewrite Ht' in Hel. rewrite Hel. cbn [bind]. now rewrite unbool_map.
  - rewrite (length_bits zh k nd bs Hs Ht Hr). cbn [bind]. rewrite Hel. cbn [bind].
    now rewrite unbool_map.
Qed.

Lemma rv_series t e k : t = TVector e k \/ t = TList e k -> rv_stmt e -> rv_stmt t.
Proof.
  intros Ht0 IH Hwf Hs Hf v nd fuel Ht Hr Hfu.
  destruct fuel as [|f]; [destruct Ht0 as [-> | ->]; cbn in Hfu; lia|].
  assert (Hfe : (ty_depth e <= f)%nat) by (destruct Ht0 as [-> | ->]; cbn [ty_depth] in Hfu; lia).
  assert (Hv : exists vs, v = VSeq vs) by (destruct Ht0 as [-> | ->]; dval v Ht; eauto).
  destruct Hv as (vs & ->).
  assert (Hsub : wf_ty e = true /\ small_params e = true /\ small_fields e = true /\
                 forallb (fun x => has_type x e) vs = true).
  { destruct Ht0 as [-> | ->]; cbn [wf_ty small_params small_fields has_type] in *;
      rewrite ?andb_true_iff in *; tauto. }
  destruct Hsub as (Hwfe & Hse & Hfe' & Hty).
  assert (Hel : rv_elems f t nd (lenN vs) = OK vs).
  { destruct (is_basic_elem e) eqn:Hb.
    - destruct e; try discriminate Hb.
      apply (rv_elems_vals f t nd (lenN vs) _ (VUint 0)); [unfold nat_of, lenN; lia|].
      intros i Hi. rewrite (get_packed zh t w k vs nd i Ht0 Hwf Hs Ht Hr).
      now rewrite (proj2 (N.ltb_lt _ _) Hi).
    - apply rv_elems_ok; [unfold nat_of, lenN; lia|]. intros i x Hx.
      destruct (get_elem zh t e k vs nd (N.of_nat i) Ht0 Hb Hs Ht Hr) as [Hin _].
      rewrite Nat2N.id in Hin. destruct (Hin x Hx) as (m & Hm & Hrm).
      exists (GNode e m). split; [exact Hm|]. cbv beta iota.
      rewrite forallb_forall in Hty.
      apply IH; auto. apply Hty. eapply nth_error_In; eassumption. }
  rewrite read_val_S. destruct Ht0 as [-> | ->]; cbv iota.
  - pose proof Ht as Ht'. cbn [has_type] in Ht'. apply andb_true_iff in Ht'.
    destruct Ht' as [Ht' _]. apply N.eqb_eq in Ht'. fold (lenN vs) in Ht'.
    rewrite Ht' in Hel. rewrite Hel. reflexivity.
  - rewrite (length_list zh e k nd vs Hs Ht Hr). cbn [bind]. rewrite Hel. reflexivity.
Qed.

Lemma has_type_fields_nth : forall fs vs i f x,
  has_type_fields fs vs = true -> nth_error fs i = Some f -> nth_error vs i = Some x ->
  has_type x f = true.
Proof.
  induction fs as [|f0 fs IH]; intros [|x0 vs] [|i] f x Ht Hf Hx; try discriminate;
    cbn [has_type_fields] in Ht; apply andb_true_iff in Ht; destruct Ht as [Ht0 Ht].
  - cbn in Hf, Hx. injection Hf as ->. injection Hx as ->. exact Ht0.
  - cbn [nth_error] in Hf, Hx. eapply IH; eassumption.
Qed.

Lemma rv_cont fs : Forall rv_stmt fs -> rv_stmt (TContainer fs).
Proof.
  intros IH Hwf Hs Hf v nd fuel Ht Hr Hfu.
  destruct fuel as [|f]; [cbn in Hfu; lia|]. cbn [ty_depth] in Hfu.
  dval v Ht. pose proof (has_type_cont_length fs vs Ht) as Hlen.
  rewrite read_val_S.
  assert (Hel : rv_elems f (TContainer fs) nd (N.of_nat (length fs)) = OK vs).
  { apply rv_elems_ok; [unfold nat_of; lia|]. intros i x Hx.
    assert (Hi : (i < length fs)%nat) by (rewrite <- Hlen; apply nth_error_Some; congruence).
    destruct (nth_error fs i) as [fi|] eqn:Hfi; [|apply nth_error_None in Hfi; lia].
    destruct (get_field zh fs vs nd (N.of_nat i) Hs Hf Ht Hr) as [Hin _].
    rewrite Nat2N.id in Hin. destruct (Hin fi x Hfi Hx) as (m & Hm & Hrm).
    exists (GNode fi m). split; [exact Hm|]. cbv beta iota.
    pose proof (nth_error_In _ _ Hfi) as Hinf.
    rewrite SizeProofs.has_type_cont in Ht.
    cbn [wf_ty] in Hwf. apply andb_true_iff in Hwf. destruct Hwf as [_ Hwf].
    cbn [small_params] in Hs. cbn [small_fields] in Hf. apply andb_true_iff in Hf.
    destruct Hf as [_ Hf]. rewrite forallb_forall in Hwf, Hs, Hf. rewrite Forall_forall in IH.
    apply (IH fi Hinf); auto.
    - eapply has_type_fields_nth; eassumption.
    - pose proof (ty_depth_in fi fs Hinf). lia. }
  rewrite Hel. reflexivity.
Qed.

Lemma union_opt_in none opts sel o : union_opt none opts sel = Some o -> In o opts.
Proof.
  unfold union_opt. destruct none; [destruct (sel =? 0); [discriminate|]|];
    intros H; eapply nth_error_In; exact H.
Qed.

Lemma rv_union none opts : Forall rv_stmt opts -> rv_stmt (TUnion none opts).
Proof.
  intros IH Hwf Hs Hf v nd fuel Ht Hr Hfu.
  destruct fuel as [|f]; [cbn in Hfu; lia|]. cbn [ty_depth] in Hfu.
  dval v Ht. destruct (union_spec zh none opts sel v nd Hwf Ht Hr) as [Hsel Hval].
  rewrite read_val_S, Hsel. cbn [bind].
  destruct v as [x|].
  - destruct Hval as (o & c & Hv & Hopt & Htx & Hrx). rewrite Hv. cbn [bind].
    pose proof (union_opt_in _ _ _ _ Hopt) as Hin.
    cbn [wf_ty] in Hwf. rewrite !andb_true_iff in Hwf. destruct Hwf as [_ Hwf].
    cbn [small_params] in Hs. cbn [small_fields] in Hf.
    rewrite forallb_forall in Hwf, Hs, Hf. rewrite Forall_forall in IH.
    rewrite (IH o Hin (Hwf o Hin) (Hs o Hin) (Hf o Hin) x c f Htx Hrx); [reflexivity|].
    pose proof (ty_depth_in o opts Hin). lia.
  - rewrite Hval. reflexivity.
Qed.

Theorem read_val_spec : forall t v n fuel,
  wf_ty t = true -> small_params t = true -> small_fields t = true ->
  has_type v t = true -> repr zh t n v -> (ty_depth t <= fuel)%nat ->
  read_val fuel t n = OK v.
Proof.
  intros t. induction t using ty_nind; intros v n0 fuel Hwf Hs Hf Ht Hr Hfu.
  - now apply rv_uint.
  - now apply rv_bool.
  - now apply rv_bytes.
  - now apply rv_root.
  - apply rv_bits; eauto.
  - apply rv_bits; eauto.
  - apply (rv_series (TVector t n) t n); auto. intros ? ? ? ? ? ? ? ? ?. now apply IHt.
  - apply (rv_series (TList t n) t n); auto. intros ? ? ? ? ? ? ? ? ?. now apply IHt.
  - apply rv_cont; try assumption. eapply Forall_impl; [|exact H].
    intros f Hfld ? ? ? ? ? ? ? ? ?. now apply Hfld.
  - apply rv_union; try assumption. eapply Forall_impl; [|exact H].
    intros f Hfld ? ? ? ? ? ? ? ? ?. now apply Hfld.
Qed.

End ReadVal.

(* ------------------------------------------------------------------------------------ *)
(** * 11. Corollaries: constructed views; any two backings of the same value agree *)

Section Corollaries.
Variable H : chunk -> chunk -> chunk.
Variable zh : nat -> chunk.
Hypothesis Hzh : forall d, zh d = zero_hash H d.

(* a view constructed from a value serializes to the spec encoding and reads back as the value *)
Theorem roundtrip_model t v n :
  wf_ty t = true -> small_params t = true -> small_fields t = true -> has_type v t = true ->
  from_val zh t v = OK n -> lenN (spec_ser t v) < 2 ^ 32 ->
  ser_node t n = OK (spec_ser t v) /\
  byte_len t n = OK (lenN (spec_ser t v)) /\
  (forall fuel, (ty_depth t <= fuel)%nat -> read_val fuel t n = OK v).
Proof.
  intros Hwf Hs Hf Ht Hfrom Hl.
  destruct (from_val_repr H zh Hzh t v Hwf Hs Hf Ht) as (n' & Hn' & Hr).
  rewrite Hfrom in Hn'. injection Hn' as <-.
  split; [now apply (ser_node_spec zh)|]. split.
  - apply (byte_len_spec zh); try assumption.
    assert (2 ^ 32 < 2 ^ 64) by (apply N.pow_lt_mono_r; lia). lia.
  - intros fuel Hfu. now apply (read_val_spec zh).
Qed.

(* Two backing trees of the same value (e.g. the constructed one and the one obtained by
   deserializing the encoding) are indistinguishable by Serialize, ValueByteLength,
   HashTreeRoot and the getters. *)
Theorem repr_agree t v n n' :
  wf_ty t = true -> small_params t = true -> small_fields t = true -> has_type v t = true ->
  repr zh t n v -> repr zh t n' v -> lenN (spec_ser t v) < 2 ^ 32 ->
  ser_node t n' = ser_node t n /\
  byte_len t n' = byte_len t n /\
  (forall fuel, (ty_depth t <= fuel)%nat -> read_val fuel t n' = read_val fuel t n) /\
  (no_bool_seq t = true -> root_of H n' = root_of H n).
Proof.
  intros Hwf Hs Hf Ht Hr Hr' Hl.
  assert (Hl64 : lenN (spec_ser t v) < 2 ^ 64).
  { assert (2 ^ 32 < 2 ^ 64) by (apply N.pow_lt_mono_r; lia). lia. }
  rewrite !(ser_node_spec zh t v) by assumption.
  rewrite !(byte_len_spec zh t v) by assumption.
  repeat split.
  - intros fuel Hfu. now rewrite !(read_val_spec zh t v) by assumption.
  - intros Hnb. now rewrite !(repr_root H zh Hzh t v) by assumption.
Qed.

End Corollaries.

(* ------------------------------------------------------------------------------------ *)
(** * 12. Examples: the hypotheses are satisfiable; the model computes what the theorems say *)

Definition c02_ty : ty :=
  TContainer [TUint 8; TBool; TBytes 3; TRoot; TBitvector 12; TBitlist 300;
              TVector (TUint 2) 5; TList (TUint 4) 9;
              TVector (TList (TUint 1) 4) 2;
              TList (TContainer [TBool; TBitlist 5]) 4;
              TUnion true [TUint 4; TList (TUint 8) 3];
              TUnion false [TBool; TRoot]].

Definition c02_val : val :=
  VCont [VUint 77; VBool true; VBytes [Byte.x01; Byte.x02; Byte.x03]; VBytes (repeat Byte.x05 32);
         VBits (repeat true 12); VBits (repeat true 9 ++ [false; true]);
         VSeq [VUint 1; VUint 65535; VUint 3; VUint 4; VUint 5]; VSeq [VUint 7; VUint 8];
         VSeq [VSeq [VUint 1; VUint 2]; VSeq []];
         VSeq [VCont [VBool true; VBits [true; false]]; VCont [VBool false; VBits []]];
         VUnion 2 (Some (VSeq [VUint 9])); VUnion 1 (Some (VBytes (repeat Byte.x07 32)))].

Lemma ex_repr t v :
  wf_ty t = true -> small_params t = true -> small_fields t = true -> has_type v t = true ->
  exists n, from_val xzh t v = OK n /\ repr xzh t n v.
Proof. apply (from_val_repr (fun a b => a) xzh (fun d => eq_refl)). Qed.

(* hypotheses of ser_node_spec, byte_len_spec, read_val_spec, roundtrip_model, repr_agree *)
Example ex_c02_hyps :
  wf_ty c02_ty = true /\ small_params c02_ty = true /\ small_fields c02_ty = true /\
  no_bool_seq c02_ty = true /\
  has_type c02_val c02_ty = true /\ lenN (spec_ser c02_ty c02_val) = 162 /\
  (ty_depth c02_ty <= 4)%nat /\
  exists n, from_val xzh c02_ty c02_val = OK n /\ repr xzh c02_ty n c02_val.
Proof.
  repeat (split; [vm_compute; (reflexivity || lia)|]).
  apply ex_repr; reflexivity.
Qed.

(* the model, run: Serialize, ValueByteLength and the getters on the constructed view *)
Example ex_c02_run :
  match from_val xzh c02_ty c02_val with
  | OK n => ser_node c02_ty n = OK (spec_ser c02_ty c02_val) /\
            byte_len c02_ty n = OK 162 /\
            read_val 4 c02_ty n = OK c02_val /\
            read_val 3 c02_ty n = Panic
  | _ => False
  end.
Proof. vm_compute. repeat split; reflexivity. Qed.

(* hypotheses of length_bits / get_bit *)
Example ex_get_bit_hyps :
  let t := TBitlist 300 in let bs := repeat true 9 ++ [false; true] in
  wf_ty t = true /\ small_params t = true /\ has_type (VBits bs) t = true /\
  exists n, repr xzh t n (VBits bs).
Proof.
  cbv zeta. repeat (split; [reflexivity|]).
  destruct (ex_repr (TBitlist 300) (VBits (repeat true 9 ++ [false; true]))) as (n & _ & Hr);
    try reflexivity. eauto.
Qed.

(* hypotheses of length_list / get_packed *)
Example ex_get_packed_hyps :
  let t := TList (TUint 4) 9 in let vs := [VUint 7; VUint 8] in
  (t = TVector (TUint 4) 9 \/ t = TList (TUint 4) 9) /\
  wf_ty t = true /\ small_params t = true /\ has_type (VSeq vs) t = true /\
  exists n, repr xzh t n (VSeq vs).
Proof.
  cbv zeta. split; [now right|]. repeat (split; [reflexivity|]).
  destruct (ex_repr (TList (TUint 4) 9) (VSeq [VUint 7; VUint 8])) as (n & _ & Hr);
    try reflexivity. eauto.
Qed.

(* hypotheses of get_elem *)
Example ex_get_elem_hyps :
  let e := TList (TUint 1) 4 in let t := TVector e 2 in
  let vs := [VSeq [VUint 1; VUint 2]; VSeq []] in
  (t = TVector e 2 \/ t = TList e 2) /\ is_basic_elem e = false /\
  small_params t = true /\ has_type (VSeq vs) t = true /\
  (exists n, repr xzh t n (VSeq vs)) /\ nth_error vs (N.to_nat 1) = Some (VSeq []).
Proof.
  cbv zeta. split; [now left|]. repeat (split; [reflexivity|]). split; [|reflexivity].
  destruct (ex_repr (TVector (TList (TUint 1) 4) 2) (VSeq [VSeq [VUint 1; VUint 2]; VSeq []]))
    as (n & _ & Hr); try reflexivity. eauto.
Qed.

(* hypotheses of get_field *)
Example ex_get_field_hyps :
  small_params c02_ty = true /\ small_fields c02_ty = true /\
  has_type c02_val c02_ty = true /\ (exists n, repr xzh c02_ty n c02_val) /\
  nth_error [TUint 8; TBool] (N.to_nat 1) = Some TBool.
Proof.
  repeat (split; [reflexivity|]). split; [|reflexivity].
  destruct ex_c02_hyps as (_ & _ & _ & _ & _ & _ & _ & n & _ & Hr). eauto.
Qed.

(* hypotheses of union_spec *)
Example ex_union_hyps :
  let t := TUnion true [TUint 4; TList (TUint 8) 3] in
  wf_ty t = true /\ has_type (VUnion 2 (Some (VSeq [VUint 9]))) t = true /\
  has_type (VUnion 0 None) t = true /\
  (exists n, repr xzh t n (VUnion 2 (Some (VSeq [VUint 9])))) /\
  (exists n, repr xzh t n (VUnion 0 None)).
Proof.
  cbv zeta. repeat (split; [reflexivity|]). split.
  - destruct (ex_repr (TUnion true [TUint 4; TList (TUint 8) 3]) (VUnion 2 (Some (VSeq [VUint 9]))))
      as (n & _ & Hr); try reflexivity. eauto.
  - destruct (ex_repr (TUnion true [TUint 4; TList (TUint 8) 3]) (VUnion 0 None))
      as (n & _ & Hr); try reflexivity. eauto.
Qed.

(* the size premise of Serialize is necessary: WriteOffset panics at 2^32 (model level) *)
Example ex_write_offset_panics :
  write_offset (2 ^ 32 - 4) 4 = Panic /\ write_offset 8 (2 ^ 32) = Panic /\
  write_offset 8 4 = OK (12, le_bytes 4 12).
Proof. vm_compute. repeat split; reflexivity. Qed.

(* the model, run through Deserialize: the decoded view has the same encoding, byte length and
   component values as the constructed one (a concrete check only; the general statement is
   [repr_agree] together with the decoding theorem of DecodeProofs.v) *)
Example ex_c02_decode_run :
  match view_deserialize xzh c02_ty (spec_ser c02_ty c02_val) with
  | OK n => ser_node c02_ty n = OK (spec_ser c02_ty c02_val) /\
            byte_len c02_ty n = OK 162 /\
            read_val 4 c02_ty n = OK c02_val
  | _ => False
  end.
Proof. vm_compute. repeat split; reflexivity. Qed.
