(* SerProofs.v — property C02: on a backing tree that represents a value ([Repr.repr]),
   Serialize ([View.ser_node]) yields exactly the SSZ-spec encoding [Spec.spec_ser],
   ValueByteLength ([View.byte_len]) its length, and the typed getters ([View.list_length],
   [View.view_get], [View.union_selector], [View.union_value], and [View.read_val], which reads a
   whole value back through them) return the components of the value.

   Spec vocabulary used by Props/C02.v (defined here, all small):
     [ty_depth t]     nesting depth of a type (1 for the basic types); the fuel [read_val] needs.
     [union_content none opts sel ov]   what UnionView.Value returns for the value
                      [VUnion sel ov]: the selected option type paired with the content value,
                      or None for the None option. *)
From Coq Require Import PeanoNat ZArith ZifyN ZifyNat ZifyBool.
From Ztyp Require Import Base Bitlen Tree Types Spec View Iter Repr.
From Ztyp Require Import BitlenProofs MerkleProofs SizeProofs ReprProofs IterProofs.
From Ztyp Require BitfieldsProofs.
Open Scope N_scope.

#[local] Ltac Zify.zify_post_hook ::= Z.div_mod_to_equations.
Local Arguments N.pow : simpl never.
Local Arguments Nat.pow : simpl never.
Local Arguments N.of_nat : simpl never.
Local Arguments N.to_nat : simpl never.
Local Arguments N.div : simpl never.
Local Arguments N.modulo : simpl never.
Local Arguments N.mul : simpl never.
Local Arguments N.add : simpl never.
Local Arguments N.sub : simpl never.
Local Arguments N.shiftr : simpl never.
Local Arguments N.shiftl : simpl never.
Local Arguments N.log2_up : simpl never.
Local Opaque two64 two32.

(* ------------------------------------------------------------------------------------ *)
(** * 0. Spec vocabulary *)

Fixpoint ty_depth (t : ty) : nat :=
  match t with
  | TVector e _ | TList e _ => S (ty_depth e)
  | TContainer fs => S (fold_right (fun f a => Nat.max (ty_depth f) a) O fs)
  | TUnion _ opts => S (fold_right (fun f a => Nat.max (ty_depth f) a) O opts)
  | _ => 1%nat
  end.

(* ------------------------------------------------------------------------------------ *)
(** * 1. Lists, bytes, chunks *)

Lemma two32_eq : two32 = 2 ^ 32.
Proof. reflexivity. Qed.

Lemma Forall2_from_nth {A B} (R : A -> B -> Prop) : forall l1 l2,
  length l1 = length l2 ->
  (forall i a b, nth_error l1 i = Some a -> nth_error l2 i = Some b -> R a b) ->
  Forall2 R l1 l2.
Proof.
  induction l1 as [|a l1 IH]; intros [|b l2] Hlen Hall; try discriminate Hlen; constructor.
  - apply (Hall 0%nat); reflexivity.
  - apply IH; [now injection Hlen|]. intros i x y Hx Hy. apply (Hall (S i)); assumption.
Qed.

Lemma Forall2_nth_r {A B} (R : A -> B -> Prop) : forall l1 l2 i b,
  Forall2 R l1 l2 -> nth_error l2 i = Some b -> exists a, nth_error l1 i = Some a /\ R a b.
Proof.
  intros l1 l2 i b HF. revert i. induction HF as [|x y l1 l2 Hxy _ IH]; intros i Hi.
  - destruct i; discriminate.
  - destruct i as [|i]; [injection Hi as <-; exists x; split; [reflexivity|exact Hxy]|].
    apply IH. exact Hi.
Qed.

Lemma Forall2_nth_l {A B} (R : A -> B -> Prop) : forall l1 l2 i a,
  Forall2 R l1 l2 -> nth_error l1 i = Some a -> exists b, nth_error l2 i = Some b /\ R a b.
Proof.
  intros l1 l2 i a HF. revert i. induction HF as [|x y l1 l2 Hxy _ IH]; intros i Hi.
  - destruct i; discriminate.
  - destruct i as [|i]; [injection Hi as <-; exists y; split; [reflexivity|exact Hxy]|].
    apply IH. exact Hi.
Qed.

Lemma Forall2_len {A B} (R : A -> B -> Prop) l1 l2 : Forall2 R l1 l2 -> length l1 = length l2.
Proof. induction 1; cbn [length]; congruence. Qed.

Lemma nth_error_seq0 len i : (i < len)%nat -> nth_error (seq 0 len) i = Some i.
Proof.
  intros Hi. rewrite (nth_error_nth' _ 0%nat) by (rewrite seq_length; exact Hi).
  now rewrite seq_nth.
Qed.

Lemma mapM_map {A B} (f : A -> res B) (g : A -> B) : forall l,
  Forall (fun x => f x = OK (g x)) l -> mapM f l = OK (map g l).
Proof.
  induction l as [|x l IH]; intros HF; [reflexivity|].
  inversion HF as [|? ? Hx Hl]; subst. cbn [mapM map]. rewrite Hx. cbn [bind].
  rewrite (IH Hl). reflexivity.
Qed.

Lemma mapM_F2 {A B C} (f : B -> res C) (R : A -> B -> Prop) (g : A -> C) : forall xs ms,
  Forall2 R xs ms -> (forall x m, In x xs -> R x m -> f m = OK (g x)) ->
  mapM f ms = OK (map g xs).
Proof.
  intros xs ms HF. induction HF as [|x m xs ms Hxm _ IH]; intros Hall; [reflexivity|].
  cbn [mapM map]. rewrite (Hall x m (or_introl eq_refl) Hxm). cbn [bind].
  rewrite IH; [reflexivity|]. intros x' m' Hin. apply Hall. now right.
Qed.

(* the chunks of a byte string, concatenated, are the byte string followed by zeros *)
Lemma concat_chunkify_fuel : forall fuel bs, (length bs < fuel)%nat ->
  exists m, concat (chunkify_fuel fuel bs) = bs ++ repeat b0 m.
Proof.
  induction fuel as [|fuel IH]; intros bs Hlen; [lia|].
  destruct bs as [|b bs']; [exists 0%nat; reflexivity|].
  set (bs := b :: bs') in *. cbn [chunkify_fuel]. change (match bs with [] => [] | _ :: _ => ?x end) with x.
  cbn [concat].
  destruct (Nat.le_gt_cases 32 (length bs)) as [Hge|Hlt].
  - destruct (IH (skipn 32 bs)) as (m & Hm).
    { rewrite skipn_length. lia. }
    exists m. rewrite Hm, pad32_full by (rewrite firstn_length; lia).
    rewrite app_assoc, firstn_skipn. reflexivity.
  - rewrite (skipn_all2 bs) by lia. rewrite (firstn_all2 bs) by lia.
    exists (32 - length bs)%nat. destruct fuel; cbn [chunkify_fuel concat]; rewrite app_nil_r;
      apply pad32_short; lia.
Qed.

Lemma concat_chunkify bs : exists m, concat (chunkify bs) = bs ++ repeat b0 m.
Proof. apply concat_chunkify_fuel. lia. Qed.

Lemma pad_to_exact B m : pad_to (length B) (B ++ repeat b0 m) = B.
Proof.
  unfold pad_to. rewrite <- app_assoc, firstn_app, Nat.sub_diag, firstn_all. cbn [firstn].
  apply app_nil_r.
Qed.

Lemma firstn_pad32 k bs : (length bs = k)%nat -> (k <= 32)%nat -> firstn k (pad32 bs) = bs.
Proof.
  intros Hl Hk. rewrite pad32_short by lia. rewrite firstn_app, Hl, Nat.sub_diag.
  cbn [firstn]. rewrite app_nil_r. apply firstn_all2. lia.
Qed.

(* ------------------------------------------------------------------------------------ *)
(** * 2. The node iterator and SubtreeIntoBytes on a series *)

Section WithZero.
Variable zh : nat -> chunk.

Lemma series_iter d (ps : list (node -> Prop)) n :
  series zh d ps n -> N.of_nat d < 64 ->
  exists ms, node_iter_all n (lenN ps) (N.of_nat d) = OK ms /\
             Forall2 (fun (p : node -> Prop) m => p m) ps ms.
Proof.
  intros Hs Hd. pose proof (series_length zh _ _ _ Hs) as Hlen.
  destruct (node_iter_seq_ex n (N.of_nat d) (lenN ps) Hd Hlen) as (ms & Hms & HF).
  { intros i Hi. unfold lenN in Hi.
    destruct (nth_error ps (N.to_nat i)) as [p|] eqn:Hp.
    - destruct (series_bottom zh d ps n (N.to_nat i) p Hs Hp) as (m & Hm & _).
      rewrite N2Nat.id in Hm. eauto.
    - apply nth_error_None in Hp. lia. }
  exists ms. split; [exact Hms|].
  pose proof (Forall2_len _ _ _ HF) as Hl. rewrite seq_length in Hl. unfold lenN in Hl.
  rewrite Nat2N.id in Hl.
  apply Forall2_from_nth; [lia|]. intros i p m Hp Hm.
  assert (Hi : (i < length ps)%nat) by (apply nth_error_Some; congruence).
  destruct (Forall2_nth_r _ _ _ i m HF Hm) as (k & Hk & Hb).
  unfold lenN in Hk. rewrite Nat2N.id, nth_error_seq0 in Hk by exact Hi. injection Hk as <-.
  destruct (series_bottom zh d ps n i p Hs Hp) as (m' & Hm' & Hpm).
  rewrite Hb in Hm'. injection Hm' as <-. exact Hpm.
Qed.

Lemma series_iter_chunks d cs n :
  series zh d (map is_chunk cs) n -> N.of_nat d < 64 ->
  node_iter_all n (lenN cs) (N.of_nat d) = OK (map Leaf cs).
Proof.
  intros Hs Hd. destruct (series_iter d _ n Hs Hd) as (ms & Hms & HF).
  unfold lenN in Hms. rewrite map_length in Hms. fold (lenN cs) in Hms. rewrite Hms. f_equal.
  clear Hms Hs. revert ms HF. induction cs as [|c cs IH]; intros ms HF; inversion HF; subst.
  - reflexivity.
  - cbn [map]. f_equal; [assumption|]. now apply IH.
Qed.

Lemma mapM_leaves cs :
  mapM (fun n => match n with Leaf c => OK c | Pair _ _ => Err end) (map Leaf cs) = OK cs.
Proof.
  induction cs as [|c cs IH]; [reflexivity|]. cbn [map mapM bind]. rewrite IH. reflexivity.
Qed.

(* SubtreeIntoBytes over the chunks of a byte string *)
Lemma sib_chunks_gen d B n depth len dest :
  series zh d (map is_chunk (chunkify B)) n -> depth = N.of_nat d -> depth < 64 ->
  len = lenN (chunkify B) -> lenN B <= dest ->
  subtree_into_bytes n depth len dest = OK (pad_to (nat_of dest) (concat (chunkify B))).
Proof.
  intros Hs -> Hd -> Hdest. unfold subtree_into_bytes.
  rewrite (series_iter_chunks d _ n Hs Hd). cbn [bind]. rewrite mapM_leaves. cbn [bind].
  replace ((1 <=? lenN (chunkify B)) && (dest <? 32 * (lenN (chunkify B) - 1))) with false;
    [reflexivity|].
  symmetry. apply andb_false_iff. right. apply N.ltb_ge.
  rewrite chunkify_lenN. lia.
Qed.

Lemma sib_chunks d B n depth len dest :
  series zh d (map is_chunk (chunkify B)) n -> depth = N.of_nat d -> depth < 64 ->
  len = lenN (chunkify B) -> dest = lenN B ->
  subtree_into_bytes n depth len dest = OK B.
Proof.
  intros Hs Hd Hd64 Hl ->. rewrite (sib_chunks_gen d B n depth len (lenN B) Hs Hd Hd64 Hl) by lia.
  destruct (concat_chunkify B) as (m & ->). unfold lenN, nat_of. rewrite Nat2N.id.
  now rewrite pad_to_exact.
Qed.

End WithZero.

(* ------------------------------------------------------------------------------------ *)
(** * 3. Bit strings: the delimiter bit *)

Definition bbyte (l : list bool) (i : nat) : byte :=
  byte_of_N (bits_val (firstn 8 (skipn (8 * i) l))).

Lemma byte_of_N_0 : byte_of_N 0 = b0.
Proof. reflexivity. Qed.

Lemma bbyte_beyond l i : (length l <= 8 * i)%nat -> bbyte l i = b0.
Proof. intros H. unfold bbyte. rewrite skipn_all2 by exact H. reflexivity. Qed.

Lemma firstn_seq' : forall k s n, (k <= n)%nat -> firstn k (seq s n) = seq s k.
Proof.
  induction k as [|k IH]; intros s n Hk; [reflexivity|].
  destruct n as [|n]; [lia|]. cbn [seq firstn]. f_equal. apply IH. lia.
Qed.

Lemma map_const_seq {A} (x : A) : forall m s, map (fun _ => x) (seq s m) = repeat x m.
Proof. induction m as [|m IH]; intros s; [reflexivity|]. cbn [seq map repeat]. now rewrite IH. Qed.

Lemma btb_padded l m :
  bits_to_bytes l ++ repeat b0 m = map (bbyte l) (seq 0 ((length l + 7) / 8 + m)).
Proof.
  rewrite seq_app, map_app. f_equal; [apply btb_spec|].
  cbn [Nat.add]. rewrite <- (map_const_seq b0 m ((length l + 7) / 8)).
  apply map_ext_in. intros i Hi. apply in_seq in Hi. symmetry. apply bbyte_beyond. lia.
Qed.

Lemma bitlist_bytes bs m :
  let X := pad_to (length bs / 8 + 1) (bits_to_bytes bs ++ repeat b0 m) in
  removelast X ++ [byte_of_N (N.lor (N_of_byte (last X b0)) (2 ^ (N.land (lenN bs) 7)))] =
  bits_to_bytes (bs ++ [true]).
Proof.
  cbv zeta. set (L := length bs). set (q := (L / 8)%nat).
  assert (HX : pad_to (q + 1) (bits_to_bytes bs ++ repeat b0 m) =
               map (bbyte bs) (seq 0 q) ++ [bbyte bs q]).
  { unfold pad_to, zero_bytes. rewrite <- app_assoc, <- repeat_app, btb_padded.
    rewrite firstn_map, firstn_seq' by (fold L; unfold q; lia).
    rewrite Nat.add_1_r, seq_S, map_app. reflexivity. }
  rewrite HX, removelast_last, last_last.
  rewrite btb_spec, app_length. cbn [length]. fold L.
  replace ((L + 1 + 7) / 8)%nat with (S q) by (unfold q; lia).
  rewrite seq_S, map_app. cbn [Nat.add map]. f_equal.
  - apply map_ext_in. intros i Hi. apply in_seq in Hi. unfold bbyte.
    rewrite skipn_app. replace (8 * i - length bs)%nat with 0%nat by (fold L; unfold q in Hi; lia).
    cbn [skipn]. rewrite firstn_app.
    replace (8 - length (skipn (8 * i) bs))%nat with 0%nat
      by (rewrite skipn_length; fold L; unfold q in Hi; lia).
    cbn [firstn]. now rewrite app_nil_r.
  - f_equal. unfold bbyte.
    set (A := skipn (8 * q) bs).
    assert (HA : length A = (L mod 8)%nat) by (unfold A; rewrite skipn_length; fold L; unfold q; lia).
    rewrite skipn_app. replace (8 * q - length bs)%nat with 0%nat by (fold L; unfold q; lia).
    cbn [skipn]. fold A.
    rewrite (firstn_all2 (n := 8) A) by lia.
    rewrite (firstn_all2 (n := 8) (A ++ [true])) by (rewrite app_length; cbn [length]; lia).
    rewrite BitfieldsProofs.N_of_byte_bits_val by lia.
    rewrite BitfieldsProofs.bits_val_snoc_true.
    change 7 with (2 ^ 3 - 1). rewrite land_pow2_pred. change (2 ^ 3) with 8.
    assert (Hr : lenN bs mod 8 = lenN A) by (unfold lenN; rewrite HA; fold L; lia).
    rewrite Hr, N.lor_comm. f_equal. rewrite N.add_comm. apply lor_pow2_small.
    apply BitfieldsProofs.bits_val_bound.
Qed.

(* ------------------------------------------------------------------------------------ *)
(** * 4. Sizes: what Serialize / ValueByteLength read from the type metadata *)

Lemma pow64 : 2 ^ 64 = two64.
Proof. reflexivity. Qed.

(* the size of a fixed-size type, given one value whose encoding is short enough *)
Lemma fixed_size t v :
  spec_is_fixed t = true -> small_params t = true -> has_type v t = true ->
  lenN (spec_ser t v) < 2 ^ 64 -> ti_size (info t) = lenN (spec_ser t v).
Proof.
  intros Hf Hs Ht Hl. symmetry. apply code_fixed_len; try assumption.
  - destruct (spec_fixed_min_max t Hf) as [_ ->].
    now rewrite <- (spec_ser_fixed_len_nowf t v Hf Ht).
  - now rewrite info_fixed_flag.
Qed.

Definition fp_of (acc : N * N * N * N) : N := fst (fst (fst acc)).

Lemma fixed_part_size_fp fs : fixed_part_size fs = fp_of (cont_acc (map info fs)).
Proof. unfold fixed_part_size. destruct (cont_acc (map info fs)) as [[[a b] c] d]. reflexivity. Qed.

Lemma cont_fold_fp : forall (is : list tinfo) acc,
  fp_of acc < two64 ->
  fp_of (fold_left cont_step is acc) =
  wrap64 (fp_of acc + sumN (map (fun i => if ti_fixed i then ti_size i else 4) is)).
Proof.
  induction is as [|i is IH]; intros [[[fp a] b] c] Hfp; unfold fp_of in *; cbn [fst] in *.
  - cbn [fold_left map sumN fold_right fst]. rewrite N.add_0_r. symmetry. now apply wrap64_small.
  - cbn [fold_left map]. rewrite sumN_cons. unfold cont_step at 2.
    destruct (ti_fixed i); rewrite IH by (cbn [fst]; apply wrap64_lt); cbn [fst];
      unfold add64; rewrite wrap64_add_l; f_equal; lia.
Qed.

Definition var_len (p : part) : N := if fst p then 0 else lenN (snd p).

Lemma part_len_split p : part_len p = part_fixed_size p + var_len p.
Proof. unfold part_len, part_fixed_size, var_len. destruct (fst p); lia. Qed.

Lemma sum_part_len_split : forall ps,
  sumN (map part_len ps) = sumN (map part_fixed_size ps) + sumN (map var_len ps).
Proof.
  induction ps as [|p ps IH]; [reflexivity|]. cbn [map]. rewrite !sumN_cons, IH, part_len_split. lia.
Qed.

Lemma fixed_part_spec : forall fs vs,
  forallb small_params fs = true -> has_type_fields fs vs = true ->
  sumN (map part_len (ser_fields fs vs)) < 2 ^ 64 ->
  fixed_part_size fs = sumN (map part_fixed_size (ser_fields fs vs)).
Proof.
  intros fs vs Hs Ht Hl. rewrite fixed_part_size_fp. unfold cont_acc.
  rewrite cont_fold_fp by (unfold fp_of; cbn [fst]; rewrite <- pow64; lia).
  unfold fp_of. cbn [fst]. rewrite N.add_0_l, map_map.
  assert (E : sumN (map (fun f => if ti_fixed (info f) then ti_size (info f) else 4) fs) =
              sumN (map part_fixed_size (ser_fields fs vs))).
  { revert vs Hs Ht Hl. induction fs as [|f fs IH]; intros [|x vs] Hs Ht Hl;
      try discriminate Ht; [reflexivity|].
    cbn [forallb] in Hs. apply andb_true_iff in Hs. destruct Hs as [Hsf Hs].
    cbn [has_type_fields] in Ht. apply andb_true_iff in Ht. destruct Ht as [Htf Ht].
    cbn [ser_fields map] in *. rewrite !sumN_cons in *.
    rewrite (IH vs Hs Ht) by lia. f_equal.
    unfold part_fixed_size, part_len in *. cbn [fst snd] in *. rewrite info_fixed_flag.
    destruct (spec_is_fixed f) eqn:Hf; [|reflexivity].
    apply fixed_size; try assumption. lia. }
  rewrite E. apply wrap64_small. rewrite <- pow64.
  rewrite sum_part_len_split in Hl. lia.
Qed.

(* ---- ser_parts ---- *)

Lemma ser_parts_go_fixed {A} (g : A -> list byte) : forall vs off,
  ser_parts_go (map (fun x => (true, g x)) vs) off = (concat (map g vs), []).
Proof.
  induction vs as [|x vs IH]; intros off; [reflexivity|].
  cbn [map ser_parts_go concat]. now rewrite IH.
Qed.

Lemma ser_parts_fixed {A} (g : A -> list byte) vs :
  ser_parts (map (fun x => (true, g x)) vs) = concat (map g vs).
Proof. unfold ser_parts. rewrite ser_parts_go_fixed. apply app_nil_r. Qed.

Lemma write_offsets_spec {A} (g : A -> list byte) : forall vs po ps,
  po + ps + sumN (map (fun x => lenN (g x)) vs) < two32 ->
  write_offsets (map (fun x => lenN (g x)) vs) po ps =
    OK (fst (ser_parts_go (map (fun x => (false, g x)) vs) (po + ps))) /\
  snd (ser_parts_go (map (fun x => (false, g x)) vs) (po + ps)) = concat (map g vs).
Proof.
  induction vs as [|x vs IH]; intros po ps Hb; [split; reflexivity|].
  cbn [map] in *. rewrite sumN_cons in Hb. cbn [write_offsets ser_parts_go].
  unfold write_offset.
  rewrite (proj2 (N.leb_gt two32 po)) by lia.
  rewrite (proj2 (N.leb_gt two32 ps)) by lia.
  rewrite (proj2 (N.leb_gt two32 (po + ps))) by lia. cbn [bind].
  destruct (IH (po + ps) (lenN (g x)) ltac:(lia)) as [E1 E2].
  rewrite E1. cbn [bind].
  destruct (ser_parts_go (map (fun x0 => (false, g x0)) vs) (po + ps + lenN (g x))) as [f v].
  cbn [fst snd concat] in *. split; [reflexivity|now rewrite E2].
Qed.

Lemma sum_fixed_size_var {A} (g : A -> list byte) : forall vs,
  sumN (map part_fixed_size (map (fun x => (false, g x)) vs)) = 4 * lenN vs.
Proof.
  induction vs as [|x vs IH]; [reflexivity|]. cbn [map]. rewrite sumN_cons, IH, lenN_cons.
  unfold part_fixed_size. cbn [fst]. lia.
Qed.

Lemma ser_parts_var {A} (g : A -> list byte) vs :
  4 * lenN vs + sumN (map (fun x => lenN (g x)) vs) < two32 ->
  exists offs, write_offsets (map (fun x => lenN (g x)) vs) (4 * lenN vs) 0 = OK offs /\
               ser_parts (map (fun x => (false, g x)) vs) = offs ++ concat (map g vs).
Proof.
  intros Hb. destruct (write_offsets_spec g vs (4 * lenN vs) 0 ltac:(lia)) as [E1 E2].
  rewrite N.add_0_r in E1, E2. eexists. split; [exact E1|].
  unfold ser_parts. rewrite sum_fixed_size_var.
  destruct (ser_parts_go (map (fun x => (false, g x)) vs) (4 * lenN vs)) as [f v].
  cbn [fst snd] in *. now rewrite E2.
Qed.

Lemma sum_lens_spec : forall lens start, start < two64 ->
  sum_lens lens start = wrap64 (start + sumN lens).
Proof.
  unfold sum_lens. induction lens as [|l lens IH]; intros start Hs; cbn [fold_left].
  - cbn [sumN fold_right]. rewrite N.add_0_r. symmetry. now apply wrap64_small.
  - rewrite IH by apply wrap64_lt. rewrite sumN_cons. unfold add64. rewrite wrap64_add_l.
    f_equal. lia.
Qed.

Lemma In_sum_le {A} (g : A -> N) l x : In x l -> g x <= sumN (map g l).
Proof. apply sumN_map_In_le. Qed.

(* ------------------------------------------------------------------------------------ *)
(** * 5. Readable views of the nested fixpoints of the model *)

Definition bl_fields (d : N) (n : node) : list ty -> N -> N -> res N :=
  fix go (fs : list ty) (i acc : N) : res N :=
    match fs with
    | [] => OK acc
    | f :: fs' =>
      if ti_fixed (info f) then go fs' (i + 1) (add64 acc (ti_size (info f)))
      else
        do g <- to_gindex64 i d;
        do c <- getter n g;
        do l <- byte_len f c;
        go fs' (i + 1) (add64 acc (add64 l 4))
    end.

Lemma byte_len_cont fs n :
  byte_len (TContainer fs) n =
  if ti_fixed (info (TContainer fs)) then OK (ti_size (info (TContainer fs)))
  else bl_fields (view_depth (TContainer fs)) n fs 0 0.
Proof. reflexivity. Qed.

Lemma byte_len_union none opts n :
  byte_len (TUnion none opts) n =
  match n with
  | Pair c (Leaf s) =>
    if negb (forallb (fun b => N_of_byte b =? 0) (tl s)) then Err else
    let sel := N_of_byte (hd b0 s) in
    if wrap8 (union_count none opts) <=? sel then Err else
    if none && (sel =? 0) then OK 1 else
    rpick Panic (fun o => do l <- byte_len o c; OK (add64 l 1)) opts
          (nat_of (if none then sel - 1 else sel))
  | _ => Err
  end.
Proof. reflexivity. Qed.

Lemma byte_len_vector e k n :
  byte_len (TVector e k) n =
  if ti_fixed (info (TVector e k)) then OK (ti_size (info (TVector e k))) else
  do ns <- node_iter_all n k (view_depth (TVector e k));
  do lens <- mapM (byte_len e) ns;
  OK (sum_lens lens (mul64 k 4)).
Proof. reflexivity. Qed.

Lemma byte_len_list e k n :
  byte_len (TList e k) n =
  do ll <- list_length k n;
  if is_basic_elem e || ti_fixed (info e) then OK (mul64 ll (ti_size (info e))) else
  do c <- node_left n;
  do ns <- node_iter_all c ll (contents_depth (TList e k));
  do lens <- mapM (byte_len e) ns;
  OK (sum_lens lens (mul64 ll 4)).
Proof. reflexivity. Qed.

Fixpoint ser_fields_go (fs : list ty) (ns : list node) (prev_off prev_size : N)
         (fixed dyn : list byte) : res (list byte) :=
  match fs, ns with
  | f :: fs', x :: ns' =>
    if ti_fixed (info f) then
      do bs <- ser_node f x; ser_fields_go fs' ns' prev_off prev_size (fixed ++ bs) dyn
    else
      do l <- byte_len f x;
      do r <- write_offset prev_off prev_size; let '(off, obs) := r in
      do bs <- ser_node f x;
      ser_fields_go fs' ns' off l (fixed ++ obs) (dyn ++ bs)
  | _, _ => OK (fixed ++ dyn)
  end.

Lemma ser_node_cont fs n :
  ser_node (TContainer fs) n =
  do ns <- node_iter_all n (N.of_nat (length fs)) (view_depth (TContainer fs));
  ser_fields_go fs ns (fixed_part_size fs) 0 [] [].
Proof. reflexivity. Qed.

Lemma ser_node_union none opts n :
  ser_node (TUnion none opts) n =
  match n with
  | Pair c (Leaf s) =>
    if negb (forallb (fun b => N_of_byte b =? 0) (tl s)) then Err else
    let sel := N_of_byte (hd b0 s) in
    if wrap8 (union_count none opts) <=? sel then Err else
    if none && (sel =? 0) then OK [byte_of_N sel] else
    rpick Panic (fun o => do bs <- ser_node o c; OK (byte_of_N sel :: bs)) opts
          (nat_of (if none then sel - 1 else sel))
  | _ => Err
  end.
Proof. reflexivity. Qed.

Lemma ser_node_vector e k n :
  ser_node (TVector e k) n =
  if is_basic_elem e then
    subtree_into_bytes n (view_depth (TVector e k)) (bottom_count e k) (ti_size (info (TVector e k)))
  else
    do ns <- node_iter_all n k (view_depth (TVector e k));
    if ti_fixed (info (TVector e k)) then
      do bss <- mapM (ser_node e) ns; OK (concat bss)
    else
      do lens <- mapM (byte_len e) ns;
      do offs <- write_offsets lens (mul64 k 4) 0;
      do bss <- mapM (ser_node e) ns;
      OK (offs ++ concat bss).
Proof. reflexivity. Qed.

Lemma ser_node_list e k n :
  ser_node (TList e k) n =
  if is_basic_elem e then
    do c <- node_left n;
    do ll <- list_length k n;
    let esz := ti_size (info e) in
    let byte_length := mul64 ll esz in
    let per := 32 / esz in
    subtree_into_bytes c (contents_depth (TList e k)) (wrap64 (ll + per - 1) / per) byte_length
  else
    do ll <- list_length k n;
    do c <- node_left n;
    do ns <- node_iter_all c ll (contents_depth (TList e k));
    if ti_fixed (info e) then
      do bss <- mapM (ser_node e) ns; OK (concat bss)
    else
      do lens <- mapM (byte_len e) ns;
      do offs <- write_offsets lens (mul64 ll 4) 0;
      do bss <- mapM (ser_node e) ns;
      OK (offs ++ concat bss).
Proof. reflexivity. Qed.

Lemma spec_ser_union' none opts sel ov :
  spec_ser (TUnion none opts) (VUnion sel ov) =
  byte_of_N sel ::
  match ov with
  | None => []
  | Some x => rpick [] (fun o => spec_ser o x) opts (nat_of (if none then sel - 1 else sel))
  end.
Proof. reflexivity. Qed.

Lemma spec_ser_vector e k vs :
  spec_ser (TVector e k) (VSeq vs) = ser_parts (map (fun x => (spec_is_fixed e, spec_ser e x)) vs).
Proof. reflexivity. Qed.

Lemma spec_ser_list e k vs :
  spec_ser (TList e k) (VSeq vs) = ser_parts (map (fun x => (spec_is_fixed e, spec_ser e x)) vs).
Proof. reflexivity. Qed.

(* ------------------------------------------------------------------------------------ *)
(** * 6. Shared facts about representing trees *)

Lemma Forall2_map_l {A B C} (R : B -> C -> Prop) (f : A -> B) : forall l l',
  Forall2 R (map f l) l' -> Forall2 (fun x y => R (f x) y) l l'.
Proof.
  induction l as [|x l IH]; intros l' HF; inversion HF; subst; constructor; auto.
Qed.

Lemma sumN_map_add4 {A} (h : A -> N) : forall vs,
  sumN (map (fun x => 4 + h x) vs) = 4 * lenN vs + sumN (map h vs).
Proof.
  induction vs as [|x vs IH]; [reflexivity|]. cbn [map]. rewrite !sumN_cons, IH, lenN_cons. lia.
Qed.

Lemma series_lenN_var (g : val -> list byte) vs :
  lenN (ser_parts (map (fun x => (false, g x)) vs)) =
  4 * lenN vs + sumN (map (fun x => lenN (g x)) vs).
Proof. rewrite ser_series_lenN. apply sumN_map_add4. Qed.

Lemma series_lenN_fixed (g : val -> list byte) vs :
  lenN (ser_parts (map (fun x => (true, g x)) vs)) = sumN (map (fun x => lenN (g x)) vs).
Proof. now rewrite ser_series_lenN. Qed.

Lemma pow56_lt : 2 ^ 56 < two64.
Proof. rewrite <- pow64. apply N.pow_lt_mono_r; lia. Qed.

Lemma mul64_small a b : a * b < two64 -> mul64 a b = a * b.
Proof. intros H. unfold mul64. now apply wrap64_small. Qed.

Lemma sel_leaf sel : sel < 256 ->
  forallb (fun b => N_of_byte b =? 0) (tl (pad32 [byte_of_N sel])) = true /\
  N_of_byte (hd b0 (pad32 [byte_of_N sel])) = sel.
Proof.
  intros Hs. change (pad32 [byte_of_N sel]) with (byte_of_N sel :: repeat b0 31).
  cbn [tl hd]. split; [reflexivity|]. rewrite N_of_byte_of_N. now apply N.mod_small.
Qed.

Lemma union_sel_range none opts sel ov :
  wf_ty (TUnion none opts) = true -> has_type (VUnion sel ov) (TUnion none opts) = true ->
  sel < union_count none opts /\ union_count none opts <= 128.
Proof.
  intros Hwf Ht. cbn [wf_ty] in Hwf. rewrite !andb_true_iff in Hwf.
  destruct Hwf as [[_ Hc] _]. apply N.leb_le in Hc. split; [|exact Hc].
  rewrite ReprProofs.has_type_union in Ht. unfold union_count.
  destruct (none && (sel =? 0)) eqn:Hn.
  - apply andb_true_iff in Hn. destruct Hn as [-> Hs]. apply N.eqb_eq in Hs. lia.
  - rewrite rpick_nth_error in Ht.
    destruct (nth_error opts (nat_of (if none then sel - 1 else sel))) eqn:Hk; [|discriminate].
    assert (Hlt : (nat_of (if none then sel - 1 else sel) < length opts)%nat)
      by (apply nth_error_Some; congruence).
    unfold nat_of in Hlt. destruct none; cbn [andb] in Hn; [apply N.eqb_neq in Hn|]; lia.
Qed.

Section Union.
Variable zh : nat -> chunk.

Lemma union_cases none opts sel ov c :
  has_type (VUnion sel ov) (TUnion none opts) = true ->
  match ov with
  | None => c = Leaf zero_chunk
  | Some x => rpick False (fun o => repr zh o c x) opts (nat_of (if none then sel - 1 else sel))
  end ->
  (none && (sel =? 0) = true /\ ov = None /\ c = Leaf zero_chunk) \/
  (none && (sel =? 0) = false /\
   exists o x, ov = Some x /\ nth_error opts (nat_of (if none then sel - 1 else sel)) = Some o /\
               has_type x o = true /\ repr zh o c x).
Proof.
  intros Ht Hr. rewrite ReprProofs.has_type_union in Ht.
  destruct (none && (sel =? 0)) eqn:Hn.
  - left. destruct ov; [discriminate|]. auto.
  - right. split; [reflexivity|]. rewrite rpick_nth_error in Ht.
    destruct (nth_error opts (nat_of (if none then sel - 1 else sel))) as [o|] eqn:Hk; [|discriminate].
    destruct ov as [x|]; [|discriminate]. rewrite rpick_nth_error, Hk in Hr.
    exists o, x. auto.
Qed.
End Union.

Lemma wrap8_small n : n < 256 -> wrap8 n = n.
Proof. intros H. unfold wrap8. now apply N.mod_small. Qed.

Lemma cover_depth_63 v : v <= 2 ^ 63 -> cover_depth v < 64.
Proof. intros H. pose proof (cover_depth_small v 63 H ltac:(lia)). lia. Qed.

Lemma view_depth_lt64 t : small_params t = true -> small_fields t = true -> view_depth t < 64.
Proof.
  intros Hs Hf. pose proof (small_contents_depth t Hs) as H.
  unfold view_depth. destruct t; cbn [is_list_ty]; try lia.
  cbn [contents_depth]. cbn [small_fields] in Hf. apply andb_true_iff in Hf.
  destruct Hf as [Hf _]. apply N.leb_le in Hf. unfold lenN in Hf.
  pose proof (cover_depth_63 _ Hf). lia.
Qed.

(* ------------------------------------------------------------------------------------ *)
(** * 7. ValueByteLength *)

Ltac dval v Hty := destruct v; try (cbn [has_type] in Hty; discriminate Hty).

Section ByteLen.
Variable zh : nat -> chunk.

Definition bl_stmt (t : ty) : Prop :=
  wf_ty t = true -> small_params t = true -> small_fields t = true ->
  forall v n, has_type v t = true -> repr zh t n v -> lenN (spec_ser t v) < 2 ^ 64 ->
  byte_len t n = OK (lenN (spec_ser t v)).

Lemma bl_uint w : bl_stmt (TUint w).
Proof.
  intros _ _ _ v n Ht _ _. dval v Ht. cbn [byte_len spec_ser]. now rewrite lenN_le_bytes.
Qed.

Lemma bl_bool : bl_stmt TBool.
Proof. intros _ _ _ v n Ht _ _. dval v Ht. reflexivity. Qed.

Lemma bl_bytes k : bl_stmt (TBytes k).
Proof.
  intros _ _ _ v n Ht _ _. dval v Ht. cbn [has_type] in Ht. apply N.eqb_eq in Ht.
  cbn [byte_len spec_ser]. unfold lenN. now rewrite Ht.
Qed.

Lemma bl_root : bl_stmt TRoot.
Proof.
  intros _ _ _ v n Ht _ _. dval v Ht. cbn [has_type] in Ht. apply N.eqb_eq in Ht.
  cbn [byte_len spec_ser]. unfold lenN. now rewrite Ht.
Qed.

Lemma bl_bitvector k : bl_stmt (TBitvector k).
Proof.
  intros _ Hs _ v n Ht _ Hl. cbn [byte_len]. f_equal. now apply fixed_size.
Qed.

Lemma bl_bitlist k : bl_stmt (TBitlist k).
Proof.
  intros _ Hs _ v n Ht Hr _. dval v Ht. cbn [has_type] in Ht. apply N.leb_le in Ht.
  cbn [small_params] in Hs. apply N.leb_le in Hs. fold (lenN bs) in Ht.
  cbn [repr] in Hr. destruct Hr as (c & -> & _).
  pose proof small_plus8 as H56.
  cbn [byte_len]. rewrite (list_length_len_leaf k c (lenN bs) Ht) by (rewrite pow64; lia).
  cbn [bind spec_ser]. rewrite ser_bitlist_lenN, wrap64_small by lia. f_equal. lia.
Qed.

Lemma vec_depth e k : view_depth (TVector e k) = contents_depth (TVector e k).
Proof. unfold view_depth. cbn [is_list_ty]. lia. Qed.

Lemma not_fixed_not_basic e : spec_is_fixed e = false -> is_basic_elem e = false.
Proof. destruct e; cbn; congruence. Qed.

(* the elements of a complex series: the iterator returns representing nodes *)
Lemma series_elems_iter e d vs n :
  series zh d (map (fun x m => repr zh e m x) vs) n -> N.of_nat d < 64 ->
  exists ms, node_iter_all n (lenN vs) (N.of_nat d) = OK ms /\
             Forall2 (fun x m => repr zh e m x) vs ms.
Proof.
  intros Hs Hd. destruct (series_iter zh d _ n Hs Hd) as (ms & Hms & HF).
  unfold lenN in Hms. rewrite map_length in Hms. exists ms. split; [exact Hms|].
  now apply Forall2_map_l in HF.
Qed.

Lemma elems_byte_len e vs ms :
  bl_stmt e -> wf_ty e = true -> small_params e = true -> small_fields e = true ->
  forallb (fun x => has_type x e) vs = true ->
  Forall2 (fun x m => repr zh e m x) vs ms ->
  sumN (map (fun x => lenN (spec_ser e x)) vs) < 2 ^ 64 ->
  mapM (byte_len e) ms = OK (map (fun x => lenN (spec_ser e x)) vs).
Proof.
  intros IH Hwf Hs Hf Hty HF Hsum. rewrite forallb_forall in Hty.
  apply (mapM_F2 _ _ _ _ _ HF). intros x m Hin Hr.
  apply IH; auto.
  pose proof (sumN_map_In_le (fun x => lenN (spec_ser e x)) vs x Hin). cbv beta in *. lia.
Qed.

Lemma bl_vector e k : bl_stmt e -> bl_stmt (TVector e k).
Proof.
  intros IH Hwf Hs Hf v n Ht Hr Hl. rewrite byte_len_vector, info_fixed_flag.
  destruct (spec_is_fixed (TVector e k)) eqn:Hfx.
  - f_equal. now apply fixed_size.
  - cbn [spec_is_fixed] in Hfx. dval v Ht.
    cbn [has_type] in Ht. apply andb_true_iff in Ht. destruct Ht as [Hlen Hty].
    apply N.eqb_eq in Hlen. fold (lenN vs) in Hlen.
    cbn [wf_ty] in Hwf. apply andb_true_iff in Hwf. destruct Hwf as [_ Hwfe].
    pose proof (small_contents_depth _ Hs) as Hd. cbv beta iota in Hd.
    cbn [small_params] in Hs. apply andb_true_iff in Hs. destruct Hs as [Hk Hse]. apply N.leb_le in Hk.
    cbn [small_fields] in Hf.
    rewrite repr_vector, (not_fixed_not_basic e Hfx) in Hr.
    rewrite spec_ser_vector, Hfx in *. rewrite series_lenN_var in *.
    destruct (series_elems_iter e _ vs n Hr) as (ms & Hms & HF).
    { rewrite cdepth_N. lia. }
    rewrite cdepth_N, Hlen in Hms. rewrite vec_depth, Hms. cbn [bind].
    rewrite (elems_byte_len e vs ms IH Hwfe Hse Hf Hty HF) by lia. cbn [bind].
    pose proof pow56_lt as H56. rewrite pow64 in Hl.
    rewrite mul64_small by lia. rewrite sum_lens_spec by lia.
    rewrite wrap64_small by lia. f_equal. lia.
Qed.
End ByteLen.
