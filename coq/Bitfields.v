(* Bitfields.v — model of bitfields/*.go (definitions only).  Packed bitfields are [list byte]. *)
From Ztyp Require Import Base.
Open Scope N_scope.

Definition bool_res (ok : bool) : res unit := if ok then OK tt else Err.

(* bitfields.BitIndex(v byte): index of the left-most 1 bit, by three conditional steps *)
Definition byte_bit_index_N (v : N) : N :=
  let '(v, out) := if negb (N.land v 240 =? 0) then (N.shiftr v 4, 4) else (v, 0) in
  let '(v, out) := if negb (N.land v 12 =? 0) then (N.shiftr v 2, N.lor out 2) else (v, out) in
  if negb (N.land v 2 =? 0) then N.lor out 1 else out.
Definition byte_bit_index (b : byte) : N := byte_bit_index_N (N_of_byte b).

Definition nth_byte (bs : list byte) (i : N) : res byte :=
  match nth_error bs (nat_of i) with Some b => OK b | None => Panic end.

(* GetBit: "assumes i is a valid bit-index" — an out-of-range index is a Go index panic *)
Definition get_bit (bs : list byte) (i : N) : res bool :=
  do b <- nth_byte bs (N.shiftr i 3); OK (byte_testbit b (N.land i 7)).

Definition set_bit (bs : list byte) (i : N) (v : bool) : res (list byte) :=
  do b <- nth_byte bs (N.shiftr i 3);
  let bit := 2 ^ (N.land i 7) in
  let nb := if v then N.lor (N_of_byte b) bit else N.ldiff (N_of_byte b) bit in
  OK (list_set bs (nat_of (N.shiftr i 3)) (byte_of_N nb)).

Definition all_zero (bs : list byte) : bool := forallb (fun b => N_of_byte b =? 0) bs.

Definition last_byte (bs : list byte) : byte := last bs b0.

Definition is_zero_bitlist (bs : list byte) : bool :=
  match bs with
  | [] => true
  | _ =>
    if negb (all_zero (removelast bs)) then false else
    let l := N_of_byte (last_byte bs) in
    if l =? 0 then true else N.lxor l (2 ^ byte_bit_index_N l) =? 0
  end.

Definition covers (af bf : list byte) : res bool :=
  if negb (Nat.eqb (length af) (length bf)) then Err else
  OK (forallb (fun ab => N.ldiff (N_of_byte (snd ab)) (N_of_byte (fst ab)) =? 0) (combine af bf)).

Definition blen (bs : list byte) : N := N.of_nat (length bs).

Definition bitlist_len (bs : list byte) : N :=
  match bs with
  | [] => 0
  | _ => N.lor (wrap64 (N.shiftl (blen bs - 1) 3)) (byte_bit_index (last_byte bs))
  end.

Definition bitlist_check_byte_len (byte_len bit_limit : N) : res unit :=
  if byte_len =? 0 then Err else
  if (N.shiftr bit_limit 3) + 1 <? byte_len then Err else OK tt.

Definition bitlist_check_last_byte (l : byte) (limit : N) : res unit :=
  if N_of_byte l =? 0 then Err else
  if limit <? byte_bit_index l then Err else OK tt.

Definition bitlist_check (bs : list byte) (limit : N) : res unit :=
  do _ <- bitlist_check_byte_len (blen bs) limit;
  bitlist_check_last_byte (last_byte bs) (sub64 limit (wrap64 (N.shiftl (blen bs - 1) 3))).

Definition popcount8 (b : byte) : N :=
  let n := N_of_byte b in
  fold_left (fun acc i => acc + (if N.testbit n i then 1 else 0)) [0;1;2;3;4;5;6;7] 0.

Definition popcount_N8 (n : N) : N :=
  fold_left (fun acc i => acc + (if N.testbit n i then 1 else 0)) [0;1;2;3;4;5;6;7] 0.

Definition bitlist_ones_count (bs : list byte) : N :=
  match bs with
  | [] => 0
  | _ =>
    let c := fold_left (fun acc b => acc + popcount8 b) (removelast bs) 0 in
    let l := N_of_byte (last_byte bs) in
    if l =? 0 then c else c + popcount_N8 (N.lxor l (2 ^ byte_bit_index_N l))
  end.

Definition bitvector_check_byte_len (byte_len bit_length : N) : res unit :=
  bool_res (byte_len =? N.shiftr (wrap64 (bit_length + 7)) 3).

Definition bitvector_check_last_byte (l : byte) (n : N) : res unit :=
  if n =? 0 then Err else
  if N.land n 7 =? 0 then OK tt else
  bool_res (N.shiftr (N_of_byte l) (N.land n 7) =? 0).

Definition bitvector_check (bs : list byte) (n : N) : res unit :=
  do _ <- bitvector_check_byte_len (blen bs) n;
  if blen bs =? 0 then OK tt else bitvector_check_last_byte (last_byte bs) n.

Definition bitvector_ones_count (bs : list byte) : N :=
  fold_left (fun acc b => acc + popcount8 b) bs 0.
