(* Bitlen.v — model of tree/bitlen.go and tree/gindex.go (definitions only).
   All values are uint64 in Go: inputs are N below 2^64, the wrap is explicit. *)
From Ztyp Require Import Base.
Open Scope N_scope.

(* mask_k = ^uint64((1 << (1 << k)) - 1) *)
Definition mask (k : N) : N := two64 - 2 ^ (2 ^ k).

(* one conditional step of the binary search: if v&mask_k != 0 { v >>= 2^k; out |= 2^k } *)
Definition bi_step (k : N) (vo : N * N) : N * N :=
  let '(v, out) := vo in
  if negb (N.land v (mask k) =? 0) then (N.shiftr v (2 ^ k), N.lor out (2 ^ k)) else (v, out).

Definition bit_index (v : N) : N :=
  if v =? 0 then 0 else
  let vo := bi_step 5 (v, 0) in
  let vo := bi_step 4 vo in
  let vo := bi_step 3 vo in
  let vo := bi_step 2 vo in
  let '(v1, out) := bi_step 1 vo in
  if negb (N.land v1 (mask 0) =? 0) then N.lor out 1 else out.

Definition bit_length (v : N) : N := if v =? 0 then 0 else bit_index v + 1.
Definition cover_depth (v : N) : N :=
  if (v =? 0) || (v =? 1) then 0 else bit_index (v - 1) + 1.

(* ---- Gindex64 ---- *)
Definition g_anchor (v : N) : N := shl64 1 (bit_index v).
Definition g_subtree (v : N) : N :=
  let a := g_anchor v in N.lor (N.lxor v a) (N.shiftr a 1).
Definition g_left (v : N) : N := shl64 v 1.
Definition g_right (v : N) : N := N.lor (shl64 v 1) 1.
Definition g_parent (v : N) : N := N.shiftr v 1.
Definition g_is_left (v : N) : bool :=
  let pivot := N.shiftr (g_anchor v) 1 in N.land v pivot =? 0.
Definition g_is_root (v : N) : bool := v =? 1.
Definition g_is_close (v : N) : bool := v <=? 3.
Definition g_depth (v : N) : N := bit_index v.

(* Gindex64BitIter: state (marker, gindex) *)
Definition biter := (N * N)%type.
Definition g_bit_iter (v : N) : biter * N :=
  let d := bit_index v in ((shl64 1 d, v), d).
Definition biter_next (it : biter) : biter * (bool * bool) :=
  let '(m, g) := it in
  let m' := N.shiftr m 1 in
  ((m', g), (negb (N.land g m' =? 0), negb (m' =? 0))).

(* the path bits of a gindex, most significant first (a convenience built on the iterator) *)
Fixpoint biter_run (fuel : nat) (it : biter) : list bool :=
  match fuel with
  | O => []
  | S f => let '(it', (r, ok)) := biter_next it in
           if ok then r :: biter_run f it' else []
  end.
Definition g_path (v : N) : list bool := biter_run 64 (fst (g_bit_iter v)).

(* byte encodings; None = Go's nil for the invalid gindex 0 *)
Definition narrow (c : N) (sh : N) (vs : N * N) (delta : N -> N) : N * N :=
  let '(v, s) := vs in if c <=? v then (N.shiftr v sh, delta s) else (v, s).

Definition g_little_endian (v : N) : option (list byte) :=
  if v =? 0 then None else
  let vs := narrow (2 ^ 32) 32 (v, 1) (fun s => s + 4) in
  let vs := narrow (2 ^ 16) 16 vs (fun s => s + 2) in
  let '(_, s) := narrow (2 ^ 8) 8 vs (fun s => s + 1) in
  Some (firstn (nat_of s) (le_bytes 8 v)).

Definition be_bytes (k : nat) (n : N) : list byte := rev (le_bytes k n).

Definition g_big_endian (v : N) : option (list byte) :=
  if v =? 0 then None else
  let vs := narrow (2 ^ 32) 32 (v, 7) (fun s => s - 4) in
  let vs := narrow (2 ^ 16) 16 vs (fun s => s - 2) in
  let '(_, s) := narrow (2 ^ 8) 8 vs (fun s => s - 1) in
  Some (skipn (nat_of s) (be_bytes 8 v)).

Definition g_left_aligned (v : N) : option (list byte) * N :=
  if v =? 0 then (None, 0) else
  let bl := bit_length v in
  let la := shl64 v (64 - bl) in
  (Some (firstn (nat_of (N.shiftr (bl + 7) 3)) (be_bytes 8 la)), bl).

(* ToGindex64(index uint64, depth uint8) *)
Definition to_gindex64 (index depth : N) : res N :=
  if 64 <=? depth then Err else
  let anchor := shl64 1 depth in
  if anchor <=? index then Err else OK (N.lor anchor index).
