(* SizeProofs.v — property C15: the size metadata computed by the (model of the) Go type
   constructors, [View.info], equals what the SSZ spec implies ([Spec.spec_is_fixed],
   [spec_fixed_len], [spec_min_len], [spec_max_len]), and the spec-level bounds are sound and
   tight for the spec serialization [Spec.spec_ser].

   Contents
     1. [ty_ind']  — induction principle for [ty] with [Forall P] premises for the nested lists
     2. readable views of the nested fixpoints of [has_type] / [spec_ser]
        ([has_type_fields], [ser_fields], [pick_ty])
     3. length lemmas ([le_bytes], [bits_to_bytes], [ser_parts])
     4. spec-level facts: fixed => min = max = fixed_len;  min <= max
     5. the fixed flag of [info]                      (C15_fixed_flag)
     6. the sizes of [info] below 2^64                (C15_sizes)
     7. soundness of the spec bounds for [spec_ser]   (C15_sound, C15_fixed_len)
     8. tightness: [min_val], [max_val]               (C15_tight_min, C15_tight_max)
     9. corollary for the code's numbers              (C15_code_bounds)
    10. Examples (hypotheses satisfiable) and counterexamples (side conditions necessary) *)
From Coq Require Import PeanoNat ZArith ZifyN ZifyNat ZifyBool.
From Ztyp Require Import Base Types Spec View Repr.
Open Scope N_scope.

#[local] Ltac Zify.zify_post_hook ::= Z.div_mod_to_equations.

(* ------------------------------------------------------------------------------------ *)
(** * 1. Induction principle for [ty] (nested [list ty] in TContainer / TUnion) *)

Section TyInd.
  Variable P : ty -> Prop.
  Hypothesis HUint : forall w, P (TUint w).
  Hypothesis HBool : P TBool.
  Hypothesis HBytes : forall n, P (TBytes n).
  Hypothesis HRoot : P TRoot.
  Hypothesis HBitvector : forall n, P (TBitvector n).
  Hypothesis HBitlist : forall n, P (TBitlist n).
  Hypothesis HVector : forall e n, P e -> P (TVector e n).
  Hypothesis HList : forall e n, P e -> P (TList e n).
  Hypothesis HContainer : forall fs, Forall P fs -> P (TContainer fs).
  Hypothesis HUnion : forall none opts, Forall P opts -> P (TUnion none opts).

  Fixpoint ty_ind' (t : ty) : P t :=
    match t with
    | TUint w => HUint w
    | TBool => HBool
    | TBytes n => HBytes n
    | TRoot => HRoot
    | TBitvector n => HBitvector n
    | TBitlist n => HBitlist n
    | TVector e n => HVector e n (ty_ind' e)
    | TList e n => HList e n (ty_ind' e)
    | TContainer fs =>
      HContainer fs
        ((fix go (l : list ty) : Forall P l :=
            match l with
            | [] => Forall_nil P
            | x :: r => Forall_cons x (ty_ind' x) (go r)
            end) fs)
    | TUnion none opts =>
      HUnion none opts
        ((fix go (l : list ty) : Forall P l :=
            match l with
            | [] => Forall_nil P
            | x :: r => Forall_cons x (ty_ind' x) (go r)
            end) opts)
    end.
End TyInd.

(* ------------------------------------------------------------------------------------ *)
(** * 2. Readable views of the nested fixpoints *)

Fixpoint has_type_fields (fs : list ty) (vs : list val) : bool :=
  match fs, vs with
  | [], [] => true
  | f :: fs', x :: vs' => has_type x f && has_type_fields fs' vs'
  | _, _ => false
  end.

Fixpoint ser_fields (fs : list ty) (vs : list val) : list part :=
  match fs, vs with
  | f :: fs', x :: vs' => (spec_is_fixed f, spec_ser f x) :: ser_fields fs' vs'
  | _, _ => []
  end.

Section Pick.
  Context {A : Type} (d : A) (f : ty -> A).
  Fixpoint pick_ty (os : list ty) (k : nat) : A :=
    match os, k with
    | [], _ => d
    | o :: _, O => f o
    | _ :: os', S k' => pick_ty os' k'
    end.
End Pick.

Lemma has_type_cont fs vs : has_type (VCont vs) (TContainer fs) = has_type_fields fs vs.
Proof. reflexivity. Qed.

Lemma spec_ser_cont fs vs : spec_ser (TContainer fs) (VCont vs) = ser_parts (ser_fields fs vs).
Proof. reflexivity. Qed.

Lemma has_type_union none opts sel ov :
  has_type (VUnion sel ov) (TUnion none opts) =
  if none && (sel =? 0) then match ov with None => true | Some _ => false end
  else pick_ty false (fun o => match ov with Some x => has_type x o | None => false end)
               opts (nat_of (if none then sel - 1 else sel)).
Proof. reflexivity. Qed.

Lemma spec_ser_union none opts sel ov :
  spec_ser (TUnion none opts) (VUnion sel ov) =
  byte_of_N sel ::
  match ov with
  | None => []
  | Some x => pick_ty [] (fun o => spec_ser o x) opts (nat_of (if none then sel - 1 else sel))
  end.
Proof. reflexivity. Qed.

Lemma pick_ty_nth_error {A} (d : A) f : forall os k,
  pick_ty d f os k = match nth_error os k with Some o => f o | None => d end.
Proof.
  induction os as [|o os IH]; intros [|k]; cbn [pick_ty nth_error]; auto.
Qed.

Lemma pick_ty_nth {A} (d : A) f dt : forall os k, (k < length os)%nat ->
  pick_ty d f os k = f (nth k os dt).
Proof.
  induction os as [|o os IH]; intros [|k] Hk; cbn [pick_ty nth length] in *; try lia; auto.
  apply IH. lia.
Qed.

(* ------------------------------------------------------------------------------------ *)
(** * 3. Length lemmas *)

Lemma lenN_app {A} (a b : list A) : lenN (a ++ b) = lenN a + lenN b.
Proof. unfold lenN. rewrite app_length. lia. Qed.

Lemma lenN_cons {A} (x : A) l : lenN (x :: l) = 1 + lenN l.
Proof. unfold lenN. cbn [length]. lia. Qed.

Lemma lenN_nil {A} : lenN (@nil A) = 0.
Proof. reflexivity. Qed.

Lemma le_bytes_length k : forall n, length (le_bytes k n) = k.
Proof. induction k as [|k IH]; intros n; cbn [le_bytes length]; auto. Qed.

Lemma bits_to_bytes_fuel_length : forall fuel bs, (length bs < fuel)%nat ->
  length (bits_to_bytes_fuel fuel bs) = ((length bs + 7) / 8)%nat.
Proof.
  induction fuel as [|f IH]; intros bs Hlt; [lia|].
  destruct bs as [|b r]; [reflexivity|].
  change (bits_to_bytes_fuel (S f) (b :: r))
    with (byte_of_N (bits_val (firstn 8 (b :: r))) :: bits_to_bytes_fuel f (skipn 8 (b :: r))).
  assert (Hpos : (1 <= length (b :: r))%nat) by (cbn [length]; lia).
  set (l := b :: r) in *. clearbody l.
  cbn [length]. rewrite IH by (rewrite skipn_length; lia).
  rewrite skipn_length. lia.
Qed.

Lemma bits_to_bytes_length bs : length (bits_to_bytes bs) = ((length bs + 7) / 8)%nat.
Proof. unfold bits_to_bytes. apply bits_to_bytes_fuel_length. lia. Qed.

Lemma bits_to_bytes_lenN bs : lenN (bits_to_bytes bs) = (lenN bs + 7) / 8.
Proof. unfold lenN. rewrite bits_to_bytes_length. lia. Qed.

Lemma ser_bitlist_lenN bs : lenN (ser_bitlist bs) = lenN bs / 8 + 1.
Proof.
  unfold ser_bitlist. rewrite bits_to_bytes_lenN, lenN_app.
  change (lenN [true]) with 1. lia.
Qed.

(* the encoded length of one part: inlined, or a 4-byte offset plus the heap bytes *)
Definition part_len (p : part) : N := if fst p then lenN (snd p) else 4 + lenN (snd p).

Lemma ser_parts_go_length : forall ps off,
  lenN (fst (ser_parts_go ps off)) + lenN (snd (ser_parts_go ps off)) = sumN (map part_len ps).
Proof.
  induction ps as [|[fx bs] r IH]; intros off; [reflexivity|].
  cbn [map sumN fold_right]. fold (sumN (map part_len r)).
  destruct fx; cbn [ser_parts_go].
  - specialize (IH off). destruct (ser_parts_go r off) as [f v].
    cbn [fst snd part_len] in *. rewrite lenN_app. lia.
  - specialize (IH (off + lenN bs)). destruct (ser_parts_go r (off + lenN bs)) as [f v].
    cbn [fst snd part_len] in *. rewrite !lenN_app.
    unfold lenN at 1. rewrite le_bytes_length. lia.
Qed.

Lemma ser_parts_lenN ps : lenN (ser_parts ps) = sumN (map part_len ps).
Proof.
  unfold ser_parts.
  pose proof (ser_parts_go_length ps (sumN (map part_fixed_size ps))) as H.
  destruct (ser_parts_go ps (sumN (map part_fixed_size ps))) as [f v].
  cbn [fst snd] in H. rewrite lenN_app. exact H.
Qed.

(* sums *)
Lemma sumN_cons x l : sumN (x :: l) = x + sumN l.
Proof. reflexivity. Qed.

Lemma sumN_map_const {A} (g : A -> N) c : forall l,
  Forall (fun x => g x = c) l -> sumN (map g l) = lenN l * c.
Proof.
  induction l as [|x l IH]; intros HF; [reflexivity|].
  pose proof (Forall_inv HF) as Hx; pose proof (Forall_inv_tail HF) as Hl; cbv beta in Hx.
  cbn [map]. rewrite sumN_cons, lenN_cons, IH, Hx by assumption. lia.
Qed.

Lemma sumN_map_bounds {A} (g : A -> N) lo hi : forall l,
  Forall (fun x => lo <= g x <= hi) l ->
  lenN l * lo <= sumN (map g l) <= lenN l * hi.
Proof.
  induction l as [|x l IH]; intros HF; [cbn; lia|].
  pose proof (Forall_inv HF) as Hx; pose proof (Forall_inv_tail HF) as Hl; cbv beta in Hx.
  cbn [map]. rewrite sumN_cons, lenN_cons. specialize (IH Hl). lia.
Qed.

Lemma sumN_map_le {A} (g h : A -> N) : forall l,
  Forall (fun x => g x <= h x) l -> sumN (map g l) <= sumN (map h l).
Proof.
  induction l as [|x l IH]; intros HF; [cbn; lia|].
  pose proof (Forall_inv HF) as Hx; pose proof (Forall_inv_tail HF) as Hl; cbv beta in Hx.
  cbn [map]. rewrite !sumN_cons. specialize (IH Hl). lia.
Qed.

Lemma sumN_map_ext {A} (g h : A -> N) : forall l,
  Forall (fun x => g x = h x) l -> sumN (map g l) = sumN (map h l).
Proof.
  induction l as [|x l IH]; intros HF; [reflexivity|].
  pose proof (Forall_inv HF) as Hx; pose proof (Forall_inv_tail HF) as Hl; cbv beta in Hx.
  cbn [map]. rewrite !sumN_cons, Hx, IH; auto.
Qed.

Lemma sumN_map_In_le {A} (g : A -> N) : forall l x, In x l -> g x <= sumN (map g l).
Proof.
  induction l as [|y l IH]; intros x Hin; [destruct Hin|].
  cbn [map]; rewrite sumN_cons. destruct Hin as [->|Hin]; [lia|].
  specialize (IH x Hin). lia.
Qed.

(* the serialization of a homogeneous series (vector / list) *)
Lemma ser_series_lenN (fx : bool) (g : val -> list byte) vs :
  lenN (ser_parts (map (fun x => (fx, g x)) vs)) =
  sumN (map (fun x => if fx then lenN (g x) else 4 + lenN (g x)) vs).
Proof. rewrite ser_parts_lenN, map_map. reflexivity. Qed.

(* min / max of lists *)
Lemma fold_min_comm a b : forall l,
  fold_right N.min (N.min a b) l = N.min a (fold_right N.min b l).
Proof. induction l as [|x l IH]; cbn [fold_right]; [reflexivity|]. rewrite IH. lia. Qed.

Lemma minN_cons2 x y r : minN (x :: y :: r) = N.min x (minN (y :: r)).
Proof.
  cbn [minN fold_right]. rewrite <- fold_min_comm, (N.min_comm y x), fold_min_comm. reflexivity.
Qed.

Lemma minN_In_le : forall l x, In x l -> minN l <= x.
Proof.
  induction l as [|y l IH]; intros x Hin; [destruct Hin|].
  destruct l as [|z l].
  - destruct Hin as [->|[]]. cbn. lia.
  - rewrite minN_cons2. destruct Hin as [->|Hin]; [lia|]. specialize (IH x Hin). lia.
Qed.

Lemma maxN_cons x l : maxN (x :: l) = N.max x (maxN l).
Proof. reflexivity. Qed.

Lemma maxN_In_le : forall l x, In x l -> x <= maxN l.
Proof.
  induction l as [|y l IH]; intros x Hin; [destruct Hin|].
  rewrite maxN_cons. destruct Hin as [->|Hin]; [lia|]. specialize (IH x Hin). lia.
Qed.

(* ------------------------------------------------------------------------------------ *)
(** * 4. Spec-level facts *)

Lemma forallb_Forall {A} (p : A -> bool) l : forallb p l = true <-> Forall (fun x => p x = true) l.
Proof.
  rewrite forallb_forall, Forall_forall. reflexivity.
Qed.

(* a fixed-size type has min = max = fixed_len *)
Lemma spec_fixed_min_max : forall t, spec_is_fixed t = true ->
  spec_min_len t = spec_fixed_len t /\ spec_max_len t = spec_fixed_len t.
Proof.
  induction t as [w| |n| |n|n|e n IHe|e n IHe|fs IHfs|none opts IHopts] using ty_ind';
    cbn [spec_is_fixed spec_min_len spec_max_len spec_fixed_len]; intros Hfx;
    try discriminate; try (split; reflexivity).
  - rewrite Hfx. split; reflexivity.
  - rewrite Hfx. apply forallb_Forall in Hfx.
    split; apply sumN_map_ext; rewrite Forall_forall in *; intros f Hin;
      rewrite (Hfx f Hin); reflexivity.
Qed.

Lemma spec_min_le_max : forall t, spec_min_len t <= spec_max_len t.
Proof.
  induction t as [w| |n| |n|n|e n IHe|e n IHe|fs IHfs|none opts IHopts] using ty_ind';
    cbn [spec_min_len spec_max_len]; try lia.
  - destruct (spec_is_fixed e); [lia|]. apply N.mul_le_mono_l. lia.
  - apply sumN_map_le. rewrite Forall_forall in *. intros f Hin.
    destruct (spec_is_fixed f); [lia|]. specialize (IHfs f Hin). lia.
  - destruct opts as [|o opts]; [cbn; destruct none; lia|].
    pose proof (Forall_inv IHopts) as Ho; cbv beta in Ho.
    assert (H1 : minN (map spec_min_len (o :: opts)) <= spec_min_len o)
      by (apply minN_In_le; cbn [map]; left; reflexivity).
    assert (H2 : spec_max_len o <= maxN (map spec_max_len (o :: opts)))
      by (apply maxN_In_le; cbn [map]; left; reflexivity).
    destruct none; lia.
Qed.

(* ------------------------------------------------------------------------------------ *)
(** * 5. The fixed flag of [info] *)

(* the per-field contributions, in spec terms *)
Definition fld_fix (f : ty) : N := if spec_is_fixed f then spec_fixed_len f else 4.
Definition fld_min (f : ty) : N := if spec_is_fixed f then spec_fixed_len f else 4 + spec_min_len f.
Definition fld_max (f : ty) : N := if spec_is_fixed f then spec_fixed_len f else 4 + spec_max_len f.
Definition fld_var (f : ty) : N := if spec_is_fixed f then 0 else 1.

Lemma cont_fold_offs : forall fs,
  Forall (fun f => ti_fixed (info f) = spec_is_fixed f) fs ->
  forall acc, snd (fold_left cont_step (map info fs) acc) = snd acc + sumN (map fld_var fs).
Proof.
  induction fs as [|f fs IH]; intros HF acc; [cbn; lia|].
  pose proof (Forall_inv HF) as Hf; pose proof (Forall_inv_tail HF) as Hr; cbv beta in Hf.
  cbn [map fold_left]. rewrite (IH Hr), sumN_cons.
  destruct acc as [[[fp mn] mx] offs]. unfold cont_step, fld_var. rewrite Hf.
  destruct (spec_is_fixed f); cbn [snd]; lia.
Qed.

Lemma sum_var_zero : forall fs, (sumN (map fld_var fs) =? 0) = forallb spec_is_fixed fs.
Proof.
  induction fs as [|f fs IH]; [reflexivity|].
  cbn [map forallb]. rewrite sumN_cons. unfold fld_var at 1.
  destruct (spec_is_fixed f); cbn [andb].
  - rewrite N.add_0_l. exact IH.
  - apply N.eqb_neq. lia.
Qed.

Lemma info_container fs :
  info (TContainer fs) =
  let '(fixed_part, mn, mx, offs) := cont_acc (map info fs) in
  if offs =? 0 then mkInfo mn mx fixed_part true else mkInfo mn mx 0 false.
Proof. reflexivity. Qed.

Lemma info_fixed_flag : forall t, ti_fixed (info t) = spec_is_fixed t.
Proof.
  induction t as [w| |n| |n|n|e n IHe|e n IHe|fs IHfs|none opts IHopts] using ty_ind';
    try reflexivity.
  - cbn [info spec_is_fixed].
    destruct (is_basic_elem e) eqn:B.
    + destruct e; try discriminate B. reflexivity.
    + rewrite IHe. destruct (spec_is_fixed e); reflexivity.
  - cbn [info spec_is_fixed].
    destruct (is_basic_elem e); [reflexivity|]. destruct (ti_fixed (info e)); reflexivity.
  - rewrite info_container. cbn [spec_is_fixed].
    pose proof (cont_fold_offs fs IHfs (0, 0, 0, 0)) as Hoffs. fold (cont_acc (map info fs)) in Hoffs.
    destruct (cont_acc (map info fs)) as [[[fp mn] mx] offs]. cbn [snd] in Hoffs.
    rewrite N.add_0_l in Hoffs. rewrite <- sum_var_zero, <- Hoffs.
    destruct (offs =? 0); reflexivity.
  - cbn [info spec_is_fixed].
    destruct none; [reflexivity|]. destruct (map info opts); reflexivity.
Qed.

(* ------------------------------------------------------------------------------------ *)
(** * 6. The sizes of [info] when nothing exceeds 2^64 *)

Lemma two64_eq : two64 = 2 ^ 64.
Proof. reflexivity. Qed.
Lemma two64_pos : 0 < two64.
Proof. reflexivity. Qed.
Lemma small_plus8 : 2 ^ 56 + 8 < two64.
Proof. reflexivity. Qed.

Lemma wrap64_small n : n < two64 -> wrap64 n = n.
Proof. intros H. unfold wrap64. apply N.mod_small. exact H. Qed.
Lemma wrap64_lt n : wrap64 n < two64.
Proof. unfold wrap64. apply N.mod_lt. pose proof two64_pos. lia. Qed.
Lemma wrap64_add_l a b : wrap64 (wrap64 a + b) = wrap64 (a + b).
Proof. unfold wrap64. apply N.add_mod_idemp_l. pose proof two64_pos. lia. Qed.
Lemma wrap64_add_r a b : wrap64 (a + wrap64 b) = wrap64 (a + b).
Proof. unfold wrap64. apply N.add_mod_idemp_r. pose proof two64_pos. lia. Qed.
Lemma wrap64_add3 a b c : wrap64 (wrap64 (a + b) + c) = wrap64 (a + (b + c)).
Proof. rewrite wrap64_add_l, N.add_assoc. reflexivity. Qed.
Lemma wrap64_add3r a b c : wrap64 (wrap64 (a + wrap64 b) + c) = wrap64 (a + (b + c)).
Proof. rewrite wrap64_add_l, <- N.add_assoc, (N.add_comm (wrap64 b)), N.add_assoc, wrap64_add_r. f_equal. lia. Qed.
Lemma mul64_0_l x : mul64 0 x = 0.
Proof. unfold mul64. rewrite N.mul_0_l. apply wrap64_small, two64_pos. Qed.

Definition info_ok (t : ty) : Prop :=
  ti_min (info t) = spec_min_len t /\
  ti_max (info t) = spec_max_len t /\
  ti_size (info t) = spec_fixed_len t.

(* TVector / TList metadata with the two "fixed element" branches merged *)
Lemma info_vector e n :
  info (TVector e n) =
  if spec_is_fixed e then let s := mul64 n (ti_size (info e)) in mkInfo s s s true
  else mkInfo (mul64 n (add64 (ti_min (info e)) 4)) (mul64 n (add64 (ti_max (info e)) 4)) 0 false.
Proof.
  cbn [info]. destruct (is_basic_elem e) eqn:B.
  - destruct e; try discriminate B. reflexivity.
  - rewrite info_fixed_flag. reflexivity.
Qed.

Lemma info_list e n :
  info (TList e n) =
  if spec_is_fixed e then mkInfo 0 (mul64 n (ti_size (info e))) 0 false
  else mkInfo 0 (mul64 n (add64 (ti_max (info e)) 4)) 0 false.
Proof.
  cbn [info]. destruct (is_basic_elem e) eqn:B.
  - destruct e; try discriminate B. reflexivity.
  - rewrite info_fixed_flag. reflexivity.
Qed.

Lemma mul_pos_le n x : 0 < n -> x <= n * x.
Proof. intros H. nia. Qed.

(* the container accumulator, in spec terms, given that the field metadata is right *)
Lemma cont_fold_spec : forall fs, Forall info_ok fs ->
  forall fp mn mx offs,
  fold_left cont_step (map info fs) (fp, mn, mx, offs) =
  (if fs then fp else wrap64 (fp + sumN (map fld_fix fs)),
   if fs then mn else wrap64 (mn + sumN (map fld_min fs)),
   if fs then mx else wrap64 (mx + sumN (map fld_max fs)),
   offs + sumN (map fld_var fs)).
Proof.
  induction fs as [|f fs IH]; intros HF fp mn mx offs.
  { cbn [map fold_left sumN fold_right]. rewrite N.add_0_r. reflexivity. }
  pose proof (Forall_inv HF) as Hf; pose proof (Forall_inv_tail HF) as Hr.
  destruct Hf as (Hmin & Hmax & Hsize).
  cbn [map fold_left]. rewrite !sumN_cons.
  unfold cont_step at 2. rewrite info_fixed_flag.
  unfold fld_fix at 1, fld_min at 1, fld_max at 1, fld_var at 1.
  destruct (spec_is_fixed f).
  - rewrite Hsize, (IH Hr). unfold add64.
    destruct fs as [|g fs]; [cbn [map sumN fold_right]; rewrite ?N.add_0_r; reflexivity|].
    rewrite !wrap64_add3. f_equal; lia.
  - rewrite Hmin, Hmax, (IH Hr). unfold add64.
    destruct fs as [|g fs];
      [cbn [map sumN fold_right]; rewrite !wrap64_add_r, ?N.add_0_r, ?N.add_assoc; reflexivity|].
    rewrite !wrap64_add3r, !wrap64_add3. f_equal; lia.
Qed.

(* union: the running min / max of the Go loop *)
Lemma fold_left_min_spec : forall l a0,
  fold_left (fun a x => if x <? a then x else a) l a0 = fold_right N.min a0 l.
Proof.
  induction l as [|x l IH]; intros a0; [reflexivity|].
  cbn [fold_left fold_right]. rewrite IH.
  replace (if x <? a0 then x else a0) with (N.min x a0) by (destruct (N.ltb_spec x a0); lia).
  apply fold_min_comm.
Qed.

Lemma fold_left_max_spec : forall l a0,
  fold_left (fun a x => if a <? x then x else a) l a0 = N.max a0 (maxN l).
Proof.
  induction l as [|x l IH]; intros a0; [cbn; lia|].
  cbn [fold_left]. rewrite IH, maxN_cons.
  destruct (N.ltb_spec a0 x); lia.
Qed.

Lemma fold_left_map {A B C} (f : A -> C -> A) (g : B -> C) : forall l a,
  fold_left (fun a i => f a (g i)) l a = fold_left f (map g l) a.
Proof. induction l as [|x l IH]; intros a; [reflexivity|]. cbn [map fold_left]. apply IH. Qed.

Lemma map_info_min : forall l, Forall info_ok l -> map ti_min (map info l) = map spec_min_len l.
Proof.
  induction l as [|x l IH]; intros HF; [reflexivity|].
  pose proof (Forall_inv HF) as Hx; pose proof (Forall_inv_tail HF) as Hl.
  cbn [map]. rewrite (IH Hl). destruct Hx as (-> & _). reflexivity.
Qed.
Lemma map_info_max : forall l, Forall info_ok l -> map ti_max (map info l) = map spec_max_len l.
Proof.
  induction l as [|x l IH]; intros HF; [reflexivity|].
  pose proof (Forall_inv HF) as Hx; pose proof (Forall_inv_tail HF) as Hl.
  cbn [map]. rewrite (IH Hl). destruct Hx as (_ & -> & _). reflexivity.
Qed.

Lemma info_union none opts :
  info (TUnion none opts) =
  let is := map info opts in
  let '(mn0, mx0, rest) :=
      if none then (0, 0, is)
      else match is with i0 :: r => (ti_min i0, ti_max i0, r) | [] => (0, 0, []) end in
  let mn := fold_left (fun a i => if ti_min i <? a then ti_min i else a) rest mn0 in
  let mx := fold_left (fun a i => if a <? ti_max i then ti_max i else a) rest mx0 in
  mkInfo (add64 mn 1) (add64 mx 1) 0 false.
Proof. reflexivity. Qed.

(* The main lemma.  [wf_ty] is not needed: the equalities also hold for degenerate types. *)
Lemma info_sizes_gen : forall t,
  small_params t = true -> spec_max_len t < two64 -> info_ok t.
Proof.
  pose proof two64_pos as H64. pose proof small_plus8 as H56.
  induction t as [w| |n| |n|n|e n IHe|e n IHe|fs IHfs|none opts IHopts] using ty_ind';
    intros Hsm Hmax; unfold info_ok.
  - repeat split.
  - repeat split.
  - repeat split.
  - repeat split.
  - (* TBitvector *)
    cbn [small_params] in Hsm. apply N.leb_le in Hsm.
    cbn [info ti_min ti_max ti_size spec_min_len spec_max_len spec_fixed_len].
    rewrite wrap64_small by lia. repeat split.
  - (* TBitlist *)
    cbn [small_params] in Hsm. apply N.leb_le in Hsm.
    cbn [info ti_min ti_max ti_size spec_min_len spec_max_len spec_fixed_len].
    rewrite wrap64_small by lia. repeat split. lia.
  - (* TVector *)
    cbn [small_params] in Hsm. apply andb_true_iff in Hsm. destruct Hsm as [_ Hsme].
    rewrite info_vector. cbn [spec_min_len spec_max_len spec_fixed_len] in *.
    destruct (N.eq_dec n 0) as [->|Hn].
    { rewrite !mul64_0_l. destruct (spec_is_fixed e); cbn [ti_min ti_max ti_size]; repeat split. }
    destruct (spec_is_fixed e) eqn:Hfx.
    + destruct (spec_fixed_min_max e Hfx) as [_ Hmx].
      pose proof (mul_pos_le n (spec_fixed_len e) ltac:(lia)) as Hle.
      destruct (IHe Hsme ltac:(lia)) as (_ & _ & Hsz).
      cbn [ti_min ti_max ti_size]. rewrite Hsz. unfold mul64. rewrite wrap64_small by lia.
      repeat split.
    + pose proof (mul_pos_le n (4 + spec_max_len e) ltac:(lia)) as Hle.
      pose proof (spec_min_le_max e) as Hmm.
      assert (Hmin' : n * (4 + spec_min_len e) <= n * (4 + spec_max_len e))
        by (apply N.mul_le_mono_l; lia).
      destruct (IHe Hsme ltac:(lia)) as (Hmn & Hmx & _).
      cbn [ti_min ti_max ti_size]. rewrite Hmn, Hmx. unfold mul64, add64.
      rewrite (wrap64_small (spec_min_len e + 4)) by lia.
      rewrite (wrap64_small (spec_max_len e + 4)) by lia.
      rewrite (N.add_comm (spec_min_len e)), (N.add_comm (spec_max_len e)).
      rewrite !wrap64_small by lia. repeat split.
  - (* TList *)
    cbn [small_params] in Hsm. apply andb_true_iff in Hsm. destruct Hsm as [_ Hsme].
    rewrite info_list. cbn [spec_min_len spec_max_len spec_fixed_len] in *.
    destruct (N.eq_dec n 0) as [->|Hn].
    { rewrite !mul64_0_l. destruct (spec_is_fixed e); cbn [ti_min ti_max ti_size]; repeat split. }
    destruct (spec_is_fixed e) eqn:Hfx.
    + destruct (spec_fixed_min_max e Hfx) as [_ Hmx].
      pose proof (mul_pos_le n (spec_fixed_len e) ltac:(lia)) as Hle.
      destruct (IHe Hsme ltac:(lia)) as (_ & _ & Hsz).
      cbn [ti_min ti_max ti_size]. rewrite Hsz. unfold mul64. rewrite wrap64_small by lia.
      repeat split.
    + pose proof (mul_pos_le n (4 + spec_max_len e) ltac:(lia)) as Hle.
      destruct (IHe Hsme ltac:(lia)) as (_ & Hmx & _).
      cbn [ti_min ti_max ti_size]. rewrite Hmx. unfold mul64, add64.
      rewrite (wrap64_small (spec_max_len e + 4)) by lia.
      rewrite (N.add_comm (spec_max_len e)).
      rewrite !wrap64_small by lia. repeat split.
  - (* TContainer *)
    cbn [small_params] in Hsm. apply forallb_Forall in Hsm.
    cbn [spec_min_len spec_max_len spec_fixed_len] in *.
    fold fld_max in Hmax. fold fld_max. fold fld_min.
    assert (Hok : Forall info_ok fs).
    { rewrite Forall_forall in *. intros f Hin. apply (IHfs f Hin (Hsm f Hin)).
      pose proof (sumN_map_In_le fld_max fs f Hin) as Hle. unfold fld_max at 1 in Hle.
      destruct (spec_is_fixed f) eqn:Hfx; [|lia].
      destruct (spec_fixed_min_max f Hfx) as [_ ->]. lia. }
    rewrite info_container. unfold cont_acc. rewrite (cont_fold_spec fs Hok).
    rewrite !N.add_0_l, sum_var_zero.
    destruct fs as [|f0 fs0]; [cbn; repeat split|]. set (fs := f0 :: fs0) in *.
    assert (Hmm : sumN (map fld_min fs) <= sumN (map fld_max fs)).
    { apply sumN_map_le. apply Forall_forall. intros f _. unfold fld_min, fld_max.
      pose proof (spec_min_le_max f). destruct (spec_is_fixed f); lia. }
    rewrite (wrap64_small (sumN (map fld_min fs))) by lia.
    rewrite (wrap64_small (sumN (map fld_max fs))) by lia.
    destruct (forallb spec_is_fixed fs) eqn:Hall; cbn [ti_min ti_max ti_size]; repeat split.
    assert (Heq : sumN (map fld_fix fs) = sumN (map spec_fixed_len fs)).
    { apply sumN_map_ext. apply forallb_Forall in Hall. rewrite Forall_forall in *.
      intros f Hin. unfold fld_fix. rewrite (Hall f Hin). reflexivity. }
    assert (Heq2 : sumN (map fld_max fs) = sumN (map spec_fixed_len fs)).
    { apply sumN_map_ext. apply forallb_Forall in Hall. rewrite Forall_forall in *.
      intros f Hin. unfold fld_max. rewrite (Hall f Hin). reflexivity. }
    rewrite Heq. apply wrap64_small. lia.
  - (* TUnion *)
    cbn [small_params] in Hsm. apply forallb_Forall in Hsm.
    cbn [spec_min_len spec_max_len spec_fixed_len] in *.
    assert (Hok : Forall info_ok opts).
    { rewrite Forall_forall in *. intros o Hin. apply (IHopts o Hin (Hsm o Hin)).
      pose proof (maxN_In_le (map spec_max_len opts) (spec_max_len o) (in_map _ _ _ Hin)). lia. }
    rewrite info_union. cbv zeta.
    destruct none.
    + rewrite (fold_left_map (fun a x => if x <? a then x else a) ti_min).
      rewrite (fold_left_map (fun a x => if a <? x then x else a) ti_max).
      rewrite fold_left_min_spec, fold_left_max_spec, map_info_max by exact Hok.
      assert (Hz : forall l, fold_right N.min 0 l = 0)
        by (induction l as [|x l IHl]; cbn [fold_right]; [reflexivity|rewrite IHl; lia]).
      rewrite Hz. cbn [ti_min ti_max ti_size]. unfold add64.
      rewrite N.max_r by lia. rewrite !wrap64_small by lia. repeat split; lia.
    + destruct opts as [|o opts].
      { cbn. repeat split. }
      cbn [map].
      pose proof (Forall_inv Hok) as (Hmn & Hmx & _). pose proof (Forall_inv_tail Hok) as Hr.
      rewrite (fold_left_map (fun a x => if x <? a then x else a) ti_min).
      rewrite (fold_left_map (fun a x => if a <? x then x else a) ti_max).
      rewrite fold_left_min_spec, fold_left_max_spec, map_info_max, map_info_min by exact Hr.
      rewrite Hmn, Hmx. cbn [ti_min ti_max ti_size]. unfold add64.
      cbn [map] in Hmax. rewrite maxN_cons in *.
      pose proof (spec_min_le_max (TUnion false (o :: opts))) as Hmm.
      cbn [spec_min_len spec_max_len map] in Hmm. rewrite maxN_cons in Hmm.
      change (minN (spec_min_len o :: map spec_min_len opts))
        with (fold_right N.min (spec_min_len o) (map spec_min_len opts)) in *.
      rewrite !wrap64_small by lia. repeat split; lia.
Qed.

(* ------------------------------------------------------------------------------------ *)
(** * 7. Soundness of the spec bounds for [spec_ser] *)

Lemma lenN_le_bytes w n : lenN (le_bytes (nat_of w) n) = w.
Proof. unfold lenN, nat_of. rewrite le_bytes_length. lia. Qed.

Lemma forallb_Forall_in {A} (p : A -> bool) (Q : A -> Prop) l :
  (forall x, p x = true -> Q x) -> forallb p l = true -> Forall Q l.
Proof.
  intros HpQ H. apply forallb_Forall in H. rewrite Forall_forall in *. auto.
Qed.

(* fixed-size types: every value has the fixed length *)
Definition fixed_len_ok (t : ty) : Prop :=
  forall v, spec_is_fixed t = true -> has_type v t = true -> lenN (spec_ser t v) = spec_fixed_len t.

Lemma fields_fixed_len : forall fs, Forall fixed_len_ok fs ->
  forall vs, forallb spec_is_fixed fs = true -> has_type_fields fs vs = true ->
  sumN (map part_len (ser_fields fs vs)) = sumN (map spec_fixed_len fs).
Proof.
  induction fs as [|f fs IH]; intros HF vs Hfx Hty; destruct vs as [|x vs];
    cbn [has_type_fields] in Hty; try discriminate Hty; [reflexivity|].
  pose proof (Forall_inv HF) as Hf; pose proof (Forall_inv_tail HF) as Hr.
  cbn [forallb] in Hfx. apply andb_true_iff in Hfx. destruct Hfx as [Hfx1 Hfx2].
  apply andb_true_iff in Hty. destruct Hty as [Hty1 Hty2].
  cbn [ser_fields map]. rewrite !sumN_cons, (IH Hr vs Hfx2 Hty2).
  unfold part_len at 1. cbn [fst snd]. rewrite Hfx1, (Hf x Hfx1 Hty1). reflexivity.
Qed.

Lemma spec_ser_fixed_len : forall t, fixed_len_ok t.
Proof.
  induction t as [w| |n| |n|n|e n IHe|e n IHe|fs IHfs|none opts IHopts] using ty_ind';
    intros v Hfx Hty; cbn [spec_is_fixed] in Hfx; try discriminate Hfx;
    destruct v; try (cbn [has_type] in Hty; discriminate Hty).
  - cbn [spec_ser spec_fixed_len]. apply lenN_le_bytes.
  - reflexivity.
  - cbn [has_type] in Hty. apply N.eqb_eq in Hty. exact Hty.
  - cbn [has_type] in Hty. apply N.eqb_eq in Hty. exact Hty.
  - cbn [has_type] in Hty. apply N.eqb_eq in Hty.
    cbn [spec_ser spec_fixed_len]. rewrite bits_to_bytes_lenN. unfold lenN. rewrite Hty. reflexivity.
  - cbn [has_type] in Hty. apply andb_true_iff in Hty. destruct Hty as [Hlen Hall].
    apply N.eqb_eq in Hlen.
    cbn [spec_ser spec_fixed_len]. rewrite (ser_series_lenN (spec_is_fixed e) (spec_ser e)), Hfx.
    rewrite (sumN_map_const _ (spec_fixed_len e)).
    + unfold lenN. rewrite Hlen. reflexivity.
    + revert Hall. apply forallb_Forall_in. intros x Hx. apply (IHe x Hfx Hx).
  - rewrite has_type_cont in Hty. rewrite spec_ser_cont, ser_parts_lenN.
    cbn [spec_fixed_len]. rewrite Hfx. apply fields_fixed_len; assumption.
Qed.

(* all types: the encoded length lies within the spec bounds *)
Definition bounds_ok (t : ty) : Prop :=
  forall v, has_type v t = true -> spec_min_len t <= lenN (spec_ser t v) <= spec_max_len t.

Lemma fields_bounds : forall fs, Forall bounds_ok fs ->
  forall vs, has_type_fields fs vs = true ->
  sumN (map fld_min fs) <= sumN (map part_len (ser_fields fs vs)) <= sumN (map fld_max fs).
Proof.
  induction fs as [|f fs IH]; intros HF vs Hty; destruct vs as [|x vs];
    cbn [has_type_fields] in Hty; try discriminate Hty; [cbn; lia|].
  pose proof (Forall_inv HF) as Hf; pose proof (Forall_inv_tail HF) as Hr.
  apply andb_true_iff in Hty. destruct Hty as [Hty1 Hty2].
  cbn [ser_fields map]. rewrite !sumN_cons. specialize (IH Hr vs Hty2).
  unfold part_len at 1 3, fld_min at 1, fld_max at 1. cbn [fst snd].
  destruct (spec_is_fixed f) eqn:Hfx.
  - rewrite (spec_ser_fixed_len f x Hfx Hty1). lia.
  - specialize (Hf x Hty1). lia.
Qed.

Lemma spec_ser_bounds : forall t, bounds_ok t.
Proof.
  induction t as [w| |n| |n|n|e n IHe|e n IHe|fs IHfs|none opts IHopts] using ty_ind';
    intros v Hty; destruct v; try (cbn [has_type] in Hty; discriminate Hty).
  - cbn [spec_ser spec_min_len spec_max_len]. rewrite lenN_le_bytes. lia.
  - cbn [spec_ser spec_min_len spec_max_len]. rewrite lenN_cons, lenN_nil. lia.
  - cbn [has_type] in Hty. apply N.eqb_eq in Hty.
    cbn [spec_ser spec_min_len spec_max_len]. unfold lenN. lia.
  - cbn [has_type] in Hty. apply N.eqb_eq in Hty.
    cbn [spec_ser spec_min_len spec_max_len]. unfold lenN. lia.
  - cbn [has_type] in Hty. apply N.eqb_eq in Hty.
    cbn [spec_ser spec_min_len spec_max_len]. rewrite bits_to_bytes_lenN. unfold lenN. rewrite Hty. lia.
  - cbn [has_type] in Hty. apply N.leb_le in Hty.
    cbn [spec_ser spec_min_len spec_max_len]. rewrite ser_bitlist_lenN. unfold lenN. lia.
  - (* TVector *)
    cbn [has_type] in Hty. apply andb_true_iff in Hty. destruct Hty as [Hlen Hall].
    apply N.eqb_eq in Hlen. fold (lenN vs) in Hlen.
    cbn [spec_ser spec_min_len spec_max_len].
    rewrite (ser_series_lenN (spec_is_fixed e) (spec_ser e)).
    destruct (spec_is_fixed e) eqn:Hfx.
    + rewrite (sumN_map_const _ (spec_fixed_len e)).
      * rewrite Hlen. lia.
      * revert Hall. apply forallb_Forall_in. intros x Hx. apply (spec_ser_fixed_len e x Hfx Hx).
    + rewrite <- Hlen.
      apply (sumN_map_bounds (fun x => 4 + lenN (spec_ser e x))).
      revert Hall. apply forallb_Forall_in. intros x Hx. specialize (IHe x Hx). lia.
  - (* TList *)
    cbn [has_type] in Hty. apply andb_true_iff in Hty. destruct Hty as [Hlen Hall].
    apply N.leb_le in Hlen. fold (lenN vs) in Hlen.
    cbn [spec_ser spec_min_len spec_max_len].
    rewrite (ser_series_lenN (spec_is_fixed e) (spec_ser e)).
    destruct (spec_is_fixed e) eqn:Hfx.
    + rewrite (sumN_map_const _ (spec_fixed_len e)).
      * split; [lia|]. apply N.mul_le_mono_r. exact Hlen.
      * revert Hall. apply forallb_Forall_in. intros x Hx. apply (spec_ser_fixed_len e x Hfx Hx).
    + split; [lia|].
      pose proof (sumN_map_bounds (fun x => 4 + lenN (spec_ser e x)) 0 (4 + spec_max_len e) vs) as Hb.
      assert (Hle : lenN vs * (4 + spec_max_len e) <= n * (4 + spec_max_len e))
        by (apply N.mul_le_mono_r; exact Hlen).
      enough (sumN (map (fun x => 4 + lenN (spec_ser e x)) vs) <= lenN vs * (4 + spec_max_len e)) by lia.
      apply Hb. revert Hall. apply forallb_Forall_in. intros x Hx. specialize (IHe x Hx). lia.
  - (* TContainer *)
    rewrite has_type_cont in Hty. rewrite spec_ser_cont, ser_parts_lenN.
    cbn [spec_min_len spec_max_len]. apply fields_bounds; assumption.
  - (* TUnion *)
    rewrite has_type_union in Hty. rewrite spec_ser_union.
    cbn [spec_min_len spec_max_len].
    destruct (none && (sel =? 0)) eqn:Hsel.
    + destruct v as [x|]; [discriminate Hty|].
      apply andb_true_iff in Hsel. destruct Hsel as [-> _].
      cbv beta match. change (lenN [byte_of_N sel]) with 1. lia.
    + rewrite pick_ty_nth_error in Hty.
      destruct (nth_error opts (nat_of (if none then sel - 1 else sel))) as [o|] eqn:Hnth;
        [|discriminate Hty].
      destruct v as [x|]; [|discriminate Hty].
      rewrite pick_ty_nth_error, Hnth, lenN_cons.
      apply nth_error_In in Hnth.
      rewrite Forall_forall in IHopts. specialize (IHopts o Hnth x Hty).
      pose proof (minN_In_le (map spec_min_len opts) (spec_min_len o) (in_map _ _ _ Hnth)).
      pose proof (maxN_In_le (map spec_max_len opts) (spec_max_len o) (in_map _ _ _ Hnth)).
      destruct none; lia.
Qed.

(* ------------------------------------------------------------------------------------ *)
(** * 8. Tightness: both bounds are attained *)

(* index of a smallest / largest element of a non-empty list *)
Fixpoint argmin (l : list N) : nat :=
  match l with
  | [] => O
  | x :: r => match r with
              | [] => O
              | _ :: _ => if x <=? minN r then O else S (argmin r)
              end
  end.

Fixpoint argmax (l : list N) : nat :=
  match l with
  | [] => O
  | x :: r => if maxN r <=? x then O else S (argmax r)
  end.

(* A value with the shortest encoding: empty lists, the union option with the smallest minimum.
   (Only reasoned about; [repeat _ (nat_of n)] is never computed for big n.) *)
Fixpoint min_val (t : ty) : val :=
  match t with
  | TUint _ => VUint 0
  | TBool => VBool false
  | TBytes n => VBytes (zero_bytes (nat_of n))
  | TRoot => VBytes (zero_bytes 32)
  | TBitvector n => VBits (repeat false (nat_of n))
  | TBitlist _ => VBits []
  | TVector e n => VSeq (repeat (min_val e) (nat_of n))
  | TList _ _ => VSeq []
  | TContainer fs => VCont (map min_val fs)
  | TUnion none opts =>
    if none then VUnion 0 None
    else let k := argmin (map spec_min_len opts) in
         VUnion (N.of_nat k) (Some (nth k (map min_val opts) (VBool false)))
  end.

(* A value with the longest encoding: full lists of longest elements, the union option with the
   largest maximum. *)
Fixpoint max_val (t : ty) : val :=
  match t with
  | TUint _ => VUint 0
  | TBool => VBool false
  | TBytes n => VBytes (zero_bytes (nat_of n))
  | TRoot => VBytes (zero_bytes 32)
  | TBitvector n => VBits (repeat false (nat_of n))
  | TBitlist n => VBits (repeat false (nat_of n))
  | TVector e n => VSeq (repeat (max_val e) (nat_of n))
  | TList e n => VSeq (repeat (max_val e) (nat_of n))
  | TContainer fs => VCont (map max_val fs)
  | TUnion none opts =>
    let k := argmax (map spec_max_len opts) in
    VUnion (N.of_nat k + (if none then 1 else 0)) (Some (nth k (map max_val opts) (VBool false)))
  end.

Lemma argmin_cons x r : r <> [] -> argmin (x :: r) = if x <=? minN r then O else S (argmin r).
Proof. destruct r; [congruence|reflexivity]. Qed.

Lemma minN_cons_ne x r : r <> [] -> minN (x :: r) = N.min x (minN r).
Proof. destruct r; [congruence|]. intros _. apply minN_cons2. Qed.

Lemma argmin_spec : forall l, l <> [] ->
  (argmin l < length l)%nat /\ nth (argmin l) l 0 = minN l.
Proof.
  induction l as [|x r IH]; [congruence|]. intros _.
  destruct r as [|y r'].
  { cbn. split; [lia|reflexivity]. }
  assert (Hne : y :: r' <> []) by discriminate.
  set (r := y :: r') in *. clearbody r.
  rewrite argmin_cons, minN_cons_ne by exact Hne.
  destruct (IH Hne) as [Hlt Hnth].
  destruct (N.leb_spec x (minN r)); cbn [nth length]; split; lia.
Qed.

Lemma argmax_spec : forall l, l <> [] ->
  (argmax l < length l)%nat /\ nth (argmax l) l 0 = maxN l.
Proof.
  induction l as [|x r IH]; [congruence|]. intros _.
  cbn [argmax]. rewrite maxN_cons.
  destruct (N.leb_spec (maxN r) x) as [Hle|Hgt]; cbn [nth length]; [split; lia|].
  assert (Hne : r <> []) by (intros ->; cbn in Hgt; lia).
  destruct (IH Hne) as [Hlt Hnth]. split; lia.
Qed.

Lemma forallb_repeat {A} (p : A -> bool) x : forall k, p x = true -> forallb p (repeat x k) = true.
Proof. induction k as [|k IH]; intros Hx; cbn [repeat forallb]; [reflexivity|]. rewrite Hx, IH; auto. Qed.

Lemma Forall_repeat {A} (Q : A -> Prop) x k : Q x -> Forall Q (repeat x k).
Proof. intros Hx. induction k; cbn [repeat]; constructor; auto. Qed.

Lemma lenN_repeat {A} (x : A) n : lenN (repeat x (nat_of n)) = n.
Proof. unfold lenN, nat_of. rewrite repeat_length. lia. Qed.

(* a container value built field by field *)
Lemma fields_tight (mv : ty -> val) (m : ty -> N) : forall fs,
  Forall (fun f => has_type (mv f) f = true /\ lenN (spec_ser f (mv f)) = m f) fs ->
  has_type_fields fs (map mv fs) = true /\
  sumN (map part_len (ser_fields fs (map mv fs))) =
  sumN (map (fun f => if spec_is_fixed f then m f else 4 + m f) fs).
Proof.
  induction fs as [|f fs IH]; intros HF; [split; reflexivity|].
  pose proof (Forall_inv HF) as Hf; pose proof (Forall_inv_tail HF) as Hr. cbv beta in Hf.
  destruct Hf as [Hty Hlen]. destruct (IH Hr) as [IH1 IH2].
  cbn [map has_type_fields ser_fields]. rewrite Hty, IH1, !sumN_cons, IH2.
  unfold part_len at 1. cbn [fst snd]. rewrite Hlen. split; reflexivity.
Qed.

(* a union value built from option [k] *)
Lemma union_pick_tight (mv : ty -> val) (m : ty -> N) (none : bool) (opts : list ty) (k : nat) :
  mv TBool = VBool false ->
  (k < length opts)%nat ->
  Forall (fun o => wf_ty o = true -> has_type (mv o) o = true /\ lenN (spec_ser o (mv o)) = m o) opts ->
  forallb wf_ty opts = true ->
  let sel := N.of_nat k + (if none then 1 else 0) in
  let v := VUnion sel (Some (nth k (map mv opts) (VBool false))) in
  has_type v (TUnion none opts) = true /\
  lenN (spec_ser (TUnion none opts) v) = 1 + nth k (map m opts) 0.
Proof.
  intros Hd Hk HF Hwf sel v. subst v.
  rewrite has_type_union, spec_ser_union.
  assert (Hidx : nat_of (if none then sel - 1 else sel) = k)
    by (subst sel; unfold nat_of; destruct none; lia).
  assert (Hsel : none && (sel =? 0) = false).
  { destruct none; [|reflexivity]. cbn [andb]. apply N.eqb_neq. subst sel. lia. }
  rewrite Hsel, Hidx, lenN_cons.
  rewrite (pick_ty_nth _ _ TBool) by exact Hk.
  rewrite (pick_ty_nth _ _ TBool) by exact Hk.
  rewrite <- Hd, map_nth.
  assert (Hin : In (nth k opts TBool) opts) by (apply nth_In; exact Hk).
  rewrite Forall_forall in HF. apply forallb_Forall in Hwf. rewrite Forall_forall in Hwf.
  destruct (HF _ Hin (Hwf _ Hin)) as [Hty Hlen].
  split; [exact Hty|]. rewrite Hlen.
  rewrite (nth_indep (map m opts) 0 (m TBool)) by (rewrite map_length; exact Hk).
  rewrite map_nth. reflexivity.
Qed.

Definition tight_min_ok (t : ty) : Prop :=
  wf_ty t = true ->
  has_type (min_val t) t = true /\ lenN (spec_ser t (min_val t)) = spec_min_len t.

Definition tight_max_ok (t : ty) : Prop :=
  wf_ty t = true ->
  has_type (max_val t) t = true /\ lenN (spec_ser t (max_val t)) = spec_max_len t.

Lemma pow2_pos k : 0 < 2 ^ k.
Proof. pose proof (N.pow_nonzero 2 k). lia. Qed.

Lemma opts_nonempty (opts : list ty) : negb (Nat.eqb (length opts) 0) = true -> opts <> [].
Proof. destruct opts; [discriminate|discriminate]. Qed.

Lemma spec_min_tight : forall t, tight_min_ok t.
Proof.
  induction t as [w| |n| |n|n|e n IHe|e n IHe|fs IHfs|none opts IHopts] using ty_ind';
    intros Hwf.
  - cbn [min_val has_type spec_ser spec_min_len]. split; [apply N.ltb_lt, pow2_pos|apply lenN_le_bytes].
  - split; reflexivity.
  - cbn [min_val has_type spec_ser spec_min_len]. unfold zero_bytes. fold (lenN (repeat b0 (nat_of n))).
    rewrite lenN_repeat. split; [apply N.eqb_refl|reflexivity].
  - split; reflexivity.
  - cbn [min_val has_type spec_ser spec_min_len]. rewrite bits_to_bytes_lenN.
    fold (lenN (repeat false (nat_of n))). rewrite lenN_repeat. split; [apply N.eqb_refl|reflexivity].
  - cbn [min_val has_type spec_ser spec_min_len]. rewrite ser_bitlist_lenN.
    split; [apply N.leb_le; cbn; lia|reflexivity].
  - (* TVector *)
    cbn [wf_ty] in Hwf. apply andb_true_iff in Hwf. destruct Hwf as [_ Hwfe].
    destruct (IHe Hwfe) as [Hty Hlen].
    cbn [min_val has_type spec_ser spec_min_len].
    fold (lenN (repeat (min_val e) (nat_of n))). rewrite lenN_repeat, N.eqb_refl.
    rewrite forallb_repeat by exact Hty. split; [reflexivity|].
    rewrite (ser_series_lenN (spec_is_fixed e) (spec_ser e)).
    rewrite (sumN_map_const _ (if spec_is_fixed e then spec_fixed_len e else 4 + spec_min_len e)).
    + rewrite lenN_repeat. destruct (spec_is_fixed e); reflexivity.
    + apply Forall_repeat. rewrite Hlen. destruct (spec_is_fixed e) eqn:Hfx; [|reflexivity].
      apply (spec_fixed_min_max e Hfx).
  - (* TList *)
    cbn [min_val has_type spec_ser spec_min_len]. split; [apply andb_true_iff; split; [apply N.leb_le; cbn; lia|reflexivity]|].
    reflexivity.
  - (* TContainer *)
    cbn [wf_ty] in Hwf. apply andb_true_iff in Hwf. destruct Hwf as [_ Hwfs].
    cbn [min_val]. rewrite has_type_cont, spec_ser_cont, ser_parts_lenN. cbn [spec_min_len].
    destruct (fields_tight min_val spec_min_len fs) as [H1 H2].
    { apply forallb_Forall in Hwfs. rewrite Forall_forall in *. intros f Hin.
      apply (IHfs f Hin (Hwfs f Hin)). }
    split; [exact H1|]. rewrite H2. apply sumN_map_ext. apply Forall_forall. intros f _.
    destruct (spec_is_fixed f) eqn:Hfx; [|reflexivity]. apply (spec_fixed_min_max f Hfx).
  - (* TUnion *)
    cbn [wf_ty] in Hwf. apply andb_true_iff in Hwf. destruct Hwf as [Hwf Hwfs].
    apply andb_true_iff in Hwf. destruct Hwf as [Hne _]. apply opts_nonempty in Hne.
    cbn [min_val spec_min_len]. destruct none.
    { rewrite has_type_union, spec_ser_union. split; reflexivity. }
    assert (Hne' : map spec_min_len opts <> []) by (destruct opts; [congruence|discriminate]).
    destruct (argmin_spec _ Hne') as [Hlt Hnth]. rewrite map_length in Hlt.
    cbv zeta. set (k := argmin (map spec_min_len opts)) in *.
    pose proof (union_pick_tight min_val spec_min_len false opts k eq_refl Hlt IHopts Hwfs) as Hu.
    cbv zeta in Hu. rewrite N.add_0_r in Hu. rewrite Hnth in Hu. exact Hu.
Qed.

Lemma spec_max_tight : forall t, tight_max_ok t.
Proof.
  induction t as [w| |n| |n|n|e n IHe|e n IHe|fs IHfs|none opts IHopts] using ty_ind';
    intros Hwf.
  - cbn [max_val has_type spec_ser spec_max_len]. split; [apply N.ltb_lt, pow2_pos|apply lenN_le_bytes].
  - split; reflexivity.
  - cbn [max_val has_type spec_ser spec_max_len]. unfold zero_bytes. fold (lenN (repeat b0 (nat_of n))).
    rewrite lenN_repeat. split; [apply N.eqb_refl|reflexivity].
  - split; reflexivity.
  - cbn [max_val has_type spec_ser spec_max_len]. rewrite bits_to_bytes_lenN.
    fold (lenN (repeat false (nat_of n))). rewrite lenN_repeat. split; [apply N.eqb_refl|reflexivity].
  - cbn [max_val has_type spec_ser spec_max_len]. rewrite ser_bitlist_lenN.
    fold (lenN (repeat false (nat_of n))). rewrite lenN_repeat. split; [apply N.leb_refl|reflexivity].
  - (* TVector *)
    cbn [wf_ty] in Hwf. apply andb_true_iff in Hwf. destruct Hwf as [_ Hwfe].
    destruct (IHe Hwfe) as [Hty Hlen].
    cbn [max_val has_type spec_ser spec_max_len].
    fold (lenN (repeat (max_val e) (nat_of n))). rewrite lenN_repeat, N.eqb_refl.
    rewrite forallb_repeat by exact Hty. split; [reflexivity|].
    rewrite (ser_series_lenN (spec_is_fixed e) (spec_ser e)).
    rewrite (sumN_map_const _ (if spec_is_fixed e then spec_fixed_len e else 4 + spec_max_len e)).
    + rewrite lenN_repeat. destruct (spec_is_fixed e); reflexivity.
    + apply Forall_repeat. rewrite Hlen. destruct (spec_is_fixed e) eqn:Hfx; [|reflexivity].
      apply (spec_fixed_min_max e Hfx).
  - (* TList *)
    cbn [wf_ty] in Hwf.
    destruct (IHe Hwf) as [Hty Hlen].
    cbn [max_val has_type spec_ser spec_max_len].
    fold (lenN (repeat (max_val e) (nat_of n))). rewrite lenN_repeat, N.leb_refl.
    rewrite forallb_repeat by exact Hty. split; [reflexivity|].
    rewrite (ser_series_lenN (spec_is_fixed e) (spec_ser e)).
    rewrite (sumN_map_const _ (if spec_is_fixed e then spec_fixed_len e else 4 + spec_max_len e)).
    + rewrite lenN_repeat. destruct (spec_is_fixed e); reflexivity.
    + apply Forall_repeat. rewrite Hlen. destruct (spec_is_fixed e) eqn:Hfx; [|reflexivity].
      apply (spec_fixed_min_max e Hfx).
  - (* TContainer *)
    cbn [wf_ty] in Hwf. apply andb_true_iff in Hwf. destruct Hwf as [_ Hwfs].
    cbn [max_val]. rewrite has_type_cont, spec_ser_cont, ser_parts_lenN. cbn [spec_max_len].
    destruct (fields_tight max_val spec_max_len fs) as [H1 H2].
    { apply forallb_Forall in Hwfs. rewrite Forall_forall in *. intros f Hin.
      apply (IHfs f Hin (Hwfs f Hin)). }
    split; [exact H1|]. rewrite H2. apply sumN_map_ext. apply Forall_forall. intros f _.
    destruct (spec_is_fixed f) eqn:Hfx; [|reflexivity]. apply (spec_fixed_min_max f Hfx).
  - (* TUnion *)
    cbn [wf_ty] in Hwf. apply andb_true_iff in Hwf. destruct Hwf as [Hwf Hwfs].
    apply andb_true_iff in Hwf. destruct Hwf as [Hne _]. apply opts_nonempty in Hne.
    cbn [max_val spec_max_len].
    assert (Hne' : map spec_max_len opts <> []) by (destruct opts; [congruence|discriminate]).
    destruct (argmax_spec _ Hne') as [Hlt Hnth]. rewrite map_length in Hlt.
    cbv zeta. set (k := argmax (map spec_max_len opts)) in *.
    pose proof (union_pick_tight max_val spec_max_len none opts k eq_refl Hlt IHopts Hwfs) as Hu.
    cbv zeta in Hu. rewrite Hnth in Hu. exact Hu.
Qed.

(* ------------------------------------------------------------------------------------ *)
(** * 9. The statements used by Props/C15.v *)

(* 9.1 fixed flag: [info_fixed_flag] above (no hypotheses). *)

(* 9.2 sizes; [wf_ty] is not needed *)
Lemma info_sizes_nowf : forall t,
  small_params t = true -> spec_max_len t < 2 ^ 64 ->
  ti_min (info t) = spec_min_len t /\
  ti_max (info t) = spec_max_len t /\
  ti_size (info t) = spec_fixed_len t.
Proof. intros t Hsm Hmax. apply info_sizes_gen; [exact Hsm|rewrite two64_eq; exact Hmax]. Qed.

Lemma info_sizes : forall t,
  wf_ty t = true -> small_params t = true -> spec_max_len t < 2 ^ 64 ->
  ti_min (info t) = spec_min_len t /\
  ti_max (info t) = spec_max_len t /\
  ti_size (info t) = spec_fixed_len t.
Proof. intros t _. apply info_sizes_nowf. Qed.

(* 9.3 soundness of the spec bounds; [wf_ty] is not needed *)
Lemma spec_ser_sound_nowf : forall t v, has_type v t = true ->
  spec_min_len t <= lenN (spec_ser t v) <= spec_max_len t.
Proof. intros t v. apply spec_ser_bounds. Qed.

Lemma spec_ser_sound : forall t v, wf_ty t = true -> has_type v t = true ->
  spec_min_len t <= lenN (spec_ser t v) <= spec_max_len t.
Proof. intros t v _. apply spec_ser_bounds. Qed.

Lemma spec_ser_fixed_len_nowf : forall t v, spec_is_fixed t = true -> has_type v t = true ->
  lenN (spec_ser t v) = spec_fixed_len t.
Proof. intros t v. apply spec_ser_fixed_len. Qed.

Lemma spec_ser_fixed_len_wf : forall t v,
  spec_is_fixed t = true -> has_type v t = true -> wf_ty t = true ->
  lenN (spec_ser t v) = spec_fixed_len t.
Proof. intros t v Hfx Hty _. apply spec_ser_fixed_len; assumption. Qed.

(* 9.4 tightness *)
Lemma spec_tight_min : forall t, wf_ty t = true ->
  has_type (min_val t) t = true /\ lenN (spec_ser t (min_val t)) = spec_min_len t.
Proof. exact spec_min_tight. Qed.

Lemma spec_tight_max : forall t, wf_ty t = true ->
  has_type (max_val t) t = true /\ lenN (spec_ser t (max_val t)) = spec_max_len t.
Proof. exact spec_max_tight. Qed.

(* 9.5 the numbers computed by the code bound every valid encoding *)
Lemma code_bounds : forall t v,
  wf_ty t = true -> small_params t = true -> spec_max_len t < 2 ^ 64 -> has_type v t = true ->
  ti_min (info t) <= lenN (spec_ser t v) <= ti_max (info t).
Proof.
  intros t v _ Hsm Hmax Hty.
  destruct (info_sizes_nowf t Hsm Hmax) as (-> & -> & _).
  apply spec_ser_bounds. exact Hty.
Qed.

(* the code's fixed length is the length of every encoding of a fixed-size type *)
Lemma code_fixed_len : forall t v,
  small_params t = true -> spec_max_len t < 2 ^ 64 ->
  ti_fixed (info t) = true -> has_type v t = true ->
  lenN (spec_ser t v) = ti_size (info t).
Proof.
  intros t v Hsm Hmax Hfx Hty. rewrite info_fixed_flag in Hfx.
  destruct (info_sizes_nowf t Hsm Hmax) as (_ & _ & ->).
  apply spec_ser_fixed_len; assumption.
Qed.

(* the code's bounds are attained *)
Lemma code_bounds_tight : forall t,
  wf_ty t = true -> small_params t = true -> spec_max_len t < 2 ^ 64 ->
  (has_type (min_val t) t = true /\ lenN (spec_ser t (min_val t)) = ti_min (info t)) /\
  (has_type (max_val t) t = true /\ lenN (spec_ser t (max_val t)) = ti_max (info t)).
Proof.
  intros t Hwf Hsm Hmax.
  destruct (info_sizes_nowf t Hsm Hmax) as (-> & -> & _).
  split; [apply spec_min_tight|apply spec_max_tight]; exact Hwf.
Qed.

(* ------------------------------------------------------------------------------------ *)
(** * 10. Examples and counterexamples *)

(* a non-trivial type: fixed and variable fields, nested series, a union with a None option *)
Definition ex_ty : ty :=
  TContainer [TUint 8; TList (TUint 2) 10; TVector TBool 3; TBitvector 12;
              TUnion true [TUint 4; TBitlist 9];
              TVector (TList (TBytes 3) 2) 2;
              TContainer [TRoot; TUint 1]].

Definition ex_val : val :=
  VCont [VUint 77; VSeq [VUint 1; VUint 2; VUint 3]; VSeq [VBool true; VBool false; VBool true];
         VBits (repeat true 12);
         VUnion 2 (Some (VBits [true; false; true]));
         VSeq [VSeq [VBytes (zero_bytes 3)]; VSeq []];
         VCont [VBytes (zero_bytes 32); VUint 9]].

(* hypotheses of C15_sizes / C15_code_bounds / C15_tight are satisfiable *)
Example ex_sizes_hyps :
  wf_ty ex_ty = true /\ small_params ex_ty = true /\ spec_max_len ex_ty < 2 ^ 64.
Proof. repeat split. Qed.

Example ex_sizes_values :
  (ti_fixed (info ex_ty), ti_size (info ex_ty), ti_min (info ex_ty), ti_max (info ex_ty)) =
  (false, 0, 67, 103) /\
  (spec_is_fixed ex_ty, spec_fixed_len ex_ty, spec_min_len ex_ty, spec_max_len ex_ty) =
  (false, 0, 67, 103).
Proof. split; vm_compute; reflexivity. Qed.

(* hypotheses of C15_sound are satisfiable (a variable-size type) *)
Example ex_sound_hyps :
  wf_ty ex_ty = true /\ has_type ex_val ex_ty = true /\ lenN (spec_ser ex_ty ex_val) = 77.
Proof. repeat split. Qed.

(* hypotheses of C15_fixed_len are satisfiable (a fixed-size composite type) *)
Definition ex_fixed_ty : ty := TContainer [TUint 8; TVector (TBytes 3) 4; TBitvector 9].
Definition ex_fixed_val : val :=
  VCont [VUint 5; VSeq (repeat (VBytes (zero_bytes 3)) 4); VBits (repeat true 9)].
Example ex_fixed_hyps :
  spec_is_fixed ex_fixed_ty = true /\ has_type ex_fixed_val ex_fixed_ty = true /\
  wf_ty ex_fixed_ty = true /\ lenN (spec_ser ex_fixed_ty ex_fixed_val) = 22 /\
  spec_fixed_len ex_fixed_ty = 22.
Proof. repeat split. Qed.

(* the witnesses of tightness on the example *)
Example ex_tight_values :
  lenN (spec_ser ex_ty (min_val ex_ty)) = 67 /\ lenN (spec_ser ex_ty (max_val ex_ty)) = 103.
Proof. split; vm_compute; reflexivity. Qed.

(* [small_params] is necessary in C15_sizes: Bitvector / Bitlist constructors compute
   (n + 7) / 8 resp. (n + 8) / 8 in uint64, which wraps for n >= 2^64 - 8 although the
   encoded size (2^61) is far below 2^64. *)
Example cex_small_params_needed :
  let t := TBitvector (2 ^ 64 - 7) in
  wf_ty t = true /\ spec_max_len t < 2 ^ 64 /\ small_params t = false /\
  ti_max (info t) = 0 /\ spec_max_len t = 2 ^ 61.
Proof. repeat split. Qed.

Example cex_small_params_needed_bitlist :
  let t := TBitlist (2 ^ 64 - 8) in
  wf_ty t = true /\ spec_max_len t < 2 ^ 64 /\ small_params t = false /\
  ti_max (info t) = 0 /\ spec_max_len t = 2 ^ 61.
Proof. repeat split. Qed.

(* the restriction "maximum encoded size below 2^64" is necessary: the constructors wrap *)
Example cex_max_bound_needed :
  let t := TVector (TVector (TUint 8) (2 ^ 56)) (2 ^ 56) in
  wf_ty t = true /\ small_params t = true /\
  spec_max_len t = 2 ^ 115 /\ ti_max (info t) = 0 /\ ti_size (info t) = 0.
Proof. repeat split. Qed.
