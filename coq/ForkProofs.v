(* ForkProofs.v — C14 (model part): fork independence, proved THROUGH THE ABSTRACTION.

   HeapProofs.v shows that the shared, fully hashed part of the heap is read-only and that hash
   requests commute with steps.  This file adds the missing half: what a fork OBSERVES (the outputs
   of its operations, the hash-tree-roots it requests, the final contents of its views) does not
   depend on what the other forks did in between: every interleaving gives the fork exactly the
   observations of its own sequential run.  The proof is done on the pure tree machine TM
   ([tm_step], Mut.v), whose handles hold plain tree values, and is transported to the heap
   machine HM ([hm_step], Heap.v) by the refinement theorems of RefineProofs.v (every output of HM
   is the output of TM on the abstracted state; the root HM computes with [h_merkle], memos
   included, is [root_of] of the TM backing).  No address renaming argument is needed.

   ==== specification vocabulary used by the appended part of Props/C14.v ====

   Handle numbers of the machine are global: a new handle gets the number [length handles], so
   the NUMBER a fork receives for a new sub-view depends on how many handles the other forks
   created meanwhile.  A goroutine does not see numbers, it holds Go pointers.  The model of that
   is fork-local naming:

   [tab : list nat]      the table of a fork: local name j (position j) -> global handle number.
                         A new handle returned to the fork is appended to its table, and the fork
                         is told the LOCAL name ([out_tab]).
   [loc_src], [loc_op]   translate the handle names inside an operation from local to global
                         (None if the fork uses a local name it does not have: the event then does
                         nothing and yields Err — an ill-formed program, as in [get_handle]).
   [fev]                 an event of a fork: [FStep lo] (operation lo, local names) or [FHash j]
                         (HashTreeRoot request on local handle j).
   [fobs]                what the fork observes: [FRes r] the result of the operation (new handles
                         under their local name), [FRoot r] the root (None: no such handle).
   [fork_event stp hsh]  one event of one fork on a machine given by its step function [stp] and
                         its hash request [hsh]: new machine state, new table, observation.
   [run1 stp hsh]        one fork alone: observations, final (state, table).
   [runN stp hsh]        any number of forks: [tabs g] is the table of fork g, a schedule is a list
                         of (fork number, event) — an arbitrary interleaving; the trace is the list
                         of (fork number, observation).   [proj f l] = the entries of fork f.
   [tm_hash H], [hm_hash_ev H]   the hash request of TM ([root_of] of the backing; state
                         unchanged) and of HM ([hm_hash]: [h_merkle] on the heap, memos written).
   [forks_ok hs tabs]    the tables are forks of the handle list hs: every entry is an existing
                         handle; each table is closed under hook parents (the parent of a sub-view
                         of the fork is in the fork — e.g. a Copy, which has no hook, and everything
                         later obtained from it); tables of different forks are disjoint.
   [fork_view hs tab]    the (type, backing) of the fork's handles, by local name.  *)
From Coq Require Import FMapPositive PArith.
From Ztyp Require Import Base Bitlen Tree Types View Mut Heap BitlenProofs TreeProofs HeapProofs RefineProofs.
From Ztyp Require MutProofs.
Open Scope N_scope.

(* ------------------------------------------------------------------------------------- *)
(* spec definitions                                                                      *)
(* ------------------------------------------------------------------------------------- *)

Definition loc_src (tab : list nat) (x : src) : option src :=
  match x with
  | SHandle j => match nth_error tab j with Some k => Some (SHandle k) | None => None end
  | _ => Some x
  end.

Definition loc_op (tab : list nat) (o : op) : option op :=
  match o with
  | OGet j i => match nth_error tab j with Some k => Some (OGet k i) | None => None end
  | OUValue j => match nth_error tab j with Some k => Some (OUValue k) | None => None end
  | OCopy j => match nth_error tab j with Some k => Some (OCopy k) | None => None end
  | OSet j i x =>
    match nth_error tab j, loc_src tab x with Some k, Some y => Some (OSet k i y) | _, _ => None end
  | OAppend j x =>
    match nth_error tab j, loc_src tab x with Some k, Some y => Some (OAppend k y) | _, _ => None end
  | OPop j => match nth_error tab j with Some k => Some (OPop k) | None => None end
  | OChange j sel x =>
    match nth_error tab j, loc_src tab x with Some k, Some y => Some (OChange k sel y) | _, _ => None end
  end.

(* a new handle is entered into the table and reported under its local name *)
Definition out_tab (tab : list nat) (r : res mout) : list nat * res mout :=
  match r with
  | OK (MHandle k) => (tab ++ [k], OK (MHandle (length tab)))
  | _ => (tab, r)
  end.

Inductive fev := FStep (lo : op) | FHash (j : nat).
Inductive fobs := FRes (r : res mout) | FRoot (r : option chunk).

Section ForkRun.
Variable S : Type.
Variable stp : S -> op -> S * res mout.          (* the machine step *)
Variable hsh : S -> nat -> S * option chunk.      (* hash-tree-root request on a global handle *)

Definition fork_event (st : S) (tab : list nat) (e : fev) : S * list nat * fobs :=
  match e with
  | FStep lo =>
    match loc_op tab lo with
    | None => (st, tab, FRes Err)
    | Some o => let sr := stp st o in let tr := out_tab tab (snd sr) in
                (fst sr, fst tr, FRes (snd tr))
    end
  | FHash j =>
    match nth_error tab j with
    | None => (st, tab, FRoot None)
    | Some k => let sr := hsh st k in (fst sr, tab, FRoot (snd sr))
    end
  end.

Fixpoint run1 (st : S) (tab : list nat) (es : list fev) : list fobs * (S * list nat) :=
  match es with
  | [] => ([], (st, tab))
  | e :: r => let x := fork_event st tab e in
              let y := run1 (fst (fst x)) (snd (fst x)) r in
              (snd x :: fst y, snd y)
  end.

Definition upd (tabs : nat -> list nat) (g : nat) (t : list nat) : nat -> list nat :=
  fun g' => if Nat.eqb g' g then t else tabs g'.

Fixpoint runN (st : S) (tabs : nat -> list nat) (sch : list (nat * fev))
  : list (nat * fobs) * (S * (nat -> list nat)) :=
  match sch with
  | [] => ([], (st, tabs))
  | (g, e) :: r => let x := fork_event st (tabs g) e in
                   let y := runN (fst (fst x)) (upd tabs g (snd (fst x))) r in
                   ((g, snd x) :: fst y, snd y)
  end.
End ForkRun.

Definition proj {A} (f : nat) (l : list (nat * A)) : list A :=
  map snd (filter (fun p => Nat.eqb (fst p) f) l).

Definition tm_hash (H : chunk -> chunk -> chunk) (ts : tm_state) (k : nat) : tm_state * option chunk :=
  (ts, match nth_error (m_handles _ _ ts) k with
       | Some y => Some (root_of H (h_back _ y))
       | None => None
       end).

Definition hm_hash_ev (H : chunk -> chunk -> chunk) (hs : hm_state) (k : nat) : hm_state * option chunk :=
  match hm_hash H hs k with OK (r, hs', _) => (hs', Some r) | _ => (hs, None) end.

Definition forks_ok {T} (hs : list (handle T)) (tabs : nat -> list nat) : Prop :=
  (forall g k, In k (tabs g) -> (k < length hs)%nat) /\
  (forall g k x p i, In k (tabs g) -> nth_error hs k = Some x -> h_hook T x = Some (p, i) ->
                     In p (tabs g)) /\
  (forall g1 g2 k, g1 <> g2 -> In k (tabs g1) -> ~ In k (tabs g2)).

Definition fork_view {T} (hs : list (handle T)) (tab : list nat) : list (option (ty * T)) :=
  map (fun k => match nth_error hs k with Some x => Some (h_ty T x, h_back T x) | None => None end) tab.

(* ------------------------------------------------------------------------------------- *)
(* 1. lists                                                                              *)
(* ------------------------------------------------------------------------------------- *)

Lemma nth_error_app_l {A} (l : list A) a m p :
  nth_error l m = Some p -> nth_error (l ++ [a]) m = Some p.
Proof.
  intros Hm. rewrite nth_error_app1; [exact Hm|]. apply nth_error_Some. congruence.
Qed.

Lemma nth_error_snoc {A} (l : list A) a : nth_error (l ++ [a]) (length l) = Some a.
Proof. rewrite nth_error_app2 by lia. now rewrite PeanoNat.Nat.sub_diag. Qed.

Lemma nth_error_snoc_inv {A} (l : list A) a j b :
  nth_error (l ++ [a]) j = Some b ->
  nth_error l j = Some b \/ (j = length l /\ b = a).
Proof.
  intros Hj. destruct (Compare_dec.lt_dec j (length l)) as [Hlt|Hge].
  - left. now rewrite nth_error_app1 in Hj.
  - right. rewrite nth_error_app2 in Hj by lia.
    destruct (j - length l)%nat as [|d] eqn:Ed; simpl in Hj.
    + injection Hj as <-. split; [lia|reflexivity].
    + destruct d; discriminate.
Qed.

Lemma nth_error_lt {A} (l : list A) j a : nth_error l j = Some a -> (j < length l)%nat.
Proof. intros Hj. apply nth_error_Some. congruence. Qed.

Lemma nth_error_same_len {A B} (l1 : list A) (l2 : list B) j :
  length l1 = length l2 -> nth_error l1 j = None -> nth_error l2 j = None.
Proof. intros Hl Hn. apply nth_error_None. apply nth_error_None in Hn. lia. Qed.

Lemma list_nth_ext {A} : forall (l1 l2 : list A),
  length l1 = length l2 -> (forall j, nth_error l1 j = nth_error l2 j) -> l1 = l2.
Proof.
  induction l1 as [|a l1 IH]; intros [|b l2] Hl Hn; simpl in Hl; try discriminate; [reflexivity|].
  pose proof (Hn 0%nat) as H0. simpl in H0. injection H0 as <-.
  f_equal. apply IH; [congruence|]. intros j. exact (Hn (S j)).
Qed.

Lemma upd_same tabs g t : upd tabs g t g = t.
Proof. unfold upd. now rewrite PeanoNat.Nat.eqb_refl. Qed.

Lemma upd_other tabs g t g' : g' <> g -> upd tabs g t g' = tabs g'.
Proof. intros Hne. unfold upd. apply PeanoNat.Nat.eqb_neq in Hne. now rewrite Hne. Qed.

Lemma upd_id tabs g g' : upd tabs g (tabs g) g' = tabs g'.
Proof. unfold upd. destruct (PeanoNat.Nat.eqb_spec g' g) as [->|]; reflexivity. Qed.

Lemma forks_ok_ext {T} (hs : list (handle T)) tabs tabs' :
  (forall g, tabs' g = tabs g) -> forks_ok hs tabs -> forks_ok hs tabs'.
Proof.
  intros He (A & B & C). split; [|split].
  - intros g k. rewrite He. apply A.
  - intros g k x p i. rewrite He. apply B.
  - intros g1 g2 k. rewrite !He. apply C.
Qed.

Lemma loc_op_target tab lo o : loc_op tab lo = Some o -> In (op_target o) tab.
Proof.
  destruct lo as [j i|j|j|j i x|j x|j|j sel x]; cbn [loc_op]; intros Hl;
    destruct (nth_error tab j) as [k|] eqn:Hk; try discriminate;
    try (destruct (loc_src tab x) as [y|]; try discriminate);
    injection Hl as <-; cbn [op_target]; eapply nth_error_In; eauto.
Qed.

(* closure under direct hook parents = closure under hook chains *)
Lemma closed_chain {T} (hs : list (handle T)) (tab : list nat) :
  (forall k x p i, In k tab -> nth_error hs k = Some x -> h_hook T x = Some (p, i) -> In p tab) ->
  forall j k, on_chain hs j k -> In j tab -> In k tab.
Proof.
  intros Hc j k Hjk. induction Hjk as [j|j x p i k Hx Hh Hpk IH]; intros Hj; [exact Hj|].
  apply IH. eapply Hc; eauto.
Qed.

(* ------------------------------------------------------------------------------------- *)
(* 2. the view machine over a store without state (the pure trees): a step of a fork is   *)
(*    parametric in the numbering of the fork's handles, and reads only them              *)
(* ------------------------------------------------------------------------------------- *)

Section Solo.
Variable T St : Type.
Variable s_get : St -> T -> N -> res T.
Variable s_set : St -> T -> N -> bool -> T -> res (T * St).
Variable s_leaf : St -> chunk -> T * St.
Variable s_pair : St -> T -> T -> T * St.
Variable s_chunk : St -> T -> res chunk.
Variable s_zero : nat -> T.
Variable s_true : T.
Variable zh : nat -> chunk.
Variable rt : T -> chunk.                       (* the root of a backing *)

Local Notation Mgetn := (m_get_node T St s_get).
Local Notation Mcheck := (m_check_index T St s_get s_chunk).
Local Notation Mslot := (m_slot_set T St s_get s_set s_chunk).
Local Notation SetB := (set_backing T St s_get s_set s_chunk).
Local Notation Resolve := (resolve_src T St s_leaf s_pair s_zero s_true zh).
Local Notation Mutate := (mutate T St s_get s_set s_leaf s_pair s_chunk s_zero s_true zh).
Local Notation Step := (step T St s_get s_set s_leaf s_pair s_chunk s_zero s_true zh).
Local Notation Hdl st := (m_handles T St st).
Local Notation Sto st := (m_store T St st).

Definition s_hash (st : mstate T St) (k : nat) : mstate T St * option chunk :=
  (st, match nth_error (Hdl st) k with
       | Some y => Some (rt (h_back T y))
       | None => None
       end).

Local Notation Ev := (fork_event (mstate T St) Step s_hash).

(* ---- 2a. facts that hold over any store ---- *)

Lemma put_back_hdl st h b s :
  Hdl (put_back T St st h b s) =
  match nth_error (Hdl st) h with
  | Some x => list_set (Hdl st) h (mkH T (h_ty T x) b (h_hook T x))
  | None => Hdl st
  end.
Proof. unfold put_back. destruct (nth_error (Hdl st) h); reflexivity. Qed.

Lemma put_back_wf st h b s : hooks_wf (Hdl st) -> hooks_wf (Hdl (put_back T St st h b s)).
Proof.
  intros Hw.
  destruct (put_back_handles T St s_get s_set s_leaf s_pair s_chunk s_zero zh st h b s) as (_ & L2 & _).
  eapply hooks_wf_le; eauto.
Qed.

(* the only outputs that carry a handle are those of a push; the new handle has the next
   number, and its hook, if any, points to the target of the operation *)
Lemma step_push_spec st o :
  match snd (Step st o) with
  | OK (MHandle k) =>
    k = length (Hdl st) /\
    exists x, Hdl (fst (Step st o)) = Hdl st ++ [x] /\
              (forall p i, h_hook T x = Some (p, i) -> p = op_target o)
  | _ => True
  end.
Proof.
  assert (Hmut : forall h x,
     match snd (match Mutate st x o with
        | OK (b, s') =>
          let '(st1, r) := SetB (hook_fuel T St st) st h b s' in
          (st1, match r with OK _ => OK MUnit | Err => Err | Panic => Panic end)
        | Err => (st, Err)
        | Panic => (st, Panic)
        end) with
     | OK (MHandle _) => False
     | _ => True
     end).
  { intros h x. destruct (Mutate st x o) as [[b s']| |]; [|exact I|exact I].
    destruct (SetB (hook_fuel T St st) st h b s') as [st1 [u| |]]; exact I. }
  assert (Hfin : forall (F : mstate T St * res mout) (P : nat -> Prop),
            match snd F with OK (MHandle _) => False | _ => True end ->
            match snd F with OK (MHandle k) => P k | _ => True end).
  { intros F P. destruct (snd F) as [[|a|]| |]; auto. contradiction. }
  unfold step. destruct o as [h i|h|h|h i v|h v|h|h sel v]; cbn [op_target].
  - destruct (get_handle T St st h) as [x| |]; try exact I.
    match goal with |- context [match ?e with Some _ => _ | None => (st, Err) end] =>
      destruct e as [e0|] end; [|exact I].
    destruct (Mgetn (h_ty T x) (Sto st) (h_back T x) i) as [c| |]; try exact I.
    unfold push_handle. cbn [fst snd m_handles]. split; [reflexivity|].
    eexists. split; [reflexivity|]. cbn [h_hook]. intros p j Hp. now injection Hp as <- _.
  - destruct (get_handle T St st h) as [x| |]; try exact I.
    destruct (h_ty T x); try exact I.
    match goal with |- context [match ?e with OK _ => _ | Err => (st, Err) | Panic => (st, Panic) end] =>
      destruct e as [[[o1|] c]| |] end; try exact I.
    unfold push_handle. cbn [fst snd m_handles]. split; [reflexivity|].
    eexists. split; [reflexivity|]. cbn [h_hook]. discriminate.
  - destruct (get_handle T St st h) as [x| |]; try exact I.
    unfold push_handle. cbn [fst snd m_handles]. split; [reflexivity|].
    eexists. split; [reflexivity|]. cbn [h_hook]. discriminate.
  - destruct (get_handle T St st h) as [x| |]; try exact I. apply Hfin. apply (Hmut h x).
  - destruct (get_handle T St st h) as [x| |]; try exact I. apply Hfin. apply (Hmut h x).
  - destruct (get_handle T St st h) as [x| |]; try exact I. apply Hfin. apply (Hmut h x).
  - destruct (get_handle T St st h) as [x| |]; try exact I. apply Hfin. apply (Hmut h x).
Qed.

Lemma step_wf st o : hooks_wf (Hdl st) -> hooks_wf (Hdl (fst (Step st o))).
Proof.
  intros Hw. destruct (Step st o) as [st' r] eqn:E.
  destruct (step_local _ _ _ _ _ _ _ _ _ _ _ _ _ _ E) as (_ & Hw' & _). now apply Hw'.
Qed.

Lemma event_wf st tab e : hooks_wf (Hdl st) -> hooks_wf (Hdl (fst (fst (Ev st tab e)))).
Proof.
  intros Hw. destruct e as [lo|j]; cbn [fork_event].
  - destruct (loc_op tab lo) as [o|]; cbn [fst snd]; [now apply step_wf|exact Hw].
  - destruct (nth_error tab j) as [k|]; cbn [fst snd s_hash]; exact Hw.
Qed.

(* an event of fork g keeps the tables forks *)
Lemma forks_ok_event st tabs g e :
  forks_ok (Hdl st) tabs ->
  forks_ok (Hdl (fst (fst (Ev st (tabs g) e)))) (upd tabs g (snd (fst (Ev st (tabs g) e)))).
Proof.
  intros Hok. pose proof Hok as (Hb & Hc & Hd).
  assert (Hsame : forks_ok (Hdl st) (upd tabs g (tabs g))).
  { eapply forks_ok_ext; [|exact Hok]. intros g'. apply upd_id. }
  destruct e as [lo|j]; cbn [fork_event].
  2:{ destruct (nth_error (tabs g) j) as [k|]; cbn [fst snd s_hash]; exact Hsame. }
  destruct (loc_op (tabs g) lo) as [o|] eqn:Hlo; cbn [fst snd]; [|exact Hsame].
  pose proof (loc_op_target _ _ _ Hlo) as Htgt.
  pose proof (step_push_spec st o) as Hpush.
  destruct (Step st o) as [st' r] eqn:E. cbn [fst snd] in *.
  destruct (step_local _ _ _ _ _ _ _ _ _ _ _ _ _ _ E) as ([Hlen Hle] & _ & _).
  (* old handles keep their hook *)
  assert (Hold : forall k x' p i, (k < length (Hdl st))%nat -> nth_error (Hdl st') k = Some x' ->
            h_hook T x' = Some (p, i) ->
            exists x, nth_error (Hdl st) k = Some x /\ h_hook T x = Some (p, i)).
  { intros k x' p i Hk Hx' Hh. destruct (nth_error (Hdl st) k) as [x|] eqn:Hx;
      [|apply nth_error_None in Hx; lia].
    destruct (Hle _ _ Hx) as (x'' & Hx'' & _ & Hk''). rewrite Hx' in Hx''. injection Hx'' as <-.
    exists x. split; [reflexivity|]. congruence. }
  assert (Hkeep : forks_ok (Hdl st') (upd tabs g (tabs g))).
  { split; [|split].
    - intros g' k. rewrite upd_id. intros Hk. pose proof (Hb _ _ Hk). lia.
    - intros g' k x' p i. rewrite upd_id. intros Hk Hx' Hh.
      destruct (Hold k x' p i (Hb _ _ Hk) Hx' Hh) as (x & Hx & Hhx). eapply Hc; eauto.
    - intros g1 g2 k. rewrite !upd_id. apply Hd. }
  destruct r as [[|a|]| |]; cbn [out_tab fst snd]; try exact Hkeep.
  destruct Hpush as (-> & x & Ehs & Hhook).
  split; [|split].
  - intros g' k. destruct (PeanoNat.Nat.eq_dec g' g) as [->|Hne].
    + rewrite upd_same. intros Hk. apply in_app_or in Hk. destruct Hk as [Hk|[<-|[]]].
      * pose proof (Hb _ _ Hk). lia.
      * rewrite Ehs, app_length. simpl. lia.
    + rewrite upd_other by exact Hne. intros Hk. pose proof (Hb _ _ Hk). lia.
  - intros g' k x' p i. destruct (PeanoNat.Nat.eq_dec g' g) as [->|Hne].
    + rewrite upd_same. intros Hk Hx' Hh. apply in_or_app. left.
      apply in_app_or in Hk. destruct Hk as [Hk|[<-|[]]].
      * destruct (Hold k x' p i (Hb _ _ Hk) Hx' Hh) as (x0 & Hx0 & Hhx). eapply Hc; eauto.
      * rewrite Ehs, nth_error_snoc in Hx'. injection Hx' as <-.
        rewrite (Hhook _ _ Hh). exact Htgt.
    + rewrite upd_other by exact Hne. intros Hk Hx' Hh.
      destruct (Hold k x' p i (Hb _ _ Hk) Hx' Hh) as (x0 & Hx0 & Hhx). eapply Hc; eauto.
  - intros g1 g2 k Hne.
    destruct (PeanoNat.Nat.eq_dec g1 g) as [->|Hne1]; destruct (PeanoNat.Nat.eq_dec g2 g) as [->|Hne2];
      try congruence.
    + rewrite upd_same, upd_other by exact Hne2. intros Hk Hk2.
      apply in_app_or in Hk. destruct Hk as [Hk|[<-|[]]].
      * eapply Hd; eauto.
      * pose proof (Hb _ _ Hk2). lia.
    + rewrite upd_same, upd_other by exact Hne1. intros Hk Hk2.
      apply in_app_or in Hk2. destruct Hk2 as [Hk2|[<-|[]]].
      * eapply Hd; eauto.
      * pose proof (Hb _ _ Hk). lia.
    + rewrite !upd_other by assumption. now apply Hd.
Qed.

(* ---- 2b. the simulation between a fork seen in two states ---- *)

Definition hook_rel (tab1 tab2 : list nat) (h1 h2 : option (nat * N)) : Prop :=
  match h1, h2 with
  | None, None => True
  | Some (p1, i1), Some (p2, i2) =>
    i1 = i2 /\ exists m, nth_error tab1 m = Some p1 /\ nth_error tab2 m = Some p2
  | _, _ => False
  end.

Definition hdl_sim (tab1 tab2 : list nat) (x1 x2 : handle T) : Prop :=
  h_ty T x1 = h_ty T x2 /\ h_back T x1 = h_back T x2 /\
  hook_rel tab1 tab2 (h_hook T x1) (h_hook T x2).

(* local name by local name the two tables denote handles with the same type, the same backing
   and the same parent (by local name); the two tables identify the same local names *)
Definition sim (hs1 hs2 : list (handle T)) (tab1 tab2 : list nat) : Prop :=
  length tab1 = length tab2 /\
  (forall j k1 k2, nth_error tab1 j = Some k1 -> nth_error tab2 j = Some k2 ->
     exists x1 x2, nth_error hs1 k1 = Some x1 /\ nth_error hs2 k2 = Some x2 /\
                   hdl_sim tab1 tab2 x1 x2) /\
  (forall j j' k1 k1' k2 k2',
     nth_error tab1 j = Some k1 -> nth_error tab1 j' = Some k1' ->
     nth_error tab2 j = Some k2 -> nth_error tab2 j' = Some k2' -> (k1 = k1' <-> k2 = k2')).

Lemma hook_rel_mono tab1 tab2 a b h1 h2 :
  hook_rel tab1 tab2 h1 h2 -> hook_rel (tab1 ++ [a]) (tab2 ++ [b]) h1 h2.
Proof.
  unfold hook_rel. destruct h1 as [[p1 i1]|], h2 as [[p2 i2]|]; auto.
  intros (Ei & m & H1 & H2). split; [exact Ei|]. exists m. split; now apply nth_error_app_l.
Qed.

Lemma sim_refl hs tab :
  (forall k, In k tab -> (k < length hs)%nat) ->
  (forall k x p i, In k tab -> nth_error hs k = Some x -> h_hook T x = Some (p, i) -> In p tab) ->
  sim hs hs tab tab.
Proof.
  intros Hb Hc. split; [reflexivity|]. split.
  - intros j k1 k2 H1 H2. rewrite H1 in H2. injection H2 as <-.
    pose proof (nth_error_In _ _ H1) as Hin.
    destruct (nth_error hs k1) as [x|] eqn:Hx; [|apply nth_error_None in Hx; pose proof (Hb _ Hin); lia].
    exists x, x. split; [reflexivity|]. split; [reflexivity|].
    split; [reflexivity|]. split; [reflexivity|].
    unfold hook_rel. destruct (h_hook T x) as [[p i]|] eqn:Hh; [|exact I].
    split; [reflexivity|]. pose proof (Hc _ _ _ _ Hin Hx Hh) as Hp.
    apply In_nth_error in Hp. destruct Hp as [m Hm]. exists m. auto.
  - intros j j' k1 k1' k2 k2' H1 H1' H2 H2'. rewrite H1 in H2. rewrite H1' in H2'.
    injection H2 as <-. injection H2' as <-. tauto.
Qed.

(* both sides push a new handle *)
Lemma sim_push hs1 hs2 tab1 tab2 x1 x2 :
  sim hs1 hs2 tab1 tab2 ->
  hdl_sim (tab1 ++ [length hs1]) (tab2 ++ [length hs2]) x1 x2 ->
  sim (hs1 ++ [x1]) (hs2 ++ [x2]) (tab1 ++ [length hs1]) (tab2 ++ [length hs2]).
Proof.
  intros (Hl & Hs & Hi) Hx.
  assert (Hb1 : forall j k, nth_error tab1 j = Some k -> (k < length hs1)%nat).
  { intros j k Hj. destruct (nth_error tab2 j) as [k2|] eqn:H2.
    - destruct (Hs _ _ _ Hj H2) as (y1 & y2 & A & _). eapply nth_error_lt; eauto.
    - apply nth_error_None in H2. pose proof (nth_error_lt _ _ _ Hj). lia. }
  assert (Hb2 : forall j k, nth_error tab2 j = Some k -> (k < length hs2)%nat).
  { intros j k Hj. destruct (nth_error tab1 j) as [k1|] eqn:H1.
    - destruct (Hs _ _ _ H1 Hj) as (y1 & y2 & _ & A & _). eapply nth_error_lt; eauto.
    - apply nth_error_None in H1. pose proof (nth_error_lt _ _ _ Hj). lia. }
  split; [rewrite !app_length; simpl; lia|]. split.
  - intros j k1 k2 H1 H2.
    apply nth_error_snoc_inv in H1. apply nth_error_snoc_inv in H2.
    destruct H1 as [H1|[E1 ->]]; destruct H2 as [H2|[E2 ->]].
    + destruct (Hs _ _ _ H1 H2) as (y1 & y2 & A & B & (C1 & C2 & C3)).
      exists y1, y2. split; [now apply nth_error_app_l|]. split; [now apply nth_error_app_l|].
      split; [exact C1|]. split; [exact C2|]. now apply hook_rel_mono.
    + pose proof (nth_error_lt _ _ _ H1). lia.
    + pose proof (nth_error_lt _ _ _ H2). lia.
    + exists x1, x2. split; [apply nth_error_snoc|]. split; [apply nth_error_snoc|]. exact Hx.
  - intros j j' k1 k1' k2 k2' H1 H1' H2 H2'.
    apply nth_error_snoc_inv in H1. apply nth_error_snoc_inv in H1'.
    apply nth_error_snoc_inv in H2. apply nth_error_snoc_inv in H2'.
    destruct H1 as [H1|[E1 ->]]; destruct H2 as [H2|[E2 ->]];
      try (pose proof (nth_error_lt _ _ _ H1); lia); try (pose proof (nth_error_lt _ _ _ H2); lia);
    destruct H1' as [H1'|[E1' ->]]; destruct H2' as [H2'|[E2' ->]];
      try (pose proof (nth_error_lt _ _ _ H1'); lia); try (pose proof (nth_error_lt _ _ _ H2'); lia).
    + eapply Hi; eauto.
    + pose proof (Hb1 _ _ H1). pose proof (Hb2 _ _ H2). lia.
    + pose proof (Hb1 _ _ H1'). pose proof (Hb2 _ _ H2'). lia.
    + tauto.
Qed.

(* both sides rebind the handle with the same local name to the same backing *)
Lemma sim_list_set hs1 hs2 tab1 tab2 j k1 k2 x1 x2 b :
  sim hs1 hs2 tab1 tab2 ->
  nth_error tab1 j = Some k1 -> nth_error tab2 j = Some k2 ->
  nth_error hs1 k1 = Some x1 -> nth_error hs2 k2 = Some x2 ->
  sim (list_set hs1 k1 (mkH T (h_ty T x1) b (h_hook T x1)))
      (list_set hs2 k2 (mkH T (h_ty T x2) b (h_hook T x2))) tab1 tab2.
Proof.
  intros (Hl & Hs & Hi) Hj1 Hj2 Hx1 Hx2.
  destruct (Hs _ _ _ Hj1 Hj2) as (y1 & y2 & A & B & (C1 & C2 & C3)).
  rewrite Hx1 in A. rewrite Hx2 in B. injection A as <-. injection B as <-.
  split; [exact Hl|]. split; [|exact Hi].
  intros j' k1' k2' H1 H2.
  destruct (Hs _ _ _ H1 H2) as (z1 & z2 & A' & B' & Hz).
  destruct (PeanoNat.Nat.eq_dec k1' k1) as [E1|N1].
  - assert (E2 : k2' = k2) by (apply (Hi j' j k1' k1 k2' k2 H1 Hj1 H2 Hj2); exact E1). subst k1' k2'.
    eexists. eexists.
    split; [apply nth_error_list_set_same; eapply nth_error_lt; eauto|].
    split; [apply nth_error_list_set_same; eapply nth_error_lt; eauto|].
    split; [exact C1|]. split; [reflexivity|exact C3].
  - assert (N2 : k2' <> k2).
    { intros E2. apply N1. apply (Hi j' j k1' k1 k2' k2 H1 Hj1 H2 Hj2). exact E2. }
    exists z1, z2. rewrite !nth_error_list_set_other by assumption. auto.
Qed.

(* ---- 2c. with a store that has no state, the step of a fork only reads the fork ---- *)

Hypothesis Hsing : forall a b : St, a = b.

Lemma sim_put_back st1 st2 tab1 tab2 j k1 k2 b s1 s2 :
  sim (Hdl st1) (Hdl st2) tab1 tab2 ->
  nth_error tab1 j = Some k1 -> nth_error tab2 j = Some k2 ->
  sim (Hdl (put_back T St st1 k1 b s1)) (Hdl (put_back T St st2 k2 b s2)) tab1 tab2.
Proof.
  intros Hs Hj1 Hj2. pose proof Hs as (_ & Hs' & _).
  destruct (Hs' _ _ _ Hj1 Hj2) as (x1 & x2 & A & B & _).
  rewrite !put_back_hdl, A, B. eapply sim_list_set; eauto.
Qed.

Lemma set_backing_sim f1 : forall f2 st1 st2 tab1 tab2 j k1 k2 b s1 s2,
  sim (Hdl st1) (Hdl st2) tab1 tab2 -> hooks_wf (Hdl st1) -> hooks_wf (Hdl st2) ->
  nth_error tab1 j = Some k1 -> nth_error tab2 j = Some k2 -> (k1 < f1)%nat -> (k2 < f2)%nat ->
  sim (Hdl (fst (SetB f1 st1 k1 b s1))) (Hdl (fst (SetB f2 st2 k2 b s2))) tab1 tab2 /\
  snd (SetB f1 st1 k1 b s1) = snd (SetB f2 st2 k2 b s2).
Proof.
  induction f1 as [|f1 IH]; intros f2 st1 st2 tab1 tab2 j k1 k2 b s1 s2 Hs Hw1 Hw2 Hj1 Hj2 Hf1 Hf2; [lia|].
  destruct f2 as [|f2]; [lia|]. cbn [set_backing].
  pose proof (sim_put_back st1 st2 tab1 tab2 j k1 k2 b s1 s2 Hs Hj1 Hj2) as Hs1.
  pose proof (put_back_wf st1 k1 b s1 Hw1) as Hw1'. pose proof (put_back_wf st2 k2 b s2 Hw2) as Hw2'.
  set (p1 := put_back T St st1 k1 b s1) in *. set (p2 := put_back T St st2 k2 b s2) in *.
  pose proof Hs1 as (_ & Hs1' & _).
  destruct (Hs1' _ _ _ Hj1 Hj2) as (x1 & x2 & A & B & (C1 & C2 & C3)).
  rewrite A, B. unfold hook_rel in C3.
  destruct (h_hook T x1) as [[pa ia]|] eqn:Hh1; destruct (h_hook T x2) as [[pb ib]|] eqn:Hh2;
    try contradiction; [|cbn [fst snd]; auto].
  destruct C3 as (<- & m & Hm1 & Hm2).
  destruct (Hs1' _ _ _ Hm1 Hm2) as (px1 & px2 & PA & PB & (D1 & D2 & _)).
  rewrite PA, PB, D1, D2, (Hsing (Sto p1) (Sto p2)).
  destruct (Mslot (h_ty T px2) (Sto p2) (h_back T px2) ia b) as [[pb' s']| |];
    [|cbn [fst snd]; auto|cbn [fst snd]; auto].
  apply (IH f2 p1 p2 tab1 tab2 m pa pb pb' s' s' Hs1 Hw1' Hw2' Hm1 Hm2).
  - pose proof (Hw1' _ _ _ _ A Hh1). lia.
  - pose proof (Hw2' _ _ _ _ B Hh2). lia.
Qed.

Lemma resolve_sim st1 st2 tab1 tab2 x v1 v2 want :
  sim (Hdl st1) (Hdl st2) tab1 tab2 ->
  loc_src tab1 x = Some v1 -> loc_src tab2 x = Some v2 ->
  Resolve st1 v1 want = Resolve st2 v2 want.
Proof.
  intros (_ & Hs & _) H1 H2. pose proof (Hsing (Sto st1) (Sto st2)) as Es.
  destruct x as [t v|h|]; cbn [loc_src] in H1, H2.
  - injection H1 as <-. injection H2 as <-. unfold resolve_src. now rewrite Es.
  - destruct (nth_error tab1 h) as [k1|] eqn:E1; [|discriminate].
    destruct (nth_error tab2 h) as [k2|] eqn:E2; [|discriminate].
    injection H1 as <-. injection H2 as <-.
    destruct (Hs _ _ _ E1 E2) as (x1 & x2 & A & B & (_ & C2 & _)).
    unfold resolve_src, get_handle. rewrite A, B. cbn [bind]. rewrite C2, Es. reflexivity.
  - injection H1 as <-. injection H2 as <-. unfold resolve_src. now rewrite Es.
Qed.

Lemma mutate_sim st1 st2 tab1 tab2 x1 x2 lo o1 o2 :
  sim (Hdl st1) (Hdl st2) tab1 tab2 ->
  h_ty T x1 = h_ty T x2 -> h_back T x1 = h_back T x2 ->
  loc_op tab1 lo = Some o1 -> loc_op tab2 lo = Some o2 ->
  Mutate st1 x1 o1 = Mutate st2 x2 o2.
Proof.
  intros Hs Ety Eback H1 H2. pose proof (Hsing (Sto st1) (Sto st2)) as Es.
  destruct x1 as [ty1 bk1 hk1], x2 as [ty2 bk2 hk2]. cbn [h_ty h_back] in Ety, Eback. subst ty2 bk2.
  unfold mutate. cbv zeta. cbn [h_ty h_back]. rewrite Es.
  destruct lo as [j i|j|j|j i x|j x|j|j sel x]; cbn [loc_op] in H1, H2;
    destruct (nth_error tab1 j) as [k1|]; try discriminate;
    destruct (nth_error tab2 j) as [k2|]; try discriminate;
    try (injection H1 as <-; injection H2 as <-; destruct ty1; reflexivity).
  - (* OSet *)
    destruct (loc_src tab1 x) as [v1|] eqn:L1; [|discriminate].
    destruct (loc_src tab2 x) as [v2|] eqn:L2; [|discriminate].
    injection H1 as <-. injection H2 as <-.
    assert (Hres : forall w, Resolve st1 v1 w = Resolve st2 v2 w)
      by (intros w; eapply resolve_sim; eauto).
    destruct x as [t v|h|]; cbn [loc_src] in L1, L2.
    + injection L1 as <-. injection L2 as <-. destruct ty1; try reflexivity; rewrite ?Hres; reflexivity.
    + destruct (nth_error tab1 h); [|discriminate]. destruct (nth_error tab2 h); [|discriminate].
      injection L1 as <-. injection L2 as <-. destruct ty1; try reflexivity; rewrite ?Hres; reflexivity.
    + injection L1 as <-. injection L2 as <-. destruct ty1; try reflexivity; rewrite ?Hres; reflexivity.
  - (* OAppend *)
    destruct (loc_src tab1 x) as [v1|] eqn:L1; [|discriminate].
    destruct (loc_src tab2 x) as [v2|] eqn:L2; [|discriminate].
    injection H1 as <-. injection H2 as <-.
    assert (Hres : forall w, Resolve st1 v1 w = Resolve st2 v2 w)
      by (intros w; eapply resolve_sim; eauto).
    destruct x as [t v|h|]; cbn [loc_src] in L1, L2.
    + injection L1 as <-. injection L2 as <-. destruct ty1; try reflexivity; rewrite ?Hres; reflexivity.
    + destruct (nth_error tab1 h); [|discriminate]. destruct (nth_error tab2 h); [|discriminate].
      injection L1 as <-. injection L2 as <-. destruct ty1; try reflexivity; rewrite ?Hres; reflexivity.
    + injection L1 as <-. injection L2 as <-. destruct ty1; try reflexivity; rewrite ?Hres; reflexivity.
  - (* OChange *)
    destruct (loc_src tab1 x) as [v1|] eqn:L1; [|discriminate].
    destruct (loc_src tab2 x) as [v2|] eqn:L2; [|discriminate].
    injection H1 as <-. injection H2 as <-.
    assert (Hres : forall w, Resolve st1 v1 w = Resolve st2 v2 w)
      by (intros w; eapply resolve_sim; eauto).
    destruct x as [t v|h|]; cbn [loc_src] in L1, L2.
    + injection L1 as <-. injection L2 as <-. destruct ty1; try reflexivity; rewrite ?Hres; reflexivity.
    + destruct (nth_error tab1 h); [|discriminate]. destruct (nth_error tab2 h); [|discriminate].
      injection L1 as <-. injection L2 as <-. destruct ty1; try reflexivity; rewrite ?Hres; reflexivity.
    + injection L1 as <-. injection L2 as <-. destruct ty1; try reflexivity; rewrite ?Hres; reflexivity.
Qed.

Lemma loc_op_shape tab1 tab2 lo :
  length tab1 = length tab2 ->
  match loc_op tab1 lo, loc_op tab2 lo with
  | Some _, Some _ => True
  | None, None => True
  | _, _ => False
  end.
Proof.
  intros Hl.
  assert (Hn : forall j, match nth_error tab1 j, nth_error tab2 j with
                         | Some _, Some _ => True | None, None => True | _, _ => False end).
  { intros j. destruct (nth_error tab1 j) eqn:E1; destruct (nth_error tab2 j) eqn:E2; auto.
    - apply nth_error_None in E2. pose proof (nth_error_lt _ _ _ E1). lia.
    - apply nth_error_None in E1. pose proof (nth_error_lt _ _ _ E2). lia. }
  assert (Hsrc : forall x, match loc_src tab1 x, loc_src tab2 x with
                           | Some _, Some _ => True | None, None => True | _, _ => False end).
  { intros [t v|h|]; cbn [loc_src]; auto. pose proof (Hn h) as Hh.
    destruct (nth_error tab1 h), (nth_error tab2 h); auto. }
  destruct lo as [j i|j|j|j i x|j x|j|j sel x]; cbn [loc_op]; pose proof (Hn j) as Hj;
    try (pose proof (Hsrc x) as Hx);
    destruct (nth_error tab1 j), (nth_error tab2 j); try contradiction; auto;
    destruct (loc_src tab1 x), (loc_src tab2 x); try contradiction; auto.
Qed.

(* one operation of the fork, under the two numberings *)
Lemma step_sim st1 st2 tab1 tab2 lo o1 o2 :
  sim (Hdl st1) (Hdl st2) tab1 tab2 -> hooks_wf (Hdl st1) -> hooks_wf (Hdl st2) ->
  loc_op tab1 lo = Some o1 -> loc_op tab2 lo = Some o2 ->
  snd (out_tab tab1 (snd (Step st1 o1))) = snd (out_tab tab2 (snd (Step st2 o2))) /\
  sim (Hdl (fst (Step st1 o1))) (Hdl (fst (Step st2 o2)))
      (fst (out_tab tab1 (snd (Step st1 o1)))) (fst (out_tab tab2 (snd (Step st2 o2)))).
Proof.
  intros Hs Hw1 Hw2 H1 H2. pose proof Hs as (Hl & Hs' & _).
  pose proof (Hsing (Sto st1) (Sto st2)) as Es.
  pose proof (fun x1 x2 E1 E2 => mutate_sim st1 st2 tab1 tab2 x1 x2 lo o1 o2 Hs E1 E2 H1 H2) as HM.
  set (concl := fun (sr1 sr2 : mstate T St * res mout) =>
     snd (out_tab tab1 (snd sr1)) = snd (out_tab tab2 (snd sr2)) /\
     sim (Hdl (fst sr1)) (Hdl (fst sr2)) (fst (out_tab tab1 (snd sr1))) (fst (out_tab tab2 (snd sr2)))).
  assert (Hmut : forall j k1 k2 x1 x2,
     nth_error tab1 j = Some k1 -> nth_error tab2 j = Some k2 ->
     nth_error (Hdl st1) k1 = Some x1 -> nth_error (Hdl st2) k2 = Some x2 ->
     hdl_sim tab1 tab2 x1 x2 ->
     concl (match Mutate st1 x1 o1 with
            | OK (b, s') =>
              let '(st', r) := SetB (hook_fuel T St st1) st1 k1 b s' in
              (st', match r with OK _ => OK MUnit | Err => Err | Panic => Panic end)
            | Err => (st1, Err)
            | Panic => (st1, Panic)
            end)
           (match Mutate st2 x2 o2 with
            | OK (b, s') =>
              let '(st', r) := SetB (hook_fuel T St st2) st2 k2 b s' in
              (st', match r with OK _ => OK MUnit | Err => Err | Panic => Panic end)
            | Err => (st2, Err)
            | Panic => (st2, Panic)
            end)).
  { intros j k1 k2 x1 x2 Hj1 Hj2 Hx1 Hx2 (C1 & C2 & _). rewrite (HM x1 x2 C1 C2).
    destruct (Mutate st2 x2 o2) as [[b s']| |];
      [|split; [reflexivity|exact Hs]|split; [reflexivity|exact Hs]].
    destruct (set_backing_sim (hook_fuel T St st1) (hook_fuel T St st2) st1 st2 tab1 tab2 j k1 k2
                b s' s' Hs Hw1 Hw2 Hj1 Hj2) as [A B].
    - unfold hook_fuel. pose proof (nth_error_lt _ _ _ Hx1). lia.
    - unfold hook_fuel. pose proof (nth_error_lt _ _ _ Hx2). lia.
    - destruct (SetB (hook_fuel T St st1) st1 k1 b s') as [sa ra],
               (SetB (hook_fuel T St st2) st2 k2 b s') as [sb rb].
      cbn [fst snd] in A, B. subst rb. unfold concl.
      destruct ra as [u| |]; cbn [fst snd out_tab]; auto. }
  destruct lo as [j i|j|j|j i x|j x|j|j sel x]; cbn [loc_op] in H1, H2;
    destruct (nth_error tab1 j) as [k1|] eqn:Hj1; try discriminate;
    destruct (nth_error tab2 j) as [k2|] eqn:Hj2; try discriminate;
    try (destruct (loc_src tab1 x) as [v1|]; [|discriminate]);
    try (destruct (loc_src tab2 x) as [v2|]; [|discriminate]);
    injection H1 as <-; injection H2 as <-;
    destruct (Hs' _ _ _ Hj1 Hj2) as (x1 & x2 & A & B & HC); pose proof HC as (C1 & C2 & C3);
    unfold step, get_handle; rewrite A, B;
    try (apply (Hmut j k1 k2 x1 x2 Hj1 Hj2 A B HC)).
  - (* OGet *)
    rewrite C1, C2, Es.
    match goal with |- context [match ?e with Some _ => _ | None => (st1, Err) end] =>
      destruct e as [e0|] end; [|cbn [fst snd out_tab]; auto].
    destruct (Mgetn (h_ty T x2) (Sto st2) (h_back T x2) i) as [c| |];
      [|cbn [fst snd out_tab]; auto|cbn [fst snd out_tab]; auto].
    unfold push_handle. cbn [fst snd out_tab m_handles]. rewrite Hl. split; [reflexivity|].
    apply sim_push; [exact Hs|]. split; [reflexivity|]. split; [reflexivity|].
    cbn [h_hook hook_rel]. split; [reflexivity|]. exists j. split; now apply nth_error_app_l.
  - (* OUValue *)
    rewrite C1, C2, Es.
    destruct (h_ty T x2); try (cbn [fst snd out_tab]; auto; fail).
    match goal with |- context [match ?e with OK _ => _ | Err => (st1, Err) | Panic => (st1, Panic) end] =>
      destruct e as [[[o1|] c]| |] end; try (cbn [fst snd out_tab]; auto; fail).
    unfold push_handle. cbn [fst snd out_tab m_handles]. rewrite Hl. split; [reflexivity|].
    apply sim_push; [exact Hs|]. split; [reflexivity|]. split; [reflexivity|].
    cbn [h_hook hook_rel]. exact I.
  - (* OCopy *)
    unfold push_handle. cbn [fst snd out_tab m_handles]. rewrite Hl. split; [reflexivity|].
    apply sim_push; [exact Hs|]. split; [exact C1|]. split; [exact C2|].
    cbn [h_hook hook_rel]. exact I.
Qed.

(* one event of the fork: same observation, the simulation is kept *)
Lemma event_sim st1 st2 tab1 tab2 e :
  sim (Hdl st1) (Hdl st2) tab1 tab2 -> hooks_wf (Hdl st1) -> hooks_wf (Hdl st2) ->
  snd (Ev st1 tab1 e) = snd (Ev st2 tab2 e) /\
  sim (Hdl (fst (fst (Ev st1 tab1 e)))) (Hdl (fst (fst (Ev st2 tab2 e))))
      (snd (fst (Ev st1 tab1 e))) (snd (fst (Ev st2 tab2 e))).
Proof.
  intros Hs Hw1 Hw2. pose proof Hs as (Hl & Hs' & _). destruct e as [lo|j]; cbn [fork_event].
  - pose proof (loc_op_shape tab1 tab2 lo Hl) as Hsh.
    destruct (loc_op tab1 lo) as [o1|] eqn:L1; destruct (loc_op tab2 lo) as [o2|] eqn:L2;
      try contradiction; cbn [fst snd]; [|auto].
    destruct (step_sim st1 st2 tab1 tab2 lo o1 o2 Hs Hw1 Hw2 L1 L2) as [A B].
    split; [now rewrite A|exact B].
  - destruct (nth_error tab1 j) as [k1|] eqn:E1; destruct (nth_error tab2 j) as [k2|] eqn:E2.
    + destruct (Hs' _ _ _ E1 E2) as (x1 & x2 & A & B & (_ & C2 & _)).
      cbn [s_hash fst snd]. rewrite A, B, C2. auto.
    + apply nth_error_None in E2. pose proof (nth_error_lt _ _ _ E1). lia.
    + apply nth_error_None in E1. pose proof (nth_error_lt _ _ _ E2). lia.
    + cbn [fst snd]. auto.
Qed.

(* an event of ANOTHER fork does not touch the handles of this fork (no hypothesis on the store) *)
Lemma other_event_sim hs1 tab1 st2 tabs f g e :
  g <> f -> forks_ok (Hdl st2) tabs -> sim hs1 (Hdl st2) tab1 (tabs f) ->
  sim hs1 (Hdl (fst (fst (Ev st2 (tabs g) e)))) tab1 (tabs f).
Proof.
  intros Hne (Hb & Hc & Hd) Hs. destruct e as [lo|j]; cbn [fork_event].
  2:{ destruct (nth_error (tabs g) j); cbn [s_hash fst snd]; exact Hs. }
  destruct (loc_op (tabs g) lo) as [o|] eqn:Hlo; cbn [fst snd]; [|exact Hs].
  pose proof (loc_op_target _ _ _ Hlo) as Htgt.
  destruct (Step st2 o) as [st' r] eqn:E. cbn [fst snd].
  destruct (step_local _ _ _ _ _ _ _ _ _ _ _ _ _ _ E) as (_ & _ & Hkeep).
  destruct Hs as (Hl & Hs' & Hi). split; [exact Hl|]. split; [|exact Hi].
  intros j k1 k2 H1 H2. destruct (Hs' _ _ _ H1 H2) as (x1 & x2 & A & B & C).
  exists x1, x2. split; [exact A|]. split; [|exact C].
  apply Hkeep; [exact B|]. intros Hch.
  assert (Hin : In k2 (tabs g)).
  { eapply closed_chain; [|exact Hch|exact Htgt]. intros k x p i. apply Hc. }
  eapply (Hd g f k2 Hne Hin). eapply nth_error_In; eauto.
Qed.

(* ---- 2d. any interleaving: the observations of fork f are those of its sequential run ---- *)

Local Notation Run1 := (run1 (mstate T St) Step s_hash).
Local Notation RunN := (runN (mstate T St) Step s_hash).

Lemma runN_sim f : forall sch st1 tab1 st2 tabs,
  sim (Hdl st1) (Hdl st2) tab1 (tabs f) -> hooks_wf (Hdl st1) -> hooks_wf (Hdl st2) ->
  forks_ok (Hdl st2) tabs ->
  proj f (fst (RunN st2 tabs sch)) = fst (Run1 st1 tab1 (proj f sch)) /\
  sim (Hdl (fst (snd (Run1 st1 tab1 (proj f sch))))) (Hdl (fst (snd (RunN st2 tabs sch))))
      (snd (snd (Run1 st1 tab1 (proj f sch)))) (snd (snd (RunN st2 tabs sch)) f).
Proof.
  induction sch as [|[g e] r IH]; intros st1 tab1 st2 tabs Hs Hw1 Hw2 Hok.
  - cbn. split; [reflexivity|exact Hs].
  - cbn [runN]. cbv zeta. unfold proj. cbn [filter fst snd map].
    destruct (PeanoNat.Nat.eqb_spec g f) as [->|Hne].
    + cbn [map fst snd run1]. cbv zeta. cbn [fst snd].
      destruct (event_sim st1 st2 tab1 (tabs f) e Hs Hw1 Hw2) as [Eo Hs'].
      pose proof (forks_ok_event st2 tabs f e Hok) as Hok'.
      pose proof (event_wf st1 tab1 e Hw1) as Hw1'. pose proof (event_wf st2 (tabs f) e Hw2) as Hw2'.
      rewrite <- (upd_same tabs f (snd (fst (Ev st2 (tabs f) e)))) in Hs'.
      destruct (IH _ _ _ _ Hs' Hw1' Hw2' Hok') as [A B]. unfold proj in A, B.
      split; [rewrite Eo; f_equal; exact A|exact B].
    + pose proof (other_event_sim (Hdl st1) tab1 st2 tabs f g e Hne Hok Hs) as Hs'.
      pose proof (forks_ok_event st2 tabs g e Hok) as Hok'.
      pose proof (event_wf st2 (tabs g) e Hw2) as Hw2'.
      rewrite <- (upd_other tabs g (snd (fst (Ev st2 (tabs g) e))) f) in Hs' by congruence.
      exact (IH _ _ _ _ Hs' Hw1 Hw2' Hok').
Qed.

Lemma sim_view hs1 hs2 tab1 tab2 : sim hs1 hs2 tab1 tab2 -> fork_view hs1 tab1 = fork_view hs2 tab2.
Proof.
  intros (Hl & Hs & _). unfold fork_view. apply list_nth_ext; [rewrite !map_length; exact Hl|].
  intros j. rewrite !nth_error_map.
  destruct (nth_error tab1 j) as [k1|] eqn:E1; destruct (nth_error tab2 j) as [k2|] eqn:E2; cbn [option_map].
  - destruct (Hs _ _ _ E1 E2) as (x1 & x2 & A & B & (C1 & C2 & _)). now rewrite A, B, C1, C2.
  - apply nth_error_None in E2. pose proof (nth_error_lt _ _ _ E1). lia.
  - apply nth_error_None in E1. pose proof (nth_error_lt _ _ _ E2). lia.
  - reflexivity.
Qed.

Theorem fork_independent st tabs f sch :
  hooks_wf (Hdl st) -> forks_ok (Hdl st) tabs ->
  proj f (fst (RunN st tabs sch)) = fst (Run1 st (tabs f) (proj f sch)) /\
  fork_view (Hdl (fst (snd (RunN st tabs sch)))) (snd (snd (RunN st tabs sch)) f) =
  fork_view (Hdl (fst (snd (Run1 st (tabs f) (proj f sch))))) (snd (snd (Run1 st (tabs f) (proj f sch)))).
Proof.
  intros Hw Hok. pose proof Hok as (Hb & Hc & _).
  assert (Hs : sim (Hdl st) (Hdl st) (tabs f) (tabs f)).
  { apply sim_refl; [intros k; apply Hb|intros k x p i; apply Hc]. }
  destruct (runN_sim f sch st (tabs f) st tabs Hs Hw Hw Hok) as [A B].
  split; [exact A|]. symmetry. now apply sim_view.
Qed.

End Solo.

(* ------------------------------------------------------------------------------------- *)
(* 3. the pure machine TM                                                                 *)
(* ------------------------------------------------------------------------------------- *)

Lemma unit_sing : forall a b : unit, a = b.
Proof. intros [] []. reflexivity. Qed.

Theorem tm_fork_independent_proj H zh (ts : tm_state) tabs f sch :
  hooks_wf (m_handles _ _ ts) -> forks_ok (m_handles _ _ ts) tabs ->
  proj f (fst (runN _ (tm_step zh) (tm_hash H) ts tabs sch)) =
    fst (run1 _ (tm_step zh) (tm_hash H) ts (tabs f) (proj f sch)) /\
  fork_view (m_handles _ _ (fst (snd (runN _ (tm_step zh) (tm_hash H) ts tabs sch))))
            (snd (snd (runN _ (tm_step zh) (tm_hash H) ts tabs sch)) f) =
  fork_view (m_handles _ _ (fst (snd (run1 _ (tm_step zh) (tm_hash H) ts (tabs f) (proj f sch)))))
            (snd (snd (run1 _ (tm_step zh) (tm_hash H) ts (tabs f) (proj f sch)))).
Proof.
  exact (fork_independent node unit p_get (p_set zh) p_leaf p_pair p_chunk (p_zero zh) p_true zh
           (root_of H) unit_sing ts tabs f sch).
Qed.

(* the statement of Props/C14.v *)
Theorem tm_fork_independent : forall H zh (ts : tm_state) tabs f sch,
  hooks_wf (m_handles _ _ ts) -> forks_ok (m_handles _ _ ts) tabs ->
  let '(trN, (tsN, tabsN)) := runN _ (tm_step zh) (tm_hash H) ts tabs sch in
  let '(tr1, (ts1, tab1)) := run1 _ (tm_step zh) (tm_hash H) ts (tabs f) (proj f sch) in
  proj f trN = tr1 /\
  fork_view (m_handles _ _ tsN) (tabsN f) = fork_view (m_handles _ _ ts1) tab1.
Proof.
  intros H zh ts tabs f sch Hw Hok.
  pose proof (tm_fork_independent_proj H zh ts tabs f sch Hw Hok) as Hp.
  destruct (runN _ (tm_step zh) (tm_hash H) ts tabs sch) as [trN [tsN tabsN]].
  destruct (run1 _ (tm_step zh) (tm_hash H) ts (tabs f) (proj f sch)) as [tr1 [ts1 tab1]].
  exact Hp.
Qed.

(* ------------------------------------------------------------------------------------- *)
(* 4. runs of two machines related step by step give the same observations                *)
(* ------------------------------------------------------------------------------------- *)

Section RunRefine.
Variables S1 S2 : Type.
Variable stp1 : S1 -> op -> S1 * res mout.
Variable hsh1 : S1 -> nat -> S1 * option chunk.
Variable stp2 : S2 -> op -> S2 * res mout.
Variable hsh2 : S2 -> nat -> S2 * option chunk.
Variable R : S1 -> S2 -> Prop.
Hypothesis Hstp : forall a b o, R a b ->
  R (fst (stp1 a o)) (fst (stp2 b o)) /\ snd (stp1 a o) = snd (stp2 b o).
Hypothesis Hhsh : forall a b k, R a b ->
  R (fst (hsh1 a k)) (fst (hsh2 b k)) /\ snd (hsh1 a k) = snd (hsh2 b k).

Local Notation Ev1 := (fork_event S1 stp1 hsh1).
Local Notation Ev2 := (fork_event S2 stp2 hsh2).

Lemma fork_event_refine a b tab e : R a b ->
  R (fst (fst (Ev1 a tab e))) (fst (fst (Ev2 b tab e))) /\
  snd (fst (Ev1 a tab e)) = snd (fst (Ev2 b tab e)) /\
  snd (Ev1 a tab e) = snd (Ev2 b tab e).
Proof.
  intros HR. destruct e as [lo|j]; cbn [fork_event].
  - destruct (loc_op tab lo) as [o|]; cbn [fst snd]; [|auto].
    destruct (Hstp a b o HR) as [A B]. rewrite B. auto.
  - destruct (nth_error tab j) as [k|]; cbn [fst snd]; [|auto].
    destruct (Hhsh a b k HR) as [A B]. rewrite B. auto.
Qed.

Lemma run1_refine : forall es a b tab, R a b ->
  fst (run1 S1 stp1 hsh1 a tab es) = fst (run1 S2 stp2 hsh2 b tab es) /\
  snd (snd (run1 S1 stp1 hsh1 a tab es)) = snd (snd (run1 S2 stp2 hsh2 b tab es)) /\
  R (fst (snd (run1 S1 stp1 hsh1 a tab es))) (fst (snd (run1 S2 stp2 hsh2 b tab es))).
Proof.
  induction es as [|e r IH]; intros a b tab HR; cbn [run1]; cbv zeta; cbn [fst snd]; [auto|].
  destruct (fork_event_refine a b tab e HR) as (A & B & C). rewrite B, C.
  destruct (IH _ _ (snd (fst (Ev2 b tab e))) A) as (D & E & F). rewrite D. auto.
Qed.

Lemma runN_refine : forall sch a b tabs, R a b ->
  fst (runN S1 stp1 hsh1 a tabs sch) = fst (runN S2 stp2 hsh2 b tabs sch) /\
  snd (snd (runN S1 stp1 hsh1 a tabs sch)) = snd (snd (runN S2 stp2 hsh2 b tabs sch)) /\
  R (fst (snd (runN S1 stp1 hsh1 a tabs sch))) (fst (snd (runN S2 stp2 hsh2 b tabs sch))).
Proof.
  induction sch as [|[g e] r IH]; intros a b tabs HR; cbn [runN]; cbv zeta; cbn [fst snd]; [auto|].
  destruct (fork_event_refine a b (tabs g) e HR) as (A & B & C). rewrite B, C.
  destruct (IH _ _ (upd tabs g (snd (fst (Ev2 b (tabs g) e)))) A) as (D & E & F). rewrite D. auto.
Qed.

End RunRefine.

(* ------------------------------------------------------------------------------------- *)
(* 5. the heap machine HM, through the refinement of RefineProofs.v                       *)
(* ------------------------------------------------------------------------------------- *)

Section Lift.
Variable H : chunk -> chunk -> chunk.
Variable zh : nat -> chunk.

Definition hm_R (hs : hm_state) (ts : tm_state) : Prop :=
  abs_rel zh hs ts /\ memo_ok H (m_store _ _ hs).

Lemma hm_R_step hs ts o : hm_R hs ts ->
  hm_R (fst (hm_step zh hs o)) (fst (tm_step zh ts o)) /\
  snd (hm_step zh hs o) = snd (tm_step zh ts o).
Proof.
  intros [Hr Hok]. destruct (refine_step_fst_snd zh hs ts o Hr) as [A B].
  split; [split; [exact A|]|exact B].
  apply hm_step_memo_ok; [eapply abs_rel_hm_inv; eauto|exact Hok].
Qed.

Lemma hm_R_hash hs ts k : hm_R hs ts ->
  hm_R (fst (hm_hash_ev H hs k)) (fst (tm_hash H ts k)) /\
  snd (hm_hash_ev H hs k) = snd (tm_hash H ts k).
Proof.
  intros [Hr Hok]. pose proof Hr as (_ & _ & _ & Hl & _). unfold hm_hash_ev, tm_hash. cbn [fst snd].
  destruct (nth_error (m_handles _ _ hs) k) as [x|] eqn:Hx.
  - destruct (nth_error (m_handles _ _ ts) k) as [y|] eqn:Hy.
    + destruct (refined_hash zh H hs ts k x y Hr Hok Hx Hy) as (h' & c & E & Hok' & Hr').
      rewrite E. cbn [fst snd]. split; [split; assumption|reflexivity].
    + apply nth_error_None in Hy. pose proof (nth_error_lt _ _ _ Hx). lia.
  - unfold hm_hash. rewrite Hx. cbn [fst snd].
    rewrite (nth_error_same_len _ (m_handles _ _ ts) k Hl Hx). split; [split; assumption|reflexivity].
Qed.

Lemma abs_rel_hooks_wf hs ts :
  abs_rel zh hs ts -> hooks_wf (m_handles _ _ hs) -> hooks_wf (m_handles _ _ ts).
Proof.
  intros (_ & _ & _ & Hl & Hk) Hw k y p i Hy Hh.
  destruct (nth_error (m_handles _ _ hs) k) as [x|] eqn:Hx.
  - destruct (Hk k x y Hx Hy) as (_ & Eh & _). eapply Hw; [exact Hx|]. rewrite Eh. exact Hh.
  - apply nth_error_None in Hx. pose proof (nth_error_lt _ _ _ Hy). lia.
Qed.

Lemma abs_rel_forks_ok hs ts tabs :
  abs_rel zh hs ts -> forks_ok (m_handles _ _ hs) tabs -> forks_ok (m_handles _ _ ts) tabs.
Proof.
  intros (_ & _ & _ & Hl & Hk) (A & B & C). split; [|split; [|exact C]].
  - intros g k Hin. rewrite <- Hl. eapply A; eauto.
  - intros g k y p i Hin Hy Hh.
    destruct (nth_error (m_handles _ _ hs) k) as [x|] eqn:Hx.
    + destruct (Hk k x y Hx Hy) as (_ & Eh & _). eapply B; [exact Hin|exact Hx|]. rewrite Eh. exact Hh.
    + apply nth_error_None in Hx. pose proof (A _ _ Hin). lia.
Qed.

(* every machine state with valid handles has an abstraction *)
Lemma abs_rel_exists hs :
  hm_inv zh hs -> h_cell (m_store _ _ hs) true_addr = Some (CLeaf true_chunk) ->
  exists ts, abs_rel zh hs ts.
Proof.
  intros (Hwf & Hz & _ & Hv) Ht.
  assert (Hl : forall l : list (handle addr),
            (forall x, In x l -> (h_back _ x < hp_next (m_store _ _ hs))%positive) ->
            exists l' : list (handle node),
              Forall2 (fun x y => h_ty _ x = h_ty _ y /\ h_hook _ x = h_hook _ y /\
                                  habs (m_store _ _ hs) (h_back _ x) (h_back _ y)) l l').
  { induction l as [|x l IH]; intros Hin; [exists []; constructor|].
    destruct IH as [l' Hl']; [intros y Hy; apply Hin; now right|].
    destruct (habs_total _ _ Hwf (Hin x (or_introl eq_refl))) as [n Hn].
    exists (mkH node (h_ty _ x) n (h_hook _ x) :: l'). constructor; [|exact Hl'].
    cbn [h_ty h_hook h_back]. auto. }
  destruct (Hl (m_handles _ _ hs)) as [l' Hl'].
  { intros x Hx. apply In_nth_error in Hx. destruct Hx as [k Hk]. eapply Hv; eauto. }
  exists (mkM node unit tt l'). unfold abs_rel. cbn [m_store m_handles].
  split; [exact Hwf|]. split; [exact Hz|]. split; [exact Ht|].
  split; [eapply Forall2_len; eauto|].
  intros k x y Hx Hy. pose proof (Forall2_nth _ _ _ Hl' k) as Hn. rewrite Hx, Hy in Hn. exact Hn.
Qed.

Local Notation HRunN := (runN hm_state (hm_step zh) (hm_hash_ev H)).
Local Notation HRun1 := (run1 hm_state (hm_step zh) (hm_hash_ev H)).
Local Notation TRunN := (runN tm_state (tm_step zh) (tm_hash H)).
Local Notation TRun1 := (run1 tm_state (tm_step zh) (tm_hash H)).

(* the view of a fork in an HM state, read through a related TM state *)
Lemma view_through hs ts tab v :
  abs_rel zh hs ts -> fork_view (m_handles _ _ ts) tab = v ->
  forall j k x, nth_error tab j = Some k -> nth_error (m_handles _ _ hs) k = Some x ->
  exists n, nth_error v j = Some (Some (h_ty _ x, n)) /\ habs (m_store _ _ hs) (h_back _ x) n.
Proof.
  intros (_ & _ & _ & Hl & Hk) <- j k x Hj Hx.
  destruct (nth_error (m_handles _ _ ts) k) as [y|] eqn:Hy.
  - destruct (Hk k x y Hx Hy) as (Et & _ & Ha). exists (h_back _ y). split; [|exact Ha].
    unfold fork_view. rewrite nth_error_map, Hj. cbn [option_map]. now rewrite Hy, Et.
  - apply nth_error_None in Hy. pose proof (nth_error_lt _ _ _ Hx). lia.
Qed.

(* HM in any interleaving = TM running the fork alone *)
Theorem hm_fork_equals_tm_solo_proj hs ts tabs f sch :
  abs_rel zh hs ts -> memo_ok H (m_store _ _ hs) ->
  hooks_wf (m_handles _ _ hs) -> forks_ok (m_handles _ _ hs) tabs ->
  proj f (fst (HRunN hs tabs sch)) = fst (TRun1 ts (tabs f) (proj f sch)) /\
  length (snd (snd (HRunN hs tabs sch)) f) = length (snd (snd (TRun1 ts (tabs f) (proj f sch)))) /\
  forall j k x,
    nth_error (snd (snd (HRunN hs tabs sch)) f) j = Some k ->
    nth_error (m_handles _ _ (fst (snd (HRunN hs tabs sch)))) k = Some x ->
    exists k1 y,
      nth_error (snd (snd (TRun1 ts (tabs f) (proj f sch)))) j = Some k1 /\
      nth_error (m_handles _ _ (fst (snd (TRun1 ts (tabs f) (proj f sch))))) k1 = Some y /\
      h_ty _ x = h_ty _ y /\
      habs (m_store _ _ (fst (snd (HRunN hs tabs sch)))) (h_back _ x) (h_back _ y).
Proof.
  intros Hr Hok Hw Hfk.
  pose proof (abs_rel_hooks_wf _ _ Hr Hw) as Hw'. pose proof (abs_rel_forks_ok _ _ _ Hr Hfk) as Hfk'.
  destruct (runN_refine _ _ _ _ _ _ hm_R hm_R_step hm_R_hash sch hs ts tabs (conj Hr Hok))
    as (A & B & [C _]).
  destruct (tm_fork_independent_proj H zh ts tabs f sch Hw' Hfk') as [D E].
  rewrite A, B. split; [exact D|]. split.
  - apply (f_equal (@length _)) in E. unfold fork_view in E. now rewrite !map_length in E.
  - intros j k x Hj Hx.
    destruct (view_through _ _ _ _ C E j k x Hj Hx) as (n & Hv & Ha).
    unfold fork_view in Hv. rewrite nth_error_map in Hv.
    destruct (nth_error (snd (snd (TRun1 ts (tabs f) (proj f sch)))) j) as [k1|]; [|discriminate].
    cbn [option_map] in Hv. exists k1.
    destruct (nth_error (m_handles _ _ (fst (snd (TRun1 ts (tabs f) (proj f sch))))) k1) as [y|];
      [|discriminate].
    exists y. injection Hv as Et En. subst n. auto.
Qed.

(* HM in any interleaving = HM running the fork alone *)
Theorem hm_fork_independent_proj hs tabs f sch :
  hm_inv zh hs -> h_cell (m_store _ _ hs) true_addr = Some (CLeaf true_chunk) ->
  memo_ok H (m_store _ _ hs) ->
  hooks_wf (m_handles _ _ hs) -> forks_ok (m_handles _ _ hs) tabs ->
  proj f (fst (HRunN hs tabs sch)) = fst (HRun1 hs (tabs f) (proj f sch)) /\
  length (snd (snd (HRunN hs tabs sch)) f) = length (snd (snd (HRun1 hs (tabs f) (proj f sch)))) /\
  forall j k k' x x',
    nth_error (snd (snd (HRunN hs tabs sch)) f) j = Some k ->
    nth_error (m_handles _ _ (fst (snd (HRunN hs tabs sch)))) k = Some x ->
    nth_error (snd (snd (HRun1 hs (tabs f) (proj f sch)))) j = Some k' ->
    nth_error (m_handles _ _ (fst (snd (HRun1 hs (tabs f) (proj f sch))))) k' = Some x' ->
    h_ty _ x = h_ty _ x' /\
    exists n, habs (m_store _ _ (fst (snd (HRunN hs tabs sch)))) (h_back _ x) n /\
              habs (m_store _ _ (fst (snd (HRun1 hs (tabs f) (proj f sch))))) (h_back _ x') n.
Proof.
  intros Hi Ht Hok Hw Hfk. destruct (abs_rel_exists hs Hi Ht) as [ts Hr].
  destruct (hm_fork_equals_tm_solo_proj hs ts tabs f sch Hr Hok Hw Hfk) as (A & B & C).
  destruct (run1_refine _ _ _ _ _ _ hm_R hm_R_step hm_R_hash (proj f sch) hs ts (tabs f) (conj Hr Hok))
    as (D & E & [F _]).
  rewrite D, E. split; [exact A|]. split; [exact B|].
  intros j k k' x x' Hj Hx Hj' Hx'.
  destruct (C j k x Hj Hx) as (k1 & y & Hk1 & Hy & Et & Ha).
  rewrite Hj' in Hk1. injection Hk1 as <-.
  destruct F as (_ & _ & _ & _ & Fk). destruct (Fk k' x' y Hx' Hy) as (Et' & _ & Ha').
  split; [congruence|]. exists (h_back _ y). auto.
Qed.

(* an interleaved run of forks is a history in the sense of C05-C07 / C14 (HeapProofs.hm_run):
   the frozen-prefix and memo theorems of Props/C14.v apply to it *)
Lemma hm_hash_ev_event hs k : fst (hm_hash_ev H hs k) = hm_event H zh hs (EHash k).
Proof.
  unfold hm_hash_ev. cbn [hm_event]. destruct (hm_hash H hs k) as [[[r hs'] c]| |]; reflexivity.
Qed.

Lemma hm_runN_history : forall sch hs tabs,
  exists evs, fst (snd (HRunN hs tabs sch)) = hm_run H zh hs evs.
Proof.
  induction sch as [|[g e] r IH]; intros hs tabs; cbn [runN]; cbv zeta; cbn [fst snd].
  - exists []. reflexivity.
  - match goal with |- context [runN _ _ _ ?a ?b r] => destruct (IH a b) as [evs Hevs] end.
    rewrite Hevs. destruct e as [lo|j]; cbn [fork_event].
    + destruct (loc_op (tabs g) lo) as [o|]; cbn [fst snd].
      * exists (EStep o :: evs). reflexivity.
      * exists evs. reflexivity.
    + destruct (nth_error (tabs g) j) as [k|]; cbn [fst snd].
      * exists (EHash k :: evs). rewrite hm_hash_ev_event. reflexivity.
      * exists evs. reflexivity.
Qed.

End Lift.

(* ---- the statements of Props/C14.v ---- *)

Theorem hm_fork_equals_tm_solo : forall H zh hs ts tabs f sch,
  abs_rel zh hs ts -> memo_ok H (m_store _ _ hs) ->
  hooks_wf (m_handles _ _ hs) -> forks_ok (m_handles _ _ hs) tabs ->
  let '(trN, (hsN, tabsN)) := runN _ (hm_step zh) (hm_hash_ev H) hs tabs sch in
  let '(tr1, (ts1, tab1)) := run1 _ (tm_step zh) (tm_hash H) ts (tabs f) (proj f sch) in
  proj f trN = tr1 /\
  length (tabsN f) = length tab1 /\
  forall j k x,
    nth_error (tabsN f) j = Some k -> nth_error (m_handles _ _ hsN) k = Some x ->
    exists k1 y,
      nth_error tab1 j = Some k1 /\ nth_error (m_handles _ _ ts1) k1 = Some y /\
      h_ty _ x = h_ty _ y /\ habs (m_store _ _ hsN) (h_back _ x) (h_back _ y).
Proof.
  intros H zh hs ts tabs f sch Hr Hok Hw Hfk.
  pose proof (hm_fork_equals_tm_solo_proj H zh hs ts tabs f sch Hr Hok Hw Hfk) as Hp.
  destruct (runN _ (hm_step zh) (hm_hash_ev H) hs tabs sch) as [trN [hsN tabsN]].
  destruct (run1 _ (tm_step zh) (tm_hash H) ts (tabs f) (proj f sch)) as [tr1 [ts1 tab1]].
  exact Hp.
Qed.

Theorem hm_fork_independent : forall H zh hs tabs f sch,
  hm_inv zh hs -> h_cell (m_store _ _ hs) true_addr = Some (CLeaf true_chunk) ->
  memo_ok H (m_store _ _ hs) ->
  hooks_wf (m_handles _ _ hs) -> forks_ok (m_handles _ _ hs) tabs ->
  let '(trN, (hsN, tabsN)) := runN _ (hm_step zh) (hm_hash_ev H) hs tabs sch in
  let '(tr1, (hs1, tab1)) := run1 _ (hm_step zh) (hm_hash_ev H) hs (tabs f) (proj f sch) in
  proj f trN = tr1 /\
  length (tabsN f) = length tab1 /\
  forall j k k' x x',
    nth_error (tabsN f) j = Some k -> nth_error (m_handles _ _ hsN) k = Some x ->
    nth_error tab1 j = Some k' -> nth_error (m_handles _ _ hs1) k' = Some x' ->
    h_ty _ x = h_ty _ x' /\
    exists n, habs (m_store _ _ hsN) (h_back _ x) n /\ habs (m_store _ _ hs1) (h_back _ x') n.
Proof.
  intros H zh hs tabs f sch Hi Ht Hok Hw Hfk.
  pose proof (hm_fork_independent_proj H zh hs tabs f sch Hi Ht Hok Hw Hfk) as Hp.
  destruct (runN _ (hm_step zh) (hm_hash_ev H) hs tabs sch) as [trN [hsN tabsN]].
  destruct (run1 _ (hm_step zh) (hm_hash_ev H) hs (tabs f) (proj f sch)) as [tr1 [hs1 tab1]].
  exact Hp.
Qed.

Theorem hm_runN_is_history : forall H zh sch hs tabs,
  exists evs, fst (snd (runN _ (hm_step zh) (hm_hash_ev H) hs tabs sch)) = hm_run H zh hs evs.
Proof. exact hm_runN_history. Qed.

(* the definitions, spelled out *)
Theorem fork_defs : forall (S : Type) (stp : S -> op -> S * res mout) (hsh : S -> nat -> S * option chunk)
    (st : S) (tab : list nat) (lo : op) (j : nat) (T : Type) (hs : list (handle T)) (tabs : nat -> list nat),
  fork_event S stp hsh st tab (FStep lo) =
    match loc_op tab lo with
    | None => (st, tab, FRes Err)
    | Some o => (fst (stp st o), fst (out_tab tab (snd (stp st o))), FRes (snd (out_tab tab (snd (stp st o)))))
    end /\
  fork_event S stp hsh st tab (FHash j) =
    match nth_error tab j with
    | None => (st, tab, FRoot None)
    | Some k => (fst (hsh st k), tab, FRoot (snd (hsh st k)))
    end /\
  (forks_ok hs tabs <->
     (forall g k, In k (tabs g) -> (k < length hs)%nat) /\
     (forall g k x p i, In k (tabs g) -> nth_error hs k = Some x -> h_hook T x = Some (p, i) ->
                        In p (tabs g)) /\
     (forall g1 g2 k, g1 <> g2 -> In k (tabs g1) -> ~ In k (tabs g2))).
Proof.
  intros. split; [reflexivity|]. split; [reflexivity|]. reflexivity.
Qed.

(* ------------------------------------------------------------------------------------- *)
(* 6. examples: the hypotheses are satisfiable, the renumbering is real                   *)
(* ------------------------------------------------------------------------------------- *)

Definition hookfree {T} (hs : list (handle T)) : bool :=
  forallb (fun x => match h_hook T x with None => true | Some _ => false end) hs.

Lemma hookfree_none {T} (hs : list (handle T)) k x :
  hookfree hs = true -> nth_error hs k = Some x -> h_hook T x = None.
Proof.
  intros Hf Hx. unfold hookfree in Hf. rewrite forallb_forall in Hf.
  specialize (Hf x (nth_error_In _ _ Hx)). destruct (h_hook T x); [discriminate|reflexivity].
Qed.

Lemma hookfree_wf {T} (hs : list (handle T)) : hookfree hs = true -> hooks_wf hs.
Proof. intros Hf k x p i Hx Hh. rewrite (hookfree_none hs k x Hf Hx) in Hh. discriminate. Qed.

Lemma hookfree_forks_ok {T} (hs : list (handle T)) tabs :
  hookfree hs = true ->
  (forall g k, In k (tabs g) -> (k < length hs)%nat) ->
  (forall g1 g2 k, g1 <> g2 -> In k (tabs g1) -> ~ In k (tabs g2)) ->
  forks_ok hs tabs.
Proof.
  intros Hf A C. split; [exact A|]. split; [|exact C].
  intros g k x p i _ Hx Hh. rewrite (hookfree_none hs k x Hf Hx) in Hh. discriminate.
Qed.

(* Container{Vector[uint64,8]; uint64} (HeapProofs.ex_st0), its root hashed, then two copies:
   the shared structure is fully hashed beforehand; fork 0 owns copy 1, fork 1 owns copy 2 *)
Definition fx_hist : list hev := [EHash 0; EStep (OCopy 0); EStep (OCopy 0)].
Definition fx_hs : hm_state := hm_run yH yzh ex_st0 fx_hist.
Definition fx_ts : tm_state := MutProofs.tm_run yzh (tm_init ex_ty ex_node) (ev_ops fx_hist).
Definition fx_tabs (g : nat) : list nat := match g with 0 => [1] | 1 => [2] | _ => [] end%nat.
Definition fx_u8 (n : N) : src := SLit (TUint 8) (VUint n).
(* sub-views obtained INSIDE the interleaving, writes through hooks, copies, handle sources,
   hash requests of both forks, an event of a fork without handles, errors *)
Definition fx_sch : list (nat * fev) :=
  [(0, FStep (OGet 0 0)); (1, FStep (OGet 0 0));
   (1, FStep (OSet 1 4 (fx_u8 9))); (0, FStep (OSet 1 4 (fx_u8 7)));
   (0, FHash 1); (1, FHash 1); (1, FStep (OCopy 1)); (2, FStep (OCopy 0));
   (0, FStep (OSet 0 1 (fx_u8 3))); (0, FStep (OCopy 1)); (1, FStep (OSet 0 0 (SHandle 2)));
   (0, FStep (OSet 2 0 (fx_u8 1))); (0, FStep (OSet 0 0 (SHandle 2))); (1, FHash 2);
   (0, FHash 0); (0, FStep (OPop 0)); (1, FHash 0); (0, FStep (OGet 5 0)); (0, FHash 1)]%nat.

Example ex_fork_hyps :
  abs_rel yzh fx_hs fx_ts /\ memo_ok yH (m_store _ _ fx_hs) /\
  hm_inv yzh fx_hs /\ h_cell (m_store _ _ fx_hs) true_addr = Some (CLeaf true_chunk) /\
  hooks_wf (m_handles _ _ fx_hs) /\ forks_ok (m_handles _ _ fx_hs) fx_tabs /\
  hooks_wf (m_handles _ _ fx_ts) /\ forks_ok (m_handles _ _ fx_ts) fx_tabs.
Proof.
  destruct ex_abs_rel as [Hr0 Hok0].
  pose proof (refine_events yzh yH fx_hist _ _ Hr0) as Hr. fold fx_hs fx_ts in Hr.
  pose proof (abs_rel_hm_inv _ _ _ Hr0) as Hi0.
  destruct (hm_run_inv yH yzh fx_hist ex_st0 Hi0) as (_ & _ & Hok & _). fold fx_hs in Hok.
  assert (Hf : hookfree (m_handles _ _ fx_hs) = true) by (vm_compute; reflexivity).
  assert (Hlen : length (m_handles _ _ fx_hs) = 3%nat) by (vm_compute; reflexivity).
  assert (Hfk : forks_ok (m_handles _ _ fx_hs) fx_tabs).
  { apply hookfree_forks_ok; [exact Hf| |].
    - rewrite Hlen. intros [|[|g]] k; simpl; intros Hk; try contradiction;
        destruct Hk as [<-|[]]; lia.
    - intros [|[|g1]] [|[|g2]] k Hne; simpl; intros H1 H2; try contradiction; try congruence;
        destruct H1 as [<-|[]]; destruct H2 as [E|[]]; discriminate. }
  pose proof (hookfree_wf _ Hf) as Hw.
  split; [exact Hr|]. split; [now apply Hok|]. split; [eapply abs_rel_hm_inv; eauto|].
  split; [apply Hr|]. split; [exact Hw|]. split; [exact Hfk|].
  split; [eapply abs_rel_hooks_wf; eauto|eapply abs_rel_forks_ok; eauto].
Qed.

(* what the forks observe (roots cut to their first two bytes for display) *)
Definition fx_show (o : fobs) : res mout + list byte :=
  match o with FRes r => inl r | FRoot (Some c) => inr (firstn 2 c) | FRoot None => inr [] end.

Example ex_fork_run :
  let run := runN _ (hm_step yzh) (hm_hash_ev yH) fx_hs fx_tabs fx_sch in
  let solo0 := run1 _ (hm_step yzh) (hm_hash_ev yH) fx_hs (fx_tabs 0%nat) (proj 0%nat fx_sch) in
  let solo1 := run1 _ (hm_step yzh) (hm_hash_ev yH) fx_hs (fx_tabs 1%nat) (proj 1%nat fx_sch) in
  let tsolo0 := run1 _ (tm_step yzh) (tm_hash yH) fx_ts (fx_tabs 0%nat) (proj 0%nat fx_sch) in
  (* the observations of each fork are those of its sequential run, on HM and on TM *)
  proj 0%nat (fst run) = fst solo0 /\ proj 1%nat (fst run) = fst solo1 /\ fst solo0 = fst tsolo0 /\
  (* ... although the handle numbers behind the local names differ ... *)
  snd (snd run) 0%nat = [1; 3; 6]%nat /\ snd (snd solo0) = [1; 3; 4]%nat /\
  snd (snd run) 1%nat = [2; 4; 5]%nat /\ snd (snd solo1) = [2; 3; 4]%nat /\
  (* ... and the two forks see different things *)
  map fx_show (proj 0%nat (fst run)) =
    [inl (OK (MHandle 1)); inl (OK MUnit); inr [Byte.x01; Byte.x2a]; inl (OK MUnit);
     inl (OK (MHandle 2)); inl (OK MUnit); inl (OK MUnit); inr [Byte.x01; Byte.x19];
     inl Err; inl Err; inr [Byte.x01; Byte.x2a]] /\
  map fx_show (proj 1%nat (fst run)) =
    [inl (OK (MHandle 1)); inl (OK MUnit); inr [Byte.x01; Byte.x34]; inl (OK (MHandle 2));
     inl (OK MUnit); inr [Byte.x01; Byte.x34]; inr [Byte.x01; Byte.x0a]].
Proof. vm_compute. repeat split; reflexivity. Qed.
