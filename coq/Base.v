(* Base.v — shared vocabulary of the ztyp model: bytes, chunks, results, uint arithmetic.
   Definitions only (lemmas about them live in BaseLemmas.v). *)
From Coq Require Export List NArith Bool Lia.
From Coq Require Export Strings.Byte.
Export ListNotations.
Open Scope N_scope.

Definition byte := Byte.byte.
Definition b0 : byte := Byte.x00.
Definition chunk := list byte.

(* Three-valued result: [Panic] is produced only where the Go code can panic. *)
Inductive res (A : Type) : Type := OK (a : A) | Err | Panic.
Arguments OK {A} a.
Arguments Err {A}.
Arguments Panic {A}.

Definition bind {A B} (r : res A) (f : A -> res B) : res B :=
  match r with OK a => f a | Err => Err | Panic => Panic end.
Notation "'do' x <- r ; k" := (bind r (fun x => k))
  (at level 200, x pattern, r at level 100, k at level 200, right associativity).

Definition is_ok {A} (r : res A) : bool := match r with OK _ => true | _ => false end.

(* bytes <-> numbers *)
Definition N_of_byte (b : byte) : N := Byte.to_N b.
Definition byte_of_N (n : N) : byte :=
  match Byte.of_N (n mod 256) with Some b => b | None => b0 end.

(* little-endian, fixed width *)
Fixpoint le_bytes (k : nat) (n : N) : list byte :=
  match k with O => [] | S k' => byte_of_N n :: le_bytes k' (n / 256) end.
Fixpoint le_val (bs : list byte) : N :=
  match bs with [] => 0 | b :: r => N_of_byte b + 256 * le_val r end.

Definition zero_bytes (k : nat) : list byte := repeat b0 k.
Definition zero_chunk : chunk := zero_bytes 32.
(* right-pad with zeros / truncate to exactly k bytes: Go's copy into a zeroed [k]byte *)
Definition pad_to (k : nat) (bs : list byte) : list byte := firstn k (bs ++ zero_bytes k).
Definition pad32 (bs : list byte) : chunk := pad_to 32 bs.

(* uint64 / uint32 / uint8 wrap-around, written where Go can wrap *)
Definition two64 : N := 18446744073709551616.
Definition two32 : N := 4294967296.
Definition wrap64 (n : N) : N := n mod two64.
Definition wrap32 (n : N) : N := n mod two32.
Definition wrap8 (n : N) : N := n mod 256.
Definition add64 a b := wrap64 (a + b).
Definition mul64 a b := wrap64 (a * b).
(* a - b in uint64 *)
Definition sub64 a b := wrap64 (a + two64 - (b mod two64)).
Definition sub32 a b := wrap32 (a + two32 - (b mod two32)).
(* v << k for a uint64 v and a shift count k (Go: result 0 for k >= 64) *)
Definition shl64 (v k : N) : N := wrap64 (N.shiftl v k).

Definition chunk_eqb (a b : list byte) : bool :=
  if list_eq_dec Byte.byte_eq_dec a b then true else false.

Definition nat_of (n : N) : nat := N.to_nat n.

(* list update *)
Fixpoint list_set {A} (l : list A) (i : nat) (x : A) : list A :=
  match l, i with
  | [], _ => []
  | _ :: r, O => x :: r
  | y :: r, S i' => y :: list_set r i' x
  end.

(* split a byte string into 32-byte chunks, the last one zero padded
   (view.BytesIntoNodes / the spec's pack) *)
Fixpoint chunkify_fuel (fuel : nat) (bs : list byte) : list chunk :=
  match fuel with
  | O => []
  | S f => match bs with
           | [] => []
           | _ => pad32 (firstn 32 bs) :: chunkify_fuel f (skipn 32 bs)
           end
  end.
Definition chunkify (bs : list byte) : list chunk := chunkify_fuel (S (length bs)) bs.

(* bits (lsb first within a byte) -> bytes: view.bitsToBytes / the spec's bit packing *)
Fixpoint bits_val (bs : list bool) : N :=
  match bs with [] => 0 | b :: r => (if b then 1 else 0) + 2 * bits_val r end.
Fixpoint bits_to_bytes_fuel (fuel : nat) (bs : list bool) : list byte :=
  match fuel with
  | O => []
  | S f => match bs with
           | [] => []
           | _ => byte_of_N (bits_val (firstn 8 bs)) :: bits_to_bytes_fuel f (skipn 8 bs)
           end
  end.
Definition bits_to_bytes (bs : list bool) : list byte := bits_to_bytes_fuel (S (length bs)) bs.

(* tree.InitZeroHashes: ZeroHashes[i+1] = h(ZeroHashes[i], ZeroHashes[i]); also the SSZ
   document's zero-subtree root of height d *)
Fixpoint zero_hash (H : chunk -> chunk -> chunk) (d : nat) : chunk :=
  match d with O => zero_chunk | S d' => let z := zero_hash H d' in H z z end.

Definition byte_testbit (b : byte) (i : N) : bool := N.testbit (N_of_byte b) i.
