(* FlatStreamProofs.v — C13 at the level of the flat decoders: a stream that ends before the
   declared scope is satisfied never yields a value.  (The view-decoder counterpart is
   RouteProofs.short_stream_decode.) *)
From Coq Require Import Lia.
From Ztyp Require Import Base Types Spec Reader Codec Repr Extras SizeProofs CodecProofs.
Open Scope N_scope.

Lemma new_reader_scoped_ok delivered scope : scope < two63 ->
  rd_ok (fst (new_reader delivered scope)) (snd (new_reader delivered scope)) /\
  avail (fst (new_reader delivered scope)) (d_chain (snd (new_reader delivered scope)))
    <= lenN delivered.
Proof.
  intros Hs. unfold new_reader. cbn [fst snd].
  assert (Eav : avail (mkRS delivered [scope]) [O] = N.min scope (lenN delivered)).
  { unfold avail, lim_get. cbn [fold_right r_stream r_lims nth]. reflexivity. }
  split.
  - unfold rd_ok. cbn [d_i d_max d_chain]. rewrite Eav.
    split; [lia|]. split; [exact Hs|]. split.
    + split; [repeat constructor; intros []|]. repeat constructor.
    + unfold dr_scope. cbn [d_i d_max]. lia.
  - cbn [d_chain]. rewrite Eav. lia.
Qed.

(* the decoder never returns a value when fewer than [scope] bytes arrive; a fixed-size top-level
   value is handed exactly its size as scope (as in C03 / C10: its decoder is a plain
   fixed-size read) *)
Lemma flat_short_stream t c delivered scope :
  wf_ty t = true -> small_params t = true -> scope < 2 ^ 63 ->
  (spec_is_fixed t = true -> scope = spec_fixed_len t) ->
  lenN delivered < scope ->
  flat_decode_scoped t c delivered scope = Err.
Proof.
  intros Hwf Hsm Hsc Hfx Hshort. change (2 ^ 63) with two63 in Hsc.
  unfold flat_decode_scoped.
  destruct (new_reader_scoped_ok delivered scope Hsc) as [Hok Hav].
  destruct (new_reader delivered scope) as [st d] eqn:Hnr. cbn [fst snd] in Hok, Hav.
  assert (Hscope : dr_scope d = scope).
  { unfold new_reader in Hnr. inversion Hnr; subst. unfold dr_scope. cbn [d_i d_max]. lia. }
  destruct (flat_dec t c st d) as [[[[v c0] st'] d']| |] eqn:Ed; cbn [bind].
  - exfalso.
    destruct (flat_dec_sd t Hwf Hsm _ _ _ _ _ _ _ Hok Ed) as (Hty & (_ & _ & Hle) & Hvar & _).
    assert (Hlen : lenN (spec_ser t v) = scope).
    { destruct (spec_is_fixed t) eqn:Efx.
      - rewrite (Hfx eq_refl). apply spec_ser_fixed_len; assumption.
      - rewrite (Hvar eq_refl). exact Hscope. }
    lia.
  - reflexivity.
  - exfalso. exact (flat_dec_np t c st d Ed).
Qed.

(* non-vacuity: a list of two uint16 whose four bytes arrive completely decodes; with three
   bytes delivered and the same declared scope it fails *)
Example flat_short_stream_example :
  let t := TList (TUint 2) 4 in
  let bs := [byte_of_N 1; byte_of_N 2; byte_of_N 3; byte_of_N 4] in
  flat_decode_scoped t CFresh bs 4 = OK (VSeq [VUint 513; VUint 1027], CFresh) /\
  flat_decode_scoped t CFresh (firstn 3 bs) 4 = Err.
Proof. vm_compute. split; reflexivity. Qed.
