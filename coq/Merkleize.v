(* Merkleize.v — model of tree/merkle.go (the streaming loop, verbatim) and of the flat
   HashFn helpers of tree/hashing.go.  Definitions only. *)
From Ztyp Require Import Base Bitlen Bitfields.
Open Scope N_scope.

Section WithHash.
Variable H : chunk -> chunk -> chunk.
Variable zh : nat -> chunk.   (* tree.ZeroHashes *)

Definition tmp_get (tmp : list chunk) (j : N) : res chunk :=
  match nth_error tmp (nat_of j) with Some c => OK c | None => Panic end.
Definition tmp_set (tmp : list chunk) (j : N) (c : chunk) : res (list chunk) :=
  if j <? N.of_nat (length tmp) then OK (list_set tmp (nat_of j) c) else Panic.

(* the [merge] closure: for j = 0; ; j++ { ... }; tmp[j] = hArr.  Fuel 66 is never
   exhausted for i < 2^64 (some bit of i below 64 is clear, or j reaches 64 where
   1<<j = 0). *)
Fixpoint merge_loop (fuel : nat) (i count depth : N) (tmp : list chunk) (h : chunk) (j : N)
  : res (list chunk) :=
  match fuel with
  | O => Panic
  | S f =>
    if N.land i (shl64 1 j) =? 0 then
      if (i =? count) && (j <? depth) then
        merge_loop f i count depth tmp (H h (zh (nat_of j))) (j + 1)
      else tmp_set tmp j h
    else
      do t <- tmp_get tmp j;
      merge_loop f i count depth tmp (H t h) (j + 1)
  end.
Definition merge (i count depth : N) (tmp : list chunk) (h : chunk) : res (list chunk) :=
  merge_loop 66 i count depth tmp h 0.

(* for i := 0; i < count; i++ { hArr = leaf(i); merge(i) } ; k = iterations left *)
Fixpoint leaves_loop (k : nat) (i count depth : N) (leaf : N -> chunk) (tmp : list chunk)
  : res (list chunk) :=
  match k with
  | O => OK tmp
  | S k' => do tmp' <- merge i count depth tmp (leaf i);
            leaves_loop k' (i + 1) count depth leaf tmp'
  end.

(* for j := depth; j < limitDepth; j++ { tmp[j+1] = hasher(tmp[j], ZeroHashes[j]) } *)
Fixpoint climb (k : nat) (j : N) (tmp : list chunk) : res (list chunk) :=
  match k with
  | O => OK tmp
  | S k' => do t <- tmp_get tmp j;
            do tmp' <- tmp_set tmp (j + 1) (H t (zh (nat_of j)));
            climb k' (j + 1) tmp'
  end.

Definition merkleize (count limit : N) (leaf : N -> chunk) : res chunk :=
  let count := if limit <? count then limit else count in
  if limit =? 0 then OK zero_chunk else
  if limit =? 1 then (if count =? 1 then OK (leaf 0) else OK zero_chunk) else
  let depth := cover_depth count in
  let limit_depth := cover_depth limit in
  let tmp := repeat zero_chunk (S (nat_of limit_depth)) in
  do tmp <- leaves_loop (nat_of count) 0 count depth leaf tmp;
  do tmp <- (if negb (shl64 1 depth =? count) then merge count count depth tmp (zh 0) else OK tmp);
  do tmp <- climb (nat_of (limit_depth - depth)) depth tmp;
  tmp_get tmp limit_depth.

(* ---- flat helpers (tree/hashing.go) ---- *)
Definition mixin (v : chunk) (len : N) : chunk := H v (pad32 (le_bytes 8 len)).

(* HashFn.HashTreeRoot(fields...) over already computed field roots *)
Definition fields_htr (roots : list chunk) : res chunk :=
  match roots with
  | [] => OK zero_chunk
  | [a] => OK a
  | [a; b] => OK (H a b)
  | _ => let n := N.of_nat (length roots) in
         merkleize n n (fun i => nth (nat_of i) roots zero_chunk)
  end.

Definition complex_vector_htr (elem : N -> chunk) (len : N) : res chunk :=
  merkleize len len elem.
Definition complex_list_htr (elem : N -> chunk) (len limit : N) : res chunk :=
  do r <- merkleize len limit elem; OK (mixin r len).
Definition chunks_htr (ch : N -> chunk) (len limit : N) : res chunk := merkleize len limit ch.

(* chunk i of a byte string: copy(out[:], values[i<<5:]) — panics if i<<5 > len *)
Definition bytes_chunk (bs : list byte) (i : N) : chunk := pad32 (firstn 32 (skipn (nat_of (32 * i)) bs)).

(* Uint8VectorHTR / Uint8ListHTR with v(i) = nth i *)
Definition uint8_vector_htr (vals : list byte) : res chunk :=
  let len := N.of_nat (length vals) in
  let chunks := N.shiftr (wrap64 (len + 31)) 5 in
  chunks_htr (bytes_chunk vals) chunks chunks.
Definition uint8_list_htr (vals : list byte) (limit : N) : res chunk :=
  let len := N.of_nat (length vals) in
  let chunks := N.shiftr (wrap64 (len + 31)) 5 in
  do r <- chunks_htr (bytes_chunk vals) chunks (N.shiftr (wrap64 (limit + 31)) 5);
  OK (mixin r len).

Definition u64s_bytes (vals : list N) : list byte := flat_map (le_bytes 8) vals.
Definition uint64_vector_htr (vals : list N) : res chunk :=
  let len := N.of_nat (length vals) in
  let chunks := N.shiftr (wrap64 (len + 3)) 2 in
  chunks_htr (bytes_chunk (u64s_bytes vals)) chunks chunks.
Definition uint64_list_htr (vals : list N) (limit : N) : res chunk :=
  let len := N.of_nat (length vals) in
  let chunks := N.shiftr (wrap64 (len + 3)) 2 in
  do r <- chunks_htr (bytes_chunk (u64s_bytes vals)) chunks (N.shiftr (wrap64 (limit + 3)) 2);
  OK (mixin r len).

Definition byte_vector_htr (vals : list byte) : res chunk :=
  let chunks := (N.of_nat (length vals) + 31) / 32 in
  chunks_htr (bytes_chunk vals) chunks chunks.
Definition byte_list_htr (vals : list byte) (limit : N) : res chunk :=
  let chunks := (N.of_nat (length vals) + 31) / 32 in
  do r <- chunks_htr (bytes_chunk vals) chunks (wrap64 (limit + 31) / 32);
  OK (mixin r (N.of_nat (length vals))).

Definition bit_vector_htr (bits : list byte) : res chunk :=
  let chunks := (N.of_nat (length bits) + 31) / 32 in
  chunks_htr (fun i => if i <? chunks then bytes_chunk bits i else zero_chunk) chunks chunks.

(* BitListHTR: the delimiter bit is masked out of the chunk that holds it *)
Definition bitlist_chunk (bits : list byte) (bit_len chunks i : N) : chunk :=
  if i <? chunks then
    let c := bytes_chunk bits i in
    if bit_len <? wrap64 (N.shiftl (i + 1) 8) then
      let k := nat_of (N.shiftr (N.land bit_len 255) 3) in
      let b := nth k c b0 in
      list_set c k (byte_of_N (N.ldiff (N_of_byte b) (2 ^ (N.land bit_len 7))))
    else c
  else zero_chunk.
Definition bit_list_htr (bits : list byte) (bit_limit : N) : res chunk :=
  let bit_len := bitlist_len bits in
  let chunks := N.shiftr (wrap64 (bit_len + 255)) 8 in
  let chunk_limit := N.shiftr (wrap64 (bit_limit + 255)) 8 in
  do r <- chunks_htr (bitlist_chunk bits bit_len chunks) chunks chunk_limit;
  OK (mixin r bit_len).

Definition union_htr (selector : N) (value : option chunk) : chunk :=
  let sel := pad32 [byte_of_N selector] in
  match value with None => H zero_chunk sel | Some r => H r sel end.

End WithHash.
