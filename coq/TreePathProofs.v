(* TreePathProofs.v — summarising at a generalized index of any depth (TreePath.v). *)
From Ztyp Require Import Base Bitlen Tree TreePath BitlenProofs TreeProofs.
From Coq Require Import Lia.
Open Scope N_scope.

Section P.
Variable H : chunk -> chunk -> chunk.
Variable zh : nat -> chunk.

(* on 64-bit indices it is Tree.summarize *)
Lemma summarize_path_agrees n d p : d < 64 -> p < 2 ^ d ->
  summarize zh H n (2 ^ d + p) = summarize_path zh H n (g_path (2 ^ d + p)).
Proof.
  intros Hd Hp. unfold summarize, summarize_path, setter, getter.
  destruct n as [x|l r]; [|reflexivity].
  rewrite (g_path_spec d p Hd Hp).
  destruct (N.eq_dec d 0) as [->|Hd0].
  - assert (p = 0) by (change (2 ^ 0) with 1 in Hp; lia). subst p. reflexivity.
  - assert (Hg : 2 ^ d + p =? 1 = false).
    { apply N.eqb_neq. assert (2 <= 2 ^ d).
      { change 2 with (2 ^ 1) at 1. apply N.pow_le_mono_r; lia. } lia. }
    rewrite Hg. destruct (N.to_nat d) as [|k] eqn:Ek; [lia|]. reflexivity.
Qed.

(* summarising any position - at any depth - preserves the Merkle root *)
Lemma summarize_path_root n p n' :
  summarize_path zh H n p = OK n' -> root_of H n' = root_of H n.
Proof.
  unfold summarize_path. destruct n as [x|l r].
  - destruct p; [|discriminate]. now intros [= <-].
  - generalize (Pair l r) as n. intros n.
    destruct (set_path zh n p false n); cbn [bind]; try discriminate.
    destruct (get_path n p) as [sub| |] eqn:Eg; cbn [bind]; try discriminate.
    intros Hs. rewrite (set_path_root _ _ _ _ _ _ Hs). cbn [root_of].
    now apply root_subst_id.
Qed.

(* ... succeeds exactly on the positions that exist, and never panics *)
Lemma summarize_path_ok_iff l r p :
  (exists n', summarize_path zh H (Pair l r) p = OK n') <-> ~ hits_leaf (Pair l r) p.
Proof.
  unfold summarize_path. generalize (Pair l r) as n. intros n. split.
  - intros [n' Hs]. destruct (set_path zh n p false n) eqn:E1; cbn [bind] in Hs; try discriminate.
    apply (proj1 (set_path_noexp_ok_iff zh n p n)). eauto.
  - intros Hn. destruct (proj2 (set_path_noexp_ok_iff zh n p n) Hn) as [m1 E1]. rewrite E1. cbn [bind].
    destruct (proj2 (get_path_ok_iff n p) Hn) as [sub Eg]. rewrite Eg. cbn [bind].
    apply (proj2 (set_path_noexp_ok_iff zh n p _) Hn).
Qed.

Lemma summarize_path_total n p : summarize_path zh H n p <> Panic.
Proof.
  unfold summarize_path. destruct n as [x|l r].
  - destruct p; discriminate.
  - generalize (Pair l r) as n. intros n.
    destruct (set_path zh n p false n) eqn:E1; cbn [bind]; try discriminate.
    + destruct (get_path n p) eqn:Eg; cbn [bind]; try discriminate.
      * apply set_path_noexp_total.
      * now apply get_path_total in Eg.
    + now apply set_path_noexp_total in E1.
Qed.
End P.

Example ex_summarize_path_deep :
  let n := Pair (Leaf zero_chunk) (Pair (Leaf zero_chunk) (Leaf zero_chunk)) in
  summarize_path (fun _ => zero_chunk) (fun a _ => a) n [true] = OK (Pair (Leaf zero_chunk) (Leaf zero_chunk)).
Proof. reflexivity. Qed.
