(* CodecProofs.v — properties C09 and C10 about the flat codec model Codec.v
   (codec/encoder.go, codec/decoder.go and a generic flat value composed from the helpers).

   Contents
     1. readable views of the nested fixpoints of [flat_enc] / [flat_len] / [flat_dec]
     2. arithmetic and list helpers
     3. the encoder: [flat_enc] = [spec_ser] (or Panic beyond 2^32)          (C09 a)
     4. the reported lengths: [flat_len] = length of [spec_ser]              (C09 b)
     5. the reader: reads, sub scopes, [stepped]
     6. round trip through the decoder, any prior destination state          (C09 c)
     7. the decoder never panics                                             (C10 d)
     8. an accepting decoder consumes exactly its scope; canonicity          (C10 e)
     9. Examples

   Spec vocabulary used in Props/C09.v and Props/C10.v: only definitions of the model files
   ([flat_enc], [flat_len], [flat_decode], [spec_ser], [has_type], [wf_ty], [small_params],
   [spec_is_fixed], [spec_fixed_len], [lenN], [ctree]). *)
From Coq Require Import PeanoNat ZArith ZifyN ZifyNat ZifyBool.
From Ztyp Require Import Base Bitlen Bitfields Merkleize Types Spec Reader Codec Repr SizeProofs.
From Ztyp Require BitfieldsProofs BitlenProofs.
Open Scope N_scope.

#[local] Ltac Zify.zify_post_hook ::= Z.div_mod_to_equations.

Local Arguments N.pow : simpl never.
Local Arguments N.shiftl : simpl never.
Local Arguments N.shiftr : simpl never.
Local Arguments N.land : simpl never.
Local Arguments N.lor : simpl never.
Local Arguments N.mul : simpl never.
Local Arguments N.add : simpl never.
Local Arguments N.sub : simpl never.
Local Arguments N.div : simpl never.
Local Arguments N.modulo : simpl never.
Local Arguments N.of_nat : simpl never.
Local Arguments N.to_nat : simpl never.
Local Arguments N.testbit : simpl never.

(* ------------------------------------------------------------------------------------ *)
(** * 1. Views of the nested fixpoints *)

Section EncViews.
  Variable enc : val -> res (list byte).
  Fixpoint enc_items (vs : list val) : res (list (list byte)) :=
    match vs with
    | [] => OK []
    | x :: r => do b <- enc x; do bs <- enc_items r; OK (b :: bs)
    end.
End EncViews.

Section EncFields.
  Variable enc : ty -> val -> res (list byte).
  Fixpoint enc_fields (fs : list ty) (vs : list val) : res (list (N * list byte)) :=
    match fs, vs with
    | f :: fs', x :: vs' =>
      do b <- enc f x; do r <- enc_fields fs' vs'; OK ((flat_fixed_len f, b) :: r)
    | _, _ => OK []
    end.
End EncFields.

Lemma flat_enc_vector e n vs :
  flat_enc (TVector e n) (VSeq vs) =
  do items <- enc_items (flat_enc e) vs;
  if is_byte_elem e || is_root_elem e then OK (concat items) else w_list (flat_fixed_len e) items.
Proof. reflexivity. Qed.

Lemma flat_enc_list e n vs :
  flat_enc (TList e n) (VSeq vs) =
  do items <- enc_items (flat_enc e) vs;
  if is_byte_elem e || is_root_elem e then OK (concat items) else w_list (flat_fixed_len e) items.
Proof. reflexivity. Qed.

Lemma flat_enc_cont fs vs :
  flat_enc (TContainer fs) (VCont vs) =
  do parts <- enc_fields flat_enc fs vs;
  if forallb spec_is_fixed fs then OK (concat (map snd parts)) else w_container parts.
Proof. reflexivity. Qed.

Lemma flat_enc_union none opts sel ov :
  flat_enc (TUnion none opts) (VUnion sel ov) =
  match ov with
  | None => if negb (sel =? 0) then Err else OK [byte_of_N sel]
  | Some x =>
    pick_ty Err (fun o => do b <- flat_enc o x; OK (byte_of_N sel :: b))
            opts (nat_of (if none then sel - 1 else sel))
  end.
Proof. destruct ov; reflexivity. Qed.

Section LenFields.
  Variable len : ty -> val -> N.
  Fixpoint len_fields (fs : list ty) (vs : list val) (acc : N) : N :=
    match fs, vs with
    | f :: fs', x :: vs' =>
      len_fields fs' vs' (add64 acc (if flat_fixed_len f =? 0 then add64 (len f x) 4
                                     else flat_fixed_len f))
    | _, _ => acc
    end.
End LenFields.

Lemma flat_len_cont fs vs :
  flat_len (TContainer fs) (VCont vs) = len_fields flat_len fs vs 0.
Proof. reflexivity. Qed.

Lemma flat_len_union none opts sel ov :
  flat_len (TUnion none opts) (VUnion sel ov) =
  match ov with
  | None => 1
  | Some x => pick_ty 1 (fun o => 1 + flat_len o x) opts (nat_of (if none then sel - 1 else sel))
  end.
Proof. destruct ov; reflexivity. Qed.

(* ------------------------------------------------------------------------------------ *)
(** * 2. Helpers *)

Lemma two32_lt_two64 : two32 < two64.
Proof. reflexivity. Qed.

Lemma wrap64_0 : wrap64 0 = 0.
Proof. reflexivity. Qed.

Lemma add64_small a b : a + b < two64 -> add64 a b = a + b.
Proof. intros H. unfold add64. apply wrap64_small, H. Qed.

Lemma mul64_small a b : a * b < two64 -> mul64 a b = a * b.
Proof. intros H. unfold mul64. apply wrap64_small, H. Qed.

Lemma fold_add64 {A} (g : A -> N) : forall l a,
  fold_left (fun acc x => add64 acc (g x)) l (wrap64 a) = wrap64 (a + sumN (map g l)).
Proof.
  induction l as [|x l IH]; intros a; cbn [fold_left map].
  - change (sumN []) with 0. rewrite N.add_0_r. reflexivity.
  - rewrite sumN_cons. unfold add64 at 2. rewrite wrap64_add_l, IH. f_equal. lia.
Qed.

Lemma fold_add64_0 {A} (g : A -> N) l : sumN (map g l) < two64 ->
  fold_left (fun acc x => add64 acc (g x)) l 0 = sumN (map g l).
Proof.
  intros H. rewrite <- wrap64_0 at 1. rewrite fold_add64, N.add_0_l. apply wrap64_small, H.
Qed.

(* a fixed-size well-formed type has a non-zero size: FixedLength() = 0 means variable-size *)
Lemma sumN_pos_of_Forall {A} (g : A -> N) : forall l, l <> [] ->
  Forall (fun x => 1 <= g x) l -> 1 <= sumN (map g l).
Proof.
  intros [|x l] Hne HF; [contradiction|]. cbn [map]. rewrite sumN_cons.
  pose proof (Forall_inv HF) as Hx. cbv beta in Hx. lia.
Qed.

Lemma wf_fixed_len_pos : forall t, wf_ty t = true -> spec_is_fixed t = true -> 1 <= spec_fixed_len t.
Proof.
  induction t as [w| |n| |n|n|e n IHe|e n IHe|fs IHfs|none opts IHopts] using ty_ind';
    intros Hwf Hfx; cbn [wf_ty spec_is_fixed spec_fixed_len] in *; try discriminate Hfx; try lia.
  - unfold uint_width_ok in Hwf. lia.
  - apply andb_true_iff in Hwf. destruct Hwf as [Hn Hwe]. apply N.leb_le in Hn.
    rewrite Hfx. specialize (IHe Hwe Hfx). nia.
  - apply andb_true_iff in Hwf. destruct Hwf as [Hne Hall]. rewrite Hfx.
    apply sumN_pos_of_Forall.
    + intros ->. discriminate Hne.
    + rewrite Forall_forall in *. rewrite forallb_forall in Hall, Hfx.
      intros f Hin. apply IHfs; auto.
Qed.

Lemma flat_fixed_len_zero t : wf_ty t = true ->
  (flat_fixed_len t =? 0) = negb (spec_is_fixed t).
Proof.
  intros Hwf. unfold flat_fixed_len. destruct (spec_is_fixed t) eqn:Hfx; [|reflexivity].
  pose proof (wf_fixed_len_pos t Hwf Hfx). apply N.eqb_neq. lia.
Qed.

Lemma is_byte_elem_eq e : is_byte_elem e = true -> e = TUint 1.
Proof. destruct e; cbn; try discriminate. intros H. apply N.eqb_eq in H. subst. reflexivity. Qed.

Lemma is_root_elem_eq e : is_root_elem e = true -> e = TRoot.
Proof. destruct e; cbn; try discriminate. reflexivity. Qed.

(* ------------------------------------------------------------------------------------ *)
(** * 3. The encoder *)

(* the parts of a series as the encoder sees them: (FixedLength(), bytes) *)
Definition to_part (p : N * list byte) : part := (negb (fst p =? 0), snd p).
Definition var_sum (ps : list (N * list byte)) : N :=
  sumN (map (fun p => if fst p =? 0 then lenN (snd p) else 0) ps).

Lemma w_offset_ok po psz : po + psz < two32 ->
  w_offset po psz = OK (po + psz, le_bytes 4 (po + psz)).
Proof.
  intros H. unfold w_offset.
  destruct (N.leb_spec two32 po); [lia|]. destruct (N.leb_spec two32 psz); [lia|].
  destruct (N.leb_spec two32 (po + psz)); [lia|]. reflexivity.
Qed.

Lemma w_offset_panic po psz : two32 <= po + psz -> w_offset po psz = Panic.
Proof.
  intros H. unfold w_offset.
  destruct (N.leb_spec two32 po); [reflexivity|]. destruct (N.leb_spec two32 psz); [reflexivity|].
  destruct (N.leb_spec two32 (po + psz)); [reflexivity|lia].
Qed.

Lemma w_cont_fixed_spec : forall ps po psz,
  w_cont_fixed ps po psz = OK (fst (ser_parts_go (map to_part ps) (po + psz))) \/
  (w_cont_fixed ps po psz = Panic /\ two32 <= po + psz + var_sum ps).
Proof.
  induction ps as [|[fl bs] ps IH]; intros po psz; [left; reflexivity|].
  cbn [w_cont_fixed map]. unfold to_part at 1. cbn [fst snd]. unfold var_sum. cbn [map fst snd].
  rewrite sumN_cons. fold (var_sum ps).
  destruct (fl =? 0) eqn:Efl; cbn [negb ser_parts_go].
  - destruct (N.lt_ge_cases (po + psz) two32) as [Hlt|Hge].
    + rewrite w_offset_ok by assumption. cbn [bind].
      destruct (IH (po + psz) (lenN bs)) as [E|[E Hp]].
      * left. rewrite E. cbn [bind].
        destruct (ser_parts_go (map to_part ps) (po + psz + lenN bs)) as [f v]. reflexivity.
      * right. rewrite E. split; [reflexivity|lia].
    + right. rewrite w_offset_panic by assumption. split; [reflexivity|lia].
  - destruct (IH po psz) as [E|[E Hp]].
    + left. rewrite E. cbn [bind].
      destruct (ser_parts_go (map to_part ps) (po + psz)) as [f v]. reflexivity.
    + right. rewrite E. split; [reflexivity|lia].
Qed.

Lemma ser_parts_go_var : forall ps off,
  snd (ser_parts_go (map to_part ps) off) = concat (map snd (filter (fun f => fst f =? 0) ps)).
Proof.
  induction ps as [|[fl bs] ps IH]; intros off; [reflexivity|].
  cbn [map filter fst]. unfold to_part at 1. cbn [fst snd].
  destruct (fl =? 0) eqn:Efl; cbn [negb ser_parts_go map concat snd].
  - specialize (IH (off + lenN bs)).
    destruct (ser_parts_go (map to_part ps) (off + lenN bs)) as [f v]. cbn [snd] in *.
    rewrite IH. reflexivity.
  - specialize (IH off). destruct (ser_parts_go (map to_part ps) off) as [f v]. exact IH.
Qed.

Lemma ser_parts_go_all_fixed : forall (items : list (list byte)) off,
  ser_parts_go (map (fun b => (true, b)) items) off = (concat items, []).
Proof.
  induction items as [|b items IH]; intros off; [reflexivity|].
  cbn [map ser_parts_go]. rewrite IH. reflexivity.
Qed.

Lemma ser_parts_all_fixed items : ser_parts (map (fun b => (true, b)) items) = concat items.
Proof. unfold ser_parts. rewrite ser_parts_go_all_fixed. apply app_nil_r. Qed.

Lemma w_offsets_as_cont : forall items po psz,
  w_offsets (map lenN items) po psz = w_cont_fixed (map (fun b : list byte => (0, b)) items) po psz.
Proof.
  induction items as [|b items IH]; intros po psz; [reflexivity|].
  cbn [map w_offsets w_cont_fixed]. change (negb (0 =? 0)) with false. cbv iota.
  destruct (w_offset po psz) as [[off obs]| |]; cbn [bind]; try reflexivity.
  rewrite IH. reflexivity.
Qed.

Lemma part_len_le_total (ps : list part) : sumN (map part_fixed_size ps) <= sumN (map part_len ps).
Proof.
  apply sumN_map_le. apply Forall_forall. intros [fx bs] _.
  unfold part_fixed_size, part_len. cbn [fst snd]. destruct fx; lia.
Qed.

Lemma var_sum_total ps :
  sumN (map part_fixed_size (map to_part ps)) + var_sum ps = sumN (map part_len (map to_part ps)).
Proof.
  induction ps as [|[fl bs] ps IH]; [reflexivity|].
  unfold var_sum in *. cbn [map]. rewrite !sumN_cons.
  unfold to_part at 1 3, part_fixed_size at 1, part_len at 1. cbn [fst snd].
  destruct (fl =? 0); cbn [negb]; lia.
Qed.

(* the (FixedLength, encoding) pairs of a series of items / of the fields of a container *)
Fixpoint enc_parts (fs : list ty) (vs : list val) : list (N * list byte) :=
  match fs, vs with
  | f :: fs', x :: vs' => (flat_fixed_len f, spec_ser f x) :: enc_parts fs' vs'
  | _, _ => []
  end.

Lemma enc_parts_spec : forall fs vs,
  forallb wf_ty fs = true -> has_type_fields fs vs = true ->
  map to_part (enc_parts fs vs) = ser_fields fs vs /\
  Forall (fun p => fst p = 0 \/ fst p = lenN (snd p)) (enc_parts fs vs).
Proof.
  induction fs as [|f fs IH]; intros [|x vs] Hwf Hty; cbn [has_type_fields] in Hty;
    try discriminate Hty; [split; [reflexivity|constructor]|].
  cbn [forallb] in Hwf. apply andb_true_iff in Hwf. destruct Hwf as [Hwf1 Hwf2].
  apply andb_true_iff in Hty. destruct Hty as [Hty1 Hty2].
  destruct (IH vs Hwf2 Hty2) as [E HF]. cbn [enc_parts map ser_fields]. split.
  - rewrite E. unfold to_part. cbn [fst snd]. rewrite flat_fixed_len_zero, negb_involutive by assumption.
    reflexivity.
  - constructor; [|exact HF]. cbn [fst snd]. unfold flat_fixed_len.
    destruct (spec_is_fixed f) eqn:Hfx; [right|left; reflexivity].
    symmetry. apply spec_ser_fixed_len; assumption.
Qed.

Lemma fixed_len_fold ps :
  Forall (fun p => fst p = 0 \/ fst p = lenN (snd p)) ps ->
  sumN (map (fun f : N * list byte => if fst f =? 0 then 4 else fst f) ps) =
  sumN (map part_fixed_size (map to_part ps)).
Proof.
  intros HF. rewrite map_map. apply sumN_map_ext. revert HF. apply Forall_impl.
  intros [fl bs] H. unfold to_part, part_fixed_size. cbn [fst snd] in *.
  destruct (N.eqb_spec fl 0) as [E|E]; cbn [negb]; [reflexivity|]. destruct H; [contradiction|assumption].
Qed.

Lemma w_container_spec ps :
  Forall (fun p => fst p = 0 \/ fst p = lenN (snd p)) ps ->
  lenN (ser_parts (map to_part ps)) < two64 ->
  w_container ps = OK (ser_parts (map to_part ps)) \/
  (w_container ps = Panic /\ two32 <= lenN (ser_parts (map to_part ps))).
Proof.
  intros HF HL. rewrite ser_parts_lenN in *. unfold w_container, ser_parts.
  pose proof (part_len_le_total (map to_part ps)) as Hle.
  rewrite fold_add64_0 by (rewrite fixed_len_fold by assumption; lia).
  rewrite fixed_len_fold by assumption.
  set (FL := sumN (map part_fixed_size (map to_part ps))) in *.
  pose proof (w_cont_fixed_spec ps FL 0) as Hw. rewrite N.add_0_r in Hw.
  pose proof (ser_parts_go_var ps FL) as Hv.
  destruct Hw as [E|[E Hp]].
  - left. rewrite E. cbn [bind]. destruct (ser_parts_go (map to_part ps) FL) as [f v].
    cbn [fst snd] in *. rewrite Hv. reflexivity.
  - right. rewrite E. split; [reflexivity|]. pose proof (var_sum_total ps). fold FL in H. lia.
Qed.

Lemma w_list_var_spec (items : list (list byte)) :
  lenN (ser_parts (map (fun b => (false, b)) items)) < two64 ->
  w_list 0 items = OK (ser_parts (map (fun b => (false, b)) items)) \/
  (w_list 0 items = Panic /\ two32 <= lenN (ser_parts (map (fun b => (false, b)) items))).
Proof.
  intros HL.
  assert (Emap : map (fun b : list byte => (false, b)) items =
                 map to_part (map (fun b : list byte => (0, b)) items)).
  { rewrite map_map. reflexivity. }
  rewrite Emap in *. set (ps := map (fun b : list byte => (0, b)) items) in *.
  rewrite ser_parts_lenN in *. unfold w_list. change (0 =? 0) with true. cbv iota.
  rewrite w_offsets_as_cont. fold ps.
  assert (EFL : sumN (map part_fixed_size (map to_part ps)) = 4 * lenN items).
  { unfold ps. rewrite !map_map. cbn [to_part fst snd]. unfold part_fixed_size. cbn [fst].
    rewrite (sumN_map_const _ 4); [lia|]. apply Forall_forall. intros; reflexivity. }
  pose proof (part_len_le_total (map to_part ps)) as Hle.
  rewrite mul64_small by lia. unfold ser_parts. rewrite EFL.
  pose proof (w_cont_fixed_spec ps (4 * lenN items) 0) as Hw. rewrite N.add_0_r in Hw.
  pose proof (ser_parts_go_var ps (4 * lenN items)) as Hv.
  assert (Ecat : concat (map snd (filter (fun f : N * list byte => fst f =? 0) ps)) = concat items).
  { unfold ps. clear. induction items as [|b items IH]; [reflexivity|].
    cbn [map filter fst]. change (0 =? 0) with true. cbv iota. cbn [map snd concat]. rewrite IH.
    reflexivity. }
  destruct Hw as [E|[E Hp]].
  - left. rewrite E. cbn [bind]. destruct (ser_parts_go (map to_part ps) (4 * lenN items)) as [f v].
    cbn [fst snd] in *. rewrite Hv, Ecat. reflexivity.
  - right. rewrite E. split; [reflexivity|]. pose proof (var_sum_total ps). lia.
Qed.

(* the statement proved by induction on the type *)
Definition enc_res_ok (r : res (list byte)) (bs : list byte) : Prop :=
  r = OK bs \/ (r = Panic /\ two32 <= lenN bs).

Definition enc_ok (t : ty) : Prop :=
  forall v, has_type v t = true -> lenN (spec_ser t v) < two64 ->
  enc_res_ok (flat_enc t v) (spec_ser t v).

Lemma enc_items_spec (enc : val -> res (list byte)) (g : val -> list byte) : forall vs,
  (forall x, In x vs -> enc_res_ok (enc x) (g x)) ->
  enc_items enc vs = OK (map g vs) \/
  (enc_items enc vs = Panic /\ exists x, In x vs /\ two32 <= lenN (g x)).
Proof.
  induction vs as [|x vs IH]; intros H; [left; reflexivity|].
  cbn [enc_items map].
  destruct (H x (or_introl eq_refl)) as [E|[E Hp]].
  - rewrite E. cbn [bind].
    destruct IH as [E2|[E2 (y & Hin & Hy)]]; [intros y Hy; apply H; right; exact Hy| |].
    + left. rewrite E2. reflexivity.
    + right. rewrite E2. split; [reflexivity|]. exists y. split; [right; exact Hin|exact Hy].
  - right. rewrite E. split; [reflexivity|]. exists x. split; [left; reflexivity|exact Hp].
Qed.

Lemma enc_fields_spec : forall fs, Forall enc_ok fs -> forall vs,
  has_type_fields fs vs = true ->
  sumN (map part_len (ser_fields fs vs)) < two64 ->
  enc_fields flat_enc fs vs = OK (enc_parts fs vs) \/
  (enc_fields flat_enc fs vs = Panic /\ two32 <= sumN (map part_len (ser_fields fs vs))).
Proof.
  induction fs as [|f fs IH]; intros HF [|x vs] Hty HL; cbn [has_type_fields] in Hty;
    try discriminate Hty; [left; reflexivity|].
  pose proof (Forall_inv HF) as Hf; pose proof (Forall_inv_tail HF) as Hr.
  apply andb_true_iff in Hty. destruct Hty as [Hty1 Hty2].
  cbn [ser_fields map] in *. rewrite sumN_cons in *.
  assert (Hx : lenN (spec_ser f x) <= part_len (spec_is_fixed f, spec_ser f x)).
  { unfold part_len. cbn [fst snd]. destruct (spec_is_fixed f); lia. }
  cbn [enc_fields enc_parts].
  destruct (Hf x Hty1) as [E|[E Hp]]; [lia| |].
  - rewrite E. cbn [bind].
    destruct (IH Hr vs Hty2) as [E2|[E2 Hp2]]; [lia| |].
    + left. rewrite E2. reflexivity.
    + right. rewrite E2. split; [reflexivity|lia].
  - right. rewrite E. split; [reflexivity|lia].
Qed.

Lemma has_type_union_none none opts sel :
  has_type (VUnion sel None) (TUnion none opts) = true -> none = true /\ sel = 0.
Proof.
  rewrite has_type_union. destruct (none && (sel =? 0)) eqn:E.
  - intros _. apply andb_true_iff in E. destruct E as [-> E]. apply N.eqb_eq in E. auto.
  - rewrite pick_ty_nth_error. destruct (nth_error _ _); discriminate.
Qed.

Lemma has_type_union_some none opts sel x :
  has_type (VUnion sel (Some x)) (TUnion none opts) = true ->
  none && (sel =? 0) = false /\
  exists o, nth_error opts (nat_of (if none then sel - 1 else sel)) = Some o /\ has_type x o = true.
Proof.
  rewrite has_type_union. destruct (none && (sel =? 0)) eqn:E; [discriminate|].
  rewrite pick_ty_nth_error. destruct (nth_error _ _) as [o|]; [|discriminate].
  intros H. split; [reflexivity|]. exists o. auto.
Qed.

Lemma seq_has_type_In e vs x :
  forallb (fun x => has_type x e) vs = true -> In x vs -> has_type x e = true.
Proof. intros H Hin. rewrite forallb_forall in H. apply H, Hin. Qed.

Lemma last_pack_bitlist_nonzero bits :
  N_of_byte (last (bits_to_bytes (bits ++ [true])) b0) <> 0 /\ bits_to_bytes (bits ++ [true]) <> [].
Proof.
  destruct (BitfieldsProofs.pack_bitlist_struct bits) as (A & r & q & E & HA & Hr & Hq & Ep).
  unfold BitfieldsProofs.pack_bitlist in Ep. rewrite Ep. split.
  - rewrite last_last, BitfieldsProofs.N_of_byte_of_N by (apply BitfieldsProofs.delim_lt256, Hr).
    apply BitfieldsProofs.delim_nonzero.
  - intros C; symmetry in C; revert C; apply app_cons_not_nil.
Qed.

Lemma enc_series e vs (fx := spec_is_fixed e) :
  wf_ty e = true -> enc_ok e ->
  forallb (fun x => has_type x e) vs = true ->
  lenN (ser_parts (map (fun x => (fx, spec_ser e x)) vs)) < two64 ->
  enc_res_ok
    (do items <- enc_items (flat_enc e) vs;
     if is_byte_elem e || is_root_elem e then OK (concat items) else w_list (flat_fixed_len e) items)
    (ser_parts (map (fun x => (fx, spec_ser e x)) vs)).
Proof.
  intros Hwf IHe Hall HL. unfold enc_res_ok.
  assert (Emap : map (fun x => (fx, spec_ser e x)) vs =
                 map (fun b => (fx, b)) (map (spec_ser e) vs)) by (rewrite map_map; reflexivity).
  assert (Hel : forall x, In x vs -> lenN (spec_ser e x) <=
                lenN (ser_parts (map (fun x => (fx, spec_ser e x)) vs))).
  { intros x Hin. rewrite ser_series_lenN.
    pose proof (sumN_map_In_le (fun x => if fx then lenN (spec_ser e x) else 4 + lenN (spec_ser e x))
                               vs x Hin) as H. cbv beta in H. destruct fx; lia. }
  destruct (enc_items_spec (flat_enc e) (spec_ser e) vs) as [E|[E (x & Hin & Hp)]].
  { intros x Hin. apply IHe; [eapply seq_has_type_In; eassumption|]. specialize (Hel x Hin). lia. }
  2:{ right. rewrite E. split; [reflexivity|]. specialize (Hel x Hin). lia. }
  rewrite E. cbn [bind]. rewrite Emap in *.
  destruct (is_byte_elem e || is_root_elem e) eqn:Ebr.
  - left. assert (fx = true) as ->.
    { apply orb_true_iff in Ebr. destruct Ebr as [H|H];
        [apply is_byte_elem_eq in H|apply is_root_elem_eq in H]; subst e; reflexivity. }
    rewrite ser_parts_all_fixed. reflexivity.
  - pose proof (flat_fixed_len_zero e Hwf) as Hz. fold fx in Hz.
    destruct fx eqn:Efx; cbn [negb] in Hz.
    + left. unfold w_list. rewrite Hz. rewrite ser_parts_all_fixed. reflexivity.
    + apply N.eqb_eq in Hz. rewrite Hz. apply w_list_var_spec. exact HL.
Qed.

Lemma flat_enc_ok : forall t, wf_ty t = true -> enc_ok t.
Proof.
  induction t as [w| |n| |n|n|e n IHe|e n IHe|fs IHfs|none opts IHopts] using ty_ind';
    intros Hwf v Hty HL; destruct v; cbn [has_type] in Hty; try discriminate Hty.
  - left. reflexivity.
  - left. reflexivity.
  - left. reflexivity.
  - left. reflexivity.
  - (* Bitvector *) left. cbn [flat_enc spec_ser]. cbn [wf_ty] in Hwf.
    apply N.eqb_eq in Hty. apply N.leb_le in Hwf.
    rewrite bits_to_bytes_lenN. fold (lenN bs) in Hty.
    destruct (N.eqb_spec ((lenN bs + 7) / 8) 0) as [E|E]; [exfalso; lia|reflexivity].
  - (* Bitlist *) left. cbn [flat_enc spec_ser] in *. unfold ser_bitlist in *.
    rewrite bits_to_bytes_lenN, lenN_app in HL. change (lenN [true]) with 1 in HL.
    destruct (last_pack_bitlist_nonzero bs) as [Hv Hne].
    destruct (N.eqb_spec (lenN (bits_to_bytes (bs ++ [true]))) 0) as [E|E].
    { exfalso. apply Hne. destruct (bits_to_bytes (bs ++ [true])); [reflexivity|discriminate E]. }
    destruct (N.eqb_spec (N_of_byte (last (bits_to_bytes (bs ++ [true])) b0)) 0) as [E2|E2];
      [contradiction|reflexivity].
  - (* Vector *) cbn [wf_ty] in Hwf. apply andb_true_iff in Hwf. destruct Hwf as [_ Hwe].
    apply andb_true_iff in Hty. destruct Hty as [_ Hall].
    rewrite flat_enc_vector. cbn [spec_ser] in *. apply enc_series; auto.
  - (* List *) cbn [wf_ty] in Hwf.
    apply andb_true_iff in Hty. destruct Hty as [_ Hall].
    rewrite flat_enc_list. cbn [spec_ser] in *. apply enc_series; auto.
  - (* Container *) cbn [wf_ty] in Hwf. apply andb_true_iff in Hwf. destruct Hwf as [_ Hwfs].
    change (has_type_fields fs vs = true) in Hty.
    rewrite flat_enc_cont. rewrite spec_ser_cont in *. unfold enc_res_ok.
    assert (IH' : Forall enc_ok fs).
    { rewrite Forall_forall in *. rewrite forallb_forall in Hwfs. intros f Hin. apply IHfs; auto. }
    destruct (enc_parts_spec fs vs Hwfs Hty) as [Eparts HF].
    pose proof HL as HL'. rewrite ser_parts_lenN in HL'.
    destruct (enc_fields_spec fs IH' vs Hty HL') as [E|[E Hp]].
    2:{ right. rewrite E. split; [reflexivity|]. rewrite ser_parts_lenN. exact Hp. }
    rewrite E. cbn [bind]. rewrite <- Eparts in *.
    destruct (forallb spec_is_fixed fs) eqn:Hfx.
    + left. f_equal.
      assert (Eall : map to_part (enc_parts fs vs) = map (fun b => (true, b)) (map snd (enc_parts fs vs))).
      { rewrite Eparts. clear -Hfx Hty. revert vs Hty.
        induction fs as [|f fs IH]; intros [|x vs] Hty; cbn [has_type_fields] in Hty;
          try discriminate Hty; [reflexivity|].
        cbn [forallb] in Hfx. apply andb_true_iff in Hfx. destruct Hfx as [Hf1 Hf2].
        apply andb_true_iff in Hty. destruct Hty as [_ Hty2].
        cbn [ser_fields enc_parts map snd]. rewrite Hf1, (IH Hf2 vs Hty2). reflexivity. }
      rewrite Eall, ser_parts_all_fixed. reflexivity.
    + apply w_container_spec; assumption.
  - (* Union *) cbn [wf_ty] in Hwf. apply andb_true_iff in Hwf. destruct Hwf as [_ Hwfs].
    change (has_type (VUnion sel v) (TUnion none opts) = true) in Hty.
    rewrite flat_enc_union. rewrite spec_ser_union in *. unfold enc_res_ok.
    destruct v as [x|].
    + apply has_type_union_some in Hty. destruct Hty as (_ & o & Hnth & Htyx).
      rewrite !pick_ty_nth_error in *. rewrite Hnth in *.
      assert (Hin : In o opts) by (eapply nth_error_In; eassumption).
      rewrite Forall_forall in IHopts. rewrite forallb_forall in Hwfs.
      rewrite lenN_cons in HL.
      destruct (IHopts o Hin (Hwfs o Hin) x Htyx) as [E|[E Hp]]; [lia| |].
      * left. rewrite E. reflexivity.
      * right. rewrite E. split; [reflexivity|]. rewrite lenN_cons. lia.
    + apply has_type_union_none in Hty. destruct Hty as [-> ->]. left. reflexivity.
Qed.

Lemma C09_encode_spec_lemma t v :
  wf_ty t = true -> has_type v t = true -> lenN (spec_ser t v) < 2 ^ 32 ->
  flat_enc t v = OK (spec_ser t v).
Proof.
  intros Hwf Hty HL. change (2 ^ 32) with two32 in HL.
  destruct (flat_enc_ok t Hwf v Hty) as [E|[_ Hp]]; [pose proof two32_lt_two64; lia|exact E|lia].
Qed.

Lemma C09_encode_total_lemma t v :
  wf_ty t = true -> has_type v t = true -> lenN (spec_ser t v) < 2 ^ 64 ->
  flat_enc t v = OK (spec_ser t v) \/ (flat_enc t v = Panic /\ 2 ^ 32 <= lenN (spec_ser t v)).
Proof.
  intros Hwf Hty HL. change (2 ^ 64) with two64 in HL. exact (flat_enc_ok t Hwf v Hty HL).
Qed.

(* ------------------------------------------------------------------------------------ *)
(** * 4. The reported byte lengths *)

Definition len_ok (t : ty) : Prop :=
  forall v, has_type v t = true -> lenN (spec_ser t v) < two64 ->
  flat_len t v = lenN (spec_ser t v).

Lemma len_fields_spec : forall fs, Forall len_ok fs -> forallb wf_ty fs = true ->
  forall vs acc, has_type_fields fs vs = true ->
  acc + sumN (map part_len (ser_fields fs vs)) < two64 ->
  len_fields flat_len fs vs acc = acc + sumN (map part_len (ser_fields fs vs)).
Proof.
  induction fs as [|f fs IH]; intros HF Hwf [|x vs] acc Hty HL; cbn [has_type_fields] in Hty;
    try discriminate Hty; [cbn; lia|].
  pose proof (Forall_inv HF) as Hf; pose proof (Forall_inv_tail HF) as Hr.
  cbn [forallb] in Hwf. apply andb_true_iff in Hwf. destruct Hwf as [Hwf1 Hwf2].
  apply andb_true_iff in Hty. destruct Hty as [Hty1 Hty2].
  cbn [ser_fields map len_fields] in *. rewrite sumN_cons in *.
  unfold part_len at 1 in HL. unfold part_len at 1. cbn [fst snd] in *.
  rewrite flat_fixed_len_zero by assumption. unfold flat_fixed_len.
  destruct (spec_is_fixed f) eqn:Hfx; cbn [negb].
  - rewrite <- (spec_ser_fixed_len f x Hfx Hty1).
    rewrite add64_small by lia. rewrite IH by (auto; lia). lia.
  - rewrite (Hf x Hty1) by lia. rewrite (add64_small (lenN _) 4) by lia.
    rewrite add64_small by lia. rewrite IH by (auto; lia). lia.
Qed.

Lemma flat_len_ok : forall t, wf_ty t = true -> len_ok t.
Proof.
  assert (Hseries : forall e vs, wf_ty e = true -> len_ok e ->
            forallb (fun x => has_type x e) vs = true ->
            lenN (ser_parts (map (fun x => (spec_is_fixed e, spec_ser e x)) vs)) < two64 ->
            (if spec_is_fixed e then mul64 (lenN vs) (spec_fixed_len e)
             else fold_left (fun a x => add64 a (add64 4 (flat_len e x))) vs 0) =
            lenN (ser_parts (map (fun x => (spec_is_fixed e, spec_ser e x)) vs))).
  { intros e vs Hwe IHe Hall HL. rewrite ser_series_lenN in *.
    destruct (spec_is_fixed e) eqn:Hfx.
    - rewrite (sumN_map_const _ (spec_fixed_len e)) in *;
        try (revert Hall; apply forallb_Forall_in; intros x Hx; apply spec_ser_fixed_len; assumption).
      apply mul64_small. exact HL.
    - assert (HF : Forall (fun x => add64 4 (flat_len e x) = 4 + lenN (spec_ser e x)) vs).
      { apply Forall_forall. intros x Hin.
        pose proof (sumN_map_In_le (fun x => 4 + lenN (spec_ser e x)) vs x Hin) as Hle. cbv beta in Hle.
        rewrite IHe by (try (eapply seq_has_type_In; eassumption); lia).
        apply add64_small. lia. }
      rewrite (fold_add64_0 (fun x => add64 4 (flat_len e x)));
        rewrite (sumN_map_ext _ _ vs HF); [reflexivity|exact HL]. }
  induction t as [w| |n| |n|n|e n IHe|e n IHe|fs IHfs|none opts IHopts] using ty_ind';
    intros Hwf v Hty HL; destruct v; cbn [has_type] in Hty; try discriminate Hty.
  - cbn [flat_len spec_ser]. symmetry. apply lenN_le_bytes.
  - reflexivity.
  - apply N.eqb_eq in Hty. cbn [flat_len spec_ser]. symmetry. exact Hty.
  - apply N.eqb_eq in Hty. cbn [flat_len spec_ser]. symmetry. exact Hty.
  - apply N.eqb_eq in Hty. cbn [flat_len spec_ser]. rewrite bits_to_bytes_lenN. unfold lenN.
    rewrite Hty. reflexivity.
  - cbn [flat_len spec_ser]. rewrite ser_bitlist_lenN. reflexivity.
  - cbn [wf_ty] in Hwf. apply andb_true_iff in Hwf. destruct Hwf as [_ Hwe].
    apply andb_true_iff in Hty. destruct Hty as [_ Hall].
    cbn [flat_len spec_ser] in *. apply Hseries; auto.
  - cbn [wf_ty] in Hwf.
    apply andb_true_iff in Hty. destruct Hty as [_ Hall].
    cbn [flat_len spec_ser] in *. apply Hseries; auto.
  - cbn [wf_ty] in Hwf. apply andb_true_iff in Hwf. destruct Hwf as [_ Hwfs].
    change (has_type_fields fs vs = true) in Hty.
    rewrite flat_len_cont. rewrite spec_ser_cont in *. rewrite ser_parts_lenN in *.
    assert (IH' : Forall len_ok fs).
    { rewrite Forall_forall in *. rewrite forallb_forall in Hwfs. intros f Hin. apply IHfs; auto. }
    rewrite len_fields_spec by (auto; lia). lia.
  - cbn [wf_ty] in Hwf. apply andb_true_iff in Hwf. destruct Hwf as [_ Hwfs].
    change (has_type (VUnion sel v) (TUnion none opts) = true) in Hty.
    rewrite flat_len_union. rewrite spec_ser_union in *.
    destruct v as [x|].
    + apply has_type_union_some in Hty. destruct Hty as (_ & o & Hnth & Htyx).
      rewrite !pick_ty_nth_error in *. rewrite Hnth in *.
      assert (Hin : In o opts) by (eapply nth_error_In; eassumption).
      rewrite Forall_forall in IHopts. rewrite forallb_forall in Hwfs.
      rewrite lenN_cons in *.
      rewrite (IHopts o Hin (Hwfs o Hin) x Htyx) by lia. reflexivity.
    + reflexivity.
Qed.

Lemma C09_length_lemma t v :
  wf_ty t = true -> has_type v t = true -> lenN (spec_ser t v) < 2 ^ 64 ->
  flat_len t v = lenN (spec_ser t v).
Proof. intros Hwf Hty HL. exact (flat_len_ok t Hwf v Hty HL). Qed.

(* ------------------------------------------------------------------------------------ *)
(** * 1'. Views of the nested fixpoints of [flat_dec] *)

Fixpoint dec_roots (k : nat) (st : rstate) (d : dreader) : res (val * ctree * rstate * dreader) :=
  match k with
  | O => OK (VSeq [], CFresh, st, d)
  | S k' =>
    do r <- dr_read st d 32; let '(bs, st1, d1) := r in
    do more <- dec_roots k' st1 d1;
    match more with
    | (VSeq vs, c', st2, d2) => OK (VSeq (VBytes bs :: vs), c', st2, d2)
    | _ => Err
    end
  end.

Section DecFields.
  Variable dec : ty -> fdecoder.
  Variable c : ctree.
  Fixpoint dec_fixed_fields (fs : list ty) (i : nat) (st : rstate) (d : dreader)
    : res (list val * list ctree * rstate * dreader) :=
    match fs with
    | [] => OK ([], [], st, d)
    | f :: fs' =>
      do r <- dec f (ct_child c i) st d; let '(v, c1, st1, d1) := r in
      do more <- dec_fixed_fields fs' (S i) st1 d1; let '(vs, cs, st2, d2) := more in
      OK (v :: vs, c1 :: cs, st2, d2)
    end.
End DecFields.

Definition dec_union_opt (sel : N) (st1 : rstate) (d1 : dreader) (o : ty)
  : res (val * ctree * rstate * dreader) :=
  if negb (flat_fixed_len o =? 0) && negb (flat_fixed_len o =? dr_scope d1) then Err else
  do r <- flat_dec o CFresh st1 d1; let '(v, _, st2, d2) := r in
  OK (VUnion sel (Some v), CFresh, st2, d2).

Lemma flat_dec_vector e n c st d :
  flat_dec (TVector e n) c st d =
  if is_byte_elem e then
    do r <- d_bytes c n st d; let '(bs, c', st1, d1) := r in
    OK (VSeq (map (fun b => VUint (N_of_byte b)) bs), c', st1, d1)
  else
    let fsz := flat_fixed_len e in
    if negb (fsz =? 0) then
      do r <- d_vector_fixed (flat_dec e) c O (nat_of n) fsz st d; let '(vs, cs, st1) := r in
      OK (VSeq vs, CNodes cs, st1, d)
    else
      let scope := dr_scope d in
      do r <- d_read_offsets (nat_of n) st d; let '(offs, st1, d1) := r in
      if negb (hd (mul64 4 n) offs =? mul64 4 n) then Err else
      do r2 <- d_var_items (fun _ => flat_dec e) c O offs scope 0 true st1 d1;
      let '(vs, cs, st2) := r2 in
      OK (VSeq vs, CNodes cs, st2, d1).
Proof. reflexivity. Qed.

Lemma flat_dec_list e n c st d :
  flat_dec (TList e n) c st d =
  let scope := dr_scope d in
  if is_byte_elem e then
    if n <? scope then Err else
    do r <- d_bytes c scope st d; let '(bs, c', st1, d1) := r in
    OK (VSeq (map (fun b => VUint (N_of_byte b)) bs), c', st1, d1)
  else if is_root_elem e then
    if negb (scope mod 32 =? 0) then Err else
    let len := scope / 32 in
    if n <? len then Err else dec_roots (nat_of len) st d
  else if scope =? 0 then OK (VSeq [], CFresh, st, d)
  else
    let fsz := flat_fixed_len e in
    if negb (fsz =? 0) then
      if negb (scope mod fsz =? 0) then Err else
      let len := scope / fsz in
      if n <? len then Err else
      do r <- d_vector_fixed (flat_dec e) CFresh O (nat_of len) fsz st d; let '(vs, _, st1) := r in
      OK (VSeq vs, CFresh, st1, d)
    else
      do r <- dr_read_u32 st d; let '(first, st1, d1) := r in
      if negb (first mod 4 =? 0) then Err else
      let len := first / 4 in
      if n <? len then Err else
      if (first =? 0) || (scope <? first) then Err else
      do r2 <- d_read_offsets (nat_of (len - 1)) st1 d1; let '(offs, st2, d2) := r2 in
      do r3 <- d_var_items (fun _ => flat_dec e) CFresh O (first :: offs) scope 0 false st2 d2;
      let '(vs, _, st3) := r3 in
      OK (VSeq vs, CFresh, st3, d2).
Proof. reflexivity. Qed.

Lemma flat_dec_cont fs c st d :
  flat_dec (TContainer fs) c st d =
  if forallb spec_is_fixed fs then
    do x <- dec_fixed_fields flat_dec c fs O st d;
    let '(vs, cs, st1, d1) := x in OK (VCont vs, CNodes cs, st1, d1)
  else
    let scope := dr_scope d in
    let decs := map (fun f => (flat_fixed_len f, flat_dec f)) fs in
    do r <- d_cont_fixed decs c O 0 st d; let '(dfs, prev, st1, d1) := r in
    match first_var_off dfs with
    | None => Err
    | Some o0 =>
      if negb (prev =? o0) then Err else
      do r2 <- d_cont_var (combine dfs (map flat_dec fs)) c O scope st1 d1;
      let '(vs, cs, st2) := r2 in
      OK (VCont vs, CNodes cs, st2, d1)
    end.
Proof. reflexivity. Qed.

Lemma flat_dec_union none opts c st d :
  flat_dec (TUnion none opts) c st d =
  do r <- dr_read_byte st d; let '(sel, st1, d1) := r in
  if none && (sel =? 0) then
    if negb (dr_scope d1 =? 0) then Err else OK (VUnion 0 None, CFresh, st1, d1)
  else pick_ty Err (dec_union_opt sel st1 d1) opts (nat_of (if none then sel - 1 else sel)).
Proof. reflexivity. Qed.

(* ------------------------------------------------------------------------------------ *)
(** * 7. The decoder never panics *)

Definition np {A} (r : res A) : Prop := r <> Panic.
Definition dec_np (dec : fdecoder) : Prop := forall c st d, np (dec c st d).

Lemma np_bind {A B} (r : res A) (f : A -> res B) :
  np r -> (forall a, np (f a)) -> np (bind r f).
Proof. unfold np. intros Hr Hf. destruct r as [a| |]; cbn [bind]; [apply Hf|discriminate|exfalso; apply Hr; reflexivity]. Qed.

Lemma np_OK {A} (a : A) : np (OK a). Proof. discriminate. Qed.
Lemma np_Err {A} : np (@Err A). Proof. discriminate. Qed.

Lemma dr_read_np st d k : np (dr_read st d k).
Proof.
  unfold dr_read. destruct (k =? 0); [apply np_OK|]. destruct (_ <? _); [apply np_Err|].
  destruct (_ <? _); [apply np_Err|]. destruct (_ <? _); [apply np_Err|apply np_OK].
Qed.

Lemma dr_read_byte_np st d : np (dr_read_byte st d).
Proof. unfold dr_read_byte. apply np_bind; [apply dr_read_np|]. intros [[bs st'] d']. apply np_OK. Qed.

Lemma dr_read_u32_np st d : np (dr_read_u32 st d).
Proof. unfold dr_read_u32. apply np_bind; [apply dr_read_np|]. intros [[bs st'] d']. apply np_OK. Qed.

Lemma dr_sub_scope_np st d k : np (dr_sub_scope st d k).
Proof. unfold dr_sub_scope. destruct (_ <? _); [apply np_Err|apply np_OK]. Qed.

Lemma d_bytes_np c n st d : np (d_bytes c n st d).
Proof. unfold d_bytes. apply np_bind; [apply dr_read_np|]. intros [[bs st'] d']. apply np_OK. Qed.

Lemma in_sub_scope_np dec c size st d : dec_np dec -> np (in_sub_scope dec c size st d).
Proof.
  intros H. unfold in_sub_scope. apply np_bind; [apply dr_sub_scope_np|]. intros [st1 sd].
  apply np_bind; [apply H|]. intros [[[v c'] st2] d2]. apply np_OK.
Qed.

Lemma d_vector_fixed_np dec cs : dec_np dec -> forall count i size st d,
  np (d_vector_fixed dec cs i count size st d).
Proof.
  intros H. induction count as [|k IH]; intros i size st d; cbn [d_vector_fixed]; [apply np_OK|].
  apply np_bind; [apply in_sub_scope_np, H|]. intros [[v c] st1].
  apply np_bind; [apply IH|]. intros [[vs cs'] st2]. apply np_OK.
Qed.

Lemma d_read_offsets_np : forall count st d, np (d_read_offsets count st d).
Proof.
  induction count as [|k IH]; intros st d; cbn [d_read_offsets]; [apply np_OK|].
  apply np_bind; [apply dr_read_u32_np|]. intros [[off st1] d1].
  apply np_bind; [apply IH|]. intros [[offs st2] d2]. apply np_OK.
Qed.

Lemma d_var_items_np dec cs scope vstyle : (forall i, dec_np (dec i)) ->
  forall offs i prev st d, np (d_var_items dec cs i offs scope prev vstyle st d).
Proof.
  intros H. induction offs as [|off rest IH]; intros i prev st d; cbn [d_var_items]; [apply np_OK|].
  destruct (off <? prev); [apply np_Err|].
  apply np_bind; [apply in_sub_scope_np, H|]. intros [[v c] st1].
  apply np_bind; [apply IH|]. intros [[vs cs'] st2]. apply np_OK.
Qed.

Lemma d_cont_fixed_np cs : forall fs, Forall (fun p => dec_np (snd p)) fs ->
  forall i prev st d, np (d_cont_fixed fs cs i prev st d).
Proof.
  induction fs as [|[fl dec] fs IH]; intros HF i prev st d; cbn [d_cont_fixed]; [apply np_OK|].
  pose proof (Forall_inv HF) as Hf; pose proof (Forall_inv_tail HF) as Hr. cbn [snd] in Hf.
  destruct (negb (fl =? 0)).
  - apply np_bind; [apply in_sub_scope_np, Hf|]. intros [[v c] st1].
    apply np_bind; [apply IH, Hr|]. intros [[[dfs p] st2] d2]. apply np_OK.
  - apply np_bind; [apply dr_read_u32_np|]. intros [[off st1] d1].
    apply np_bind; [apply IH, Hr|]. intros [[[dfs p] st2] d2]. apply np_OK.
Qed.

Lemma d_cont_var_np cs scope : forall fs, Forall (fun p => dec_np (snd p)) fs ->
  forall i st d, np (d_cont_var fs cs i scope st d).
Proof.
  induction fs as [|[df dec] fs IH]; intros HF i st d; cbn [d_cont_var]; [apply np_OK|].
  pose proof (Forall_inv HF) as Hf; pose proof (Forall_inv_tail HF) as Hr. cbn [snd] in Hf.
  destruct df as [v c|off].
  - apply np_bind; [apply IH, Hr|]. intros [[vs cs'] st1]. apply np_OK.
  - match goal with |- np (if ?b then _ else _) => destruct b end; [apply np_Err|].
    apply np_bind; [apply in_sub_scope_np, Hf|]. intros [[v c] st1].
    apply np_bind; [apply IH, Hr|]. intros [[vs cs'] st2]. apply np_OK.
Qed.

Lemma dec_roots_np : forall k st d, np (dec_roots k st d).
Proof.
  induction k as [|k IH]; intros st d; cbn [dec_roots]; [apply np_OK|].
  apply np_bind; [apply dr_read_np|]. intros [[bs st1] d1].
  apply np_bind; [apply IH|]. intros [[[v c'] st2] d2]. destruct v; try apply np_Err. apply np_OK.
Qed.

Lemma dec_fixed_fields_np c : forall fs, Forall (fun f => dec_np (flat_dec f)) fs ->
  forall i st d, np (dec_fixed_fields flat_dec c fs i st d).
Proof.
  induction fs as [|f fs IH]; intros HF i st d; cbn [dec_fixed_fields]; [apply np_OK|].
  pose proof (Forall_inv HF) as Hf; pose proof (Forall_inv_tail HF) as Hr.
  apply np_bind; [apply Hf|]. intros [[[v c1] st1] d1].
  apply np_bind; [apply IH, Hr|]. intros [[[vs cs] st2] d2]. apply np_OK.
Qed.

Lemma flat_dec_np : forall t, dec_np (flat_dec t).
Proof.
  induction t as [w| |n| |n|n|e n IHe|e n IHe|fs IHfs|none opts IHopts] using ty_ind';
    intros c st d.
  - cbn [flat_dec]. apply np_bind; [apply dr_read_np|]. intros [[bs st1] d1]. apply np_OK.
  - cbn [flat_dec]. apply np_bind; [apply dr_read_byte_np|]. intros [[b st1] d1].
    destruct (1 <? b); [apply np_Err|apply np_OK].
  - cbn [flat_dec]. apply np_bind; [apply d_bytes_np|]. intros [[[bs c'] st1] d1]. apply np_OK.
  - cbn [flat_dec]. apply np_bind; [apply dr_read_np|]. intros [[bs st1] d1]. apply np_OK.
  - cbn [flat_dec]. apply np_bind; [apply d_bytes_np|]. intros [[[bs c'] st1] d1].
    apply np_bind; [apply BitfieldsProofs.bitvector_check_no_panic|]. intros _. apply np_OK.
  - cbn [flat_dec]. destruct (_ <? _); [apply np_Err|].
    apply np_bind; [apply d_bytes_np|]. intros [[[bs c'] st1] d1].
    apply np_bind; [apply BitfieldsProofs.bitlist_check_no_panic|]. intros _. apply np_OK.
  - rewrite flat_dec_vector. destruct (is_byte_elem e).
    { apply np_bind; [apply d_bytes_np|]. intros [[[bs c'] st1] d1]. apply np_OK. }
    cbv zeta. destruct (negb (flat_fixed_len e =? 0)).
    { apply np_bind; [apply d_vector_fixed_np, IHe|]. intros [[vs cs] st1]. apply np_OK. }
    apply np_bind; [apply d_read_offsets_np|]. intros [[offs st1] d1].
    destruct (negb _); [apply np_Err|].
    apply np_bind; [apply d_var_items_np; intros _; exact IHe|]. intros [[vs cs] st2]. apply np_OK.
  - rewrite flat_dec_list. cbv zeta. destruct (is_byte_elem e).
    { destruct (_ <? _); [apply np_Err|].
      apply np_bind; [apply d_bytes_np|]. intros [[[bs c'] st1] d1]. apply np_OK. }
    destruct (is_root_elem e).
    { destruct (negb _); [apply np_Err|]. destruct (_ <? _); [apply np_Err|]. apply dec_roots_np. }
    destruct (dr_scope d =? 0); [apply np_OK|].
    destruct (negb (flat_fixed_len e =? 0)).
    { destruct (negb _); [apply np_Err|]. destruct (_ <? _); [apply np_Err|].
      apply np_bind; [apply d_vector_fixed_np, IHe|]. intros [[vs cs] st1]. apply np_OK. }
    apply np_bind; [apply dr_read_u32_np|]. intros [[first st1] d1].
    destruct (negb _); [apply np_Err|]. destruct (_ <? _); [apply np_Err|].
    destruct (_ || _); [apply np_Err|].
    apply np_bind; [apply d_read_offsets_np|]. intros [[offs st2] d2].
    apply np_bind; [apply d_var_items_np; intros _; exact IHe|]. intros [[vs cs] st3]. apply np_OK.
  - rewrite flat_dec_cont. destruct (forallb spec_is_fixed fs).
    { apply np_bind; [apply dec_fixed_fields_np, IHfs|]. intros [[[vs cs] st1] d1]. apply np_OK. }
    cbv zeta. apply np_bind.
    { apply d_cont_fixed_np. rewrite Forall_map. cbn [snd]. exact IHfs. }
    intros [[[dfs prev] st1] d1]. destruct (first_var_off dfs) as [o0|]; [|apply np_Err].
    destruct (negb _); [apply np_Err|].
    apply np_bind; [|intros [[vs cs] st2]; apply np_OK].
    apply d_cont_var_np. clear -IHfs. revert dfs.
    induction fs as [|f fs IH]; intros dfs; cbn [map]; [destruct dfs; constructor|].
    pose proof (Forall_inv IHfs) as Hf; pose proof (Forall_inv_tail IHfs) as Hr.
    destruct dfs as [|df dfs]; cbn [combine]; constructor; [exact Hf|apply IH, Hr].
  - rewrite flat_dec_union. apply np_bind; [apply dr_read_byte_np|]. intros [[sel st1] d1].
    destruct (none && (sel =? 0)).
    { destruct (negb _); [apply np_Err|apply np_OK]. }
    rewrite pick_ty_nth_error. destruct (nth_error opts _) as [o|] eqn:Hnth; [|apply np_Err].
    unfold dec_union_opt. destruct (_ && _); [apply np_Err|].
    apply np_bind; [|intros [[[v c'] st2] d2]; apply np_OK].
    rewrite Forall_forall in IHopts. apply IHopts. eapply nth_error_In; eassumption.
Qed.

Lemma C10_no_panic_lemma t c bs : flat_decode t c bs <> Panic.
Proof.
  unfold flat_decode, new_reader. apply np_bind; [apply flat_dec_np|].
  intros [[[v c'] st'] d']. apply np_OK.
Qed.

(* ------------------------------------------------------------------------------------ *)
(** * 5. The reader *)

(* Go slice lengths are [int]: below 2^63.  The readers met in a decode have [d_max] below it. *)
Definition two63 : N := 9223372036854775808.

Definition chain_wf (st : rstate) (ch : list nat) : Prop :=
  NoDup ch /\ Forall (fun k => (k < length (r_lims st))%nat) ch.

(* reader invariant: index within max, limit readers of the chain distinct and allocated, and the
   innermost limit reader never lets through more than the remaining scope (the index may lag behind
   what was consumed, because reads through sub scopes do not advance it) *)
Definition rd_ok (st : rstate) (d : dreader) : Prop :=
  d_i d <= d_max d /\ d_max d < two63 /\ chain_wf st (d_chain d) /\
  avail st (d_chain d) <= dr_scope d.

(* [st'] is [st] after [m] bytes were consumed through the limit readers of chain [ch] *)
Definition stepped (st st' : rstate) (ch : list nat) (m : N) : Prop :=
  r_stream st' = skipn (nat_of m) (r_stream st) /\
  (length (r_lims st) <= length (r_lims st'))%nat /\
  forall j, In j ch -> lim_get st' j = lim_get st j - m.

Lemma skipn_skipn_add {A} : forall a b (l : list A), skipn b (skipn a l) = skipn (a + b) l.
Proof. intros. symmetry. apply BitfieldsProofs.skipn_add. Qed.

Lemma firstn_add_app {A} : forall a b (l : list A),
  firstn (a + b) l = firstn a l ++ firstn b (skipn a l).
Proof.
  induction a as [|a IH]; intros b l; [reflexivity|].
  destruct l as [|x l]; [rewrite !firstn_nil; reflexivity|].
  cbn [Nat.add firstn skipn app]. rewrite IH. reflexivity.
Qed.

Lemma stepped_refl st ch : stepped st st ch 0.
Proof. repeat split; [lia|]. intros j _. lia. Qed.

Lemma stepped_trans st st1 st2 ch m1 m2 :
  stepped st st1 ch m1 -> stepped st1 st2 ch m2 -> stepped st st2 ch (m1 + m2).
Proof.
  intros (S1 & L1 & J1) (S2 & L2 & J2). repeat split.
  - rewrite S2, S1, skipn_skipn_add. f_equal. unfold nat_of. lia.
  - lia.
  - intros j Hj. rewrite J2, J1 by assumption. lia.
Qed.

Lemma stepped_eq st st' ch m m' : m = m' -> stepped st st' ch m -> stepped st st' ch m'.
Proof. intros ->. auto. Qed.

Lemma avail_le_stream st ch : avail st ch <= lenN (r_stream st).
Proof.
  unfold avail. induction ch as [|a ch IH]; cbn [fold_right]; [apply N.le_refl|]. unfold lenN in *. lia.
Qed.

Lemma stepped_avail st st' ch m : stepped st st' ch m -> avail st' ch = avail st ch - m.
Proof.
  intros (S & _ & J). unfold avail. induction ch as [|a ch IH]; cbn [fold_right].
  - rewrite S, skipn_length. unfold nat_of. lia.
  - rewrite IH by (intros j Hj; apply J; right; exact Hj).
    rewrite (J a) by (left; reflexivity). lia.
Qed.

Lemma chain_wf_stepped st st' ch m : chain_wf st ch -> stepped st st' ch m -> chain_wf st' ch.
Proof.
  intros [ND HF] (_ & L & _). split; [exact ND|]. revert HF. apply Forall_impl. intros k Hk. lia.
Qed.

Lemma nth_list_set_neq {A} (d : A) : forall (l : list A) i x j, j <> i ->
  nth j (list_set l i x) d = nth j l d.
Proof.
  induction l as [|y l IH]; intros i x j H; [reflexivity|].
  destruct i as [|i], j as [|j]; cbn [list_set nth]; try reflexivity; [contradiction|].
  apply IH. intros E. apply H. f_equal. exact E.
Qed.

Section Consume.
  Variable k : N.
  Let F (lims : list N) (ch : list nat) : list N :=
    fold_right (fun idx ls => list_set ls idx (nth idx ls 0 - k)) lims ch.

  Lemma consume_length lims : forall ch, length (F lims ch) = length lims.
  Proof.
    induction ch as [|a ch IH]; [reflexivity|]. unfold F in *. cbn [fold_right].
    rewrite BitfieldsProofs.list_set_length. exact IH.
  Qed.

  Lemma consume_notin lims : forall ch j, ~ In j ch -> nth j (F lims ch) 0 = nth j lims 0.
  Proof.
    induction ch as [|a ch IH]; intros j Hj; [reflexivity|]. unfold F in *. cbn [fold_right].
    rewrite nth_list_set_neq by (intros E; apply Hj; left; symmetry; exact E).
    apply IH. intros Hin. apply Hj. right. exact Hin.
  Qed.

  Lemma consume_in lims : forall ch j, NoDup ch -> Forall (fun a => (a < length lims)%nat) ch ->
    In j ch -> nth j (F lims ch) 0 = nth j lims 0 - k.
  Proof.
    induction ch as [|a ch IH]; intros j ND HF Hj; [destruct Hj|].
    inversion ND as [|a' ch' Hna ND']; subst.
    pose proof (Forall_inv HF) as Ha; pose proof (Forall_inv_tail HF) as HF'. cbv beta in Ha.
    change (F lims (a :: ch)) with (list_set (F lims ch) a (nth a (F lims ch) 0 - k)).
    destruct (Nat.eq_dec j a) as [->|Hne].
    - rewrite BitfieldsProofs.nth_list_set by (rewrite consume_length; exact Ha).
      rewrite Nat.eqb_refl. rewrite consume_notin by exact Hna. reflexivity.
    - rewrite nth_list_set_neq by exact Hne. apply IH; auto.
      destruct Hj as [E|Hj]; [exfalso; apply Hne; symmetry; exact E|exact Hj].
  Qed.
End Consume.

Lemma consume_stepped st ch k : chain_wf st ch -> stepped st (consume st ch k) ch k.
Proof.
  intros [ND HF]. unfold stepped, consume, lim_get. cbn [r_stream r_lims]. repeat split.
  - rewrite (consume_length k). lia.
  - intros j Hj. apply (consume_in k); assumption.
Qed.

Lemma rd_ok_advance st d st' d' m :
  rd_ok st d -> stepped st st' (d_chain d) m -> m <= avail st (d_chain d) ->
  d_chain d' = d_chain d -> d_max d' = d_max d -> d_i d <= d_i d' <= d_i d + m ->
  rd_ok st' d'.
Proof.
  intros (Hi & Hm & Hwf & Hav) Hst Hle Ech Emax Hidx. unfold rd_ok, dr_scope in *.
  rewrite Ech, Emax. rewrite (stepped_avail _ _ _ _ Hst).
  split; [lia|]. split; [exact Hm|]. split; [eapply chain_wf_stepped; eassumption|lia].
Qed.

Lemma rd_ok_same st d st' m :
  rd_ok st d -> stepped st st' (d_chain d) m -> rd_ok st' d.
Proof.
  intros (Hi & Hm & Hwf & Hav) Hst. unfold rd_ok, dr_scope in *.
  rewrite (stepped_avail _ _ _ _ Hst).
  split; [lia|]. split; [exact Hm|]. split; [eapply chain_wf_stepped; eassumption|lia].
Qed.

(* reads *)
Lemma dr_read_ok st d k : rd_ok st d -> k <= avail st (d_chain d) ->
  exists st', dr_read st d k =
              OK (firstn (nat_of k) (r_stream st), st', mkDR (d_i d + k) (d_max d) (d_chain d)) /\
              stepped st st' (d_chain d) k.
Proof.
  intros (Hi & Hm & Hwf & Hav) Hk. unfold dr_read, dr_scope, two63 in *.
  destruct (N.eqb_spec k 0) as [->|Hk0].
  - exists st. split; [|apply stepped_refl]. rewrite N.add_0_r. destruct d; reflexivity.
  - destruct (N.ltb_spec (two64 - 1 - d_i d) k) as [H|_]; [unfold two64 in H; lia|].
    destruct (N.ltb_spec (d_max d) (d_i d + k)) as [H|_]; [lia|].
    destruct (N.ltb_spec (avail st (d_chain d)) k) as [H|_]; [lia|].
    eexists. split; [reflexivity|]. apply consume_stepped, Hwf.
Qed.

Lemma dr_read_inv st d k bs st' d' : rd_ok st d -> dr_read st d k = OK (bs, st', d') ->
  k <= avail st (d_chain d) /\ bs = firstn (nat_of k) (r_stream st) /\
  stepped st st' (d_chain d) k /\ d' = mkDR (d_i d + k) (d_max d) (d_chain d).
Proof.
  intros Hok H. pose proof Hok as (Hi & Hm & Hwf & Hav). unfold dr_read in H.
  destruct (N.eqb_spec k 0) as [->|Hk0].
  - inversion H; subst. split; [lia|]. split; [reflexivity|]. split; [apply stepped_refl|].
    rewrite N.add_0_r. destruct d'; reflexivity.
  - destruct (_ <? k); [discriminate H|]. destruct (d_max d <? _); [discriminate H|].
    destruct (N.ltb_spec (avail st (d_chain d)) k) as [|Hle]; [discriminate H|].
    inversion H; subst. split; [exact Hle|]. split; [reflexivity|]. split; [|reflexivity].
    apply consume_stepped, Hwf.
Qed.

Lemma firstn_lenN {A} (l : list A) k : k <= lenN l -> lenN (firstn (nat_of k) l) = k.
Proof. intros H. unfold lenN, nat_of in *. rewrite firstn_length. lia. Qed.

(* sub scopes *)
Lemma avail_snoc_lims st ch x : Forall (fun k => (k < length (r_lims st))%nat) ch ->
  avail (mkRS (r_stream st) (r_lims st ++ [x])) ch = avail st ch.
Proof.
  intros HF. unfold avail. cbn [r_stream]. induction ch as [|a ch IH]; cbn [fold_right]; [reflexivity|].
  pose proof (Forall_inv HF) as Ha; pose proof (Forall_inv_tail HF) as HF'. cbv beta in Ha.
  rewrite IH by exact HF'. unfold lim_get. cbn [r_lims]. rewrite app_nth1 by exact Ha. reflexivity.
Qed.

Lemma sub_scope_facts st d count :
  rd_ok st d -> count <= dr_scope d ->
  let st1 := mkRS (r_stream st) (r_lims st ++ [count]) in
  let sd := mkDR 0 count (length (r_lims st) :: d_chain d) in
  dr_sub_scope st d count = OK (st1, sd) /\
  rd_ok st1 sd /\ avail st1 (d_chain sd) = N.min count (avail st (d_chain d)) /\
  (forall st2 m, stepped st1 st2 (d_chain sd) m -> stepped st st2 (d_chain d) m).
Proof.
  intros (Hi & Hm & [ND HF] & Hav) Hc st1 sd.
  assert (Eav : avail st1 (d_chain sd) = N.min count (avail st (d_chain d))).
  { unfold sd, st1. cbn [d_chain]. unfold avail at 1. cbn [fold_right]. fold (avail (mkRS (r_stream st) (r_lims st ++ [count])) (d_chain d)).
    rewrite avail_snoc_lims by exact HF. unfold lim_get. cbn [r_lims].
    rewrite app_nth2, Nat.sub_diag by lia. reflexivity. }
  split; [|split; [|split]].
  - unfold dr_sub_scope. destruct (N.ltb_spec (dr_scope d) count); [lia|reflexivity].
  - unfold rd_ok. rewrite Eav. unfold sd, dr_scope in *. cbn [d_i d_max d_chain].
    repeat split; [lia|lia| | |lia].
    + constructor; [|exact ND]. intros Hin. rewrite Forall_forall in HF. specialize (HF _ Hin). lia.
    + unfold st1. cbn [r_lims]. rewrite app_length. cbn [length]. constructor; [lia|].
      revert HF. apply Forall_impl. intros; lia.
  - exact Eav.
  - intros st2 m (S & L & J). unfold st1 in *. cbn [r_stream r_lims] in *.
    rewrite app_length in L. cbn [length] in L. repeat split; [exact S|lia|].
    intros j Hj. unfold sd in J. cbn [d_chain] in J. rewrite J by (right; exact Hj).
    unfold lim_get. cbn [r_lims]. rewrite Forall_forall in HF. rewrite app_nth1 by (apply HF, Hj).
    reflexivity.
Qed.

Lemma dr_sub_scope_inv st d count st1 sd :
  dr_sub_scope st d count = OK (st1, sd) ->
  count <= dr_scope d /\ st1 = mkRS (r_stream st) (r_lims st ++ [count]) /\
  sd = mkDR 0 count (length (r_lims st) :: d_chain d).
Proof.
  unfold dr_sub_scope. destruct (N.ltb_spec (dr_scope d) count) as [|H]; [discriminate|].
  intros E. inversion E. auto.
Qed.

(* ------------------------------------------------------------------------------------ *)
(** * 6. Round trip: decoding the spec encoding, for any prior state of the destination *)

(* --- bytes and bits --- *)
Lemma nat_of_lenN {A} (l : list A) : nat_of (lenN l) = length l.
Proof. unfold nat_of, lenN. apply Nat2N.id. Qed.

Lemma firstn_app_exact {A} (l r : list A) : firstn (nat_of (lenN l)) (l ++ r) = l.
Proof.
  rewrite nat_of_lenN. rewrite firstn_app, Nat.sub_diag, firstn_all. cbn [firstn]. apply app_nil_r.
Qed.

Lemma skipn_app_exact {A} (l r : list A) : skipn (nat_of (lenN l)) (l ++ r) = r.
Proof.
  rewrite nat_of_lenN. rewrite skipn_app, Nat.sub_diag, skipn_all. reflexivity.
Qed.

Lemma lenN_concat {A} (ls : list (list A)) : lenN (concat ls) = sumN (map lenN ls).
Proof.
  induction ls as [|l ls IH]; [reflexivity|]. cbn [concat map]. rewrite lenN_app, sumN_cons, IH.
  reflexivity.
Qed.

Lemma map_nth_seq {A} (d : A) : forall (X : list A) k, (k <= length X)%nat ->
  map (fun i => nth i X d) (seq 0 k) = firstn k X.
Proof.
  induction X as [|x X IH]; intros k Hk; cbn [length] in Hk.
  - assert (k = 0)%nat as -> by lia. reflexivity.
  - destruct k as [|k]; [reflexivity|]. cbn [seq map firstn nth]. f_equal.
    rewrite <- seq_shift, map_map. cbn [nth]. apply IH. lia.
Qed.

Lemma bytes_to_bits_btb X n : n <= lenN X ->
  bytes_to_bits (bits_to_bytes X) n = firstn (nat_of n) X.
Proof.
  intros Hn. unfold bytes_to_bits. rewrite <- (map_nth_seq false) by (unfold lenN, nat_of in *; lia).
  apply map_ext. intros i. unfold byte_testbit.
  rewrite BitfieldsProofs.btb_testbit by (apply Nat.mod_upper_bound; lia).
  f_equal. pose proof (Nat.div_mod i 8). lia.
Qed.

Lemma bytes_to_bits_exact X : bytes_to_bits (bits_to_bytes X) (lenN X) = X.
Proof. rewrite bytes_to_bits_btb by apply N.le_refl. rewrite nat_of_lenN. apply firstn_all. Qed.

Lemma bytes_to_bits_bitlist X :
  bytes_to_bits (bits_to_bytes (X ++ [true])) (lenN X) = X.
Proof.
  rewrite bytes_to_bits_btb by (rewrite lenN_app; lia). rewrite nat_of_lenN.
  rewrite firstn_app, Nat.sub_diag, firstn_all. cbn [firstn]. apply app_nil_r.
Qed.

Lemma le_val_le_bytes_small k n : n < 256 ^ N.of_nat k -> le_val (le_bytes k n) = n.
Proof. intros H. rewrite BitlenProofs.le_val_le_bytes. apply N.mod_small, H. Qed.

Lemma le_val_u32 n : n < two32 -> le_val (le_bytes 4 n) = n.
Proof. intros H. apply le_val_le_bytes_small. exact H. Qed.

Lemma pow256 w : 256 ^ N.of_nat (nat_of w) = 2 ^ (8 * w).
Proof. unfold nat_of. rewrite N2Nat.id. change 256 with (2 ^ 8). rewrite <- N.pow_mul_r. reflexivity. Qed.

Lemma sub64_exact a b : b <= a -> a < two64 -> sub64 a b = a - b.
Proof.
  intros H1 H2. unfold sub64, wrap64. unfold two64 in *. rewrite (N.mod_small b) by lia.
  replace (a + 18446744073709551616 - b) with ((a - b) + 1 * 18446744073709551616) by lia.
  rewrite N.mod_add by discriminate. apply N.mod_small. lia.
Qed.

(* --- the round-trip specification of a decoder on one encoding --- *)
Definition dec_rt (dec : fdecoder) (fx : bool) (enc : list byte) (v : val) : Prop :=
  forall c st d rest,
    rd_ok st d -> r_stream st = enc ++ rest ->
    lenN enc <= avail st (d_chain d) ->
    (fx = false -> lenN enc = dr_scope d) ->
    exists c' st' d',
      dec c st d = OK (v, c', st', d') /\
      stepped st st' (d_chain d) (lenN enc) /\
      d_chain d' = d_chain d /\ d_max d' = d_max d /\ d_i d <= d_i d' <= d_i d + lenN enc.

Lemma stepped_stream_rest st st' ch enc rest :
  r_stream st = enc ++ rest -> stepped st st' ch (lenN enc) -> r_stream st' = rest.
Proof. intros E (S & _). rewrite S, E. apply skipn_app_exact. Qed.

Lemma read_enc st d enc rest :
  rd_ok st d -> r_stream st = enc ++ rest -> lenN enc <= avail st (d_chain d) ->
  exists st', dr_read st d (lenN enc) = OK (enc, st', mkDR (d_i d + lenN enc) (d_max d) (d_chain d)) /\
              stepped st st' (d_chain d) (lenN enc).
Proof.
  intros Hok E Hav. destruct (dr_read_ok st d (lenN enc) Hok Hav) as (st' & Er & Hst).
  exists st'. rewrite Er, E, firstn_app_exact. auto.
Qed.

Lemma d_bytes_enc c st d enc rest :
  rd_ok st d -> r_stream st = enc ++ rest -> lenN enc <= avail st (d_chain d) ->
  exists st', d_bytes c (lenN enc) st d =
              OK (enc, reslice c (lenN enc), st', mkDR (d_i d + lenN enc) (d_max d) (d_chain d)) /\
              stepped st st' (d_chain d) (lenN enc).
Proof.
  intros Hok E Hav. destruct (read_enc st d enc rest Hok E Hav) as (st' & Er & Hst).
  exists st'. unfold d_bytes. rewrite Er. auto.
Qed.

Lemma read_u32_enc st d o rest :
  rd_ok st d -> o < two32 -> r_stream st = le_bytes 4 o ++ rest -> 4 <= avail st (d_chain d) ->
  exists st', dr_read_u32 st d = OK (o, st', mkDR (d_i d + 4) (d_max d) (d_chain d)) /\
              stepped st st' (d_chain d) 4.
Proof.
  intros Hok Ho E Hav.
  destruct (read_enc st d (le_bytes 4 o) rest Hok E) as (st' & Er & Hst); [exact Hav|].
  exists st'. unfold dr_read_u32. change (lenN (le_bytes 4 o)) with 4 in *. rewrite Er. cbn [bind].
  rewrite le_val_u32 by exact Ho. auto.
Qed.

Lemma in_sub_scope_rt dec fx enc v c st d rest :
  dec_rt dec fx enc v -> rd_ok st d -> r_stream st = enc ++ rest ->
  lenN enc <= avail st (d_chain d) ->
  exists c' st', in_sub_scope dec c (lenN enc) st d = OK (v, c', st') /\
                 stepped st st' (d_chain d) (lenN enc).
Proof.
  intros Hrt Hok E Hav. pose proof Hok as (_ & _ & _ & Hsc).
  destruct (sub_scope_facts st d (lenN enc) Hok) as (Es & Hok1 & Eav & Hup); [lia|].
  cbv zeta in *. set (st1 := mkRS _ _) in *. set (sd := mkDR _ _ _) in *.
  destruct (Hrt c st1 sd rest Hok1 E) as (c' & st' & d' & Ed & Hst & _).
  - rewrite Eav. lia.
  - intros _. unfold dr_scope, sd. cbn [d_max d_i]. lia.
  - exists c', st'. unfold in_sub_scope. rewrite Es. cbn [bind]. rewrite Ed. cbn [bind].
    split; [reflexivity|]. apply Hup, Hst.
Qed.

Lemma d_vector_fixed_rt dec fx (g : val -> list byte) cs size d : forall vs i st rest,
  Forall (fun v => dec_rt dec fx (g v) v /\ lenN (g v) = size) vs ->
  rd_ok st d -> r_stream st = concat (map g vs) ++ rest ->
  lenN (concat (map g vs)) <= avail st (d_chain d) ->
  exists cs' st', d_vector_fixed dec cs i (length vs) size st d = OK (vs, cs', st') /\
                  stepped st st' (d_chain d) (lenN (concat (map g vs))).
Proof.
  induction vs as [|v vs IH]; intros i st rest HF Hok E Hav.
  - exists [], st. split; [reflexivity|apply stepped_refl].
  - pose proof (Forall_inv HF) as [Hv Hsz]; pose proof (Forall_inv_tail HF) as HF'.
    cbn [map concat length d_vector_fixed] in *. rewrite lenN_app in *. rewrite <- app_assoc in E.
    destruct (in_sub_scope_rt dec fx (g v) v (ct_child cs i) st d _ Hv Hok E) as (c' & st1 & Es & Hst1);
      [lia|].
    rewrite <- Hsz. rewrite Es. cbn [bind].
    pose proof (stepped_stream_rest _ _ _ _ _ E Hst1) as E1.
    destruct (IH (S i) st1 rest HF' (rd_ok_same _ _ _ _ Hok Hst1) E1) as (cs' & st2 & Ev & Hst2).
    { rewrite (stepped_avail _ _ _ _ Hst1). lia. }
    rewrite Hsz. rewrite Ev. cbn [bind]. exists (c' :: cs'), st2. split; [reflexivity|].
    eapply stepped_eq; [|eapply stepped_trans; [exact Hst1|exact Hst2]]. rewrite Hsz. reflexivity.
Qed.

Fixpoint offs_from (lens : list N) (start : N) : list N :=
  match lens with [] => [] | l :: r => start :: offs_from r (start + l) end.

Lemma offs_from_length : forall lens start, length (offs_from lens start) = length lens.
Proof. induction lens as [|l r IH]; intros start; cbn [offs_from length]; [reflexivity|]. rewrite IH. reflexivity. Qed.

Lemma offs_from_bound : forall lens start B, start + sumN lens <= B ->
  Forall (fun o => o <= B) (offs_from lens start).
Proof.
  induction lens as [|l r IH]; intros start B H; cbn [offs_from]; [constructor|].
  rewrite sumN_cons in H. constructor; [lia|]. apply IH. lia.
Qed.

Lemma ser_parts_go_var_only : forall (items : list (list byte)) off,
  ser_parts_go (map (fun b => (false, b)) items) off =
  (flat_map (le_bytes 4) (offs_from (map lenN items) off), concat items).
Proof.
  induction items as [|b items IH]; intros off; [reflexivity|].
  cbn [map ser_parts_go offs_from flat_map concat]. rewrite IH. reflexivity.
Qed.

Lemma ser_parts_var_only (items : list (list byte)) :
  ser_parts (map (fun b => (false, b)) items) =
  flat_map (le_bytes 4) (offs_from (map lenN items) (4 * lenN items)) ++ concat items.
Proof.
  unfold ser_parts. rewrite ser_parts_go_var_only.
  rewrite map_map. unfold part_fixed_size. cbn [fst].
  rewrite (sumN_map_const _ 4) by (apply Forall_forall; intros; reflexivity).
  rewrite N.mul_comm. reflexivity.
Qed.

Lemma lenN_flat_map_u32 offs : lenN (flat_map (le_bytes 4) offs) = 4 * lenN offs.
Proof.
  induction offs as [|o offs IH]; [reflexivity|]. cbn [flat_map]. rewrite lenN_app, lenN_cons, IH.
  change (lenN (le_bytes 4 o)) with 4. lia.
Qed.

Lemma d_read_offsets_rt : forall offs st d rest,
  Forall (fun o => o < two32) offs -> rd_ok st d ->
  r_stream st = flat_map (le_bytes 4) offs ++ rest ->
  4 * lenN offs <= avail st (d_chain d) ->
  exists st', d_read_offsets (length offs) st d =
              OK (offs, st', mkDR (d_i d + 4 * lenN offs) (d_max d) (d_chain d)) /\
              stepped st st' (d_chain d) (4 * lenN offs).
Proof.
  induction offs as [|o offs IH]; intros st d rest HF Hok E Hav.
  - exists st. change (lenN (@nil N)) with 0. rewrite N.mul_0_r, N.add_0_r. split; [|apply stepped_refl].
    destruct d; reflexivity.
  - pose proof (Forall_inv HF) as Ho; pose proof (Forall_inv_tail HF) as HF'. cbv beta in Ho.
    cbn [flat_map length d_read_offsets] in *. rewrite <- app_assoc in E. rewrite lenN_cons in *.
    destruct (read_u32_enc st d o _ Hok Ho E) as (st1 & Er & Hst1); [lia|].
    rewrite Er. cbn [bind].
    assert (Hok1 : rd_ok st1 (mkDR (d_i d + 4) (d_max d) (d_chain d))).
    { eapply rd_ok_advance; try eassumption; cbn [d_chain d_max d_i]; try reflexivity; lia. }
    assert (E1 : r_stream st1 = flat_map (le_bytes 4) offs ++ rest).
    { eapply (stepped_stream_rest st st1 _ (le_bytes 4 o)); [exact E|exact Hst1]. }
    destruct (IH st1 _ rest HF' Hok1 E1) as (st2 & Ev & Hst2).
    { cbn [d_chain]. rewrite (stepped_avail _ _ _ _ Hst1). lia. }
    rewrite Ev. cbn [bind d_i d_max d_chain] in *. exists st2. split.
    + f_equal. f_equal. f_equal. lia.
    + eapply stepped_eq; [|eapply stepped_trans; eassumption]. lia.
Qed.

Lemma d_var_items_rt dec fx (g : val -> list byte) cs vstyle d scope : forall vs i start prev st rest,
  Forall (fun v => dec_rt dec fx (g v) v) vs ->
  prev <= start -> scope = start + sumN (map (fun v => lenN (g v)) vs) -> scope < two64 ->
  rd_ok st d -> r_stream st = concat (map g vs) ++ rest ->
  lenN (concat (map g vs)) <= avail st (d_chain d) ->
  exists cs' st',
    d_var_items (fun _ => dec) cs i (offs_from (map (fun v => lenN (g v)) vs) start) scope prev vstyle st d
    = OK (vs, cs', st') /\
    stepped st st' (d_chain d) (lenN (concat (map g vs))).
Proof.
  induction vs as [|v vs IH]; intros i start prev st rest HF Hprev Hscope Hlt Hok E Hav.
  - exists [], st. split; [reflexivity|apply stepped_refl].
  - pose proof (Forall_inv HF) as Hv; pose proof (Forall_inv_tail HF) as HF'. cbv beta in Hv.
    cbn [map concat offs_from d_var_items] in *. rewrite sumN_cons in Hscope.
    rewrite lenN_app in *. rewrite <- app_assoc in E.
    destruct (N.ltb_spec start prev) as [|_]; [lia|].
    set (next := match offs_from (map (fun v0 => lenN (g v0)) vs) (start + lenN (g v)) with
                 | o' :: _ => o' | [] => scope end).
    assert (Enext : next = start + lenN (g v)).
    { unfold next. destruct vs as [|v2 vs2]; cbn [map offs_from]; [|reflexivity].
      rewrite Hscope. change (sumN (map _ [])) with 0. lia. }
    rewrite Enext. rewrite sub64_exact by lia.
    replace (start + lenN (g v) - start) with (lenN (g v)) by lia.
    destruct (in_sub_scope_rt dec fx (g v) v (ct_child cs i) st d _ Hv Hok E) as (c' & st1 & Es & Hst1);
      [lia|].
    rewrite Es. cbn [bind].
    pose proof (stepped_stream_rest _ _ _ _ _ E Hst1) as E1.
    destruct (IH (S i) (start + lenN (g v)) (if vstyle then start + lenN (g v) else start) st1 rest HF')
      as (cs' & st2 & Ev & Hst2); try assumption.
    { destruct vstyle; lia. }
    { lia. }
    { eapply rd_ok_same; eassumption. }
    { rewrite (stepped_avail _ _ _ _ Hst1). lia. }
    rewrite Ev. cbn [bind]. exists (c' :: cs'), st2. split; [reflexivity|].
    eapply stepped_trans; eassumption.
Qed.

Lemma dec_roots_rt : forall (bss : list (list byte)) st d rest,
  Forall (fun bs => lenN bs = 32) bss -> rd_ok st d ->
  r_stream st = concat bss ++ rest -> lenN (concat bss) <= avail st (d_chain d) ->
  exists st' d', dec_roots (length bss) st d = OK (VSeq (map VBytes bss), CFresh, st', d') /\
                 stepped st st' (d_chain d) (lenN (concat bss)) /\
                 d_chain d' = d_chain d /\ d_max d' = d_max d /\ d_i d' = d_i d + lenN (concat bss).
Proof.
  induction bss as [|bs bss IH]; intros st d rest HF Hok E Hav.
  - exists st, d. split; [reflexivity|]. split; [apply stepped_refl|].
    change (lenN (concat [])) with 0. repeat split. lia.
  - pose proof (Forall_inv HF) as Hbs; pose proof (Forall_inv_tail HF) as HF'. cbv beta in Hbs.
    cbn [concat length dec_roots map] in *. rewrite lenN_app in *. rewrite <- app_assoc in E.
    destruct (read_enc st d bs _ Hok E) as (st1 & Er & Hst1); [lia|].
    rewrite Hbs in Er. rewrite Er. cbn [bind].
    assert (Hok1 : rd_ok st1 (mkDR (d_i d + 32) (d_max d) (d_chain d))).
    { eapply rd_ok_advance; try eassumption; cbn [d_chain d_max d_i]; try reflexivity; lia. }
    pose proof (stepped_stream_rest _ _ _ _ _ E Hst1) as E1.
    destruct (IH st1 _ rest HF' Hok1 E1) as (st2 & d2 & Ev & Hst2 & Ech & Emax & Eidx).
    { cbn [d_chain]. rewrite (stepped_avail _ _ _ _ Hst1). lia. }
    rewrite Ev. cbn [bind d_chain d_max d_i] in *. exists st2, d2. split; [reflexivity|].
    split; [eapply stepped_trans; eassumption|]. repeat split; try assumption. lia.
Qed.

(* --- containers --- *)
Definition FA (fs : list ty) (vs : list val) (off : N) : list byte :=
  fst (ser_parts_go (ser_fields fs vs) off).
Definition VA (fs : list ty) (vs : list val) (off : N) : list byte :=
  snd (ser_parts_go (ser_fields fs vs) off).

Lemma ser_parts_FA_VA fs vs :
  ser_parts (ser_fields fs vs) =
  FA fs vs (sumN (map part_fixed_size (ser_fields fs vs))) ++
  VA fs vs (sumN (map part_fixed_size (ser_fields fs vs))).
Proof. unfold ser_parts, FA, VA. destruct (ser_parts_go _ _). reflexivity. Qed.

Lemma FA_cons f fs x vs off :
  FA (f :: fs) (x :: vs) off =
  if spec_is_fixed f then spec_ser f x ++ FA fs vs off
  else le_bytes 4 off ++ FA fs vs (off + lenN (spec_ser f x)).
Proof.
  unfold FA. cbn [ser_fields ser_parts_go]. destruct (spec_is_fixed f).
  - destruct (ser_parts_go _ off). reflexivity.
  - destruct (ser_parts_go _ (off + _)). reflexivity.
Qed.

Lemma VA_cons f fs x vs off :
  VA (f :: fs) (x :: vs) off =
  if spec_is_fixed f then VA fs vs off
  else spec_ser f x ++ VA fs vs (off + lenN (spec_ser f x)).
Proof.
  unfold VA. cbn [ser_fields ser_parts_go]. destruct (spec_is_fixed f).
  - destruct (ser_parts_go _ off). reflexivity.
  - destruct (ser_parts_go _ (off + _)). reflexivity.
Qed.

Definition var_len (fs : list ty) (vs : list val) : N :=
  sumN (map (fun p : part => if fst p then 0 else lenN (snd p)) (ser_fields fs vs)).

Lemma var_len_cons f fs x vs :
  var_len (f :: fs) (x :: vs) =
  (if spec_is_fixed f then 0 else lenN (spec_ser f x)) + var_len fs vs.
Proof. unfold var_len. cbn [ser_fields map]. rewrite sumN_cons. reflexivity. Qed.

Lemma lenN_FA : forall fs vs off,
  lenN (FA fs vs off) = sumN (map part_fixed_size (ser_fields fs vs)).
Proof.
  induction fs as [|f fs IH]; intros [|x vs] off; try reflexivity.
  rewrite FA_cons. cbn [ser_fields map]. rewrite sumN_cons. unfold part_fixed_size at 1. cbn [fst snd].
  destruct (spec_is_fixed f); rewrite lenN_app, IH; [reflexivity|].
  change (lenN (le_bytes 4 off)) with 4. reflexivity.
Qed.

Lemma lenN_VA : forall fs vs off, lenN (VA fs vs off) = var_len fs vs.
Proof.
  induction fs as [|f fs IH]; intros [|x vs] off; try reflexivity.
  rewrite VA_cons, var_len_cons. destruct (spec_is_fixed f); [rewrite IH; lia|].
  rewrite lenN_app, IH. reflexivity.
Qed.

Lemma var_len_all_fixed : forall fs vs, forallb spec_is_fixed fs = true -> var_len fs vs = 0.
Proof.
  induction fs as [|f fs IH]; intros [|x vs] H; try reflexivity.
  cbn [forallb] in H. apply andb_true_iff in H. destruct H as [H1 H2].
  rewrite var_len_cons, H1, IH by assumption. reflexivity.
Qed.

Fixpoint dfs_match (fs : list ty) (vs : list val) (off : N) (dfs : list dfield) : Prop :=
  match fs, vs, dfs with
  | [], [], [] => True
  | f :: fs', x :: vs', df :: dfs' =>
    if spec_is_fixed f then (exists c, df = DFixed x c) /\ dfs_match fs' vs' off dfs'
    else df = DVar off /\ dfs_match fs' vs' (off + lenN (spec_ser f x)) dfs'
  | _, _, _ => False
  end.

Inductive fields_rt : list ty -> list val -> Prop :=
| fields_rt_nil : fields_rt [] []
| fields_rt_cons f fs x vs :
    dec_rt (flat_dec f) (spec_is_fixed f) (spec_ser f x) x -> fields_rt fs vs ->
    fields_rt (f :: fs) (x :: vs).

Lemma d_cont_fixed_rt cs : forall fs vs i prev off st d rest,
  fields_rt fs vs -> forallb wf_ty fs = true -> has_type_fields fs vs = true ->
  rd_ok st d -> r_stream st = FA fs vs off ++ rest ->
  lenN (FA fs vs off) <= avail st (d_chain d) ->
  off + var_len fs vs < two32 -> prev + lenN (FA fs vs off) < two64 ->
  exists dfs st' d',
    d_cont_fixed (map (fun f => (flat_fixed_len f, flat_dec f)) fs) cs i prev st d =
      OK (dfs, prev + lenN (FA fs vs off), st', d') /\
    dfs_match fs vs off dfs /\
    stepped st st' (d_chain d) (lenN (FA fs vs off)) /\
    d_chain d' = d_chain d /\ d_max d' = d_max d /\
    d_i d <= d_i d' <= d_i d + lenN (FA fs vs off).
Proof.
  induction fs as [|f fs IH]; intros vs i prev off st d rest Hrt Hwf Hty Hok E Hav Hoff Hprev;
    inversion Hrt as [|f' fs' x vs' Hf Hrt']; subst.
  - exists [], st, d. cbn [map d_cont_fixed]. change (lenN (FA [] [] off)) with 0.
    rewrite N.add_0_r. split; [reflexivity|]. split; [exact I|]. split; [apply stepped_refl|].
    repeat split; lia.
  - cbn [forallb] in Hwf. apply andb_true_iff in Hwf. destruct Hwf as [Hwf1 Hwf2].
    cbn [has_type_fields] in Hty. apply andb_true_iff in Hty. destruct Hty as [Hty1 Hty2].
    rewrite FA_cons in *. rewrite var_len_cons in Hoff.
    cbn [map d_cont_fixed dfs_match]. rewrite flat_fixed_len_zero by assumption.
    destruct (spec_is_fixed f) eqn:Hfx; cbv iota in Hoff; cbn [negb]; rewrite lenN_app in *;
      rewrite <- app_assoc in E.
    + (* fixed-size field, in a sub scope of its size *)
      assert (Efl : flat_fixed_len f = lenN (spec_ser f x)).
      { unfold flat_fixed_len. rewrite Hfx. symmetry. apply spec_ser_fixed_len; assumption. }
      rewrite Efl.
      destruct (in_sub_scope_rt _ _ _ _ (ct_child cs i) st d _ Hf Hok E) as (c' & st1 & Es & Hst1); [lia|].
      rewrite Es. cbn [bind].
      pose proof (stepped_stream_rest _ _ _ _ _ E Hst1) as E1.
      destruct (IH vs' (S i) (add64 prev (lenN (spec_ser f x))) off st1 d rest Hrt' Hwf2 Hty2)
        as (dfs & st2 & d2 & Ev & Hm & Hst2 & Ech & Emax & Eidx); try assumption.
      { eapply rd_ok_same; eassumption. }
      { rewrite (stepped_avail _ _ _ _ Hst1). lia. }
      { rewrite add64_small by lia. lia. }
      rewrite Ev. cbn [bind]. exists (DFixed x c' :: dfs), st2, d2.
      split; [rewrite add64_small by lia; f_equal; f_equal; f_equal; f_equal; lia|].
      split; [split; [exists c'; reflexivity|exact Hm]|].
      split; [eapply stepped_trans; eassumption|]. repeat split; try assumption; lia.
    + (* variable-size field: its offset *)
      change (lenN (le_bytes 4 off)) with 4 in *.
      destruct (read_u32_enc st d off (FA fs vs' (off + lenN (spec_ser f x)) ++ rest) Hok)
        as (st1 & Er & Hst1); [lia|exact E|lia|].
      rewrite Er. cbn [bind].
      assert (Hok1 : rd_ok st1 (mkDR (d_i d + 4) (d_max d) (d_chain d))).
      { eapply rd_ok_advance; try eassumption; cbn [d_chain d_max d_i]; try reflexivity; lia. }
      assert (E1 : r_stream st1 = FA fs vs' (off + lenN (spec_ser f x)) ++ rest).
      { eapply (stepped_stream_rest st st1 _ (le_bytes 4 off)); [exact E|exact Hst1]. }
      destruct (IH vs' (S i) (add64 prev 4) (off + lenN (spec_ser f x)) st1 _ rest Hrt' Hwf2 Hty2 Hok1 E1)
        as (dfs & st2 & d2 & Ev & Hm & Hst2 & Ech & Emax & Eidx).
      { cbn [d_chain]. rewrite (stepped_avail _ _ _ _ Hst1). lia. }
      { lia. }
      { rewrite add64_small by lia. lia. }
      rewrite Ev. cbn [bind d_chain d_max d_i] in *. exists (DVar off :: dfs), st2, d2.
      split; [rewrite add64_small by lia; f_equal; f_equal; f_equal; f_equal; lia|].
      split; [split; [reflexivity|exact Hm]|].
      split; [eapply stepped_trans; eassumption|]. repeat split; try assumption; lia.
Qed.

Section Nxt.
  Variable scope : N.
  Fixpoint nxt_off (l : list (dfield * fdecoder)) : N :=
    match l with
    | [] => scope
    | (DVar o, _) :: _ => o
    | _ :: l' => nxt_off l'
    end.
End Nxt.

Lemma d_cont_var_cons_var off dec rest cs i scope st d :
  d_cont_var ((DVar off, dec) :: rest) cs i scope st d =
  let next := nxt_off scope rest in
  if next <? off then Err else
  do r <- in_sub_scope dec (ct_child cs i) (next - off) st d; let '(v, c, st1) := r in
  do more <- d_cont_var rest cs (S i) scope st1 d; let '(vs, cs', st2) := more in
  OK (v :: vs, c :: cs', st2).
Proof. reflexivity. Qed.

Lemma nxt_off_match scope : forall fs vs off dfs,
  dfs_match fs vs off dfs -> scope = off + var_len fs vs ->
  nxt_off scope (combine dfs (map flat_dec fs)) = off.
Proof.
  induction fs as [|f fs IH]; intros [|x vs] off [|df dfs] Hm Hs; cbn [dfs_match] in Hm;
    try contradiction.
  - cbn. rewrite Hs. unfold var_len. cbn. lia.
  - rewrite var_len_cons in Hs. cbn [map combine nxt_off].
    destruct (spec_is_fixed f).
    + destruct Hm as [[c ->] Hm]. apply (IH vs); [exact Hm|lia].
    + destruct Hm as [-> Hm]. reflexivity.
Qed.

Lemma d_cont_var_rt cs d scope : forall fs vs dfs i off st rest,
  dfs_match fs vs off dfs -> fields_rt fs vs -> scope = off + var_len fs vs ->
  rd_ok st d -> r_stream st = VA fs vs off ++ rest ->
  lenN (VA fs vs off) <= avail st (d_chain d) ->
  exists cs' st',
    d_cont_var (combine dfs (map flat_dec fs)) cs i scope st d = OK (vs, cs', st') /\
    stepped st st' (d_chain d) (lenN (VA fs vs off)).
Proof.
  induction fs as [|f fs IH]; intros vs dfs i off st rest Hm Hrt;
    inversion Hrt as [|f' fs' x vs' Hf Hrt']; subst; intros Hs Hok E Hav; destruct dfs as [|df dfs];
    cbn [dfs_match] in Hm; try contradiction.
  - exists [], st. split; [reflexivity|apply stepped_refl].
  - rewrite VA_cons in *. rewrite var_len_cons in Hs. cbn [map combine].
    destruct (spec_is_fixed f) eqn:Hfx.
    + destruct Hm as [[c ->] Hm]. cbn [d_cont_var].
      destruct (IH vs' dfs (S i) off st rest Hm Hrt') as (cs' & st' & Ev & Hst); try assumption; try lia.
      rewrite Ev. cbn [bind]. exists (c :: cs'), st'. split; [reflexivity|exact Hst].
    + destruct Hm as [-> Hm]. rewrite d_cont_var_cons_var. cbv zeta.
      rewrite (nxt_off_match scope fs vs' (off + lenN (spec_ser f x)) dfs Hm) by lia.
      destruct (N.ltb_spec (off + lenN (spec_ser f x)) off) as [|_]; [lia|].
      replace (off + lenN (spec_ser f x) - off) with (lenN (spec_ser f x)) by lia.
      rewrite lenN_app in *. rewrite <- app_assoc in E.
      destruct (in_sub_scope_rt _ _ _ _ (ct_child cs i) st d _ Hf Hok E) as (c' & st1 & Es & Hst1); [lia|].
      rewrite Es. cbn [bind].
      pose proof (stepped_stream_rest _ _ _ _ _ E Hst1) as E1.
      destruct (IH vs' dfs (S i) (off + lenN (spec_ser f x)) st1 rest Hm Hrt')
        as (cs' & st2 & Ev & Hst2); try assumption.
      { lia. }
      { eapply rd_ok_same; eassumption. }
      { rewrite (stepped_avail _ _ _ _ Hst1). lia. }
      rewrite Ev. cbn [bind]. exists (c' :: cs'), st2. split; [reflexivity|].
      eapply stepped_trans; eassumption.
Qed.

Fixpoint fvo (l : list dfield) : option N :=
  match l with [] => None | DVar o :: _ => Some o | _ :: r => fvo r end.

Lemma first_var_off_fvo dfs : first_var_off dfs = fvo dfs.
Proof. reflexivity. Qed.

Lemma fvo_match : forall fs vs off dfs,
  dfs_match fs vs off dfs -> forallb spec_is_fixed fs = false -> fvo dfs = Some off.
Proof.
  induction fs as [|f fs IH]; intros [|x vs] off [|df dfs] Hm Hfx; cbn [dfs_match] in Hm;
    try contradiction; [discriminate Hfx|].
  cbn [forallb] in Hfx. destruct (spec_is_fixed f); cbn [andb] in Hfx.
  - destruct Hm as [[c ->] Hm]. cbn [fvo]. eapply IH; eassumption.
  - destruct Hm as [-> _]. reflexivity.
Qed.

Lemma dec_fixed_fields_rt c : forall fs vs i off st d rest,
  fields_rt fs vs -> forallb spec_is_fixed fs = true ->
  rd_ok st d -> r_stream st = FA fs vs off ++ rest ->
  lenN (FA fs vs off) <= avail st (d_chain d) ->
  exists cs' st' d',
    dec_fixed_fields flat_dec c fs i st d = OK (vs, cs', st', d') /\
    stepped st st' (d_chain d) (lenN (FA fs vs off)) /\
    d_chain d' = d_chain d /\ d_max d' = d_max d /\
    d_i d <= d_i d' <= d_i d + lenN (FA fs vs off).
Proof.
  induction fs as [|f fs IH]; intros vs i off st d rest Hrt Hfx Hok E Hav;
    inversion Hrt as [|f' fs' x vs' Hf Hrt']; subst.
  - exists [], st, d. change (lenN (FA [] [] off)) with 0. split; [reflexivity|].
    split; [apply stepped_refl|]. repeat split; lia.
  - cbn [forallb] in Hfx. apply andb_true_iff in Hfx. destruct Hfx as [Hfx1 Hfx2].
    rewrite FA_cons, Hfx1 in *. rewrite lenN_app in *. rewrite <- app_assoc in E.
    cbn [dec_fixed_fields].
    destruct (Hf (ct_child c i) st d _ Hok E) as (c1 & st1 & d1 & Ed & Hst1 & Ech1 & Emax1 & Eidx1);
      [lia|discriminate|].
    rewrite Ed. cbn [bind].
    assert (Hok1 : rd_ok st1 d1) by (eapply rd_ok_advance; try eassumption; lia).
    pose proof (stepped_stream_rest _ _ _ _ _ E Hst1) as E1.
    destruct (IH vs' (S i) off st1 d1 rest Hrt' Hfx2 Hok1 E1)
      as (cs' & st2 & d2 & Ev & Hst2 & Ech2 & Emax2 & Eidx2).
    { rewrite Ech1, (stepped_avail _ _ _ _ Hst1). lia. }
    rewrite Ev. cbn [bind]. exists (c1 :: cs'), st2, d2. split; [reflexivity|].
    rewrite Ech1 in Hst2. split; [eapply stepped_trans; eassumption|].
    repeat split; try congruence; lia.
Qed.

(* --- the induction --- *)
Definition rt_ok (t : ty) : Prop :=
  forall v, has_type v t = true -> lenN (spec_ser t v) < two32 ->
  dec_rt (flat_dec t) (spec_is_fixed t) (spec_ser t v) v.

Lemma series_fixed_enc e vs :
  ser_parts (map (fun x => (true, spec_ser e x)) vs) = concat (map (spec_ser e) vs).
Proof.
  rewrite <- ser_parts_all_fixed, map_map. reflexivity.
Qed.

Lemma series_var_enc e vs :
  ser_parts (map (fun x => (false, spec_ser e x)) vs) =
  flat_map (le_bytes 4) (offs_from (map (fun v => lenN (spec_ser e v)) vs) (4 * lenN vs)) ++
  concat (map (spec_ser e) vs).
Proof.
  rewrite <- (map_map (spec_ser e) (fun b => (false, b))), ser_parts_var_only.
  rewrite map_map. unfold lenN at 2 4. rewrite map_length. reflexivity.
Qed.

Lemma elem_len_le e vs x : In x vs ->
  lenN (spec_ser e x) <= lenN (ser_parts (map (fun x => (spec_is_fixed e, spec_ser e x)) vs)).
Proof.
  intros Hin. rewrite ser_series_lenN.
  pose proof (sumN_map_In_le (fun x => if spec_is_fixed e then lenN (spec_ser e x)
                                       else 4 + lenN (spec_ser e x)) vs x Hin) as H.
  cbv beta in H. destruct (spec_is_fixed e); lia.
Qed.

Lemma elems_rt e vs : rt_ok e -> forallb (fun x => has_type x e) vs = true ->
  lenN (ser_parts (map (fun x => (spec_is_fixed e, spec_ser e x)) vs)) < two32 ->
  Forall (fun v => dec_rt (flat_dec e) (spec_is_fixed e) (spec_ser e v) v) vs.
Proof.
  intros IHe Hall HL. apply Forall_forall. intros x Hin. apply IHe.
  - eapply seq_has_type_In; eassumption.
  - pose proof (elem_len_le e vs x Hin). lia.
Qed.

Lemma byte_seq_enc vs : forallb (fun x => has_type x (TUint 1)) vs = true ->
  lenN (concat (map (spec_ser (TUint 1)) vs)) = lenN vs /\
  map (fun b => VUint (N_of_byte b)) (concat (map (spec_ser (TUint 1)) vs)) = vs.
Proof.
  induction vs as [|x vs IH]; intros Hall; [split; reflexivity|].
  cbn [forallb] in Hall. apply andb_true_iff in Hall. destruct Hall as [Hx Hall].
  destruct (IH Hall) as [IH1 IH2]. destruct x; cbn [has_type] in Hx; try discriminate Hx.
  apply N.ltb_lt in Hx. change (2 ^ (8 * 1)) with 256 in Hx.
  cbn [map concat]. change (spec_ser (TUint 1) (VUint n)) with [byte_of_N n]. cbn [app map].
  rewrite !lenN_cons, IH1, IH2, BitfieldsProofs.N_of_byte_of_N by exact Hx. split; reflexivity.
Qed.

Ltac rt_done :=
  cbn [d_chain d_max d_i]; repeat split; try reflexivity; try assumption; try lia.

Lemma sumN_map_lenN_concat (g : val -> list byte) vs :
  sumN (map (fun v => lenN (g v)) vs) = lenN (concat (map g vs)).
Proof. rewrite lenN_concat, map_map. reflexivity. Qed.

Lemma nonneg_fsz e : wf_ty e = true -> negb (flat_fixed_len e =? 0) = spec_is_fixed e.
Proof. intros H. rewrite flat_fixed_len_zero by exact H. apply negb_involutive. Qed.

Lemma fixed_elems_len e vs : spec_is_fixed e = true -> forallb (fun x => has_type x e) vs = true ->
  Forall (fun v => lenN (spec_ser e v) = flat_fixed_len e) vs.
Proof.
  intros Hfx Hall. apply Forall_forall. intros x Hin. unfold flat_fixed_len. rewrite Hfx.
  apply spec_ser_fixed_len; [exact Hfx|]. eapply seq_has_type_In; eassumption.
Qed.

Lemma lenN_concat_const (g : val -> list byte) vs k :
  Forall (fun v => lenN (g v) = k) vs -> lenN (concat (map g vs)) = lenN vs * k.
Proof.
  intros HF. rewrite <- sumN_map_lenN_concat. apply sumN_map_const. exact HF.
Qed.

Lemma lenN_nil_iff {A} (l : list A) : lenN l = 0 <-> l = [].
Proof. destruct l; unfold lenN; cbn [length]; split; intros H; try reflexivity; try discriminate; lia. Qed.

(* the body shared by Vector and List when the items are variable-size *)
Lemma rt_var_items e vs vstyle st d rest (cs : ctree) :
  Forall (fun v => dec_rt (flat_dec e) false (spec_ser e v) v) vs ->
  let enc := ser_parts (map (fun x => (false, spec_ser e x)) vs) in
  lenN enc < two32 -> rd_ok st d -> r_stream st = enc ++ rest ->
  lenN enc <= avail st (d_chain d) ->
  exists st1 d1 cs' st2,
    d_read_offsets (length vs) st d =
      OK (offs_from (map (fun v => lenN (spec_ser e v)) vs) (4 * lenN vs), st1, d1) /\
    d_var_items (fun _ => flat_dec e) cs O
      (offs_from (map (fun v => lenN (spec_ser e v)) vs) (4 * lenN vs)) (lenN enc) 0 vstyle st1 d1
      = OK (vs, cs', st2) /\
    stepped st st2 (d_chain d) (lenN enc) /\
    d_chain d1 = d_chain d /\ d_max d1 = d_max d /\ d_i d1 = d_i d + 4 * lenN vs /\
    lenN enc = 4 * lenN vs + lenN (concat (map (spec_ser e) vs)).
Proof.
  intros HF enc HL Hok E Hav. unfold enc in *. clear enc.
  rewrite (series_var_enc e vs) in *.
  set (offs := offs_from (map (fun v => lenN (spec_ser e v)) vs) (4 * lenN vs)) in *.
  assert (Hlo : lenN offs = lenN vs).
  { unfold offs, lenN. rewrite offs_from_length, map_length. reflexivity. }
  rewrite lenN_app, lenN_flat_map_u32, Hlo in *. rewrite <- app_assoc in E.
  assert (Hb : Forall (fun o => o < two32) offs).
  { pose proof (offs_from_bound (map (fun v => lenN (spec_ser e v)) vs) (4 * lenN vs)
                  (4 * lenN vs + lenN (concat (map (spec_ser e) vs)))) as Hb.
    rewrite sumN_map_lenN_concat in Hb. specialize (Hb (N.le_refl _)). fold offs in Hb.
    revert Hb. apply Forall_impl. intros; lia. }
  destruct (d_read_offsets_rt offs st d _ Hb Hok E) as (st1 & Er & Hst1); [lia|].
  assert (Elen : length offs = length vs) by (unfold offs; rewrite offs_from_length, map_length; reflexivity).
  rewrite Elen, Hlo in *.
  set (d1 := mkDR (d_i d + 4 * lenN vs) (d_max d) (d_chain d)) in *.
  assert (Hok1 : rd_ok st1 d1).
  { eapply rd_ok_advance; try eassumption; unfold d1; cbn [d_chain d_max d_i]; try reflexivity; lia. }
  assert (E1 : r_stream st1 = concat (map (spec_ser e) vs) ++ rest).
  { eapply (stepped_stream_rest st st1 _ (flat_map (le_bytes 4) offs)); [exact E|].
    rewrite lenN_flat_map_u32, Hlo. exact Hst1. }
  destruct (d_var_items_rt (flat_dec e) false (spec_ser e) cs vstyle d1
              (4 * lenN vs + lenN (concat (map (spec_ser e) vs))) vs O (4 * lenN vs) 0 st1 rest HF)
    as (cs' & st2 & Ev & Hst2); try assumption.
  { lia. }
  { rewrite sumN_map_lenN_concat. reflexivity. }
  { pose proof two32_lt_two64. lia. }
  { unfold d1. cbn [d_chain]. rewrite (stepped_avail _ _ _ _ Hst1). lia. }
  exists st1, d1, cs', st2. split; [exact Er|]. split; [exact Ev|].
  split; [eapply stepped_trans; eassumption|]. unfold d1. rt_done.
Qed.

Lemma rt_vector e n : wf_ty (TVector e n) = true -> rt_ok e -> rt_ok (TVector e n).
Proof.
  intros Hwf IHe v Hty HL. destruct v; cbn [has_type] in Hty; try discriminate Hty.
  cbn [wf_ty] in Hwf. apply andb_true_iff in Hwf. destruct Hwf as [Hn Hwe]. apply N.leb_le in Hn.
  apply andb_true_iff in Hty. destruct Hty as [Hlen Hall]. apply N.eqb_eq in Hlen.
  fold (lenN vs) in Hlen. cbn [spec_ser spec_is_fixed] in *.
  pose proof (elems_rt e vs IHe Hall HL) as HF.
  intros c st d rest Hok E Hav Hsc. rewrite flat_dec_vector.
  destruct (is_byte_elem e) eqn:Eb.
  { apply is_byte_elem_eq in Eb. subst e. change (spec_is_fixed (TUint 1)) with true in *.
    rewrite (series_fixed_enc (TUint 1) vs) in *.
    destruct (byte_seq_enc vs Hall) as [El Ev].
    destruct (d_bytes_enc c st d _ rest Hok E Hav) as (st' & Er & Hst).
    rewrite El, Hlen in Er. rewrite Er. cbn [bind]. rewrite Ev.
    eexists _, _, _. split; [reflexivity|]. split; [exact Hst|]. rt_done. }
  cbv zeta. rewrite nonneg_fsz by exact Hwe.
  destruct (spec_is_fixed e) eqn:Hfx.
  - rewrite (series_fixed_enc e vs) in *.
    assert (HF' : Forall (fun v => dec_rt (flat_dec e) true (spec_ser e v) v /\
                                   lenN (spec_ser e v) = flat_fixed_len e) vs).
    { pose proof (fixed_elems_len e vs Hfx Hall) as HF2. rewrite Forall_forall in *. auto. }
    destruct (d_vector_fixed_rt (flat_dec e) true (spec_ser e) c (flat_fixed_len e) d vs O st rest HF' Hok E Hav)
      as (cs' & st' & Ev & Hst).
    rewrite <- Hlen, nat_of_lenN, Ev. cbn [bind].
    eexists _, _, _. split; [reflexivity|]. split; [exact Hst|]. rt_done.
  - specialize (Hsc eq_refl).
    destruct (rt_var_items e vs true st d rest c) as (st1 & d1 & cs' & st2 & Er & Ev & Hst & Ech & Emax & Eidx & El);
      try assumption.
    rewrite <- Hlen, nat_of_lenN, Er. cbn [bind].
    assert (Ehd : hd (mul64 4 (lenN vs)) (offs_from (map (fun v => lenN (spec_ser e v)) vs) (4 * lenN vs))
                  = 4 * lenN vs).
    { destruct vs; [|reflexivity]. change (lenN (@nil val)) with 0 in Hlen. lia. }
    rewrite Ehd, mul64_small by (unfold two32, two64 in *; lia). rewrite N.eqb_refl. cbn [negb].
    rewrite <- Hsc, Ev. cbn [bind].
    eexists _, _, _. split; [reflexivity|]. split; [exact Hst|]. rt_done. Show.
Qed.

Lemma root_seq_enc vs : forallb (fun x => has_type x TRoot) vs = true ->
  exists bss, vs = map VBytes bss /\ Forall (fun bs => lenN bs = 32) bss /\
              concat (map (spec_ser TRoot) vs) = concat bss.
Proof.
  induction vs as [|x vs IH]; intros Hall; [exists []; repeat split; constructor|].
  cbn [forallb] in Hall. apply andb_true_iff in Hall. destruct Hall as [Hx Hall].
  destruct (IH Hall) as (bss & -> & HF & Ec). destruct x; cbn [has_type] in Hx; try discriminate Hx.
  apply N.eqb_eq in Hx. exists (bs :: bss). cbn [map concat]. rewrite Ec.
  split; [reflexivity|]. split; [constructor; assumption|reflexivity].
Qed.

Lemma rt_list e n : wf_ty (TList e n) = true -> rt_ok e -> rt_ok (TList e n).
Proof.
  intros Hwe IHe v Hty HL. destruct v; cbn [has_type] in Hty; try discriminate Hty.
  cbn [wf_ty] in Hwe.
  apply andb_true_iff in Hty. destruct Hty as [Hlen Hall]. apply N.leb_le in Hlen.
  fold (lenN vs) in Hlen. cbn [spec_ser spec_is_fixed] in *.
  pose proof (elems_rt e vs IHe Hall HL) as HF.
  intros c st d rest Hok E Hav Hsc. specialize (Hsc eq_refl). rewrite flat_dec_list. cbv zeta.
  rewrite <- Hsc.
  destruct (is_byte_elem e) eqn:Eb.
  { apply is_byte_elem_eq in Eb. subst e. change (spec_is_fixed (TUint 1)) with true in *.
    rewrite (series_fixed_enc (TUint 1) vs) in *.
    destruct (byte_seq_enc vs Hall) as [El Ev].
    destruct (N.ltb_spec n (lenN (concat (map (spec_ser (TUint 1)) vs)))) as [|_]; [lia|].
    destruct (d_bytes_enc c st d _ rest Hok E Hav) as (st' & Er & Hst).
    rewrite Er. cbn [bind]. rewrite Ev.
    eexists _, _, _. split; [reflexivity|]. split; [exact Hst|]. rt_done. }
  destruct (is_root_elem e) eqn:Er.
  { apply is_root_elem_eq in Er. subst e. change (spec_is_fixed TRoot) with true in *.
    rewrite (series_fixed_enc TRoot vs) in *.
    destruct (root_seq_enc vs Hall) as (bss & -> & HFb & Ec). rewrite Ec in *.
    assert (El : lenN (concat bss) = lenN bss * 32).
    { rewrite lenN_concat. apply sumN_map_const. exact HFb. }
    assert (Elm : lenN (map VBytes bss) = lenN bss) by (unfold lenN; rewrite map_length; reflexivity).
    rewrite Elm in Hlen.
    destruct (dec_roots_rt bss st d rest HFb Hok E Hav) as (st' & d' & Ev & Hst & Ech & Emax & Eidx).
    rewrite El. rewrite N.mod_mul, N.div_mul by discriminate. rewrite N.eqb_refl. cbn [negb].
    destruct (N.ltb_spec n (lenN bss)) as [|_]; [lia|]. rewrite nat_of_lenN, Ev.
    eexists _, _, _. split; [reflexivity|]. rewrite <- El. split; [exact Hst|]. rt_done. }
  destruct (N.eqb_spec (lenN (ser_parts (map (fun x => (spec_is_fixed e, spec_ser e x)) vs))) 0) as [E0|E0].
  { assert (vs = []) as ->.
    { destruct vs as [|x vs]; [reflexivity|exfalso]. rewrite ser_series_lenN in E0.
      cbn [map] in E0. rewrite sumN_cons in E0. destruct (spec_is_fixed e) eqn:Hfx; [|lia].
      assert (Hx : has_type x e = true) by (eapply seq_has_type_In; [eassumption|left; reflexivity]).
      rewrite (spec_ser_fixed_len e x Hfx Hx) in E0.
      pose proof (wf_fixed_len_pos e Hwe Hfx). lia. }
    eexists _, _, _. split; [reflexivity|]. split; [apply stepped_refl|]. rt_done. }
  rewrite nonneg_fsz by exact Hwe.
  destruct (spec_is_fixed e) eqn:Hfx.
  - rewrite (series_fixed_enc e vs) in *.
    pose proof (fixed_elems_len e vs Hfx Hall) as HF2.
    assert (HF' : Forall (fun v => dec_rt (flat_dec e) true (spec_ser e v) v /\
                                   lenN (spec_ser e v) = flat_fixed_len e) vs).
    { rewrite Forall_forall in *. auto. }
    assert (Hpos : 1 <= flat_fixed_len e).
    { unfold flat_fixed_len. rewrite Hfx. apply wf_fixed_len_pos; assumption. }
    rewrite (lenN_concat_const (spec_ser e) vs _ HF2) in *.
    rewrite N.mod_mul, N.div_mul by lia. rewrite N.eqb_refl. cbn [negb].
    destruct (N.ltb_spec n (lenN vs)) as [|_]; [lia|].
    destruct (d_vector_fixed_rt (flat_dec e) true (spec_ser e) CFresh (flat_fixed_len e) d vs O st rest HF' Hok E)
      as (cs' & st' & Ev & Hst).
    { rewrite (lenN_concat_const (spec_ser e) vs _ HF2). exact Hav. }
    rewrite nat_of_lenN, Ev. cbn [bind].
    eexists _, _, _. split; [reflexivity|].
    rewrite (lenN_concat_const (spec_ser e) vs _ HF2) in Hst. split; [exact Hst|]. rt_done.
  - destruct (rt_var_items e vs false st d rest CFresh)
      as (st1 & d1 & cs' & st2 & Er' & Ev & Hst & Ech & Emax & Eidx & El); try assumption.
    destruct vs as [|x vs'].
    { exfalso. apply E0. reflexivity. }
    cbn [length d_read_offsets map offs_from] in Er'.
    destruct (dr_read_u32 st d) as [[[first st0] d0]| |]; cbn [bind] in Er'; try discriminate Er'.
    destruct (d_read_offsets (length vs') st0 d0) as [[[offs st1'] d1']| |] eqn:Ero; cbn [bind] in Er';
      try discriminate Er'.
    inversion Er'; subst first offs st1' d1'. clear Er'. cbn [bind].
    rewrite lenN_cons in *.
    replace (4 * (1 + lenN vs')) with ((1 + lenN vs') * 4) by lia.
    rewrite N.mod_mul, N.div_mul by discriminate. rewrite N.eqb_refl. cbn [negb].
    destruct (N.ltb_spec n (1 + lenN vs')) as [|_]; [lia|].
    destruct (N.eqb_spec ((1 + lenN vs') * 4) 0) as [|_]; [lia|]. cbn [orb].
    destruct (N.ltb_spec (lenN (ser_parts (map (fun x0 => (false, spec_ser e x0)) (x :: vs'))))
                         ((1 + lenN vs') * 4)) as [|_]; [lia|].
    replace (nat_of (1 + lenN vs' - 1)) with (length vs') by (unfold nat_of, lenN; lia).
    rewrite Ero. cbn [bind].
    cbn [map offs_from] in Ev |- *. replace ((1 + lenN vs') * 4) with (4 * (1 + lenN vs')) by lia.
    rewrite Ev. cbn [bind].
    eexists _, _, _. split; [reflexivity|]. split; [exact Hst|]. rt_done. Show.
Qed.
