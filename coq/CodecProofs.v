(* CodecProofs.v — properties C09 and C10 about the flat codec model Codec.v
   (codec/encoder.go, codec/decoder.go and a generic flat value composed from the helpers).

   Contents
     1. readable views of the nested fixpoints of [flat_enc] / [flat_len] / [flat_dec]
     2. arithmetic and list helpers
     3. the encoder: [flat_enc] = [spec_ser] (or Panic beyond 2^32)          (C09 a)
     4. the reported lengths: [flat_len] = length of [spec_ser]              (C09 b)
     5. the reader: reads, sub scopes, [stepped]
     6. round trip through the decoder, any prior destination state          (C09 c)
     7. the decoder never panics                                             (C10 d)
     8. an accepting decoder consumes exactly its scope; canonicity          (C10 e)
     9. Examples

   Spec vocabulary used in Props/C09.v and Props/C10.v: only definitions of the model files
   ([flat_enc], [flat_len], [flat_decode], [spec_ser], [has_type], [wf_ty], [small_params],
   [spec_is_fixed], [spec_fixed_len], [lenN], [ctree]). *)
From Coq Require Import PeanoNat ZArith ZifyN ZifyNat ZifyBool.
From Ztyp Require Import Base Bitlen Bitfields Merkleize Types Spec Reader Codec Repr SizeProofs.
From Ztyp Require BitfieldsProofs BitlenProofs.
Open Scope N_scope.

#[local] Ltac Zify.zify_post_hook ::= Z.div_mod_to_equations.

Local Arguments N.pow : simpl never.
Local Arguments N.shiftl : simpl never.
Local Arguments N.shiftr : simpl never.
Local Arguments N.land : simpl never.
Local Arguments N.lor : simpl never.
Local Arguments N.mul : simpl never.
Local Arguments N.add : simpl never.
Local Arguments N.sub : simpl never.
Local Arguments N.div : simpl never.
Local Arguments N.modulo : simpl never.
Local Arguments N.of_nat : simpl never.
Local Arguments N.to_nat : simpl never.
Local Arguments N.testbit : simpl never.

(* ------------------------------------------------------------------------------------ *)
(** * 1. Views of the nested fixpoints *)

Section EncViews.
  Variable enc : val -> res (list byte).
  Fixpoint enc_items (vs : list val) : res (list (list byte)) :=
    match vs with
    | [] => OK []
    | x :: r => do b <- enc x; do bs <- enc_items r; OK (b :: bs)
    end.
End EncViews.

Section EncFields.
  Variable enc : ty -> val -> res (list byte).
  Fixpoint enc_fields (fs : list ty) (vs : list val) : res (list (N * list byte)) :=
    match fs, vs with
    | f :: fs', x :: vs' =>
      do b <- enc f x; do r <- enc_fields fs' vs'; OK ((flat_fixed_len f, b) :: r)
    | _, _ => OK []
    end.
End EncFields.

Lemma flat_enc_vector e n vs :
  flat_enc (TVector e n) (VSeq vs) =
  do items <- enc_items (flat_enc e) vs;
  if is_byte_elem e || is_root_elem e then OK (concat items) else w_list (flat_fixed_len e) items.
Proof. reflexivity. Qed.

Lemma flat_enc_list e n vs :
  flat_enc (TList e n) (VSeq vs) =
  do items <- enc_items (flat_enc e) vs;
  if is_byte_elem e || is_root_elem e then OK (concat items) else w_list (flat_fixed_len e) items.
Proof. reflexivity. Qed.

Lemma flat_enc_cont fs vs :
  flat_enc (TContainer fs) (VCont vs) =
  do parts <- enc_fields flat_enc fs vs;
  if forallb spec_is_fixed fs then OK (concat (map snd parts)) else w_container parts.
Proof. reflexivity. Qed.

Lemma flat_enc_union none opts sel ov :
  flat_enc (TUnion none opts) (VUnion sel ov) =
  match ov with
  | None => if negb (sel =? 0) then Err else OK [byte_of_N sel]
  | Some x =>
    pick_ty Err (fun o => do b <- flat_enc o x; OK (byte_of_N sel :: b))
            opts (nat_of (if none then sel - 1 else sel))
  end.
Proof. destruct ov; reflexivity. Qed.

Section LenFields.
  Variable len : ty -> val -> N.
  Fixpoint len_fields (fs : list ty) (vs : list val) (acc : N) : N :=
    match fs, vs with
    | f :: fs', x :: vs' =>
      len_fields fs' vs' (add64 acc (if flat_fixed_len f =? 0 then add64 (len f x) 4
                                     else flat_fixed_len f))
    | _, _ => acc
    end.
End LenFields.

Lemma flat_len_cont fs vs :
  flat_len (TContainer fs) (VCont vs) = len_fields flat_len fs vs 0.
Proof. reflexivity. Qed.

Lemma flat_len_union none opts sel ov :
  flat_len (TUnion none opts) (VUnion sel ov) =
  match ov with
  | None => 1
  | Some x => pick_ty 1 (fun o => 1 + flat_len o x) opts (nat_of (if none then sel - 1 else sel))
  end.
Proof. destruct ov; reflexivity. Qed.

(* ------------------------------------------------------------------------------------ *)
(** * 2. Helpers *)

Lemma two32_lt_two64 : two32 < two64.
Proof. reflexivity. Qed.

Lemma wrap64_0 : wrap64 0 = 0.
Proof. reflexivity. Qed.

Lemma add64_small a b : a + b < two64 -> add64 a b = a + b.
Proof. intros H. unfold add64. apply wrap64_small, H. Qed.

Lemma mul64_small a b : a * b < two64 -> mul64 a b = a * b.
Proof. intros H. unfold mul64. apply wrap64_small, H. Qed.

Lemma fold_add64 {A} (g : A -> N) : forall l a,
  fold_left (fun acc x => add64 acc (g x)) l (wrap64 a) = wrap64 (a + sumN (map g l)).
Proof.
  induction l as [|x l IH]; intros a; cbn [fold_left map].
  - change (sumN []) with 0. rewrite N.add_0_r. reflexivity.
  - rewrite sumN_cons. unfold add64 at 2. rewrite wrap64_add_l, IH. f_equal. lia.
Qed.

Lemma fold_add64_0 {A} (g : A -> N) l : sumN (map g l) < two64 ->
  fold_left (fun acc x => add64 acc (g x)) l 0 = sumN (map g l).
Proof.
  intros H. rewrite <- wrap64_0 at 1. rewrite fold_add64, N.add_0_l. apply wrap64_small, H.
Qed.

(* a fixed-size well-formed type has a non-zero size: FixedLength() = 0 means variable-size *)
Lemma sumN_pos_of_Forall {A} (g : A -> N) : forall l, l <> [] ->
  Forall (fun x => 1 <= g x) l -> 1 <= sumN (map g l).
Proof.
  intros [|x l] Hne HF; [contradiction|]. cbn [map]. rewrite sumN_cons.
  pose proof (Forall_inv HF) as Hx. cbv beta in Hx. lia.
Qed.

Lemma wf_fixed_len_pos : forall t, wf_ty t = true -> spec_is_fixed t = true -> 1 <= spec_fixed_len t.
Proof.
  induction t as [w| |n| |n|n|e n IHe|e n IHe|fs IHfs|none opts IHopts] using ty_ind';
    intros Hwf Hfx; cbn [wf_ty spec_is_fixed spec_fixed_len] in *; try discriminate Hfx; try lia.
  - unfold uint_width_ok in Hwf. lia.
  - apply andb_true_iff in Hwf. destruct Hwf as [Hn Hwe]. apply N.leb_le in Hn.
    rewrite Hfx. specialize (IHe Hwe Hfx). nia.
  - apply andb_true_iff in Hwf. destruct Hwf as [Hne Hall]. rewrite Hfx.
    apply sumN_pos_of_Forall.
    + intros ->. discriminate Hne.
    + rewrite Forall_forall in *. rewrite forallb_forall in Hall, Hfx.
      intros f Hin. apply IHfs; auto.
Qed.

Lemma flat_fixed_len_zero t : wf_ty t = true ->
  (flat_fixed_len t =? 0) = negb (spec_is_fixed t).
Proof.
  intros Hwf. unfold flat_fixed_len. destruct (spec_is_fixed t) eqn:Hfx; [|reflexivity].
  pose proof (wf_fixed_len_pos t Hwf Hfx). apply N.eqb_neq. lia.
Qed.

Lemma is_byte_elem_eq e : is_byte_elem e = true -> e = TUint 1.
Proof. destruct e; cbn; try discriminate. intros H. apply N.eqb_eq in H. subst. reflexivity. Qed.

Lemma is_root_elem_eq e : is_root_elem e = true -> e = TRoot.
Proof. destruct e; cbn; try discriminate. reflexivity. Qed.

(* ------------------------------------------------------------------------------------ *)
(** * 3. The encoder *)

(* the parts of a series as the encoder sees them: (FixedLength(), bytes) *)
Definition to_part (p : N * list byte) : part := (negb (fst p =? 0), snd p).
Definition var_sum (ps : list (N * list byte)) : N :=
  sumN (map (fun p => if fst p =? 0 then lenN (snd p) else 0) ps).

Lemma w_offset_ok po psz : po + psz < two32 ->
  w_offset po psz = OK (po + psz, le_bytes 4 (po + psz)).
Proof.
  intros H. unfold w_offset.
  destruct (N.leb_spec two32 po); [lia|]. destruct (N.leb_spec two32 psz); [lia|].
  destruct (N.leb_spec two32 (po + psz)); [lia|]. reflexivity.
Qed.

Lemma w_offset_panic po psz : two32 <= po + psz -> w_offset po psz = Panic.
Proof.
  intros H. unfold w_offset.
  destruct (N.leb_spec two32 po); [reflexivity|]. destruct (N.leb_spec two32 psz); [reflexivity|].
  destruct (N.leb_spec two32 (po + psz)); [reflexivity|lia].
Qed.

Lemma w_cont_fixed_spec : forall ps po psz,
  w_cont_fixed ps po psz = OK (fst (ser_parts_go (map to_part ps) (po + psz))) \/
  (w_cont_fixed ps po psz = Panic /\ two32 <= po + psz + var_sum ps).
Proof.
  induction ps as [|[fl bs] ps IH]; intros po psz; [left; reflexivity|].
  cbn [w_cont_fixed map]. unfold to_part at 1. cbn [fst snd]. unfold var_sum. cbn [map fst snd].
  rewrite sumN_cons. fold (var_sum ps).
  destruct (fl =? 0) eqn:Efl; cbn [negb ser_parts_go].
  - destruct (N.lt_ge_cases (po + psz) two32) as [Hlt|Hge].
    + rewrite w_offset_ok by assumption. cbn [bind].
      destruct (IH (po + psz) (lenN bs)) as [E|[E Hp]].
      * left. rewrite E. cbn [bind].
        destruct (ser_parts_go (map to_part ps) (po + psz + lenN bs)) as [f v]. reflexivity.
      * right. rewrite E. split; [reflexivity|lia].
    + right. rewrite w_offset_panic by assumption. split; [reflexivity|lia].
  - destruct (IH po psz) as [E|[E Hp]].
    + left. rewrite E. cbn [bind].
      destruct (ser_parts_go (map to_part ps) (po + psz)) as [f v]. reflexivity.
    + right. rewrite E. split; [reflexivity|lia].
Qed.

Lemma ser_parts_go_var : forall ps off,
  snd (ser_parts_go (map to_part ps) off) = concat (map snd (filter (fun f => fst f =? 0) ps)).
Proof.
  induction ps as [|[fl bs] ps IH]; intros off; [reflexivity|].
  cbn [map filter fst]. unfold to_part at 1. cbn [fst snd].
  destruct (fl =? 0) eqn:Efl; cbn [negb ser_parts_go map concat snd].
  - specialize (IH (off + lenN bs)).
    destruct (ser_parts_go (map to_part ps) (off + lenN bs)) as [f v]. cbn [snd] in *.
    rewrite IH. reflexivity.
  - specialize (IH off). destruct (ser_parts_go (map to_part ps) off) as [f v]. exact IH.
Qed.

Lemma ser_parts_go_all_fixed : forall (items : list (list byte)) off,
  ser_parts_go (map (fun b => (true, b)) items) off = (concat items, []).
Proof.
  induction items as [|b items IH]; intros off; [reflexivity|].
  cbn [map ser_parts_go]. rewrite IH. reflexivity.
Qed.

Lemma ser_parts_all_fixed items : ser_parts (map (fun b => (true, b)) items) = concat items.
Proof. unfold ser_parts. rewrite ser_parts_go_all_fixed. apply app_nil_r. Qed.

Lemma w_offsets_as_cont : forall items po psz,
  w_offsets (map lenN items) po psz = w_cont_fixed (map (fun b : list byte => (0, b)) items) po psz.
Proof.
  induction items as [|b items IH]; intros po psz; [reflexivity|].
  cbn [map w_offsets w_cont_fixed]. change (negb (0 =? 0)) with false. cbv iota.
  destruct (w_offset po psz) as [[off obs]| |]; cbn [bind]; try reflexivity.
  rewrite IH. reflexivity.
Qed.

Lemma part_len_le_total (ps : list part) : sumN (map part_fixed_size ps) <= sumN (map part_len ps).
Proof.
  apply sumN_map_le. apply Forall_forall. intros [fx bs] _.
  unfold part_fixed_size, part_len. cbn [fst snd]. destruct fx; lia.
Qed.

Lemma var_sum_total ps :
  sumN (map part_fixed_size (map to_part ps)) + var_sum ps = sumN (map part_len (map to_part ps)).
Proof.
  induction ps as [|[fl bs] ps IH]; [reflexivity|].
  unfold var_sum in *. cbn [map]. rewrite !sumN_cons.
  unfold to_part at 1 3, part_fixed_size at 1, part_len at 1. cbn [fst snd].
  destruct (fl =? 0); cbn [negb]; lia.
Qed.

(* the (FixedLength, encoding) pairs of a series of items / of the fields of a container *)
Fixpoint enc_parts (fs : list ty) (vs : list val) : list (N * list byte) :=
  match fs, vs with
  | f :: fs', x :: vs' => (flat_fixed_len f, spec_ser f x) :: enc_parts fs' vs'
  | _, _ => []
  end.

Lemma enc_parts_spec : forall fs vs,
  forallb wf_ty fs = true -> has_type_fields fs vs = true ->
  map to_part (enc_parts fs vs) = ser_fields fs vs /\
  Forall (fun p => fst p = 0 \/ fst p = lenN (snd p)) (enc_parts fs vs).
Proof.
  induction fs as [|f fs IH]; intros [|x vs] Hwf Hty; cbn [has_type_fields] in Hty;
    try discriminate Hty; [split; [reflexivity|constructor]|].
  cbn [forallb] in Hwf. apply andb_true_iff in Hwf. destruct Hwf as [Hwf1 Hwf2].
  apply andb_true_iff in Hty. destruct Hty as [Hty1 Hty2].
  destruct (IH vs Hwf2 Hty2) as [E HF]. cbn [enc_parts map ser_fields]. split.
  - rewrite E. unfold to_part. cbn [fst snd]. rewrite flat_fixed_len_zero, negb_involutive by assumption.
    reflexivity.
  - constructor; [|exact HF]. cbn [fst snd]. unfold flat_fixed_len.
    destruct (spec_is_fixed f) eqn:Hfx; [right|left; reflexivity].
    symmetry. apply spec_ser_fixed_len; assumption.
Qed.

Lemma fixed_len_fold ps :
  Forall (fun p => fst p = 0 \/ fst p = lenN (snd p)) ps ->
  sumN (map (fun f : N * list byte => if fst f =? 0 then 4 else fst f) ps) =
  sumN (map part_fixed_size (map to_part ps)).
Proof.
  intros HF. rewrite map_map. apply sumN_map_ext. revert HF. apply Forall_impl.
  intros [fl bs] H. unfold to_part, part_fixed_size. cbn [fst snd] in *.
  destruct (N.eqb_spec fl 0) as [E|E]; cbn [negb]; [reflexivity|]. destruct H; [contradiction|assumption].
Qed.

Lemma w_container_spec ps :
  Forall (fun p => fst p = 0 \/ fst p = lenN (snd p)) ps ->
  lenN (ser_parts (map to_part ps)) < two64 ->
  w_container ps = OK (ser_parts (map to_part ps)) \/
  (w_container ps = Panic /\ two32 <= lenN (ser_parts (map to_part ps))).
Proof.
  intros HF HL. rewrite ser_parts_lenN in *. unfold w_container, ser_parts.
  pose proof (part_len_le_total (map to_part ps)) as Hle.
  rewrite fold_add64_0 by (rewrite fixed_len_fold by assumption; lia).
  rewrite fixed_len_fold by assumption.
  set (FL := sumN (map part_fixed_size (map to_part ps))) in *.
  pose proof (w_cont_fixed_spec ps FL 0) as Hw. rewrite N.add_0_r in Hw.
  pose proof (ser_parts_go_var ps FL) as Hv.
  destruct Hw as [E|[E Hp]].
  - left. rewrite E. cbn [bind]. destruct (ser_parts_go (map to_part ps) FL) as [f v].
    cbn [fst snd] in *. rewrite Hv. reflexivity.
  - right. rewrite E. split; [reflexivity|]. pose proof (var_sum_total ps). fold FL in H. lia.
Qed.

Lemma w_list_var_spec (items : list (list byte)) :
  lenN (ser_parts (map (fun b => (false, b)) items)) < two64 ->
  w_list 0 items = OK (ser_parts (map (fun b => (false, b)) items)) \/
  (w_list 0 items = Panic /\ two32 <= lenN (ser_parts (map (fun b => (false, b)) items))).
Proof.
  intros HL.
  assert (Emap : map (fun b : list byte => (false, b)) items =
                 map to_part (map (fun b : list byte => (0, b)) items)).
  { rewrite map_map. reflexivity. }
  rewrite Emap in *. set (ps := map (fun b : list byte => (0, b)) items) in *.
  rewrite ser_parts_lenN in *. unfold w_list. change (0 =? 0) with true. cbv iota.
  rewrite w_offsets_as_cont. fold ps.
  assert (EFL : sumN (map part_fixed_size (map to_part ps)) = 4 * lenN items).
  { unfold ps. rewrite !map_map. cbn [to_part fst snd]. unfold part_fixed_size. cbn [fst].
    rewrite (sumN_map_const _ 4); [lia|]. apply Forall_forall. intros; reflexivity. }
  pose proof (part_len_le_total (map to_part ps)) as Hle.
  rewrite mul64_small by lia. unfold ser_parts. rewrite EFL.
  pose proof (w_cont_fixed_spec ps (4 * lenN items) 0) as Hw. rewrite N.add_0_r in Hw.
  pose proof (ser_parts_go_var ps (4 * lenN items)) as Hv.
  assert (Ecat : concat (map snd (filter (fun f : N * list byte => fst f =? 0) ps)) = concat items).
  { unfold ps. clear. induction items as [|b items IH]; [reflexivity|].
    cbn [map filter fst]. change (0 =? 0) with true. cbv iota. cbn [map snd concat]. rewrite IH.
    reflexivity. }
  destruct Hw as [E|[E Hp]].
  - left. rewrite E. cbn [bind]. destruct (ser_parts_go (map to_part ps) (4 * lenN items)) as [f v].
    cbn [fst snd] in *. rewrite Hv, Ecat. reflexivity.
  - right. rewrite E. split; [reflexivity|]. pose proof (var_sum_total ps). lia.
Qed.

(* the statement proved by induction on the type *)
Definition enc_res_ok (r : res (list byte)) (bs : list byte) : Prop :=
  r = OK bs \/ (r = Panic /\ two32 <= lenN bs).

Definition enc_ok (t : ty) : Prop :=
  forall v, has_type v t = true -> lenN (spec_ser t v) < two64 ->
  enc_res_ok (flat_enc t v) (spec_ser t v).

Lemma enc_items_spec (enc : val -> res (list byte)) (g : val -> list byte) : forall vs,
  (forall x, In x vs -> enc_res_ok (enc x) (g x)) ->
  enc_items enc vs = OK (map g vs) \/
  (enc_items enc vs = Panic /\ exists x, In x vs /\ two32 <= lenN (g x)).
Proof.
  induction vs as [|x vs IH]; intros H; [left; reflexivity|].
  cbn [enc_items map].
  destruct (H x (or_introl eq_refl)) as [E|[E Hp]].
  - rewrite E. cbn [bind].
    destruct IH as [E2|[E2 (y & Hin & Hy)]]; [intros y Hy; apply H; right; exact Hy| |].
    + left. rewrite E2. reflexivity.
    + right. rewrite E2. split; [reflexivity|]. exists y. split; [right; exact Hin|exact Hy].
  - right. rewrite E. split; [reflexivity|]. exists x. split; [left; reflexivity|exact Hp].
Qed.

Lemma enc_fields_spec : forall fs, Forall enc_ok fs -> forall vs,
  has_type_fields fs vs = true ->
  sumN (map part_len (ser_fields fs vs)) < two64 ->
  enc_fields flat_enc fs vs = OK (enc_parts fs vs) \/
  (enc_fields flat_enc fs vs = Panic /\ two32 <= sumN (map part_len (ser_fields fs vs))).
Proof.
  induction fs as [|f fs IH]; intros HF [|x vs] Hty HL; cbn [has_type_fields] in Hty;
    try discriminate Hty; [left; reflexivity|].
  pose proof (Forall_inv HF) as Hf; pose proof (Forall_inv_tail HF) as Hr.
  apply andb_true_iff in Hty. destruct Hty as [Hty1 Hty2].
  cbn [ser_fields map] in *. rewrite sumN_cons in *.
  assert (Hx : lenN (spec_ser f x) <= part_len (spec_is_fixed f, spec_ser f x)).
  { unfold part_len. cbn [fst snd]. destruct (spec_is_fixed f); lia. }
  cbn [enc_fields enc_parts].
  destruct (Hf x Hty1) as [E|[E Hp]]; [lia| |].
  - rewrite E. cbn [bind].
    destruct (IH Hr vs Hty2) as [E2|[E2 Hp2]]; [lia| |].
    + left. rewrite E2. reflexivity.
    + right. rewrite E2. split; [reflexivity|lia].
  - right. rewrite E. split; [reflexivity|lia].
Qed.

Lemma has_type_union_none none opts sel :
  has_type (VUnion sel None) (TUnion none opts) = true -> none = true /\ sel = 0.
Proof.
  rewrite has_type_union. destruct (none && (sel =? 0)) eqn:E.
  - intros _. apply andb_true_iff in E. destruct E as [-> E]. apply N.eqb_eq in E. auto.
  - rewrite pick_ty_nth_error. destruct (nth_error _ _); discriminate.
Qed.

Lemma has_type_union_some none opts sel x :
  has_type (VUnion sel (Some x)) (TUnion none opts) = true ->
  none && (sel =? 0) = false /\
  exists o, nth_error opts (nat_of (if none then sel - 1 else sel)) = Some o /\ has_type x o = true.
Proof.
  rewrite has_type_union. destruct (none && (sel =? 0)) eqn:E; [discriminate|].
  rewrite pick_ty_nth_error. destruct (nth_error _ _) as [o|]; [|discriminate].
  intros H. split; [reflexivity|]. exists o. auto.
Qed.

Lemma seq_has_type_In e vs x :
  forallb (fun x => has_type x e) vs = true -> In x vs -> has_type x e = true.
Proof. intros H Hin. rewrite forallb_forall in H. apply H, Hin. Qed.

Lemma last_pack_bitlist_nonzero bits :
  N_of_byte (last (bits_to_bytes (bits ++ [true])) b0) <> 0 /\ bits_to_bytes (bits ++ [true]) <> [].
Proof.
  destruct (BitfieldsProofs.pack_bitlist_struct bits) as (A & r & q & E & HA & Hr & Hq & Ep).
  unfold BitfieldsProofs.pack_bitlist in Ep. rewrite Ep. split.
  - rewrite last_last, BitfieldsProofs.N_of_byte_of_N by (apply BitfieldsProofs.delim_lt256, Hr).
    apply BitfieldsProofs.delim_nonzero.
  - intros C; symmetry in C; revert C; apply app_cons_not_nil.
Qed.

Lemma enc_series e vs (fx := spec_is_fixed e) :
  wf_ty e = true -> enc_ok e ->
  forallb (fun x => has_type x e) vs = true ->
  lenN (ser_parts (map (fun x => (fx, spec_ser e x)) vs)) < two64 ->
  enc_res_ok
    (do items <- enc_items (flat_enc e) vs;
     if is_byte_elem e || is_root_elem e then OK (concat items) else w_list (flat_fixed_len e) items)
    (ser_parts (map (fun x => (fx, spec_ser e x)) vs)).
Proof.
  intros Hwf IHe Hall HL. unfold enc_res_ok.
  assert (Emap : map (fun x => (fx, spec_ser e x)) vs =
                 map (fun b => (fx, b)) (map (spec_ser e) vs)) by (rewrite map_map; reflexivity).
  assert (Hel : forall x, In x vs -> lenN (spec_ser e x) <=
                lenN (ser_parts (map (fun x => (fx, spec_ser e x)) vs))).
  { intros x Hin. rewrite ser_series_lenN.
    pose proof (sumN_map_In_le (fun x => if fx then lenN (spec_ser e x) else 4 + lenN (spec_ser e x))
                               vs x Hin) as H. cbv beta in H. destruct fx; lia. }
  destruct (enc_items_spec (flat_enc e) (spec_ser e) vs) as [E|[E (x & Hin & Hp)]].
  { intros x Hin. apply IHe; [eapply seq_has_type_In; eassumption|]. specialize (Hel x Hin). lia. }
  2:{ right. rewrite E. split; [reflexivity|]. specialize (Hel x Hin). lia. }
  rewrite E. cbn [bind]. rewrite Emap in *.
  destruct (is_byte_elem e || is_root_elem e) eqn:Ebr.
  - left. assert (fx = true) as ->.
    { apply orb_true_iff in Ebr. destruct Ebr as [H|H];
        [apply is_byte_elem_eq in H|apply is_root_elem_eq in H]; subst e; reflexivity. }
    rewrite ser_parts_all_fixed. reflexivity.
  - pose proof (flat_fixed_len_zero e Hwf) as Hz. fold fx in Hz.
    destruct fx eqn:Efx; cbn [negb] in Hz.
    + left. unfold w_list. rewrite Hz. rewrite ser_parts_all_fixed. reflexivity.
    + apply N.eqb_eq in Hz. rewrite Hz. apply w_list_var_spec. exact HL.
Qed.

Lemma flat_enc_ok : forall t, wf_ty t = true -> enc_ok t.
Proof.
  induction t as [w| |n| |n|n|e n IHe|e n IHe|fs IHfs|none opts IHopts] using ty_ind';
    intros Hwf v Hty HL; destruct v; cbn [has_type] in Hty; try discriminate Hty.
  - left. reflexivity.
  - left. reflexivity.
  - left. reflexivity.
  - left. reflexivity.
  - (* Bitvector *) left. cbn [flat_enc spec_ser]. cbn [wf_ty] in Hwf.
    apply N.eqb_eq in Hty. apply N.leb_le in Hwf.
    rewrite bits_to_bytes_lenN. fold (lenN bs) in Hty.
    destruct (N.eqb_spec ((lenN bs + 7) / 8) 0) as [E|E]; [exfalso; lia|reflexivity].
  - (* Bitlist *) left. cbn [flat_enc spec_ser] in *. unfold ser_bitlist in *.
    rewrite bits_to_bytes_lenN, lenN_app in HL. change (lenN [true]) with 1 in HL.
    destruct (last_pack_bitlist_nonzero bs) as [Hv Hne].
    destruct (N.eqb_spec (lenN (bits_to_bytes (bs ++ [true]))) 0) as [E|E].
    { exfalso. apply Hne. destruct (bits_to_bytes (bs ++ [true])); [reflexivity|discriminate E]. }
    destruct (N.eqb_spec (N_of_byte (last (bits_to_bytes (bs ++ [true])) b0)) 0) as [E2|E2];
      [contradiction|reflexivity].
  - (* Vector *) cbn [wf_ty] in Hwf. apply andb_true_iff in Hwf. destruct Hwf as [_ Hwe].
    apply andb_true_iff in Hty. destruct Hty as [_ Hall].
    rewrite flat_enc_vector. cbn [spec_ser] in *. apply enc_series; auto.
  - (* List *) cbn [wf_ty] in Hwf.
    apply andb_true_iff in Hty. destruct Hty as [_ Hall].
    rewrite flat_enc_list. cbn [spec_ser] in *. apply enc_series; auto.
  - (* Container *) cbn [wf_ty] in Hwf. apply andb_true_iff in Hwf. destruct Hwf as [_ Hwfs].
    change (has_type_fields fs vs = true) in Hty.
    rewrite flat_enc_cont. rewrite spec_ser_cont in *. unfold enc_res_ok.
    assert (IH' : Forall enc_ok fs).
    { rewrite Forall_forall in *. rewrite forallb_forall in Hwfs. intros f Hin. apply IHfs; auto. }
    destruct (enc_parts_spec fs vs Hwfs Hty) as [Eparts HF].
    pose proof HL as HL'. rewrite ser_parts_lenN in HL'.
    destruct (enc_fields_spec fs IH' vs Hty HL') as [E|[E Hp]].
    2:{ right. rewrite E. split; [reflexivity|]. rewrite ser_parts_lenN. exact Hp. }
    rewrite E. cbn [bind]. rewrite <- Eparts in *.
    destruct (forallb spec_is_fixed fs) eqn:Hfx.
    + left. f_equal.
      assert (Eall : map to_part (enc_parts fs vs) = map (fun b => (true, b)) (map snd (enc_parts fs vs))).
      { rewrite Eparts. clear -Hfx Hty. revert vs Hty.
        induction fs as [|f fs IH]; intros [|x vs] Hty; cbn [has_type_fields] in Hty;
          try discriminate Hty; [reflexivity|].
        cbn [forallb] in Hfx. apply andb_true_iff in Hfx. destruct Hfx as [Hf1 Hf2].
        apply andb_true_iff in Hty. destruct Hty as [_ Hty2].
        cbn [ser_fields enc_parts map snd]. rewrite Hf1, (IH Hf2 vs Hty2). reflexivity. }
      rewrite Eall, ser_parts_all_fixed. reflexivity.
    + apply w_container_spec; assumption.
  - (* Union *) cbn [wf_ty] in Hwf. apply andb_true_iff in Hwf. destruct Hwf as [_ Hwfs].
    change (has_type (VUnion sel v) (TUnion none opts) = true) in Hty.
    rewrite flat_enc_union. rewrite spec_ser_union in *. unfold enc_res_ok.
    destruct v as [x|].
    + apply has_type_union_some in Hty. destruct Hty as (_ & o & Hnth & Htyx).
      rewrite !pick_ty_nth_error in *. rewrite Hnth in *.
      assert (Hin : In o opts) by (eapply nth_error_In; eassumption).
      rewrite Forall_forall in IHopts. rewrite forallb_forall in Hwfs.
      rewrite lenN_cons in HL.
      destruct (IHopts o Hin (Hwfs o Hin) x Htyx) as [E|[E Hp]]; [lia| |].
      * left. rewrite E. reflexivity.
      * right. rewrite E. split; [reflexivity|]. rewrite lenN_cons. lia.
    + apply has_type_union_none in Hty. destruct Hty as [-> ->]. left. reflexivity.
Qed.

Lemma C09_encode_spec_lemma t v :
  wf_ty t = true -> has_type v t = true -> lenN (spec_ser t v) < 2 ^ 32 ->
  flat_enc t v = OK (spec_ser t v).
Proof.
  intros Hwf Hty HL. change (2 ^ 32) with two32 in HL.
  destruct (flat_enc_ok t Hwf v Hty) as [E|[_ Hp]]; [pose proof two32_lt_two64; lia|exact E|lia].
Qed.

Lemma C09_encode_total_lemma t v :
  wf_ty t = true -> has_type v t = true -> lenN (spec_ser t v) < 2 ^ 64 ->
  flat_enc t v = OK (spec_ser t v) \/ (flat_enc t v = Panic /\ 2 ^ 32 <= lenN (spec_ser t v)).
Proof.
  intros Hwf Hty HL. change (2 ^ 64) with two64 in HL. exact (flat_enc_ok t Hwf v Hty HL).
Qed.

(* ------------------------------------------------------------------------------------ *)
(** * 4. The reported byte lengths *)

Definition len_ok (t : ty) : Prop :=
  forall v, has_type v t = true -> lenN (spec_ser t v) < two64 ->
  flat_len t v = lenN (spec_ser t v).

Lemma len_fields_spec : forall fs, Forall len_ok fs -> forallb wf_ty fs = true ->
  forall vs acc, has_type_fields fs vs = true ->
  acc + sumN (map part_len (ser_fields fs vs)) < two64 ->
  len_fields flat_len fs vs acc = acc + sumN (map part_len (ser_fields fs vs)).
Proof.
  induction fs as [|f fs IH]; intros HF Hwf [|x vs] acc Hty HL; cbn [has_type_fields] in Hty;
    try discriminate Hty; [cbn; lia|].
  pose proof (Forall_inv HF) as Hf; pose proof (Forall_inv_tail HF) as Hr.
  cbn [forallb] in Hwf. apply andb_true_iff in Hwf. destruct Hwf as [Hwf1 Hwf2].
  apply andb_true_iff in Hty. destruct Hty as [Hty1 Hty2].
  cbn [ser_fields map len_fields] in *. rewrite sumN_cons in *.
  unfold part_len at 1 in HL. unfold part_len at 1. cbn [fst snd] in *.
  rewrite flat_fixed_len_zero by assumption. unfold flat_fixed_len.
  destruct (spec_is_fixed f) eqn:Hfx; cbn [negb].
  - rewrite <- (spec_ser_fixed_len f x Hfx Hty1).
    rewrite add64_small by lia. rewrite IH by (auto; lia). lia.
  - rewrite (Hf x Hty1) by lia. rewrite (add64_small (lenN _) 4) by lia.
    rewrite add64_small by lia. rewrite IH by (auto; lia). lia.
Qed.

Lemma flat_len_ok : forall t, wf_ty t = true -> len_ok t.
Proof.
  assert (Hseries : forall e vs, wf_ty e = true -> len_ok e ->
            forallb (fun x => has_type x e) vs = true ->
            lenN (ser_parts (map (fun x => (spec_is_fixed e, spec_ser e x)) vs)) < two64 ->
            (if spec_is_fixed e then mul64 (lenN vs) (spec_fixed_len e)
             else fold_left (fun a x => add64 a (add64 4 (flat_len e x))) vs 0) =
            lenN (ser_parts (map (fun x => (spec_is_fixed e, spec_ser e x)) vs))).
  { intros e vs Hwe IHe Hall HL. rewrite ser_series_lenN in *.
    destruct (spec_is_fixed e) eqn:Hfx.
    - rewrite (sumN_map_const _ (spec_fixed_len e)) in *;
        try (revert Hall; apply forallb_Forall_in; intros x Hx; apply spec_ser_fixed_len; assumption).
      apply mul64_small. exact HL.
    - assert (HF : Forall (fun x => add64 4 (flat_len e x) = 4 + lenN (spec_ser e x)) vs).
      { apply Forall_forall. intros x Hin.
        pose proof (sumN_map_In_le (fun x => 4 + lenN (spec_ser e x)) vs x Hin) as Hle. cbv beta in Hle.
        rewrite IHe by (try (eapply seq_has_type_In; eassumption); lia).
        apply add64_small. lia. }
      rewrite (fold_add64_0 (fun x => add64 4 (flat_len e x)));
        rewrite (sumN_map_ext _ _ vs HF); [reflexivity|exact HL]. }
  induction t as [w| |n| |n|n|e n IHe|e n IHe|fs IHfs|none opts IHopts] using ty_ind';
    intros Hwf v Hty HL; destruct v; cbn [has_type] in Hty; try discriminate Hty.
  - cbn [flat_len spec_ser]. symmetry. apply lenN_le_bytes.
  - reflexivity.
  - apply N.eqb_eq in Hty. cbn [flat_len spec_ser]. symmetry. exact Hty.
  - apply N.eqb_eq in Hty. cbn [flat_len spec_ser]. symmetry. exact Hty.
  - apply N.eqb_eq in Hty. cbn [flat_len spec_ser]. rewrite bits_to_bytes_lenN. unfold lenN.
    rewrite Hty. reflexivity.
  - cbn [flat_len spec_ser]. rewrite ser_bitlist_lenN. reflexivity.
  - cbn [wf_ty] in Hwf. apply andb_true_iff in Hwf. destruct Hwf as [_ Hwe].
    apply andb_true_iff in Hty. destruct Hty as [_ Hall].
    cbn [flat_len spec_ser] in *. apply Hseries; auto.
  - cbn [wf_ty] in Hwf.
    apply andb_true_iff in Hty. destruct Hty as [_ Hall].
    cbn [flat_len spec_ser] in *. apply Hseries; auto.
  - cbn [wf_ty] in Hwf. apply andb_true_iff in Hwf. destruct Hwf as [_ Hwfs].
    change (has_type_fields fs vs = true) in Hty.
    rewrite flat_len_cont. rewrite spec_ser_cont in *. rewrite ser_parts_lenN in *.
    assert (IH' : Forall len_ok fs).
    { rewrite Forall_forall in *. rewrite forallb_forall in Hwfs. intros f Hin. apply IHfs; auto. }
    rewrite len_fields_spec by (auto; lia). lia.
  - cbn [wf_ty] in Hwf. apply andb_true_iff in Hwf. destruct Hwf as [_ Hwfs].
    change (has_type (VUnion sel v) (TUnion none opts) = true) in Hty.
    rewrite flat_len_union. rewrite spec_ser_union in *.
    destruct v as [x|].
    + apply has_type_union_some in Hty. destruct Hty as (_ & o & Hnth & Htyx).
      rewrite !pick_ty_nth_error in *. rewrite Hnth in *.
      assert (Hin : In o opts) by (eapply nth_error_In; eassumption).
      rewrite Forall_forall in IHopts. rewrite forallb_forall in Hwfs.
      rewrite lenN_cons in *.
      rewrite (IHopts o Hin (Hwfs o Hin) x Htyx) by lia. reflexivity.
    + reflexivity.
Qed.

Lemma C09_length_lemma t v :
  wf_ty t = true -> has_type v t = true -> lenN (spec_ser t v) < 2 ^ 64 ->
  flat_len t v = lenN (spec_ser t v).
Proof. intros Hwf Hty HL. exact (flat_len_ok t Hwf v Hty HL). Qed.

(* ------------------------------------------------------------------------------------ *)
(** * 1'. Views of the nested fixpoints of [flat_dec] *)

Fixpoint dec_roots (k : nat) (st : rstate) (d : dreader) : res (val * ctree * rstate * dreader) :=
  match k with
  | O => OK (VSeq [], CFresh, st, d)
  | S k' =>
    do r <- dr_read st d 32; let '(bs, st1, d1) := r in
    do more <- dec_roots k' st1 d1;
    match more with
    | (VSeq vs, c', st2, d2) => OK (VSeq (VBytes bs :: vs), c', st2, d2)
    | _ => Err
    end
  end.

Section DecFields.
  Variable dec : ty -> fdecoder.
  Variable c : ctree.
  Fixpoint dec_fixed_fields (fs : list ty) (i : nat) (st : rstate) (d : dreader)
    : res (list val * list ctree * rstate * dreader) :=
    match fs with
    | [] => OK ([], [], st, d)
    | f :: fs' =>
      do r <- dec f (ct_child c i) st d; let '(v, c1, st1, d1) := r in
      do more <- dec_fixed_fields fs' (S i) st1 d1; let '(vs, cs, st2, d2) := more in
      OK (v :: vs, c1 :: cs, st2, d2)
    end.
End DecFields.

Definition dec_union_opt (sel : N) (st1 : rstate) (d1 : dreader) (o : ty)
  : res (val * ctree * rstate * dreader) :=
  if negb (flat_fixed_len o =? 0) && negb (flat_fixed_len o =? dr_scope d1) then Err else
  do r <- flat_dec o CFresh st1 d1; let '(v, _, st2, d2) := r in
  OK (VUnion sel (Some v), CFresh, st2, d2).

Lemma flat_dec_vector e n c st d :
  flat_dec (TVector e n) c st d =
  if is_byte_elem e then
    do r <- d_bytes c n st d; let '(bs, c', st1, d1) := r in
    OK (VSeq (map (fun b => VUint (N_of_byte b)) bs), c', st1, d1)
  else
    let fsz := flat_fixed_len e in
    if negb (fsz =? 0) then
      do r <- d_vector_fixed (flat_dec e) c O (nat_of n) fsz st d; let '(vs, cs, st1) := r in
      OK (VSeq vs, CNodes cs, st1, d)
    else
      let scope := dr_scope d in
      do r <- d_read_offsets (nat_of n) st d; let '(offs, st1, d1) := r in
      if negb (hd (mul64 4 n) offs =? mul64 4 n) then Err else
      do r2 <- d_var_items (fun _ => flat_dec e) c O offs scope 0 true st1 d1;
      let '(vs, cs, st2) := r2 in
      OK (VSeq vs, CNodes cs, st2, d1).
Proof. reflexivity. Qed.

Lemma flat_dec_list e n c st d :
  flat_dec (TList e n) c st d =
  let scope := dr_scope d in
  if is_byte_elem e then
    if n <? scope then Err else
    do r <- d_bytes c scope st d; let '(bs, c', st1, d1) := r in
    OK (VSeq (map (fun b => VUint (N_of_byte b)) bs), c', st1, d1)
  else if is_root_elem e then
    if negb (scope mod 32 =? 0) then Err else
    let len := scope / 32 in
    if n <? len then Err else dec_roots (nat_of len) st d
  else if scope =? 0 then OK (VSeq [], CFresh, st, d)
  else
    let fsz := flat_fixed_len e in
    if negb (fsz =? 0) then
      if negb (scope mod fsz =? 0) then Err else
      let len := scope / fsz in
      if n <? len then Err else
      do r <- d_vector_fixed (flat_dec e) CFresh O (nat_of len) fsz st d; let '(vs, _, st1) := r in
      OK (VSeq vs, CFresh, st1, d)
    else
      do r <- dr_read_u32 st d; let '(first, st1, d1) := r in
      if negb (first mod 4 =? 0) then Err else
      let len := first / 4 in
      if n <? len then Err else
      if (first =? 0) || (scope <? first) then Err else
      do r2 <- d_read_offsets (nat_of (len - 1)) st1 d1; let '(offs, st2, d2) := r2 in
      do r3 <- d_var_items (fun _ => flat_dec e) CFresh O (first :: offs) scope 0 false st2 d2;
      let '(vs, _, st3) := r3 in
      OK (VSeq vs, CFresh, st3, d2).
Proof. reflexivity. Qed.

Lemma flat_dec_cont fs c st d :
  flat_dec (TContainer fs) c st d =
  if forallb spec_is_fixed fs then
    do x <- dec_fixed_fields flat_dec c fs O st d;
    let '(vs, cs, st1, d1) := x in OK (VCont vs, CNodes cs, st1, d1)
  else
    let scope := dr_scope d in
    let decs := map (fun f => (flat_fixed_len f, flat_dec f)) fs in
    do r <- d_cont_fixed decs c O 0 st d; let '(dfs, prev, st1, d1) := r in
    match first_var_off dfs with
    | None => Err
    | Some o0 =>
      if negb (prev =? o0) then Err else
      do r2 <- d_cont_var (combine dfs (map flat_dec fs)) c O scope st1 d1;
      let '(vs, cs, st2) := r2 in
      OK (VCont vs, CNodes cs, st2, d1)
    end.
Proof. reflexivity. Qed.

Lemma flat_dec_union none opts c st d :
  flat_dec (TUnion none opts) c st d =
  do r <- dr_read_byte st d; let '(sel, st1, d1) := r in
  if none && (sel =? 0) then
    if negb (dr_scope d1 =? 0) then Err else OK (VUnion 0 None, CFresh, st1, d1)
  else pick_ty Err (dec_union_opt sel st1 d1) opts (nat_of (if none then sel - 1 else sel)).
Proof. reflexivity. Qed.

(* ------------------------------------------------------------------------------------ *)
(** * 7. The decoder never panics *)

Definition np {A} (r : res A) : Prop := r <> Panic.
Definition dec_np (dec : fdecoder) : Prop := forall c st d, np (dec c st d).

Lemma np_bind {A B} (r : res A) (f : A -> res B) :
  np r -> (forall a, np (f a)) -> np (bind r f).
Proof. unfold np. intros Hr Hf. destruct r as [a| |]; cbn [bind]; [apply Hf|discriminate|exfalso; apply Hr; reflexivity]. Qed.

Lemma np_OK {A} (a : A) : np (OK a). Proof. discriminate. Qed.
Lemma np_Err {A} : np (@Err A). Proof. discriminate. Qed.

Lemma dr_read_np st d k : np (dr_read st d k).
Proof.
  unfold dr_read. destruct (k =? 0); [apply np_OK|]. destruct (_ <? _); [apply np_Err|].
  destruct (_ <? _); [apply np_Err|]. destruct (_ <? _); [apply np_Err|apply np_OK].
Qed.

Lemma dr_read_byte_np st d : np (dr_read_byte st d).
Proof. unfold dr_read_byte. apply np_bind; [apply dr_read_np|]. intros [[bs st'] d']. apply np_OK. Qed.

Lemma dr_read_u32_np st d : np (dr_read_u32 st d).
Proof. unfold dr_read_u32. apply np_bind; [apply dr_read_np|]. intros [[bs st'] d']. apply np_OK. Qed.

Lemma dr_sub_scope_np st d k : np (dr_sub_scope st d k).
Proof. unfold dr_sub_scope. destruct (_ <? _); [apply np_Err|apply np_OK]. Qed.

Lemma d_bytes_np c n st d : np (d_bytes c n st d).
Proof. unfold d_bytes. apply np_bind; [apply dr_read_np|]. intros [[bs st'] d']. apply np_OK. Qed.

Lemma in_sub_scope_np dec c size st d : dec_np dec -> np (in_sub_scope dec c size st d).
Proof.
  intros H. unfold in_sub_scope. apply np_bind; [apply dr_sub_scope_np|]. intros [st1 sd].
  apply np_bind; [apply H|]. intros [[[v c'] st2] d2]. apply np_OK.
Qed.

Lemma d_vector_fixed_np dec cs : dec_np dec -> forall count i size st d,
  np (d_vector_fixed dec cs i count size st d).
Proof.
  intros H. induction count as [|k IH]; intros i size st d; cbn [d_vector_fixed]; [apply np_OK|].
  apply np_bind; [apply in_sub_scope_np, H|]. intros [[v c] st1].
  apply np_bind; [apply IH|]. intros [[vs cs'] st2]. apply np_OK.
Qed.

Lemma d_read_offsets_np : forall count st d, np (d_read_offsets count st d).
Proof.
  induction count as [|k IH]; intros st d; cbn [d_read_offsets]; [apply np_OK|].
  apply np_bind; [apply dr_read_u32_np|]. intros [[off st1] d1].
  apply np_bind; [apply IH|]. intros [[offs st2] d2]. apply np_OK.
Qed.

Lemma d_var_items_np dec cs scope vstyle : (forall i, dec_np (dec i)) ->
  forall offs i prev st d, np (d_var_items dec cs i offs scope prev vstyle st d).
Proof.
  intros H. induction offs as [|off rest IH]; intros i prev st d; cbn [d_var_items]; [apply np_OK|].
  destruct (off <? prev); [apply np_Err|].
  apply np_bind; [apply in_sub_scope_np, H|]. intros [[v c] st1].
  apply np_bind; [apply IH|]. intros [[vs cs'] st2]. apply np_OK.
Qed.

Lemma d_cont_fixed_np cs : forall fs, Forall (fun p => dec_np (snd p)) fs ->
  forall i prev st d, np (d_cont_fixed fs cs i prev st d).
Proof.
  induction fs as [|[fl dec] fs IH]; intros HF i prev st d; cbn [d_cont_fixed]; [apply np_OK|].
  pose proof (Forall_inv HF) as Hf; pose proof (Forall_inv_tail HF) as Hr. cbn [snd] in Hf.
  destruct (negb (fl =? 0)).
  - apply np_bind; [apply in_sub_scope_np, Hf|]. intros [[v c] st1].
    apply np_bind; [apply IH, Hr|]. intros [[[dfs p] st2] d2]. apply np_OK.
  - apply np_bind; [apply dr_read_u32_np|]. intros [[off st1] d1].
    apply np_bind; [apply IH, Hr|]. intros [[[dfs p] st2] d2]. apply np_OK.
Qed.

Lemma d_cont_var_np cs scope : forall fs, Forall (fun p => dec_np (snd p)) fs ->
  forall i st d, np (d_cont_var fs cs i scope st d).
Proof.
  induction fs as [|[df dec] fs IH]; intros HF i st d; cbn [d_cont_var]; [apply np_OK|].
  pose proof (Forall_inv HF) as Hf; pose proof (Forall_inv_tail HF) as Hr. cbn [snd] in Hf.
  destruct df as [v c|off].
  - apply np_bind; [apply IH, Hr|]. intros [[vs cs'] st1]. apply np_OK.
  - match goal with |- np (if ?b then _ else _) => destruct b end; [apply np_Err|].
    apply np_bind; [apply in_sub_scope_np, Hf|]. intros [[v c] st1].
    apply np_bind; [apply IH, Hr|]. intros [[vs cs'] st2]. apply np_OK.
Qed.

Lemma dec_roots_np : forall k st d, np (dec_roots k st d).
Proof.
  induction k as [|k IH]; intros st d; cbn [dec_roots]; [apply np_OK|].
  apply np_bind; [apply dr_read_np|]. intros [[bs st1] d1].
  apply np_bind; [apply IH|]. intros [[[v c'] st2] d2]. destruct v; try apply np_Err. apply np_OK.
Qed.

Lemma dec_fixed_fields_np c : forall fs, Forall (fun f => dec_np (flat_dec f)) fs ->
  forall i st d, np (dec_fixed_fields flat_dec c fs i st d).
Proof.
  induction fs as [|f fs IH]; intros HF i st d; cbn [dec_fixed_fields]; [apply np_OK|].
  pose proof (Forall_inv HF) as Hf; pose proof (Forall_inv_tail HF) as Hr.
  apply np_bind; [apply Hf|]. intros [[[v c1] st1] d1].
  apply np_bind; [apply IH, Hr|]. intros [[[vs cs] st2] d2]. apply np_OK.
Qed.

Lemma flat_dec_np : forall t, dec_np (flat_dec t).
Proof.
  induction t as [w| |n| |n|n|e n IHe|e n IHe|fs IHfs|none opts IHopts] using ty_ind';
    intros c st d.
  - cbn [flat_dec]. apply np_bind; [apply dr_read_np|]. intros [[bs st1] d1]. apply np_OK.
  - cbn [flat_dec]. apply np_bind; [apply dr_read_byte_np|]. intros [[b st1] d1].
    destruct (1 <? b); [apply np_Err|apply np_OK].
  - cbn [flat_dec]. apply np_bind; [apply d_bytes_np|]. intros [[[bs c'] st1] d1]. apply np_OK.
  - cbn [flat_dec]. apply np_bind; [apply dr_read_np|]. intros [[bs st1] d1]. apply np_OK.
  - cbn [flat_dec]. apply np_bind; [apply d_bytes_np|]. intros [[[bs c'] st1] d1].
    apply np_bind; [apply BitfieldsProofs.bitvector_check_no_panic|]. intros _. apply np_OK.
  - cbn [flat_dec]. destruct (_ <? _); [apply np_Err|].
    apply np_bind; [apply d_bytes_np|]. intros [[[bs c'] st1] d1].
    apply np_bind; [apply BitfieldsProofs.bitlist_check_no_panic|]. intros _. apply np_OK.
  - rewrite flat_dec_vector. destruct (is_byte_elem e).
    { apply np_bind; [apply d_bytes_np|]. intros [[[bs c'] st1] d1]. apply np_OK. }
    cbv zeta. destruct (negb (flat_fixed_len e =? 0)).
    { apply np_bind; [apply d_vector_fixed_np, IHe|]. intros [[vs cs] st1]. apply np_OK. }
    apply np_bind; [apply d_read_offsets_np|]. intros [[offs st1] d1].
    destruct (negb _); [apply np_Err|].
    apply np_bind; [apply d_var_items_np; intros _; exact IHe|]. intros [[vs cs] st2]. apply np_OK.
  - rewrite flat_dec_list. cbv zeta. destruct (is_byte_elem e).
    { destruct (_ <? _); [apply np_Err|].
      apply np_bind; [apply d_bytes_np|]. intros [[[bs c'] st1] d1]. apply np_OK. }
    destruct (is_root_elem e).
    { destruct (negb _); [apply np_Err|]. destruct (_ <? _); [apply np_Err|]. apply dec_roots_np. }
    destruct (dr_scope d =? 0); [apply np_OK|].
    destruct (negb (flat_fixed_len e =? 0)).
    { destruct (negb _); [apply np_Err|]. destruct (_ <? _); [apply np_Err|].
      apply np_bind; [apply d_vector_fixed_np, IHe|]. intros [[vs cs] st1]. apply np_OK. }
    apply np_bind; [apply dr_read_u32_np|]. intros [[first st1] d1].
    destruct (negb _); [apply np_Err|]. destruct (_ <? _); [apply np_Err|].
    destruct (_ || _); [apply np_Err|].
    apply np_bind; [apply d_read_offsets_np|]. intros [[offs st2] d2].
    apply np_bind; [apply d_var_items_np; intros _; exact IHe|]. intros [[vs cs] st3]. apply np_OK.
  - rewrite flat_dec_cont. destruct (forallb spec_is_fixed fs).
    { apply np_bind; [apply dec_fixed_fields_np, IHfs|]. intros [[[vs cs] st1] d1]. apply np_OK. }
    cbv zeta. apply np_bind.
    { apply d_cont_fixed_np. rewrite Forall_map. cbn [snd]. exact IHfs. }
    intros [[[dfs prev] st1] d1]. destruct (first_var_off dfs) as [o0|]; [|apply np_Err].
    destruct (negb _); [apply np_Err|].
    apply np_bind; [|intros [[vs cs] st2]; apply np_OK].
    apply d_cont_var_np. clear -IHfs. revert dfs.
    induction fs as [|f fs IH]; intros dfs; cbn [map]; [destruct dfs; constructor|].
    pose proof (Forall_inv IHfs) as Hf; pose proof (Forall_inv_tail IHfs) as Hr.
    destruct dfs as [|df dfs]; cbn [combine]; constructor; [exact Hf|apply IH, Hr].
  - rewrite flat_dec_union. apply np_bind; [apply dr_read_byte_np|]. intros [[sel st1] d1].
    destruct (none && (sel =? 0)).
    { destruct (negb _); [apply np_Err|apply np_OK]. }
    rewrite pick_ty_nth_error. destruct (nth_error opts _) as [o|] eqn:Hnth; [|apply np_Err].
    unfold dec_union_opt. destruct (_ && _); [apply np_Err|].
    apply np_bind; [|intros [[[v c'] st2] d2]; apply np_OK].
    rewrite Forall_forall in IHopts. apply IHopts. eapply nth_error_In; eassumption.
Qed.

Lemma C10_no_panic_lemma t c bs : flat_decode t c bs <> Panic.
Proof.
  unfold flat_decode, new_reader. apply np_bind; [apply flat_dec_np|].
  intros [[[v c'] st'] d']. apply np_OK.
Qed.

(* ------------------------------------------------------------------------------------ *)
(** * 5. The reader *)

(* Go slice lengths are [int]: below 2^63.  The readers met in a decode have [d_max] below it. *)
Definition two63 : N := 9223372036854775808.

Definition chain_wf (st : rstate) (ch : list nat) : Prop :=
  NoDup ch /\ Forall (fun k => (k < length (r_lims st))%nat) ch.

(* reader invariant: index within max, limit readers of the chain distinct and allocated, and the
   innermost limit reader never lets through more than the remaining scope (the index may lag behind
   what was consumed, because reads through sub scopes do not advance it) *)
Definition rd_ok (st : rstate) (d : dreader) : Prop :=
  d_i d <= d_max d /\ d_max d < two63 /\ chain_wf st (d_chain d) /\
  avail st (d_chain d) <= dr_scope d.

(* [st'] is [st] after [m] bytes were consumed through the limit readers of chain [ch] *)
Definition stepped (st st' : rstate) (ch : list nat) (m : N) : Prop :=
  r_stream st' = skipn (nat_of m) (r_stream st) /\
  (length (r_lims st) <= length (r_lims st'))%nat /\
  forall j, In j ch -> lim_get st' j = lim_get st j - m.

Lemma skipn_skipn_add {A} : forall a b (l : list A), skipn b (skipn a l) = skipn (a + b) l.
Proof. intros. symmetry. apply BitfieldsProofs.skipn_add. Qed.

Lemma firstn_add_app {A} : forall a b (l : list A),
  firstn (a + b) l = firstn a l ++ firstn b (skipn a l).
Proof.
  induction a as [|a IH]; intros b l; [reflexivity|].
  destruct l as [|x l]; [rewrite !firstn_nil; reflexivity|].
  cbn [Nat.add firstn skipn app]. rewrite IH. reflexivity.
Qed.

Lemma stepped_refl st ch : stepped st st ch 0.
Proof. repeat split; [lia|]. intros j _. lia. Qed.

Lemma stepped_trans st st1 st2 ch m1 m2 :
  stepped st st1 ch m1 -> stepped st1 st2 ch m2 -> stepped st st2 ch (m1 + m2).
Proof.
  intros (S1 & L1 & J1) (S2 & L2 & J2). repeat split.
  - rewrite S2, S1, skipn_skipn_add. f_equal. unfold nat_of. lia.
  - lia.
  - intros j Hj. rewrite J2, J1 by assumption. lia.
Qed.

Lemma stepped_eq st st' ch m m' : m = m' -> stepped st st' ch m -> stepped st st' ch m'.
Proof. intros ->. auto. Qed.

Lemma avail_le_stream st ch : avail st ch <= lenN (r_stream st).
Proof.
  unfold avail. induction ch as [|a ch IH]; cbn [fold_right]; [apply N.le_refl|]. unfold lenN in *. lia.
Qed.

Lemma stepped_avail st st' ch m : stepped st st' ch m -> avail st' ch = avail st ch - m.
Proof.
  intros (S & _ & J). unfold avail. induction ch as [|a ch IH]; cbn [fold_right].
  - rewrite S, skipn_length. unfold nat_of. lia.
  - rewrite IH by (intros j Hj; apply J; right; exact Hj).
    rewrite (J a) by (left; reflexivity). lia.
Qed.

Lemma chain_wf_stepped st st' ch m : chain_wf st ch -> stepped st st' ch m -> chain_wf st' ch.
Proof.
  intros [ND HF] (_ & L & _). split; [exact ND|]. revert HF. apply Forall_impl. intros k Hk. lia.
Qed.

Lemma nth_list_set_neq {A} (d : A) : forall (l : list A) i x j, j <> i ->
  nth j (list_set l i x) d = nth j l d.
Proof.
  induction l as [|y l IH]; intros i x j H; [reflexivity|].
  destruct i as [|i], j as [|j]; cbn [list_set nth]; try reflexivity; [contradiction|].
  apply IH. intros E. apply H. f_equal. exact E.
Qed.

Section Consume.
  Variable k : N.
  Let F (lims : list N) (ch : list nat) : list N :=
    fold_right (fun idx ls => list_set ls idx (nth idx ls 0 - k)) lims ch.

  Lemma consume_length lims : forall ch, length (F lims ch) = length lims.
  Proof.
    induction ch as [|a ch IH]; [reflexivity|]. unfold F in *. cbn [fold_right].
    rewrite BitfieldsProofs.list_set_length. exact IH.
  Qed.

  Lemma consume_notin lims : forall ch j, ~ In j ch -> nth j (F lims ch) 0 = nth j lims 0.
  Proof.
    induction ch as [|a ch IH]; intros j Hj; [reflexivity|]. unfold F in *. cbn [fold_right].
    rewrite nth_list_set_neq by (intros E; apply Hj; left; symmetry; exact E).
    apply IH. intros Hin. apply Hj. right. exact Hin.
  Qed.

  Lemma consume_in lims : forall ch j, NoDup ch -> Forall (fun a => (a < length lims)%nat) ch ->
    In j ch -> nth j (F lims ch) 0 = nth j lims 0 - k.
  Proof.
    induction ch as [|a ch IH]; intros j ND HF Hj; [destruct Hj|].
    inversion ND as [|a' ch' Hna ND']; subst.
    pose proof (Forall_inv HF) as Ha; pose proof (Forall_inv_tail HF) as HF'. cbv beta in Ha.
    change (F lims (a :: ch)) with (list_set (F lims ch) a (nth a (F lims ch) 0 - k)).
    destruct (Nat.eq_dec j a) as [->|Hne].
    - rewrite BitfieldsProofs.nth_list_set by (rewrite consume_length; exact Ha).
      rewrite Nat.eqb_refl. rewrite consume_notin by exact Hna. reflexivity.
    - rewrite nth_list_set_neq by exact Hne. apply IH; auto.
      destruct Hj as [E|Hj]; [exfalso; apply Hne; symmetry; exact E|exact Hj].
  Qed.
End Consume.

Lemma consume_stepped st ch k : chain_wf st ch -> stepped st (consume st ch k) ch k.
Proof.
  intros [ND HF]. unfold stepped, consume, lim_get. cbn [r_stream r_lims]. repeat split.
  - rewrite (consume_length k). lia.
  - intros j Hj. apply (consume_in k); assumption.
Qed.

Lemma rd_ok_advance st d st' d' m :
  rd_ok st d -> stepped st st' (d_chain d) m -> m <= avail st (d_chain d) ->
  d_chain d' = d_chain d -> d_max d' = d_max d -> d_i d <= d_i d' <= d_i d + m ->
  rd_ok st' d'.
Proof.
  intros (Hi & Hm & Hwf & Hav) Hst Hle Ech Emax Hidx. unfold rd_ok, dr_scope in *.
  rewrite Ech, Emax. rewrite (stepped_avail _ _ _ _ Hst).
  split; [lia|]. split; [exact Hm|]. split; [eapply chain_wf_stepped; eassumption|lia].
Qed.

Lemma rd_ok_same st d st' m :
  rd_ok st d -> stepped st st' (d_chain d) m -> rd_ok st' d.
Proof.
  intros (Hi & Hm & Hwf & Hav) Hst. unfold rd_ok, dr_scope in *.
  rewrite (stepped_avail _ _ _ _ Hst).
  split; [lia|]. split; [exact Hm|]. split; [eapply chain_wf_stepped; eassumption|lia].
Qed.

(* reads *)
Lemma dr_read_ok st d k : rd_ok st d -> k <= avail st (d_chain d) ->
  exists st', dr_read st d k =
              OK (firstn (nat_of k) (r_stream st), st', mkDR (d_i d + k) (d_max d) (d_chain d)) /\
              stepped st st' (d_chain d) k.
Proof.
  intros (Hi & Hm & Hwf & Hav) Hk. unfold dr_read, dr_scope, two63 in *.
  destruct (N.eqb_spec k 0) as [->|Hk0].
  - exists st. split; [|apply stepped_refl]. rewrite N.add_0_r. destruct d; reflexivity.
  - destruct (N.ltb_spec (two64 - 1 - d_i d) k) as [H|_]; [unfold two64 in H; lia|].
    destruct (N.ltb_spec (d_max d) (d_i d + k)) as [H|_]; [lia|].
    destruct (N.ltb_spec (avail st (d_chain d)) k) as [H|_]; [lia|].
    eexists. split; [reflexivity|]. apply consume_stepped, Hwf.
Qed.

Lemma dr_read_inv st d k bs st' d' : rd_ok st d -> dr_read st d k = OK (bs, st', d') ->
  k <= avail st (d_chain d) /\ bs = firstn (nat_of k) (r_stream st) /\
  stepped st st' (d_chain d) k /\ d' = mkDR (d_i d + k) (d_max d) (d_chain d).
Proof.
  intros Hok H. pose proof Hok as (Hi & Hm & Hwf & Hav). unfold dr_read in H.
  destruct (N.eqb_spec k 0) as [->|Hk0].
  - inversion H; subst. split; [lia|]. split; [reflexivity|]. split; [apply stepped_refl|].
    rewrite N.add_0_r. destruct d'; reflexivity.
  - destruct (_ <? k); [discriminate H|]. destruct (d_max d <? _); [discriminate H|].
    destruct (N.ltb_spec (avail st (d_chain d)) k) as [|Hle]; [discriminate H|].
    inversion H; subst. split; [exact Hle|]. split; [reflexivity|]. split; [|reflexivity].
    apply consume_stepped, Hwf.
Qed.

Lemma firstn_lenN {A} (l : list A) k : k <= lenN l -> lenN (firstn (nat_of k) l) = k.
Proof. intros H. unfold lenN, nat_of in *. rewrite firstn_length. lia. Qed.

(* sub scopes *)
Lemma avail_snoc_lims st ch x : Forall (fun k => (k < length (r_lims st))%nat) ch ->
  avail (mkRS (r_stream st) (r_lims st ++ [x])) ch = avail st ch.
Proof.
  intros HF. unfold avail. cbn [r_stream]. induction ch as [|a ch IH]; cbn [fold_right]; [reflexivity|].
  pose proof (Forall_inv HF) as Ha; pose proof (Forall_inv_tail HF) as HF'. cbv beta in Ha.
  rewrite IH by exact HF'. unfold lim_get. cbn [r_lims]. rewrite app_nth1 by exact Ha. reflexivity.
Qed.

Lemma sub_scope_facts st d count :
  rd_ok st d -> count <= dr_scope d ->
  let st1 := mkRS (r_stream st) (r_lims st ++ [count]) in
  let sd := mkDR 0 count (length (r_lims st) :: d_chain d) in
  dr_sub_scope st d count = OK (st1, sd) /\
  rd_ok st1 sd /\ avail st1 (d_chain sd) = N.min count (avail st (d_chain d)) /\
  (forall st2 m, stepped st1 st2 (d_chain sd) m -> stepped st st2 (d_chain d) m).
Proof.
  intros (Hi & Hm & [ND HF] & Hav) Hc st1 sd.
  assert (Eav : avail st1 (d_chain sd) = N.min count (avail st (d_chain d))).
  { unfold sd, st1. cbn [d_chain]. unfold avail at 1. cbn [fold_right]. fold (avail (mkRS (r_stream st) (r_lims st ++ [count])) (d_chain d)).
    rewrite avail_snoc_lims by exact HF. unfold lim_get. cbn [r_lims].
    rewrite app_nth2, Nat.sub_diag by lia. reflexivity. }
  split; [|split; [|split]].
  - unfold dr_sub_scope. destruct (N.ltb_spec (dr_scope d) count); [lia|reflexivity].
  - unfold rd_ok. rewrite Eav. unfold sd, dr_scope in *. cbn [d_i d_max d_chain].
    repeat split; [lia|lia| | |lia].
    + constructor; [|exact ND]. intros Hin. rewrite Forall_forall in HF. specialize (HF _ Hin). lia.
    + unfold st1. cbn [r_lims]. rewrite app_length. cbn [length]. constructor; [lia|].
      revert HF. apply Forall_impl. intros; lia.
  - exact Eav.
  - intros st2 m (S & L & J). unfold st1 in *. cbn [r_stream r_lims] in *.
    rewrite app_length in L. cbn [length] in L. repeat split; [exact S|lia|].
    intros j Hj. unfold sd in J. cbn [d_chain] in J. rewrite J by (right; exact Hj).
    unfold lim_get. cbn [r_lims]. rewrite Forall_forall in HF. rewrite app_nth1 by (apply HF, Hj).
    reflexivity.
Qed.

Lemma dr_sub_scope_inv st d count st1 sd :
  dr_sub_scope st d count = OK (st1, sd) ->
  count <= dr_scope d /\ st1 = mkRS (r_stream st) (r_lims st ++ [count]) /\
  sd = mkDR 0 count (length (r_lims st) :: d_chain d).
Proof.
  unfold dr_sub_scope. destruct (N.ltb_spec (dr_scope d) count) as [|H]; [discriminate|].
  intros E. inversion E. auto.
Qed.

(* ------------------------------------------------------------------------------------ *)
(** * 6. Round trip: decoding the spec encoding, for any prior state of the destination *)

(* --- bytes and bits --- *)
Lemma nat_of_lenN {A} (l : list A) : nat_of (lenN l) = length l.
Proof. unfold nat_of, lenN. apply Nat2N.id. Qed.

Lemma firstn_app_exact {A} (l r : list A) : firstn (nat_of (lenN l)) (l ++ r) = l.
Proof.
  rewrite nat_of_lenN. rewrite firstn_app, Nat.sub_diag, firstn_all. cbn [firstn]. apply app_nil_r.
Qed.

Lemma skipn_app_exact {A} (l r : list A) : skipn (nat_of (lenN l)) (l ++ r) = r.
Proof.
  rewrite nat_of_lenN. rewrite skipn_app, Nat.sub_diag, skipn_all. reflexivity.
Qed.

Lemma lenN_concat {A} (ls : list (list A)) : lenN (concat ls) = sumN (map lenN ls).
Proof.
  induction ls as [|l ls IH]; [reflexivity|]. cbn [concat map]. rewrite lenN_app, sumN_cons, IH.
  reflexivity.
Qed.

Lemma map_nth_seq {A} (d : A) : forall (X : list A) k, (k <= length X)%nat ->
  map (fun i => nth i X d) (seq 0 k) = firstn k X.
Proof.
  induction X as [|x X IH]; intros k Hk; cbn [length] in Hk.
  - assert (k = 0)%nat as -> by lia. reflexivity.
  - destruct k as [|k]; [reflexivity|]. cbn [seq map firstn nth]. f_equal.
    rewrite <- seq_shift, map_map. cbn [nth]. apply IH. lia.
Qed.

Lemma bytes_to_bits_btb X n : n <= lenN X ->
  bytes_to_bits (bits_to_bytes X) n = firstn (nat_of n) X.
Proof.
  intros Hn. unfold bytes_to_bits. rewrite <- (map_nth_seq false) by (unfold lenN, nat_of in *; lia).
  apply map_ext. intros i. unfold byte_testbit.
  rewrite BitfieldsProofs.btb_testbit by (apply Nat.mod_upper_bound; lia).
  f_equal. pose proof (Nat.div_mod i 8). lia.
Qed.

Lemma bytes_to_bits_exact X : bytes_to_bits (bits_to_bytes X) (lenN X) = X.
Proof. rewrite bytes_to_bits_btb by apply N.le_refl. rewrite nat_of_lenN. apply firstn_all. Qed.

Lemma bytes_to_bits_bitlist X :
  bytes_to_bits (bits_to_bytes (X ++ [true])) (lenN X) = X.
Proof.
  rewrite bytes_to_bits_btb by (rewrite lenN_app; lia). rewrite nat_of_lenN.
  rewrite firstn_app, Nat.sub_diag, firstn_all. cbn [firstn]. apply app_nil_r.
Qed.

Lemma le_val_le_bytes_small k n : n < 256 ^ N.of_nat k -> le_val (le_bytes k n) = n.
Proof. intros H. rewrite BitlenProofs.le_val_le_bytes. apply N.mod_small, H. Qed.

Lemma le_val_u32 n : n < two32 -> le_val (le_bytes 4 n) = n.
Proof. intros H. apply le_val_le_bytes_small. exact H. Qed.

Lemma pow256 w : 256 ^ N.of_nat (nat_of w) = 2 ^ (8 * w).
Proof. unfold nat_of. rewrite N2Nat.id. change 256 with (2 ^ 8). rewrite <- N.pow_mul_r. reflexivity. Qed.

Lemma sub64_exact a b : b <= a -> a < two64 -> sub64 a b = a - b.
Proof.
  intros H1 H2. unfold sub64, wrap64. unfold two64 in *. rewrite (N.mod_small b) by lia.
  replace (a + 18446744073709551616 - b) with ((a - b) + 1 * 18446744073709551616) by lia.
  rewrite N.mod_add by discriminate. apply N.mod_small. lia.
Qed.

(* --- the round-trip specification of a decoder on one encoding --- *)
Definition dec_rt (dec : fdecoder) (fx : bool) (enc : list byte) (v : val) : Prop :=
  forall c st d rest,
    rd_ok st d -> r_stream st = enc ++ rest ->
    lenN enc <= avail st (d_chain d) ->
    (fx = false -> lenN enc = dr_scope d) ->
    exists c' st' d',
      dec c st d = OK (v, c', st', d') /\
      stepped st st' (d_chain d) (lenN enc) /\
      d_chain d' = d_chain d /\ d_max d' = d_max d /\ d_i d <= d_i d' <= d_i d + lenN enc.

Lemma stepped_stream_rest st st' ch enc rest :
  r_stream st = enc ++ rest -> stepped st st' ch (lenN enc) -> r_stream st' = rest.
Proof. intros E (S & _). rewrite S, E. apply skipn_app_exact. Qed.

Lemma read_enc st d enc rest :
  rd_ok st d -> r_stream st = enc ++ rest -> lenN enc <= avail st (d_chain d) ->
  exists st', dr_read st d (lenN enc) = OK (enc, st', mkDR (d_i d + lenN enc) (d_max d) (d_chain d)) /\
              stepped st st' (d_chain d) (lenN enc).
Proof.
  intros Hok E Hav. destruct (dr_read_ok st d (lenN enc) Hok Hav) as (st' & Er & Hst).
  exists st'. rewrite Er, E, firstn_app_exact. auto.
Qed.

Lemma d_bytes_enc c st d enc rest :
  rd_ok st d -> r_stream st = enc ++ rest -> lenN enc <= avail st (d_chain d) ->
  exists st', d_bytes c (lenN enc) st d =
              OK (enc, reslice c (lenN enc), st', mkDR (d_i d + lenN enc) (d_max d) (d_chain d)) /\
              stepped st st' (d_chain d) (lenN enc).
Proof.
  intros Hok E Hav. destruct (read_enc st d enc rest Hok E Hav) as (st' & Er & Hst).
  exists st'. unfold d_bytes. rewrite Er. auto.
Qed.

Lemma read_u32_enc st d o rest :
  rd_ok st d -> o < two32 -> r_stream st = le_bytes 4 o ++ rest -> 4 <= avail st (d_chain d) ->
  exists st', dr_read_u32 st d = OK (o, st', mkDR (d_i d + 4) (d_max d) (d_chain d)) /\
              stepped st st' (d_chain d) 4.
Proof.
  intros Hok Ho E Hav.
  destruct (read_enc st d (le_bytes 4 o) rest Hok E) as (st' & Er & Hst); [exact Hav|].
  exists st'. unfold dr_read_u32. change (lenN (le_bytes 4 o)) with 4 in *. rewrite Er. cbn [bind].
  rewrite le_val_u32 by exact Ho. auto.
Qed.

Lemma in_sub_scope_rt dec fx enc v c st d rest :
  dec_rt dec fx enc v -> rd_ok st d -> r_stream st = enc ++ rest ->
  lenN enc <= avail st (d_chain d) ->
  exists c' st', in_sub_scope dec c (lenN enc) st d = OK (v, c', st') /\
                 stepped st st' (d_chain d) (lenN enc).
Proof.
  intros Hrt Hok E Hav. pose proof Hok as (_ & _ & _ & Hsc).
  destruct (sub_scope_facts st d (lenN enc) Hok) as (Es & Hok1 & Eav & Hup); [lia|].
  cbv zeta in *. set (st1 := mkRS _ _) in *. set (sd := mkDR _ _ _) in *.
  destruct (Hrt c st1 sd rest Hok1 E) as (c' & st' & d' & Ed & Hst & _).
  - rewrite Eav. lia.
  - intros _. unfold dr_scope, sd. cbn [d_max d_i]. lia.
  - exists c', st'. unfold in_sub_scope. rewrite Es. cbn [bind]. rewrite Ed. cbn [bind].
    split; [reflexivity|]. apply Hup, Hst.
Qed.

Lemma d_vector_fixed_rt dec fx (g : val -> list byte) cs size d : forall vs i st rest,
  Forall (fun v => dec_rt dec fx (g v) v /\ lenN (g v) = size) vs ->
  rd_ok st d -> r_stream st = concat (map g vs) ++ rest ->
  lenN (concat (map g vs)) <= avail st (d_chain d) ->
  exists cs' st', d_vector_fixed dec cs i (length vs) size st d = OK (vs, cs', st') /\
                  stepped st st' (d_chain d) (lenN (concat (map g vs))).
Proof.
  induction vs as [|v vs IH]; intros i st rest HF Hok E Hav.
  - exists [], st. split; [reflexivity|apply stepped_refl].
  - pose proof (Forall_inv HF) as [Hv Hsz]; pose proof (Forall_inv_tail HF) as HF'.
    cbn [map concat length d_vector_fixed] in *. rewrite lenN_app in *. rewrite <- app_assoc in E.
    destruct (in_sub_scope_rt dec fx (g v) v (ct_child cs i) st d _ Hv Hok E) as (c' & st1 & Es & Hst1);
      [lia|].
    rewrite <- Hsz. rewrite Es. cbn [bind].
    pose proof (stepped_stream_rest _ _ _ _ _ E Hst1) as E1.
    destruct (IH (S i) st1 rest HF' (rd_ok_same _ _ _ _ Hok Hst1) E1) as (cs' & st2 & Ev & Hst2).
    { rewrite (stepped_avail _ _ _ _ Hst1). lia. }
    rewrite Hsz. rewrite Ev. cbn [bind]. exists (c' :: cs'), st2. split; [reflexivity|].
    eapply stepped_eq; [|eapply stepped_trans; [exact Hst1|exact Hst2]]. rewrite Hsz. reflexivity.
Qed.

Fixpoint offs_from (lens : list N) (start : N) : list N :=
  match lens with [] => [] | l :: r => start :: offs_from r (start + l) end.

Lemma offs_from_length : forall lens start, length (offs_from lens start) = length lens.
Proof. induction lens as [|l r IH]; intros start; cbn [offs_from length]; [reflexivity|]. rewrite IH. reflexivity. Qed.

Lemma offs_from_bound : forall lens start B, start + sumN lens <= B ->
  Forall (fun o => o <= B) (offs_from lens start).
Proof.
  induction lens as [|l r IH]; intros start B H; cbn [offs_from]; [constructor|].
  rewrite sumN_cons in H. constructor; [lia|]. apply IH. lia.
Qed.

Lemma ser_parts_go_var_only : forall (items : list (list byte)) off,
  ser_parts_go (map (fun b => (false, b)) items) off =
  (flat_map (le_bytes 4) (offs_from (map lenN items) off), concat items).
Proof.
  induction items as [|b items IH]; intros off; [reflexivity|].
  cbn [map ser_parts_go offs_from flat_map concat]. rewrite IH. reflexivity.
Qed.

Lemma ser_parts_var_only (items : list (list byte)) :
  ser_parts (map (fun b => (false, b)) items) =
  flat_map (le_bytes 4) (offs_from (map lenN items) (4 * lenN items)) ++ concat items.
Proof.
  unfold ser_parts. rewrite ser_parts_go_var_only.
  rewrite map_map. unfold part_fixed_size. cbn [fst].
  rewrite (sumN_map_const _ 4) by (apply Forall_forall; intros; reflexivity).
  rewrite N.mul_comm. reflexivity.
Qed.

Lemma lenN_flat_map_u32 offs : lenN (flat_map (le_bytes 4) offs) = 4 * lenN offs.
Proof.
  induction offs as [|o offs IH]; [reflexivity|]. cbn [flat_map]. rewrite lenN_app, lenN_cons, IH.
  change (lenN (le_bytes 4 o)) with 4. lia.
Qed.

Lemma d_read_offsets_rt : forall offs st d rest,
  Forall (fun o => o < two32) offs -> rd_ok st d ->
  r_stream st = flat_map (le_bytes 4) offs ++ rest ->
  4 * lenN offs <= avail st (d_chain d) ->
  exists st', d_read_offsets (length offs) st d =
              OK (offs, st', mkDR (d_i d + 4 * lenN offs) (d_max d) (d_chain d)) /\
              stepped st st' (d_chain d) (4 * lenN offs).
Proof.
  induction offs as [|o offs IH]; intros st d rest HF Hok E Hav.
  - exists st. change (lenN (@nil N)) with 0. rewrite N.mul_0_r, N.add_0_r. split; [|apply stepped_refl].
    destruct d; reflexivity.
  - pose proof (Forall_inv HF) as Ho; pose proof (Forall_inv_tail HF) as HF'. cbv beta in Ho.
    cbn [flat_map length d_read_offsets] in *. rewrite <- app_assoc in E. rewrite lenN_cons in *.
    destruct (read_u32_enc st d o _ Hok Ho E) as (st1 & Er & Hst1); [lia|].
    rewrite Er. cbn [bind].
    assert (Hok1 : rd_ok st1 (mkDR (d_i d + 4) (d_max d) (d_chain d))).
    { eapply rd_ok_advance; try eassumption; cbn [d_chain d_max d_i]; try reflexivity; lia. }
    assert (E1 : r_stream st1 = flat_map (le_bytes 4) offs ++ rest).
    { eapply (stepped_stream_rest st st1 _ (le_bytes 4 o)); [exact E|exact Hst1]. }
    destruct (IH st1 _ rest HF' Hok1 E1) as (st2 & Ev & Hst2).
    { cbn [d_chain]. rewrite (stepped_avail _ _ _ _ Hst1). lia. }
    rewrite Ev. cbn [bind d_i d_max d_chain] in *. exists st2. split.
    + f_equal. f_equal. f_equal. lia.
    + eapply stepped_eq; [|eapply stepped_trans; eassumption]. lia.
Qed.

Lemma d_var_items_rt dec fx (g : val -> list byte) cs vstyle d scope : forall vs i start prev st rest,
  Forall (fun v => dec_rt dec fx (g v) v) vs ->
  prev <= start -> scope = start + sumN (map (fun v => lenN (g v)) vs) -> scope < two64 ->
  rd_ok st d -> r_stream st = concat (map g vs) ++ rest ->
  lenN (concat (map g vs)) <= avail st (d_chain d) ->
  exists cs' st',
    d_var_items (fun _ => dec) cs i (offs_from (map (fun v => lenN (g v)) vs) start) scope prev vstyle st d
    = OK (vs, cs', st') /\
    stepped st st' (d_chain d) (lenN (concat (map g vs))).
Proof.
  induction vs as [|v vs IH]; intros i start prev st rest HF Hprev Hscope Hlt Hok E Hav.
  - exists [], st. split; [reflexivity|apply stepped_refl].
  - pose proof (Forall_inv HF) as Hv; pose proof (Forall_inv_tail HF) as HF'. cbv beta in Hv.
    cbn [map concat offs_from d_var_items] in *. rewrite sumN_cons in Hscope.
    rewrite lenN_app in *. rewrite <- app_assoc in E.
    destruct (N.ltb_spec start prev) as [|_]; [lia|].
    set (next := match offs_from (map (fun v0 => lenN (g v0)) vs) (start + lenN (g v)) with
                 | o' :: _ => o' | [] => scope end).
    assert (Enext : next = start + lenN (g v)).
    { unfold next. destruct vs as [|v2 vs2]; cbn [map offs_from]; [|reflexivity].
      rewrite Hscope. change (sumN (map _ [])) with 0. lia. }
    rewrite Enext. rewrite sub64_exact by lia.
    replace (start + lenN (g v) - start) with (lenN (g v)) by lia.
    destruct (in_sub_scope_rt dec fx (g v) v (ct_child cs i) st d _ Hv Hok E) as (c' & st1 & Es & Hst1);
      [lia|].
    rewrite Es. cbn [bind].
    pose proof (stepped_stream_rest _ _ _ _ _ E Hst1) as E1.
    destruct (IH (S i) (start + lenN (g v)) (if vstyle then start + lenN (g v) else start) st1 rest HF')
      as (cs' & st2 & Ev & Hst2); try assumption.
    { destruct vstyle; lia. }
    { lia. }
    { eapply rd_ok_same; eassumption. }
    { rewrite (stepped_avail _ _ _ _ Hst1). lia. }
    rewrite Ev. cbn [bind]. exists (c' :: cs'), st2. split; [reflexivity|].
    eapply stepped_trans; eassumption.
Qed.

Lemma dec_roots_rt : forall (bss : list (list byte)) st d rest,
  Forall (fun bs => lenN bs = 32) bss -> rd_ok st d ->
  r_stream st = concat bss ++ rest -> lenN (concat bss) <= avail st (d_chain d) ->
  exists st' d', dec_roots (length bss) st d = OK (VSeq (map VBytes bss), CFresh, st', d') /\
                 stepped st st' (d_chain d) (lenN (concat bss)) /\
                 d_chain d' = d_chain d /\ d_max d' = d_max d /\ d_i d' = d_i d + lenN (concat bss).
Proof.
  induction bss as [|bs bss IH]; intros st d rest HF Hok E Hav.
  - exists st, d. split; [reflexivity|]. split; [apply stepped_refl|].
    change (lenN (concat [])) with 0. repeat split. lia.
  - pose proof (Forall_inv HF) as Hbs; pose proof (Forall_inv_tail HF) as HF'. cbv beta in Hbs.
    cbn [concat length dec_roots map] in *. rewrite lenN_app in *. rewrite <- app_assoc in E.
    destruct (read_enc st d bs _ Hok E) as (st1 & Er & Hst1); [lia|].
    rewrite Hbs in Er. rewrite Er. cbn [bind].
    assert (Hok1 : rd_ok st1 (mkDR (d_i d + 32) (d_max d) (d_chain d))).
    { eapply rd_ok_advance; try eassumption; cbn [d_chain d_max d_i]; try reflexivity; lia. }
    pose proof (stepped_stream_rest _ _ _ _ _ E Hst1) as E1.
    destruct (IH st1 _ rest HF' Hok1 E1) as (st2 & d2 & Ev & Hst2 & Ech & Emax & Eidx).
    { cbn [d_chain]. rewrite (stepped_avail _ _ _ _ Hst1). lia. }
    rewrite Ev. cbn [bind d_chain d_max d_i] in *. exists st2, d2. split; [reflexivity|].
    split; [eapply stepped_trans; eassumption|]. repeat split; try assumption. lia.
Qed.

(* --- containers --- *)
Definition FA (fs : list ty) (vs : list val) (off : N) : list byte :=
  fst (ser_parts_go (ser_fields fs vs) off).
Definition VA (fs : list ty) (vs : list val) (off : N) : list byte :=
  snd (ser_parts_go (ser_fields fs vs) off).

Lemma ser_parts_FA_VA fs vs :
  ser_parts (ser_fields fs vs) =
  FA fs vs (sumN (map part_fixed_size (ser_fields fs vs))) ++
  VA fs vs (sumN (map part_fixed_size (ser_fields fs vs))).
Proof. unfold ser_parts, FA, VA. destruct (ser_parts_go _ _). reflexivity. Qed.

Lemma FA_cons f fs x vs off :
  FA (f :: fs) (x :: vs) off =
  if spec_is_fixed f then spec_ser f x ++ FA fs vs off
  else le_bytes 4 off ++ FA fs vs (off + lenN (spec_ser f x)).
Proof.
  unfold FA. cbn [ser_fields ser_parts_go]. destruct (spec_is_fixed f).
  - destruct (ser_parts_go _ off). reflexivity.
  - destruct (ser_parts_go _ (off + _)). reflexivity.
Qed.

Lemma VA_cons f fs x vs off :
  VA (f :: fs) (x :: vs) off =
  if spec_is_fixed f then VA fs vs off
  else spec_ser f x ++ VA fs vs (off + lenN (spec_ser f x)).
Proof.
  unfold VA. cbn [ser_fields ser_parts_go]. destruct (spec_is_fixed f).
  - destruct (ser_parts_go _ off). reflexivity.
  - destruct (ser_parts_go _ (off + _)). reflexivity.
Qed.

Definition var_len (fs : list ty) (vs : list val) : N :=
  sumN (map (fun p : part => if fst p then 0 else lenN (snd p)) (ser_fields fs vs)).

Lemma var_len_cons f fs x vs :
  var_len (f :: fs) (x :: vs) =
  (if spec_is_fixed f then 0 else lenN (spec_ser f x)) + var_len fs vs.
Proof. unfold var_len. cbn [ser_fields map]. rewrite sumN_cons. reflexivity. Qed.

Lemma lenN_FA : forall fs vs off,
  lenN (FA fs vs off) = sumN (map part_fixed_size (ser_fields fs vs)).
Proof.
  induction fs as [|f fs IH]; intros [|x vs] off; try reflexivity.
  rewrite FA_cons. cbn [ser_fields map]. rewrite sumN_cons. unfold part_fixed_size at 1. cbn [fst snd].
  destruct (spec_is_fixed f); rewrite lenN_app, IH; [reflexivity|].
  change (lenN (le_bytes 4 off)) with 4. reflexivity.
Qed.

Lemma lenN_VA : forall fs vs off, lenN (VA fs vs off) = var_len fs vs.
Proof.
  induction fs as [|f fs IH]; intros [|x vs] off; try reflexivity.
  rewrite VA_cons, var_len_cons. destruct (spec_is_fixed f); [rewrite IH; lia|].
  rewrite lenN_app, IH. reflexivity.
Qed.

Lemma var_len_all_fixed : forall fs vs, forallb spec_is_fixed fs = true -> var_len fs vs = 0.
Proof.
  induction fs as [|f fs IH]; intros [|x vs] H; try reflexivity.
  cbn [forallb] in H. apply andb_true_iff in H. destruct H as [H1 H2].
  rewrite var_len_cons, H1, IH by assumption. reflexivity.
Qed.

Fixpoint dfs_match (fs : list ty) (vs : list val) (off : N) (dfs : list dfield) : Prop :=
  match fs, vs, dfs with
  | [], [], [] => True
  | f :: fs', x :: vs', df :: dfs' =>
    if spec_is_fixed f then (exists c, df = DFixed x c) /\ dfs_match fs' vs' off dfs'
    else df = DVar off /\ dfs_match fs' vs' (off + lenN (spec_ser f x)) dfs'
  | _, _, _ => False
  end.

Inductive fields_rt : list ty -> list val -> Prop :=
| fields_rt_nil : fields_rt [] []
| fields_rt_cons f fs x vs :
    dec_rt (flat_dec f) (spec_is_fixed f) (spec_ser f x) x -> fields_rt fs vs ->
    fields_rt (f :: fs) (x :: vs).

Lemma d_cont_fixed_rt cs : forall fs vs i prev off st d rest,
  fields_rt fs vs -> forallb wf_ty fs = true -> has_type_fields fs vs = true ->
  rd_ok st d -> r_stream st = FA fs vs off ++ rest ->
  lenN (FA fs vs off) <= avail st (d_chain d) ->
  off + var_len fs vs < two32 -> prev + lenN (FA fs vs off) < two64 ->
  exists dfs st' d',
    d_cont_fixed (map (fun f => (flat_fixed_len f, flat_dec f)) fs) cs i prev st d =
      OK (dfs, prev + lenN (FA fs vs off), st', d') /\
    dfs_match fs vs off dfs /\
    stepped st st' (d_chain d) (lenN (FA fs vs off)) /\
    d_chain d' = d_chain d /\ d_max d' = d_max d /\
    d_i d <= d_i d' <= d_i d + lenN (FA fs vs off).
Proof.
  induction fs as [|f fs IH]; intros vs i prev off st d rest Hrt Hwf Hty Hok E Hav Hoff Hprev;
    inversion Hrt as [|f' fs' x vs' Hf Hrt']; subst.
  - exists [], st, d. cbn [map d_cont_fixed]. change (lenN (FA [] [] off)) with 0.
    rewrite N.add_0_r. split; [reflexivity|]. split; [exact I|]. split; [apply stepped_refl|].
    repeat split; lia.
  - cbn [forallb] in Hwf. apply andb_true_iff in Hwf. destruct Hwf as [Hwf1 Hwf2].
    cbn [has_type_fields] in Hty. apply andb_true_iff in Hty. destruct Hty as [Hty1 Hty2].
    rewrite FA_cons in *. rewrite var_len_cons in Hoff.
    cbn [map d_cont_fixed dfs_match]. rewrite flat_fixed_len_zero by assumption.
    destruct (spec_is_fixed f) eqn:Hfx; cbv iota in Hoff; cbn [negb]; rewrite lenN_app in *;
      rewrite <- app_assoc in E.
    + (* fixed-size field, in a sub scope of its size *)
      assert (Efl : flat_fixed_len f = lenN (spec_ser f x)).
      { unfold flat_fixed_len. rewrite Hfx. symmetry. apply spec_ser_fixed_len; assumption. }
      rewrite Efl.
      destruct (in_sub_scope_rt _ _ _ _ (ct_child cs i) st d _ Hf Hok E) as (c' & st1 & Es & Hst1); [lia|].
      rewrite Es. cbn [bind].
      pose proof (stepped_stream_rest _ _ _ _ _ E Hst1) as E1.
      destruct (IH vs' (S i) (add64 prev (lenN (spec_ser f x))) off st1 d rest Hrt' Hwf2 Hty2)
        as (dfs & st2 & d2 & Ev & Hm & Hst2 & Ech & Emax & Eidx); try assumption.
      { eapply rd_ok_same; eassumption. }
      { rewrite (stepped_avail _ _ _ _ Hst1). lia. }
      { rewrite add64_small by lia. lia. }
      rewrite Ev. cbn [bind]. exists (DFixed x c' :: dfs), st2, d2.
      split; [rewrite add64_small by lia; f_equal; f_equal; f_equal; f_equal; lia|].
      split; [split; [exists c'; reflexivity|exact Hm]|].
      split; [eapply stepped_trans; eassumption|]. repeat split; try assumption; lia.
    + (* variable-size field: its offset *)
      change (lenN (le_bytes 4 off)) with 4 in *.
      destruct (read_u32_enc st d off (FA fs vs' (off + lenN (spec_ser f x)) ++ rest) Hok)
        as (st1 & Er & Hst1); [lia|exact E|lia|].
      rewrite Er. cbn [bind].
      assert (Hok1 : rd_ok st1 (mkDR (d_i d + 4) (d_max d) (d_chain d))).
      { eapply rd_ok_advance; try eassumption; cbn [d_chain d_max d_i]; try reflexivity; lia. }
      assert (E1 : r_stream st1 = FA fs vs' (off + lenN (spec_ser f x)) ++ rest).
      { eapply (stepped_stream_rest st st1 _ (le_bytes 4 off)); [exact E|exact Hst1]. }
      destruct (IH vs' (S i) (add64 prev 4) (off + lenN (spec_ser f x)) st1 _ rest Hrt' Hwf2 Hty2 Hok1 E1)
        as (dfs & st2 & d2 & Ev & Hm & Hst2 & Ech & Emax & Eidx).
      { cbn [d_chain]. rewrite (stepped_avail _ _ _ _ Hst1). lia. }
      { lia. }
      { rewrite add64_small by lia. lia. }
      rewrite Ev. cbn [bind d_chain d_max d_i] in *. exists (DVar off :: dfs), st2, d2.
      split; [rewrite add64_small by lia; f_equal; f_equal; f_equal; f_equal; lia|].
      split; [split; [reflexivity|exact Hm]|].
      split; [eapply stepped_trans; eassumption|]. repeat split; try assumption; lia.
Qed.

Section Nxt.
  Variable scope : N.
  Fixpoint nxt_off (l : list (dfield * fdecoder)) : N :=
    match l with
    | [] => scope
    | (DVar o, _) :: _ => o
    | _ :: l' => nxt_off l'
    end.
End Nxt.

Lemma d_cont_var_cons_var off dec rest cs i scope st d :
  d_cont_var ((DVar off, dec) :: rest) cs i scope st d =
  let next := nxt_off scope rest in
  if next <? off then Err else
  do r <- in_sub_scope dec (ct_child cs i) (next - off) st d; let '(v, c, st1) := r in
  do more <- d_cont_var rest cs (S i) scope st1 d; let '(vs, cs', st2) := more in
  OK (v :: vs, c :: cs', st2).
Proof. reflexivity. Qed.

Lemma nxt_off_match scope : forall fs vs off dfs,
  dfs_match fs vs off dfs -> scope = off + var_len fs vs ->
  nxt_off scope (combine dfs (map flat_dec fs)) = off.
Proof.
  induction fs as [|f fs IH]; intros [|x vs] off [|df dfs] Hm Hs; cbn [dfs_match] in Hm;
    try contradiction.
  - cbn. rewrite Hs. unfold var_len. cbn. lia.
  - rewrite var_len_cons in Hs. cbn [map combine nxt_off].
    destruct (spec_is_fixed f).
    + destruct Hm as [[c ->] Hm]. apply (IH vs); [exact Hm|lia].
    + destruct Hm as [-> Hm]. reflexivity.
Qed.

Lemma d_cont_var_rt cs d scope : forall fs vs dfs i off st rest,
  dfs_match fs vs off dfs -> fields_rt fs vs -> scope = off + var_len fs vs ->
  rd_ok st d -> r_stream st = VA fs vs off ++ rest ->
  lenN (VA fs vs off) <= avail st (d_chain d) ->
  exists cs' st',
    d_cont_var (combine dfs (map flat_dec fs)) cs i scope st d = OK (vs, cs', st') /\
    stepped st st' (d_chain d) (lenN (VA fs vs off)).
Proof.
  induction fs as [|f fs IH]; intros vs dfs i off st rest Hm Hrt;
    inversion Hrt as [|f' fs' x vs' Hf Hrt']; subst; intros Hs Hok E Hav; destruct dfs as [|df dfs];
    cbn [dfs_match] in Hm; try contradiction.
  - exists [], st. split; [reflexivity|apply stepped_refl].
  - rewrite VA_cons in *. rewrite var_len_cons in Hs. cbn [map combine].
    destruct (spec_is_fixed f) eqn:Hfx.
    + destruct Hm as [[c ->] Hm]. cbn [d_cont_var].
      destruct (IH vs' dfs (S i) off st rest Hm Hrt') as (cs' & st' & Ev & Hst); try assumption; try lia.
      rewrite Ev. cbn [bind]. exists (c :: cs'), st'. split; [reflexivity|exact Hst].
    + destruct Hm as [-> Hm]. rewrite d_cont_var_cons_var. cbv zeta.
      rewrite (nxt_off_match scope fs vs' (off + lenN (spec_ser f x)) dfs Hm) by lia.
      destruct (N.ltb_spec (off + lenN (spec_ser f x)) off) as [|_]; [lia|].
      replace (off + lenN (spec_ser f x) - off) with (lenN (spec_ser f x)) by lia.
      rewrite lenN_app in *. rewrite <- app_assoc in E.
      destruct (in_sub_scope_rt _ _ _ _ (ct_child cs i) st d _ Hf Hok E) as (c' & st1 & Es & Hst1); [lia|].
      rewrite Es. cbn [bind].
      pose proof (stepped_stream_rest _ _ _ _ _ E Hst1) as E1.
      destruct (IH vs' dfs (S i) (off + lenN (spec_ser f x)) st1 rest Hm Hrt')
        as (cs' & st2 & Ev & Hst2); try assumption.
      { lia. }
      { eapply rd_ok_same; eassumption. }
      { rewrite (stepped_avail _ _ _ _ Hst1). lia. }
      rewrite Ev. cbn [bind]. exists (c' :: cs'), st2. split; [reflexivity|].
      eapply stepped_trans; eassumption.
Qed.

Fixpoint fvo (l : list dfield) : option N :=
  match l with [] => None | DVar o :: _ => Some o | _ :: r => fvo r end.

Lemma first_var_off_fvo dfs : first_var_off dfs = fvo dfs.
Proof. reflexivity. Qed.

Lemma fvo_match : forall fs vs off dfs,
  dfs_match fs vs off dfs -> forallb spec_is_fixed fs = false -> fvo dfs = Some off.
Proof.
  induction fs as [|f fs IH]; intros [|x vs] off [|df dfs] Hm Hfx; cbn [dfs_match] in Hm;
    try contradiction; [discriminate Hfx|].
  cbn [forallb] in Hfx. destruct (spec_is_fixed f); cbn [andb] in Hfx.
  - destruct Hm as [[c ->] Hm]. cbn [fvo]. eapply IH; eassumption.
  - destruct Hm as [-> _]. reflexivity.
Qed.

Lemma dec_fixed_fields_rt c : forall fs vs i off st d rest,
  fields_rt fs vs -> forallb spec_is_fixed fs = true ->
  rd_ok st d -> r_stream st = FA fs vs off ++ rest ->
  lenN (FA fs vs off) <= avail st (d_chain d) ->
  exists cs' st' d',
    dec_fixed_fields flat_dec c fs i st d = OK (vs, cs', st', d') /\
    stepped st st' (d_chain d) (lenN (FA fs vs off)) /\
    d_chain d' = d_chain d /\ d_max d' = d_max d /\
    d_i d <= d_i d' <= d_i d + lenN (FA fs vs off).
Proof.
  induction fs as [|f fs IH]; intros vs i off st d rest Hrt Hfx Hok E Hav;
    inversion Hrt as [|f' fs' x vs' Hf Hrt']; subst.
  - exists [], st, d. change (lenN (FA [] [] off)) with 0. split; [reflexivity|].
    split; [apply stepped_refl|]. repeat split; lia.
  - cbn [forallb] in Hfx. apply andb_true_iff in Hfx. destruct Hfx as [Hfx1 Hfx2].
    rewrite FA_cons, Hfx1 in *. rewrite lenN_app in *. rewrite <- app_assoc in E.
    cbn [dec_fixed_fields].
    destruct (Hf (ct_child c i) st d _ Hok E) as (c1 & st1 & d1 & Ed & Hst1 & Ech1 & Emax1 & Eidx1);
      [lia|discriminate|].
    rewrite Ed. cbn [bind].
    assert (Hok1 : rd_ok st1 d1) by (eapply rd_ok_advance; try eassumption; lia).
    pose proof (stepped_stream_rest _ _ _ _ _ E Hst1) as E1.
    destruct (IH vs' (S i) off st1 d1 rest Hrt' Hfx2 Hok1 E1)
      as (cs' & st2 & d2 & Ev & Hst2 & Ech2 & Emax2 & Eidx2).
    { rewrite Ech1, (stepped_avail _ _ _ _ Hst1). lia. }
    rewrite Ev. cbn [bind]. exists (c1 :: cs'), st2, d2. split; [reflexivity|].
    rewrite Ech1 in Hst2. split; [eapply stepped_trans; eassumption|].
    repeat split; try congruence; lia.
Qed.

(* --- the induction --- *)
Definition rt_ok (t : ty) : Prop :=
  forall v, has_type v t = true -> lenN (spec_ser t v) < two32 ->
  dec_rt (flat_dec t) (spec_is_fixed t) (spec_ser t v) v.

Lemma series_fixed_enc e vs :
  ser_parts (map (fun x => (true, spec_ser e x)) vs) = concat (map (spec_ser e) vs).
Proof.
  rewrite <- ser_parts_all_fixed, map_map. reflexivity.
Qed.

Lemma series_var_enc e vs :
  ser_parts (map (fun x => (false, spec_ser e x)) vs) =
  flat_map (le_bytes 4) (offs_from (map (fun v => lenN (spec_ser e v)) vs) (4 * lenN vs)) ++
  concat (map (spec_ser e) vs).
Proof.
  rewrite <- (map_map (spec_ser e) (fun b => (false, b))), ser_parts_var_only.
  rewrite map_map. unfold lenN at 2 4. rewrite map_length. reflexivity.
Qed.

Lemma elem_len_le e vs x : In x vs ->
  lenN (spec_ser e x) <= lenN (ser_parts (map (fun x => (spec_is_fixed e, spec_ser e x)) vs)).
Proof.
  intros Hin. rewrite ser_series_lenN.
  pose proof (sumN_map_In_le (fun x => if spec_is_fixed e then lenN (spec_ser e x)
                                       else 4 + lenN (spec_ser e x)) vs x Hin) as H.
  cbv beta in H. destruct (spec_is_fixed e); lia.
Qed.

Lemma elems_rt e vs : rt_ok e -> forallb (fun x => has_type x e) vs = true ->
  lenN (ser_parts (map (fun x => (spec_is_fixed e, spec_ser e x)) vs)) < two32 ->
  Forall (fun v => dec_rt (flat_dec e) (spec_is_fixed e) (spec_ser e v) v) vs.
Proof.
  intros IHe Hall HL. apply Forall_forall. intros x Hin. apply IHe.
  - eapply seq_has_type_In; eassumption.
  - pose proof (elem_len_le e vs x Hin). lia.
Qed.

Lemma byte_seq_enc vs : forallb (fun x => has_type x (TUint 1)) vs = true ->
  lenN (concat (map (spec_ser (TUint 1)) vs)) = lenN vs /\
  map (fun b => VUint (N_of_byte b)) (concat (map (spec_ser (TUint 1)) vs)) = vs.
Proof.
  induction vs as [|x vs IH]; intros Hall; [split; reflexivity|].
  cbn [forallb] in Hall. apply andb_true_iff in Hall. destruct Hall as [Hx Hall].
  destruct (IH Hall) as [IH1 IH2]. destruct x; cbn [has_type] in Hx; try discriminate Hx.
  apply N.ltb_lt in Hx. change (2 ^ (8 * 1)) with 256 in Hx.
  cbn [map concat]. change (spec_ser (TUint 1) (VUint n)) with [byte_of_N n]. cbn [app map].
  rewrite !lenN_cons, IH1, IH2, BitfieldsProofs.N_of_byte_of_N by exact Hx. split; reflexivity.
Qed.

Ltac rt_done :=
  cbn [d_chain d_max d_i]; repeat split; try reflexivity; try assumption; try lia.

Lemma sumN_map_lenN_concat (g : val -> list byte) vs :
  sumN (map (fun v => lenN (g v)) vs) = lenN (concat (map g vs)).
Proof. rewrite lenN_concat, map_map. reflexivity. Qed.

Lemma nonneg_fsz e : wf_ty e = true -> negb (flat_fixed_len e =? 0) = spec_is_fixed e.
Proof. intros H. rewrite flat_fixed_len_zero by exact H. apply negb_involutive. Qed.

Lemma fixed_elems_len e vs : spec_is_fixed e = true -> forallb (fun x => has_type x e) vs = true ->
  Forall (fun v => lenN (spec_ser e v) = flat_fixed_len e) vs.
Proof.
  intros Hfx Hall. apply Forall_forall. intros x Hin. unfold flat_fixed_len. rewrite Hfx.
  apply spec_ser_fixed_len; [exact Hfx|]. eapply seq_has_type_In; eassumption.
Qed.

Lemma lenN_concat_const (g : val -> list byte) vs k :
  Forall (fun v => lenN (g v) = k) vs -> lenN (concat (map g vs)) = lenN vs * k.
Proof.
  intros HF. rewrite <- sumN_map_lenN_concat. apply sumN_map_const. exact HF.
Qed.

Lemma lenN_nil_iff {A} (l : list A) : lenN l = 0 <-> l = [].
Proof. destruct l; unfold lenN; cbn [length]; split; intros H; try reflexivity; try discriminate; lia. Qed.

(* the body shared by Vector and List when the items are variable-size *)
Lemma rt_var_items e vs vstyle st d rest (cs : ctree) :
  Forall (fun v => dec_rt (flat_dec e) false (spec_ser e v) v) vs ->
  let enc := ser_parts (map (fun x => (false, spec_ser e x)) vs) in
  lenN enc < two32 -> rd_ok st d -> r_stream st = enc ++ rest ->
  lenN enc <= avail st (d_chain d) ->
  exists st1 d1 cs' st2,
    d_read_offsets (length vs) st d =
      OK (offs_from (map (fun v => lenN (spec_ser e v)) vs) (4 * lenN vs), st1, d1) /\
    d_var_items (fun _ => flat_dec e) cs O
      (offs_from (map (fun v => lenN (spec_ser e v)) vs) (4 * lenN vs)) (lenN enc) 0 vstyle st1 d1
      = OK (vs, cs', st2) /\
    stepped st st2 (d_chain d) (lenN enc) /\
    d_chain d1 = d_chain d /\ d_max d1 = d_max d /\ d_i d1 = d_i d + 4 * lenN vs /\
    lenN enc = 4 * lenN vs + lenN (concat (map (spec_ser e) vs)).
Proof.
  intros HF enc HL Hok E Hav. unfold enc in *. clear enc.
  rewrite (series_var_enc e vs) in *.
  set (offs := offs_from (map (fun v => lenN (spec_ser e v)) vs) (4 * lenN vs)) in *.
  assert (Hlo : lenN offs = lenN vs).
  { unfold offs, lenN. rewrite offs_from_length, map_length. reflexivity. }
  rewrite lenN_app, lenN_flat_map_u32, Hlo in *. rewrite <- app_assoc in E.
  assert (Hb : Forall (fun o => o < two32) offs).
  { pose proof (offs_from_bound (map (fun v => lenN (spec_ser e v)) vs) (4 * lenN vs)
                  (4 * lenN vs + lenN (concat (map (spec_ser e) vs)))) as Hb.
    rewrite sumN_map_lenN_concat in Hb. specialize (Hb (N.le_refl _)). fold offs in Hb.
    revert Hb. apply Forall_impl. intros; lia. }
  destruct (d_read_offsets_rt offs st d _ Hb Hok E) as (st1 & Er & Hst1); [lia|].
  assert (Elen : length offs = length vs) by (unfold offs; rewrite offs_from_length, map_length; reflexivity).
  rewrite Elen, Hlo in *.
  set (d1 := mkDR (d_i d + 4 * lenN vs) (d_max d) (d_chain d)) in *.
  assert (Hok1 : rd_ok st1 d1).
  { eapply rd_ok_advance; try eassumption; unfold d1; cbn [d_chain d_max d_i]; try reflexivity; lia. }
  assert (E1 : r_stream st1 = concat (map (spec_ser e) vs) ++ rest).
  { eapply (stepped_stream_rest st st1 _ (flat_map (le_bytes 4) offs)); [exact E|].
    rewrite lenN_flat_map_u32, Hlo. exact Hst1. }
  destruct (d_var_items_rt (flat_dec e) false (spec_ser e) cs vstyle d1
              (4 * lenN vs + lenN (concat (map (spec_ser e) vs))) vs O (4 * lenN vs) 0 st1 rest HF)
    as (cs' & st2 & Ev & Hst2); try assumption.
  { lia. }
  { rewrite sumN_map_lenN_concat. reflexivity. }
  { pose proof two32_lt_two64. lia. }
  { unfold d1. cbn [d_chain]. rewrite (stepped_avail _ _ _ _ Hst1). lia. }
  exists st1, d1, cs', st2. split; [exact Er|]. split; [exact Ev|].
  split; [eapply stepped_trans; eassumption|]. unfold d1. rt_done.
Qed.

Lemma rt_vector e n : wf_ty (TVector e n) = true -> rt_ok e -> rt_ok (TVector e n).
Proof.
  intros Hwf IHe v Hty HL. destruct v; cbn [has_type] in Hty; try discriminate Hty.
  cbn [wf_ty] in Hwf. apply andb_true_iff in Hwf. destruct Hwf as [Hn Hwe]. apply N.leb_le in Hn.
  apply andb_true_iff in Hty. destruct Hty as [Hlen Hall]. apply N.eqb_eq in Hlen.
  fold (lenN vs) in Hlen. cbn [spec_ser spec_is_fixed] in *.
  pose proof (elems_rt e vs IHe Hall HL) as HF.
  intros c st d rest Hok E Hav Hsc. rewrite flat_dec_vector.
  destruct (is_byte_elem e) eqn:Eb.
  { apply is_byte_elem_eq in Eb. subst e. change (spec_is_fixed (TUint 1)) with true in *.
    rewrite (series_fixed_enc (TUint 1) vs) in *.
    destruct (byte_seq_enc vs Hall) as [El Ev].
    destruct (d_bytes_enc c st d _ rest Hok E Hav) as (st' & Er & Hst).
    rewrite El, Hlen in Er. rewrite Er. cbn [bind]. rewrite Ev.
    eexists _, _, _. split; [reflexivity|]. split; [exact Hst|]. rt_done. }
  cbv zeta. rewrite nonneg_fsz by exact Hwe.
  destruct (spec_is_fixed e) eqn:Hfx.
  - rewrite (series_fixed_enc e vs) in *.
    assert (HF' : Forall (fun v => dec_rt (flat_dec e) true (spec_ser e v) v /\
                                   lenN (spec_ser e v) = flat_fixed_len e) vs).
    { pose proof (fixed_elems_len e vs Hfx Hall) as HF2. rewrite Forall_forall in *. auto. }
    destruct (d_vector_fixed_rt (flat_dec e) true (spec_ser e) c (flat_fixed_len e) d vs O st rest HF' Hok E Hav)
      as (cs' & st' & Ev & Hst).
    rewrite <- Hlen, nat_of_lenN, Ev. cbn [bind].
    eexists _, _, _. split; [reflexivity|]. split; [exact Hst|]. rt_done.
  - specialize (Hsc eq_refl).
    destruct (rt_var_items e vs true st d rest c) as (st1 & d1 & cs' & st2 & Er & Ev & Hst & Ech & Emax & Eidx & El);
      try assumption.
    rewrite <- Hlen, nat_of_lenN, Er. cbn [bind].
    assert (Ehd : hd (mul64 4 (lenN vs)) (offs_from (map (fun v => lenN (spec_ser e v)) vs) (4 * lenN vs))
                  = 4 * lenN vs).
    { destruct vs; [|reflexivity]. change (lenN (@nil val)) with 0 in Hlen. lia. }
    rewrite Ehd, mul64_small by (unfold two32, two64 in *; lia). rewrite N.eqb_refl. cbn [negb].
    rewrite <- Hsc, Ev. cbn [bind].
    cbn [map] in *.
    eexists _, _, _. split; [reflexivity|]. split; [exact Hst|]. rt_done.
Qed.

Lemma root_seq_enc vs : forallb (fun x => has_type x TRoot) vs = true ->
  exists bss, vs = map VBytes bss /\ Forall (fun bs => lenN bs = 32) bss /\
              concat (map (spec_ser TRoot) vs) = concat bss.
Proof.
  induction vs as [|x vs IH]; intros Hall; [exists []; repeat split; constructor|].
  cbn [forallb] in Hall. apply andb_true_iff in Hall. destruct Hall as [Hx Hall].
  destruct (IH Hall) as (bss & -> & HF & Ec). destruct x; cbn [has_type] in Hx; try discriminate Hx.
  apply N.eqb_eq in Hx. exists (bs :: bss). cbn [map concat]. rewrite Ec.
  split; [reflexivity|]. split; [constructor; assumption|reflexivity].
Qed.

Lemma rt_list e n : wf_ty (TList e n) = true -> rt_ok e -> rt_ok (TList e n).
Proof.
  intros Hwe IHe v Hty HL. destruct v; cbn [has_type] in Hty; try discriminate Hty.
  cbn [wf_ty] in Hwe.
  apply andb_true_iff in Hty. destruct Hty as [Hlen Hall]. apply N.leb_le in Hlen.
  fold (lenN vs) in Hlen. cbn [spec_ser spec_is_fixed] in *.
  pose proof (elems_rt e vs IHe Hall HL) as HF.
  intros c st d rest Hok E Hav Hsc. specialize (Hsc eq_refl). rewrite flat_dec_list. cbv zeta.
  rewrite <- Hsc.
  destruct (is_byte_elem e) eqn:Eb.
  { apply is_byte_elem_eq in Eb. subst e. change (spec_is_fixed (TUint 1)) with true in *.
    rewrite (series_fixed_enc (TUint 1) vs) in *.
    destruct (byte_seq_enc vs Hall) as [El Ev].
    destruct (N.ltb_spec n (lenN (concat (map (spec_ser (TUint 1)) vs)))) as [|_]; [lia|].
    destruct (d_bytes_enc c st d _ rest Hok E Hav) as (st' & Er & Hst).
    rewrite Er. cbn [bind]. rewrite Ev.
    eexists _, _, _. split; [reflexivity|]. split; [exact Hst|]. rt_done. }
  destruct (is_root_elem e) eqn:Er.
  { apply is_root_elem_eq in Er. subst e. change (spec_is_fixed TRoot) with true in *.
    rewrite (series_fixed_enc TRoot vs) in *.
    destruct (root_seq_enc vs Hall) as (bss & -> & HFb & Ec). rewrite Ec in *.
    assert (El : lenN (concat bss) = lenN bss * 32).
    { rewrite lenN_concat. apply sumN_map_const. exact HFb. }
    assert (Elm : lenN (map VBytes bss) = lenN bss) by (unfold lenN; rewrite map_length; reflexivity).
    rewrite Elm in Hlen.
    destruct (dec_roots_rt bss st d rest HFb Hok E Hav) as (st' & d' & Ev & Hst & Ech & Emax & Eidx).
    rewrite El. rewrite N.mod_mul, N.div_mul by discriminate. rewrite N.eqb_refl. cbn [negb].
    destruct (N.ltb_spec n (lenN bss)) as [|_]; [lia|]. rewrite nat_of_lenN, Ev.
    eexists _, _, _. split; [reflexivity|]. rewrite <- El. split; [exact Hst|]. rt_done. }
  destruct (N.eqb_spec (lenN (ser_parts (map (fun x => (spec_is_fixed e, spec_ser e x)) vs))) 0) as [E0|E0].
  { assert (vs = []) as ->.
    { destruct vs as [|x vs]; [reflexivity|exfalso]. rewrite ser_series_lenN in E0.
      cbn [map] in E0. rewrite sumN_cons in E0. destruct (spec_is_fixed e) eqn:Hfx; [|lia].
      assert (Hx : has_type x e = true) by (eapply seq_has_type_In; [eassumption|left; reflexivity]).
      rewrite (spec_ser_fixed_len e x Hfx Hx) in E0.
      pose proof (wf_fixed_len_pos e Hwe Hfx). lia. }
    eexists _, _, _. split; [reflexivity|]. split; [apply stepped_refl|]. rt_done. }
  rewrite nonneg_fsz by exact Hwe.
  destruct (spec_is_fixed e) eqn:Hfx.
  - rewrite (series_fixed_enc e vs) in *.
    pose proof (fixed_elems_len e vs Hfx Hall) as HF2.
    assert (HF' : Forall (fun v => dec_rt (flat_dec e) true (spec_ser e v) v /\
                                   lenN (spec_ser e v) = flat_fixed_len e) vs).
    { rewrite Forall_forall in *. auto. }
    assert (Hpos : 1 <= flat_fixed_len e).
    { unfold flat_fixed_len. rewrite Hfx. apply wf_fixed_len_pos; assumption. }
    rewrite (lenN_concat_const (spec_ser e) vs _ HF2) in *.
    rewrite N.mod_mul, N.div_mul by lia. rewrite N.eqb_refl. cbn [negb].
    destruct (N.ltb_spec n (lenN vs)) as [|_]; [lia|].
    destruct (d_vector_fixed_rt (flat_dec e) true (spec_ser e) CFresh (flat_fixed_len e) d vs O st rest HF' Hok E)
      as (cs' & st' & Ev & Hst).
    { rewrite (lenN_concat_const (spec_ser e) vs _ HF2). exact Hav. }
    rewrite nat_of_lenN, Ev. cbn [bind].
    eexists _, _, _. split; [reflexivity|].
    rewrite (lenN_concat_const (spec_ser e) vs _ HF2) in Hst. split; [exact Hst|]. rt_done.
  - destruct (rt_var_items e vs false st d rest CFresh)
      as (st1 & d1 & cs' & st2 & Er' & Ev & Hst & Ech & Emax & Eidx & El); try assumption.
    destruct vs as [|x vs'].
    { exfalso. apply E0. reflexivity. }
    cbn [length d_read_offsets map offs_from] in Er'.
    destruct (dr_read_u32 st d) as [[[first st0] d0]| |]; cbn [bind] in Er'; try discriminate Er'.
    destruct (d_read_offsets (length vs') st0 d0) as [[[offs st1'] d1']| |] eqn:Ero; cbn [bind] in Er';
      try discriminate Er'.
    inversion Er'; subst first offs st1' d1'. clear Er'. cbn [bind].
    rewrite lenN_cons in *.
    replace (4 * (1 + lenN vs')) with ((1 + lenN vs') * 4) by lia.
    rewrite N.mod_mul, N.div_mul by discriminate. rewrite N.eqb_refl. cbn [negb].
    destruct (N.ltb_spec n (1 + lenN vs')) as [|_]; [lia|].
    destruct (N.eqb_spec ((1 + lenN vs') * 4) 0) as [|_]; [lia|]. cbn [orb].
    destruct (N.ltb_spec (lenN (ser_parts (map (fun x0 => (false, spec_ser e x0)) (x :: vs'))))
                         ((1 + lenN vs') * 4)) as [|_]; [lia|].
    replace (nat_of (1 + lenN vs' - 1)) with (length vs') by (unfold nat_of, lenN; lia).
    rewrite Ero. cbn [bind].
    cbn [map offs_from] in Ev |- *. replace ((1 + lenN vs') * 4) with (4 * (1 + lenN vs')) by lia.
    rewrite Ev. cbn [bind].
    cbn [map] in *.
    eexists _, _, _. split; [reflexivity|]. split; [exact Hst|]. rt_done.
Qed.

Lemma fields_rt_of : forall fs, Forall rt_ok fs -> forall vs,
  has_type_fields fs vs = true -> sumN (map part_len (ser_fields fs vs)) < two32 ->
  fields_rt fs vs.
Proof.
  induction fs as [|f fs IH]; intros HF [|x vs] Hty HL; cbn [has_type_fields] in Hty;
    try discriminate Hty; [constructor|].
  pose proof (Forall_inv HF) as Hf; pose proof (Forall_inv_tail HF) as Hr.
  apply andb_true_iff in Hty. destruct Hty as [Hty1 Hty2].
  cbn [ser_fields map] in HL. rewrite sumN_cons in HL. unfold part_len at 1 in HL. cbn [fst snd] in HL.
  constructor.
  - apply Hf; [exact Hty1|]. destruct (spec_is_fixed f); lia.
  - apply IH; [exact Hr|exact Hty2|lia].
Qed.

Lemma total_len_FA_VA fs vs :
  sumN (map part_len (ser_fields fs vs)) =
  sumN (map part_fixed_size (ser_fields fs vs)) + var_len fs vs.
Proof.
  unfold var_len. induction (ser_fields fs vs) as [|[fx bs] ps IH]; [reflexivity|].
  cbn [map]. rewrite !sumN_cons, IH. unfold part_len, part_fixed_size. cbn [fst snd].
  destruct fx; lia.
Qed.

Lemma rt_cont fs : wf_ty (TContainer fs) = true -> Forall rt_ok fs -> rt_ok (TContainer fs).
Proof.
  intros Hwf IHfs v Hty HL. destruct v; cbn [has_type] in Hty; try discriminate Hty.
  change (has_type_fields fs vs = true) in Hty.
  cbn [wf_ty] in Hwf. apply andb_true_iff in Hwf. destruct Hwf as [_ Hwfs].
  rewrite spec_ser_cont in *. cbn [spec_is_fixed].
  pose proof HL as HL'. rewrite ser_parts_lenN in HL'.
  pose proof (fields_rt_of fs IHfs vs Hty HL') as Hrt.
  rewrite total_len_FA_VA in HL'.
  intros c st d rest Hok E Hav Hsc. rewrite flat_dec_cont.
  rewrite ser_parts_FA_VA in *.
  set (FL := sumN (map part_fixed_size (ser_fields fs vs))) in *.
  rewrite lenN_app in *. pose proof (lenN_FA fs vs FL) as EFA. pose proof (lenN_VA fs vs FL) as EVA.
  fold FL in EFA.
  destruct (forallb spec_is_fixed fs) eqn:Hfx.
  - rewrite (var_len_all_fixed fs vs Hfx) in EVA. apply lenN_nil_iff in EVA. rewrite EVA in *.
    rewrite app_nil_r in *. change (lenN (@nil byte)) with 0 in *. rewrite N.add_0_r in *.
    destruct (dec_fixed_fields_rt c fs vs O FL st d rest Hrt Hfx Hok E Hav)
      as (cs' & st' & d' & Ev & Hst & Ech & Emax & Eidx).
    rewrite Ev. cbn [bind].
    eexists _, _, _. split; [reflexivity|]. split; [exact Hst|]. rt_done.
  - specialize (Hsc eq_refl). cbv zeta. rewrite <- app_assoc in E.
    destruct (d_cont_fixed_rt c fs vs O 0 FL st d (VA fs vs FL ++ rest) Hrt Hwfs Hty Hok E)
      as (dfs & st1 & d1 & Ev & Hm & Hst1 & Ech & Emax & Eidx).
    { lia. }
    { lia. }
    { pose proof two32_lt_two64. lia. }
    rewrite Ev. cbn [bind]. rewrite first_var_off_fvo, (fvo_match fs vs FL dfs Hm Hfx).
    rewrite N.add_0_l, EFA, N.eqb_refl. cbn [negb].
    assert (Hok1 : rd_ok st1 d1) by (eapply rd_ok_advance; try eassumption; lia).
    assert (E1 : r_stream st1 = VA fs vs FL ++ rest).
    { eapply (stepped_stream_rest st st1 _ (FA fs vs FL)); [exact E|exact Hst1]. }
    destruct (d_cont_var_rt c d1 (dr_scope d) fs vs dfs O FL st1 rest Hm Hrt) as (cs' & st2 & Ev2 & Hst2);
      try assumption.
    { lia. }
    { rewrite Ech, (stepped_avail _ _ _ _ Hst1). lia. }
    rewrite Ev2. cbn [bind]. rewrite Ech in Hst2.
    eexists _, _, _. split; [reflexivity|].
    split; [eapply stepped_eq; [|eapply stepped_trans; [exact Hst1|exact Hst2]]; lia|]. rt_done.
Qed.

Lemma rt_union none opts : wf_ty (TUnion none opts) = true -> Forall rt_ok opts ->
  rt_ok (TUnion none opts).
Proof.
  intros Hwf IHopts v Hty HL. destruct v as [| | | | | |sel ov]; cbn [has_type] in Hty; try discriminate Hty.
  change (has_type (VUnion sel ov) (TUnion none opts) = true) in Hty.
  cbn [wf_ty] in Hwf. apply andb_true_iff in Hwf. destruct Hwf as [Hwf Hwfs].
  apply andb_true_iff in Hwf. destruct Hwf as [_ Hcnt]. apply N.leb_le in Hcnt.
  unfold union_count in Hcnt.
  rewrite spec_ser_union in *. cbn [spec_is_fixed].
  intros c st d rest Hok E Hav Hsc. specialize (Hsc eq_refl). rewrite flat_dec_union.
  rewrite lenN_cons in *. cbn [app] in E.
  (* the selector byte *)
  assert (Hsel : sel < 256).
  { destruct ov as [x|].
    - apply has_type_union_some in Hty. destruct Hty as (_ & o & Hnth & _).
      assert (nat_of (if none then sel - 1 else sel) < length opts)%nat
        by (apply nth_error_Some; congruence).
      unfold nat_of in *. destruct none; lia.
    - apply has_type_union_none in Hty. destruct Hty as [_ ->]. lia. }
  destruct (read_enc st d [byte_of_N sel] _ Hok E) as (st1 & Er & Hst1).
  { change (lenN [byte_of_N sel]) with 1. lia. }
  change (lenN [byte_of_N sel]) with 1 in *.
  unfold dr_read_byte. rewrite Er. cbn [bind le_val].
  rewrite BitfieldsProofs.N_of_byte_of_N by exact Hsel.
  replace (sel + 256 * 0) with sel by lia.
  set (d1 := mkDR (d_i d + 1) (d_max d) (d_chain d)) in *.
  assert (Hok1 : rd_ok st1 d1).
  { eapply rd_ok_advance; try eassumption; unfold d1; cbn [d_chain d_max d_i]; try reflexivity; lia. }
  pose proof (stepped_stream_rest st st1 _ [byte_of_N sel] _ E Hst1) as E1.
  pose proof Hok as (Hi & _ & _ & _).
  destruct ov as [x|].
  - apply has_type_union_some in Hty. destruct Hty as (Hns & o & Hnth & Htyx).
    rewrite Hns. rewrite !pick_ty_nth_error in *. rewrite Hnth in *.
    assert (Hin : In o opts) by (eapply nth_error_In; eassumption).
    rewrite Forall_forall in IHopts. rewrite forallb_forall in Hwfs.
    pose proof (IHopts o Hin x Htyx) as Ho.
    unfold dec_union_opt.
    assert (Eguard : negb (flat_fixed_len o =? 0) && negb (flat_fixed_len o =? dr_scope d1) = false).
    { rewrite nonneg_fsz by auto. destruct (spec_is_fixed o) eqn:Hfo; [|reflexivity]. cbn [andb].
      unfold flat_fixed_len. rewrite Hfo. rewrite <- (spec_ser_fixed_len o x Hfo Htyx).
      apply negb_false_iff, N.eqb_eq. unfold d1, dr_scope in *. cbn [d_i d_max]. lia. }
    rewrite Eguard.
    destruct (Ho ltac:(lia) CFresh st1 d1 rest Hok1 E1) as (c' & st2 & d2 & Ed & Hst2 & Ech & Emax & Eidx).
    { unfold d1. cbn [d_chain]. rewrite (stepped_avail _ _ _ _ Hst1). lia. }
    { intros _. unfold d1, dr_scope in *. cbn [d_i d_max]. lia. }
    rewrite Ed. cbn [bind]. unfold d1 in *. cbn [d_chain d_max d_i] in *.
    eexists _, _, _. split; [reflexivity|]. split; [eapply stepped_trans; eassumption|]. rt_done.
  - apply has_type_union_none in Hty. destruct Hty as [-> ->]. cbn [andb]. rewrite N.eqb_refl.
    change (lenN (@nil byte)) with 0 in *.
    assert (Esc : dr_scope d1 =? 0 = true).
    { apply N.eqb_eq. unfold d1, dr_scope in *. cbn [d_i d_max]. lia. }
    rewrite Esc. cbn [negb].
    eexists _, _, _. split; [reflexivity|]. rewrite N.add_0_r. split; [exact Hst1|]. unfold d1. rt_done.
Qed.

Lemma flat_dec_rt : forall t, wf_ty t = true -> small_params t = true -> rt_ok t.
Proof.
  induction t as [w| |n| |n|n|e n IHe|e n IHe|fs IHfs|none opts IHopts] using ty_ind';
    intros Hwf Hsm.
  - (* uint *)
    intros v Hty HL. destruct v; cbn [has_type] in Hty; try discriminate Hty.
    apply N.ltb_lt in Hty. cbn [spec_ser spec_is_fixed] in *.
    intros c st d rest Hok E Hav _. cbn [flat_dec].
    destruct (read_enc st d _ rest Hok E Hav) as (st' & Er & Hst).
    pose proof (lenN_le_bytes w n) as El. rewrite El in Er. rewrite Er. cbn [bind].
    rewrite le_val_le_bytes_small by (rewrite pow256; exact Hty).
    eexists _, _, _. split; [reflexivity|]. split; [exact Hst|]. rt_done.
  - (* bool *)
    intros v Hty HL. destruct v; cbn [has_type] in Hty; try discriminate Hty.
    cbn [spec_ser spec_is_fixed] in *.
    intros c st d rest Hok E Hav _. cbn [flat_dec]. unfold dr_read_byte.
    destruct (read_enc st d _ rest Hok E Hav) as (st' & Er & Hst).
    change (lenN [byte_of_N (if b then 1 else 0)]) with 1 in *. rewrite Er. cbn [bind].
    destruct b.
    + change (le_val [byte_of_N 1]) with 1. change (1 <? 1) with false. cbv iota.
      eexists _, _, _. split; [reflexivity|]. split; [exact Hst|]. rt_done.
    + change (le_val [byte_of_N 0]) with 0. change (1 <? 0) with false. cbv iota.
      eexists _, _, _. split; [reflexivity|]. split; [exact Hst|]. rt_done.
  - (* bytesN *)
    intros v Hty HL. destruct v; cbn [has_type] in Hty; try discriminate Hty.
    apply N.eqb_eq in Hty. subst n. cbn [spec_ser spec_is_fixed] in *.
    intros c st d rest Hok E Hav _. cbn [flat_dec].
    destruct (d_bytes_enc c st d _ rest Hok E Hav) as (st' & Er & Hst).
    fold (lenN bs). rewrite Er. cbn [bind].
    eexists _, _, _. split; [reflexivity|]. split; [exact Hst|]. rt_done.
  - (* root *)
    intros v Hty HL. destruct v; cbn [has_type] in Hty; try discriminate Hty.
    apply N.eqb_eq in Hty. fold (lenN bs) in Hty. cbn [spec_ser spec_is_fixed] in *.
    intros c st d rest Hok E Hav _. cbn [flat_dec].
    destruct (read_enc st d _ rest Hok E Hav) as (st' & Er & Hst).
    rewrite Hty in Er. rewrite Er. cbn [bind].
    eexists _, _, _. split; [reflexivity|]. split; [exact Hst|]. rt_done.
  - (* bitvector *)
    intros v Hty HL. destruct v; cbn [has_type] in Hty; try discriminate Hty.
    apply N.eqb_eq in Hty. subst n. fold (lenN bs) in *. cbn [spec_ser spec_is_fixed] in *.
    intros c st d rest Hok E Hav _. cbn [flat_dec].
    pose proof (bits_to_bytes_lenN bs) as El.
    assert (Hn : lenN bs < 2 ^ 64 - 7).
    { unfold two32 in HL. change (2 ^ 64 - 7) with 18446744073709551609. lia. }
    rewrite wrap64_small by (unfold two64; change (2 ^ 64 - 7) with 18446744073709551609 in Hn; lia).
    rewrite BitfieldsProofs.shiftr3, <- El.
    destruct (d_bytes_enc c st d _ rest Hok E Hav) as (st' & Er & Hst).
    rewrite Er. cbn [bind].
    pose proof (BitfieldsProofs.bitvector_check_complete bs Hn) as Hc.
    change (bitvector_check (bits_to_bytes bs) (lenN bs) = OK tt) in Hc. rewrite Hc. cbn [bind].
    rewrite bytes_to_bits_exact.
    eexists _, _, _. split; [reflexivity|]. split; [exact Hst|]. rt_done.
  - (* bitlist *)
    intros v Hty HL. destruct v; cbn [has_type] in Hty; try discriminate Hty.
    apply N.leb_le in Hty. fold (lenN bs) in *. cbn [spec_ser spec_is_fixed small_params] in *.
    apply N.leb_le in Hsm. change (2 ^ 56) with 72057594037927936 in Hsm.
    intros c st d rest Hok E Hav Hsc. specialize (Hsc eq_refl). cbn [flat_dec]. rewrite <- Hsc.
    pose proof (ser_bitlist_lenN bs) as El. unfold ser_bitlist in *.
    rewrite BitfieldsProofs.shiftr3.
    destruct (N.ltb_spec (n / 8 + 1) (lenN (bits_to_bytes (bs ++ [true])))) as [|_]; [lia|].
    destruct (d_bytes_enc c st d _ rest Hok E Hav) as (st' & Er & Hst).
    rewrite Er. cbn [bind].
    assert (Hn : n < 2 ^ 64) by (change (2 ^ 64) with 18446744073709551616; lia).
    pose proof (BitfieldsProofs.bitlist_check_complete bs n Hn Hty) as Hc.
    unfold BitfieldsProofs.pack_bitlist in Hc. rewrite Hc. cbn [bind].
    assert (Hb : lenN bs < 2 ^ 64) by (change (2 ^ 64) with 18446744073709551616; lia).
    pose proof (BitfieldsProofs.bitlist_len_pack bs Hb) as Hlen.
    change (bitlist_len (bits_to_bytes (bs ++ [true])) = lenN bs) in Hlen.
    rewrite Hlen, bytes_to_bits_bitlist.
    eexists _, _, _. split; [reflexivity|]. split; [exact Hst|]. rt_done.
  - cbn [wf_ty small_params] in *. apply andb_true_iff in Hsm. destruct Hsm as [_ Hsm].
    apply rt_vector; [exact Hwf|]. apply andb_true_iff in Hwf. destruct Hwf as [_ Hwe]. auto.
  - cbn [wf_ty small_params] in *. apply andb_true_iff in Hsm. destruct Hsm as [_ Hsm].
    apply rt_list; [exact Hwf|]. auto.
  - apply rt_cont; [exact Hwf|]. cbn [wf_ty small_params] in *.
    apply andb_true_iff in Hwf. destruct Hwf as [_ Hwfs].
    rewrite Forall_forall in *. rewrite forallb_forall in Hwfs, Hsm. auto.
  - apply rt_union; [exact Hwf|]. cbn [wf_ty small_params] in *.
    apply andb_true_iff in Hwf. destruct Hwf as [_ Hwfs].
    rewrite Forall_forall in *. rewrite forallb_forall in Hwfs, Hsm. auto.
Qed.

Lemma new_reader_ok bs : lenN bs < two63 ->
  rd_ok (mkRS bs [lenN bs]) (mkDR 0 (lenN bs) [O]) /\
  avail (mkRS bs [lenN bs]) [O] = lenN bs.
Proof.
  intros H. assert (Eav : avail (mkRS bs [lenN bs]) [O] = lenN bs).
  { unfold avail, lim_get. cbn [fold_right r_stream r_lims nth]. fold (lenN bs). lia. }
  split; [|exact Eav]. unfold rd_ok. cbn [d_i d_max d_chain]. rewrite Eav.
  split; [lia|]. split; [exact H|]. split.
  - split; [repeat constructor; intros []|]. repeat constructor.
  - unfold dr_scope. cbn [d_i d_max]. lia.
Qed.

Lemma C09_roundtrip_lemma t v :
  wf_ty t = true -> small_params t = true -> has_type v t = true ->
  lenN (spec_ser t v) < 2 ^ 32 ->
  forall c : ctree, exists c', flat_decode t c (spec_ser t v) = OK (v, c').
Proof.
  intros Hwf Hsm Hty HL c. change (2 ^ 32) with two32 in HL.
  pose proof (flat_dec_rt t Hwf Hsm v Hty HL) as Hrt.
  unfold flat_decode, new_reader.
  destruct (new_reader_ok (spec_ser t v)) as [Hok Eav].
  { unfold two32, two63 in *. lia. }
  destruct (Hrt c _ _ [] Hok) as (c' & st' & d' & Ed & _).
  - cbn [r_stream]. symmetry. apply app_nil_r.
  - cbn [d_chain]. rewrite Eav. apply N.le_refl.
  - intros _. unfold dr_scope. cbn [d_i d_max]. lia.
  - rewrite Ed. cbn [bind]. exists c'. reflexivity.
Qed.

Lemma C09_encode_decode_lemma t v bs :
  wf_ty t = true -> small_params t = true -> has_type v t = true ->
  lenN (spec_ser t v) < 2 ^ 32 -> flat_enc t v = OK bs ->
  forall c : ctree, exists c', flat_decode t c bs = OK (v, c').
Proof.
  intros Hwf Hsm Hty HL He. rewrite (C09_encode_spec_lemma t v Hwf Hty HL) in He.
  inversion He; subst bs. apply C09_roundtrip_lemma; assumption.
Qed.

(* the side condition [small_params] of the round trip is needed: a Bitlist limit that is not a
   uint64 makes BitlistCheck's uint64 subtraction wrap *)
Example cex_roundtrip_limit :
  let t := TBitlist (2 ^ 64) in let v := VBits [true] in
  wf_ty t = true /\ has_type v t = true /\ flat_decode t CFresh (spec_ser t v) = Err.
Proof. vm_compute. repeat split. Qed.

(* ------------------------------------------------------------------------------------ *)
(** * 8. An accepting decoder consumes exactly its scope: canonicity *)

Lemma le_val_bound : forall bs, le_val bs < 256 ^ N.of_nat (length bs).
Proof.
  induction bs as [|b bs IH]; [cbn; lia|].
  cbn [le_val length]. rewrite Nat2N.inj_succ, N.pow_succ_r'.
  pose proof (BitfieldsProofs.N_of_byte_lt b). set (P := 256 ^ N.of_nat (length bs)) in *. lia.
Qed.

Lemma byte_of_N_add a x : byte_of_N (a + 256 * x) = byte_of_N a.
Proof.
  unfold byte_of_N. replace ((a + 256 * x) mod 256) with (a mod 256); [reflexivity|].
  rewrite N.mul_comm, N.mod_add by discriminate. reflexivity.
Qed.

Lemma le_bytes_le_val : forall bs, le_bytes (length bs) (le_val bs) = bs.
Proof.
  induction bs as [|b bs IH]; [reflexivity|].
  cbn [length le_val le_bytes]. rewrite byte_of_N_add, BitfieldsProofs.byte_of_N_of_byte. f_equal.
  pose proof (BitfieldsProofs.N_of_byte_lt b).
  replace ((N_of_byte b + 256 * le_val bs) / 256) with (le_val bs) by lia. exact IH.
Qed.

(* [enc] was read from the stream through chain [ch], taking [st] to [st'] *)
Definition consumed (st st' : rstate) (ch : list nat) (enc : list byte) : Prop :=
  (exists rest, r_stream st = enc ++ rest) /\ stepped st st' ch (lenN enc) /\ lenN enc <= avail st ch.

Lemma consumed_nil st ch : consumed st st ch [].
Proof.
  split; [exists (r_stream st); reflexivity|]. split; [apply stepped_refl|].
  change (lenN (@nil byte)) with 0. lia.
Qed.

Lemma consumed_app st st1 st2 ch e1 e2 :
  consumed st st1 ch e1 -> consumed st1 st2 ch e2 -> consumed st st2 ch (e1 ++ e2).
Proof.
  intros ((r1 & E1) & S1 & A1) ((r2 & E2) & S2 & A2).
  pose proof (stepped_stream_rest _ _ _ _ _ E1 S1) as Er. rewrite Er in E2.
  unfold consumed. rewrite lenN_app. split; [exists r2; rewrite E1, E2, app_assoc; reflexivity|].
  split; [eapply stepped_trans; eassumption|]. rewrite (stepped_avail _ _ _ _ S1) in A2. lia.
Qed.

Lemma consumed_rd_ok st st' d d' enc :
  rd_ok st d -> consumed st st' (d_chain d) enc ->
  d_chain d' = d_chain d -> d_max d' = d_max d -> d_i d <= d_i d' <= d_i d + lenN enc ->
  rd_ok st' d'.
Proof. intros Hok (_ & S & A) Ech Emax Eidx. eapply rd_ok_advance; eassumption. Qed.

Lemma consumed_rd_ok_same st st' d enc :
  rd_ok st d -> consumed st st' (d_chain d) enc -> rd_ok st' d.
Proof. intros Hok (_ & S & _). eapply rd_ok_same; eassumption. Qed.

Lemma consumed_read st d k bs st' d' :
  rd_ok st d -> dr_read st d k = OK (bs, st', d') ->
  consumed st st' (d_chain d) bs /\ lenN bs = k /\ d' = mkDR (d_i d + k) (d_max d) (d_chain d).
Proof.
  intros Hok H. destruct (dr_read_inv st d k bs st' d' Hok H) as (Hav & -> & Hst & ->).
  pose proof (avail_le_stream st (d_chain d)) as Hle.
  assert (El : lenN (firstn (nat_of k) (r_stream st)) = k) by (apply firstn_lenN; lia).
  split; [|split; [exact El|reflexivity]].
  split; [exists (skipn (nat_of k) (r_stream st)); symmetry; apply firstn_skipn|].
  rewrite El. split; assumption.
Qed.

Lemma consumed_d_bytes c n st d bs c' st' d' :
  rd_ok st d -> d_bytes c n st d = OK (bs, c', st', d') ->
  consumed st st' (d_chain d) bs /\ lenN bs = n /\ d' = mkDR (d_i d + n) (d_max d) (d_chain d).
Proof.
  intros Hok H. unfold d_bytes in H.
  destruct (dr_read st d n) as [[[bs0 st0] d0]| |] eqn:Er; cbn [bind] in H; try discriminate H.
  inversion H; subst. eapply consumed_read; eassumption.
Qed.

Lemma consumed_read_u32 st d off st' d' :
  rd_ok st d -> dr_read_u32 st d = OK (off, st', d') ->
  consumed st st' (d_chain d) (le_bytes 4 off) /\ off < two32 /\
  d' = mkDR (d_i d + 4) (d_max d) (d_chain d).
Proof.
  intros Hok H. unfold dr_read_u32 in H.
  destruct (dr_read st d 4) as [[[bs st0] d0]| |] eqn:Er; cbn [bind] in H; try discriminate H.
  inversion H; subst. destruct (consumed_read _ _ _ _ _ _ Hok Er) as (Hc & El & ->).
  assert (Elen : length bs = 4%nat) by (unfold lenN in El; lia).
  pose proof (le_bytes_le_val bs) as Eb. rewrite Elen in Eb. rewrite Eb.
  pose proof (le_val_bound bs) as Hb. rewrite Elen in Hb.
  split; [exact Hc|]. split; [exact Hb|reflexivity].
Qed.

Lemma consumed_read_byte st d b st' d' :
  rd_ok st d -> dr_read_byte st d = OK (b, st', d') ->
  consumed st st' (d_chain d) [byte_of_N b] /\ b < 256 /\
  d' = mkDR (d_i d + 1) (d_max d) (d_chain d).
Proof.
  intros Hok H. unfold dr_read_byte in H.
  destruct (dr_read st d 1) as [[[bs st0] d0]| |] eqn:Er; cbn [bind] in H; try discriminate H.
  inversion H; subst. destruct (consumed_read _ _ _ _ _ _ Hok Er) as (Hc & El & ->).
  destruct bs as [|x [|y bs]]; try (unfold lenN in El; cbn [length] in El; lia).
  cbn [le_val]. replace (N_of_byte x + 256 * 0) with (N_of_byte x) by lia.
  rewrite BitfieldsProofs.byte_of_N_of_byte.
  split; [exact Hc|]. split; [apply BitfieldsProofs.N_of_byte_lt|reflexivity].
Qed.

(* --- the specification of an accepting decoder --- *)
Definition dec_post (t : ty) (st : rstate) (d : dreader) (v : val) (st' : rstate) (d' : dreader)
  : Prop :=
  has_type v t = true /\
  consumed st st' (d_chain d) (spec_ser t v) /\
  (spec_is_fixed t = false -> lenN (spec_ser t v) = dr_scope d) /\
  d_chain d' = d_chain d /\ d_max d' = d_max d /\
  d_i d <= d_i d' <= d_i d + lenN (spec_ser t v).

Definition dec_sd (dec : fdecoder) (t : ty) : Prop :=
  forall c st d v c' st' d', rd_ok st d -> dec c st d = OK (v, c', st', d') ->
  dec_post t st d v st' d'.

Lemma in_sub_scope_inv dec t c size st d v c' st2 :
  dec_sd dec t -> rd_ok st d -> in_sub_scope dec c size st d = OK (v, c', st2) ->
  has_type v t = true /\ consumed st st2 (d_chain d) (spec_ser t v) /\
  size <= dr_scope d /\ lenN (spec_ser t v) <= size /\
  (spec_is_fixed t = false -> lenN (spec_ser t v) = size).
Proof.
  intros Hsd Hok H. unfold in_sub_scope in H.
  destruct (dr_sub_scope st d size) as [[st1 sd]| |] eqn:Es; cbn [bind] in H; try discriminate H.
  destruct (dec c st1 sd) as [[[[v0 c0] st0] d0]| |] eqn:Ed; cbn [bind] in H; try discriminate H.
  inversion H; subst. clear H.
  destruct (dr_sub_scope_inv _ _ _ _ _ Es) as (Hsz & -> & ->).
  destruct (sub_scope_facts st d size Hok Hsz) as (_ & Hok1 & Eav & Hup). cbv zeta in *.
  destruct (Hsd _ _ _ _ _ _ _ Hok1 Ed) as (Hty & ((rest & Er) & Hst & Hav) & Hsc & _).
  rewrite Eav in Hav. cbn [r_stream] in Er.
  split; [exact Hty|]. split.
  - split; [exists rest; exact Er|]. split; [apply Hup, Hst|lia].
  - split; [exact Hsz|]. split; [lia|]. intros Hv. rewrite (Hsc Hv). unfold dr_scope. cbn [d_i d_max]. lia.
Qed.

Lemma d_vector_fixed_inv dec e cs size d : dec_sd dec e ->
  forall count i st vs cs' st', rd_ok st d ->
  d_vector_fixed dec cs i count size st d = OK (vs, cs', st') ->
  length vs = count /\ forallb (fun x => has_type x e) vs = true /\
  consumed st st' (d_chain d) (concat (map (spec_ser e) vs)).
Proof.
  intros Hsd. induction count as [|k IH]; intros i st vs cs' st' Hok H; cbn [d_vector_fixed] in H.
  - inversion H; subst. split; [reflexivity|]. split; [reflexivity|apply consumed_nil].
  - destruct (in_sub_scope dec (ct_child cs i) size st d) as [[[v c] st1]| |] eqn:Es; cbn [bind] in H;
      try discriminate H.
    destruct (d_vector_fixed dec cs (S i) k size st1 d) as [[[vs0 cs0] st2]| |] eqn:Ev; cbn [bind] in H;
      try discriminate H.
    inversion H; subst. clear H.
    destruct (in_sub_scope_inv _ _ _ _ _ _ _ _ _ Hsd Hok Es) as (Hty & Hc & _).
    destruct (IH _ _ _ _ _ (consumed_rd_ok_same _ _ _ _ Hok Hc) Ev) as (El & Hall & Hc2).
    cbn [length forallb map concat]. rewrite El, Hty, Hall.
    split; [reflexivity|]. split; [reflexivity|]. eapply consumed_app; eassumption.
Qed.

Lemma d_read_offsets_inv : forall count st d offs st' d', rd_ok st d ->
  d_read_offsets count st d = OK (offs, st', d') ->
  length offs = count /\ Forall (fun o => o < two32) offs /\
  consumed st st' (d_chain d) (flat_map (le_bytes 4) offs) /\
  d' = mkDR (d_i d + 4 * N.of_nat count) (d_max d) (d_chain d).
Proof.
  induction count as [|k IH]; intros st d offs st' d' Hok H; cbn [d_read_offsets] in H.
  - inversion H; subst. split; [reflexivity|]. split; [constructor|]. split; [apply consumed_nil|].
    rewrite N.mul_0_r, N.add_0_r. destruct d'; reflexivity.
  - destruct (dr_read_u32 st d) as [[[off st1] d1]| |] eqn:Er; cbn [bind] in H; try discriminate H.
    destruct (d_read_offsets k st1 d1) as [[[offs0 st2] d2]| |] eqn:Ev; cbn [bind] in H;
      try discriminate H.
    inversion H; subst. clear H.
    destruct (consumed_read_u32 _ _ _ _ _ Hok Er) as (Hc & Hoff & ->).
    assert (Hok1 : rd_ok st1 (mkDR (d_i d + 4) (d_max d) (d_chain d))).
    { eapply consumed_rd_ok; try eassumption; cbn [d_chain d_max d_i]; try reflexivity.
      change (lenN (le_bytes 4 off)) with 4. lia. }
    destruct (IH _ _ _ _ _ Hok1 Ev) as (El & HF & Hc2 & ->). cbn [d_chain d_max d_i] in *.
    cbn [length flat_map]. split; [rewrite El; reflexivity|]. split; [constructor; assumption|].
    split; [eapply consumed_app; eassumption|]. f_equal. lia.
Qed.

Lemma sub64_cases a b : a < two64 -> b < two32 ->
  (b <= a /\ sub64 a b = a - b) \/ (a < b /\ two64 - two32 <= sub64 a b).
Proof.
  intros Ha Hb. destruct (N.le_gt_cases b a) as [Hle|Hgt].
  - left. split; [exact Hle|]. apply sub64_exact; assumption.
  - right. split; [exact Hgt|]. unfold sub64, wrap64. unfold two64, two32 in *.
    rewrite (N.mod_small b) by lia. rewrite N.mod_small by lia. lia.
Qed.

Lemma d_var_items_inv dec e cs vstyle d scope : dec_sd dec e -> spec_is_fixed e = false ->
  scope < two63 ->
  forall offs i prev st vs cs' st', rd_ok st d -> Forall (fun o => o < two32) offs ->
  d_var_items (fun _ => dec) cs i offs scope prev vstyle st d = OK (vs, cs', st') ->
  forallb (fun x => has_type x e) vs = true /\
  offs = offs_from (map (fun v => lenN (spec_ser e v)) vs) (hd scope offs) /\
  scope = hd scope offs + lenN (concat (map (spec_ser e) vs)) /\
  consumed st st' (d_chain d) (concat (map (spec_ser e) vs)).
Proof.
  intros Hsd Hfx Hscope. induction offs as [|off rest IH]; intros i prev st vs cs' st' Hok HF H;
    cbn [d_var_items] in H.
  - inversion H; subst. cbn [hd map concat offs_from]. change (lenN (@nil byte)) with 0.
    split; [reflexivity|]. split; [reflexivity|]. split; [lia|apply consumed_nil].
  - destruct (off <? prev); [discriminate H|].
    set (next := match rest with o' :: _ => o' | [] => scope end) in *.
    assert (Enext : next = hd scope rest) by (destruct rest; reflexivity).
    destruct (in_sub_scope dec (ct_child cs i) (sub64 next off) st d) as [[[v c] st1]| |] eqn:Es;
      cbn [bind] in H; try discriminate H.
    match type of H with context [d_var_items ?a ?b ?c ?dd ?e0 ?f ?g ?h ?k] =>
      destruct (d_var_items a b c dd e0 f g h k) as [[[vs0 cs0] st2]| |] eqn:Ev end;
      cbn [bind] in H; try discriminate H.
    inversion H; subst vs cs' st'. clear H.
    pose proof (Forall_inv HF) as Hoff; pose proof (Forall_inv_tail HF) as HF'. cbv beta in Hoff.
    destruct (in_sub_scope_inv _ _ _ _ _ _ _ _ _ Hsd Hok Es) as (Hty & Hc & Hsz & _ & Hm).
    specialize (Hm Hfx).
    assert (Hnext : next < two64).
    { rewrite Enext. destruct rest as [|o' rest']; cbn [hd].
      - unfold two63, two64 in *. lia.
      - pose proof (Forall_inv HF') as Ho'. cbv beta in Ho'. unfold two32, two64 in *. lia. }
    pose proof Hok as (Hi & Hmax & _ & _).
    destruct (sub64_cases next off Hnext Hoff) as [[Hle Esub]|[_ Hbig]].
    2:{ exfalso. unfold dr_scope, two63, two64, two32 in *. lia. }
    rewrite Esub in *.
    destruct (IH _ _ _ _ _ _ (consumed_rd_ok_same _ _ _ _ Hok Hc) HF' Ev) as (Hall & Eoffs & Esc & Hc2).
    cbn [forallb map concat offs_from hd]. rewrite Hty, Hall. rewrite lenN_app.
    split; [reflexivity|]. split; [|split].
    + f_equal. rewrite Eoffs at 1. f_equal. lia.
    + rewrite Esc. lia.
    + eapply consumed_app; eassumption.
Qed.

Lemma dec_roots_inv : forall k st d v c' st' d', rd_ok st d ->
  dec_roots k st d = OK (v, c', st', d') ->
  exists bss, v = VSeq (map VBytes bss) /\ length bss = k /\ Forall (fun bs => lenN bs = 32) bss /\
    consumed st st' (d_chain d) (concat bss) /\
    d' = mkDR (d_i d + 32 * N.of_nat k) (d_max d) (d_chain d).
Proof.
  induction k as [|k IH]; intros st d v c' st' d' Hok H; cbn [dec_roots] in H.
  - inversion H; subst. exists []. split; [reflexivity|]. split; [reflexivity|]. split; [constructor|].
    split; [apply consumed_nil|]. rewrite N.mul_0_r, N.add_0_r. destruct d'; reflexivity.
  - destruct (dr_read st d 32) as [[[bs st1] d1]| |] eqn:Er; cbn [bind] in H; try discriminate H.
    destruct (dec_roots k st1 d1) as [[[[v0 c0] st2] d2]| |] eqn:Ev; cbn [bind] in H;
      try discriminate H.
    destruct v0; try discriminate H. inversion H; subst. clear H.
    destruct (consumed_read _ _ _ _ _ _ Hok Er) as (Hc & El & ->).
    assert (Hok1 : rd_ok st1 (mkDR (d_i d + 32) (d_max d) (d_chain d))).
    { eapply consumed_rd_ok; try eassumption; cbn [d_chain d_max d_i]; try reflexivity. lia. }
    destruct (IH _ _ _ _ _ _ Hok1 Ev) as (bss & Ev0 & Elen & HF & Hc2 & ->).
    inversion Ev0; subst vs. cbn [d_chain d_max d_i] in *.
    exists (bs :: bss). cbn [map length concat]. split; [reflexivity|]. split; [rewrite Elen; reflexivity|].
    split; [constructor; assumption|]. split; [eapply consumed_app; eassumption|]. f_equal. lia.
Qed.

(* --- containers --- *)
Fixpoint dfs_sound (fs : list ty) (dfs : list dfield) : Prop :=
  match fs, dfs with
  | [], [] => True
  | f :: fs', DFixed v _ :: dfs' =>
    spec_is_fixed f = true /\ has_type v f = true /\ dfs_sound fs' dfs'
  | f :: fs', DVar o :: dfs' => spec_is_fixed f = false /\ o < two32 /\ dfs_sound fs' dfs'
  | _, _ => False
  end.

Fixpoint FAd (fs : list ty) (dfs : list dfield) : list byte :=
  match fs, dfs with
  | f :: fs', DFixed v _ :: dfs' => spec_ser f v ++ FAd fs' dfs'
  | f :: fs', DVar o :: dfs' => le_bytes 4 o ++ FAd fs' dfs'
  | _, _ => []
  end.

Definition sd_ok (t : ty) : Prop := dec_sd (flat_dec t) t.

Lemma d_cont_fixed_inv cs : forall fs, Forall sd_ok fs -> forallb wf_ty fs = true ->
  forall i prev st d dfs p st' d', rd_ok st d -> prev < two64 ->
  d_cont_fixed (map (fun f => (flat_fixed_len f, flat_dec f)) fs) cs i prev st d = OK (dfs, p, st', d') ->
  dfs_sound fs dfs /\ consumed st st' (d_chain d) (FAd fs dfs) /\
  p = wrap64 (prev + lenN (FAd fs dfs)) /\
  d_chain d' = d_chain d /\ d_max d' = d_max d /\ d_i d <= d_i d' <= d_i d + lenN (FAd fs dfs).
Proof.
  induction fs as [|f fs IH]; intros HF Hwf i prev st d dfs p st' d' Hok Hprev H;
    cbn [map d_cont_fixed] in H.
  - inversion H; subst. cbn [dfs_sound FAd]. change (lenN (@nil byte)) with 0. rewrite N.add_0_r.
    split; [exact I|]. split; [apply consumed_nil|]. split; [symmetry; apply wrap64_small, Hprev|].
    repeat split; lia.
  - pose proof (Forall_inv HF) as Hf; pose proof (Forall_inv_tail HF) as HF'.
    cbn [forallb] in Hwf. apply andb_true_iff in Hwf. destruct Hwf as [Hwf1 Hwf2].
    rewrite nonneg_fsz in H by exact Hwf1.
    destruct (spec_is_fixed f) eqn:Hfx.
    + destruct (in_sub_scope (flat_dec f) (ct_child cs i) (flat_fixed_len f) st d) as [[[v c] st1]| |] eqn:Es;
        cbn [bind] in H; try discriminate H.
      match type of H with context [d_cont_fixed ?a ?b ?c0 ?dd ?e0 ?g] =>
        destruct (d_cont_fixed a b c0 dd e0 g) as [[[[dfs0 p0] st2] d2]| |] eqn:Ev end;
        cbn [bind] in H; try discriminate H.
      inversion H; subst. clear H.
      destruct (in_sub_scope_inv _ _ _ _ _ _ _ _ _ Hf Hok Es) as (Hty & Hc & _).
      destruct (IH HF' Hwf2 _ _ _ _ _ _ _ _ (consumed_rd_ok_same _ _ _ _ Hok Hc) (wrap64_lt _) Ev)
        as (Hs & Hc2 & Ep & Ech & Emax & Eidx).
      cbn [dfs_sound FAd]. rewrite lenN_app.
      split; [auto|]. split; [eapply consumed_app; eassumption|]. split.
      * rewrite Ep. unfold add64. rewrite wrap64_add_l. f_equal.
        unfold flat_fixed_len. rewrite Hfx, (spec_ser_fixed_len f v Hfx Hty). lia.
      * repeat split; try assumption; lia.
    + destruct (dr_read_u32 st d) as [[[off st1] d1]| |] eqn:Er; cbn [bind] in H; try discriminate H.
      match type of H with context [d_cont_fixed ?a ?b ?c0 ?dd ?e0 ?g] =>
        destruct (d_cont_fixed a b c0 dd e0 g) as [[[[dfs0 p0] st2] d2]| |] eqn:Ev end;
        cbn [bind] in H; try discriminate H.
      inversion H; subst. clear H.
      destruct (consumed_read_u32 _ _ _ _ _ Hok Er) as (Hc & Hoff & ->).
      assert (Hok1 : rd_ok st1 (mkDR (d_i d + 4) (d_max d) (d_chain d))).
      { eapply consumed_rd_ok; try eassumption; cbn [d_chain d_max d_i]; try reflexivity.
        change (lenN (le_bytes 4 off)) with 4. lia. }
      destruct (IH HF' Hwf2 _ _ _ _ _ _ _ _ Hok1 (wrap64_lt _) Ev) as (Hs & Hc2 & Ep & Ech & Emax & Eidx).
      cbn [d_chain d_max d_i] in *.
      cbn [dfs_sound FAd]. rewrite lenN_app. change (lenN (le_bytes 4 off)) with 4.
      split; [auto|]. split; [eapply consumed_app; eassumption|]. split.
      * rewrite Ep. unfold add64. rewrite wrap64_add_l. f_equal. lia.
      * repeat split; try assumption; lia.
Qed.

Lemma dfs_sound_length : forall fs dfs, dfs_sound fs dfs -> length dfs = length fs.
Proof.
  induction fs as [|f fs IH]; intros [|[v c|o] dfs] H; cbn [dfs_sound] in H; try contradiction;
    try reflexivity; cbn [length]; f_equal; apply IH; tauto.
Qed.

Lemma nxt_fvo scope : forall fs dfs o, dfs_sound fs dfs -> fvo dfs = Some o ->
  nxt_off scope (combine dfs (map flat_dec fs)) = o.
Proof.
  induction fs as [|f fs IH]; intros [|[v c|o'] dfs] o H E; cbn [dfs_sound] in H; try contradiction;
    cbn [fvo] in E; try discriminate E; cbn [map combine nxt_off].
  - apply IH; tauto.
  - inversion E. reflexivity.
Qed.

Lemma d_cont_var_inv cs d scope : forall fs, Forall sd_ok fs ->
  forall dfs i st vs cs' st', dfs_sound fs dfs -> rd_ok st d ->
  d_cont_var (combine dfs (map flat_dec fs)) cs i scope st d = OK (vs, cs', st') ->
  let off := nxt_off scope (combine dfs (map flat_dec fs)) in
  has_type_fields fs vs = true /\ dfs_match fs vs off dfs /\ scope = off + var_len fs vs /\
  consumed st st' (d_chain d) (VA fs vs off).
Proof.
  induction fs as [|f fs IH]; intros HF [|[v c|o] dfs] i st vs cs' st' Hs Hok H;
    cbn [dfs_sound] in Hs; try contradiction; cbn [map combine] in *.
  - cbn [d_cont_var] in H. inversion H; subst. cbn [nxt_off]. unfold var_len. cbn.
    split; [reflexivity|]. split; [exact I|]. split; [lia|apply consumed_nil].
  - pose proof (Forall_inv HF) as Hf; pose proof (Forall_inv_tail HF) as HF'.
    destruct Hs as (Hfx & Hty & Hs). cbn [d_cont_var] in H.
    destruct (d_cont_var (combine dfs (map flat_dec fs)) cs (S i) scope st d) as [[[vs0 cs0] st1]| |] eqn:Ev;
      cbn [bind] in H; try discriminate H.
    inversion H; subst. clear H.
    destruct (IH HF' _ _ _ _ _ _ Hs Hok Ev) as (Htys & Hm & Esc & Hc). cbv zeta in *.
    cbn [nxt_off has_type_fields dfs_match]. rewrite VA_cons, var_len_cons, Hfx, Hty.
    split; [exact Htys|]. split; [split; [exists c; reflexivity|exact Hm]|]. split; [lia|exact Hc].
  - pose proof (Forall_inv HF) as Hf; pose proof (Forall_inv_tail HF) as HF'.
    destruct Hs as (Hfx & Ho & Hs). rewrite d_cont_var_cons_var in H. cbv zeta in H.
    set (next := nxt_off scope (combine dfs (map flat_dec fs))) in *.
    destruct (N.ltb_spec next o) as [|Hle]; [discriminate H|].
    destruct (in_sub_scope (flat_dec f) (ct_child cs i) (next - o) st d) as [[[x c] st1]| |] eqn:Es;
      cbn [bind] in H; try discriminate H.
    destruct (d_cont_var (combine dfs (map flat_dec fs)) cs (S i) scope st1 d) as [[[vs0 cs0] st2]| |] eqn:Ev;
      cbn [bind] in H; try discriminate H.
    inversion H; subst. clear H.
    destruct (in_sub_scope_inv _ _ _ _ _ _ _ _ _ Hf Hok Es) as (Hty & Hc & _ & _ & Hm).
    specialize (Hm Hfx).
    destruct (IH HF' _ _ _ _ _ _ Hs (consumed_rd_ok_same _ _ _ _ Hok Hc) Ev) as (Htys & Hmt & Esc & Hc2).
    cbv zeta in *. fold next in Hmt, Esc, Hc2.
    cbn [nxt_off has_type_fields dfs_match]. rewrite VA_cons, var_len_cons, Hfx, Hty.
    replace (o + lenN (spec_ser f x)) with next by lia.
    split; [exact Htys|]. split; [split; [reflexivity|exact Hmt]|]. split; [lia|].
    eapply consumed_app; eassumption.
Qed.

Lemma FAd_match : forall fs vs off dfs, dfs_match fs vs off dfs -> FAd fs dfs = FA fs vs off.
Proof.
  induction fs as [|f fs IH]; intros [|x vs] off [|df dfs] Hm; cbn [dfs_match] in Hm;
    try contradiction; [reflexivity|].
  rewrite FA_cons. destruct (spec_is_fixed f).
  - destruct Hm as [[c ->] Hm]. cbn [FAd]. rewrite (IH _ _ _ Hm). reflexivity.
  - destruct Hm as [-> Hm]. cbn [FAd]. rewrite (IH _ _ _ Hm). reflexivity.
Qed.

Lemma dec_fixed_fields_inv c : forall fs, Forall sd_ok fs -> forallb spec_is_fixed fs = true ->
  forall off i st d vs cs st' d', rd_ok st d ->
  dec_fixed_fields flat_dec c fs i st d = OK (vs, cs, st', d') ->
  has_type_fields fs vs = true /\ consumed st st' (d_chain d) (FA fs vs off) /\
  d_chain d' = d_chain d /\ d_max d' = d_max d /\ d_i d <= d_i d' <= d_i d + lenN (FA fs vs off).
Proof.
  induction fs as [|f fs IH]; intros HF Hfx off i st d vs cs st' d' Hok H; cbn [dec_fixed_fields] in H.
  - inversion H; subst. change (FA [] [] off) with (@nil byte). change (lenN (@nil byte)) with 0.
    split; [reflexivity|]. split; [apply consumed_nil|]. repeat split; lia.
  - pose proof (Forall_inv HF) as Hf; pose proof (Forall_inv_tail HF) as HF'.
    cbn [forallb] in Hfx. apply andb_true_iff in Hfx. destruct Hfx as [Hfx1 Hfx2].
    destruct (flat_dec f (ct_child c i) st d) as [[[[v c1] st1] d1]| |] eqn:Ed; cbn [bind] in H;
      try discriminate H.
    destruct (dec_fixed_fields flat_dec c fs (S i) st1 d1) as [[[[vs0 cs0] st2] d2]| |] eqn:Ev;
      cbn [bind] in H; try discriminate H.
    inversion H; subst. clear H.
    destruct (Hf _ _ _ _ _ _ _ Hok Ed) as (Hty & Hc & _ & Ech1 & Emax1 & Eidx1).
    assert (Hok1 : rd_ok st1 d1) by (eapply consumed_rd_ok; eassumption).
    destruct (IH HF' Hfx2 off _ _ _ _ _ _ _ Hok1 Ev) as (Htys & Hc2 & Ech2 & Emax2 & Eidx2).
    rewrite Ech1 in Hc2. cbn [has_type_fields]. rewrite FA_cons, Hfx1, Hty, lenN_app.
    split; [exact Htys|]. split; [eapply consumed_app; eassumption|].
    repeat split; try congruence; lia.
Qed.

(* --- the induction --- *)
Lemma byte_seq_dec bs :
  forallb (fun x => has_type x (TUint 1)) (map (fun b => VUint (N_of_byte b)) bs) = true /\
  concat (map (spec_ser (TUint 1)) (map (fun b => VUint (N_of_byte b)) bs)) = bs /\
  lenN (map (fun b => VUint (N_of_byte b)) bs) = lenN bs.
Proof.
  induction bs as [|b bs (IH1 & IH2 & IH3)]; [repeat split|].
  cbn [map forallb concat]. rewrite IH1, IH2, !lenN_cons, IH3.
  change (spec_ser (TUint 1) (VUint (N_of_byte b))) with [byte_of_N (N_of_byte b)].
  rewrite BitfieldsProofs.byte_of_N_of_byte. cbn [has_type]. change (2 ^ (8 * 1)) with 256.
  pose proof (BitfieldsProofs.N_of_byte_lt b) as Hb. apply N.ltb_lt in Hb. rewrite Hb.
  repeat split.
Qed.

Lemma dr_scope_lt63 st d : rd_ok st d -> dr_scope d < two63.
Proof. intros (_ & Hm & _). unfold dr_scope. lia. Qed.

Lemma consumed_le_scope st st' d enc : rd_ok st d -> consumed st st' (d_chain d) enc ->
  lenN enc <= dr_scope d.
Proof. intros (_ & _ & _ & Hav) (_ & _ & Hle). lia. Qed.

Lemma spec_ser_vector e n vs : spec_ser (TVector e n) (VSeq vs) =
  ser_parts (map (fun x => (spec_is_fixed e, spec_ser e x)) vs).
Proof. reflexivity. Qed.
Lemma spec_ser_list e n vs : spec_ser (TList e n) (VSeq vs) =
  ser_parts (map (fun x => (spec_is_fixed e, spec_ser e x)) vs).
Proof. reflexivity. Qed.
Lemma has_type_vector e n vs : has_type (VSeq vs) (TVector e n) =
  (lenN vs =? n) && forallb (fun x => has_type x e) vs.
Proof. reflexivity. Qed.
Lemma has_type_list e n vs : has_type (VSeq vs) (TList e n) =
  (lenN vs <=? n) && forallb (fun x => has_type x e) vs.
Proof. reflexivity. Qed.

Lemma sd_vector e n : wf_ty (TVector e n) = true -> small_params (TVector e n) = true ->
  sd_ok e -> sd_ok (TVector e n).
Proof.
  intros Hwf Hsm IHe c st d v c' st' d' Hok H.
  cbn [wf_ty small_params] in *. apply andb_true_iff in Hwf. destruct Hwf as [Hn Hwe].
  apply andb_true_iff in Hsm. destruct Hsm as [Hn56 _]. apply N.leb_le in Hn, Hn56.
  change (2 ^ 56) with 72057594037927936 in Hn56.
  rewrite flat_dec_vector in H. unfold dec_post. cbn [spec_is_fixed].
  destruct (is_byte_elem e) eqn:Eb.
  { apply is_byte_elem_eq in Eb. subst e.
    destruct (d_bytes c n st d) as [[[[bs c0] st1] d1]| |] eqn:Er; cbn [bind] in H; try discriminate H.
    inversion H; subst. clear H.
    destruct (consumed_d_bytes _ _ _ _ _ _ _ _ Hok Er) as (Hc & El & ->).
    destruct (byte_seq_dec bs) as (Hall & Eenc & Elen).
    rewrite has_type_vector, spec_ser_vector. change (spec_is_fixed (TUint 1)) with true.
    rewrite series_fixed_enc, Eenc.
    rewrite Elen, El, N.eqb_refl, Hall. cbn [d_chain d_max d_i].
    split; [reflexivity|]. split; [exact Hc|]. split; [discriminate|]. repeat split; lia. }
  cbv zeta in H. rewrite nonneg_fsz in H by exact Hwe.
  destruct (spec_is_fixed e) eqn:Hfx.
  - destruct (d_vector_fixed (flat_dec e) c 0 (nat_of n) (flat_fixed_len e) st d) as [[[vs cs] st1]| |] eqn:Ev;
      cbn [bind] in H; try discriminate H.
    inversion H; subst. clear H.
    destruct (d_vector_fixed_inv _ e _ _ _ IHe _ _ _ _ _ _ Hok Ev) as (Elen & Hall & Hc).
    rewrite has_type_vector, spec_ser_vector. rewrite Hfx, series_fixed_enc, Hall.
    replace (lenN vs) with n by (unfold lenN, nat_of in *; lia). rewrite N.eqb_refl.
    split; [reflexivity|]. split; [exact Hc|]. split; [discriminate|]. repeat split; lia.
  - destruct (d_read_offsets (nat_of n) st d) as [[[offs st1] d1]| |] eqn:Er; cbn [bind] in H;
      try discriminate H.
    destruct (negb (hd (mul64 4 n) offs =? mul64 4 n)) eqn:Ehd; [discriminate H|].
    apply negb_false_iff, N.eqb_eq in Ehd.
    destruct (d_var_items (fun _ => flat_dec e) c 0 offs (dr_scope d) 0 true st1 d1) as [[[vs cs] st2]| |] eqn:Ev;
      cbn [bind] in H; try discriminate H.
    inversion H; subst. clear H.
    destruct (d_read_offsets_inv _ _ _ _ _ _ Hok Er) as (Elo & HFo & Hc1 & ->).
    assert (Ell : lenN (flat_map (le_bytes 4) offs) = 4 * n).
    { rewrite lenN_flat_map_u32. unfold lenN. rewrite Elo. unfold nat_of. lia. }
    assert (Hok1 : rd_ok st1 (mkDR (d_i d + 4 * N.of_nat (nat_of n)) (d_max d) (d_chain d))).
    { eapply consumed_rd_ok; try eassumption; cbn [d_chain d_max d_i]; try reflexivity.
      rewrite Ell. unfold nat_of. lia. }
    destruct (d_var_items_inv _ e _ _ _ _ IHe Hfx (dr_scope_lt63 _ _ Hok) _ _ _ _ _ _ _ Hok1 HFo Ev)
      as (Hall & Eoffs & Esc & Hc2).
    cbn [d_chain] in Hc2.
    assert (Elv : lenN vs = n).
    { apply (f_equal (@length N)) in Eoffs. rewrite offs_from_length, map_length, Elo in Eoffs.
      unfold lenN, nat_of in *. lia. }
    assert (E4 : hd (dr_scope d) offs = 4 * n).
    { rewrite mul64_small in Ehd by (unfold two64; lia).
      destruct offs as [|o offs']; [cbn [length] in Elo; unfold nat_of in Elo; lia|exact Ehd]. }
    rewrite E4 in *.
    rewrite has_type_vector, spec_ser_vector. rewrite Hfx, series_var_enc, Hall.
    rewrite Elv, N.eqb_refl, <- Eoffs, lenN_app, Ell. cbn [d_chain d_max d_i].
    split; [reflexivity|]. split; [eapply consumed_app; eassumption|]. split; [intros _; lia|].
    repeat split; try lia. unfold nat_of. lia.
Qed.

Lemma sd_list e n : wf_ty (TList e n) = true -> sd_ok e -> sd_ok (TList e n).
Proof.
  intros Hwe IHe c st d v c' st' d' Hok H. cbn [wf_ty] in Hwe.
  rewrite flat_dec_list in H. cbv zeta in H. unfold dec_post. cbn [spec_is_fixed].
  destruct (is_byte_elem e) eqn:Eb.
  { apply is_byte_elem_eq in Eb. subst e.
    destruct (N.ltb_spec n (dr_scope d)) as [|Hle]; [discriminate H|].
    destruct (d_bytes c (dr_scope d) st d) as [[[[bs c0] st1] d1]| |] eqn:Er; cbn [bind] in H;
      try discriminate H.
    inversion H; subst. clear H.
    destruct (consumed_d_bytes _ _ _ _ _ _ _ _ Hok Er) as (Hc & El & ->).
    destruct (byte_seq_dec bs) as (Hall & Eenc & Elen).
    rewrite has_type_list, spec_ser_list. change (spec_is_fixed (TUint 1)) with true.
    rewrite series_fixed_enc, Eenc, Elen, El, Hall. cbn [d_chain d_max d_i].
    split; [apply andb_true_iff; split; [apply N.leb_le; exact Hle|reflexivity]|].
    split; [exact Hc|]. split; [reflexivity|]. repeat split; lia. }
  destruct (is_root_elem e) eqn:Ert.
  { apply is_root_elem_eq in Ert. subst e.
    destruct (negb (dr_scope d mod 32 =? 0)) eqn:Em; [discriminate H|].
    apply negb_false_iff, N.eqb_eq in Em.
    destruct (N.ltb_spec n (dr_scope d / 32)) as [|Hle]; [discriminate H|].
    destruct (dec_roots_inv _ _ _ _ _ _ _ Hok H) as (bss & -> & Elen & HFb & Hc & ->).
    rewrite has_type_list, spec_ser_list. change (spec_is_fixed TRoot) with true.
    rewrite series_fixed_enc.
    assert (Eenc : concat (map (spec_ser TRoot) (map VBytes bss)) = concat bss).
    { rewrite map_map. f_equal. change (fun x => spec_ser TRoot (VBytes x)) with (fun x : list byte => x).
      apply map_id. }
    assert (El : lenN (concat bss) = dr_scope d).
    { rewrite lenN_concat, (sumN_map_const _ 32) by exact HFb. unfold lenN. rewrite Elen.
      unfold nat_of. lia. }
    assert (Elm : lenN (map VBytes bss) = dr_scope d / 32).
    { unfold lenN. rewrite map_length, Elen. unfold nat_of. lia. }
    assert (Hall : forallb (fun x => has_type x TRoot) (map VBytes bss) = true).
    { apply forallb_forall. intros x Hin. apply in_map_iff in Hin. destruct Hin as (bs & <- & Hin).
      rewrite Forall_forall in HFb. cbn [has_type]. apply N.eqb_eq. apply HFb, Hin. }
    rewrite Eenc, El, Elm, Hall. cbn [d_chain d_max d_i].
    split; [apply andb_true_iff; split; [apply N.leb_le; exact Hle|reflexivity]|].
    split; [exact Hc|]. split; [reflexivity|]. repeat split; try lia. unfold nat_of. lia. }
  destruct (N.eqb_spec (dr_scope d) 0) as [E0|E0].
  { inversion H; subst. clear H. rewrite has_type_list, spec_ser_list. cbn [map forallb].
    change (ser_parts []) with (@nil byte). change (lenN (@nil val)) with 0.
    change (lenN (@nil byte)) with 0.
    split; [apply andb_true_iff; split; [apply N.leb_le; lia|reflexivity]|].
    split; [apply consumed_nil|]. split; [intros _; lia|]. repeat split; lia. }
  rewrite nonneg_fsz in H by exact Hwe.
  destruct (spec_is_fixed e) eqn:Hfx.
  - destruct (negb (dr_scope d mod flat_fixed_len e =? 0)) eqn:Em; [discriminate H|].
    apply negb_false_iff, N.eqb_eq in Em.
    destruct (N.ltb_spec n (dr_scope d / flat_fixed_len e)) as [|Hle]; [discriminate H|].
    destruct (d_vector_fixed (flat_dec e) CFresh 0 (nat_of (dr_scope d / flat_fixed_len e))
                (flat_fixed_len e) st d) as [[[vs cs] st1]| |] eqn:Ev; cbn [bind] in H; try discriminate H.
    inversion H; subst v c' st' d'. clear H.
    destruct (d_vector_fixed_inv _ e _ _ _ IHe _ _ _ _ _ _ Hok Ev) as (Elen & Hall & Hc).
    assert (Hpos : 1 <= flat_fixed_len e).
    { unfold flat_fixed_len. rewrite Hfx. apply wf_fixed_len_pos; assumption. }
    assert (Elv : lenN vs = dr_scope d / flat_fixed_len e) by (unfold lenN, nat_of in *; lia).
    assert (El : lenN (concat (map (spec_ser e) vs)) = dr_scope d).
    { rewrite (lenN_concat_const (spec_ser e) vs _ (fixed_elems_len e vs Hfx Hall)), Elv.
      pose proof (N.div_mod (dr_scope d) (flat_fixed_len e)). lia. }
    rewrite has_type_list, spec_ser_list. rewrite Hfx, series_fixed_enc, Hall, Elv, El.
    split; [apply andb_true_iff; split; [apply N.leb_le; exact Hle|reflexivity]|].
    split; [exact Hc|]. split; [reflexivity|]. repeat split; lia.
  - destruct (dr_read_u32 st d) as [[[first st1] d1]| |] eqn:Er; cbn [bind] in H; try discriminate H.
    destruct (negb (first mod 4 =? 0)) eqn:Em; [discriminate H|].
    apply negb_false_iff, N.eqb_eq in Em.
    destruct (N.ltb_spec n (first / 4)) as [|Hle]; [discriminate H|].
    destruct (N.eqb_spec first 0) as [|Hf0]; [discriminate H|]. cbn [orb] in H.
    destruct (N.ltb_spec (dr_scope d) first) as [|Hfs]; [discriminate H|].
    destruct (d_read_offsets (nat_of (first / 4 - 1)) st1 d1) as [[[offs st2] d2]| |] eqn:Ero;
      cbn [bind] in H; try discriminate H.
    destruct (d_var_items (fun _ => flat_dec e) CFresh 0 (first :: offs) (dr_scope d) 0 false st2 d2)
      as [[[vs cs] st3]| |] eqn:Ev; cbn [bind] in H; try discriminate H.
    inversion H; subst. clear H.
    destruct (consumed_read_u32 _ _ _ _ _ Hok Er) as (Hc0 & Hfirst & ->).
    assert (Hok1 : rd_ok st1 (mkDR (d_i d + 4) (d_max d) (d_chain d))).
    { eapply consumed_rd_ok; try eassumption; cbn [d_chain d_max d_i]; try reflexivity.
      change (lenN (le_bytes 4 first)) with 4. lia. }
    destruct (d_read_offsets_inv _ _ _ _ _ _ Hok1 Ero) as (Elo & HFo & Hc1 & ->).
    cbn [d_chain d_max d_i] in *.
    assert (Ell : lenN (flat_map (le_bytes 4) offs) = 4 * (first / 4 - 1)).
    { rewrite lenN_flat_map_u32. unfold lenN. rewrite Elo. unfold nat_of. lia. }
    set (d2 := mkDR (d_i d + 4 + 4 * N.of_nat (nat_of (first / 4 - 1))) (d_max d) (d_chain d)) in *.
    assert (Hok2 : rd_ok st2 d2).
    { eapply (consumed_rd_ok st1 st2 (mkDR (d_i d + 4) (d_max d) (d_chain d))); try eassumption;
        unfold d2; cbn [d_chain d_max d_i]; try reflexivity. rewrite Ell. unfold nat_of. lia. }
    assert (HFo' : Forall (fun o => o < two32) (first :: offs)) by (constructor; assumption).
    destruct (d_var_items_inv _ e _ _ _ _ IHe Hfx (dr_scope_lt63 _ _ Hok) _ _ _ _ _ _ _ Hok2 HFo' Ev)
      as (Hall & Eoffs & Esc & Hc2).
    unfold d2 in Hc2. cbn [d_chain hd] in *.
    assert (Elv : lenN vs = first / 4).
    { apply (f_equal (@length N)) in Eoffs. rewrite offs_from_length, map_length in Eoffs.
      cbn [length] in Eoffs. rewrite Elo in Eoffs. unfold lenN, nat_of in *. lia. }
    assert (E4 : first = 4 * lenN vs) by lia.
    rewrite has_type_list, spec_ser_list. rewrite Hfx, series_var_enc, Hall.
    rewrite <- E4, <- Eoffs. cbn [flat_map]. rewrite !lenN_app, Ell. change (lenN (le_bytes 4 first)) with 4.
    split; [apply andb_true_iff; split; [apply N.leb_le; lia|reflexivity]|].
    split; [rewrite <- app_assoc; eapply consumed_app; [exact Hc0|eapply consumed_app; eassumption]|].
    split; [intros _; lia|]. unfold d2. cbn [d_chain d_max d_i]. repeat split; try lia. unfold nat_of. lia.
Qed.

Lemma VA_nil_all_fixed fs vs off : forallb spec_is_fixed fs = true -> VA fs vs off = [].
Proof.
  intros H. apply lenN_nil_iff. rewrite lenN_VA. apply var_len_all_fixed, H.
Qed.

Lemma VA_indep : forall fs vs off off', VA fs vs off = VA fs vs off'.
Proof.
  induction fs as [|f fs IH]; intros [|x vs] off off'; try reflexivity.
  rewrite !VA_cons. destruct (spec_is_fixed f); [apply IH|]. f_equal. apply IH.
Qed.

Lemma sd_cont fs : wf_ty (TContainer fs) = true -> Forall sd_ok fs -> sd_ok (TContainer fs).
Proof.
  intros Hwf IHfs c st d v c' st' d' Hok H.
  cbn [wf_ty] in Hwf. apply andb_true_iff in Hwf. destruct Hwf as [_ Hwfs].
  rewrite flat_dec_cont in H. unfold dec_post. cbn [spec_is_fixed].
  destruct (forallb spec_is_fixed fs) eqn:Hfx.
  - destruct (dec_fixed_fields flat_dec c fs 0 st d) as [[[[vs cs] st1] d1]| |] eqn:Ev; cbn [bind] in H;
      try discriminate H.
    inversion H; subst. clear H.
    set (FL := sumN (map part_fixed_size (ser_fields fs vs))).
    destruct (dec_fixed_fields_inv c fs IHfs Hfx FL _ _ _ _ _ _ _ Hok Ev) as (Htys & Hc & Ech & Emax & Eidx).
    rewrite has_type_cont, spec_ser_cont, ser_parts_FA_VA. fold FL.
    rewrite (VA_nil_all_fixed fs vs FL Hfx), app_nil_r.
    split; [exact Htys|]. split; [exact Hc|]. split; [discriminate|]. repeat split; try assumption; lia.
  - cbv zeta in H.
    destruct (d_cont_fixed (map (fun f => (flat_fixed_len f, flat_dec f)) fs) c 0 0 st d)
      as [[[[dfs prev] st1] d1]| |] eqn:Ev; cbn [bind] in H; try discriminate H.
    rewrite first_var_off_fvo in H. destruct (fvo dfs) as [o0|] eqn:Efvo; [|discriminate H].
    destruct (negb (prev =? o0)) eqn:Ep; [discriminate H|]. apply negb_false_iff, N.eqb_eq in Ep.
    destruct (d_cont_var (combine dfs (map flat_dec fs)) c 0 (dr_scope d) st1 d1) as [[[vs cs] st2]| |] eqn:Ev2;
      cbn [bind] in H; try discriminate H.
    inversion H; subst v c' st' d'. clear H.
    destruct (d_cont_fixed_inv c fs IHfs Hwfs _ _ _ _ _ _ _ _ Hok two64_pos Ev)
      as (Hs & Hc1 & Eprev & Ech & Emax & Eidx).
    assert (Hok1 : rd_ok st1 d1) by (eapply consumed_rd_ok; eassumption).
    destruct (d_cont_var_inv c d1 (dr_scope d) fs IHfs _ _ _ _ _ _ Hs Hok1 Ev2) as (Htys & Hm & Esc & Hc2).
    cbv zeta in *. rewrite (nxt_fvo (dr_scope d) fs dfs o0 Hs Efvo) in *.
    rewrite (FAd_match fs vs o0 dfs Hm) in *. rewrite Ech in Hc2.
    pose proof (consumed_le_scope _ _ _ _ Hok Hc1) as Hle. pose proof (dr_scope_lt63 _ _ Hok) as H63.
    rewrite N.add_0_l, wrap64_small in Eprev by (unfold two63, two64 in *; lia).
    rewrite lenN_FA in *.
    set (FL := sumN (map part_fixed_size (ser_fields fs vs))) in *.
    rewrite has_type_cont, spec_ser_cont, ser_parts_FA_VA. fold FL. subst o0.
    rewrite lenN_app, lenN_FA, lenN_VA. fold FL.
    rewrite Eprev in Hc1, Hc2, Esc.
    split; [exact Htys|]. split; [eapply consumed_app; eassumption|]. split; [intros _; lia|].
    repeat split; try assumption; lia.
Qed.

Lemma sd_union none opts : wf_ty (TUnion none opts) = true -> Forall sd_ok opts ->
  sd_ok (TUnion none opts).
Proof.
  intros Hwf IHopts c st d v c' st' d' Hok H.
  cbn [wf_ty] in Hwf. apply andb_true_iff in Hwf. destruct Hwf as [_ Hwfs].
  rewrite flat_dec_union in H. unfold dec_post. cbn [spec_is_fixed].
  destruct (dr_read_byte st d) as [[[sel st1] d1]| |] eqn:Er; cbn [bind] in H; try discriminate H.
  destruct (consumed_read_byte _ _ _ _ _ Hok Er) as (Hc0 & Hsel & ->).
  pose proof (consumed_le_scope _ _ _ _ Hok Hc0) as Hle. change (lenN [byte_of_N sel]) with 1 in Hle.
  assert (Hok1 : rd_ok st1 (mkDR (d_i d + 1) (d_max d) (d_chain d))).
  { eapply consumed_rd_ok; try eassumption; cbn [d_chain d_max d_i]; try reflexivity.
    change (lenN [byte_of_N sel]) with 1. lia. }
  pose proof Hok as (Hi & _ & _ & _).
  destruct (none && (sel =? 0)) eqn:Ens.
  - destruct (negb (dr_scope (mkDR (d_i d + 1) (d_max d) (d_chain d)) =? 0)) eqn:Es; [discriminate H|].
    apply negb_false_iff, N.eqb_eq in Es. inversion H; subst. clear H.
    apply andb_true_iff in Ens. destruct Ens as [-> Es0]. apply N.eqb_eq in Es0. subst sel.
    rewrite has_type_union, spec_ser_union. cbn [andb]. rewrite N.eqb_refl.
    change (lenN [byte_of_N 0]) with 1. unfold dr_scope in *. cbn [d_chain d_max d_i] in *.
    split; [reflexivity|]. split; [exact Hc0|]. split; [intros _; lia|]. repeat split; lia.
  - rewrite pick_ty_nth_error in H.
    destruct (nth_error opts (nat_of (if none then sel - 1 else sel))) as [o|] eqn:Hnth; [|discriminate H].
    unfold dec_union_opt in H.
    destruct (negb (flat_fixed_len o =? 0) && negb (flat_fixed_len o =? dr_scope (mkDR (d_i d + 1) (d_max d) (d_chain d))))
      eqn:Eg; [discriminate H|].
    destruct (flat_dec o CFresh st1 (mkDR (d_i d + 1) (d_max d) (d_chain d))) as [[[[v0 c0] st2] d2]| |] eqn:Ed;
      cbn [bind] in H; try discriminate H.
    inversion H; subst. clear H.
    assert (Hin : In o opts) by (eapply nth_error_In; eassumption).
    rewrite Forall_forall in IHopts. rewrite forallb_forall in Hwfs.
    destruct (IHopts o Hin _ _ _ _ _ _ _ Hok1 Ed) as (Hty & Hc & Hsc & Ech & Emax & Eidx).
    cbn [d_chain d_max d_i] in *.
    rewrite has_type_union, spec_ser_union, Ens, !pick_ty_nth_error, Hnth.
    assert (El : lenN (spec_ser o v0) = dr_scope (mkDR (d_i d + 1) (d_max d) (d_chain d))).
    { destruct (spec_is_fixed o) eqn:Hfo; [|apply Hsc; reflexivity].
      rewrite nonneg_fsz, Hfo in Eg by auto. cbn [andb] in Eg. apply negb_false_iff, N.eqb_eq in Eg.
      rewrite <- Eg. unfold flat_fixed_len. rewrite Hfo. apply spec_ser_fixed_len; assumption. }
    unfold dr_scope in *. cbn [d_i d_max] in *. rewrite lenN_cons.
    split; [exact Hty|].
    split; [change (byte_of_N sel :: spec_ser o v0) with ([byte_of_N sel] ++ spec_ser o v0);
            eapply consumed_app; eassumption|].
    split; [intros _; lia|]. repeat split; try assumption; lia.
Qed.

Lemma flat_dec_sd : forall t, wf_ty t = true -> small_params t = true -> sd_ok t.
Proof.
  induction t as [w| |n| |n|n|e n IHe|e n IHe|fs IHfs|none opts IHopts] using ty_ind';
    intros Hwf Hsm.
  - (* uint *)
    intros c st d v c' st' d' Hok H. cbn [flat_dec] in H.
    destruct (dr_read st d w) as [[[bs st1] d1]| |] eqn:Er; cbn [bind] in H; try discriminate H.
    inversion H; subst. clear H.
    destruct (consumed_read _ _ _ _ _ _ Hok Er) as (Hc & El & ->).
    assert (Elen : length bs = nat_of w) by (unfold lenN, nat_of in *; lia).
    unfold dec_post. cbn [has_type spec_ser spec_is_fixed d_chain d_max d_i].
    rewrite <- Elen, le_bytes_le_val, El.
    split; [apply N.ltb_lt; rewrite <- pow256, <- Elen; apply le_val_bound|].
    split; [exact Hc|]. split; [discriminate|]. repeat split; lia.
  - (* bool *)
    intros c st d v c' st' d' Hok H. cbn [flat_dec] in H.
    destruct (dr_read_byte st d) as [[[b st1] d1]| |] eqn:Er; cbn [bind] in H; try discriminate H.
    destruct (N.ltb_spec 1 b) as [|Hb]; [discriminate H|]. inversion H; subst. clear H.
    destruct (consumed_read_byte _ _ _ _ _ Hok Er) as (Hc & _ & ->).
    unfold dec_post. cbn [has_type spec_ser spec_is_fixed d_chain d_max d_i].
    assert (Eb : byte_of_N (if b =? 1 then 1 else 0) = byte_of_N b).
    { destruct (N.eqb_spec b 1) as [->|Hn]; [reflexivity|]. replace b with 0 by lia. reflexivity. }
    rewrite Eb. change (lenN [byte_of_N b]) with 1.
    split; [reflexivity|]. split; [exact Hc|]. split; [discriminate|]. repeat split; lia.
  - (* bytesN *)
    intros c st d v c' st' d' Hok H. cbn [flat_dec] in H.
    destruct (d_bytes c n st d) as [[[[bs c0] st1] d1]| |] eqn:Er; cbn [bind] in H; try discriminate H.
    inversion H; subst. clear H.
    destruct (consumed_d_bytes _ _ _ _ _ _ _ _ Hok Er) as (Hc & El & ->).
    unfold dec_post. cbn [has_type spec_ser spec_is_fixed d_chain d_max d_i]. fold (lenN bs). rewrite El.
    split; [apply N.eqb_refl|]. split; [exact Hc|]. split; [discriminate|]. repeat split; lia.
  - (* root *)
    intros c st d v c' st' d' Hok H. cbn [flat_dec] in H.
    destruct (dr_read st d 32) as [[[bs st1] d1]| |] eqn:Er; cbn [bind] in H; try discriminate H.
    inversion H; subst. clear H.
    destruct (consumed_read _ _ _ _ _ _ Hok Er) as (Hc & El & ->).
    unfold dec_post. cbn [has_type spec_ser spec_is_fixed d_chain d_max d_i]. fold (lenN bs). rewrite El.
    split; [reflexivity|]. split; [exact Hc|]. split; [discriminate|]. repeat split; lia.
  - (* bitvector *)
    intros c st d v c' st' d' Hok H. cbn [flat_dec small_params] in *.
    apply N.leb_le in Hsm. change (2 ^ 56) with 72057594037927936 in Hsm.
    destruct (d_bytes c (N.shiftr (wrap64 (n + 7)) 3) st d) as [[[[bs c0] st1] d1]| |] eqn:Er;
      cbn [bind] in H; try discriminate H.
    destruct (bitvector_check bs n) as [[]| |] eqn:Ec; cbn [bind] in H; try discriminate H.
    inversion H; subst. clear H.
    destruct (consumed_d_bytes _ _ _ _ _ _ _ _ Hok Er) as (Hc & El & ->).
    assert (Hn : n < 2 ^ 64 - 7) by (change (2 ^ 64 - 7) with 18446744073709551609; lia).
    destruct (BitfieldsProofs.bitvector_check_sound bs n Hn Ec) as (bits & Ebits & ->).
    change (lenN bits = n) in Ebits. subst n.
    unfold dec_post. cbn [has_type spec_ser spec_is_fixed d_chain d_max d_i].
    rewrite bytes_to_bits_exact. fold (lenN bits). rewrite N.eqb_refl.
    split; [reflexivity|]. split; [exact Hc|]. split; [discriminate|]. repeat split; lia.
  - (* bitlist *)
    intros c st d v c' st' d' Hok H. cbn [flat_dec small_params] in *.
    apply N.leb_le in Hsm. change (2 ^ 56) with 72057594037927936 in Hsm.
    destruct (N.ltb_spec (N.shiftr n 3 + 1) (dr_scope d)) as [|Hle]; [discriminate H|].
    destruct (d_bytes c (dr_scope d) st d) as [[[[bs c0] st1] d1]| |] eqn:Er;
      cbn [bind] in H; try discriminate H.
    destruct (bitlist_check bs n) as [[]| |] eqn:Ec; cbn [bind] in H; try discriminate H.
    inversion H; subst. clear H.
    destruct (consumed_d_bytes _ _ _ _ _ _ _ _ Hok Er) as (Hc & El & ->).
    assert (Hn : n < 2 ^ 64) by (change (2 ^ 64) with 18446744073709551616; lia).
    destruct (BitfieldsProofs.bitlist_check_sound bs n Hn Ec) as (bits & Hbits & ->).
    change (lenN bits <= n) in Hbits.
    assert (Hb : lenN bits < 2 ^ 64) by lia.
    pose proof (BitfieldsProofs.bitlist_len_pack bits Hb) as Elen.
    change (bitlist_len (bits_to_bytes (bits ++ [true])) = lenN bits) in Elen.
    unfold BitfieldsProofs.pack_bitlist in *.
    unfold dec_post. cbn [has_type spec_ser spec_is_fixed d_chain d_max d_i]. unfold ser_bitlist.
    rewrite Elen, bytes_to_bits_bitlist. fold (lenN bits).
    split; [apply N.leb_le; exact Hbits|]. split; [exact Hc|]. split; [intros _; exact El|].
    repeat split; lia.
  - cbn [wf_ty small_params] in *. pose proof Hwf as Hwf'. pose proof Hsm as Hsm'.
    apply andb_true_iff in Hwf'. destruct Hwf' as [_ Hwe].
    apply andb_true_iff in Hsm'. destruct Hsm' as [_ Hse].
    apply sd_vector; auto.
  - cbn [wf_ty small_params] in *. apply andb_true_iff in Hsm. destruct Hsm as [_ Hse].
    apply sd_list; auto.
  - apply sd_cont; [exact Hwf|]. cbn [wf_ty small_params] in *.
    apply andb_true_iff in Hwf. destruct Hwf as [_ Hwfs].
    rewrite Forall_forall in *. rewrite forallb_forall in Hwfs, Hsm. auto.
  - apply sd_union; [exact Hwf|]. cbn [wf_ty small_params] in *.
    apply andb_true_iff in Hwf. destruct Hwf as [_ Hwfs].
    rewrite Forall_forall in *. rewrite forallb_forall in Hwfs, Hsm. auto.
Qed.

Lemma flat_decode_sound t c bs v c' :
  wf_ty t = true -> small_params t = true -> lenN bs < 2 ^ 63 ->
  flat_decode t c bs = OK (v, c') ->
  has_type v t = true /\
  exists rest, bs = spec_ser t v ++ rest /\ (spec_is_fixed t = false -> rest = []).
Proof.
  intros Hwf Hsm Hlen H. change (2 ^ 63) with two63 in Hlen.
  unfold flat_decode, new_reader in H.
  destruct (flat_dec t c (mkRS bs [lenN bs]) (mkDR 0 (lenN bs) [O])) as [[[[v0 c0] st'] d']| |] eqn:Ed;
    cbn [bind] in H; try discriminate H.
  inversion H; subst. clear H.
  destruct (new_reader_ok bs Hlen) as [Hok _].
  destruct (flat_dec_sd t Hwf Hsm _ _ _ _ _ _ _ Hok Ed) as (Hty & ((rest & Er) & _ & _) & Hsc & _).
  cbn [r_stream] in Er. split; [exact Hty|]. exists rest. split; [exact Er|].
  intros Hv. specialize (Hsc Hv). unfold dr_scope in Hsc. cbn [d_i d_max] in Hsc.
  apply (f_equal (@lenN byte)) in Er. rewrite lenN_app in Er. apply lenN_nil_iff. lia.
Qed.

Lemma C10_canonical_lemma t c bs v c' :
  wf_ty t = true -> small_params t = true -> lenN bs < 2 ^ 63 ->
  spec_is_fixed t = false ->
  flat_decode t c bs = OK (v, c') -> has_type v t = true /\ bs = spec_ser t v.
Proof.
  intros Hwf Hsm Hlen Hv H.
  destruct (flat_decode_sound t c bs v c' Hwf Hsm Hlen H) as (Hty & rest & E & Hr).
  rewrite (Hr Hv), app_nil_r in E. auto.
Qed.

Lemma C10_canonical_fixed_lemma t c bs v c' :
  wf_ty t = true -> small_params t = true -> lenN bs < 2 ^ 63 ->
  spec_is_fixed t = true -> lenN bs = spec_fixed_len t ->
  flat_decode t c bs = OK (v, c') -> has_type v t = true /\ bs = spec_ser t v.
Proof.
  intros Hwf Hsm Hlen Hfx Hl H.
  destruct (flat_decode_sound t c bs v c' Hwf Hsm Hlen H) as (Hty & rest & E & _).
  split; [exact Hty|]. pose proof (spec_ser_fixed_len t v Hfx Hty) as El.
  assert (rest = []) as ->.
  { apply (f_equal (@lenN byte)) in E. rewrite lenN_app in E. apply lenN_nil_iff. lia. }
  rewrite app_nil_r in E. exact E.
Qed.

(* a fixed-size value at the top level reads its size and ignores what follows *)
Lemma C10_fixed_prefix_lemma t c bs v c' :
  wf_ty t = true -> small_params t = true -> lenN bs < 2 ^ 63 ->
  flat_decode t c bs = OK (v, c') ->
  has_type v t = true /\ exists rest, bs = spec_ser t v ++ rest.
Proof.
  intros Hwf Hsm Hlen H.
  destruct (flat_decode_sound t c bs v c' Hwf Hsm Hlen H) as (Hty & rest & E & _). eauto.
Qed.

Lemma C10_reencode_lemma t c bs v c' :
  wf_ty t = true -> small_params t = true -> lenN bs < 2 ^ 32 ->
  spec_is_fixed t = false ->
  flat_decode t c bs = OK (v, c') -> flat_enc t v = OK bs.
Proof.
  intros Hwf Hsm Hlen Hv H.
  assert (Hlen' : lenN bs < 2 ^ 63).
  { change (2 ^ 32) with 4294967296 in Hlen. change (2 ^ 63) with 9223372036854775808. lia. }
  destruct (C10_canonical_lemma t c bs v c' Hwf Hsm Hlen' Hv H) as [Hty ->].
  apply C09_encode_spec_lemma; assumption.
Qed.

Lemma C10_reencode_total_lemma t c bs v c' :
  wf_ty t = true -> small_params t = true -> lenN bs < 2 ^ 63 ->
  spec_is_fixed t = false ->
  flat_decode t c bs = OK (v, c') ->
  flat_enc t v = OK bs \/ (flat_enc t v = Panic /\ 2 ^ 32 <= lenN bs).
Proof.
  intros Hwf Hsm Hlen Hv H.
  destruct (C10_canonical_lemma t c bs v c' Hwf Hsm Hlen Hv H) as [Hty ->].
  apply C09_encode_total_lemma; try assumption.
  change (2 ^ 63) with 9223372036854775808 in Hlen. change (2 ^ 64) with 18446744073709551616. lia.
Qed.

Lemma C10_reencode_fixed_lemma t c bs v c' :
  wf_ty t = true -> small_params t = true -> lenN bs < 2 ^ 32 ->
  spec_is_fixed t = true -> lenN bs = spec_fixed_len t ->
  flat_decode t c bs = OK (v, c') -> flat_enc t v = OK bs.
Proof.
  intros Hwf Hsm Hlen Hfx Hl H.
  assert (Hlen' : lenN bs < 2 ^ 63).
  { change (2 ^ 32) with 4294967296 in Hlen. change (2 ^ 63) with 9223372036854775808. lia. }
  destruct (C10_canonical_fixed_lemma t c bs v c' Hwf Hsm Hlen' Hfx Hl H) as [Hty ->].
  apply C09_encode_spec_lemma; assumption.
Qed.

(* ------------------------------------------------------------------------------------ *)
(** * 9. Examples: the hypotheses are satisfiable by a non-trivial input *)

(* fixed and variable fields, a list of variable-size items, a bitlist, a union with a None option,
   a vector of bitvectors, a byte list *)
Definition ex_codec_ty : ty :=
  TContainer [TUint 8; TList (TList (TUint 2) 4) 3; TBitlist 10;
              TUnion true [TUint 4; TBytes 3]; TVector (TBitvector 9) 2; TList (TUint 1) 5;
              TVector (TList (TUint 1) 3) 2].
Definition ex_codec_val : val :=
  VCont [VUint 7; VSeq [VSeq [VUint 1; VUint 2]; VSeq []; VSeq [VUint 515]];
         VBits [true; false; true];
         VUnion 2 (Some (VBytes [Byte.x01; Byte.x02; Byte.x03]));
         VSeq [VBits [true;false;false;false;false;false;false;false;true];
               VBits [false;true;false;false;false;false;false;false;false]];
         VSeq [VUint 9; VUint 8];
         VSeq [VSeq [VUint 1]; VSeq []]].
(* a destination that was used before: longer / shorter / larger-capacity byte slices *)
Definition ex_codec_dst : ctree :=
  CNodes [CFresh; CFresh; CBytes 7 16; CFresh; CNodes [CBytes 1 1; CBytes 5 8]; CBytes 0 1; CFresh].

Example ex_codec_hyps :
  wf_ty ex_codec_ty = true /\ small_params ex_codec_ty = true /\
  has_type ex_codec_val ex_codec_ty = true /\
  lenN (spec_ser ex_codec_ty ex_codec_val) < 2 ^ 32 /\
  lenN (spec_ser ex_codec_ty ex_codec_val) < 2 ^ 63 /\
  spec_is_fixed ex_codec_ty = false.
Proof. vm_compute. repeat split. Qed.

Example ex_codec_values :
  flat_enc ex_codec_ty ex_codec_val = OK (spec_ser ex_codec_ty ex_codec_val) /\
  flat_len ex_codec_ty ex_codec_val = lenN (spec_ser ex_codec_ty ex_codec_val) /\
  (exists c', flat_decode ex_codec_ty CFresh (spec_ser ex_codec_ty ex_codec_val) = OK (ex_codec_val, c')) /\
  (exists c', flat_decode ex_codec_ty ex_codec_dst (spec_ser ex_codec_ty ex_codec_val) = OK (ex_codec_val, c')).
Proof.
  split; [vm_compute; reflexivity|]. split; [vm_compute; reflexivity|].
  split; eexists; vm_compute; reflexivity.
Qed.

(* C10: an accepted input (hypotheses of C10_canonical), and rejected non-canonical inputs:
   a trailing byte, a first offset that does not match the offset table, bytes after a None *)
Example ex_codec_accept :
  exists c', flat_decode ex_codec_ty CFresh (spec_ser ex_codec_ty ex_codec_val) = OK (ex_codec_val, c').
Proof. eexists. vm_compute. reflexivity. Qed.

Example ex_codec_reject :
  flat_decode (TList (TUint 2) 4) CFresh [Byte.x01; b0; Byte.x02] = Err /\
  flat_decode (TList (TList (TUint 1) 4) 4) CFresh
     (le_bytes 4 8 ++ le_bytes 4 7 ++ [b0]) = Err /\
  flat_decode (TUnion true [TUint 1]) CFresh [b0; b0] = Err.
Proof. vm_compute. repeat split. Qed.

(* a fixed-size type: the hypotheses of C10_canonical_fixed *)
Definition ex_codec_fixed_ty : ty := TContainer [TUint 2; TVector (TBytes 3) 2; TBitvector 9; TBool].
Definition ex_codec_fixed_bs : list byte :=
  [Byte.x01; Byte.x02; Byte.x0a; Byte.x0b; Byte.x0c; Byte.x0d; Byte.x0e; Byte.x0f; Byte.xff; Byte.x01;
   Byte.x01].
Example ex_codec_fixed_hyps :
  wf_ty ex_codec_fixed_ty = true /\ small_params ex_codec_fixed_ty = true /\
  spec_is_fixed ex_codec_fixed_ty = true /\
  lenN ex_codec_fixed_bs = spec_fixed_len ex_codec_fixed_ty /\
  exists v c', flat_decode ex_codec_fixed_ty CFresh ex_codec_fixed_bs = OK (v, c').
Proof.
  split; [reflexivity|]. split; [reflexivity|]. split; [reflexivity|]. split; [reflexivity|].
  eexists _, _. vm_compute. reflexivity.
Qed.

(* the top level of a fixed-size value does not look at trailing bytes (hence the length premise of
   C10_canonical_fixed) *)
Example ex_codec_fixed_trailing :
  exists c', flat_decode (TUint 2) CFresh [Byte.x01; Byte.x02; Byte.x03] = OK (VUint 513, c').
Proof. eexists. vm_compute. reflexivity. Qed.
