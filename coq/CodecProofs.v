(* CodecProofs.v — properties C09 and C10 about the flat codec model Codec.v
   (codec/encoder.go, codec/decoder.go and a generic flat value composed from the helpers).

   Contents
     1. readable views of the nested fixpoints of [flat_enc] / [flat_len] / [flat_dec]
     2. arithmetic and list helpers
     3. the encoder: [flat_enc] = [spec_ser] (or Panic beyond 2^32)          (C09 a)
     4. the reported lengths: [flat_len] = length of [spec_ser]              (C09 b)
     5. the reader: reads, sub scopes, [stepped]
     6. round trip through the decoder, any prior destination state          (C09 c)
     7. the decoder never panics                                             (C10 d)
     8. an accepting decoder consumes exactly its scope; canonicity          (C10 e)
     9. Examples

   Spec vocabulary used in Props/C09.v and Props/C10.v: only definitions of the model files
   ([flat_enc], [flat_len], [flat_decode], [spec_ser], [has_type], [wf_ty], [small_params],
   [spec_is_fixed], [spec_fixed_len], [lenN], [ctree]). *)
From Coq Require Import PeanoNat ZArith ZifyN ZifyNat ZifyBool.
From Ztyp Require Import Base Bitlen Bitfields Merkleize Types Spec Reader Codec Repr SizeProofs.
From Ztyp Require BitfieldsProofs BitlenProofs.
Open Scope N_scope.

#[local] Ltac Zify.zify_post_hook ::= Z.div_mod_to_equations.

Local Arguments N.pow : simpl never.
Local Arguments N.shiftl : simpl never.
Local Arguments N.shiftr : simpl never.
Local Arguments N.land : simpl never.
Local Arguments N.lor : simpl never.
Local Arguments N.mul : simpl never.
Local Arguments N.add : simpl never.
Local Arguments N.sub : simpl never.
Local Arguments N.div : simpl never.
Local Arguments N.modulo : simpl never.
Local Arguments N.of_nat : simpl never.
Local Arguments N.to_nat : simpl never.
Local Arguments N.testbit : simpl never.

(* ------------------------------------------------------------------------------------ *)
(** * 1. Views of the nested fixpoints *)

Section EncViews.
  Variable enc : val -> res (list byte).
  Fixpoint enc_items (vs : list val) : res (list (list byte)) :=
    match vs with
    | [] => OK []
    | x :: r => do b <- enc x; do bs <- enc_items r; OK (b :: bs)
    end.
End EncViews.

Section EncFields.
  Variable enc : ty -> val -> res (list byte).
  Fixpoint enc_fields (fs : list ty) (vs : list val) : res (list (N * list byte)) :=
    match fs, vs with
    | f :: fs', x :: vs' =>
      do b <- enc f x; do r <- enc_fields fs' vs'; OK ((flat_fixed_len f, b) :: r)
    | _, _ => OK []
    end.
End EncFields.

Lemma flat_enc_vector e n vs :
  flat_enc (TVector e n) (VSeq vs) =
  do items <- enc_items (flat_enc e) vs;
  if is_byte_elem e || is_root_elem e then OK (concat items) else w_list (flat_fixed_len e) items.
Proof. reflexivity. Qed.

Lemma flat_enc_list e n vs :
  flat_enc (TList e n) (VSeq vs) =
  do items <- enc_items (flat_enc e) vs;
  if is_byte_elem e || is_root_elem e then OK (concat items) else w_list (flat_fixed_len e) items.
Proof. reflexivity. Qed.

Lemma flat_enc_cont fs vs :
  flat_enc (TContainer fs) (VCont vs) =
  do parts <- enc_fields flat_enc fs vs;
  if forallb spec_is_fixed fs then OK (concat (map snd parts)) else w_container parts.
Proof. reflexivity. Qed.

Lemma flat_enc_union none opts sel ov :
  flat_enc (TUnion none opts) (VUnion sel ov) =
  match ov with
  | None => if negb (sel =? 0) then Err else OK [byte_of_N sel]
  | Some x =>
    pick_ty Err (fun o => do b <- flat_enc o x; OK (byte_of_N sel :: b))
            opts (nat_of (if none then sel - 1 else sel))
  end.
Proof. destruct ov; reflexivity. Qed.

Section LenFields.
  Variable len : ty -> val -> N.
  Fixpoint len_fields (fs : list ty) (vs : list val) (acc : N) : N :=
    match fs, vs with
    | f :: fs', x :: vs' =>
      len_fields fs' vs' (add64 acc (if flat_fixed_len f =? 0 then add64 (len f x) 4
                                     else flat_fixed_len f))
    | _, _ => acc
    end.
End LenFields.

Lemma flat_len_cont fs vs :
  flat_len (TContainer fs) (VCont vs) = len_fields flat_len fs vs 0.
Proof. reflexivity. Qed.

Lemma flat_len_union none opts sel ov :
  flat_len (TUnion none opts) (VUnion sel ov) =
  match ov with
  | None => 1
  | Some x => pick_ty 1 (fun o => 1 + flat_len o x) opts (nat_of (if none then sel - 1 else sel))
  end.
Proof. destruct ov; reflexivity. Qed.

(* ------------------------------------------------------------------------------------ *)
(** * 2. Helpers *)

Lemma two32_lt_two64 : two32 < two64.
Proof. reflexivity. Qed.

Lemma wrap64_0 : wrap64 0 = 0.
Proof. reflexivity. Qed.

Lemma add64_small a b : a + b < two64 -> add64 a b = a + b.
Proof. intros H. unfold add64. apply wrap64_small, H. Qed.

Lemma mul64_small a b : a * b < two64 -> mul64 a b = a * b.
Proof. intros H. unfold mul64. apply wrap64_small, H. Qed.

Lemma fold_add64 {A} (g : A -> N) : forall l a,
  fold_left (fun acc x => add64 acc (g x)) l (wrap64 a) = wrap64 (a + sumN (map g l)).
Proof.
  induction l as [|x l IH]; intros a; cbn [fold_left map].
  - change (sumN []) with 0. rewrite N.add_0_r. reflexivity.
  - rewrite sumN_cons. unfold add64 at 2. rewrite wrap64_add_l, IH. f_equal. lia.
Qed.

Lemma fold_add64_0 {A} (g : A -> N) l : sumN (map g l) < two64 ->
  fold_left (fun acc x => add64 acc (g x)) l 0 = sumN (map g l).
Proof.
  intros H. rewrite <- wrap64_0 at 1. rewrite fold_add64, N.add_0_l. apply wrap64_small, H.
Qed.

(* a fixed-size well-formed type has a non-zero size: FixedLength() = 0 means variable-size *)
Lemma sumN_pos_of_Forall {A} (g : A -> N) : forall l, l <> [] ->
  Forall (fun x => 1 <= g x) l -> 1 <= sumN (map g l).
Proof.
  intros [|x l] Hne HF; [contradiction|]. cbn [map]. rewrite sumN_cons.
  pose proof (Forall_inv HF) as Hx. cbv beta in Hx. lia.
Qed.

Lemma wf_fixed_len_pos : forall t, wf_ty t = true -> spec_is_fixed t = true -> 1 <= spec_fixed_len t.
Proof.
  induction t as [w| |n| |n|n|e n IHe|e n IHe|fs IHfs|none opts IHopts] using ty_ind';
    intros Hwf Hfx; cbn [wf_ty spec_is_fixed spec_fixed_len] in *; try discriminate Hfx; try lia.
  - unfold uint_width_ok in Hwf. lia.
  - apply andb_true_iff in Hwf. destruct Hwf as [Hn Hwe]. apply N.leb_le in Hn.
    rewrite Hfx. specialize (IHe Hwe Hfx). nia.
  - apply andb_true_iff in Hwf. destruct Hwf as [Hne Hall]. rewrite Hfx.
    apply sumN_pos_of_Forall.
    + intros ->. discriminate Hne.
    + rewrite Forall_forall in *. rewrite forallb_forall in Hall, Hfx.
      intros f Hin. apply IHfs; auto.
Qed.

Lemma flat_fixed_len_zero t : wf_ty t = true ->
  (flat_fixed_len t =? 0) = negb (spec_is_fixed t).
Proof.
  intros Hwf. unfold flat_fixed_len. destruct (spec_is_fixed t) eqn:Hfx; [|reflexivity].
  pose proof (wf_fixed_len_pos t Hwf Hfx). apply N.eqb_neq. lia.
Qed.

Lemma is_byte_elem_eq e : is_byte_elem e = true -> e = TUint 1.
Proof. destruct e; cbn; try discriminate. intros H. apply N.eqb_eq in H. subst. reflexivity. Qed.

Lemma is_root_elem_eq e : is_root_elem e = true -> e = TRoot.
Proof. destruct e; cbn; try discriminate. reflexivity. Qed.

(* ------------------------------------------------------------------------------------ *)
(** * 3. The encoder *)

(* the parts of a series as the encoder sees them: (FixedLength(), bytes) *)
Definition to_part (p : N * list byte) : part := (negb (fst p =? 0), snd p).
Definition var_sum (ps : list (N * list byte)) : N :=
  sumN (map (fun p => if fst p =? 0 then lenN (snd p) else 0) ps).

Lemma w_offset_ok po psz : po + psz < two32 ->
  w_offset po psz = OK (po + psz, le_bytes 4 (po + psz)).
Proof.
  intros H. unfold w_offset.
  destruct (N.leb_spec two32 po); [lia|]. destruct (N.leb_spec two32 psz); [lia|].
  destruct (N.leb_spec two32 (po + psz)); [lia|]. reflexivity.
Qed.

Lemma w_offset_panic po psz : two32 <= po + psz -> w_offset po psz = Panic.
Proof.
  intros H. unfold w_offset.
  destruct (N.leb_spec two32 po); [reflexivity|]. destruct (N.leb_spec two32 psz); [reflexivity|].
  destruct (N.leb_spec two32 (po + psz)); [reflexivity|lia].
Qed.

Lemma w_cont_fixed_spec : forall ps po psz,
  w_cont_fixed ps po psz = OK (fst (ser_parts_go (map to_part ps) (po + psz))) \/
  (w_cont_fixed ps po psz = Panic /\ two32 <= po + psz + var_sum ps).
Proof.
  induction ps as [|[fl bs] ps IH]; intros po psz; [left; reflexivity|].
  cbn [w_cont_fixed map]. unfold to_part at 1. cbn [fst snd]. unfold var_sum. cbn [map fst snd].
  rewrite sumN_cons. fold (var_sum ps).
  destruct (fl =? 0) eqn:Efl; cbn [negb ser_parts_go].
  - destruct (N.lt_ge_cases (po + psz) two32) as [Hlt|Hge].
    + rewrite w_offset_ok by assumption. cbn [bind].
      destruct (IH (po + psz) (lenN bs)) as [E|[E Hp]].
      * left. rewrite E. cbn [bind].
        destruct (ser_parts_go (map to_part ps) (po + psz + lenN bs)) as [f v]. reflexivity.
      * right. rewrite E. split; [reflexivity|lia].
    + right. rewrite w_offset_panic by assumption. split; [reflexivity|lia].
  - destruct (IH po psz) as [E|[E Hp]].
    + left. rewrite E. cbn [bind].
      destruct (ser_parts_go (map to_part ps) (po + psz)) as [f v]. reflexivity.
    + right. rewrite E. split; [reflexivity|lia].
Qed.

Lemma ser_parts_go_var : forall ps off,
  snd (ser_parts_go (map to_part ps) off) = concat (map snd (filter (fun f => fst f =? 0) ps)).
Proof.
  induction ps as [|[fl bs] ps IH]; intros off; [reflexivity|].
  cbn [map filter fst]. unfold to_part at 1. cbn [fst snd].
  destruct (fl =? 0) eqn:Efl; cbn [negb ser_parts_go map concat snd].
  - specialize (IH (off + lenN bs)).
    destruct (ser_parts_go (map to_part ps) (off + lenN bs)) as [f v]. cbn [snd] in *.
    rewrite IH. reflexivity.
  - specialize (IH off). destruct (ser_parts_go (map to_part ps) off) as [f v]. exact IH.
Qed.

Lemma ser_parts_go_all_fixed : forall (items : list (list byte)) off,
  ser_parts_go (map (fun b => (true, b)) items) off = (concat items, []).
Proof.
  induction items as [|b items IH]; intros off; [reflexivity|].
  cbn [map ser_parts_go]. rewrite IH. reflexivity.
Qed.

Lemma ser_parts_all_fixed items : ser_parts (map (fun b => (true, b)) items) = concat items.
Proof. unfold ser_parts. rewrite ser_parts_go_all_fixed. apply app_nil_r. Qed.

Lemma w_offsets_as_cont : forall items po psz,
  w_offsets (map lenN items) po psz = w_cont_fixed (map (fun b : list byte => (0, b)) items) po psz.
Proof.
  induction items as [|b items IH]; intros po psz; [reflexivity|].
  cbn [map w_offsets w_cont_fixed]. change (negb (0 =? 0)) with false. cbv iota.
  destruct (w_offset po psz) as [[off obs]| |]; cbn [bind]; try reflexivity.
  rewrite IH. reflexivity.
Qed.

Lemma part_len_le_total (ps : list part) : sumN (map part_fixed_size ps) <= sumN (map part_len ps).
Proof.
  apply sumN_map_le. apply Forall_forall. intros [fx bs] _.
  unfold part_fixed_size, part_len. cbn [fst snd]. destruct fx; lia.
Qed.

Lemma var_sum_total ps :
  sumN (map part_fixed_size (map to_part ps)) + var_sum ps = sumN (map part_len (map to_part ps)).
Proof.
  induction ps as [|[fl bs] ps IH]; [reflexivity|].
  unfold var_sum in *. cbn [map]. rewrite !sumN_cons.
  unfold to_part at 1 3, part_fixed_size at 1, part_len at 1. cbn [fst snd].
  destruct (fl =? 0); cbn [negb]; lia.
Qed.

(* the (FixedLength, encoding) pairs of a series of items / of the fields of a container *)
Fixpoint enc_parts (fs : list ty) (vs : list val) : list (N * list byte) :=
  match fs, vs with
  | f :: fs', x :: vs' => (flat_fixed_len f, spec_ser f x) :: enc_parts fs' vs'
  | _, _ => []
  end.

Lemma enc_parts_spec : forall fs vs,
  forallb wf_ty fs = true -> has_type_fields fs vs = true ->
  map to_part (enc_parts fs vs) = ser_fields fs vs /\
  Forall (fun p => fst p = 0 \/ fst p = lenN (snd p)) (enc_parts fs vs).
Proof.
  induction fs as [|f fs IH]; intros [|x vs] Hwf Hty; cbn [has_type_fields] in Hty;
    try discriminate Hty; [split; [reflexivity|constructor]|].
  cbn [forallb] in Hwf. apply andb_true_iff in Hwf. destruct Hwf as [Hwf1 Hwf2].
  apply andb_true_iff in Hty. destruct Hty as [Hty1 Hty2].
  destruct (IH vs Hwf2 Hty2) as [E HF]. cbn [enc_parts map ser_fields]. split.
  - rewrite E. unfold to_part. cbn [fst snd]. rewrite flat_fixed_len_zero, negb_involutive by assumption.
    reflexivity.
  - constructor; [|exact HF]. cbn [fst snd]. unfold flat_fixed_len.
    destruct (spec_is_fixed f) eqn:Hfx; [right|left; reflexivity].
    symmetry. apply spec_ser_fixed_len; assumption.
Qed.

Lemma fixed_len_fold ps :
  Forall (fun p => fst p = 0 \/ fst p = lenN (snd p)) ps ->
  sumN (map (fun f : N * list byte => if fst f =? 0 then 4 else fst f) ps) =
  sumN (map part_fixed_size (map to_part ps)).
Proof.
  intros HF. rewrite map_map. apply sumN_map_ext. revert HF. apply Forall_impl.
  intros [fl bs] H. unfold to_part, part_fixed_size. cbn [fst snd] in *.
  destruct (N.eqb_spec fl 0) as [E|E]; cbn [negb]; [reflexivity|]. destruct H; [contradiction|assumption].
Qed.

Lemma w_container_spec ps :
  Forall (fun p => fst p = 0 \/ fst p = lenN (snd p)) ps ->
  lenN (ser_parts (map to_part ps)) < two64 ->
  w_container ps = OK (ser_parts (map to_part ps)) \/
  (w_container ps = Panic /\ two32 <= lenN (ser_parts (map to_part ps))).
Proof.
  intros HF HL. rewrite ser_parts_lenN in *. unfold w_container, ser_parts.
  pose proof (part_len_le_total (map to_part ps)) as Hle.
  rewrite fold_add64_0 by (rewrite fixed_len_fold by assumption; lia).
  rewrite fixed_len_fold by assumption.
  set (FL := sumN (map part_fixed_size (map to_part ps))) in *.
  pose proof (w_cont_fixed_spec ps FL 0) as Hw. rewrite N.add_0_r in Hw.
  pose proof (ser_parts_go_var ps FL) as Hv.
  destruct Hw as [E|[E Hp]].
  - left. rewrite E. cbn [bind]. destruct (ser_parts_go (map to_part ps) FL) as [f v].
    cbn [fst snd] in *. rewrite Hv. reflexivity.
  - right. rewrite E. split; [reflexivity|]. pose proof (var_sum_total ps). fold FL in H. lia.
Qed.

Lemma w_list_var_spec (items : list (list byte)) :
  lenN (ser_parts (map (fun b => (false, b)) items)) < two64 ->
  w_list 0 items = OK (ser_parts (map (fun b => (false, b)) items)) \/
  (w_list 0 items = Panic /\ two32 <= lenN (ser_parts (map (fun b => (false, b)) items))).
Proof.
  intros HL.
  assert (Emap : map (fun b : list byte => (false, b)) items =
                 map to_part (map (fun b : list byte => (0, b)) items)).
  { rewrite map_map. reflexivity. }
  rewrite Emap in *. set (ps := map (fun b : list byte => (0, b)) items) in *.
  rewrite ser_parts_lenN in *. unfold w_list. change (0 =? 0) with true. cbv iota.
  rewrite w_offsets_as_cont. fold ps.
  assert (EFL : sumN (map part_fixed_size (map to_part ps)) = 4 * lenN items).
  { unfold ps. rewrite !map_map. cbn [to_part fst snd]. unfold part_fixed_size. cbn [fst].
    rewrite (sumN_map_const _ 4); [lia|]. apply Forall_forall. intros; reflexivity. }
  pose proof (part_len_le_total (map to_part ps)) as Hle.
  rewrite mul64_small by lia. unfold ser_parts. rewrite EFL.
  pose proof (w_cont_fixed_spec ps (4 * lenN items) 0) as Hw. rewrite N.add_0_r in Hw.
  pose proof (ser_parts_go_var ps (4 * lenN items)) as Hv.
  assert (Ecat : concat (map snd (filter (fun f : N * list byte => fst f =? 0) ps)) = concat items).
  { unfold ps. clear. induction items as [|b items IH]; [reflexivity|].
    cbn [map filter fst]. change (0 =? 0) with true. cbv iota. cbn [map snd concat]. rewrite IH.
    reflexivity. }
  destruct Hw as [E|[E Hp]].
  - left. rewrite E. cbn [bind]. destruct (ser_parts_go (map to_part ps) (4 * lenN items)) as [f v].
    cbn [fst snd] in *. rewrite Hv, Ecat. reflexivity.
  - right. rewrite E. split; [reflexivity|]. pose proof (var_sum_total ps). lia.
Qed.

(* the statement proved by induction on the type *)
Definition enc_res_ok (r : res (list byte)) (bs : list byte) : Prop :=
  r = OK bs \/ (r = Panic /\ two32 <= lenN bs).

Definition enc_ok (t : ty) : Prop :=
  forall v, has_type v t = true -> lenN (spec_ser t v) < two64 ->
  enc_res_ok (flat_enc t v) (spec_ser t v).

Lemma enc_items_spec (enc : val -> res (list byte)) (g : val -> list byte) : forall vs,
  (forall x, In x vs -> enc_res_ok (enc x) (g x)) ->
  enc_items enc vs = OK (map g vs) \/
  (enc_items enc vs = Panic /\ exists x, In x vs /\ two32 <= lenN (g x)).
Proof.
  induction vs as [|x vs IH]; intros H; [left; reflexivity|].
  cbn [enc_items map].
  destruct (H x (or_introl eq_refl)) as [E|[E Hp]].
  - rewrite E. cbn [bind].
    destruct IH as [E2|[E2 (y & Hin & Hy)]]; [intros y Hy; apply H; right; exact Hy| |].
    + left. rewrite E2. reflexivity.
    + right. rewrite E2. split; [reflexivity|]. exists y. split; [right; exact Hin|exact Hy].
  - right. rewrite E. split; [reflexivity|]. exists x. split; [left; reflexivity|exact Hp].
Qed.

Lemma enc_fields_spec : forall fs, Forall enc_ok fs -> forall vs,
  has_type_fields fs vs = true ->
  sumN (map part_len (ser_fields fs vs)) < two64 ->
  enc_fields flat_enc fs vs = OK (enc_parts fs vs) \/
  (enc_fields flat_enc fs vs = Panic /\ two32 <= sumN (map part_len (ser_fields fs vs))).
Proof.
  induction fs as [|f fs IH]; intros HF [|x vs] Hty HL; cbn [has_type_fields] in Hty;
    try discriminate Hty; [left; reflexivity|].
  pose proof (Forall_inv HF) as Hf; pose proof (Forall_inv_tail HF) as Hr.
  apply andb_true_iff in Hty. destruct Hty as [Hty1 Hty2].
  cbn [ser_fields map] in *. rewrite sumN_cons in *.
  assert (Hx : lenN (spec_ser f x) <= part_len (spec_is_fixed f, spec_ser f x)).
  { unfold part_len. cbn [fst snd]. destruct (spec_is_fixed f); lia. }
  cbn [enc_fields enc_parts].
  destruct (Hf x Hty1) as [E|[E Hp]]; [lia| |].
  - rewrite E. cbn [bind].
    destruct (IH Hr vs Hty2) as [E2|[E2 Hp2]]; [lia| |].
    + left. rewrite E2. reflexivity.
    + right. rewrite E2. split; [reflexivity|lia].
  - right. rewrite E. split; [reflexivity|lia].
Qed.

Lemma has_type_union_none none opts sel :
  has_type (VUnion sel None) (TUnion none opts) = true -> none = true /\ sel = 0.
Proof.
  rewrite has_type_union. destruct (none && (sel =? 0)) eqn:E.
  - intros _. apply andb_true_iff in E. destruct E as [-> E]. apply N.eqb_eq in E. auto.
  - rewrite pick_ty_nth_error. destruct (nth_error _ _); discriminate.
Qed.

Lemma has_type_union_some none opts sel x :
  has_type (VUnion sel (Some x)) (TUnion none opts) = true ->
  none && (sel =? 0) = false /\
  exists o, nth_error opts (nat_of (if none then sel - 1 else sel)) = Some o /\ has_type x o = true.
Proof.
  rewrite has_type_union. destruct (none && (sel =? 0)) eqn:E; [discriminate|].
  rewrite pick_ty_nth_error. destruct (nth_error _ _) as [o|]; [|discriminate].
  intros H. split; [reflexivity|]. exists o. auto.
Qed.

Lemma seq_has_type_In e vs x :
  forallb (fun x => has_type x e) vs = true -> In x vs -> has_type x e = true.
Proof. intros H Hin. rewrite forallb_forall in H. apply H, Hin. Qed.

Lemma last_pack_bitlist_nonzero bits :
  N_of_byte (last (bits_to_bytes (bits ++ [true])) b0) <> 0 /\ bits_to_bytes (bits ++ [true]) <> [].
Proof.
  destruct (BitfieldsProofs.pack_bitlist_struct bits) as (A & r & q & E & HA & Hr & Hq & Ep).
  unfold BitfieldsProofs.pack_bitlist in Ep. rewrite Ep. split.
  - rewrite last_last, BitfieldsProofs.N_of_byte_of_N by (apply BitfieldsProofs.delim_lt256, Hr).
    apply BitfieldsProofs.delim_nonzero.
  - intros C; symmetry in C; revert C; apply app_cons_not_nil.
Qed.

Lemma enc_series e vs (fx := spec_is_fixed e) :
  wf_ty e = true -> enc_ok e ->
  forallb (fun x => has_type x e) vs = true ->
  lenN (ser_parts (map (fun x => (fx, spec_ser e x)) vs)) < two64 ->
  enc_res_ok
    (do items <- enc_items (flat_enc e) vs;
     if is_byte_elem e || is_root_elem e then OK (concat items) else w_list (flat_fixed_len e) items)
    (ser_parts (map (fun x => (fx, spec_ser e x)) vs)).
Proof.
  intros Hwf IHe Hall HL. unfold enc_res_ok.
  assert (Emap : map (fun x => (fx, spec_ser e x)) vs =
                 map (fun b => (fx, b)) (map (spec_ser e) vs)) by (rewrite map_map; reflexivity).
  assert (Hel : forall x, In x vs -> lenN (spec_ser e x) <=
                lenN (ser_parts (map (fun x => (fx, spec_ser e x)) vs))).
  { intros x Hin. rewrite ser_series_lenN.
    pose proof (sumN_map_In_le (fun x => if fx then lenN (spec_ser e x) else 4 + lenN (spec_ser e x))
                               vs x Hin) as H. cbv beta in H. destruct fx; lia. }
  destruct (enc_items_spec (flat_enc e) (spec_ser e) vs) as [E|[E (x & Hin & Hp)]].
  { intros x Hin. apply IHe; [eapply seq_has_type_In; eassumption|]. specialize (Hel x Hin). lia. }
  2:{ right. rewrite E. split; [reflexivity|]. specialize (Hel x Hin). lia. }
  rewrite E. cbn [bind]. rewrite Emap in *.
  destruct (is_byte_elem e || is_root_elem e) eqn:Ebr.
  - left. assert (fx = true) as ->.
    { apply orb_true_iff in Ebr. destruct Ebr as [H|H];
        [apply is_byte_elem_eq in H|apply is_root_elem_eq in H]; subst e; reflexivity. }
    rewrite ser_parts_all_fixed. reflexivity.
  - pose proof (flat_fixed_len_zero e Hwf) as Hz. fold fx in Hz.
    destruct fx eqn:Efx; cbn [negb] in Hz.
    + left. unfold w_list. rewrite Hz. rewrite ser_parts_all_fixed. reflexivity.
    + apply N.eqb_eq in Hz. rewrite Hz. apply w_list_var_spec. exact HL.
Qed.

Lemma flat_enc_ok : forall t, wf_ty t = true -> enc_ok t.
Proof.
  induction t as [w| |n| |n|n|e n IHe|e n IHe|fs IHfs|none opts IHopts] using ty_ind';
    intros Hwf v Hty HL; destruct v; cbn [has_type] in Hty; try discriminate Hty.
  - left. reflexivity.
  - left. reflexivity.
  - left. reflexivity.
  - left. reflexivity.
  - (* Bitvector *) left. cbn [flat_enc spec_ser]. cbn [wf_ty] in Hwf.
    apply N.eqb_eq in Hty. apply N.leb_le in Hwf.
    rewrite bits_to_bytes_lenN. fold (lenN bs) in Hty.
    destruct (N.eqb_spec ((lenN bs + 7) / 8) 0) as [E|E]; [exfalso; lia|reflexivity].
  - (* Bitlist *) left. cbn [flat_enc spec_ser] in *. unfold ser_bitlist in *.
    rewrite bits_to_bytes_lenN, lenN_app in HL. change (lenN [true]) with 1 in HL.
    destruct (last_pack_bitlist_nonzero bs) as [Hv Hne].
    destruct (N.eqb_spec (lenN (bits_to_bytes (bs ++ [true]))) 0) as [E|E].
    { exfalso. apply Hne. destruct (bits_to_bytes (bs ++ [true])); [reflexivity|discriminate E]. }
    destruct (N.eqb_spec (N_of_byte (last (bits_to_bytes (bs ++ [true])) b0)) 0) as [E2|E2];
      [contradiction|reflexivity].
  - (* Vector *) cbn [wf_ty] in Hwf. apply andb_true_iff in Hwf. destruct Hwf as [_ Hwe].
    apply andb_true_iff in Hty. destruct Hty as [_ Hall].
    rewrite flat_enc_vector. cbn [spec_ser] in *. apply enc_series; auto.
  - (* List *) cbn [wf_ty] in Hwf.
    apply andb_true_iff in Hty. destruct Hty as [_ Hall].
    rewrite flat_enc_list. cbn [spec_ser] in *. apply enc_series; auto.
  - (* Container *) cbn [wf_ty] in Hwf. apply andb_true_iff in Hwf. destruct Hwf as [_ Hwfs].
    change (has_type_fields fs vs = true) in Hty.
    rewrite flat_enc_cont. rewrite spec_ser_cont in *. unfold enc_res_ok.
    assert (IH' : Forall enc_ok fs).
    { rewrite Forall_forall in *. rewrite forallb_forall in Hwfs. intros f Hin. apply IHfs; auto. }
    destruct (enc_parts_spec fs vs Hwfs Hty) as [Eparts HF].
    pose proof HL as HL'. rewrite ser_parts_lenN in HL'.
    destruct (enc_fields_spec fs IH' vs Hty HL') as [E|[E Hp]].
    2:{ right. rewrite E. split; [reflexivity|]. rewrite ser_parts_lenN. exact Hp. }
    rewrite E. cbn [bind]. rewrite <- Eparts in *.
    destruct (forallb spec_is_fixed fs) eqn:Hfx.
    + left. f_equal.
      assert (Eall : map to_part (enc_parts fs vs) = map (fun b => (true, b)) (map snd (enc_parts fs vs))).
      { rewrite Eparts. clear -Hfx Hty. revert vs Hty.
        induction fs as [|f fs IH]; intros [|x vs] Hty; cbn [has_type_fields] in Hty;
          try discriminate Hty; [reflexivity|].
        cbn [forallb] in Hfx. apply andb_true_iff in Hfx. destruct Hfx as [Hf1 Hf2].
        apply andb_true_iff in Hty. destruct Hty as [_ Hty2].
        cbn [ser_fields enc_parts map snd]. rewrite Hf1, (IH Hf2 vs Hty2). reflexivity. }
      rewrite Eall, ser_parts_all_fixed. reflexivity.
    + apply w_container_spec; assumption.
  - (* Union *) cbn [wf_ty] in Hwf. apply andb_true_iff in Hwf. destruct Hwf as [_ Hwfs].
    change (has_type (VUnion sel v) (TUnion none opts) = true) in Hty.
    rewrite flat_enc_union. rewrite spec_ser_union in *. unfold enc_res_ok.
    destruct v as [x|].
    + apply has_type_union_some in Hty. destruct Hty as (_ & o & Hnth & Htyx).
      rewrite !pick_ty_nth_error in *. rewrite Hnth in *.
      assert (Hin : In o opts) by (eapply nth_error_In; eassumption).
      rewrite Forall_forall in IHopts. rewrite forallb_forall in Hwfs.
      rewrite lenN_cons in HL.
      destruct (IHopts o Hin (Hwfs o Hin) x Htyx) as [E|[E Hp]]; [lia| |].
      * left. rewrite E. reflexivity.
      * right. rewrite E. split; [reflexivity|]. rewrite lenN_cons. lia.
    + apply has_type_union_none in Hty. destruct Hty as [-> ->]. left. reflexivity.
Qed.

Lemma C09_encode_spec_lemma t v :
  wf_ty t = true -> has_type v t = true -> lenN (spec_ser t v) < 2 ^ 32 ->
  flat_enc t v = OK (spec_ser t v).
Proof.
  intros Hwf Hty HL. change (2 ^ 32) with two32 in HL.
  destruct (flat_enc_ok t Hwf v Hty) as [E|[_ Hp]]; [pose proof two32_lt_two64; lia|exact E|lia].
Qed.

Lemma C09_encode_total_lemma t v :
  wf_ty t = true -> has_type v t = true -> lenN (spec_ser t v) < 2 ^ 64 ->
  flat_enc t v = OK (spec_ser t v) \/ (flat_enc t v = Panic /\ 2 ^ 32 <= lenN (spec_ser t v)).
Proof.
  intros Hwf Hty HL. change (2 ^ 64) with two64 in HL. exact (flat_enc_ok t Hwf v Hty HL).
Qed.
