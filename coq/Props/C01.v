(* C01 — the hash-tree-root reported by a typed view (root_of H backing) equals the root the SSZ
   specification defines for the value (spec_htr H t v), for an ARBITRARY pair hash H, whatever
   way the view was produced: anything that represents the value ([repr], Repr.v), in particular
   the element / field / bit constructors ([from_val], also with zero elements) and the type's
   default backing ([default_node]).

   Side conditions (all boolean, on the type only):
     wf_ty        the SSZ spec defines the type                                     (Types.v)
     small_params every length / limit is at most 2^56 (no uint64 wrap in the Go code) (Repr.v)
     no_bool_seq  no List/Vector[bool]: the code hashes those unpacked — known finding D3,
                  refuted below by [C01_bool_seq_refuted]                           (Repr.v)
     small_fields every container has at most 2^63 fields; only for the constructors; necessary:
                  [C01_small_fields_needed]                                    (ReprProofs.v) *)
From Ztyp Require Import Base Bitlen Tree Types Spec View Repr ReprProofs.
Open Scope N_scope.

(* 1. any backing tree that represents v has the spec root *)
Theorem C01_repr_root :
  forall (H : chunk -> chunk -> chunk) (zh : nat -> chunk), (forall d, zh d = zero_hash H d) ->
  forall t v n,
    wf_ty t = true -> small_params t = true -> no_bool_seq t = true ->
    has_type v t = true -> repr zh t n v -> root_of H n = spec_htr H t v.
Proof. exact repr_root. Qed.
Print Assumptions C01_repr_root.

(* 2. the constructors are total on typed values and build a representing tree *)
Theorem C01_from_val_repr :
  forall (H : chunk -> chunk -> chunk) (zh : nat -> chunk), (forall d, zh d = zero_hash H d) ->
  forall t v,
    wf_ty t = true -> small_params t = true -> small_fields t = true -> has_type v t = true ->
    exists n, from_val zh t v = OK n /\ repr zh t n v.
Proof. exact from_val_repr. Qed.
Print Assumptions C01_from_val_repr.

(* 3. the default backing represents the default value, which is a value of the type *)
Theorem C01_default_repr :
  forall (H : chunk -> chunk -> chunk) (zh : nat -> chunk), (forall d, zh d = zero_hash H d) ->
  forall t,
    wf_ty t = true -> small_params t = true -> small_fields t = true ->
    exists n, default_node zh t = OK n /\ repr zh t n (default_val t).
Proof. exact default_repr. Qed.
Print Assumptions C01_default_repr.

Theorem C01_has_type_default : forall t, wf_ty t = true -> has_type (default_val t) t = true.
Proof. exact has_type_default. Qed.
Print Assumptions C01_has_type_default.

(* 4. roots of constructed views and of default backings *)
Theorem C01_from_val_total :
  forall (H : chunk -> chunk -> chunk) (zh : nat -> chunk), (forall d, zh d = zero_hash H d) ->
  forall t v,
    wf_ty t = true -> small_params t = true -> small_fields t = true -> no_bool_seq t = true ->
    has_type v t = true ->
    exists n, from_val zh t v = OK n /\ root_of H n = spec_htr H t v.
Proof. exact from_val_root_ex. Qed.
Print Assumptions C01_from_val_total.

Theorem C01_from_val :
  forall (H : chunk -> chunk -> chunk) (zh : nat -> chunk), (forall d, zh d = zero_hash H d) ->
  forall t v n,
    wf_ty t = true -> small_params t = true -> small_fields t = true -> no_bool_seq t = true ->
    has_type v t = true ->
    from_val zh t v = OK n -> root_of H n = spec_htr H t v.
Proof. exact from_val_root. Qed.
Print Assumptions C01_from_val.

Theorem C01_default_total :
  forall (H : chunk -> chunk -> chunk) (zh : nat -> chunk), (forall d, zh d = zero_hash H d) ->
  forall t,
    wf_ty t = true -> small_params t = true -> small_fields t = true -> no_bool_seq t = true ->
    exists n, default_node zh t = OK n /\ root_of H n = spec_htr H t (default_val t).
Proof. exact default_root_ex. Qed.
Print Assumptions C01_default_total.

Theorem C01_default :
  forall (H : chunk -> chunk -> chunk) (zh : nat -> chunk), (forall d, zh d = zero_hash H d) ->
  forall t n,
    wf_ty t = true -> small_params t = true -> small_fields t = true -> no_bool_seq t = true ->
    default_node zh t = OK n -> root_of H n = spec_htr H t (default_val t).
Proof. exact default_root. Qed.
Print Assumptions C01_default.

(* 5. the exclusion of List/Vector[bool] is necessary (D3): List[bool, 2] holding [true; true],
      with the pair hash refute_H a b = pad32 (firstn 16 a ++ firstn 16 b) *)
Theorem C01_bool_seq_refuted :
  exists (H : chunk -> chunk -> chunk) t v n,
    wf_ty t = true /\ has_type v t = true /\
    from_val (zero_hash H) t v = OK n /\ root_of H n <> spec_htr H t v.
Proof. exact bool_seq_refuted. Qed.
Print Assumptions C01_bool_seq_refuted.

Theorem C01_bool_seq_refuted_explicit :
  let t := TList TBool 2 in
  let v := VSeq [VBool true; VBool true] in
  let n := Pair (Pair (Leaf true_chunk) (Leaf true_chunk)) (len_leaf 2) in
  wf_ty t = true /\ small_params t = true /\ small_fields t = true /\ no_bool_seq t = false /\
  has_type v t = true /\ from_val (zero_hash refute_H) t v = OK n /\
  repr (zero_hash refute_H) t n v /\
  root_of refute_H n <> spec_htr refute_H t v.
Proof. exact bool_seq_refuted_explicit. Qed.
Print Assumptions C01_bool_seq_refuted_explicit.

(* 6. the bound on the number of container fields is necessary for the constructors *)
Theorem C01_small_fields_needed :
  exists t v,
    wf_ty t = true /\ small_params t = true /\ no_bool_seq t = true /\ small_fields t = false /\
    has_type v t = true /\ forall zh, from_val zh t v = Err.
Proof. exact small_fields_needed. Qed.
Print Assumptions C01_small_fields_needed.

(* ---- the remaining construction routes (combining C03 and C04 with repr_root) ---- *)
From Ztyp Require Import Tree View Mut VMach SerProofs DecodeProofs MutProofs RouteProofs.

(* route "deserialization": whatever the deserializer accepts is a view with the spec root of
   the value the bytes encode (and it re-serializes to the input) *)
Theorem C01_deserialized :
  forall (H : chunk -> chunk -> chunk) (zh : nat -> chunk), (forall d, zh d = zero_hash H d) ->
  forall t bs n,
    wf_ty t = true -> small_params t = true -> sizes_ok t = true -> small_fields t = true ->
    lenN bs < 2 ^ 32 -> leaf_ok t (lenN bs) ->
    view_deserialize zh t bs = OK n ->
    exists v, has_type v t = true /\ bs = spec_ser t v /\
              ser_node t n = OK bs /\
              (no_bool_seq t = true -> root_of H n = spec_htr H t v).
Proof. exact deser_accept_route. Qed.
Print Assumptions C01_deserialized.

(* route "chain of mutations": after any history of well-typed operations from a representing
   start state (e.g. the default, C01_default_repr), every view - in particular the root view,
   handle 0 - has the spec root of the plain value subjected to the same history *)
Theorem C01_after_history :
  forall (H : chunk -> chunk -> chunk) (zh : nat -> chunk), (forall d, zh d = zero_hash H d) ->
  forall t n v os,
    ty_ok t -> has_type v t = true -> repr zh t n v ->
    srcs_ok (v_init t v) os ->
    forall k x y,
      nth_error (m_handles node unit (tm_run zh (tm_init t n) os)) k = Some x ->
      nth_error (v_run (v_init t v) os) k = Some y ->
      h_ty node x = vh_ty y /\
      (no_bool_seq (vh_ty y) = true ->
       root_of H (h_back node x) = spec_htr H (vh_ty y) (vh_val y)) /\
      (lenN (spec_ser (vh_ty y) (vh_val y)) < 2 ^ 32 ->
       ser_node (vh_ty y) (h_back node x) = OK (spec_ser (vh_ty y) (vh_val y))) /\
      (forall fuel, (ty_depth (vh_ty y) <= fuel)%nat ->
       read_val fuel (vh_ty y) (h_back node x) = OK (vh_val y)).
Proof. exact history_route. Qed.
Print Assumptions C01_after_history.
