(* C18 — the packed-bitfield helpers of bitfields/*.go (model: Bitfields.v) agree with an unpacked
   bit-sequence model.  Spec vocabulary (top of BitfieldsProofs.v):
     [bits_to_bytes bits] (Base.v)  packs a [list bool], 8 bits per byte, least significant bit first,
                                    last byte zero padded: the packed bitvector of [bits];
     [pack_bitlist bits := bits_to_bytes (bits ++ [true])]  the packed bitlist of [bits]
                                    (the delimiter bit follows the data bits);
     [lenN l := N.of_nat (length l)]. *)
From Ztyp Require Import Base Bitfields BitfieldsProofs.
Open Scope N_scope.

(* 1. BitIndex on all 256 bytes *)
Theorem C18_byte_bit_index : forall b, N_of_byte b <> 0 -> byte_bit_index b = N.log2 (N_of_byte b).
Proof. exact byte_bit_index_log2. Qed.
Print Assumptions C18_byte_bit_index.

Theorem C18_byte_bit_index_0 : byte_bit_index b0 = 0.
Proof. exact byte_bit_index_b0. Qed.
Print Assumptions C18_byte_bit_index_0.

(* 2. BitlistCheck accepts exactly the packed bitlists of at most [limit] bits (any uint64 limit,
   any byte string: no side condition on the length is needed), and never panics. *)
Theorem C18_bitlist_check : forall bs limit, limit < 2^64 ->
  (bitlist_check bs limit = OK tt <-> exists bits, lenN bits <= limit /\ bs = pack_bitlist bits).
Proof. exact bitlist_check_iff. Qed.
Print Assumptions C18_bitlist_check.

Theorem C18_bitlist_check_no_panic : forall bs limit, bitlist_check bs limit <> Panic.
Proof. exact bitlist_check_no_panic. Qed.
Print Assumptions C18_bitlist_check_no_panic.

(* 3. BitvectorCheck accepts exactly the packed bitvectors of exactly [n] bits.  For n = 0 this says:
   only the empty string is accepted ([lenN bits = 0] forces [bits = []], [bits_to_bytes [] = []]). *)
Theorem C18_bitvector_check : forall bs n, n < 2^64 - 7 ->
  (bitvector_check bs n = OK tt <-> exists bits, lenN bits = n /\ bs = bits_to_bytes bits).
Proof. exact bitvector_check_iff. Qed.
Print Assumptions C18_bitvector_check.

Theorem C18_bitvector_check_empty : forall bs, bitvector_check bs 0 = OK tt <-> bs = [].
Proof. exact bitvector_check_zero. Qed.
Print Assumptions C18_bitvector_check_empty.

Theorem C18_bitvector_check_no_panic : forall bs n, bitvector_check bs n <> Panic.
Proof. exact bitvector_check_no_panic. Qed.
Print Assumptions C18_bitvector_check_no_panic.

(* the bound in C18_bitvector_check is tight: (n + 7) wraps in uint64 for the 7 largest lengths *)
Theorem C18_bitvector_check_wrap :
  bitvector_check [] (2^64 - 7) = OK tt /\ bitvector_check [] (2^64 - 1) = OK tt.
Proof. exact bitvector_check_wrap. Qed.
Print Assumptions C18_bitvector_check_wrap.

(* 4. BitlistLen *)
Theorem C18_bitlist_len : forall bits, lenN bits < 2^61 -> bitlist_len (pack_bitlist bits) = lenN bits.
Proof. exact bitlist_len_pack_61. Qed.
Print Assumptions C18_bitlist_len.

(* stronger: every bit length that fits a uint64 *)
Theorem C18_bitlist_len_64 : forall bits, lenN bits < 2^64 -> bitlist_len (pack_bitlist bits) = lenN bits.
Proof. exact bitlist_len_pack. Qed.
Print Assumptions C18_bitlist_len_64.

(* documented behaviour on invalid input *)
Theorem C18_bitlist_len_nil : bitlist_len [] = 0.
Proof. exact bitlist_len_nil. Qed.
Print Assumptions C18_bitlist_len_nil.

Theorem C18_bitlist_len_zero_last : forall bs, bs <> [] -> last bs b0 = b0 -> lenN bs <= 2^61 ->
  bitlist_len bs = 8 * (lenN bs - 1).
Proof. exact bitlist_len_zero_last. Qed.
Print Assumptions C18_bitlist_len_zero_last.

(* on every non-empty string (valid or not) *)
Theorem C18_bitlist_len_any : forall bs, bs <> [] -> lenN bs <= 2^61 ->
  bitlist_len bs = 8 * (lenN bs - 1) + byte_bit_index (last bs b0).
Proof. exact bitlist_len_nonempty. Qed.
Print Assumptions C18_bitlist_len_any.

(* 5. GetBit *)
Theorem C18_get_bit : forall bits i, i < lenN bits ->
  get_bit (bits_to_bytes bits) i = OK (nth (N.to_nat i) bits false).
Proof. exact get_bit_btb. Qed.
Print Assumptions C18_get_bit.

Theorem C18_get_bit_bitlist : forall bits i, i < lenN bits ->
  get_bit (pack_bitlist bits) i = OK (nth (N.to_nat i) bits false).
Proof. exact get_bit_pack. Qed.
Print Assumptions C18_get_bit_bitlist.

Theorem C18_get_bit_panic : forall bs i, get_bit bs i = Panic <-> lenN bs <= i / 8.
Proof. exact get_bit_panic. Qed.
Print Assumptions C18_get_bit_panic.

(* 6. SetBit *)
Theorem C18_set_bit : forall bits i v, i < lenN bits ->
  set_bit (bits_to_bytes bits) i v = OK (bits_to_bytes (list_set bits (N.to_nat i) v)).
Proof. exact set_bit_btb. Qed.
Print Assumptions C18_set_bit.

Theorem C18_set_bit_bitlist : forall bits i v, i < lenN bits ->
  set_bit (pack_bitlist bits) i v = OK (pack_bitlist (list_set bits (N.to_nat i) v)).
Proof. exact set_bit_pack. Qed.
Print Assumptions C18_set_bit_bitlist.

Theorem C18_set_bit_panic : forall bs i v, set_bit bs i v = Panic <-> lenN bs <= i / 8.
Proof. exact set_bit_panic. Qed.
Print Assumptions C18_set_bit_panic.

(* 7. ones counts *)
Theorem C18_ones_count_bitvector : forall bits,
  bitvector_ones_count (bits_to_bytes bits) = lenN (filter id bits).
Proof. exact bitvector_ones_count_btb. Qed.
Print Assumptions C18_ones_count_bitvector.

Theorem C18_ones_count_bitlist : forall bits,
  bitlist_ones_count (pack_bitlist bits) = lenN (filter id bits).
Proof. exact bitlist_ones_count_pack. Qed.
Print Assumptions C18_ones_count_bitlist.

(* 8. IsZeroBitlist *)
Theorem C18_is_zero : forall bits, is_zero_bitlist (pack_bitlist bits) = forallb negb bits.
Proof. exact is_zero_bitlist_pack. Qed.
Print Assumptions C18_is_zero.

Theorem C18_is_zero_nil : is_zero_bitlist [] = true.
Proof. exact is_zero_bitlist_nil. Qed.
Print Assumptions C18_is_zero_nil.

(* 9. Covers: bf only has bits that af has *)
Theorem C18_covers : forall a b, length a = length b ->
  covers (bits_to_bytes a) (bits_to_bytes b)
  = OK (forallb (fun xy => implb (snd xy) (fst xy)) (combine a b)).
Proof. exact covers_btb. Qed.
Print Assumptions C18_covers.

Theorem C18_covers_bitlist : forall a b, length a = length b ->
  covers (pack_bitlist a) (pack_bitlist b)
  = OK (forallb (fun xy => implb (snd xy) (fst xy)) (combine a b)).
Proof. exact covers_pack. Qed.
Print Assumptions C18_covers_bitlist.

Theorem C18_covers_err : forall af bf, covers af bf = Err <-> length af <> length bf.
Proof. exact covers_err. Qed.
Print Assumptions C18_covers_err.

Theorem C18_covers_no_panic : forall af bf, covers af bf <> Panic.
Proof. exact covers_no_panic. Qed.
Print Assumptions C18_covers_no_panic.
