(* C20 — for every type (including lists whose limits are astronomically large) and every byte
   string, the memory allocated while decoding is bounded by a constant multiple of the input
   length plus the footprint of the type's fixed structure; a few hostile bytes cannot make
   the decoder allocate memory proportional to a declared limit or to an offset value.

   Model: Alloc.v, [view_deser_a] = View.view_deser instrumented with the number of bytes the Go
   decoder asks the allocator for (charged also when decoding fails); the bound functions
   [perbyte t] (bytes per input byte) and [foot t] (fixed footprint: vector lengths, field
   counts, tree depths <= 64) are defined at the end of Alloc.v.  No hypothesis on the type is
   needed (not even well-formedness).
   Spec vocabulary (AllocProofs.v): [lenN] = length as N (Spec.lenN);
   [erase_limits t] = t with every list / bitlist limit replaced by 0;
   [list_table e n st d] = the number of entries of the element / offset table that
   ComplexListType.Deserialize allocates for List[e, n] in reader state (st, d), i.e. the
   guards of the decoder written out (None: it returns before allocating a table).

   Statement note.  The bound is stated for ALL reader states (st, d), also for states that
   [new_reader] never produces.  Reads through a sub-scope do not advance the parent's index,
   so in a state without limit reader over a stream longer than the scope the children of a
   series can each consume up to the parent scope and  perbyte t * scope + foot t  is false
   (AllocProofs.ex_pure_scope_bound_fails_without_limit).  The general statement therefore
   charges [perbyte t] per byte of scope AND per byte left in the stream; at top level both
   equal the input length, which gives  2 * perbyte t * length + foot t. *)
From Ztyp Require Import Base Types Spec Reader View Alloc AllocProofs.
Open Scope N_scope.

(* a. the instrumented decoder computes the same result *)
Theorem C20_instrumentation_faithful : forall zh t st d,
  fst (view_deser_a zh t st d) = view_deser zh t st d.
Proof. exact instrumentation_faithful. Qed.
Print Assumptions C20_instrumentation_faithful.

(* b. the bound, for every type, every reader state *)
Theorem C20_bound : forall zh t st d,
  snd (view_deser_a zh t st d) <= perbyte t * (dr_scope d + lenN (r_stream st)) + foot t.
Proof. exact alloc_bound. Qed.
Print Assumptions C20_bound.

(* whenever the stream holds no more than the scope, as at top level *)
Theorem C20_bound_scope : forall zh t st d,
  lenN (r_stream st) <= dr_scope d ->
  snd (view_deser_a zh t st d) <= 2 * perbyte t * dr_scope d + foot t.
Proof. exact alloc_bound_scope. Qed.
Print Assumptions C20_bound_scope.

(* a successful decode has allocated at most perbyte t per byte it CONSUMED, plus foot t *)
Theorem C20_bound_success : forall zh t st d n st',
  fst (view_deser_a zh t st d) = OK (n, st') ->
  lenN (r_stream st') <= lenN (r_stream st) /\
  snd (view_deser_a zh t st d)
    <= perbyte t * (lenN (r_stream st) - lenN (r_stream st')) + foot t.
Proof. exact alloc_bound_success. Qed.
Print Assumptions C20_bound_success.

(* top level: TypeDef.Deserialize(codec.NewDecodingReader(bytes.NewReader(bs), len(bs))) *)
Theorem C20_bound_top : forall zh t bs,
  snd (view_deserialize_a zh t bs) <= 2 * perbyte t * lenN bs + foot t.
Proof. exact alloc_bound_top. Qed.
Print Assumptions C20_bound_top.

(* the two bound functions do not depend on any list / bitlist limit *)
Theorem C20_bound_limit_free : forall t,
  perbyte (erase_limits t) = perbyte t /\ foot (erase_limits t) = foot t.
Proof. exact bound_limit_free. Qed.
Print Assumptions C20_bound_limit_free.

(* the lemma that carries the property: a table of len entries is allocated only if
   len <= scope (fixed-size elements: len * esz = scope; variable-size: 4 * len <= scope) *)
Theorem C20_list_length_bounded : forall e n st d len,
  list_table e n st d = Some len ->
  1 <= len /\ len <= n /\ len <= dr_scope d /\
  (if ti_fixed (info e) then len * ti_size (info e) = dr_scope d else 4 * len <= dr_scope d).
Proof. exact list_table_bounded. Qed.
Print Assumptions C20_list_length_bounded.

(* [list_table] is what the decoder does: without a table only a constant is allocated, with
   a table of len entries the table is charged *)
Theorem C20_list_no_table : forall zh e n st d,
  is_basic_elem e = false -> list_table e n st d = None ->
  snd (view_deser_a zh (TList e n) st d) <= c_pair + c_view.
Proof. exact list_table_none. Qed.
Print Assumptions C20_list_no_table.

Theorem C20_list_table_charged : forall zh e n st d len,
  list_table e n st d = Some len ->
  (if ti_fixed (info e) then len * c_iface else len * 4)
    <= snd (view_deser_a zh (TList e n) st d).
Proof. exact list_table_charged. Qed.
Print Assumptions C20_list_table_charged.

(* c. non-vacuity: hostile inputs against List[List[uint8, 2^40], 2^40]
   (zh0 = fun _ => zero_chunk; ex_hostile = fc ff ff 0f; ex_lying = 08 00 00 00 ff ff ff ff 01) *)
Theorem C20_example_hostile :
  view_deserialize_a zh0 (TList (TList (TUint 1) (2 ^ 40)) (2 ^ 40))
    [Byte.xfc; Byte.xff; Byte.xff; Byte.x0f] = (Err, 0).
Proof. exact (proj1 ex_hostile_alloc). Qed.
Print Assumptions C20_example_hostile.

Theorem C20_example_lying_offset :
  view_deserialize_a zh0 (TList (TList (TUint 1) (2 ^ 40)) (2 ^ 40))
    [Byte.x08; Byte.x00; Byte.x00; Byte.x00; Byte.xff; Byte.xff; Byte.xff; Byte.xff; Byte.x01]
  = (Err, 40).
Proof. exact ex_lying_alloc. Qed.
Print Assumptions C20_example_lying_offset.

(* ======================= flat decoders ======================= *)
(* C20, flat decoders — block to be appended to Props/C20.v.

   Model: FlatAlloc.v, [flat_dec_a] = Codec.flat_dec (codec/decoder.go, tree.ReadRoots and the
   destination objects assembled from them as in harness/flat_test.go) instrumented with the
   number of bytes asked from the Go allocator (charged also when decoding fails);
   [flat_decode_a] = the top-level call (a fresh destination [fnew t] and the reader of
   NewDecodingReader, [c_sub] = 96 bytes, are charged too).  The bound functions [fperbyte t]
   (bytes per input byte) and [ffoot t] (fixed footprint: vector lengths, field counts,
   byte-vector sizes) are defined at the end of FlatAlloc.v; no list / bitlist limit occurs in
   them.  The prior state [c] of the destination is arbitrary.
   Spec vocabulary (FlatAllocProofs.v): [lenN] = length as N (Spec.lenN);
   [bitvectors_fit t] = every Bitvector[n] inside t has n + 7 < 2^64 (the uint64 computation
   (n + 7) >> 3 of its byte length in Go does not wrap);
   [erase_limits t] (AllocProofs.v) = t with every list / bitlist limit replaced by 0.

   Statement note.  As for the view decoder the bound is stated for ALL reader states and
   charges [fperbyte t] per byte of scope AND per byte left in the stream (reads through a
   sub-scope do not advance the parent's index).
   Hypothesis.  Each bound is proved under  [bitvectors_fit t = true]  (any reader state, any
   input length), and alternatively for EVERY type under a scope / input length below 2^61
   bytes.  One of the two is needed by the proof: Bitvector[2^64 - 7] has FixedLength() = 2^61
   but is read as 0 bytes, so List[Bitvector[2^64 - 7], _] in a scope of k * 2^61 bytes
   decodes k elements without consuming a byte and the success form of the bound (allocation
   <= fperbyte per consumed byte + ffoot) is false for it: see
   [C20_flat_success_bound_needs_hypothesis].  No well-formedness of the type is assumed. *)
From Ztyp Require Import Base Types Spec Reader Codec Alloc FlatAlloc AllocProofs FlatAllocProofs.
Open Scope N_scope.

(* a. the instrumented flat decoder computes the same result *)
Theorem C20_flat_instrumentation_faithful : forall t c st d,
  fst (flat_dec_a t c st d) = flat_dec t c st d.
Proof. exact flat_instrumentation_faithful. Qed.
Print Assumptions C20_flat_instrumentation_faithful.

Theorem C20_flat_decode_faithful : forall t c bs,
  fst (flat_decode_a t c bs) = flat_decode t c bs.
Proof. exact flat_decode_faithful. Qed.
Print Assumptions C20_flat_decode_faithful.

(* b. the bound, every reader state, every prior destination state *)
Theorem C20_flat_bound : forall t c st d,
  bitvectors_fit t = true ->
  snd (flat_dec_a t c st d) <= fperbyte t * (dr_scope d + lenN (r_stream st)) + ffoot t.
Proof. exact flat_alloc_bound. Qed.
Print Assumptions C20_flat_bound.

(* the same for every type whatsoever, in scopes below 2^61 bytes *)
Theorem C20_flat_bound_any_type : forall t c st d,
  dr_scope d < 2 ^ 61 ->
  snd (flat_dec_a t c st d) <= fperbyte t * (dr_scope d + lenN (r_stream st)) + ffoot t.
Proof. exact flat_alloc_bound_small_scope. Qed.
Print Assumptions C20_flat_bound_any_type.

(* top level: new(T); value.Deserialize(codec.NewDecodingReader(bytes.NewReader(bs), len(bs))) *)
Theorem C20_flat_bound_top : forall t c bs,
  bitvectors_fit t = true ->
  snd (flat_decode_a t c bs) <= 2 * fperbyte t * lenN bs + (fnew t + c_sub + ffoot t).
Proof. exact flat_alloc_bound_top. Qed.
Print Assumptions C20_flat_bound_top.

Theorem C20_flat_bound_top_any_type : forall t c bs,
  lenN bs < 2 ^ 61 ->
  snd (flat_decode_a t c bs) <= 2 * fperbyte t * lenN bs + (fnew t + c_sub + ffoot t).
Proof. exact flat_alloc_bound_top_small. Qed.
Print Assumptions C20_flat_bound_top_any_type.

(* a successful decode has allocated at most fperbyte t per byte it CONSUMED, plus ffoot t *)
Theorem C20_flat_bound_success : forall t c st d v c' st' d',
  bitvectors_fit t = true \/ dr_scope d < 2 ^ 61 ->
  fst (flat_dec_a t c st d) = OK (v, c', st', d') ->
  lenN (r_stream st') <= lenN (r_stream st) /\
  snd (flat_dec_a t c st d)
    <= fperbyte t * (lenN (r_stream st) - lenN (r_stream st')) + ffoot t.
Proof. exact flat_alloc_bound_success. Qed.
Print Assumptions C20_flat_bound_success.

(* ... and without the hypothesis that statement is false (List[Bitvector[2^64 - 7], 2^40] in a
   scope of 2^62 bytes over an empty stream: success, 448 bytes allocated, bound 40) *)
Theorem C20_flat_success_bound_needs_hypothesis :
  ~ (forall t c st d v c' st' d', fst (flat_dec_a t c st d) = OK (v, c', st', d') ->
       snd (flat_dec_a t c st d)
         <= fperbyte t * (lenN (r_stream st) - lenN (r_stream st')) + ffoot t).
Proof. exact flat_success_bound_needs_hypothesis. Qed.
Print Assumptions C20_flat_success_bound_needs_hypothesis.

(* types with parameters below 2^56 (Repr.small_params, the side condition of C09) fit *)
Theorem C20_flat_small_params_fit : forall t,
  Repr.small_params t = true -> bitvectors_fit t = true.
Proof. exact small_params_bitvectors_fit. Qed.
Print Assumptions C20_flat_small_params_fit.

(* the bound functions and the fresh destination do not depend on any list / bitlist limit *)
Theorem C20_flat_bound_limit_free : forall t,
  fperbyte (erase_limits t) = fperbyte t /\ ffoot (erase_limits t) = ffoot t /\
  fnew (erase_limits t) = fnew t.
Proof. exact flat_bound_limit_free. Qed.
Print Assumptions C20_flat_bound_limit_free.

(* c. non-vacuity: hostile inputs against List[List[uint8, 2^40], 2^40]
   (ex_T2; ex_hostile = fc ff ff 0f, first offset 0x0ffffffc; ex_lying = 08 00 00 00 ff ff ff ff 01;
   ex_two_empty = 08 00 00 00 08 00 00 00): 176 = destination 48 + reader 96 + closure 32 *)
Theorem C20_flat_example_hostile :
  fst (flat_decode_a (TList (TList (TUint 1) (2 ^ 40)) (2 ^ 40)) CFresh
         [Byte.xfc; Byte.xff; Byte.xff; Byte.x0f]) = Err /\
  snd (flat_decode_a (TList (TList (TUint 1) (2 ^ 40)) (2 ^ 40)) CFresh
         [Byte.xfc; Byte.xff; Byte.xff; Byte.x0f]) = 176 /\
  2 * fperbyte ex_T2 * lenN ex_hostile + (fnew ex_T2 + c_sub + ffoot ex_T2) = 2240.
Proof. exact ex_flat_hostile_alloc. Qed.
Print Assumptions C20_flat_example_hostile.

Theorem C20_flat_example_lying_offset :
  fst (flat_decode_a (TList (TList (TUint 1) (2 ^ 40)) (2 ^ 40)) CFresh
         [Byte.x08; Byte.x00; Byte.x00; Byte.x00; Byte.xff; Byte.xff; Byte.xff; Byte.xff; Byte.x01])
  = Err /\
  snd (flat_decode_a (TList (TList (TUint 1) (2 ^ 40)) (2 ^ 40)) CFresh
         [Byte.x08; Byte.x00; Byte.x00; Byte.x00; Byte.xff; Byte.xff; Byte.xff; Byte.xff; Byte.x01])
  = 304.
Proof. exact ex_flat_lying_alloc. Qed.
Print Assumptions C20_flat_example_lying_offset.

(* a successful decode with a positive charge below the bound; the type fits *)
Theorem C20_flat_example_success :
  is_ok (fst (flat_decode_a ex_T2 CFresh ex_two_empty)) = true /\
  snd (flat_decode_a ex_T2 CFresh ex_two_empty) = 608 /\
  2 * fperbyte ex_T2 * lenN ex_two_empty + (fnew ex_T2 + c_sub + ffoot ex_T2) = 4296 /\
  bitvectors_fit ex_T2 = true.
Proof. exact ex_flat_success_alloc. Qed.
Print Assumptions C20_flat_example_success.
