(* C20 — for every type (including lists whose limits are astronomically large) and every byte
   string, the memory allocated while decoding is bounded by a constant multiple of the input
   length plus the footprint of the type's fixed structure; a few hostile bytes cannot make
   the decoder allocate memory proportional to a declared limit or to an offset value.

   Model: Alloc.v, [view_deser_a] = View.view_deser instrumented with the number of bytes the Go
   decoder asks the allocator for (charged also when decoding fails); the bound functions
   [perbyte t] (bytes per input byte) and [foot t] (fixed footprint: vector lengths, field
   counts, tree depths <= 64) are defined at the end of Alloc.v.  No hypothesis on the type is
   needed (not even well-formedness).
   Spec vocabulary (AllocProofs.v): [lenN] = length as N (Spec.lenN);
   [erase_limits t] = t with every list / bitlist limit replaced by 0;
   [list_table e n st d] = the number of entries of the element / offset table that
   ComplexListType.Deserialize allocates for List[e, n] in reader state (st, d), i.e. the
   guards of the decoder written out (None: it returns before allocating a table).

   Statement note.  The bound is stated for ALL reader states (st, d), also for states that
   [new_reader] never produces.  Reads through a sub-scope do not advance the parent's index,
   so in a state without limit reader over a stream longer than the scope the children of a
   series can each consume up to the parent scope and  perbyte t * scope + foot t  is false
   (AllocProofs.ex_pure_scope_bound_fails_without_limit).  The general statement therefore
   charges [perbyte t] per byte of scope AND per byte left in the stream; at top level both
   equal the input length, which gives  2 * perbyte t * length + foot t. *)
From Ztyp Require Import Base Types Spec Reader View Alloc AllocProofs.
Open Scope N_scope.

(* a. the instrumented decoder computes the same result *)
Theorem C20_instrumentation_faithful : forall zh t st d,
  fst (view_deser_a zh t st d) = view_deser zh t st d.
Proof. exact instrumentation_faithful. Qed.
Print Assumptions C20_instrumentation_faithful.

(* b. the bound, for every type, every reader state *)
Theorem C20_bound : forall zh t st d,
  snd (view_deser_a zh t st d) <= perbyte t * (dr_scope d + lenN (r_stream st)) + foot t.
Proof. exact alloc_bound. Qed.
Print Assumptions C20_bound.

(* whenever the stream holds no more than the scope, as at top level *)
Theorem C20_bound_scope : forall zh t st d,
  lenN (r_stream st) <= dr_scope d ->
  snd (view_deser_a zh t st d) <= 2 * perbyte t * dr_scope d + foot t.
Proof. exact alloc_bound_scope. Qed.
Print Assumptions C20_bound_scope.

(* a successful decode has allocated at most perbyte t per byte it CONSUMED, plus foot t *)
Theorem C20_bound_success : forall zh t st d n st',
  fst (view_deser_a zh t st d) = OK (n, st') ->
  lenN (r_stream st') <= lenN (r_stream st) /\
  snd (view_deser_a zh t st d)
    <= perbyte t * (lenN (r_stream st) - lenN (r_stream st')) + foot t.
Proof. exact alloc_bound_success. Qed.
Print Assumptions C20_bound_success.

(* top level: TypeDef.Deserialize(codec.NewDecodingReader(bytes.NewReader(bs), len(bs))) *)
Theorem C20_bound_top : forall zh t bs,
  snd (view_deserialize_a zh t bs) <= 2 * perbyte t * lenN bs + foot t.
Proof. exact alloc_bound_top. Qed.
Print Assumptions C20_bound_top.

(* the two bound functions do not depend on any list / bitlist limit *)
Theorem C20_bound_limit_free : forall t,
  perbyte (erase_limits t) = perbyte t /\ foot (erase_limits t) = foot t.
Proof. exact bound_limit_free. Qed.
Print Assumptions C20_bound_limit_free.

(* the lemma that carries the property: a table of len entries is allocated only if
   len <= scope (fixed-size elements: len * esz = scope; variable-size: 4 * len <= scope) *)
Theorem C20_list_length_bounded : forall e n st d len,
  list_table e n st d = Some len ->
  1 <= len /\ len <= n /\ len <= dr_scope d /\
  (if ti_fixed (info e) then len * ti_size (info e) = dr_scope d else 4 * len <= dr_scope d).
Proof. exact list_table_bounded. Qed.
Print Assumptions C20_list_length_bounded.

(* [list_table] is what the decoder does: without a table only a constant is allocated, with
   a table of len entries the table is charged *)
Theorem C20_list_no_table : forall zh e n st d,
  is_basic_elem e = false -> list_table e n st d = None ->
  snd (view_deser_a zh (TList e n) st d) <= c_pair + c_view.
Proof. exact list_table_none. Qed.
Print Assumptions C20_list_no_table.

Theorem C20_list_table_charged : forall zh e n st d len,
  list_table e n st d = Some len ->
  (if ti_fixed (info e) then len * c_iface else len * 4)
    <= snd (view_deser_a zh (TList e n) st d).
Proof. exact list_table_charged. Qed.
Print Assumptions C20_list_table_charged.

(* c. non-vacuity: hostile inputs against List[List[uint8, 2^40], 2^40]
   (zh0 = fun _ => zero_chunk; ex_hostile = fc ff ff 0f; ex_lying = 08 00 00 00 ff ff ff ff 01) *)
Theorem C20_example_hostile :
  view_deserialize_a zh0 (TList (TList (TUint 1) (2 ^ 40)) (2 ^ 40))
    [Byte.xfc; Byte.xff; Byte.xff; Byte.x0f] = (Err, 0).
Proof. exact (proj1 ex_hostile_alloc). Qed.
Print Assumptions C20_example_hostile.

Theorem C20_example_lying_offset :
  view_deserialize_a zh0 (TList (TList (TUint 1) (2 ^ 40)) (2 ^ 40))
    [Byte.x08; Byte.x00; Byte.x00; Byte.x00; Byte.xff; Byte.xff; Byte.xff; Byte.xff; Byte.x01]
  = (Err, 40).
Proof. exact ex_lying_alloc. Qed.
Print Assumptions C20_example_lying_offset.
