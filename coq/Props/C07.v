(* C07 — "Requesting the hash-tree-root of an unchanged view a second time performs no pair-hash
   invocations, and after a single mutation whose inserted value was itself already hashed,
   recomputing the root invokes the hash function at most once per level on the path from the
   root to the change."

   Model: Heap.v; the third component of [h_merkle H fuel h a = OK (root, h', c)] is the number
   of invocations of the pair hash H.
   HYPOTHESIS [Hnz H := forall a b, H a b <> zero_chunk] appears exactly where it is needed:
   Go's PairNode.MerkleRoot tests [c.Value != Root{}], so an all-zero hash output is never
   memoised and would be recomputed on every request (true of the model and of the Go code;
   for SHA-256 a zero output is not known).  The upper bounds (C07_count_bound, C07_path_bound,
   C07_two_writes) hold for EVERY H.

   Vocabulary (HeapProofs.v; unfolded in C07_defs):
     memoised h a     every pair cell reachable from a has a non-zero memo ("already hashed")
     memo_closed h    a pair with a memo has fully hashed children (machine invariant: C07_closed_init, C07_closed_step)
     wcount h a n     n = number of unset pair cells below a, with the multiplicity of the tree
                      unfolding (>= the number of distinct ones)
     reach h a b, unset_pair h b, set_pair h b *)
From Ztyp Require Import Base Bitlen Tree Types View Mut Heap TreeProofs HeapProofs.
Open Scope N_scope.

Theorem C07_defs : forall H h b,
  (Hnz H <-> forall x y, H x y <> zero_chunk) /\
  (unset_pair h b <-> exists l r, h_cell h b = Some (CPair zero_chunk l r)) /\
  (set_pair h b <-> exists m l r, h_cell h b = Some (CPair m l r) /\ m <> zero_chunk) /\
  (memo_closed h <->
     forall a m l r, h_cell h a = Some (CPair m l r) -> m <> zero_chunk ->
                     memoised h l /\ memoised h r) /\
  (forall a c, h_cell h a = Some (CLeaf c) -> memoised h a) /\
  (forall a m l r, h_cell h a = Some (CPair m l r) -> m <> zero_chunk ->
     memoised h l -> memoised h r -> memoised h a) /\
  (forall a c, h_cell h a = Some (CLeaf c) -> wcount h a 0) /\
  (forall a m l r n1 n2, h_cell h a = Some (CPair m l r) -> wcount h l n1 -> wcount h r n2 ->
     wcount h a (n1 + n2 + (if chunk_eqb m zero_chunk then 1 else 0))).
Proof.
  exact (fun H h b => conj (iff_refl _) (conj (iff_refl _) (conj (iff_refl _) (conj (iff_refl _)
    (conj (memoised_leaf h) (conj (memoised_pair h) (conj (wc_leaf h) (wc_pair h)))))))).
Qed.
Print Assumptions C07_defs.

(* memoised <-> nothing left to hash; wcount is a function of (h, a) *)
Theorem C07_memoised_wcount : forall h a,
  (memoised h a -> wcount h a 0) /\ (wcount h a 0 -> memoised h a) /\
  (forall n1 n2, wcount h a n1 -> wcount h a n2 -> n1 = n2).
Proof.
  exact (fun h a => conj (memoised_wcount h a)
    (conj (fun W => wcount_memoised h a 0 W eq_refl)
          (fun n1 n2 W1 W2 => wcount_fun h a n1 W1 n2 W2))).
Qed.
Print Assumptions C07_memoised_wcount.

(* ---------------- 1. the second request is free ---------------- *)
(* no hypothesis besides Hnz: whatever the first request did, repeating it (any non-zero fuel)
   returns the same root, leaves the heap as it is and hashes nothing *)
Theorem C07_second_request_free : forall H fuel h a r h1 c,
  Hnz H -> h_merkle H fuel h a = OK (r, h1, c) -> h_merkle H fuel h1 a = OK (r, h1, 0).
Proof.
  exact (fun H fuel h a r h1 c Hz E =>
    match fuel as f return h_merkle H f h a = OK (r, h1, c) -> h_merkle H f h1 a = OK (r, h1, 0) with
    | O => fun E0 => match (eq_ind (Panic) (fun x => match x with Panic => True | _ => False end) I _ E0)
                     with end
    | S f => fun E0 => h_merkle_second_free H (S f) h a r h1 c Hz E0 f
    end E).
Qed.
Print Assumptions C07_second_request_free.

Theorem C07_second_request_free_any_fuel : forall H fuel h a r h1 c,
  Hnz H -> h_merkle H fuel h a = OK (r, h1, c) ->
  forall fuel', h_merkle H (S fuel') h1 a = OK (r, h1, 0).
Proof. exact h_merkle_second_free. Qed.
Print Assumptions C07_second_request_free_any_fuel.

(* a fully hashed tree costs nothing (any H) *)
Theorem C07_hashed_is_free : forall H fuel h a,
  memoised h a -> exists r, h_merkle H (S fuel) h a = OK (r, h, 0).
Proof. exact h_merkle_memoised_free. Qed.
Print Assumptions C07_hashed_is_free.

(* under Hnz a request leaves the tree fully hashed (so the premise of C07_path_bound holds
   after any request); memo_closed is a machine invariant *)
Theorem C07_request_hashes_all : forall H fuel h a r h' c,
  Hnz H -> heap_wf h -> memo_closed h -> (a < hp_next h)%positive -> (Pos.to_nat a <= fuel)%nat ->
  h_merkle H fuel h a = OK (r, h', c) -> memoised h' a /\ memo_closed h'.
Proof. exact h_merkle_memoised. Qed.
Print Assumptions C07_request_hashes_all.

Theorem C07_closed_init : forall zh, memo_closed (heap_init zh).
Proof. exact memo_closed_init. Qed.
Print Assumptions C07_closed_init.

Theorem C07_closed_step : forall zh st o,
  hm_inv zh st -> memo_closed (m_store _ _ st) -> memo_closed (m_store _ _ (fst (hm_step zh st o))).
Proof. exact hm_step_memo_closed. Qed.
Print Assumptions C07_closed_step.

(* ---------------- 2. how many hashes a request performs ---------------- *)
(* any H: at most the number of unset pair cells below a (tree unfolding) *)
Theorem C07_count_bound : forall H fuel h a r h' c n,
  heap_wf h -> (a < hp_next h)%positive -> (Pos.to_nat a <= fuel)%nat ->
  h_merkle H fuel h a = OK (r, h', c) -> wcount h a n -> c <= N.of_nat n.
Proof. exact h_merkle_count_wcount. Qed.
Print Assumptions C07_count_bound.

(* under Hnz, exactly: c is the number of cells written, these are pairwise distinct, each was
   an unset pair reachable from a and now holds a memo, and no other cell changed *)
Theorem C07_count_written : forall H fuel h a r h' c,
  Hnz H -> heap_wf h -> (a < hp_next h)%positive -> (Pos.to_nat a <= fuel)%nat ->
  h_merkle H fuel h a = OK (r, h', c) ->
  exists L, NoDup L /\ N.of_nat (length L) = c /\
    (forall b, In b L -> reach h a b /\ unset_pair h b /\ set_pair h' b) /\
    (forall b, ~ In b L -> h_cell h' b = h_cell h b).
Proof. exact h_merkle_count_written. Qed.
Print Assumptions C07_count_written.

(* hence c <= the number of DISTINCT unset pair cells reachable from a *)
Theorem C07_count_distinct : forall H fuel h a r h' c U,
  Hnz H -> heap_wf h -> (a < hp_next h)%positive -> (Pos.to_nat a <= fuel)%nat ->
  h_merkle H fuel h a = OK (r, h', c) ->
  (forall b, reach h a b -> unset_pair h b -> In b U) ->
  c <= N.of_nat (length U).
Proof. exact h_merkle_count_distinct. Qed.
Print Assumptions C07_count_distinct.

(* ---------------- 3. after a write: at most one hash per level of the path ---------------- *)
(* [h_set_path zh h a p e v]: the Setter for path p (length p = number of levels from the root a
   to the change) applied to v; a' is the new root.  Any H. *)
Theorem C07_path_bound : forall zh H h a p e v a' h' fuel r h'' c,
  heap_wf h -> zeros_ok zh h -> memoised h a -> memoised h v ->
  h_set_path zh h a p e v = OK (a', h') ->
  (Pos.to_nat a' <= fuel)%nat -> h_merkle H fuel h' a' = OK (r, h'', c) ->
  c <= N.of_nat (length p).
Proof. exact h_set_path_merkle_bound. Qed.
Print Assumptions C07_path_bound.

(* the composable form: path length + whatever was still unhashed in the tree and in the value *)
Theorem C07_path_bound_general : forall zh H h a p e v a' h' na nv fuel r h'' c,
  heap_wf h -> zeros_ok zh h -> (v < hp_next h)%positive ->
  wcount h a na -> wcount h v nv ->
  h_set_path zh h a p e v = OK (a', h') ->
  (Pos.to_nat a' <= fuel)%nat -> h_merkle H fuel h' a' = OK (r, h'', c) ->
  c <= N.of_nat (length p + na + nv).
Proof. exact h_set_path_merkle_count. Qed.
Print Assumptions C07_path_bound_general.

(* two consecutive writes without a request in between (an append or pop writes the element
   at path p and then the length at path q = [true]; the leaf w is allocated in between:
   heap_ext h1 h1'): at most length p + length q hashes *)
Theorem C07_two_writes : forall zh H h a p e v a1 h1 h1' q e' w a2 h2 fuel r h'' c,
  heap_wf h -> zeros_ok zh h -> memoised h a -> memoised h v ->
  h_set_path zh h a p e v = OK (a1, h1) ->
  heap_ext h1 h1' -> heap_wf h1' -> memoised h1' w ->
  h_set_path zh h1' a1 q e' w = OK (a2, h2) ->
  (Pos.to_nat a2 <= fuel)%nat -> h_merkle H fuel h2 a2 = OK (r, h'', c) ->
  c <= N.of_nat (length p + length q).
Proof. exact h_set_path_twice_bound. Qed.
Print Assumptions C07_two_writes.

(* ---------------- 4. machine level: any single step, sub-views and hooks included ---------------- *)
(* the Setter allocates exactly one cell — a pair with an unset memo — per level of its path *)
Theorem C07_set_path_allocates : forall zh p h a e v a' h',
  h_set_path zh h a p e v = OK (a', h') ->
  Pos.to_nat (hp_next h') = (Pos.to_nat (hp_next h) + length p)%nat.
Proof. exact h_set_path_allocates. Qed.
Print Assumptions C07_set_path_allocates.

(* from a state in which the tree of every handle is fully hashed, after ANY step (a mutation
   through any chain of sub-view hooks; the inserted value is a literal, allocated by the step,
   or the already hashed backing of a handle) a hash-tree-root request on ANY handle performs at
   most one hash per cell the step allocated.  The cells a mutation allocates are the path
   pairs of its Setter calls (C07_set_path_allocates: one per level; an append/pop has two
   Setter calls, each hook parent adds one) plus the new leaves (at most two) and the tree of
   a literal value.  Needs Hnz (distinct cells are counted once). *)
Theorem C07_step_cost : forall H zh st o j r st2 c,
  Hnz H -> hm_inv zh st -> h_cell (m_store _ _ st) true_addr = Some (CLeaf true_chunk) ->
  (forall k x, nth_error (m_handles _ _ st) k = Some x -> memoised (m_store _ _ st) (h_back _ x)) ->
  hm_hash H (fst (hm_step zh st o)) j = OK (r, st2, c) ->
  c <= N.of_nat (Pos.to_nat (hp_next (m_store _ _ (fst (hm_step zh st o)))) -
                 Pos.to_nat (hp_next (m_store _ _ st))).
Proof. exact hm_step_hash_cost. Qed.
Print Assumptions C07_step_cost.
