(* C11 — tree navigation and path-copying writes (model: Tree.v / Heap.v, the transcription of
   tree/node.go, pair.go, root.go, hashing.go).
   "Reading back a position just written returns the written node; every position off the
   written path keeps the identical shared node; the original tree is unchanged; navigating
   through a missing position yields a navigation error rather than a panic or a wrong node.
   Writing with expansion into a zero-subtree summary gives the same Merkle root as writing into
   the fully materialised zero subtree, and summarising any position preserves the Merkle root."

   Paths are [list bool] = [g_path g] (false = left).  [H] is an arbitrary pair hash and [zh] the
   zero-hash table with [forall d, zh d = zero_hash H d] where roots of zero subtrees matter.
   Spec vocabulary (defined and explained at the top of TreeProofs.v):
     diverges p q      := exists c b p1 q1, p = c ++ b :: p1 /\ q = c ++ negb b :: q1
     is_prefix p q     := exists r, q = p ++ r
     hits_leaf n p     the walk along p meets a Leaf while bits of p remain
     replace_at n p v  functional spec of a write on a present path (option node)
     root_subst H n p c  root of n after the subtree at p got root c
     zero_tree d       := fill_to_depth (Leaf zero_chunk) d
     zt zh d n         n is a zero subtree of height d (Leaf (zh d), or a pair of zt (d-1))
     zsum zh h n m     n, m of height h are equal up to expanding, in m, summary leaves
                       Leaf (zh k) standing at height k into zero subtrees of height k
     heap_ext, heap_wf, zeros_ok, habs   see the statements C11_heap_defs below. *)
From Ztyp Require Import Base Bitlen Tree Heap TreeProofs.
Open Scope N_scope.

(* ---------------- 1. read-back ---------------- *)
Theorem C11_get_set_same : forall zh p n e v n',
  set_path zh n p e v = OK n' -> get_path n' p = OK v.
Proof. exact get_set_same. Qed.
Print Assumptions C11_get_set_same.

Theorem C11_get_set_below : forall zh p q n e v n',
  set_path zh n p e v = OK n' -> get_path n' (p ++ q) = get_path v q.
Proof. exact get_set_below. Qed.
Print Assumptions C11_get_set_below.

(* ---------------- 2. off the written path: the identical node ---------------- *)
Theorem C11_get_set_off_path : forall zh n c b p1 q1 e v n' m,
  set_path zh n (c ++ b :: p1) e v = OK n' ->
  get_path n (c ++ negb b :: q1) = OK m ->
  get_path n' (c ++ negb b :: q1) = OK m.
Proof. exact (fun zh n c b p1 q1 e v n' m => get_set_off_path_gen zh c n b p1 q1 e v n' m). Qed.
Print Assumptions C11_get_set_off_path.

(* the same, for any q such that neither of p, q is a prefix of the other *)
Theorem C11_get_set_off_path_prefix_free : forall zh n p q e v n' m,
  ~ is_prefix p q -> ~ is_prefix q p ->
  set_path zh n p e v = OK n' -> get_path n q = OK m -> get_path n' q = OK m.
Proof.
  exact (fun zh n p q e v n' m H1 H2 =>
           get_set_off_path zh n p q e v n' m (proj2 (diverges_iff p q) (conj H1 H2))).
Qed.
Print Assumptions C11_get_set_off_path_prefix_free.

Theorem C11_diverges_iff : forall p q,
  (exists c b p1 q1, p = c ++ b :: p1 /\ q = c ++ negb b :: q1) <->
  ~ is_prefix p q /\ ~ is_prefix q p.
Proof. exact diverges_iff. Qed.
Print Assumptions C11_diverges_iff.

(* without expansion the results agree off the path, errors included *)
Theorem C11_get_set_off_path_noexp : forall zh n c b p1 q1 v n',
  set_path zh n (c ++ b :: p1) false v = OK n' ->
  get_path n' (c ++ negb b :: q1) = get_path n (c ++ negb b :: q1).
Proof. exact (fun zh n c b p1 q1 v n' => get_set_off_path_noexp_gen zh c n b p1 q1 v n'). Qed.
Print Assumptions C11_get_set_off_path_noexp.

(* ---------------- 3. navigation errors, never a panic ---------------- *)
Theorem C11_get_total : forall n p, get_path n p <> Panic.
Proof. exact get_path_total. Qed.
Print Assumptions C11_get_total.

Theorem C11_get_missing : forall c b p, get_path (Leaf c) (b :: p) = Err.
Proof. exact get_path_missing. Qed.
Print Assumptions C11_get_missing.

Theorem C11_hits_leaf_iff : forall n p,
  hits_leaf n p <-> exists c b r x, p = c ++ b :: r /\ get_path n c = OK (Leaf x).
Proof. exact hits_leaf_iff. Qed.
Print Assumptions C11_hits_leaf_iff.

Theorem C11_get_err_iff : forall n p, get_path n p = Err <-> hits_leaf n p.
Proof. exact get_path_err_iff. Qed.
Print Assumptions C11_get_err_iff.

Theorem C11_get_ok_iff : forall n p, (exists m, get_path n p = OK m) <-> ~ hits_leaf n p.
Proof. exact get_path_ok_iff. Qed.
Print Assumptions C11_get_ok_iff.

Theorem C11_set_noexp_err_iff : forall zh n p v,
  set_path zh n p false v = Err <-> hits_leaf n p.
Proof. exact set_path_noexp_err_iff. Qed.
Print Assumptions C11_set_noexp_err_iff.

Theorem C11_set_noexp_ok_iff : forall zh n p v,
  (exists n', set_path zh n p false v = OK n') <-> ~ hits_leaf n p.
Proof. exact set_path_noexp_ok_iff. Qed.
Print Assumptions C11_set_noexp_ok_iff.

Theorem C11_set_noexp_total : forall zh n p v, set_path zh n p false v <> Panic.
Proof. exact set_path_noexp_total. Qed.
Print Assumptions C11_set_noexp_total.

Theorem C11_set_total : forall zh p n e v,
  (length p <= 65)%nat -> set_path zh n p e v <> Panic.
Proof. exact set_path_total. Qed.
Print Assumptions C11_set_total.

(* on a present position the expand flag makes no difference *)
Theorem C11_set_expand_irrelevant : forall zh p n e v x,
  get_path n p = OK x -> set_path zh n p e v = set_path zh n p false v.
Proof. exact set_path_expand_irrelevant. Qed.
Print Assumptions C11_set_expand_irrelevant.

(* ---------------- 4. functional spec and root effect of a write ---------------- *)
Theorem C11_set_replace_at : forall zh p n v n',
  set_path zh n p false v = OK n' <-> replace_at n p v = Some n'.
Proof. exact set_path_replace_at. Qed.
Print Assumptions C11_set_replace_at.

Theorem C11_set_root : forall H zh n p v n',
  set_path zh n p false v = OK n' -> root_of H n' = root_subst H n p (root_of H v).
Proof. exact set_path_root. Qed.
Print Assumptions C11_set_root.

Theorem C11_root_subst_id : forall H p n m,
  get_path n p = OK m -> root_subst H n p (root_of H m) = root_of H n.
Proof. exact root_subst_id. Qed.
Print Assumptions C11_root_subst_id.

(* ---------------- 5. expansion of zero summaries ---------------- *)
Theorem C11_zero_tree_root : forall H zh, (forall d, zh d = zero_hash H d) ->
  forall d, root_of H (zero_tree d) = zh d.
Proof. exact zero_tree_root. Qed.
Print Assumptions C11_zero_tree_root.

Theorem C11_zero_tree_zt : forall H zh, (forall d, zh d = zero_hash H d) ->
  forall d, zt zh d (zero_tree d).
Proof. exact zero_tree_zt. Qed.
Print Assumptions C11_zero_tree_zt.

Theorem C11_zsum_root : forall H zh, (forall d, zh d = zero_hash H d) ->
  forall h n m, zsum zh h n m -> root_of H n = root_of H m.
Proof. exact zsum_root. Qed.
Print Assumptions C11_zsum_root.

(* the write with expansion into the summarised tree n is matched by a plain write into any
   materialisation m of n (height h = length of the path) in which the position exists *)
Theorem C11_set_expand_sim : forall zh p h n m v x n',
  zsum zh h n m -> length p = h -> get_path m p = OK x ->
  set_path zh n p true v = OK n' ->
  exists m', set_path zh m p false v = OK m' /\ zsum zh h n' m'.
Proof. exact set_expand_sim. Qed.
Print Assumptions C11_set_expand_sim.

Theorem C11_set_expand_equiv : forall H zh, (forall d, zh d = zero_hash H d) ->
  forall h n m p v x n',
  zsum zh h n m -> length p = h -> get_path m p = OK x ->
  set_path zh n p true v = OK n' ->
  exists m', set_path zh m p false v = OK m' /\ root_of H n' = root_of H m'.
Proof. exact set_expand_equiv. Qed.
Print Assumptions C11_set_expand_equiv.

Theorem C11_set_expand_succeeds : forall zh p h n m v x,
  zsum zh h n m -> length p = h -> (h <= 65)%nat -> get_path m p = OK x ->
  exists n', set_path zh n p true v = OK n'.
Proof. exact set_expand_succeeds. Qed.
Print Assumptions C11_set_expand_succeeds.

(* headline instance: zero summary of height |p| against the materialised zero subtree *)
Theorem C11_set_expand_zero_tree : forall H zh, (forall d, zh d = zero_hash H d) ->
  forall p v, (length p <= 65)%nat ->
  exists n' m', set_path zh (Leaf (zh (length p))) p true v = OK n' /\
                set_path zh (zero_tree (length p)) p false v = OK m' /\
                root_of H n' = root_of H m'.
Proof. exact set_expand_zero_tree. Qed.
Print Assumptions C11_set_expand_zero_tree.

(* a leaf that is not the zero summary of its height is never expanded *)
Theorem C11_set_expand_refuses : forall zh c b p v,
  c <> zh (S (length p)) -> set_path zh (Leaf c) (b :: p) true v = Err.
Proof. exact set_path_expand_refuses. Qed.
Print Assumptions C11_set_expand_refuses.

(* ---------------- 6. summarising preserves the root ---------------- *)
Theorem C11_summarize_root : forall H zh n g n',
  summarize zh H n g = OK n' -> root_of H n' = root_of H n.
Proof. exact summarize_root. Qed.
Print Assumptions C11_summarize_root.

(* ---------------- 7. generalized-index form ---------------- *)
Theorem C11_getter_setter_same : forall zh n g e v n',
  setter zh n g e v = OK n' -> getter n' g = OK v.
Proof. exact getter_setter_same. Qed.
Print Assumptions C11_getter_setter_same.

Theorem C11_getter_setter_other : forall zh n d i j e v n' m,
  d < 64 -> i < 2 ^ d -> j < 2 ^ d -> i <> j ->
  setter zh n (2 ^ d + i) e v = OK n' ->
  getter n (2 ^ d + j) = OK m -> getter n' (2 ^ d + j) = OK m.
Proof. exact getter_setter_other. Qed.
Print Assumptions C11_getter_setter_other.

(* ---------------- 8. the heap: identity, sharing, the original is intact ---------------- *)
(* the heap vocabulary, spelled out *)
Theorem C11_heap_defs :
  (forall h h', heap_ext h h' <->
     (forall a c, h_cell h a = Some c -> h_cell h' a = Some c) /\
     (hp_next h <= hp_next h')%positive) /\
  (forall h, heap_wf h <->
     (forall a, (a < hp_next h)%positive -> exists c, h_cell h a = Some c) /\
     (forall a, (hp_next h <= a)%positive -> h_cell h a = None) /\
     (forall a memo l r, h_cell h a = Some (CPair memo l r) ->
                         (l < a)%positive /\ (r < a)%positive)) /\
  (forall zh h, zeros_ok zh h <->
     forall d, (d <= 64)%nat -> h_cell h (zero_addr d) = Some (CLeaf (zh d))) /\
  (forall h a n, habs h a n <-> exists fuel, h_abs fuel h a = Some n).
Proof.
  exact (conj (fun h h' => iff_refl _)
        (conj (fun h => iff_refl _)
        (conj (fun zh h => iff_refl _) habs_iff_h_abs))).
Qed.
Print Assumptions C11_heap_defs.

Theorem C11_heap_init_ok : forall zh, heap_wf (heap_init zh) /\ zeros_ok zh (heap_init zh).
Proof. exact (fun zh => conj (heap_init_wf zh) (heap_init_zeros_ok zh)). Qed.
Print Assumptions C11_heap_init_ok.

Theorem C11_heap_set_original : forall zh h a p e v a' h',
  heap_wf h -> h_set_path zh h a p e v = OK (a', h') -> heap_ext h h'.
Proof. exact heap_set_original. Qed.
Print Assumptions C11_heap_set_original.

(* every old cell, old navigation result and old abstraction (in particular of the old root)
   is literally the same in the new heap *)
Theorem C11_heap_set_old_tree : forall zh h a p e v a' h',
  heap_wf h -> h_set_path zh h a p e v = OK (a', h') ->
  (forall b c, h_cell h b = Some c -> h_cell h' b = Some c) /\
  (forall b q x, h_get_path h b q = OK x -> h_get_path h' b q = OK x) /\
  (forall fuel b n, h_abs fuel h b = Some n -> h_abs fuel h' b = Some n).
Proof. exact heap_set_old_tree. Qed.
Print Assumptions C11_heap_set_old_tree.

Theorem C11_heap_set_wf : forall zh h a p e v a' h',
  heap_wf h -> zeros_ok zh h -> (v < hp_next h)%positive ->
  h_set_path zh h a p e v = OK (a', h') ->
  heap_ext h h' /\ heap_wf h' /\ zeros_ok zh h' /\ (a' < hp_next h')%positive.
Proof. exact heap_set_wf. Qed.
Print Assumptions C11_heap_set_wf.

Theorem C11_heap_get_set_same : forall zh h a p e v a' h',
  heap_wf h -> h_set_path zh h a p e v = OK (a', h') -> h_get_path h' a' p = OK v.
Proof. exact heap_get_set_same. Qed.
Print Assumptions C11_heap_get_set_same.

(* sharing: an off-path position of the new tree holds the same ADDRESS as in the old tree *)
Theorem C11_heap_set_shares : forall zh h a c b p1 q1 e v a' h' x,
  heap_wf h ->
  h_set_path zh h a (c ++ b :: p1) e v = OK (a', h') ->
  h_get_path h a (c ++ negb b :: q1) = OK x ->
  h_get_path h' a' (c ++ negb b :: q1) = OK x.
Proof. exact heap_set_shares. Qed.
Print Assumptions C11_heap_set_shares.

(* refinement: the heap write is the pure write on the abstractions, result by result *)
Theorem C11_heap_set_refines : forall zh h a n p e v nv,
  heap_wf h -> zeros_ok zh h -> habs h a n -> habs h v nv ->
  match h_set_path zh h a p e v with
  | OK (a', h') => exists n', set_path zh n p e nv = OK n' /\ habs h' a' n'
  | Err => set_path zh n p e nv = Err
  | Panic => set_path zh n p e nv = Panic
  end.
Proof. exact heap_set_refines. Qed.
Print Assumptions C11_heap_set_refines.

Theorem C11_heap_set_refines_fuel : forall zh h a n p e v nv a' h' f1 f2,
  heap_wf h -> zeros_ok zh h ->
  h_abs f1 h a = Some n -> h_abs f2 h v = Some nv ->
  h_set_path zh h a p e v = OK (a', h') ->
  exists n', set_path zh n p e nv = OK n' /\ h_abs (Pos.to_nat a') h' a' = Some n'.
Proof. exact h_set_path_refines_fuel. Qed.
Print Assumptions C11_heap_set_refines_fuel.

(* in a well-formed heap every cell stands for a tree; fuel = the address suffices *)
Theorem C11_heap_abs_total : forall h a,
  heap_wf h -> (a < hp_next h)%positive -> exists n, h_abs (Pos.to_nat a) h a = Some n.
Proof. exact heap_wf_abs_total. Qed.
Print Assumptions C11_heap_abs_total.

(* ---- generalized indices of any depth (a caller-defined Gindex): TreePath.v ---- *)
From Ztyp Require Import TreePath TreePathProofs.

(* on every 64-bit index, summarising by path is Tree.summarize *)
Theorem C11_summarize_path_agrees : forall H zh n d p, d < 64 -> p < 2 ^ d ->
  summarize zh H n (2 ^ d + p) = summarize_path zh H n (g_path (2 ^ d + p)).
Proof. exact summarize_path_agrees. Qed.
Print Assumptions C11_summarize_path_agrees.

(* summarising any position - at any depth - preserves the Merkle root *)
Theorem C11_summarize_path_root : forall H zh n p n',
  summarize_path zh H n p = OK n' -> root_of H n' = root_of H n.
Proof. exact summarize_path_root. Qed.
Print Assumptions C11_summarize_path_root.

(* it succeeds exactly on the positions that exist ... *)
Theorem C11_summarize_path_ok_iff : forall H zh l r p,
  (exists n', summarize_path zh H (Pair l r) p = OK n') <-> ~ hits_leaf (Pair l r) p.
Proof. exact summarize_path_ok_iff. Qed.
Print Assumptions C11_summarize_path_ok_iff.

(* ... and never panics *)
Theorem C11_summarize_path_total : forall H zh n p, summarize_path zh H n p <> Panic.
Proof. exact summarize_path_total. Qed.
Print Assumptions C11_summarize_path_total.
