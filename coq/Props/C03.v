(* C03 — for every supported SSZ type and every byte string handed to its deserializer with the
   scope set to the string's length (single-chunk leaf types being handed exactly their fixed
   size), deserialization never panics and either returns an error or returns a view; it returns
   a view only if the bytes are a valid SSZ encoding of that type, and every valid encoding below
   2^32 bytes is accepted.

   [view_deserialize zh t bs] (View.v) is the model of
   TypeDef.Deserialize(codec.NewDecodingReader(bytes.NewReader(bs), len(bs))); [zh d] is
   tree.ZeroHashes[d] (only [zh 0 = zero_chunk] is used).  [spec_ser] is the SSZ serialization of
   the specification (Spec.v); [repr zh t n v] (Repr.v) says that the backing tree [n] of the
   returned view represents the value [v] (by C01 its root is then the spec's hash-tree-root of
   v, and by the serialization properties re-serializing the view yields [spec_ser t v], i.e. the
   input, byte for byte).

   Vocabulary defined at the top of DecodeProofs.v:
   * [sizes_ok t]: every type occurring in [t] has a maximal encoded length below 2^64 (for all
     constructors but a list of limit 0 this is implied by [spec_max_len t < 2^64]); together
     with [small_params] (lengths and limits at most 2^56) this is the domain in which the
     uint64 size metadata of the Go type constructors does not wrap (C15);
   * [leaf_ok t k]: for t = uintN / bool / ByteVector[<=32] / Root, k is the size of t; True
     for all other types ("single-chunk leaf types being handed exactly their fixed size":
     these decoders read their own size and never look at the scope,
     DecodeProofs.cex_leaf_scope);
   * [small_fields t] (ReprProofs.v): containers have at most 2^63 fields.
   * [rinv st d], [adv st chain k st'], [avail] (C03_reader_local): a reader state [st]
     (stream + the counters of the nested io.LimitReaders) and a DecodingReader [d] whose chain
     of limit counters is valid and whose scope is below 2^32; [adv] says that exactly [k]
     bytes were taken from the stream through the counters of the chain.

   The bound [lenN bs < 2^32] is needed: ContainerTypeDef.Deserialize computes the size of the
   last dynamic field from uint32(scope), so beyond 4 GiB trailing bytes are ignored
   (DecodeProofs.cex_scope_2_32). *)
From Ztyp Require Import Base Tree Types Spec Reader View Repr SizeProofs ReprProofs DecodeProofs.
Open Scope N_scope.

(* 1. no panic.  The proof needs no hypothesis on the type ([C03_no_panic_model]); the
   hypotheses delimit the domain in which the model is faithful to the Go code here (outside
   [sizes_ok] an element size can wrap to 0 and Go's scope / elemSize panics while the model's
   division yields 0: DecodeProofs.cex_zero_elem_size, DecodeProofs.elem_size_pos). *)
Theorem C03_no_panic : forall (zh : nat -> chunk) (t : ty) (bs : list byte),
  wf_ty t = true -> small_params t = true -> sizes_ok t = true ->
  view_deserialize zh t bs <> Panic.
Proof. exact (fun zh t bs _ _ _ => deser_no_panic zh t bs). Qed.
Print Assumptions C03_no_panic.

Theorem C03_no_panic_model : forall (zh : nat -> chunk) (t : ty) (bs : list byte),
  view_deserialize zh t bs <> Panic.
Proof. exact deser_no_panic. Qed.
Print Assumptions C03_no_panic_model.

(* also for every reader state and scope, not only the top-level call *)
Theorem C03_no_panic_reader : forall (zh : nat -> chunk) (t : ty) (st : rstate) (d : dreader),
  view_deser zh t st d <> Panic.
Proof. exact view_deser_no_panic. Qed.
Print Assumptions C03_no_panic_reader.

(* 2. a view is returned only for the SSZ encoding of a value of the type, and the view
   represents that value *)
Theorem C03_canonical : forall (zh : nat -> chunk), zh 0%nat = zero_chunk ->
  forall (t : ty) (bs : list byte) (n : node),
  wf_ty t = true -> small_params t = true -> sizes_ok t = true -> small_fields t = true ->
  lenN bs < 2 ^ 32 -> leaf_ok t (lenN bs) ->
  view_deserialize zh t bs = OK n ->
  exists v, has_type v t = true /\ bs = spec_ser t v /\ repr zh t n v.
Proof. exact deser_canonical. Qed.
Print Assumptions C03_canonical.

(* 3. every valid encoding below 2^32 bytes is accepted, with a view of the encoded value *)
Theorem C03_complete : forall (zh : nat -> chunk), zh 0%nat = zero_chunk ->
  forall (t : ty) (v : val),
  wf_ty t = true -> small_params t = true -> sizes_ok t = true -> small_fields t = true ->
  has_type v t = true -> lenN (spec_ser t v) < 2 ^ 32 ->
  exists n, view_deserialize zh t (spec_ser t v) = OK n /\ repr zh t n v.
Proof. exact deser_complete. Qed.
Print Assumptions C03_complete.

(* 4. corollary: whatever is not the encoding of a value of the type is rejected with an error *)
Theorem C03_rejects_noncanonical : forall (zh : nat -> chunk), zh 0%nat = zero_chunk ->
  forall (t : ty) (bs : list byte),
  wf_ty t = true -> small_params t = true -> sizes_ok t = true -> small_fields t = true ->
  lenN bs < 2 ^ 32 -> leaf_ok t (lenN bs) ->
  (forall v, has_type v t = true -> bs <> spec_ser t v) ->
  view_deserialize zh t bs = Err.
Proof. exact deser_rejects. Qed.
Print Assumptions C03_rejects_noncanonical.

(* 5. the reader discipline: through ANY reader (nested SubScopes, index anywhere in the
   scope) an accepting decoder consumes exactly its scope — the stream advances by the scope
   and every limit counter of the chain goes down by it — and the result is that of decoding
   the next [scope] bytes on their own; conversely, if those bytes are available and decode on
   their own, the decoder accepts *)
Theorem C03_reader_local : forall (zh : nat -> chunk) (t : ty) (st : rstate) (d : dreader)
    (n : node) (st' : rstate),
  wf_ty t = true -> small_params t = true -> sizes_ok t = true ->
  rinv st d -> leaf_ok t (dr_scope d) ->
  view_deser zh t st d = OK (n, st') ->
  dr_scope d <= avail st (d_chain d) /\ adv st (d_chain d) (dr_scope d) st' /\
  view_deserialize zh t (firstn (nat_of (dr_scope d)) (r_stream st)) = OK n.
Proof. exact deser_local. Qed.
Print Assumptions C03_reader_local.

Theorem C03_reader_local_conv : forall (zh : nat -> chunk) (t : ty) (st : rstate) (d : dreader)
    (n : node),
  wf_ty t = true -> small_params t = true -> sizes_ok t = true ->
  rinv st d -> leaf_ok t (dr_scope d) -> dr_scope d <= avail st (d_chain d) ->
  view_deserialize zh t (firstn (nat_of (dr_scope d)) (r_stream st)) = OK n ->
  exists st', view_deser zh t st d = OK (n, st').
Proof. exact deser_local_conv. Qed.
Print Assumptions C03_reader_local_conv.
