(* C15 — for every type, the fixed-size flag, fixed byte length and minimum / maximum byte lengths
   computed by the type constructors ([View.info]: the model of ComplexTypeBase as filled in by
   the Go constructors, with explicit uint64 wrap-around) equal those the SSZ spec implies
   ([Spec.spec_is_fixed], [spec_fixed_len], [spec_min_len], [spec_max_len]); the encoding
   ([Spec.spec_ser]) of every valid value lies within the bounds, the bounds are attained, and hence
   no valid encoding is rejected for its size.  Restricted to types whose maximum encoded size is
   below 2^64 (and, for the equality of the numbers, whose length / limit parameters are at most
   2^56: [Repr.small_params]; see SizeProofs.cex_small_params_needed).

   [lenN l] is the length of a list as an [N]; [min_val t] / [max_val t] (SizeProofs.v, section 8)
   are a value of type [t] with a shortest / longest encoding (empty resp. full lists, the union
   option with the smallest minimum resp. largest maximum). *)
From Ztyp Require Import Base Types Spec View Repr SizeProofs.
Open Scope N_scope.

(* 1. the fixed-size flag (all types, no restriction) *)
Theorem C15_fixed_flag : forall t, ti_fixed (info t) = spec_is_fixed t.
Proof. exact info_fixed_flag. Qed.
Print Assumptions C15_fixed_flag.

(* 2. minimum, maximum and fixed byte length *)
Theorem C15_sizes : forall t,
  wf_ty t = true -> small_params t = true -> spec_max_len t < 2 ^ 64 ->
  ti_min (info t) = spec_min_len t /\
  ti_max (info t) = spec_max_len t /\
  ti_size (info t) = spec_fixed_len t.
Proof. exact info_sizes. Qed.
Print Assumptions C15_sizes.

(* the same without well-formedness (it is not needed) *)
Theorem C15_sizes_nowf : forall t,
  small_params t = true -> spec_max_len t < 2 ^ 64 ->
  ti_min (info t) = spec_min_len t /\
  ti_max (info t) = spec_max_len t /\
  ti_size (info t) = spec_fixed_len t.
Proof. exact info_sizes_nowf. Qed.
Print Assumptions C15_sizes_nowf.

(* 3. the spec bounds are sound for the spec encoding (unbounded N) *)
Theorem C15_sound : forall t v, wf_ty t = true -> has_type v t = true ->
  spec_min_len t <= lenN (spec_ser t v) <= spec_max_len t.
Proof. exact spec_ser_sound. Qed.
Print Assumptions C15_sound.

Theorem C15_fixed_len : forall t v,
  spec_is_fixed t = true -> has_type v t = true -> wf_ty t = true ->
  lenN (spec_ser t v) = spec_fixed_len t.
Proof. exact spec_ser_fixed_len_wf. Qed.
Print Assumptions C15_fixed_len.

(* 4. both bounds are attained *)
Theorem C15_tight_min : forall t, wf_ty t = true ->
  has_type (min_val t) t = true /\ lenN (spec_ser t (min_val t)) = spec_min_len t.
Proof. exact spec_tight_min. Qed.
Print Assumptions C15_tight_min.

Theorem C15_tight_max : forall t, wf_ty t = true ->
  has_type (max_val t) t = true /\ lenN (spec_ser t (max_val t)) = spec_max_len t.
Proof. exact spec_tight_max. Qed.
Print Assumptions C15_tight_max.

Theorem C15_tight : forall t, wf_ty t = true ->
  (has_type (min_val t) t = true /\ lenN (spec_ser t (min_val t)) = spec_min_len t) /\
  (has_type (max_val t) t = true /\ lenN (spec_ser t (max_val t)) = spec_max_len t).
Proof. exact (fun t Hwf => conj (spec_tight_min t Hwf) (spec_tight_max t Hwf)). Qed.
Print Assumptions C15_tight.

(* 5. the numbers reported by the code bound every valid encoding, are attained, and the reported
      fixed length is the length of every encoding of a fixed-size type *)
Theorem C15_code_bounds : forall t v,
  wf_ty t = true -> small_params t = true -> spec_max_len t < 2 ^ 64 -> has_type v t = true ->
  ti_min (info t) <= lenN (spec_ser t v) <= ti_max (info t).
Proof. exact code_bounds. Qed.
Print Assumptions C15_code_bounds.

Theorem C15_code_fixed_len : forall t v,
  small_params t = true -> spec_max_len t < 2 ^ 64 ->
  ti_fixed (info t) = true -> has_type v t = true ->
  lenN (spec_ser t v) = ti_size (info t).
Proof. exact code_fixed_len. Qed.
Print Assumptions C15_code_fixed_len.

Theorem C15_code_bounds_tight : forall t,
  wf_ty t = true -> small_params t = true -> spec_max_len t < 2 ^ 64 ->
  (has_type (min_val t) t = true /\ lenN (spec_ser t (min_val t)) = ti_min (info t)) /\
  (has_type (max_val t) t = true /\ lenN (spec_ser t (max_val t)) = ti_max (info t)).
Proof. exact code_bounds_tight. Qed.
Print Assumptions C15_code_bounds_tight.
