(* C05 — "Backing trees are persistent: once a backing node has been obtained, no later operation
   changes the content or Merkle root of that node, including the process-wide zero nodes.
   A copy of a view is detached."

   Model: Heap.v (an append-only heap of cells = Go's *Root / *PairNode with node identity and
   the memoised PairNode.Value) and the heap instance [hm_step] of the view machine of Mut.v;
   [h_merkle] is PairNode.MerkleRoot.  A node is an address; its content is [habs h a n]
   (the pure tree n that cell a stands for), its Merkle root [root_of H n].
   [H] is an arbitrary pair hash, [zh] the zero-hash table; no hypothesis on either is needed.

   Vocabulary (TreeProofs.v / top of HeapProofs.v; unfolded in the C05_defs_* theorems):
     heap_ext h h'       every cell of h is in h', bit-identical; hp_next grows
     heap_ext_memo h h'  the same up to cell_memo_le: an unset memo may have been filled in
     heap_same_dom h h'  same hp_next, no new cells
     hm_inv zh st        heap_wf, zeros_ok, trueRoot allocated, handle backings allocated
     hev / hm_event / hm_run   histories: machine steps [EStep o] and hash-tree-root requests
                         [EHash k] on the backing of handle k, replayed by fold_left
     on_chain hs j k     k is j or a (transitive) hook parent of j
     hooks_wf hs         hooks point to older handles
     run_outside st k evs / run_inside st k evs   no step / every step of the history targets a
                         handle whose hook chain contains k (i.e. k or a sub-view obtained from k) *)
From Ztyp Require Import Base Bitlen Tree Types View Mut Heap TreeProofs HeapProofs.
Open Scope N_scope.

(* ---------------- vocabulary, unfolded ---------------- *)
Theorem C05_defs_heap : forall h h' c c',
  (heap_ext h h' <->
     (forall a c, h_cell h a = Some c -> h_cell h' a = Some c) /\ (hp_next h <= hp_next h')%positive) /\
  (cell_memo_le c c' <->
     c' = c \/ exists m l r, c = CPair zero_chunk l r /\ c' = CPair m l r) /\
  (heap_ext_memo h h' <->
     (forall a c, h_cell h a = Some c -> exists c', h_cell h' a = Some c' /\ cell_memo_le c c') /\
     (hp_next h <= hp_next h')%positive) /\
  (heap_same_dom h h' <->
     hp_next h' = hp_next h /\ forall a, h_cell h a = None -> h_cell h' a = None).
Proof. exact (fun h h' c c' => conj (iff_refl _) (conj (iff_refl _) (conj (iff_refl _) (iff_refl _)))). Qed.
Print Assumptions C05_defs_heap.

Theorem C05_defs_inv : forall zh st,
  hm_inv zh st <->
  heap_wf (m_store _ _ st) /\ zeros_ok zh (m_store _ _ st) /\
  (true_addr < hp_next (m_store _ _ st))%positive /\
  forall k x, nth_error (m_handles _ _ st) k = Some x ->
              (h_back _ x < hp_next (m_store _ _ st))%positive.
Proof. exact (fun zh st => iff_refl _). Qed.
Print Assumptions C05_defs_inv.

Theorem C05_defs_run : forall H zh st e evs,
  hm_event H zh st e =
    match e with
    | EStep o => fst (hm_step zh st o)
    | EHash k => match hm_hash H st k with OK (_, st', _) => st' | _ => st end
    end /\
  hm_hash H st =
    (fun k => match nth_error (m_handles _ _ st) k with
     | Some x =>
       match h_merkle H (Pos.to_nat (h_back _ x)) (m_store _ _ st) (h_back _ x) with
       | OK (r, h', c) => OK (r, mkM _ _ h' (m_handles _ _ st), c)
       | Err => Err
       | Panic => Panic
       end
     | None => Err
     end) /\
  hm_run H zh st evs = fold_left (hm_event H zh) evs st.
Proof. exact (fun H zh st e evs => conj eq_refl (conj eq_refl eq_refl)). Qed.
Print Assumptions C05_defs_run.

(* the invariant holds for every state built from a freshly allocated tree, and is kept *)
Theorem C05_inv_init : forall H zh t n,
  let st := (let '(a, h) := hm_alloc (heap_init zh) n in mkM addr heap h [mkH addr t a None]) in
  hm_inv zh st /\ memo_ok H (m_store _ _ st) /\ memo_closed (m_store _ _ st) /\
  hooks_wf (m_handles _ _ st).
Proof. exact hm_state_of_node. Qed.
Print Assumptions C05_inv_init.

Theorem C05_inv_step : forall zh st o, hm_inv zh st -> hm_inv zh (fst (hm_step zh st o)).
Proof. exact (fun zh st o Hi => proj1 (hm_step_inv' zh st o Hi)). Qed.
Print Assumptions C05_inv_step.

(* ---------------- 1. no operation writes an existing cell ---------------- *)
(* any machine step (any op, ok or failing): every old cell is bit-identical afterwards, and
   every cell the step added is a leaf or a pair with an unset memo *)
Theorem C05_step_persistent : forall zh st o,
  hm_inv zh st ->
  heap_ext (m_store _ _ st) (m_store _ _ (fst (hm_step zh st o))) /\
  (forall a m l r, h_cell (m_store _ _ st) a = None ->
     h_cell (m_store _ _ (fst (hm_step zh st o))) a = Some (CPair m l r) -> m = zero_chunk).
Proof. exact (fun zh st o Hi => proj2 (hm_step_inv' zh st o Hi)). Qed.
Print Assumptions C05_step_persistent.

(* MerkleRoot: never a Panic with fuel >= the address; allocates nothing; the only write is a
   memo going from unset to set; the content of EVERY node is unchanged *)
Theorem C05_merkle_persistent : forall H fuel h a,
  heap_wf h -> (a < hp_next h)%positive -> (Pos.to_nat a <= fuel)%nat ->
  exists r h' c, h_merkle H fuel h a = OK (r, h', c) /\
    heap_ext_memo h h' /\ heap_same_dom h h' /\ heap_wf h' /\
    (forall b n, habs h' b n <-> habs h b n) /\
    (forall b, (a < b)%positive -> h_cell h' b = h_cell h b).
Proof.
  exact (fun H fuel h a Hwf Ha Hf =>
    match h_merkle_total H fuel h a Hwf Ha Hf with
    | ex_intro _ r (ex_intro _ h' (ex_intro _ c E)) =>
      ex_intro _ r (ex_intro _ h' (ex_intro _ c
        (conj E (h_merkle_heap H fuel h a r h' c Hwf Ha Hf E))))
    end).
Qed.
Print Assumptions C05_merkle_persistent.

(* ---------------- 2. arbitrary histories of steps and hash requests ---------------- *)
Theorem C05_run_cells : forall H zh st evs,
  hm_inv zh st ->
  hm_inv zh (hm_run H zh st evs) /\
  heap_ext_memo (m_store _ _ st) (m_store _ _ (hm_run H zh st evs)).
Proof.
  exact (fun H zh st evs Hi =>
    conj (proj1 (hm_run_inv H zh evs st Hi)) (proj1 (proj2 (hm_run_inv H zh evs st Hi)))).
Qed.
Print Assumptions C05_run_cells.

(* content (hence Merkle root) of every node that existed before the history is the same after *)
Theorem C05_abs_stable : forall H zh st evs a n,
  hm_inv zh st -> (a < hp_next (m_store _ _ st))%positive ->
  (habs (m_store _ _ (hm_run H zh st evs)) a n <-> habs (m_store _ _ st) a n).
Proof. exact hm_run_abs_stable. Qed.
Print Assumptions C05_abs_stable.

Theorem C05_root_stable : forall H zh st evs a n n',
  hm_inv zh st -> habs (m_store _ _ st) a n -> habs (m_store _ _ (hm_run H zh st evs)) a n' ->
  n' = n /\ root_of H n' = root_of H n.
Proof.
  exact (fun H zh st evs a n n' Hi Hn Hn' =>
    let E := habs_fun _ _ _ Hn' _
               (proj2 (hm_run_abs_stable H zh st evs a n Hi (habs_lt _ _ _ (proj1 Hi) Hn)) Hn) in
    conj E (f_equal (root_of H) E)).
Qed.
Print Assumptions C05_root_stable.

(* the 65 process-wide zero leaves and trueRoot *)
Theorem C05_zero_nodes : forall H zh st evs,
  hm_inv zh st ->
  (forall d, (d <= 64)%nat ->
     h_cell (m_store _ _ (hm_run H zh st evs)) (zero_addr d) = Some (CLeaf (zh d))) /\
  (forall c, h_cell (m_store _ _ st) true_addr = Some (CLeaf c) ->
     h_cell (m_store _ _ (hm_run H zh st evs)) true_addr = Some (CLeaf c)).
Proof. exact hm_run_zeros. Qed.
Print Assumptions C05_zero_nodes.

(* ---------------- 3. a copy is detached ---------------- *)
(* which handles can a step rebind: only those on the hook chain of its target; the handle
   list only grows, types and hooks never change, hooks stay well-founded *)
Theorem C05_step_local : forall zh st o,
  handles_le (m_handles _ _ st) (m_handles _ _ (fst (hm_step zh st o))) /\
  (hooks_wf (m_handles _ _ st) -> hooks_wf (m_handles _ _ (fst (hm_step zh st o)))) /\
  (forall k x, nth_error (m_handles _ _ st) k = Some x ->
     ~ on_chain (m_handles _ _ st) (op_target o) k ->
     nth_error (m_handles _ _ (fst (hm_step zh st o))) k = Some x).
Proof. exact hm_step_local. Qed.
Print Assumptions C05_step_local.

Theorem C05_defs_chain : forall (hs hs' : list (handle addr)),
  (hooks_wf hs <->
     forall k x p i, nth_error hs k = Some x -> h_hook _ x = Some (p, i) -> (p < k)%nat) /\
  (handles_le hs hs' <->
     (length hs <= length hs')%nat /\
     forall k x, nth_error hs k = Some x ->
       exists x', nth_error hs' k = Some x' /\ h_ty _ x' = h_ty _ x /\ h_hook _ x' = h_hook _ x) /\
  (forall j, on_chain hs j j) /\
  (forall j x p i k, nth_error hs j = Some x -> h_hook _ x = Some (p, i) -> on_chain hs p k ->
     on_chain hs j k).
Proof.
  exact (fun hs hs' => conj (iff_refl _) (conj (iff_refl _)
           (conj (chain_self hs) (chain_up hs)))).
Qed.
Print Assumptions C05_defs_chain.

(* Copy: same store, one new handle with the same type and backing ADDRESS and no hook *)
Theorem C05_copy_spec : forall zh st h st' r,
  hm_step zh st (OCopy h) = (st', r) ->
  match nth_error (m_handles _ _ st) h with
  | Some x => r = OK (MHandle (length (m_handles _ _ st))) /\
              st' = mkM _ _ (m_store _ _ st)
                        (m_handles _ _ st ++ [mkH addr (h_ty _ x) (h_back _ x) None])
  | None => r = Err /\ st' = st
  end.
Proof. exact hm_copy_spec. Qed.
Print Assumptions C05_copy_spec.

(* right after the copy: the chain of the new handle k is {k}, and k is on no other chain —
   with C05_step_local: a step on the copy rebinds only the copy, a step on any other handle
   leaves the copy alone *)
Theorem C05_copy_chain : forall (hs : list (handle addr)) c j,
  hooks_wf hs -> h_hook _ c = None ->
  (on_chain (hs ++ [c]) (length hs) j -> j = length hs) /\
  (on_chain (hs ++ [c]) j (length hs) -> j = length hs).
Proof. exact copy_chain. Qed.
Print Assumptions C05_copy_chain.

(* at any later time: the family of a hook-less handle k (k and the sub-views obtained from it)
   is closed — a step inside the family rebinds no handle outside, a step outside rebinds no
   handle inside *)
Theorem C05_detached_step : forall zh st o k x m y,
  nth_error (m_handles _ _ st) k = Some x -> h_hook _ x = None ->
  nth_error (m_handles _ _ st) m = Some y ->
  (on_chain (m_handles _ _ st) (op_target o) k -> ~ on_chain (m_handles _ _ st) m k ->
     nth_error (m_handles _ _ (fst (hm_step zh st o))) m = Some y) /\
  (~ on_chain (m_handles _ _ st) (op_target o) k -> on_chain (m_handles _ _ st) m k ->
     nth_error (m_handles _ _ (fst (hm_step zh st o))) m = Some y).
Proof.
  exact (fun zh st o k x m y Hx Hn Hy =>
    conj (fun Hin Hout => detached_step_inside zh st o k x m y Hx Hn Hin Hy Hout)
         (fun Hout Hin => detached_step_outside zh st o k m y Hout Hy Hin)).
Qed.
Print Assumptions C05_detached_step.

Theorem C05_defs_runs : forall H zh st k e evs,
  (run_outside H zh st k (e :: evs) <->
     match e with EStep o => ~ on_chain (m_handles _ _ st) (op_target o) k | EHash _ => True end /\
     run_outside H zh (hm_event H zh st e) k evs) /\
  (run_inside H zh st k (e :: evs) <->
     match e with EStep o => on_chain (m_handles _ _ st) (op_target o) k | EHash _ => True end /\
     run_inside H zh (hm_event H zh st e) k evs) /\
  run_outside H zh st k [] /\ run_inside H zh st k [].
Proof. exact (fun H zh st k e evs => conj (iff_refl _) (conj (iff_refl _) (conj I I))). Qed.
Print Assumptions C05_defs_runs.

(* whole histories (steps and hash requests): a history that never operates on k's family
   leaves every handle of the family (type, backing, hook) as it was; a history that operates
   only on the family of a hook-less k leaves every other existing handle as it was *)
Theorem C05_copy_detached : forall H zh st evs k x m y,
  nth_error (m_handles _ _ st) k = Some x -> nth_error (m_handles _ _ st) m = Some y ->
  (run_outside H zh st k evs -> on_chain (m_handles _ _ st) m k ->
     nth_error (m_handles _ _ (hm_run H zh st evs)) m = Some y) /\
  (hooks_wf (m_handles _ _ st) -> h_hook _ x = None ->
   run_inside H zh st k evs -> ~ on_chain (m_handles _ _ st) m k ->
     nth_error (m_handles _ _ (hm_run H zh st evs)) m = Some y).
Proof.
  exact (fun H zh st evs k x m y Hx Hy =>
    conj (fun Hrun Hin => run_outside_stable H zh evs st k m y Hrun Hy Hin)
         (fun Hw Hn Hrun Hout => run_inside_stable H zh evs st k x m y Hw Hx Hn Hrun Hy Hout)).
Qed.
Print Assumptions C05_copy_detached.

(* ---------------- 4. the heap machine HM refines the tree machine TM ---------------- *)
(* HM = [hm_step] (this file, C06, C07, C14); TM = [tm_step], the same view machine of Mut.v over
   pure trees (C04).  [abs_rel zh hs ts] (top of RefineProofs.v, unfolded in C05_defs_refine):
   the heap of hs is well formed and holds the zero leaves and trueRoot; the handle lists have
   the same length; handle k has the same type and hook on both sides and the pure backing of
   ts is the content [habs] of the backing address of hs. *)
From Ztyp Require Import RefineProofs.

Theorem C05_defs_refine : forall zh hs ts o os e evs,
  (abs_rel zh hs ts <->
     heap_wf (m_store _ _ hs) /\ zeros_ok zh (m_store _ _ hs) /\
     h_cell (m_store _ _ hs) true_addr = Some (CLeaf true_chunk) /\
     length (m_handles _ _ hs) = length (m_handles _ _ ts) /\
     forall k x y, nth_error (m_handles _ _ hs) k = Some x -> nth_error (m_handles _ _ ts) k = Some y ->
       h_ty _ x = h_ty _ y /\ h_hook _ x = h_hook _ y /\
       habs (m_store _ _ hs) (h_back _ x) (h_back _ y)) /\
  hm_ops_run zh hs os = fold_left (fun st o => fst (hm_step zh st o)) os hs /\
  MutProofs.tm_run zh ts os = fold_left (fun st o => fst (tm_step zh st o)) os ts /\
  hm_trace zh hs [] = [] /\
  hm_trace zh hs (o :: os) = snd (hm_step zh hs o) :: hm_trace zh (fst (hm_step zh hs o)) os /\
  MutProofs.tm_trace zh ts [] = [] /\
  MutProofs.tm_trace zh ts (o :: os) =
    snd (tm_step zh ts o) :: MutProofs.tm_trace zh (fst (tm_step zh ts o)) os /\
  ev_ops [] = [] /\
  ev_ops (e :: evs) = match e with EStep o => o :: ev_ops evs | EHash _ => ev_ops evs end.
Proof.
  exact (fun zh hs ts o os e evs =>
    conj (iff_refl _) (conj eq_refl (conj eq_refl (conj eq_refl (conj eq_refl (conj eq_refl
      (conj eq_refl (conj eq_refl
        (match e as e0 return ev_ops (e0 :: evs) =
                 match e0 with EStep o => o :: ev_ops evs | EHash _ => ev_ops evs end
         with EStep _ => eq_refl | EHash _ => eq_refl end))))))))).
Qed.
Print Assumptions C05_defs_refine.

(* abs_rel contains the machine invariant hm_inv, and holds initially: allocating a pure tree
   into the initial heap gives an address whose content is that tree *)
Theorem C05_refines_inv : forall zh hs ts, abs_rel zh hs ts -> hm_inv zh hs.
Proof. exact abs_rel_hm_inv. Qed.
Print Assumptions C05_refines_inv.

Theorem C05_refines_init : forall zh t n,
  let '(a, h) := hm_alloc (heap_init zh) n in
  abs_rel zh (mkM _ _ h [mkH _ t a None]) (tm_init t n).
Proof. exact refine_init. Qed.
Print Assumptions C05_refines_init.

(* every step of HM is the same step of TM: every operation (OGet, OUValue, OCopy, OSet, OAppend,
   OPop, OChange), every source (literal, handle, none), succeeding or failing: same output —
   same new handle number, same Err / Panic classification — and related states *)
Theorem C05_heap_machine_refines_tree_machine : forall zh hs ts o,
  abs_rel zh hs ts ->
  let '(hs', rh) := hm_step zh hs o in
  let '(ts', rt) := tm_step zh ts o in
  abs_rel zh hs' ts' /\ rh = rt.
Proof. exact refine_step. Qed.
Print Assumptions C05_heap_machine_refines_tree_machine.

(* histories of operations: equal traces, related final states *)
Theorem C05_refines_history : forall zh os hs ts,
  abs_rel zh hs ts ->
  abs_rel zh (hm_ops_run zh hs os) (MutProofs.tm_run zh ts os) /\
  hm_trace zh hs os = MutProofs.tm_trace zh ts os.
Proof. exact refine_history. Qed.
Print Assumptions C05_refines_history.

(* histories with interleaved hash-tree-root requests: the requests only write memos, which the
   abstraction does not see; TM replays the operations alone *)
Theorem C05_refines_events : forall zh H evs hs ts,
  abs_rel zh hs ts ->
  abs_rel zh (hm_run H zh hs evs) (MutProofs.tm_run zh ts (ev_ops evs)).
Proof. exact refine_events. Qed.
Print Assumptions C05_refines_events.

(* the hash-tree-root observed on HM is the root of the TM backing (any fuel >= the address);
   the request keeps memo_ok and the relation *)
Theorem C05_refined_root : forall zh H hs ts k x y fuel,
  abs_rel zh hs ts -> memo_ok H (m_store _ _ hs) ->
  nth_error (m_handles _ _ hs) k = Some x -> nth_error (m_handles _ _ ts) k = Some y ->
  (Pos.to_nat (h_back _ x) <= fuel)%nat ->
  exists h' c,
    h_merkle H fuel (m_store _ _ hs) (h_back _ x) = OK (root_of H (h_back _ y), h', c) /\
    memo_ok H h' /\ abs_rel zh (mkM _ _ h' (m_handles _ _ hs)) ts.
Proof. exact refined_root. Qed.
Print Assumptions C05_refined_root.

(* hence, after ANY history of operations and hash requests from related states *)
Theorem C05_refined_history_root : forall zh H evs hs ts k x y fuel,
  abs_rel zh hs ts -> memo_ok H (m_store _ _ hs) ->
  nth_error (m_handles _ _ (hm_run H zh hs evs)) k = Some x ->
  nth_error (m_handles _ _ (MutProofs.tm_run zh ts (ev_ops evs))) k = Some y ->
  (Pos.to_nat (h_back _ x) <= fuel)%nat ->
  exists h' c,
    h_merkle H fuel (m_store _ _ (hm_run H zh hs evs)) (h_back _ x) =
      OK (root_of H (h_back _ y), h', c).
Proof. exact refined_history_root. Qed.
Print Assumptions C05_refined_history_root.
