(* C16 — the generalized-index and bit-length arithmetic of the model (Bitlen.v, the transcription of
   tree/bitlen.go and tree/gindex.go) is exact.
   [biter_nth k it] (BitlenProofs.v) is the (right, ok) result of the k-th call (k = 0: first call)
   of [biter_next] starting from iterator state [it]; [le_val] (Base.v) is the little-endian value
   of a byte string, so [le_val (rev bs)] is the big-endian value of [bs]. *)
From Ztyp Require Import Base Bitlen BitlenProofs.
Open Scope N_scope.

(* 1. BitIndex *)
Theorem C16_bit_index : forall v, 0 < v -> v < 2^64 -> bit_index v = N.log2 v.
Proof. exact bit_index_log2. Qed.
Print Assumptions C16_bit_index.

Theorem C16_bit_index_0 : bit_index 0 = 0.
Proof. exact bit_index_0. Qed.
Print Assumptions C16_bit_index_0.

(* 2. BitLength *)
Theorem C16_bit_length : forall v, v < 2^64 -> bit_length v = N.size v.
Proof. exact bit_length_size. Qed.
Print Assumptions C16_bit_length.

(* 3. CoverDepth *)
Theorem C16_cover_depth : forall v, v < 2^64 -> cover_depth v = N.log2_up v.
Proof. exact cover_depth_log2_up. Qed.
Print Assumptions C16_cover_depth.

(* every valid Gindex64 has the shape 2^d + p used below *)
Theorem C16_gindex_decomp : forall v, 0 < v -> v < 2^64 ->
  exists d p, d < 64 /\ p < 2^d /\ v = 2^d + p.
Proof. exact gindex_decomp. Qed.
Print Assumptions C16_gindex_decomp.

(* 4. Depth, Anchor *)
Theorem C16_g_depth : forall d p, d < 64 -> p < 2^d -> g_depth (2^d + p) = d.
Proof. exact g_depth_spec. Qed.
Print Assumptions C16_g_depth.

Theorem C16_g_anchor : forall d p, d < 64 -> p < 2^d -> g_anchor (2^d + p) = 2^d.
Proof. exact g_anchor_spec. Qed.
Print Assumptions C16_g_anchor.

(* 5. Left, Right, Parent *)
Theorem C16_g_left : forall d p, d < 64 -> p < 2^d -> d < 63 ->
  g_left (2^d + p) = 2^(d+1) + 2*p.
Proof. exact g_left_spec. Qed.
Print Assumptions C16_g_left.

Theorem C16_g_right : forall d p, d < 64 -> p < 2^d -> d < 63 ->
  g_right (2^d + p) = 2^(d+1) + 2*p + 1.
Proof. exact g_right_spec. Qed.
Print Assumptions C16_g_right.

(* at depth 63 the uint64 shift drops the anchor bit (why d < 63 is required above) *)
Theorem C16_g_left_overflow : forall p, p < 2^63 -> g_left (2^63 + p) = 2*p.
Proof. exact g_left_overflow. Qed.
Print Assumptions C16_g_left_overflow.

Theorem C16_g_parent : forall v, g_parent v = v / 2.
Proof. exact g_parent_spec. Qed.
Print Assumptions C16_g_parent.

Theorem C16_g_parent_anchor : forall d p, d < 64 -> p < 2^d -> 0 < d ->
  g_parent (2^d + p) = 2^(d-1) + p / 2.
Proof. exact g_parent_anchor. Qed.
Print Assumptions C16_g_parent_anchor.

(* 6. IsLeft, Subtree *)
Theorem C16_g_is_left : forall d p, d < 64 -> p < 2^d -> 0 < d ->
  g_is_left (2^d + p) = (p <? 2^(d-1)).
Proof. exact g_is_left_spec. Qed.
Print Assumptions C16_g_is_left.

Theorem C16_g_subtree : forall d p, d < 64 -> p < 2^d -> 0 < d ->
  g_subtree (2^d + p) = 2^(d-1) + p mod 2^(d-1).
Proof. exact g_subtree_spec. Qed.
Print Assumptions C16_g_subtree.

(* 7. IsRoot, IsClose *)
Theorem C16_g_is_root : forall v, g_is_root v = true <-> v = 1.
Proof. exact g_is_root_spec. Qed.
Print Assumptions C16_g_is_root.

Theorem C16_g_is_close : forall v, g_is_close v = true <-> v <= 3.
Proof. exact g_is_close_spec. Qed.
Print Assumptions C16_g_is_close.

(* 8. the path: the d bits of p, most significant first; and the iterator call by call *)
Theorem C16_g_path : forall d p, d < 64 -> p < 2^d ->
  g_path (2^d + p) = map (fun i => N.testbit p (d - 1 - N.of_nat i)) (seq 0 (N.to_nat d)).
Proof. exact g_path_spec. Qed.
Print Assumptions C16_g_path.

Theorem C16_g_bit_iter_depth : forall d p, d < 64 -> p < 2^d ->
  snd (g_bit_iter (2^d + p)) = d.
Proof. exact g_bit_iter_depth. Qed.
Print Assumptions C16_g_bit_iter_depth.

Theorem C16_g_bit_iter : forall d p (k : nat), d < 64 -> p < 2^d ->
  (N.of_nat k < d ->
     biter_nth k (fst (g_bit_iter (2^d + p))) = (N.testbit p (d - 1 - N.of_nat k), true)) /\
  (d <= N.of_nat k ->
     snd (biter_nth k (fst (g_bit_iter (2^d + p)))) = false).
Proof. exact g_bit_iter_nth. Qed.
Print Assumptions C16_g_bit_iter.

(* 9. ToGindex64 *)
Theorem C16_to_gindex64 : forall i d,
  to_gindex64 i d = if (d <? 64) && (i <? 2^d) then OK (2^d + i) else Err.
Proof. exact to_gindex64_spec. Qed.
Print Assumptions C16_to_gindex64.

(* 10. byte encodings *)
Theorem C16_g_little_endian : forall v, 0 < v -> v < 2^64 ->
  exists bs, g_little_endian v = Some bs /\
    le_val bs = v /\ N.of_nat (length bs) = (N.size v + 7) / 8 /\ last bs b0 <> b0.
Proof. exact g_little_endian_spec. Qed.
Print Assumptions C16_g_little_endian.

Theorem C16_g_big_endian : forall v, 0 < v -> v < 2^64 ->
  exists bs, g_big_endian v = Some bs /\
    le_val (rev bs) = v /\ N.of_nat (length (rev bs)) = (N.size v + 7) / 8 /\
    last (rev bs) b0 <> b0.
Proof. exact g_big_endian_spec. Qed.
Print Assumptions C16_g_big_endian.

Theorem C16_g_big_endian_rev : forall v, v < 2^64 ->
  g_big_endian v = option_map (@rev byte) (g_little_endian v).
Proof. exact g_big_endian_rev. Qed.
Print Assumptions C16_g_big_endian_rev.

Theorem C16_g_little_endian_0 : g_little_endian 0 = None.
Proof. exact g_little_endian_0. Qed.
Print Assumptions C16_g_little_endian_0.

Theorem C16_g_big_endian_0 : g_big_endian 0 = None.
Proof. exact g_big_endian_0. Qed.
Print Assumptions C16_g_big_endian_0.

Theorem C16_g_left_aligned : forall v, 0 < v -> v < 2^64 ->
  exists bs, g_left_aligned v = (Some bs, N.size v) /\
    N.of_nat (length bs) = (N.size v + 7) / 8 /\
    le_val (rev (pad_to 8 bs)) = v * 2^(64 - N.size v).
Proof. exact g_left_aligned_spec. Qed.
Print Assumptions C16_g_left_aligned.

Theorem C16_g_left_aligned_0 : g_left_aligned 0 = (None, 0).
Proof. exact g_left_aligned_0. Qed.
Print Assumptions C16_g_left_aligned_0.
