(* C13 — for every way the underlying io.Reader may legally deliver its bytes (any chunk
   sizes, final data returned together with io.EOF) decoding reads the same bytes and produces
   the same result; if the stream ends or fails at any byte before the request / declared
   scope is satisfied, the read returns an error and never a value.  Encoding to a writer that
   fails at any byte returns an error, the bytes accepted before the failure are a prefix of
   the correct encoding, and the written-byte counter equals what the writer accepted.

   Model: IO.v ([ureader], [u_read], [lr_read] = io.LimitReader, [dr_fill] = the loop of
   DecodingReader.Read, [dr_read_io] = checkedIndexUpdate + loop, [run_reads] = the sequence of
   reads a decoder performs, [ew_write]/[ew_write_all] = EncodingWriter.Write).
   Spec vocabulary (IOProofs.v, top): [lenN l] = length as N; [delivered u] = number of bytes
   the reader hands out before it ends or fails (all its data, or the first f bytes if it
   fails after f bytes); [sumN] = sum of a list; [read_ok data lim i mx k] = the success
   condition of a k-byte read as a function of the bytes only:
     k = 0  or  (no uint64 overflow of i + k, i + k <= mx, k <= lim, k <= lenN data). *)
From Ztyp Require Import Base Reader IO BitfieldsProofs IOProofs.
Open Scope N_scope.

(* a. the fill loop over a reader that does not fail, with any chunk schedule and either
      EOF behaviour, returns exactly the next k bytes; the fuel S k always suffices *)
Theorem C13_fill_spec : forall u lim k,
  u_fail_after u = None -> k <= lenN (u_data u) -> k <= lim ->
  exists u',
    dr_fill (S (nat_of k)) u lim k [] = (firstn (nat_of k) (u_data u), RNone, u', lim - k) /\
    u_data u' = skipn (nat_of k) (u_data u) /\
    u_eof_with_data u' = u_eof_with_data u /\
    u_fail_after u' = None /\
    exists n, u_chunks u' = skipn n (u_chunks u).
Proof. exact fill_spec. Qed.
Print Assumptions C13_fill_spec.

(* b. one read: the result is a function of the bytes held, not of their delivery *)
Theorem C13_read_value : forall u lim i mx k,
  u_fail_after u = None ->
  (read_ok (u_data u) lim i mx k = true ->
     exists u', dr_read_io u lim i mx k = OK (firstn (nat_of k) (u_data u), u', lim - k, i + k)
                /\ u_data u' = skipn (nat_of k) (u_data u) /\ u_fail_after u' = None) /\
  (read_ok (u_data u) lim i mx k = false -> dr_read_io u lim i mx k = Err).
Proof. exact read_value. Qed.
Print Assumptions C13_read_value.

(* every legal delivery of the same bytes gives the same sequence of read results,
   including the error cases (data, limit or scope exhausted) *)
Theorem C13_schedule_indep : forall u lim i mx reqs,
  u_fail_after u = None ->
  run_reads u lim i mx reqs = run_reads (one_shot (u_data u)) lim i mx reqs.
Proof. exact schedule_indep. Qed.
Print Assumptions C13_schedule_indep.

(* the one-shot reader agrees with the in-memory reader of Reader.v (one limit counter) *)
Theorem C13_reader_agrees : forall data lim i mx k,
  dr_read_io (one_shot data) lim i mx k =
  match dr_read (mkRS data [lim]) (mkDR i mx [0%nat]) k with
  | OK (bs, st', d') => OK (bs, one_shot (r_stream st'), lim_get st' 0, d_i d')
  | Err => Err
  | Panic => Panic
  end.
Proof. exact read_ok_reader. Qed.
Print Assumptions C13_reader_agrees.

(* c. a stream that ends or fails before k bytes: an error, never a value *)
Theorem C13_short_stream : forall u lim i mx k,
  0 < k ->
  (u_fail_after u = None /\ lenN (u_data u) < k) \/
  (exists f, u_fail_after u = Some f /\ f < k) ->
  dr_read_io u lim i mx k = Err.
Proof. exact short_stream. Qed.
Print Assumptions C13_short_stream.

Theorem C13_short_total : forall u lim i mx reqs,
  delivered u < sumN reqs -> run_reads u lim i mx reqs = Err.
Proof. exact short_total. Qed.
Print Assumptions C13_short_total.

(* conversely, for ANY reader (failing or not): a read that returns a value returns exactly
   the next k bytes of the stream, and a successful sequence of reads has consumed exactly
   the requested bytes, within what was delivered and within the limit *)
Theorem C13_value_is_prefix : forall u lim i mx k bs u' lim' i',
  dr_read_io u lim i mx k = OK (bs, u', lim', i') ->
  bs = firstn (nat_of k) (u_data u) /\ u_data u' = skipn (nat_of k) (u_data u) /\
  k <= delivered u /\ k <= lim /\ lim' = lim - k /\ i' = i + k.
Proof. exact value_is_prefix. Qed.
Print Assumptions C13_value_is_prefix.

Theorem C13_reads_total : forall reqs u lim i mx out,
  run_reads u lim i mx reqs = OK out ->
  sumN reqs <= delivered u /\ sumN reqs <= lim /\
  concat out = firstn (nat_of (sumN reqs)) (u_data u) /\
  map (fun bs => lenN bs) out = reqs.
Proof. exact run_reads_OK_total. Qed.
Print Assumptions C13_reads_total.

(* d. the writer *)
Theorem C13_writer_prefix : forall b chunks w ok,
  ew_write_all (mkW (Some b) [] 0) chunks = (w, ok) ->
  w_accepted w = firstn (nat_of b) (concat chunks) /\
  w_n w = N.min b (lenN (concat chunks)) /\
  (ok = true <-> lenN (concat chunks) <= b).
Proof. exact writer_prefix. Qed.
Print Assumptions C13_writer_prefix.

Theorem C13_writer_counter : forall b chunks w ok,
  ew_write_all (mkW (Some b) [] 0) chunks = (w, ok) -> w_n w = lenN (w_accepted w).
Proof. exact writer_counter. Qed.
Print Assumptions C13_writer_counter.

Theorem C13_writer_nofail : forall chunks,
  ew_write_all (mkW None [] 0) chunks = (mkW None (concat chunks) (lenN (concat chunks)), true).
Proof. exact writer_nofail. Qed.
Print Assumptions C13_writer_nofail.

(* ---- DecodingReader.Skip consumes exactly like a read of the same size ---- *)
From Ztyp Require Import Reader Extras ExtrasProofs.

Theorem C13_skip_is_read :
  forall st d k st' d', 0 < k ->
  (dr_skip st d k = OK (st', d') <-> exists bs, dr_read st d k = OK (bs, st', d')).
Proof. exact dr_skip_read. Qed.
Print Assumptions C13_skip_is_read.

Theorem C13_skip_short : forall st d k, 0 < k -> (dr_skip st d k = Err <-> dr_read st d k = Err).
Proof. exact dr_skip_err_iff. Qed.
Print Assumptions C13_skip_short.

(* ---- a writer that reports its failure in the call that reaches its budget, even when that
        call's slice was accepted completely ([ew_write_all_eager], Extras.v; empty slices are
        not passed to the writer): still a prefix, the counter still exact; the encoder
        succeeds iff the encoding is strictly shorter than the budget (or empty) ---- *)
Theorem C13_writer_prefix_eager : forall b chunks w ok,
  ew_write_all_eager (mkW (Some b) [] 0) chunks = (w, ok) ->
  w_accepted w = firstn (nat_of b) (concat chunks) /\
  w_n w = N.min b (lenN (concat chunks)) /\
  (ok = true <-> (lenN (concat chunks) < b \/ lenN (concat chunks) = 0)).
Proof. exact writer_prefix_eager. Qed.
Print Assumptions C13_writer_prefix_eager.

(* ---- at decoder level: a stream that stops before the declared scope never yields a value.
   [view_deserialize_scoped t delivered scope] is the view decoder run with scope [scope] on a
   stream that only delivers [delivered] (whether it then ends or fails makes no difference to
   the reader model: the read that needs the missing bytes fails). ---- *)
From Ztyp Require Import Types View Repr DecodeProofs RouteProofs.

Theorem C13_short_stream_decode :
  forall (zh : nat -> chunk) t delivered scope,
    wf_ty t = true -> small_params t = true -> sizes_ok t = true ->
    scope < 2 ^ 32 -> leaf_ok t scope ->
    lenN delivered < scope ->
    view_deserialize_scoped zh t delivered scope = Err.
Proof. exact short_stream_decode. Qed.
Print Assumptions C13_short_stream_decode.

(* the same for the flat decoders assembled from the codec helpers (Codec.flat_dec):
   [flat_decode_scoped t c delivered scope] = value.Deserialize(NewDecodingReader(stream, scope))
   on a stream that only delivers [delivered]; a fixed-size top-level value is handed exactly its
   size as scope (its decoder is a plain fixed-size read, as in C03 / C10). *)
From Ztyp Require Import Spec Codec Extras FlatStreamProofs.

Theorem C13_short_stream_flat :
  forall t c delivered scope,
    wf_ty t = true -> small_params t = true -> scope < 2 ^ 63 ->
    (spec_is_fixed t = true -> scope = spec_fixed_len t) ->
    lenN delivered < scope ->
    flat_decode_scoped t c delivered scope = Err.
Proof. exact flat_short_stream. Qed.
Print Assumptions C13_short_stream_flat.

(* ======================= a writer that makes short writes ======================= *)
(* ---- d'. the writer, when the underlying io.Writer makes SHORT writes: EncodingWriter.Write is
   the loop   for n < len(p) { d, err := w.Write(p[n:]); ew.n += d; if err != nil { return err };
   n += d }.   Model (Extras.v): [cw_write_all (mkCW budget k accepted n) chunks] — the
   underlying writer takes at most k >= 1 bytes per call with a nil error, and fails once its
   budget ([Some b]; [None] = never fails) is used up, accepting the part that still fits;
   [cw_accepted] = what the underlying writer took, [cw_n] = the EncodingWriter's own counter.
   Whatever the chunk size: the bytes accepted are a prefix of the encoding, the counter equals
   what the writer accepted (also when the failure happens in the middle of the retries of one
   slice), an error is returned exactly when the writer failed, and the outcome is the same as
   with the one-call-per-slice writer [ew_write_all] of IO.v.
   (k = 0, a writer returning (0, nil) for ever, is excluded: Go's loop would spin, the model
   runs out of fuel — ChunkWriterProofs.cw_chunk0_out_of_fuel.) ---- *)
From Ztyp Require Import Base Spec IO Extras ChunkWriterProofs.
Open Scope N_scope.

Theorem C13_chunked_writer_prefix : forall b k chunks w ok,
  1 <= k ->
  cw_write_all (mkCW (Some b) k [] 0) chunks = (w, ok) ->
  cw_accepted w = firstn (nat_of b) (concat chunks) /\
  cw_n w = N.min b (lenN (concat chunks)) /\
  (ok = true <-> lenN (concat chunks) <= b).
Proof. exact chunked_writer_prefix. Qed.
Print Assumptions C13_chunked_writer_prefix.

(* any budget ([Some b] or [None]) *)
Theorem C13_chunked_writer_counter : forall bud k chunks w ok,
  1 <= k ->
  cw_write_all (mkCW bud k [] 0) chunks = (w, ok) -> cw_n w = lenN (cw_accepted w).
Proof. exact chunked_writer_counter. Qed.
Print Assumptions C13_chunked_writer_counter.

Theorem C13_chunked_writer_nofail : forall k chunks,
  1 <= k ->
  cw_write_all (mkCW None k [] 0) chunks =
  (mkCW None k (concat chunks) (lenN (concat chunks)), true).
Proof. exact chunked_writer_nofail_eq. Qed.
Print Assumptions C13_chunked_writer_nofail.

(* the chunk size does not matter: same accepted bytes, counter, remaining budget and result
   as the writer of IO.v that takes each slice in one call *)
Theorem C13_chunked_equals_unchunked : forall bud k chunks cw cok w ok,
  1 <= k ->
  cw_write_all (mkCW bud k [] 0) chunks = (cw, cok) ->
  ew_write_all (mkW bud [] 0) chunks = (w, ok) ->
  w_accepted w = cw_accepted cw /\ w_n w = cw_n cw /\ w_budget w = cw_budget cw /\ ok = cok.
Proof. exact chunked_equals_unchunked. Qed.
Print Assumptions C13_chunked_equals_unchunked.

(* ======================= reads through nested sub-scopes (chains of LimitedReaders) ======================= *)
(* ======================= a CHAIN of nested io.LimitReaders ======================= *)
(* C13_reader_agrees above ties the byte-level model to Reader.v for ONE limit counter.  In Go,
   SubScope(count) wraps the parent's input in another io.LimitReader(count), so a read through
   a sub-scope goes through a chain of nested LimitedReaders.  Model (IOChain.v), each
   definition being IO.v's with the counter replaced by the list of counters, innermost first:
   [lrs_read u lims req] = LimitedReader.Read through the chain (the empty chain is [u_read]),
   [dr_fill_chain] = the loop of DecodingReader.Read over it, [dr_read_io_chain u lims i mx k]
   = checkedIndexUpdate + loop.
   Spec vocabulary (IOChainProofs.v, top): [chain_read_ok data lims i mx k] = the success
   condition of a k-byte read as a function of the bytes only:
       (k =? 0) || (negb (two64 - 1 - i <? k) && negb (mx <? i + k)
                    && forallb (fun l => k <=? l) lims && (k <=? lenN data))
   spelled out in Prop by C13_chain_read_ok_iff; [delivered], [lenN] as above. *)
From Ztyp Require Import Base Reader IO IOChain BitfieldsProofs IOProofs IOChainProofs.
Open Scope N_scope.

(* a'. a one-element chain is exactly IO.v's single LimitReader / dr_read_io *)
Theorem C13_chain_one_is_lr : forall u l i mx k req,
  lrs_read u [l] req = (let '(bs, e, u', l') := lr_read u l req in (bs, e, u', [l'])) /\
  dr_read_io_chain u [l] i mx k =
    match dr_read_io u l i mx k with
    | OK (bs, u', l', i') => OK (bs, u', [l'], i')
    | Err => Err
    | Panic => Panic
    end.
Proof. exact chain_one_is_lr. Qed.
Print Assumptions C13_chain_one_is_lr.

Theorem C13_chain_read_ok_iff : forall data lims i mx k,
  chain_read_ok data lims i mx k = true <->
  k = 0 \/ ((two64 - 1 - i <? k) = false /\ i + k <= mx /\
            Forall (fun l => k <= l) lims /\ k <= lenN data).
Proof. exact chain_read_ok_iff. Qed.
Print Assumptions C13_chain_read_ok_iff.

(* b'. one read through a chain of any depth over a reader that does not fail, with any chunk
   schedule and either EOF behaviour: the result is a function of the bytes held and of the
   counters, not of the delivery — it succeeds iff chain_read_ok, and then returns exactly the
   next k bytes, leaves the rest in the reader, decrements EVERY counter by k, and advances
   the index by k (exactly what Reader.dr_read does, see c') *)
Theorem C13_chain_read_value : forall u lims i mx k,
  u_fail_after u = None ->
  (chain_read_ok (u_data u) lims i mx k = true ->
     exists u', dr_read_io_chain u lims i mx k =
                  OK (firstn (nat_of k) (u_data u), u', map (fun l => l - k) lims, i + k)
                /\ u_data u' = skipn (nat_of k) (u_data u) /\ u_fail_after u' = None
                /\ u_eof_with_data u' = u_eof_with_data u
                /\ exists n, u_chunks u' = skipn n (u_chunks u)) /\
  (chain_read_ok (u_data u) lims i mx k = false -> dr_read_io_chain u lims i mx k = Err).
Proof. exact chain_read_value. Qed.
Print Assumptions C13_chain_read_value.

(* c'. the byte-level chain model agrees with the in-memory reader of Reader.v at every
   nesting depth: [d_chain d] are the indices of the nested limit readers, [lim_get st] their
   counters.  NoDup is needed because Reader.consume decrements each index once; reachable
   chains are NoDup and in range (C13_chain_wf_new / _sub_scope / _read below). *)
Theorem C13_chain_agrees_with_reader : forall st d u k,
  NoDup (d_chain d) ->
  Forall (fun idx => (idx < length (r_lims st))%nat) (d_chain d) ->
  u_fail_after u = None -> u_data u = r_stream st ->
  (dr_read_io_chain u (map (lim_get st) (d_chain d)) (d_i d) (d_max d) k = Err
   <-> dr_read st d k = Err) /\
  (forall bs st' d', dr_read st d k = OK (bs, st', d') ->
     exists u',
       dr_read_io_chain u (map (lim_get st) (d_chain d)) (d_i d) (d_max d) k
       = OK (bs, u', map (lim_get st') (d_chain d), d_i d') /\
       u_data u' = r_stream st' /\ u_fail_after u' = None) /\
  dr_read st d k <> Panic.
Proof. exact chain_agrees_with_reader. Qed.
Print Assumptions C13_chain_agrees_with_reader.

(* the two well-formedness conditions hold for NewDecodingReader, are preserved by SubScope —
   which puts a fresh counter with value [count] in front of the chain — and by reads *)
Theorem C13_chain_wf_new : forall bs scope st d,
  new_reader bs scope = (st, d) ->
  NoDup (d_chain d) /\ Forall (fun idx => (idx < length (r_lims st))%nat) (d_chain d) /\
  map (lim_get st) (d_chain d) = [scope] /\ r_stream st = bs.
Proof. exact chain_wf_new. Qed.
Print Assumptions C13_chain_wf_new.

Theorem C13_chain_wf_sub_scope : forall st d count st' d',
  dr_sub_scope st d count = OK (st', d') ->
  NoDup (d_chain d) -> Forall (fun idx => (idx < length (r_lims st))%nat) (d_chain d) ->
  NoDup (d_chain d') /\ Forall (fun idx => (idx < length (r_lims st'))%nat) (d_chain d') /\
  map (lim_get st') (d_chain d') = count :: map (lim_get st) (d_chain d) /\
  r_stream st' = r_stream st /\ d_i d' = 0 /\ d_max d' = count.
Proof. exact chain_wf_sub_scope. Qed.
Print Assumptions C13_chain_wf_sub_scope.

Theorem C13_chain_wf_read : forall st d k bs st' d',
  dr_read st d k = OK (bs, st', d') ->
  NoDup (d_chain d) -> Forall (fun idx => (idx < length (r_lims st))%nat) (d_chain d) ->
  NoDup (d_chain d') /\ Forall (fun idx => (idx < length (r_lims st'))%nat) (d_chain d') /\
  d_chain d' = d_chain d.
Proof. exact chain_wf_read. Qed.
Print Assumptions C13_chain_wf_read.

(* d'. schedule independence through a chain: two non-failing readers holding the same bytes
   (any chunk schedules, any EOF behaviour) give the same result up to the remaining schedule *)
Theorem C13_chain_schedule_indep : forall u1 u2 lims i mx k,
  u_fail_after u1 = None -> u_fail_after u2 = None -> u_data u1 = u_data u2 ->
  match dr_read_io_chain u1 lims i mx k, dr_read_io_chain u2 lims i mx k with
  | OK (bs1, u1', lims1, i1), OK (bs2, u2', lims2, i2) =>
      bs1 = bs2 /\ u_data u1' = u_data u2' /\ lims1 = lims2 /\ i1 = i2 /\
      u_fail_after u1' = None /\ u_fail_after u2' = None
  | Err, Err => True
  | _, _ => False
  end.
Proof. exact chain_schedule_indep. Qed.
Print Assumptions C13_chain_schedule_indep.

(* e'. ANY reader (failing or not): if it delivers fewer than k bytes before it ends or fails,
   or SOME counter of the chain is below k, the read is an error, never a value *)
Theorem C13_chain_short_stream : forall u lims i mx k,
  0 < k -> delivered u < k \/ Exists (fun l => l < k) lims ->
  dr_read_io_chain u lims i mx k = Err.
Proof. exact chain_short_stream. Qed.
Print Assumptions C13_chain_short_stream.

(* conversely, for ANY reader: a read that returns a value returns exactly the next k bytes,
   within what was delivered and within every counter *)
Theorem C13_chain_value_is_prefix : forall u lims i mx k bs u' lims' i',
  dr_read_io_chain u lims i mx k = OK (bs, u', lims', i') ->
  bs = firstn (nat_of k) (u_data u) /\ u_data u' = skipn (nat_of k) (u_data u) /\
  k <= delivered u /\ Forall (fun l => k <= l) lims /\
  lims' = map (fun l => l - k) lims /\ i' = i + k.
Proof. exact chain_value_is_prefix. Qed.
Print Assumptions C13_chain_value_is_prefix.

(* f'. a two-level chain [3; 10] over 8 bytes delivered one byte at a time
   ([exc_data] = the first 8 bytes of ex_data, [exc_u] = mkU exc_data [1;1;1;1;1;1;1;1] false None) *)
Theorem C13_chain_example_read3 :
  dr_read_io_chain exc_u [3; 10] 0 3 3 =
  OK (firstn 3 exc_data, mkU (skipn 3 exc_data) [1; 1; 1; 1; 1] false None, [0; 7], 3).
Proof. exact exc_read3. Qed.
Print Assumptions C13_chain_example_read3.

Theorem C13_chain_example_read4 : dr_read_io_chain exc_u [3; 10] 0 100 4 = Err.
Proof. exact exc_read4. Qed.
Print Assumptions C13_chain_example_read4.
