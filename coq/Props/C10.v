(* C10 — for every flat composition (model: Codec.v, [flat_decode] over the helpers of
   codec/decoder.go, repaired code) and every byte string, decoding never panics and either fails or
   yields a value; when the outermost layer is variable-size it yields a value only for valid SSZ
   encodings of the type ([has_type v t] and the input is exactly [spec_ser t v]), and that value
   re-encodes ([flat_enc]) to exactly the input.

   Side conditions, all about what exists in Go at all:
   [wf_ty t]         types for which SSZ defines an encoding (Vector[List[..],0] would accept anything);
   [small_params t]  every length / limit parameter is at most 2^56, in particular a uint64 (Repr.v);
   [lenN bs < 2^63]  a Go slice length is an [int].  (The model's reader takes the scope as an
                     unbounded N; beyond 2^64 - 2^32 a wrapped uint64 difference of two offsets could
                     pass for a scope.)
   For a fixed-size type the library reads exactly the fixed size and the top level does not look at
   what follows (CodecProofs.ex_codec_fixed_trailing), hence the length premise of the fixed variant. *)
From Ztyp Require Import Base Types Spec Reader Codec Repr CodecProofs.
Open Scope N_scope.

(* d. no panic: any type, any prior destination state, any input *)
Theorem C10_no_panic : forall t c bs, flat_decode t c bs <> Panic.
Proof. exact C10_no_panic_lemma. Qed.
Print Assumptions C10_no_panic.

(* e. only canonical encodings are accepted *)
Theorem C10_canonical : forall t c bs v c',
  wf_ty t = true -> small_params t = true -> lenN bs < 2 ^ 63 ->
  spec_is_fixed t = false ->
  flat_decode t c bs = OK (v, c') -> has_type v t = true /\ bs = spec_ser t v.
Proof. exact C10_canonical_lemma. Qed.
Print Assumptions C10_canonical.

Theorem C10_canonical_fixed : forall t c bs v c',
  wf_ty t = true -> small_params t = true -> lenN bs < 2 ^ 63 ->
  spec_is_fixed t = true -> lenN bs = spec_fixed_len t ->
  flat_decode t c bs = OK (v, c') -> has_type v t = true /\ bs = spec_ser t v.
Proof. exact C10_canonical_fixed_lemma. Qed.
Print Assumptions C10_canonical_fixed.

(* any type, any input length: the accepted value is valid and its encoding is a prefix of the input
   (the whole input when the type is variable-size) *)
Theorem C10_prefix : forall t c bs v c',
  wf_ty t = true -> small_params t = true -> lenN bs < 2 ^ 63 ->
  flat_decode t c bs = OK (v, c') ->
  has_type v t = true /\
  exists rest, bs = spec_ser t v ++ rest /\ (spec_is_fixed t = false -> rest = []).
Proof. exact flat_decode_sound. Qed.
Print Assumptions C10_prefix.

(* the accepted value re-encodes to exactly the input *)
Theorem C10_reencode : forall t c bs v c',
  wf_ty t = true -> small_params t = true -> lenN bs < 2 ^ 32 ->
  spec_is_fixed t = false ->
  flat_decode t c bs = OK (v, c') -> flat_enc t v = OK bs.
Proof. exact C10_reencode_lemma. Qed.
Print Assumptions C10_reencode.

Theorem C10_reencode_fixed : forall t c bs v c',
  wf_ty t = true -> small_params t = true -> lenN bs < 2 ^ 32 ->
  spec_is_fixed t = true -> lenN bs = spec_fixed_len t ->
  flat_decode t c bs = OK (v, c') -> flat_enc t v = OK bs.
Proof. exact C10_reencode_fixed_lemma. Qed.
Print Assumptions C10_reencode_fixed.

(* inputs of 4 GiB and more: the encoder gives the input back or panics in WriteOffset *)
Theorem C10_reencode_total : forall t c bs v c',
  wf_ty t = true -> small_params t = true -> lenN bs < 2 ^ 63 ->
  spec_is_fixed t = false ->
  flat_decode t c bs = OK (v, c') ->
  flat_enc t v = OK bs \/ (flat_enc t v = Panic /\ 2 ^ 32 <= lenN bs).
Proof. exact C10_reencode_total_lemma. Qed.
Print Assumptions C10_reencode_total.

(* ---- the flat decoder and the tree-backed view decoder agree (with C03): for every variable-size
   type they accept exactly the same byte strings, and on an accepted input the view read back
   through the typed getters is the flat decoder's value; both give the input back.
   [zh] is the table of zero-subtree roots of the view side, any function with zh 0 = zero chunk. *)
From Ztyp Require Import Tree View ReprProofs DecodeProofs SerProofs AgreeProofs.

Theorem C10_accepts_what_the_view_decoder_accepts :
  forall (zh : nat -> chunk), zh 0%nat = zero_chunk ->
  forall t bs c,
    wf_ty t = true -> small_params t = true -> sizes_ok t = true -> small_fields t = true ->
    spec_is_fixed t = false -> lenN bs < 2 ^ 32 ->
    ((exists n, view_deserialize zh t bs = OK n) <->
     (exists v c', flat_decode t c bs = OK (v, c'))).
Proof. exact decoders_accept_same. Qed.
Print Assumptions C10_accepts_what_the_view_decoder_accepts.

Theorem C10_same_value_as_the_view_decoder :
  forall (zh : nat -> chunk), zh 0%nat = zero_chunk ->
  forall t bs c n v c',
    wf_ty t = true -> small_params t = true -> sizes_ok t = true -> small_fields t = true ->
    spec_is_fixed t = false -> lenN bs < 2 ^ 32 ->
    view_deserialize zh t bs = OK n -> flat_decode t c bs = OK (v, c') ->
    (forall fuel, (ty_depth t <= fuel)%nat -> read_val fuel t n = OK v) /\
    ser_node t n = OK bs /\ flat_enc t v = OK bs /\ repr zh t n v.
Proof. exact decoders_same_value. Qed.
Print Assumptions C10_same_value_as_the_view_decoder.
