(* C14 (model part) — "forks that each work on their own copy of a view over a common, fully
   hashed ancestor observe exactly the results of a sequential run".

   What the model can say (the Go memory model, publication of freshly allocated nodes and the
   per-caller scratch state of the hash function are NOT modelled; those are covered by the
   race-detector runs of the harness):  the only shared mutable state of forks is the shared
   part of the heap, and the only in-place write of the whole library is PairNode.MerkleRoot
   storing a memo that was unset.  So
     1. cells that are leaves or already hold a memo ("frozen") are bit-identical after ANY
        history of steps and hash requests of ANY fork — a fully hashed common ancestor is
        read-only shared data (the C14_frozen theorems);  under Hnz a hash request freezes the whole tree
        (C14_hash_freezes);
     2. a fork's own handles are rebound only by that fork's operations (Props/C05.v,
        C05_copy_detached), and the content of every node a fork holds, hence the root a hash
        request returns for it, is independent of what the other forks did in between
        (C14_fork_content, C14_fork_root).
   Vocabulary: frozen_below h k (every address below k holds a leaf or a pair with a non-zero
   memo), memoised, reach, heap_ext_memo, hm_inv, hm_run: HeapProofs.v / Props/C05.v, C07.v. *)
From Ztyp Require Import Base Bitlen Tree Types View Mut Heap TreeProofs HeapProofs.
Open Scope N_scope.

Theorem C14_defs_frozen : forall h k c,
  (frozen_cell c <-> match c with CLeaf _ => True | CPair m _ _ => m <> zero_chunk end) /\
  (frozen_below h k <->
     forall b, (b < k)%positive -> exists c, h_cell h b = Some c /\ frozen_cell c).
Proof. exact (fun h k c => conj (iff_refl _) (iff_refl _)). Qed.
Print Assumptions C14_defs_frozen.

(* the process-wide cells (65 zero leaves, trueRoot) are a frozen prefix from the start *)
Theorem C14_frozen_init : forall zh, frozen_below (heap_init zh) 67%positive.
Proof. exact heap_init_frozen. Qed.
Print Assumptions C14_frozen_init.

(* ---------------- 1. a frozen prefix is read-only ---------------- *)
(* the general fact: any heap evolution that only adds cells and fills unset memos *)
Theorem C14_frozen_prefix : forall h h' k,
  heap_ext_memo h h' -> frozen_below h k ->
  (forall b, (b < k)%positive -> h_cell h' b = h_cell h b) /\ frozen_below h' k.
Proof. exact frozen_prefix_ext_memo. Qed.
Print Assumptions C14_frozen_prefix.

(* any machine step (any op of any fork) *)
Theorem C14_frozen_prefix_step : forall zh st o k,
  hm_inv zh st -> frozen_below (m_store _ _ st) k ->
  (forall b, (b < k)%positive ->
     h_cell (m_store _ _ (fst (hm_step zh st o))) b = h_cell (m_store _ _ st) b) /\
  frozen_below (m_store _ _ (fst (hm_step zh st o))) k.
Proof. exact hm_step_frozen. Qed.
Print Assumptions C14_frozen_prefix_step.

(* any hash request, on any node (any H) *)
Theorem C14_frozen_prefix_merkle : forall H fuel h a r h' c k,
  heap_wf h -> (a < hp_next h)%positive -> (Pos.to_nat a <= fuel)%nat ->
  h_merkle H fuel h a = OK (r, h', c) -> frozen_below h k ->
  (forall b, (b < k)%positive -> h_cell h' b = h_cell h b) /\ frozen_below h' k.
Proof. exact h_merkle_frozen. Qed.
Print Assumptions C14_frozen_prefix_merkle.

(* any history *)
Theorem C14_frozen_prefix_run : forall H zh st evs k,
  hm_inv zh st -> frozen_below (m_store _ _ st) k ->
  (forall b, (b < k)%positive ->
     h_cell (m_store _ _ (hm_run H zh st evs)) b = h_cell (m_store _ _ st) b) /\
  frozen_below (m_store _ _ (hm_run H zh st evs)) k.
Proof. exact hm_run_frozen. Qed.
Print Assumptions C14_frozen_prefix_run.

(* the same for the cells of one fully hashed tree, wherever they lie in the heap *)
Theorem C14_frozen_tree : forall h h' a b,
  heap_ext_memo h h' -> memoised h a -> reach h a b -> h_cell h' b = h_cell h b.
Proof. exact frozen_tree_ext_memo. Qed.
Print Assumptions C14_frozen_tree.

Theorem C14_frozen_tree_run : forall H zh st evs a b,
  hm_inv zh st -> memoised (m_store _ _ st) a -> reach (m_store _ _ st) a b ->
  h_cell (m_store _ _ (hm_run H zh st evs)) b = h_cell (m_store _ _ st) b.
Proof. exact hm_run_frozen_tree. Qed.
Print Assumptions C14_frozen_tree_run.

(* "fully hashed ancestor": under Hnz a hash request leaves the whole tree memoised *)
Theorem C14_hash_freezes : forall H fuel h a r h' c,
  Hnz H -> heap_wf h -> memo_closed h -> (a < hp_next h)%positive -> (Pos.to_nat a <= fuel)%nat ->
  h_merkle H fuel h a = OK (r, h', c) -> memoised h' a /\ memo_closed h'.
Proof. exact h_merkle_memoised. Qed.
Print Assumptions C14_hash_freezes.

(* ---------------- 2. what a fork observes does not depend on the other forks ---------------- *)
(* content of any node a fork holds, after an arbitrary history of everybody *)
Theorem C14_fork_content : forall H zh st evs a n,
  hm_inv zh st -> (a < hp_next (m_store _ _ st))%positive ->
  (habs (m_store _ _ (hm_run H zh st evs)) a n <-> habs (m_store _ _ st) a n).
Proof. exact hm_run_abs_stable. Qed.
Print Assumptions C14_fork_content.

(* the hash-tree-root of a fork's handle: the same before and after an arbitrary history that
   did not rebind that handle (C05_copy_detached: histories of the other forks do not) *)
Theorem C14_fork_root : forall H zh st evs k x n r1 st1 c1 r2 st2 c2,
  hm_inv zh st -> memo_ok H (m_store _ _ st) ->
  nth_error (m_handles _ _ st) k = Some x -> habs (m_store _ _ st) (h_back _ x) n ->
  nth_error (m_handles _ _ (hm_run H zh st evs)) k = Some x ->
  hm_hash H st k = OK (r1, st1, c1) -> hm_hash H (hm_run H zh st evs) k = OK (r2, st2, c2) ->
  r1 = root_of H n /\ r2 = root_of H n.
Proof. exact hm_run_root_stable. Qed.
Print Assumptions C14_fork_root.

(* ---------------- 3. the only shared write (a memo) is invisible to every step ---------------- *)
(* memo_eq / hm_rel: see Props/C06.v (C06_defs_memo_eq).  A step of one fork returns the same
   output, rebinds the same handles to the same addresses and allocates the same cells, whatever
   memos the other forks have filled in meanwhile. *)
Theorem C14_step_memo_insensitive : forall zh st1 st2 o,
  hm_rel st1 st2 ->
  hm_rel (fst (hm_step zh st1 o)) (fst (hm_step zh st2 o)) /\
  snd (hm_step zh st1 o) = snd (hm_step zh st2 o).
Proof. exact hm_step_memo_eq. Qed.
Print Assumptions C14_step_memo_insensitive.

(* a hash request (any fork, any handle) commutes with a step (any fork) *)
Theorem C14_hash_step_commute : forall H zh st k o,
  hm_inv zh st ->
  hm_rel (hm_event H zh (hm_event H zh st (EHash k)) (EStep o))
         (hm_event H zh (hm_event H zh st (EStep o)) (EHash k)) /\
  snd (hm_step zh (hm_event H zh st (EHash k)) o) = snd (hm_step zh st o).
Proof. exact hm_hash_step_commute. Qed.
Print Assumptions C14_hash_step_commute.

(* whole histories: erasing every hash request changes no step output's state component —
   same handles, heaps equal up to memos *)
Theorem C14_run_steps_only : forall H zh evs st1 st2,
  hm_inv zh st1 -> hm_inv zh st2 -> hm_rel st1 st2 ->
  hm_rel (hm_run H zh st1 evs) (hm_run H zh st2 (steps_only evs)).
Proof. exact hm_run_steps_only. Qed.
Print Assumptions C14_run_steps_only.
