(* C14 (model part) — "forks that each work on their own copy of a view over a common, fully
   hashed ancestor observe exactly the results of a sequential run".

   What the model can say (the Go memory model, publication of freshly allocated nodes and the
   per-caller scratch state of the hash function are NOT modelled; those are covered by the
   race-detector runs of the harness):  the only shared mutable state of forks is the shared
   part of the heap, and the only in-place write of the whole library is PairNode.MerkleRoot
   storing a memo that was unset.  So
     1. cells that are leaves or already hold a memo ("frozen") are bit-identical after ANY
        history of steps and hash requests of ANY fork — a fully hashed common ancestor is
        read-only shared data (the C14_frozen theorems);  under Hnz a hash request freezes the whole tree
        (C14_hash_freezes);
     2. a fork's own handles are rebound only by that fork's operations (Props/C05.v,
        C05_copy_detached), and the content of every node a fork holds, hence the root a hash
        request returns for it, is independent of what the other forks did in between
        (C14_fork_content, C14_fork_root).
   Vocabulary: frozen_below h k (every address below k holds a leaf or a pair with a non-zero
   memo), memoised, reach, heap_ext_memo, hm_inv, hm_run: HeapProofs.v / Props/C05.v, C07.v. *)
From Ztyp Require Import Base Bitlen Tree Types View Mut Heap TreeProofs HeapProofs.
Open Scope N_scope.

Theorem C14_defs_frozen : forall h k c,
  (frozen_cell c <-> match c with CLeaf _ => True | CPair m _ _ => m <> zero_chunk end) /\
  (frozen_below h k <->
     forall b, (b < k)%positive -> exists c, h_cell h b = Some c /\ frozen_cell c).
Proof. exact (fun h k c => conj (iff_refl _) (iff_refl _)). Qed.
Print Assumptions C14_defs_frozen.

(* the process-wide cells (65 zero leaves, trueRoot) are a frozen prefix from the start *)
Theorem C14_frozen_init : forall zh, frozen_below (heap_init zh) 67%positive.
Proof. exact heap_init_frozen. Qed.
Print Assumptions C14_frozen_init.

(* ---------------- 1. a frozen prefix is read-only ---------------- *)
(* the general fact: any heap evolution that only adds cells and fills unset memos *)
Theorem C14_frozen_prefix : forall h h' k,
  heap_ext_memo h h' -> frozen_below h k ->
  (forall b, (b < k)%positive -> h_cell h' b = h_cell h b) /\ frozen_below h' k.
Proof. exact frozen_prefix_ext_memo. Qed.
Print Assumptions C14_frozen_prefix.

(* any machine step (any op of any fork) *)
Theorem C14_frozen_prefix_step : forall zh st o k,
  hm_inv zh st -> frozen_below (m_store _ _ st) k ->
  (forall b, (b < k)%positive ->
     h_cell (m_store _ _ (fst (hm_step zh st o))) b = h_cell (m_store _ _ st) b) /\
  frozen_below (m_store _ _ (fst (hm_step zh st o))) k.
Proof. exact hm_step_frozen. Qed.
Print Assumptions C14_frozen_prefix_step.

(* any hash request, on any node (any H) *)
Theorem C14_frozen_prefix_merkle : forall H fuel h a r h' c k,
  heap_wf h -> (a < hp_next h)%positive -> (Pos.to_nat a <= fuel)%nat ->
  h_merkle H fuel h a = OK (r, h', c) -> frozen_below h k ->
  (forall b, (b < k)%positive -> h_cell h' b = h_cell h b) /\ frozen_below h' k.
Proof. exact h_merkle_frozen. Qed.
Print Assumptions C14_frozen_prefix_merkle.

(* any history *)
Theorem C14_frozen_prefix_run : forall H zh st evs k,
  hm_inv zh st -> frozen_below (m_store _ _ st) k ->
  (forall b, (b < k)%positive ->
     h_cell (m_store _ _ (hm_run H zh st evs)) b = h_cell (m_store _ _ st) b) /\
  frozen_below (m_store _ _ (hm_run H zh st evs)) k.
Proof. exact hm_run_frozen. Qed.
Print Assumptions C14_frozen_prefix_run.

(* the same for the cells of one fully hashed tree, wherever they lie in the heap *)
Theorem C14_frozen_tree : forall h h' a b,
  heap_ext_memo h h' -> memoised h a -> reach h a b -> h_cell h' b = h_cell h b.
Proof. exact frozen_tree_ext_memo. Qed.
Print Assumptions C14_frozen_tree.

Theorem C14_frozen_tree_run : forall H zh st evs a b,
  hm_inv zh st -> memoised (m_store _ _ st) a -> reach (m_store _ _ st) a b ->
  h_cell (m_store _ _ (hm_run H zh st evs)) b = h_cell (m_store _ _ st) b.
Proof. exact hm_run_frozen_tree. Qed.
Print Assumptions C14_frozen_tree_run.

(* "fully hashed ancestor": under Hnz a hash request leaves the whole tree memoised *)
Theorem C14_hash_freezes : forall H fuel h a r h' c,
  Hnz H -> heap_wf h -> memo_closed h -> (a < hp_next h)%positive -> (Pos.to_nat a <= fuel)%nat ->
  h_merkle H fuel h a = OK (r, h', c) -> memoised h' a /\ memo_closed h'.
Proof. exact h_merkle_memoised. Qed.
Print Assumptions C14_hash_freezes.

(* ---------------- 2. what a fork observes does not depend on the other forks ---------------- *)
(* content of any node a fork holds, after an arbitrary history of everybody *)
Theorem C14_fork_content : forall H zh st evs a n,
  hm_inv zh st -> (a < hp_next (m_store _ _ st))%positive ->
  (habs (m_store _ _ (hm_run H zh st evs)) a n <-> habs (m_store _ _ st) a n).
Proof. exact hm_run_abs_stable. Qed.
Print Assumptions C14_fork_content.

(* the hash-tree-root of a fork's handle: the same before and after an arbitrary history that
   did not rebind that handle (C05_copy_detached: histories of the other forks do not) *)
Theorem C14_fork_root : forall H zh st evs k x n r1 st1 c1 r2 st2 c2,
  hm_inv zh st -> memo_ok H (m_store _ _ st) ->
  nth_error (m_handles _ _ st) k = Some x -> habs (m_store _ _ st) (h_back _ x) n ->
  nth_error (m_handles _ _ (hm_run H zh st evs)) k = Some x ->
  hm_hash H st k = OK (r1, st1, c1) -> hm_hash H (hm_run H zh st evs) k = OK (r2, st2, c2) ->
  r1 = root_of H n /\ r2 = root_of H n.
Proof. exact hm_run_root_stable. Qed.
Print Assumptions C14_fork_root.

(* ---------------- 3. the only shared write (a memo) is invisible to every step ---------------- *)
(* memo_eq / hm_rel: see Props/C06.v (C06_defs_memo_eq).  A step of one fork returns the same
   output, rebinds the same handles to the same addresses and allocates the same cells, whatever
   memos the other forks have filled in meanwhile. *)
Theorem C14_step_memo_insensitive : forall zh st1 st2 o,
  hm_rel st1 st2 ->
  hm_rel (fst (hm_step zh st1 o)) (fst (hm_step zh st2 o)) /\
  snd (hm_step zh st1 o) = snd (hm_step zh st2 o).
Proof. exact hm_step_memo_eq. Qed.
Print Assumptions C14_step_memo_insensitive.

(* a hash request (any fork, any handle) commutes with a step (any fork) *)
Theorem C14_hash_step_commute : forall H zh st k o,
  hm_inv zh st ->
  hm_rel (hm_event H zh (hm_event H zh st (EHash k)) (EStep o))
         (hm_event H zh (hm_event H zh st (EStep o)) (EHash k)) /\
  snd (hm_step zh (hm_event H zh st (EHash k)) o) = snd (hm_step zh st o).
Proof. exact hm_hash_step_commute. Qed.
Print Assumptions C14_hash_step_commute.

(* whole histories: erasing every hash request changes no step output's state component —
   same handles, heaps equal up to memos *)
Theorem C14_run_steps_only : forall H zh evs st1 st2,
  hm_inv zh st1 -> hm_inv zh st2 -> hm_rel st1 st2 ->
  hm_rel (hm_run H zh st1 evs) (hm_run H zh st2 (steps_only evs)).
Proof. exact hm_run_steps_only. Qed.
Print Assumptions C14_run_steps_only.

(* ---------------- 4. fork independence: any interleaving = the fork's sequential run ---------------- *)
(* Vocabulary (ForkProofs.v, top): handle numbers are global (a new handle gets the number
   [length handles]), a goroutine holds pointers; so each fork g names its handles locally through
   its table [tabs g] (local name = position, entry = global handle number).  [loc_op tab lo]
   translates the handle names in an operation from local to global (None: unknown local name —
   the event does nothing and yields Err); [out_tab] appends a newly created handle to the table
   and reports it under its local name.  [fev] = FStep lo | FHash j (hash-tree-root of local
   handle j); [fobs] = FRes r | FRoot r is what the fork observes.  [runN stp hsh st tabs sch]
   replays an arbitrary interleaving [sch : list (fork number * fev)] of any number of forks on
   the machine (stp, hsh) and returns (the trace of (fork, observation), (final state, final
   tables)); [run1 stp hsh st tab evs] is one fork alone; [proj f] keeps the entries of fork f.
   [tm_hash H] is root_of of the TM backing, [hm_hash_ev H] is HeapProofs.hm_hash (h_merkle on the
   heap, memos written).  [forks_ok hs tabs]: the tables contain existing handles, are closed under
   hook parents (a Copy and everything later obtained from it) and are pairwise disjoint.
   [fork_view hs tab]: (type, backing) of the fork's handles by local name. *)
From Ztyp Require Import ForkProofs.

Theorem C14_defs_fork : forall (S : Type) (stp : S -> op -> S * res mout) (hsh : S -> nat -> S * option chunk)
    (st : S) (tab : list nat) (lo : op) (j : nat) (T : Type) (hs : list (handle T)) (tabs : nat -> list nat),
  fork_event S stp hsh st tab (FStep lo) =
    match loc_op tab lo with
    | None => (st, tab, FRes Err)
    | Some o => (fst (stp st o), fst (out_tab tab (snd (stp st o))), FRes (snd (out_tab tab (snd (stp st o)))))
    end /\
  fork_event S stp hsh st tab (FHash j) =
    match nth_error tab j with
    | None => (st, tab, FRoot None)
    | Some k => (fst (hsh st k), tab, FRoot (snd (hsh st k)))
    end /\
  (forks_ok hs tabs <->
     (forall g k, In k (tabs g) -> (k < length hs)%nat) /\
     (forall g k x p i, In k (tabs g) -> nth_error hs k = Some x -> h_hook T x = Some (p, i) ->
                        In p (tabs g)) /\
     (forall g1 g2 k, g1 <> g2 -> In k (tabs g1) -> ~ In k (tabs g2))).
Proof. exact fork_defs. Qed.
Print Assumptions C14_defs_fork.

(* on the pure machine TM: in EVERY interleaving of any number of forks (all operations: sub-views,
   union values and copies created inside the interleaving included, handle sources, hash
   requests), the observations of fork f — outputs up to the renumbering of fresh handles, i.e.
   under local names, and roots — and the final (type, backing) of all its handles are those of
   f's own events run alone *)
Theorem C14_fork_outputs_independent : forall H zh (ts : tm_state) tabs f sch,
  hooks_wf (m_handles _ _ ts) -> forks_ok (m_handles _ _ ts) tabs ->
  let '(trN, (tsN, tabsN)) := runN _ (tm_step zh) (tm_hash H) ts tabs sch in
  let '(tr1, (ts1, tab1)) := run1 _ (tm_step zh) (tm_hash H) ts (tabs f) (proj f sch) in
  proj f trN = tr1 /\
  fork_view (m_handles _ _ tsN) (tabsN f) = fork_view (m_handles _ _ ts1) tab1.
Proof. exact tm_fork_independent. Qed.
Print Assumptions C14_fork_outputs_independent.

(* an interleaved run of forks on HM is a history of Props/C05-C07 and of sections 1-3 above *)
Theorem C14_interleaving_is_history : forall H zh sch hs tabs,
  exists evs, fst (snd (runN _ (hm_step zh) (hm_hash_ev H) hs tabs sch)) = hm_run H zh hs evs.
Proof. exact hm_runN_is_history. Qed.
Print Assumptions C14_interleaving_is_history.

(* lifted to the heap machine through the refinement (RefineProofs.abs_rel): what fork f observes
   on HM in any interleaving of steps and hash requests of all forks — res mout outputs and the
   hash-tree-roots computed by h_merkle on the shared heap — is what TM yields for f's events run
   alone; the final views of f abstract to the final TM backings *)
Theorem C14_interleaving_refines_sequential : forall H zh hs ts tabs f sch,
  RefineProofs.abs_rel zh hs ts -> memo_ok H (m_store _ _ hs) ->
  hooks_wf (m_handles _ _ hs) -> forks_ok (m_handles _ _ hs) tabs ->
  let '(trN, (hsN, tabsN)) := runN _ (hm_step zh) (hm_hash_ev H) hs tabs sch in
  let '(tr1, (ts1, tab1)) := run1 _ (tm_step zh) (tm_hash H) ts (tabs f) (proj f sch) in
  proj f trN = tr1 /\
  length (tabsN f) = length tab1 /\
  forall j k x,
    nth_error (tabsN f) j = Some k -> nth_error (m_handles _ _ hsN) k = Some x ->
    exists k1 y,
      nth_error tab1 j = Some k1 /\ nth_error (m_handles _ _ ts1) k1 = Some y /\
      h_ty _ x = h_ty _ y /\ habs (m_store _ _ hsN) (h_back _ x) (h_back _ y).
Proof. exact hm_fork_equals_tm_solo. Qed.
Print Assumptions C14_interleaving_refines_sequential.

(* HM against HM: any interleaving = the sequential run of the fork, from any valid machine state
   (heap invariant, view.trueRoot in place, no stale memo, well-founded hooks) *)
Theorem C14_interleaving_equals_sequential : forall H zh hs tabs f sch,
  hm_inv zh hs -> h_cell (m_store _ _ hs) true_addr = Some (CLeaf true_chunk) ->
  memo_ok H (m_store _ _ hs) ->
  hooks_wf (m_handles _ _ hs) -> forks_ok (m_handles _ _ hs) tabs ->
  let '(trN, (hsN, tabsN)) := runN _ (hm_step zh) (hm_hash_ev H) hs tabs sch in
  let '(tr1, (hs1, tab1)) := run1 _ (hm_step zh) (hm_hash_ev H) hs (tabs f) (proj f sch) in
  proj f trN = tr1 /\
  length (tabsN f) = length tab1 /\
  forall j k k' x x',
    nth_error (tabsN f) j = Some k -> nth_error (m_handles _ _ hsN) k = Some x ->
    nth_error tab1 j = Some k' -> nth_error (m_handles _ _ hs1) k' = Some x' ->
    h_ty _ x = h_ty _ x' /\
    exists n, habs (m_store _ _ hsN) (h_back _ x) n /\ habs (m_store _ _ hs1) (h_back _ x') n.
Proof. exact hm_fork_independent. Qed.
Print Assumptions C14_interleaving_equals_sequential.
