(* C09 — for every flat value composed from the codec's encoder and decoder helpers
   (model: Codec.v — [flat_enc], [flat_len], [flat_decode] over the helpers of codec/encoder.go and
   codec/decoder.go), encoding yields exactly the SSZ-spec bytes ([Spec.spec_ser]), the reported byte
   lengths equal the encoded length, and decoding those bytes reproduces the value, every element in
   its own position (the decoded value is the original value, whose sequences are ordered lists),
   independently of what the destination object held before ([ctree]: the prior length / capacity of
   every byte-slice destination, the only prior state the library looks at).

   [wf_ty t]: the types for which SSZ defines an encoding (no Bitvector[0], Vector[_,0], empty
   container / union).  [lenN l] is the length of a list as an [N].
   [small_params t] (Repr.v): every length / limit parameter of the type is at most 2^56, so that it
   is a uint64 at all; needed only for decoding (a Bitlist limit of 2^64 or more is not a uint64 and
   makes the model's uint64 arithmetic in BitlistCheck wrap: CodecProofs.cex_roundtrip_limit). *)
From Ztyp Require Import Base Types Spec Reader Codec Repr CodecProofs.
Open Scope N_scope.

(* a. encoding = spec bytes.  The premise [< 2^32] is the real precondition of the library:
   EncodingWriter.WriteOffset panics on offsets that do not fit a uint32. *)
Theorem C09_encode_spec : forall t v,
  wf_ty t = true -> has_type v t = true -> lenN (spec_ser t v) < 2 ^ 32 ->
  flat_enc t v = OK (spec_ser t v).
Proof. exact C09_encode_spec_lemma. Qed.
Print Assumptions C09_encode_spec.

(* without it: the spec bytes or a panic, never a wrong encoding (and a panic only beyond 2^32) *)
Theorem C09_encode_total : forall t v,
  wf_ty t = true -> has_type v t = true -> lenN (spec_ser t v) < 2 ^ 64 ->
  flat_enc t v = OK (spec_ser t v) \/ (flat_enc t v = Panic /\ 2 ^ 32 <= lenN (spec_ser t v)).
Proof. exact C09_encode_total_lemma. Qed.
Print Assumptions C09_encode_total.

(* b. the reported byte length (ByteLength(), codec.ContainerLength) is the encoded length *)
Theorem C09_length : forall t v,
  wf_ty t = true -> has_type v t = true -> lenN (spec_ser t v) < 2 ^ 64 ->
  flat_len t v = lenN (spec_ser t v).
Proof. exact C09_length_lemma. Qed.
Print Assumptions C09_length.

(* c. round trip, for every prior state [c] of the destination *)
Theorem C09_roundtrip : forall t v,
  wf_ty t = true -> small_params t = true -> has_type v t = true ->
  lenN (spec_ser t v) < 2 ^ 32 ->
  forall c : ctree, exists c', flat_decode t c (spec_ser t v) = OK (v, c').
Proof. exact C09_roundtrip_lemma. Qed.
Print Assumptions C09_roundtrip.

(* encode, then decode into any destination *)
Theorem C09_encode_decode : forall t v bs,
  wf_ty t = true -> small_params t = true -> has_type v t = true ->
  lenN (spec_ser t v) < 2 ^ 32 -> flat_enc t v = OK bs ->
  forall c : ctree, exists c', flat_decode t c bs = OK (v, c').
Proof. exact C09_encode_decode_lemma. Qed.
Print Assumptions C09_encode_decode.

(* ---- Encode()/Decode() of the library's basic values, and codec.Sum ---- *)
From Ztyp Require Import Extras ExtrasProofs.

Theorem C09_basic_encode :
  forall t v, (exists w, t = TUint w) \/ t = TBool -> has_type v t = true ->
  basic_encode t v = OK (spec_ser t v).
Proof. exact basic_encode_spec. Qed.
Print Assumptions C09_basic_encode.

Theorem C09_basic_decode_encode :
  forall t v, wf_ty t = true -> ((exists w, t = TUint w) \/ t = TBool) -> has_type v t = true ->
  basic_decode t (spec_ser t v) = OK v.
Proof. exact basic_decode_encode. Qed.
Print Assumptions C09_basic_decode_encode.

(* Decode accepts only strings of exactly the value's size, and only canonical bools *)
Theorem C09_basic_decode_exact :
  forall t bs v, wf_ty t = true -> basic_decode t bs = OK v ->
  lenN bs = spec_fixed_len t /\ has_type v t = true /\ spec_ser t v = bs.
Proof. exact basic_decode_exact. Qed.
Print Assumptions C09_basic_decode_exact.

Theorem C09_codec_sum : forall lens, sumN lens < 2 ^ 64 -> codec_sum lens = sumN lens.
Proof. exact codec_sum_spec. Qed.
Print Assumptions C09_codec_sum.
