(* C06 — "After any interleaving of mutations and hash-tree-root requests, every root remembered
   inside a tree equals the root recomputed from that node's current children, so the
   hash-tree-root of a view does not depend on which earlier roots were requested, or when."

   Model: Heap.v.  A pair cell [CPair memo l r] is Go's PairNode{Value, LeftChild, RightChild};
   memo = zero_chunk means "not computed" (Go: c.Value != Root{}).  [h_merkle H fuel h a] is
   PairNode.MerkleRoot and returns (root, heap with the memos written, number of pair hashes).
   [H] is an arbitrary pair hash — NO hypothesis on H is needed for C06.

   Vocabulary (HeapProofs.v): [memo_ok H h] — every remembered root is the root of the node's
   content, i.e. (C06_defs) for a pair cell with children l, r standing for x, y:
   memo = H (root x) (root y).  [habs h a n]: node a stands for the pure tree n.
   [hm_inv], [hev], [hm_event], [hm_hash], [hm_run]: see Props/C05.v (C05_defs_inv, C05_defs_run). *)
From Ztyp Require Import Base Bitlen Tree Types View Mut Heap TreeProofs HeapProofs.
Open Scope N_scope.

Theorem C06_defs_memo_ok : forall H h,
  memo_ok H h <->
  forall a m l r n, h_cell h a = Some (CPair m l r) -> m <> zero_chunk -> habs h a n ->
                    m = root_of H n.
Proof. exact (fun H h => iff_refl _). Qed.
Print Assumptions C06_defs_memo_ok.

(* the same, spelled out on the children: the remembered root is the hash of the roots
   recomputed from the node's current children *)
Theorem C06_memo_children : forall H h a m l r x y,
  memo_ok H h -> h_cell h a = Some (CPair m l r) -> m <> zero_chunk ->
  habs h l x -> habs h r y -> m = H (root_of H x) (root_of H y).
Proof.
  exact (fun H h a m l r x y Hok Hc Hm Hx Hy =>
           Hok a m l r (Pair x y) Hc Hm (habs_pair h a m l r x y Hc Hx Hy)).
Qed.
Print Assumptions C06_memo_children.

(* ---------------- the invariant: initially, and kept by every primitive ---------------- *)
Theorem C06_init : forall H zh, memo_ok H (heap_init zh).
Proof. exact memo_ok_init. Qed.
Print Assumptions C06_init.

Theorem C06_alloc_leaf : forall H h c, heap_wf h -> memo_ok H h -> memo_ok H (snd (h_leaf h c)).
Proof. exact memo_ok_alloc_leaf. Qed.
Print Assumptions C06_alloc_leaf.

Theorem C06_alloc_pair : forall H h l r, heap_wf h -> memo_ok H h -> memo_ok H (snd (h_pair h l r)).
Proof. exact memo_ok_alloc_pair. Qed.
Print Assumptions C06_alloc_pair.

Theorem C06_set_path : forall H zh h a p e v a' h',
  heap_wf h -> h_set_path zh h a p e v = OK (a', h') -> memo_ok H h -> memo_ok H h'.
Proof. exact memo_ok_set_path. Qed.
Print Assumptions C06_set_path.

(* MerkleRoot keeps the invariant and returns exactly the root of the node's content *)
Theorem C06_merkle : forall H fuel h a r h' c n,
  heap_wf h -> memo_ok H h -> habs h a n -> (Pos.to_nat a <= fuel)%nat ->
  h_merkle H fuel h a = OK (r, h', c) -> r = root_of H n /\ memo_ok H h'.
Proof. exact h_merkle_root. Qed.
Print Assumptions C06_merkle.

(* every machine step (any op, ok or failing) *)
Theorem C06_step : forall H zh st o,
  hm_inv zh st -> memo_ok H (m_store _ _ st) ->
  hm_inv zh (fst (hm_step zh st o)) /\ memo_ok H (m_store _ _ (fst (hm_step zh st o))).
Proof.
  exact (fun H zh st o Hi Hok =>
           conj (proj1 (hm_step_inv' zh st o Hi)) (hm_step_memo_ok H zh st o Hi Hok)).
Qed.
Print Assumptions C06_step.

(* any interleaving of mutations and hash-tree-root requests *)
Theorem C06_run : forall H zh st evs,
  hm_inv zh st -> memo_ok H (m_store _ _ st) ->
  hm_inv zh (hm_run H zh st evs) /\ memo_ok H (m_store _ _ (hm_run H zh st evs)).
Proof.
  exact (fun H zh st evs Hi Hok =>
    conj (proj1 (hm_run_inv H zh evs st Hi))
         (proj1 (proj2 (proj2 (hm_run_inv H zh evs st Hi))) Hok)).
Qed.
Print Assumptions C06_run.

(* ---------------- consequence: the root does not depend on the memos present ---------------- *)
(* never a Panic (fuel >= address), and the result IS the root of the abstraction *)
Theorem C06_root_exact : forall H fuel h a n,
  heap_wf h -> memo_ok H h -> habs h a n -> (Pos.to_nat a <= fuel)%nat ->
  exists h' c, h_merkle H fuel h a = OK (root_of H n, h', c) /\ memo_ok H h'.
Proof. exact h_merkle_root_exact. Qed.
Print Assumptions C06_root_exact.

(* two heaps (e.g. the same history with different hash requests interleaved) in which the
   nodes have the same content give the same root, whatever memos each of them holds *)
Theorem C06_request_independent : forall H f1 f2 h1 h2 a1 a2 n r1 r2 h1' h2' c1 c2,
  heap_wf h1 -> heap_wf h2 -> memo_ok H h1 -> memo_ok H h2 ->
  habs h1 a1 n -> habs h2 a2 n ->
  (Pos.to_nat a1 <= f1)%nat -> (Pos.to_nat a2 <= f2)%nat ->
  h_merkle H f1 h1 a1 = OK (r1, h1', c1) -> h_merkle H f2 h2 a2 = OK (r2, h2', c2) ->
  r1 = r2.
Proof. exact h_merkle_request_independent. Qed.
Print Assumptions C06_request_independent.

(* machine level: the root of handle k now, and after ANY further history (steps on other
   handles, hash requests anywhere) that left handle k's backing in place, is the root of the
   content k's backing had *)
Theorem C06_root_stable : forall H zh st evs k x n r1 st1 c1 r2 st2 c2,
  hm_inv zh st -> memo_ok H (m_store _ _ st) ->
  nth_error (m_handles _ _ st) k = Some x -> habs (m_store _ _ st) (h_back _ x) n ->
  nth_error (m_handles _ _ (hm_run H zh st evs)) k = Some x ->
  hm_hash H st k = OK (r1, st1, c1) -> hm_hash H (hm_run H zh st evs) k = OK (r2, st2, c2) ->
  r1 = root_of H n /\ r2 = root_of H n.
Proof. exact hm_run_root_stable. Qed.
Print Assumptions C06_root_stable.

(* ---------------- "... or when": whole histories with and without hash requests ---------------- *)
(* [memo_eq h1 h2]: same hp_next and, at every address, the same cell up to the memo;
   [hm_rel]: same handle list (same backing ADDRESSES) and memo_eq stores;
   [steps_only evs]: the history with every hash request erased. *)
Theorem C06_defs_memo_eq : forall h1 h2 st1 st2 evs,
  (memo_eq h1 h2 <->
     hp_next h1 = hp_next h2 /\
     forall a, option_map cell_strip (h_cell h1 a) = option_map cell_strip (h_cell h2 a)) /\
  (forall c, cell_strip c = match c with CLeaf x => CLeaf x | CPair _ l r => CPair zero_chunk l r end) /\
  (hm_rel st1 st2 <->
     m_handles _ _ st1 = m_handles _ _ st2 /\ memo_eq (m_store _ _ st1) (m_store _ _ st2)) /\
  steps_only evs = filter (fun e => match e with EStep _ => true | EHash _ => false end) evs.
Proof.
  exact (fun h1 h2 st1 st2 evs =>
    conj (iff_refl _) (conj (fun c => eq_refl) (conj (iff_refl _) eq_refl))).
Qed.
Print Assumptions C06_defs_memo_eq.

(* the machine never reads a memo: a step on two states that differ only in memos returns the
   same output and yields states that again differ only in memos *)
Theorem C06_step_memo_insensitive : forall zh st1 st2 o,
  hm_rel st1 st2 ->
  hm_rel (fst (hm_step zh st1 o)) (fst (hm_step zh st2 o)) /\
  snd (hm_step zh st1 o) = snd (hm_step zh st2 o).
Proof. exact hm_step_memo_eq. Qed.
Print Assumptions C06_step_memo_insensitive.

(* replaying a history with its hash requests, or with all of them erased: same handles, heaps
   equal up to memos *)
Theorem C06_run_steps_only : forall H zh evs st1 st2,
  hm_inv zh st1 -> hm_inv zh st2 -> hm_rel st1 st2 ->
  hm_rel (hm_run H zh st1 evs) (hm_run H zh st2 (steps_only evs)).
Proof. exact hm_run_steps_only. Qed.
Print Assumptions C06_run_steps_only.

(* so the hash-tree-root of every handle at the end of a history is the same whether or not,
   and wherever, roots were requested on the way *)
Theorem C06_run_request_independent : forall H zh st evs k r1 st1 c1 r2 st2 c2,
  hm_inv zh st -> memo_ok H (m_store _ _ st) ->
  hm_hash H (hm_run H zh st evs) k = OK (r1, st1, c1) ->
  hm_hash H (hm_run H zh st (steps_only evs)) k = OK (r2, st2, c2) ->
  r1 = r2.
Proof. exact hm_run_request_independent. Qed.
Print Assumptions C06_run_request_independent.
