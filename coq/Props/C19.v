(* C19 — text / JSON conversions (Conv.v: the transcription of conv/numbers.go, conv/bytes.go, the
   text/JSON methods of the basic views, strconv.ParseUint(s, 0, bitSize) and math/big
   Int.UnmarshalText).  Text is a list of bytes; [ch b] is the character code of byte [b].

   Spec definitions (top of ConvProofs.v; none of them contains width / cutoff / overflow logic):
   [lenN l]           length as an N
   [is_dec_digit b]   b is '0'..'9'
   [dec_value s]      the number denoted by the non-empty string of decimal digits s (Horner,
                      most significant digit first), None for "" or a non-digit
   [canonical_dec s]  s is non-empty, all decimal digits, and has no leading '0' unless s = "0"
                      (spelled out by C19_canonical_dec_def below)
   [denote_uint s]    the number denoted by s under Go's integer-literal rules: 0b/0B binary,
                      0o/0O or a leading 0 octal, 0x/0X hexadecimal, otherwise decimal; digits
                      a-z/A-Z = 10..35; underscores ignored; None if s is not such a literal
   [has_underscore s] s contains '_'
   [is_hex_digit b]   b is one of 0-9 a-f A-F
   [to_lower_hex b]   'A'..'F' -> 'a'..'f', other bytes unchanged *)
From Ztyp Require Import Base Conv ConvProofs.
Open Scope N_scope.

(* ---- 1. decimal printing yields the canonical decimal numeral, for every n ---- *)
Theorem C19_print_dec_canonical : forall n,
  forallb is_dec_digit (print_dec n) = true /\
  (n = 0 -> print_dec n = [byte_of_N 48]) /\
  (n <> 0 -> exists b r, print_dec n = b :: r /\ ch b <> 48) /\
  dec_value (print_dec n) = Some n.
Proof. exact print_dec_canonical. Qed.
Print Assumptions C19_print_dec_canonical.

Theorem C19_canonical_dec_def : forall s,
  canonical_dec s <->
  exists b r, s = b :: r /\ forallb is_dec_digit s = true /\ (ch b = 48 -> r = []).
Proof. exact canonical_dec_def. Qed.
Print Assumptions C19_canonical_dec_def.

Theorem C19_print_dec_canonical_dec : forall n, canonical_dec (print_dec n).
Proof. exact print_dec_canonical_dec. Qed.
Print Assumptions C19_print_dec_canonical_dec.

(* ---- 2. round trips ---- *)
Theorem C19_roundtrip_text : forall w n, In w [8; 16; 32; 64] -> n < 2 ^ w ->
  uint_unmarshal_text (uint_marshal_text n) w = COk n.
Proof. exact (fun w n Hw => roundtrip_text w n (In_widths w Hw)). Qed.
Print Assumptions C19_roundtrip_text.

Theorem C19_roundtrip_json : forall w n, In w [8; 16; 32; 64] -> n < 2 ^ w ->
  uint_unmarshal_json_cast (uint_marshal_json n) w = COk n.
Proof. exact (fun w n Hw => roundtrip_json w n (In_widths w Hw)). Qed.
Print Assumptions C19_roundtrip_json.

Theorem C19_roundtrip_u256_text : forall n, n < 2 ^ 256 ->
  u256_unmarshal_text (print_dec n) = COk n.
Proof. exact roundtrip_u256_text. Qed.
Print Assumptions C19_roundtrip_u256_text.

Theorem C19_roundtrip_u256_json : forall n, n < 2 ^ 256 ->
  u256_unmarshal_json (uint_marshal_json n) = COk n.
Proof. exact roundtrip_u256_json. Qed.
Print Assumptions C19_roundtrip_u256_json.

(* ---- 3. no truncation ---- *)
Theorem C19_no_truncation : forall w s n, In w [8; 16; 32; 64] ->
  parse_uint s w = COk n -> n < 2 ^ w.
Proof. exact parse_uint_bound_w. Qed.
Print Assumptions C19_no_truncation.

Theorem C19_no_truncation_json : forall w s n, In w [8; 16; 32; 64] ->
  uint_unmarshal_json s w = COk n -> n < 2 ^ w.
Proof. exact (fun w s n _ => uint_json_bound s w n). Qed.
Print Assumptions C19_no_truncation_json.

(* hence the narrowing casts uintN(x) of UnmarshalText / conv.UintNUnmarshal are the identity *)
Theorem C19_cast_identity_text : forall w s, In w [8; 16; 32; 64] ->
  uint_unmarshal_text s w = parse_uint s w.
Proof. exact (fun w s _ => unmarshal_text_cast_id s w). Qed.
Print Assumptions C19_cast_identity_text.

Theorem C19_cast_identity_json : forall w s, In w [8; 16; 32; 64] ->
  uint_unmarshal_json_cast s w = uint_unmarshal_json s w.
Proof. exact (fun w s _ => unmarshal_json_cast_id s w). Qed.
Print Assumptions C19_cast_identity_json.

Theorem C19_no_truncation_u256_text : forall s n, u256_unmarshal_text s = COk n -> n < 2 ^ 256.
Proof. exact u256_text_bound. Qed.
Print Assumptions C19_no_truncation_u256_text.

Theorem C19_no_truncation_u256_json : forall s n, u256_unmarshal_json s = COk n -> n < 2 ^ 256.
Proof. exact u256_json_bound. Qed.
Print Assumptions C19_no_truncation_u256_json.

(* ---- 4. decimal exactness ---- *)
Theorem C19_decimal_exact : forall w s, In w [8; 16; 32; 64] -> canonical_dec s ->
  parse_uint s w =
  match dec_value s with
  | Some v => if v <? 2 ^ w then COk v else CRange
  | None => CSyntax
  end.
Proof. exact (fun w s Hw => parse_uint_decimal s w (In_widths w Hw)). Qed.
Print Assumptions C19_decimal_exact.

Theorem C19_decimal_exact_u256 : forall s, canonical_dec s ->
  u256_unmarshal_text s =
  match dec_value s with
  | Some v => if v <? 2 ^ 256 then COk v else CRange
  | None => COther
  end.
Proof. exact u256_text_decimal. Qed.
Print Assumptions C19_decimal_exact_u256.

(* a sign is never accepted by the fixed-width parser *)
Theorem C19_sign_rejected : forall w m r, ch m = 45 \/ ch m = 43 -> parse_uint (m :: r) w = CSyntax.
Proof. exact (fun w m r => parse_uint_sign m r w). Qed.
Print Assumptions C19_sign_rejected.

(* uint256: a negative number is a range error *)
Theorem C19_u256_negative : forall n, n <> 0 ->
  u256_unmarshal_text (byte_of_N 45 :: print_dec n) = CRange.
Proof. exact u256_text_minus_dec. Qed.
Print Assumptions C19_u256_negative.

(* ---- 5. the other accepted syntaxes: the result is the denoted number ---- *)
Theorem C19_denotes : forall w s n, parse_uint s w = COk n -> denote_uint s = Some n.
Proof. exact (fun w s n => parse_uint_denotes s w n). Qed.
Print Assumptions C19_denotes.

(* ... and conversely every literal is either accepted with exactly its value, or rejected
   (range error if it does not fit; syntax error for misplaced underscores) *)
Theorem C19_parse_exact : forall w s v, In w [8; 16; 32; 64] -> denote_uint s = Some v ->
  parse_uint s w =
  if v <? 2 ^ w then
    (if has_underscore s && negb (underscore_ok s) then CSyntax else COk v)
  else CRange.
Proof. exact (fun w s v Hw => parse_uint_exact s w v (In_widths w Hw)). Qed.
Print Assumptions C19_parse_exact.

Theorem C19_u256_denotes : forall s n, u256_unmarshal_text s = COk n ->
  n < 2 ^ 256 /\
  exists body, denote_uint body = Some n /\
    (s = body \/ exists sg, s = sg :: body /\ (ch sg = 43 \/ (ch sg = 45 /\ n = 0))).
Proof. exact u256_text_sound. Qed.
Print Assumptions C19_u256_denotes.

Theorem C19_u256_exact : forall s v, has_underscore s = false -> denote_uint s = Some v ->
  u256_unmarshal_text s = if v <? 2 ^ 256 then COk v else CRange.
Proof. exact u256_text_exact. Qed.
Print Assumptions C19_u256_exact.

(* ---- 6. hex ---- *)
Theorem C19_hex_roundtrip : forall bs,
  fixed_bytes_unmarshal (lenN bs) (bytes_marshal_text bs) = Some bs.
Proof. exact hex_roundtrip. Qed.
Print Assumptions C19_hex_roundtrip.

Theorem C19_hex_fixed : forall k text bs, fixed_bytes_unmarshal k text = Some bs ->
  lenN bs = k /\ hex_decode (strip_0x text) = Some bs /\ lenN (strip_0x text) = 2 * k.
Proof. exact hex_fixed. Qed.
Print Assumptions C19_hex_fixed.

Theorem C19_hex_fixed_iff : forall k text bs, fixed_bytes_unmarshal k text = Some bs <->
  lenN bs = k /\ hex_decode (strip_0x text) = Some bs.
Proof. exact hex_fixed_iff. Qed.
Print Assumptions C19_hex_fixed_iff.

(* the accepted text is the hex of the result, up to letter case *)
Theorem C19_hex_decode_denotes : forall t bs, hex_decode t = Some bs ->
  hex_encode bs = map to_lower_hex t.
Proof. exact hex_decode_fold. Qed.
Print Assumptions C19_hex_decode_denotes.

Theorem C19_hex_decode_length : forall t bs, hex_decode t = Some bs -> lenN t = 2 * lenN bs.
Proof. exact hex_decode_length. Qed.
Print Assumptions C19_hex_decode_length.

(* accepted are exactly the even-length strings of hex digits *)
Theorem C19_hex_decode_accepts : forall t,
  (exists bs, hex_decode t = Some bs) <->
  (Nat.even (length t) = true /\ forallb is_hex_digit t = true).
Proof. exact hex_decode_accepts. Qed.
Print Assumptions C19_hex_decode_accepts.

Theorem C19_hex_decode_odd : forall t, Nat.even (length t) = false -> hex_decode t = None.
Proof. exact hex_decode_odd. Qed.
Print Assumptions C19_hex_decode_odd.

Theorem C19_hex_decode_nonhex : forall t b, In b t -> is_hex_digit b = false ->
  hex_decode t = None.
Proof. exact hex_decode_nonhex. Qed.
Print Assumptions C19_hex_decode_nonhex.

(* ---- addendum to 1: the canonical numeral is unique (print_dec inverts dec_value) ---- *)
Theorem C19_canonical_unique : forall s n,
  canonical_dec s -> dec_value s = Some n -> s = print_dec n.
Proof. exact canonical_dec_unique. Qed.
Print Assumptions C19_canonical_unique.

(* ---- dynamic-size hex decoding ---- *)
From Ztyp Require Import Extras ExtrasProofs.

Theorem C19_dynamic_hex_roundtrip :
  forall bs, dynamic_bytes_unmarshal (bytes_marshal_text bs) = Some bs.
Proof. exact dynamic_bytes_roundtrip. Qed.
Print Assumptions C19_dynamic_hex_roundtrip.

Theorem C19_dynamic_hex_length :
  forall text bs, dynamic_bytes_unmarshal text = Some bs -> lenN (strip_0x text) = 2 * lenN bs.
Proof. exact dynamic_bytes_length. Qed.
Print Assumptions C19_dynamic_hex_length.
