(* C02 — for every supported type and value, serializing the view yields exactly the SSZ-spec
   encoding and the reported value byte length equals the length of that encoding; through the
   typed getters (element, field, bit, selector, length) the view returns the component values.

   The theorems are stated for ANY backing tree [n] that represents the value [v] of type [t]
   ([repr zh t n v], Repr.v): the constructed view ([from_val], C01_from_val_repr / theorem 10
   below), and the view obtained by deserializing the encoding (DecodeProofs: decoding
   [spec_ser t v] yields a representing tree).  Theorem 11 says that any two backings of the same
   value are indistinguishable by Serialize, ValueByteLength, HashTreeRoot and the getters, which
   is the "deserialize . serialize" half of the property once the decoded tree represents v.

   Model functions (View.v, transcriptions of /repo/view/*.go):
     ser_node        Serialize               byte_len      ValueByteLength
     list_length     Length                  view_get      Get (bit / packed element / element / field)
     union_selector  Selector                union_value   Value
     read_val fuel   reads the whole value back through these getters, recursively
   Spec: [spec_ser] (Spec.v).  [ty_depth t] (SerProofs.v) is the nesting depth of t.

   Side conditions (boolean, on the type only):
     wf_ty         the SSZ spec defines the type                                          (Types.v)
     small_params  every length / limit is at most 2^56 (no uint64 wrap in the Go code)    (Repr.v)
     small_fields  every container has at most 2^63 fields (ToGindex64 / the node iterator reject
                   depth >= 64)                                                       (ReprProofs.v)
   Size premises (on the value):
     Serialize:        lenN (spec_ser t v) < 2^32 — the code's real precondition: WriteOffset panics
                       for offsets or sizes of 2^32 and more (SerProofs.ex_write_offset_panics)
     ValueByteLength:  lenN (spec_ser t v) < 2^64 (uint64 arithmetic)
   No bound on spec_max_len is needed. *)
From Ztyp Require Import Base Bitlen Tree Types Spec View Repr ReprProofs SerProofs.
Open Scope N_scope.

(* 1. Serialize = the spec encoding, for all ten type constructors *)
Theorem C02_serialize :
  forall (zh : nat -> chunk) t v n,
    wf_ty t = true -> small_params t = true -> small_fields t = true ->
    has_type v t = true -> repr zh t n v -> lenN (spec_ser t v) < 2 ^ 32 ->
    ser_node t n = OK (spec_ser t v).
Proof. exact ser_node_spec. Qed.
Print Assumptions C02_serialize.

(* 2. ValueByteLength = the length of the spec encoding *)
Theorem C02_byte_length :
  forall (zh : nat -> chunk) t v n,
    wf_ty t = true -> small_params t = true -> small_fields t = true ->
    has_type v t = true -> repr zh t n v -> lenN (spec_ser t v) < 2 ^ 64 ->
    byte_len t n = OK (lenN (spec_ser t v)).
Proof. exact byte_len_spec. Qed.
Print Assumptions C02_byte_length.

(* 3. Length of bitlists and lists *)
Theorem C02_length_bitlist :
  forall (zh : nat -> chunk) k n bs,
    small_params (TBitlist k) = true -> has_type (VBits bs) (TBitlist k) = true ->
    repr zh (TBitlist k) n (VBits bs) -> list_length k n = OK (lenN bs).
Proof. exact length_bits. Qed.
Print Assumptions C02_length_bitlist.

Theorem C02_length_list :
  forall (zh : nat -> chunk) e k n vs,
    small_params (TList e k) = true -> has_type (VSeq vs) (TList e k) = true ->
    repr zh (TList e k) n (VSeq vs) -> list_length k n = OK (lenN vs).
Proof. exact length_list. Qed.
Print Assumptions C02_length_list.

(* 4. Get on bitvectors and bitlists ([has_type (VBits bs) t] forces t to be one of the two):
      bit i for i < length, an error (never a panic, never a wrong bit) beyond *)
Theorem C02_get_bit :
  forall (zh : nat -> chunk) t bs n i,
    wf_ty t = true -> small_params t = true -> has_type (VBits bs) t = true ->
    repr zh t n (VBits bs) ->
    view_get t n i =
    if i <? lenN bs then OK (GVal (VBool (nth (N.to_nat i) bs false))) else Err.
Proof. exact get_bit. Qed.
Print Assumptions C02_get_bit.

(* 5. Get on vectors and lists of packed basic elements (uintN) *)
Theorem C02_get_packed :
  forall (zh : nat -> chunk) t w k vs n i,
    t = TVector (TUint w) k \/ t = TList (TUint w) k ->
    wf_ty t = true -> small_params t = true -> has_type (VSeq vs) t = true ->
    repr zh t n (VSeq vs) ->
    view_get t n i = if i <? lenN vs then OK (GVal (nth (N.to_nat i) vs (VUint 0))) else Err.
Proof. exact get_packed. Qed.
Print Assumptions C02_get_packed.

(* 6. Get on vectors and lists of other elements: a backing that represents element i *)
Theorem C02_get_complex :
  forall (zh : nat -> chunk) t e k vs n i,
    t = TVector e k \/ t = TList e k -> is_basic_elem e = false ->
    small_params t = true -> has_type (VSeq vs) t = true -> repr zh t n (VSeq vs) ->
    (forall x, nth_error vs (N.to_nat i) = Some x ->
               exists m, view_get t n i = OK (GNode e m) /\ repr zh e m x) /\
    (lenN vs <= i -> view_get t n i = Err).
Proof. exact get_elem. Qed.
Print Assumptions C02_get_complex.

(* 7. Get on containers: a backing that represents field i *)
Theorem C02_get_field :
  forall (zh : nat -> chunk) fs vs n i,
    small_params (TContainer fs) = true -> small_fields (TContainer fs) = true ->
    has_type (VCont vs) (TContainer fs) = true -> repr zh (TContainer fs) n (VCont vs) ->
    (forall f x, nth_error fs (N.to_nat i) = Some f -> nth_error vs (N.to_nat i) = Some x ->
                 exists m, view_get (TContainer fs) n i = OK (GNode f m) /\ repr zh f m x) /\
    (lenN fs <= i -> view_get (TContainer fs) n i = Err).
Proof. exact get_field. Qed.
Print Assumptions C02_get_field.

(* 8. Selector and Value of unions *)
Theorem C02_union :
  forall (zh : nat -> chunk) none opts sel ov n,
    wf_ty (TUnion none opts) = true -> has_type (VUnion sel ov) (TUnion none opts) = true ->
    repr zh (TUnion none opts) n (VUnion sel ov) ->
    union_selector (TUnion none opts) n = OK sel /\
    match ov with
    | None => union_value (TUnion none opts) n = OK None
    | Some x => exists o c, union_value (TUnion none opts) n = OK (Some (o, c)) /\
                            union_opt none opts sel = Some o /\
                            has_type x o = true /\ repr zh o c x
    end.
Proof. exact union_spec. Qed.
Print Assumptions C02_union.

(* 9. reading the whole value back through the getters returns the value
      (fuel: any bound on the nesting depth of the type) *)
Theorem C02_read_val :
  forall (zh : nat -> chunk) t v n fuel,
    wf_ty t = true -> small_params t = true -> small_fields t = true ->
    has_type v t = true -> repr zh t n v -> (ty_depth t <= fuel)%nat ->
    read_val fuel t n = OK v.
Proof. exact read_val_spec. Qed.
Print Assumptions C02_read_val.

(* 10. the view constructed from a value: encoding, byte length, getters *)
Theorem C02_roundtrip_model :
  forall (H : chunk -> chunk -> chunk) (zh : nat -> chunk), (forall d, zh d = zero_hash H d) ->
  forall t v n,
    wf_ty t = true -> small_params t = true -> small_fields t = true -> has_type v t = true ->
    from_val zh t v = OK n -> lenN (spec_ser t v) < 2 ^ 32 ->
    ser_node t n = OK (spec_ser t v) /\
    byte_len t n = OK (lenN (spec_ser t v)) /\
    (forall fuel, (ty_depth t <= fuel)%nat -> read_val fuel t n = OK v).
Proof. exact roundtrip_model. Qed.
Print Assumptions C02_roundtrip_model.

(* 11. two backings of the same value (e.g. the original view and the deserialized encoding)
       have the same encoding, byte length, component values and hash-tree-root
       (the root needs [no_bool_seq]: known finding D3, see C01) *)
Theorem C02_repr_agree :
  forall (H : chunk -> chunk -> chunk) (zh : nat -> chunk), (forall d, zh d = zero_hash H d) ->
  forall t v n n',
    wf_ty t = true -> small_params t = true -> small_fields t = true -> has_type v t = true ->
    repr zh t n v -> repr zh t n' v -> lenN (spec_ser t v) < 2 ^ 32 ->
    ser_node t n' = ser_node t n /\
    byte_len t n' = byte_len t n /\
    (forall fuel, (ty_depth t <= fuel)%nat -> read_val fuel t n' = read_val fuel t n) /\
    (no_bool_seq t = true -> root_of H n' = root_of H n).
Proof. exact repr_agree. Qed.
Print Assumptions C02_repr_agree.

(* ---- the second sentence of the property: deserializing the encoding ---- *)
From Ztyp Require Import DecodeProofs RouteProofs.

Theorem C02_deserialize_roundtrip :
  forall (H : chunk -> chunk -> chunk) (zh : nat -> chunk), (forall d, zh d = zero_hash H d) ->
  forall t v,
    wf_ty t = true -> small_params t = true -> sizes_ok t = true -> small_fields t = true ->
    has_type v t = true -> lenN (spec_ser t v) < 2 ^ 32 ->
    exists n,
      view_deserialize zh t (spec_ser t v) = OK n /\
      ser_node t n = OK (spec_ser t v) /\
      byte_len t n = OK (lenN (spec_ser t v)) /\
      (forall fuel, (ty_depth t <= fuel)%nat -> read_val fuel t n = OK v) /\
      (no_bool_seq t = true -> root_of H n = spec_htr H t v).
Proof. exact deser_route. Qed.
Print Assumptions C02_deserialize_roundtrip.
