(* C12 — partial trees (model: Tree.v SummaryInto / Getter / Setter, View.v typed reads, Iter.v,
   Mut.v the typed mutations on the pure machine TM).
   "For every view whose backing has had arbitrary subtrees replaced by their summary roots, the
   hash-tree-root is unchanged and every read or mutation either reports an error or produces
   exactly the result it would have produced on the full tree; it never panics and never
   silently yields different data."

   [H] is an arbitrary pair hash, [zh] the zero-hash table ([forall d, zh d = zero_hash H d] where
   zero subtrees matter).  n is the full tree, n' the partial tree.
   Spec vocabulary (defined and explained at the top of PartialProofs.v):
     summ H n n'        n' is n with some subtrees replaced by the leaf holding their root:
                          summ n n | summ n (Leaf (root_of H n))
                          | summ a a' -> summ b b' -> summ (Pair a b) (Pair a' b')
     eosR R r' r        := r' = Err \/ (r' = Panic /\ r = Panic) \/
                           exists a a', r = OK a /\ r' = OK a' /\ R a a'
                        ("error or same up to R"; with R = eq this is r' = Err \/ r' = r)
     zero_collision_free H zh n
                        := forall p m k, get_path n p = OK m -> root_of H m = zh k -> zt zh k m
                        (a subtree of n whose root is a zero hash is a zero subtree); implied
                        for every tree by zero_preimage_free H (C12_zero_preimage_free).  Needed
                        for Append / Pop only (writes with expansion) and cannot be dropped
                        (C12_collision_hypothesis_needed).
     got_sim H g g'     GVal v ~ GVal v;  GNode e m ~ GNode e m' with summ H m m'
     step_sim H s s'    IVal v ~ IVal v; INode t m ~ INode t m' with summ H m m';
                        IEnd ~ IEnd; IPanic ~ IPanic
     iter_sim H l l'    l' follows l step by step (step_sim) until l' ends with [IErr]
     hsim / ssim / msim handles, machine states, mutation results related by summ on backings
     mutating o         o is Set / Append / Pop / Change;  op_expands o: Append / Pop
     summarize_all      summarize applied to a list of gindices, one after the other
     typed_state zh st  every handle's backing represents a well-typed value of the handle's type
     hooks_dec st       every BackingHook points to an older handle (as OGet creates them)
     hist_sim l l'      the result lists are equal up to the first [Err] of l' (the partial
                        machine's), after which nothing is claimed. *)
From Ztyp Require Import Base Bitlen Tree Types Spec View Iter Mut Repr VMach
     TreeProofs IterProofs MutProofs PartialProofs.
Open Scope N_scope.

(* ---------------- 1. summaries keep the root; summarize produces them ---------------- *)
Theorem C12_summ_root : forall H n n', summ H n n' -> root_of H n' = root_of H n.
Proof. exact summ_root. Qed.
Print Assumptions C12_summ_root.

Theorem C12_summarize_summ : forall H zh n g n', summarize zh H n g = OK n' -> summ H n n'.
Proof. exact summarize_summ. Qed.
Print Assumptions C12_summarize_summ.

Theorem C12_summ_trans : forall H a b c, summ H a b -> summ H b c -> summ H a c.
Proof. exact summ_trans. Qed.
Print Assumptions C12_summ_trans.

(* any number of summarisations, anywhere *)
Theorem C12_summarize_all : forall H zh gs n n',
  summarize_all H zh n gs = OK n' -> summ H n n' /\ root_of H n' = root_of H n.
Proof. exact summarize_all_root. Qed.
Print Assumptions C12_summarize_all.

(* ---------------- 2. navigation and writes ---------------- *)
Theorem C12_get : forall H p n n' m',
  summ H n n' -> get_path n' p = OK m' -> exists m, get_path n p = OK m /\ summ H m m'.
Proof. exact summ_get. Qed.
Print Assumptions C12_get.

Theorem C12_get_total : forall n' p, get_path n' p <> Panic.
Proof. exact get_path_total. Qed.
Print Assumptions C12_get_total.

Theorem C12_get_err_or_same : forall H n n' p, summ H n n' ->
  get_path n' p = Err \/ (get_path n' p = Panic /\ get_path n p = Panic) \/
  exists m m', get_path n p = OK m /\ get_path n' p = OK m' /\ summ H m m'.
Proof. exact summ_get_eosR. Qed.
Print Assumptions C12_get_err_or_same.

(* data (a leaf of the full tree) is read unchanged or not at all *)
Theorem C12_get_leaf : forall H n n' p c, summ H n n' -> get_path n p = OK (Leaf c) ->
  get_path n' p = Err \/ get_path n' p = OK (Leaf c).
Proof. exact summ_get_leaf. Qed.
Print Assumptions C12_get_leaf.

(* writes without expansion *)
Theorem C12_set_noexp : forall H zh p n n' v v' r',
  summ H n n' -> summ H v v' -> set_path zh n' p false v' = OK r' ->
  exists r, set_path zh n p false v = OK r /\ summ H r r'.
Proof. exact summ_set_noexp. Qed.
Print Assumptions C12_set_noexp.

Theorem C12_set_noexp_err_or_same : forall H zh n n' p v v', summ H n n' -> summ H v v' ->
  eosR (summ H) (set_path zh n' p false v') (set_path zh n p false v).
Proof. exact summ_set_noexp_eosR. Qed.
Print Assumptions C12_set_noexp_err_or_same.

Theorem C12_set_noexp_total : forall zh n' p v', set_path zh n' p false v' <> Panic.
Proof. exact set_path_noexp_total. Qed.
Print Assumptions C12_set_noexp_total.

(* writes with expansion: a summary leaf is expanded when its value is the zero hash of its
   height; without collisions with the zero hashes the full tree has a zero subtree there *)
Theorem C12_set_expand : forall H zh, (forall d, zh d = zero_hash H d) ->
  forall p n n' v v' r',
  zero_collision_free H zh n -> summ H n n' -> summ H v v' ->
  set_path zh n' p true v' = OK r' ->
  exists r, set_path zh n p true v = OK r /\ summ H r r' /\ root_of H r' = root_of H r.
Proof. exact summ_set_expand_root. Qed.
Print Assumptions C12_set_expand.

Theorem C12_set_expand_err_or_same : forall H zh, (forall d, zh d = zero_hash H d) ->
  forall n n' p v v', (length p <= 65)%nat ->
  zero_collision_free H zh n -> summ H n n' -> summ H v v' ->
  eosR (summ H) (set_path zh n' p true v') (set_path zh n p true v).
Proof. exact summ_set_expand_eosR. Qed.
Print Assumptions C12_set_expand_err_or_same.

Theorem C12_set_total : forall zh p n' e v', (length p <= 65)%nat -> set_path zh n' p e v' <> Panic.
Proof. exact set_path_total. Qed.
Print Assumptions C12_set_total.

Theorem C12_zero_preimage_free : forall H zh, (forall d, zh d = zero_hash H d) ->
  forall n,
  (forall a b k, H a b = zero_hash H k ->
     exists k', k = S k' /\ a = zero_hash H k' /\ b = zero_hash H k') ->
  zero_collision_free H zh n.
Proof. exact zpf_zcf. Qed.
Print Assumptions C12_zero_preimage_free.

(* ---------------- 3. reads of well-typed views ---------------- *)
Theorem C12_length : forall H zh t v n n' limit,
  is_list_ty t = true -> has_type v t = true -> repr zh t n v -> summ H n n' ->
  list_length limit n' = Err \/ list_length limit n' = list_length limit n.
Proof.
  exact (fun H zh t v n n' limit Ht Hty Hr Hs =>
           summ_list_length H zh t n n' limit Ht (ex_intro _ v (conj Hty Hr)) Hs).
Qed.
Print Assumptions C12_length.

Theorem C12_length_total : forall limit n', list_length limit n' <> Panic.
Proof. exact list_length_not_panic. Qed.
Print Assumptions C12_length_total.

Theorem C12_view_get : forall H zh t v n n' i,
  has_type v t = true -> repr zh t n v -> summ H n n' ->
  eosR (got_sim H) (view_get t n' i) (view_get t n i).
Proof.
  exact (fun H zh t v n n' i Hty Hr Hs =>
           summ_view_get H zh t n n' i (ex_intro _ v (conj Hty Hr)) Hs).
Qed.
Print Assumptions C12_view_get.

Theorem C12_view_get_val : forall H zh t v n n' i x,
  has_type v t = true -> repr zh t n v -> summ H n n' ->
  view_get t n' i = OK (GVal x) -> view_get t n i = OK (GVal x).
Proof.
  exact (fun H zh t v n n' i x Hty Hr Hs =>
           summ_view_get_val H zh t n n' i x (ex_intro _ v (conj Hty Hr)) Hs).
Qed.
Print Assumptions C12_view_get_val.

Theorem C12_view_get_node : forall H zh t v n n' i e m',
  has_type v t = true -> repr zh t n v -> summ H n n' ->
  view_get t n' i = OK (GNode e m') ->
  exists m, view_get t n i = OK (GNode e m) /\ summ H m m'.
Proof.
  exact (fun H zh t v n n' i e m' Hty Hr Hs =>
           summ_view_get_node H zh t n n' i e m' (ex_intro _ v (conj Hty Hr)) Hs).
Qed.
Print Assumptions C12_view_get_node.

Theorem C12_view_get_total : forall t n' i, view_get t n' i <> Panic.
Proof. exact view_get_no_panic. Qed.
Print Assumptions C12_view_get_total.

Theorem C12_ser_node : forall H zh t v n n',
  wf_ty t = true -> has_type v t = true -> repr zh t n v -> summ H n n' ->
  ser_node t n' = Err \/ ser_node t n' = ser_node t n.
Proof.
  exact (fun H zh t v n n' Hwf Hty Hr Hs =>
           summ_ser_node H zh t n n' Hwf (ex_intro _ v (conj Hty Hr)) Hs).
Qed.
Print Assumptions C12_ser_node.

Theorem C12_ser_node_no_panic : forall H zh t v n n',
  wf_ty t = true -> has_type v t = true -> repr zh t n v -> summ H n n' ->
  ser_node t n <> Panic -> ser_node t n' <> Panic.
Proof.
  exact (fun H zh t v n n' Hwf Hty Hr Hs =>
           eos_no_panic _ _ (summ_ser_node H zh t n n' Hwf (ex_intro _ v (conj Hty Hr)) Hs)).
Qed.
Print Assumptions C12_ser_node_no_panic.

Theorem C12_byte_len : forall H zh t v n n',
  wf_ty t = true -> has_type v t = true -> repr zh t n v -> summ H n n' ->
  byte_len t n' = Err \/ byte_len t n' = byte_len t n.
Proof.
  exact (fun H zh t v n n' Hwf Hty Hr Hs =>
           summ_byte_len H zh t n n' Hwf (ex_intro _ v (conj Hty Hr)) Hs).
Qed.
Print Assumptions C12_byte_len.

Theorem C12_byte_len_no_panic : forall H zh t v n n',
  wf_ty t = true -> has_type v t = true -> repr zh t n v -> summ H n n' ->
  byte_len t n <> Panic -> byte_len t n' <> Panic.
Proof.
  exact (fun H zh t v n n' Hwf Hty Hr Hs =>
           eos_no_panic _ _ (summ_byte_len H zh t n n' Hwf (ex_intro _ v (conj Hty Hr)) Hs)).
Qed.
Print Assumptions C12_byte_len_no_panic.

(* the node iterator, any tree, any depth: an error or the nodes of the full tree up to summ *)
Theorem C12_node_iter : forall H n n' len depth, summ H n n' ->
  eosR (Forall2 (summ H)) (node_iter_all n' len depth) (node_iter_all n len depth).
Proof. exact summ_node_iter_plain. Qed.
Print Assumptions C12_node_iter.

(* SubtreeIntoBytes over bottom nodes that are data (leaves) in the full tree *)
Theorem C12_subtree_into_bytes : forall H c c' depth len dl, summ H c c' ->
  (forall q m, q < len -> bottom c depth q = OK m -> exists x, m = Leaf x) ->
  subtree_into_bytes c' depth len dl = Err \/
  subtree_into_bytes c' depth len dl = subtree_into_bytes c depth len dl.
Proof. exact summ_subtree_into_bytes. Qed.
Print Assumptions C12_subtree_into_bytes.

(* View.ReadonlyIter() drained *)
Theorem C12_iter : forall H zh t v n n' extra,
  wf_ty t = true -> has_type v t = true -> repr zh t n v -> summ H n n' ->
  iter_sim H (ro_iter t n extra) (ro_iter t n' extra).
Proof.
  exact (fun H zh t v n n' extra Hwf Hty Hr Hs =>
           summ_ro_iter H zh t n n' extra Hwf (ex_intro _ v (conj Hty Hr)) Hs).
Qed.
Print Assumptions C12_iter.

Theorem C12_iter_comp : forall H zh t v n n' extra i s',
  wf_ty t = true -> has_type v t = true -> repr zh t n v -> summ H n n' ->
  nth_error (ro_iter t n' extra) i = Some s' -> is_comp s' = true ->
  exists s, nth_error (ro_iter t n extra) i = Some s /\ step_sim H s s'.
Proof.
  exact (fun H zh t v n n' extra i s' Hwf Hty Hr Hs =>
           summ_ro_iter_comp H zh t n n' extra i s' Hwf (ex_intro _ v (conj Hty Hr)) Hs).
Qed.
Print Assumptions C12_iter_comp.

Theorem C12_iter_no_panic : forall H zh t v n n' extra,
  wf_ty t = true -> has_type v t = true -> repr zh t n v -> summ H n n' ->
  ~ In IPanic (ro_iter t n extra) -> ~ In IPanic (ro_iter t n' extra).
Proof.
  exact (fun H zh t v n n' extra Hwf Hty Hr Hs =>
           summ_ro_iter_no_panic H zh t n n' extra Hwf (ex_intro _ v (conj Hty Hr)) Hs).
Qed.
Print Assumptions C12_iter_no_panic.

(* View.Iter() / Get(i) for every index: each entry is an error or the full tree's entry *)
Theorem C12_get_all : forall H zh t v n n',
  has_type v t = true -> repr zh t n v -> summ H n n' ->
  get_all t n' = [IErr] \/
  Forall2 (fun s s' => s' = IErr \/ step_sim H s s') (get_all t n) (get_all t n').
Proof.
  exact (fun H zh t v n n' Hty Hr Hs =>
           summ_get_all H zh t n n' (ex_intro _ v (conj Hty Hr)) Hs).
Qed.
Print Assumptions C12_get_all.

(* the whole value read back through the typed getters (view -> getters -> plain value) *)
Theorem C12_read_val : forall H zh fuel t v n n',
  wf_ty t = true -> has_type v t = true -> repr zh t n v -> summ H n n' ->
  read_val fuel t n' = Err \/ read_val fuel t n' = read_val fuel t n.
Proof.
  exact (fun H zh fuel t v n n' Hwf Hty Hr Hs =>
           summ_read_val H zh fuel t n n' Hwf (ex_intro _ v (conj Hty Hr)) Hs).
Qed.
Print Assumptions C12_read_val.

(* ---------------- 4. mutations ---------------- *)
(* one mutation of a handle x (backing: the full tree) against the same mutation of x' (backing:
   the partial tree), in machine states whose other handles are related the same way *)
Theorem C12_mutation : forall H zh, (forall d, zh d = zero_hash H d) ->
  forall st st' x x' o v,
  ssim H st st' -> hsim H x x' ->
  has_type v (h_ty node x) = true -> repr zh (h_ty node x) (h_back node x) v ->
  (op_expands o = true -> zero_collision_free H zh (h_back node x)) ->
  eosR (msim H)
    (mutate node unit p_get (p_set zh) p_leaf p_pair p_chunk (p_zero zh) p_true zh st' x' o)
    (mutate node unit p_get (p_set zh) p_leaf p_pair p_chunk (p_zero zh) p_true zh st x o).
Proof.
  exact (fun H zh Hzh st st' x x' o v Hst Hx Hty Hr Hz =>
           summ_mutate H zh Hzh st st' x x' o Hst Hx (ex_intro _ v (conj Hty Hr)) Hz).
Qed.
Print Assumptions C12_mutation.

(* the machine step on a view of the partial tree: an error that leaves the view untouched, or
   the outcome on the full tree with summ-related new backings (same data, same root) *)
Theorem C12_tm_step : forall H zh, (forall d, zh d = zero_hash H d) ->
  forall t v n n' o,
  mutating o = true -> has_type v t = true -> repr zh t n v ->
  (op_expands o = true -> zero_collision_free H zh n) -> summ H n n' ->
  (snd (tm_step zh (tm_init t n') o) = Err /\ fst (tm_step zh (tm_init t n') o) = tm_init t n') \/
  (snd (tm_step zh (tm_init t n') o) = snd (tm_step zh (tm_init t n) o) /\
   exists m m', fst (tm_step zh (tm_init t n) o) = tm_init t m /\
                fst (tm_step zh (tm_init t n') o) = tm_init t m' /\ summ H m m').
Proof.
  exact (fun H zh Hzh t v n n' o Hm Hty Hr Hz Hs =>
           summ_tm_step H zh Hzh t n n' o Hm (ex_intro _ v (conj Hty Hr)) Hz Hs).
Qed.
Print Assumptions C12_tm_step.

Theorem C12_mutation_root : forall H zh, (forall d, zh d = zero_hash H d) ->
  forall t v n n' o,
  mutating o = true -> has_type v t = true -> repr zh t n v ->
  (op_expands o = true -> zero_collision_free H zh n) -> summ H n n' ->
  snd (tm_step zh (tm_init t n') o) = Err \/
  (snd (tm_step zh (tm_init t n') o) = snd (tm_step zh (tm_init t n) o) /\
   exists m m', fst (tm_step zh (tm_init t n) o) = tm_init t m /\
                fst (tm_step zh (tm_init t n') o) = tm_init t m' /\
                root_of H m' = root_of H m).
Proof.
  exact (fun H zh Hzh t v n n' o Hm Hty Hr Hz Hs =>
           summ_tm_step_root H zh Hzh t n n' o Hm (ex_intro _ v (conj Hty Hr)) Hz Hs).
Qed.
Print Assumptions C12_mutation_root.

(* any operation (typed Get of a sub-view, union value, copy, Set / Append / Pop / Change with
   the BackingHook chain up to the root view), any machine state with related handles *)
Theorem C12_tm_step_any : forall H zh, (forall d, zh d = zero_hash H d) ->
  forall st st' o,
  ssim H st st' -> typed_state zh st -> hooks_dec st ->
  (op_expands o = true -> forall x, get_handle node unit st (op_target o) = OK x ->
                          zero_collision_free H zh (h_back node x)) ->
  snd (tm_step zh st' o) = Err \/
  (snd (tm_step zh st' o) = snd (tm_step zh st o) /\
   ssim H (fst (tm_step zh st o)) (fst (tm_step zh st' o))).
Proof. exact summ_tm_step_any. Qed.
Print Assumptions C12_tm_step_any.

(* whole histories, with C04 (R: the full machine against plain values; srcs_ok: well-typed
   sources): the partial machine answers like the full one until it reports an error; if it
   never does, the final states are related (same roots, same data) *)
Theorem C12_history : forall H zh, (forall d, zh d = zero_hash H d) ->
  (forall n, zero_collision_free H zh n) ->
  forall os tm vm tm', R zh tm vm -> srcs_ok vm os -> ssim H tm tm' ->
  hist_sim (tm_trace zh tm os) (tm_trace zh tm' os) /\
  (~ In Err (tm_trace zh tm' os) -> ssim H (tm_run zh tm os) (tm_run zh tm' os)).
Proof. exact summ_history. Qed.
Print Assumptions C12_history.

(* with C04: well-typed views and sources never panic, partial or not *)
Theorem C12_mutation_no_panic : forall H zh, (forall d, zh d = zero_hash H d) ->
  forall tm vm tm' x x' y o,
  R zh tm vm -> hrel zh x y ->
  (forall h s, op_src o = Some (h, s) -> src_fits vm (op_want (vh_ty y) o) s) ->
  ssim H tm tm' -> hsim H x x' ->
  (op_expands o = true -> zero_collision_free H zh (h_back node x)) ->
  mutate node unit p_get (p_set zh) p_leaf p_pair p_chunk (p_zero zh) p_true zh tm' x' o <> Panic.
Proof. exact summ_mutate_no_panic. Qed.
Print Assumptions C12_mutation_no_panic.

Theorem C12_tm_step_no_panic : forall H zh, (forall d, zh d = zero_hash H d) ->
  forall tm vm tm' o,
  R zh tm vm -> src_ok vm o -> ssim H tm tm' ->
  (op_expands o = true -> forall x, get_handle node unit tm (op_target o) = OK x ->
                          zero_collision_free H zh (h_back node x)) ->
  snd (tm_step zh tm' o) <> Panic.
Proof. exact summ_tm_step_no_panic. Qed.
Print Assumptions C12_tm_step_no_panic.

(* the collision hypothesis is necessary: a pair hash cH with one collision with a zero hash
   (cH (xc 9) 0 = cH 0 0), the list [9] of type List[uint256, 2], its contents summarised;
   Append(11) succeeds on both trees, the roots differ and element 0 is silently lost *)
Theorem C12_collision_hypothesis_needed :
  from_val czh cex_ty (VSeq [VUint 9]) = OK cex_full /\
  summarize czh cH cex_full 2 = OK cex_part /\
  (exists m m',
     tm_step czh (tm_init cex_ty cex_full) cex_op = (tm_init cex_ty m, OK MUnit) /\
     tm_step czh (tm_init cex_ty cex_part) cex_op = (tm_init cex_ty m', OK MUnit) /\
     root_of cH m' <> root_of cH m /\
     view_get cex_ty m 0 = OK (GVal (VUint 9)) /\
     view_get cex_ty m' 0 = OK (GVal (VUint 0))) /\
  ~ zero_collision_free cH czh cex_full.
Proof. exact cex_collision. Qed.
Print Assumptions C12_collision_hypothesis_needed.
